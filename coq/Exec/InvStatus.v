(* C03 (status): which error Run reports.  For every program, configuration and schedule and every
   completed run, mon_C03_status (Exec/Monitors.v) holds of the trace and Run's result:
   - a failure that reaches a root makes Run fail (Exec/InvFail.v);
   - nothing failed: no exit-status error (Exec/InvFail.v);
   - exactly one non-ignored failing command ended, commands are the only source of errors
     (only_cmd_errors) and nobody was skipped in favour of a shared execution: if the failure reaches
     a root Run reports exactly the task-run error carrying its exit status, otherwise Run succeeds.

   Proof of the last clause ("the first error wins, and every other error is a consequence"):
   - before the failing command ends the machine is in the error-free regime of Exec/InvDefer.v
     ([clean]); the command ends under an uncancelled context, so its activation holds EExit n;
   - afterwards there is a frontier activation F on the climb chain of the failing activation that
     holds the real error ([arrived]); everything outside the call subtree of F is still error free
     ([oinv]) and every cancelled context only covers activations inside that subtree or activations
     that have returned ([cinv]); so nobody outside observes a cancellation, the errgroup of the next
     chain activation is still empty when F returns, and the frontier moves up with the same error
     (wrapped at a root) until Run's error is set, or until a caller with ignore_error / a deferred
     call drops it ([J], [J_step_self], [J_step_other]);
   - contexts: every context created by an activation (execution context of a dedup owner, group
     context of its deps) only covers activations of its call subtree ([ctxinv], all reachable states).
   [status_single_reaching_refuted]: without the "nobody was skipped" guard the clause is false
   (a skipped caller reports the cancelled owner's error, which can win the race to the root). *)
From Coq Require Import List Arith Bool Lia.
Import ListNotations.
From TV Require Import Exec.Model Exec.Monitors Exec.Facts Exec.InvSlots Exec.Proj Exec.InvPaths Exec.Frame
  Exec.InvUniq Exec.InvPhase Exec.InvTree Exec.InvDedup Exec.Progress Exec.InvDefer Exec.InvFail
  Exec.InvDeps Exec.InvCalls.

(* ------------------------------------------------------------------ *)
(* what a step does to the stepping activation: results, clean steps, Run's error *)

Definition carried (q : pc) : option res :=
  match q with
  | PDefers r | PDRun r _ | PDProbe r _ | PDCallWait r _ | PDCallReacq r | PEnd r | PRelease r | PDone r => Some r
  | _ => None
  end.

Definition is_pw (q : pc) : bool := match q with PWRelease _ | PWWait _ | PWReacq _ => true | _ => false end.

(* clean, or holding an exit-status error of a callee that the task is about to ignore *)
Definition pc_cleanx (tk : task) (q : pc) : bool :=
  pc_clean q || match q with PCallReacq _ (RErr (EExit _)) => t_ignore tk | _ => false end.

Record cview1 (p : prog) (c : cfg) (s s' : state) (x x' : act) : Prop := {
  c1_carry : forall r, carried (a_pc x) = Some r -> carried (a_pc x') = Some r;
  c1_fail : forall e, a_pc x = PFail e -> a_pc x' = PDefers (RErr (wrap_cmd_error x e));
  c1_reacq : forall e, a_pc x = PDepsReacq -> a_gerr x = Some e -> a_pc x' = PEnd (RErr (wrap_deps_error x e));
  c1_noskip : is_pw (a_pc x') = true -> is_pw (a_pc x) = true \/ exists k, trace s' = trace s ++ [EvSkipping k (a_path x)];
  c1_clean : guards_fine c (get_task p (a_task x)) -> ~ callcount_trips c s x ->
             (fin (a_pc x) = false -> cancelled s (a_ectx x) = false) ->
             pc_cleanx (get_task p (a_task x)) (a_pc x) = true -> a_gerr x = None -> is_pw (a_pc x) = false ->
             (forall i k r, a_pc x = PCallWait i k -> act_result s k = Some r ->
                r = ROk \/ (t_ignore (get_task p (a_task x)) = true /\ exists n, r = RErr (EExit n))) ->
             pc_cleanx (get_task p (a_task x)) (a_pc x') = true \/
             exists i n, a_pc x = PProbe i /\ fail_tk (get_task p (a_task x)) i = true /\
                         nth_error (t_cmds (get_task p (a_task x))) i = Some (Shell (S n) false) /\
                         a_pc x' = PFail (EExit (S n)) /\ trace s' = trace s ++ [EvProbeEnd (a_path x) i];
  c1_rung : rungerr s' = rungerr s \/
            (rungerr s = None /\ a_kind x = KRoot /\ exists e, rungerr s' = Some e /\ a_pc x' = PDone (RErr e));
  c1_rung2 : forall e, a_kind x = KRoot -> a_pc x' = PDone (RErr e) -> rungerr s = None -> rungerr s' = Some e
}.

Lemma step_cview1 p c s a s' x x' :
  get_act s a = Some x -> step p c s a = Some s' -> get_act s' a = Some x' -> cview1 p c s s' x x'.
Proof.
  intros Hx H Hx'.
  pose proof (pj_lt noG _ _ _ Hx) as Hlt.
  step_cases H Hx;
  try (match goal with _ : get_act ?S' a = Some x' |- _ =>
           let E := fresh "E" in
           eassert (E : pj noG S' = upd (pj noG s) a _ ++ []);
           [autorewrite with ngdb; simpl; autorewrite with ngdb; rewrite ?app_nil_r; reflexivity|];
           let Hn := fresh "Hn" in
           pose proof (noG_at _ _ _ _ _ _ E Hlt Hx') as Hn; clear E;
           apply noG_fields in Hn; destruct Hn as (Np & _ & _ & Nk & _ & Hq & _); simpl in Hq, Np, Nk;
           constructor; rewrite ?Hpc, ?Hq;
        [ first [solve [simpl; intros ? Heq; try discriminate; inversion Heq; subst; reflexivity] | fail]
        | first [solve [simpl; intros ? Heq; try discriminate; inversion Heq; subst; reflexivity] | fail]
        | first [solve [simpl; intros; try discriminate; congruence] | fail]
        | first [solve [simpl; intros; try discriminate; auto;
                        right; eexists; autorewrite with sigdb; simpl; reflexivity] | fail]
        | first [solve [intros (Hreq & Henum & Hpre & Hprompt) Htrip HG Hcl Hg Hnpw Hres;
                        unfold pc_cleanx in *; simpl in Hcl, Hnpw |- *; try discriminate;
                        rewrite ?orb_false_r in Hcl;
                        try (rewrite Hreq in *; discriminate); try (rewrite Henum in *; discriminate);
                        try (rewrite Hprompt in *; discriminate); try congruence;
                        try (exfalso; apply Htrip; split; assumption);
                        try (pose proof (HG eq_refl) as HG'; rewrite HG' in *; rewrite ?andb_false_r, ?andb_true_r in *; try discriminate);
                        try (match goal with Ho : g_precond _ = Some ?b |- _ =>
                               destruct b; simpl in *; try discriminate; try (exfalso; apply Hpre; exact Ho) end);
                        try (match goal with He : is_exit ?e = _ |- _ =>
                               is_var e; destruct e; simpl in *; try discriminate; try congruence end);
                        first [ left; solve [ reflexivity | assumption | rewrite ?orb_false_r; assumption ]
                              | match goal with Ho : act_result s ?k = Some ?r |- _ =>
                                  destruct (Hres _ _ _ eq_refl Ho) as [->|[Hig [n0 ->]]]; left; simpl; [reflexivity|exact Hig] end
                              | right; do 2 eexists; split; [reflexivity|]; split;
                                [ unfold fail_tk;
                                  repeat match goal with Hm : nth_error _ _ = Some _ |- _ => rewrite Hm end;
                                  repeat match goal with Hm : t_ignore _ = _ |- _ => rewrite Hm end; reflexivity
                                | split; [eassumption|split; [reflexivity|autorewrite with sigdb; simpl; reflexivity]] ]
                              ] ] | fail]
        | first [solve [autorewrite with rrdb; simpl; autorewrite with rrdb; auto;
                        destruct (a_kind x) eqn:Ek; simpl; auto; unfold gerr_after; destruct (rungerr s); auto;
                        try match goal with |- context [match ?r with ROk => _ | RErr _ => _ end] => destruct r end; eauto 8] | fail]
        | first [solve [intros e0 Hk0 Hq0 Hr0; try discriminate; autorewrite with rrdb; simpl; autorewrite with rrdb;
                        rewrite Hk0, Hr0; simpl; inversion Hq0; subst; reflexivity] | fail] ]
           end).
  - (* fork deps *)
    pose proof Heqp0 as Hfd. apply fork_deps_spec in Hfd. simpl in Hfd.
    destruct Hfd as [news (Ha & _ & Htr & _ & _ & _ & _ & Hge & _)].
    assert (E : pj noG (set_act s0 a (set_kids (set_holds (set_pc x PDepsJoin) false) l (length (ctxs (release c s)))))
                = upd (pj noG s) a (noG (set_kids (set_holds (set_pc x PDepsJoin) false) l (length (ctxs (release c s))))) ++ map noG news).
    { unfold pj at 1. rewrite acts_set_act, map_upd, Ha, release_acts, map_app. rewrite upd_app_l by exact Hlt. reflexivity. }
    pose proof (noG_at _ _ _ _ _ _ E Hlt Hx') as Hn.
    apply noG_fields in Hn; destruct Hn as (Np & _ & _ & Nk & _ & Hq & _); simpl in Hq, Np, Nk.
    constructor; rewrite ?Hpc, ?Hq; simpl; try (intros; discriminate).
    + intros. left. reflexivity.
    + left. rewrite Hge. apply rungerr_release.
  - (* call *)
    match goal with _ : get_act (set_act ?S0 a ?X) a = Some x' |- _ =>
      assert (E : pj noG (set_act S0 a X) = upd (pj noG s) a (noG X) ++ [noG (new_act (a_path x ++ [length (t_deps (get_task p (a_task x))) + i]) (c_task c1) (eval_var (a_var x) (c_var c1)) KCall (Some a) (a_ectx x))]) end.
    { unfold pj at 1. rewrite acts_set_act, map_upd. simpl. rewrite release_acts, map_app. rewrite upd_app_l by exact Hlt. reflexivity. }
    pose proof (noG_at _ _ _ _ _ _ E Hlt Hx') as Hn.
    apply noG_fields in Hn; destruct Hn as (Np & _ & _ & Nk & _ & Hq & _); simpl in Hq, Np, Nk.
    constructor; rewrite ?Hpc, ?Hq; simpl; try (intros; discriminate).
    + intros. left. reflexivity.
    + left. apply rungerr_release.
  - (* deferred call *)
    match goal with _ : get_act (set_act ?S0 a ?X) a = Some x' |- _ =>
      assert (E : pj noG (set_act S0 a X) = upd (pj noG s) a (noG X) ++ [noG (new_act (a_path x ++ [length (t_deps (get_task p (a_task x))) + n]) (c_task c1) (eval_var (a_var x) (c_var c1)) KDefer (Some a) background_ctx)]) end.
    { unfold pj at 1. rewrite acts_set_act, map_upd. simpl. rewrite release_acts, map_app. rewrite upd_app_l by exact Hlt. reflexivity. }
    pose proof (noG_at _ _ _ _ _ _ E Hlt Hx') as Hn.
    apply noG_fields in Hn; destruct Hn as (Np & _ & _ & Nk & _ & Hq & _); simpl in Hq, Np, Nk.
    constructor; rewrite ?Hpc, ?Hq; simpl; try (intros; discriminate).
    + auto.
    + intros _ _ _ Hcl _ _ _. left. exact Hcl.
    + left. apply rungerr_release.
Qed.

(* ------------------------------------------------------------------ *)
(* contexts through the state updaters *)

Lemma noG_ctxs x y : noG x = noG y ->
  a_ctx x = a_ctx y /\ a_ectx x = a_ectx y /\ a_gctx x = a_gctx y /\ a_regkey x = a_regkey y /\
  a_pc x = a_pc y /\ a_kind x = a_kind y /\ a_parent x = a_parent y.
Proof. unfold noG. intros H. inversion H. repeat split; congruence. Qed.

Lemma parents_notify s x r : parents (notify_parent s x r) = parents s.
Proof.
  unfold notify_parent. destruct (a_kind x); try reflexivity.
  destruct (a_parent x) as [pa|]; try reflexivity. destruct r as [|e]; try reflexivity.
  destruct (get_act s pa) as [px|]; try reflexivity. destruct (a_gerr px); try reflexivity.
  rewrite parents_cancel. reflexivity.
Qed.

Lemma parents_finish s a x r : parents (finish s a x r) = parents s.
Proof.
  unfold finish.
  assert (E : parents (notify_parent (emit (set_act s a (set_pc x (PDone r))) (EvEnd (a_path x) r)) x r) = parents s).
  { rewrite parents_notify. reflexivity. }
  destruct (a_kind x); try exact E.
  destruct r; [|destruct (rungerr _)]; rewrite ?parents_cancel; exact E.
Qed.

Lemma parents_acquire c s : parents (acquire c s) = parents s.
Proof. unfold parents. rewrite acquire_ctxs. reflexivity. Qed.
Lemma parents_release c s : parents (release c s) = parents s.
Proof. unfold parents. rewrite release_ctxs. reflexivity. Qed.
Lemma parents_set_act s a x : parents (set_act s a x) = parents s. Proof. reflexivity. Qed.
Lemma parents_emit s e : parents (emit s e) = parents s. Proof. reflexivity. Qed.

Global Hint Rewrite parents_finish parents_cancel parents_acquire parents_release parents_set_act parents_emit : pardb.

Lemma flagged_finish s a x r k :
  a_parent x <> Some a ->
  flagged (finish s a x r) k ->
  flagged s k \/
  exists e, r = RErr e /\
    ((a_kind x = KDep /\ exists pa px, a_parent x = Some pa /\ get_act s pa = Some px /\ a_gerr px = None /\ k = a_gctx px) \/
     (a_kind x = KRoot /\ rungerr s = None /\ k = root_ctx)).
Proof.
  intros Hself H. unfold finish in H.
  set (s1 := emit (set_act s a (set_pc x (PDone r))) (EvEnd (a_path x) r)) in *.
  assert (Hn : flagged (notify_parent s1 x r) k ->
               flagged s k \/ exists e, r = RErr e /\ a_kind x = KDep /\ exists pa px, a_parent x = Some pa /\ get_act s pa = Some px /\ a_gerr px = None /\ k = a_gctx px).
  { unfold notify_parent. destruct (a_kind x) eqn:Ek; try (intros Hf; left; exact Hf).
    destruct (a_parent x) as [pa|] eqn:Ep; [|intros Hf; left; exact Hf].
    destruct r as [|e]; [intros Hf; left; exact Hf|].
    destruct (get_act s1 pa) as [px|] eqn:Epx; [|intros Hf; left; exact Hf].
    destruct (a_gerr px) eqn:Eg; [intros Hf; left; exact Hf|].
    intros Hf. apply flagged_cancel in Hf. destruct Hf as [Hf| ->]; [left; exact Hf|].
    right. exists e. split; [reflexivity|]. split; [reflexivity|]. exists pa, px. repeat split; auto.
    unfold s1 in Epx. unfold get_act in *. simpl in Epx. rewrite nth_error_upd_other in Epx by congruence. exact Epx. }
  assert (Hg : rungerr (notify_parent s1 x r) = rungerr s) by (rewrite rungerr_notify; reflexivity).
  destruct (a_kind x) eqn:Ek; try (destruct (Hn H) as [Hf|(e & He & Hk & Hrest)]; [left; exact Hf|discriminate]);
    try (destruct (Hn H) as [Hf|(e & He & Hk & Hrest)]; [left; exact Hf|right; exists e; split; [exact He|left; split; [reflexivity|exact Hrest]]]).
  (* root *)
  destruct r as [|e].
  - assert (Hf : flagged (notify_parent s1 x ROk) k) by exact H.
    destruct (Hn Hf) as [Hf'|(e & He & _)]; [left; exact Hf'|discriminate].
  - rewrite Hg in H. destruct (rungerr s) eqn:Er.
    + assert (Hf : flagged (notify_parent s1 x (RErr e)) k) by exact H.
      destruct (Hn Hf) as [Hf'|(e1 & He & Hk & _)]; [left; exact Hf'|discriminate].
    + apply flagged_cancel in H. destruct H as [H| ->].
      * assert (Hf : flagged (notify_parent s1 x (RErr e)) k) by exact H.
        destruct (Hn Hf) as [Hf'|(e1 & He & Hk & _)]; [left; exact Hf'|discriminate].
      * right. exists e. split; [reflexivity|]. right. repeat split; reflexivity.
Qed.

(* ------------------------------------------------------------------ *)
(* what a step does to the contexts *)

Definition new_ctx_ok (s : state) (x : act) (y : act) : Prop :=
  a_ectx y = a_ctx y /\ a_gctx y = a_ctx y /\ a_regkey y = None /\
  match a_kind y with
  | KDep => a_ctx y = length (ctxs s)
  | KCall => a_ctx y = a_ectx x
  | KDefer => a_ctx y = background_ctx
  | KRoot => False
  end.

Definition flag_cause (s : state) (x x' : act) (k : nat) : Prop :=
  (exists r, a_pc x = PEnd r /\ a_pc x' = PRelease r /\ a_regkey x <> None /\ k = a_ectx x) \/
  (exists e, a_pc x' = PDone (RErr e) /\
     ((a_kind x = KDep /\ exists pa px, a_parent x = Some pa /\ get_act s pa = Some px /\ a_gerr px = None /\ k = a_gctx px) \/
      (a_kind x = KRoot /\ rungerr s = None /\ k = root_ctx))).

Definition ctx_move (s : state) (x x' : act) (np : list (option nat)) : Prop :=
  (np = [] /\ a_ectx x' = a_ectx x /\ a_gctx x' = a_gctx x /\ a_regkey x' = a_regkey x /\
   (post_fork (a_pc x') = true -> post_fork (a_pc x) = true)) \/
  (np = [Some (a_ctx x)] /\ a_pc x = PDedup /\ a_pc x' = PDepsFork /\ a_ectx x' = length (ctxs s) /\
   a_gctx x' = a_gctx x /\ a_regkey x' <> None) \/
  (np = [Some (a_ectx x)] /\ a_pc x = PDepsFork /\ a_pc x' = PDepsJoin /\ a_ectx x' = a_ectx x /\
   a_gctx x' = length (ctxs s) /\ a_regkey x' = a_regkey x).

Record cview2 (s s' : state) (x x' : act) : Prop := {
  c2_ctx : a_ctx x' = a_ctx x;
  c2_par : exists np, parents s' = parents s ++ np /\ ctx_move s x x' np;
  c2_new : forall j y, length (acts s) <= j -> get_act s' j = Some y -> new_ctx_ok s x y;
  c2_flags : forall k, flagged s' k -> flagged s k \/ flag_cause s x x' k
}.

Lemma flagged_ctxs s s' : ctxs s' = ctxs s -> forall k, flagged s' k -> flagged s k.
Proof. unfold flagged. intros ->. auto. Qed.

Lemma step_cview2 p c s a s' x x' :
  get_act s a = Some x -> step p c s a = Some s' -> get_act s' a = Some x' -> a_parent x <> Some a ->
  cview2 s s' x x'.
Proof.
  intros Hx H Hx' Hself.
  pose proof (pj_lt noG _ _ _ Hx) as Hlt.
  step_cases H Hx;
  try (match goal with _ : get_act ?S' a = Some x' |- _ =>
           let E := fresh "E" in
           eassert (E : pj noG S' = upd (pj noG s) a _ ++ []);
           [autorewrite with ngdb; simpl; autorewrite with ngdb; rewrite ?app_nil_r; reflexivity|];
           let Hn := fresh "Hn" in
           pose proof (noG_at _ _ _ _ _ _ E Hlt Hx') as Hn;
           apply (f_equal (@length _)) in E; unfold pj in E; rewrite app_nil_r, upd_length, !map_length in E;
           apply noG_ctxs in Hn; destruct Hn as (Nc & Ne & Ng & Nr & Hq & Nk & Npar); simpl in Nc, Ne, Ng, Nr, Hq, Nk, Npar;
           constructor;
        [ first [solve [exact Nc] | fail]
        | first [solve [ exists []; split;
                         [ autorewrite with pardb; simpl; autorewrite with pardb; rewrite ?app_nil_r; reflexivity
                         | left; rewrite Hq, ?Hpc; repeat split; auto; simpl; intros; try discriminate; auto ]
                       | eexists [_]; split; [unfold parents; simpl; rewrite map_app; reflexivity|];
                         right; left; rewrite Hq, ?Hpc; repeat split; auto; rewrite Nr; discriminate ] | fail]
        | first [solve [intros j0 y0 Hj0 Hy0; exfalso;
                        assert (j0 < length (acts S')) by (apply nth_error_Some; unfold get_act in Hy0; rewrite Hy0; discriminate); lia] | fail]
        | first [solve [ intros k0 Hk0; left; revert k0 Hk0; apply flagged_ctxs; simpl; rewrite ?acquire_ctxs, ?release_ctxs; reflexivity
                       | intros k0 Hk0; left; revert k0 Hk0; eapply flagged_app; [simpl; reflexivity|reflexivity]
                       | intros k0 Hk0; apply flagged_finish in Hk0; [|simpl; exact Hself];
                         destruct Hk0 as [Hk0|(e0 & He0 & Hk0)];
                         [ left; revert k0 Hk0; apply flagged_ctxs; simpl; rewrite ?acquire_ctxs, ?release_ctxs; reflexivity
                         | right; right; exists e0; split; [rewrite Hq, He0; reflexivity|];
                           simpl in Hk0; unfold get_act in Hk0 |- *; simpl in Hk0; rewrite ?release_acts, ?rungerr_release in Hk0; exact Hk0 ] ]
                | idtac ] ]
           end).
  - (* fork deps *)
    pose proof Heqp0 as Hfd. apply fork_deps_spec in Hfd. simpl in Hfd.
    destruct Hfd as [news (Ha & _ & _ & _ & _ & Hcx & _ & _ & Hl & Hids & Hf & Hk)].
    destruct (fork_deps_news p _ _ _ _ _ _ _ _ Heqp0) as [news' [Ha' Hn']]. simpl in Ha'.
    rewrite Ha in Ha'. apply app_inv_head in Ha'. subst news'.
    rewrite release_ctxs in *.
    assert (E : pj noG (set_act s0 a (set_kids (set_holds (set_pc x PDepsJoin) false) l (length (ctxs s))))
                = upd (pj noG s) a (noG (set_kids (set_holds (set_pc x PDepsJoin) false) l (length (ctxs s)))) ++ map noG news).
    { unfold pj at 1. rewrite acts_set_act, map_upd, Ha, release_acts, map_app. rewrite upd_app_l by exact Hlt. reflexivity. }
    pose proof (noG_at _ _ _ _ _ _ E Hlt Hx') as Hn.
    apply noG_ctxs in Hn; destruct Hn as (Nc & Ne & Ng & Nr & Hq & Nk & Npar); simpl in Nc, Ne, Ng, Nr, Hq, Nk, Npar.
    constructor.
    + exact Nc.
    + exists [Some (a_ectx x)]. split.
      * unfold parents. simpl. rewrite Hcx, map_app. reflexivity.
      * right; right. repeat split; auto.
    + intros j y Hj Hy. unfold get_act in Hy. rewrite acts_set_act, nth_error_upd_other, Ha, release_acts in Hy.
      2:{ unfold pj in Hlt. rewrite map_length in Hlt. lia. }
      rewrite nth_error_app2 in Hy by exact Hj. apply nth_error_In in Hy.
      rewrite Forall_forall in Hn'. destruct (Hn' y Hy) as (pa & t & v & ->).
      unfold new_ctx_ok. simpl. repeat split; reflexivity.
    + intros k0 Hk0. left. revert k0 Hk0. eapply flagged_app; [simpl; exact Hcx|reflexivity].
  - (* call *)
    match goal with _ : get_act (set_act ?S0 a ?X) a = Some x' |- _ =>
      assert (E : pj noG (set_act S0 a X) = upd (pj noG s) a (noG X) ++ [noG (new_act (a_path x ++ [length (t_deps (get_task p (a_task x))) + i]) (c_task c1) (eval_var (a_var x) (c_var c1)) KCall (Some a) (a_ectx x))]) end.
    { unfold pj at 1. rewrite acts_set_act, map_upd. simpl. rewrite release_acts, map_app. rewrite upd_app_l by exact Hlt. reflexivity. }
    pose proof (noG_at _ _ _ _ _ _ E Hlt Hx') as Hn.
    apply noG_ctxs in Hn; destruct Hn as (Nc & Ne & Ng & Nr & Hq & Nk & Npar); simpl in Nc, Ne, Ng, Nr, Hq, Nk, Npar.
    constructor.
    + exact Nc.
    + exists []. split; [unfold parents; simpl; rewrite release_ctxs, app_nil_r; reflexivity|].
      left. rewrite Hq, Hpc. repeat split; auto.
    + intros j y Hj Hy. unfold get_act in Hy. rewrite acts_set_act, nth_error_upd_other in Hy.
      2:{ unfold pj in Hlt. rewrite map_length in Hlt. lia. }
      simpl in Hy. rewrite release_acts in Hy. rewrite nth_error_app2 in Hy by exact Hj.
      destruct (j - length (acts s)) as [|m] eqn:Ej; simpl in Hy; [|destruct m; discriminate].
      injection Hy as <-. unfold new_ctx_ok. simpl. repeat split; reflexivity.
    + intros k0 Hk0. left. revert k0 Hk0. apply flagged_ctxs. simpl. apply release_ctxs.
  - (* deferred call *)
    match goal with _ : get_act (set_act ?S0 a ?X) a = Some x' |- _ =>
      assert (E : pj noG (set_act S0 a X) = upd (pj noG s) a (noG X) ++ [noG (new_act (a_path x ++ [length (t_deps (get_task p (a_task x))) + n]) (c_task c1) (eval_var (a_var x) (c_var c1)) KDefer (Some a) background_ctx)]) end.
    { unfold pj at 1. rewrite acts_set_act, map_upd. simpl. rewrite release_acts, map_app. rewrite upd_app_l by exact Hlt. reflexivity. }
    pose proof (noG_at _ _ _ _ _ _ E Hlt Hx') as Hn.
    apply noG_ctxs in Hn; destruct Hn as (Nc & Ne & Ng & Nr & Hq & Nk & Npar); simpl in Nc, Ne, Ng, Nr, Hq, Nk, Npar.
    constructor.
    + exact Nc.
    + exists []. split; [unfold parents; simpl; rewrite release_ctxs, app_nil_r; reflexivity|].
      left. rewrite Hq, Hpc. repeat split; auto.
    + intros j y Hj Hy. unfold get_act in Hy. rewrite acts_set_act, nth_error_upd_other in Hy.
      2:{ unfold pj in Hlt. rewrite map_length in Hlt. lia. }
      simpl in Hy. rewrite release_acts in Hy. rewrite nth_error_app2 in Hy by exact Hj.
      destruct (j - length (acts s)) as [|m] eqn:Ej; simpl in Hy; [|destruct m; discriminate].
      injection Hy as <-. unfold new_ctx_ok. simpl. repeat split; reflexivity.
    + intros k0 Hk0. left. revert k0 Hk0. apply flagged_ctxs. simpl. apply release_ctxs.
  - (* PEnd of an owner *)
    intros k0 Hk0.
    assert (Hk1 : flagged (cancel_ctx s (a_ectx x)) k0) by exact Hk0.
    apply flagged_cancel in Hk1. destruct Hk1 as [Hk1| ->]; [left; exact Hk1|].
    right. left. exists r. rewrite Hq. repeat split; auto. congruence.
Qed.

(* ------------------------------------------------------------------ *)
(* contexts only cover the call subtree of their creator *)

(* a context created by activation z: its execution context (dedup owner) or its deps group context *)
Definition created (z : act) (k : nat) : Prop := (k = a_ectx z \/ k = a_gctx z) /\ k <> a_ctx z.

Record ctxinv (p : prog) (s : state) : Prop := {
  ci_refs : forall j y, get_act s j = Some y ->
            a_ctx y < length (ctxs s) /\ a_ectx y < length (ctxs s) /\ a_gctx y < length (ctxs s);
  ci_par : par_ok (parents s);
  ci_base : nth_error (parents s) 0 = Some None /\ nth_error (parents s) 1 = Some None;
  ci_big : forall j z k, get_act s j = Some z -> created z k -> 2 <= k;
  ci_own : forall j z, get_act s j = Some z -> a_regkey z <> None -> a_ectx z <> a_ctx z;
  ci_dep : forall j y pa px, get_act s j = Some y -> a_kind y = KDep -> a_parent y = Some pa -> get_act s pa = Some px ->
           a_ctx y = a_gctx px /\ a_gctx px <> a_ctx px;
  ci_sc : forall jz z jy y k, get_act s jz = Some z -> get_act s jy = Some y -> created z k -> under s y k ->
          prefix_of_aid (a_path z) (a_path y) = true;
  ci_unfl : ~ flagged s 1
}.

Lemma plen s : length (parents s) = length (ctxs s).
Proof. unfold parents. apply map_length. Qed.

Lemma ci_L2 p s : ctxinv p s -> 2 <= length (ctxs s).
Proof.
  intros Hc. destruct (ci_base _ _ Hc) as [_ H1]. rewrite <- plen.
  assert (1 < length (parents s)) by (apply nth_error_Some; rewrite H1; discriminate). lia.
Qed.

(* classification of the activations of the successor state *)
Lemma step_cls p c s a s' x x' :
  get_act s a = Some x -> step p c s a = Some s' -> get_act s' a = Some x' ->
  forall j y', get_act s' j = Some y' ->
    (j = a /\ y' = x') \/
    (j <> a /\ exists y, get_act s j = Some y /\ noG y' = noG y) \/
    (length (acts s) <= j /\ get_act s j = None /\ a_parent y' = Some a).
Proof.
  intros Hx H Hx' j y' Hy'. destruct (Nat.eq_dec j a) as [->|Hne]; [left; split; congruence|].
  destruct (get_act s j) as [y|] eqn:Hy.
  - right; left. split; auto. exists y. split; auto.
    destruct (step_other p c s a s' j y H Hne Hy) as [y'' [H1 H2]]. congruence.
  - right; right. assert (Hge : length (acts s) <= j) by (apply nth_error_None; exact Hy).
    destruct (step_new p c s a s' j y' H Hge Hy') as (_ & H2 & _). auto.
Qed.

Lemma reach_old P np c0 k : par_ok P -> c0 < length P -> reach (P ++ np) c0 k -> reach P c0 k.
Proof. apply reach_app_inv. Qed.

Lemma reach_lt P c0 k : par_ok P -> reach P c0 k -> k <= c0.
Proof. apply reach_le. Qed.

Lemma prefix_trans a b c : prefix_of_aid a b = true -> prefix_of_aid b c = true -> prefix_of_aid a c = true.
Proof.
  intros H1 H2. destruct (prefix_of_aid_inv _ _ H1) as [l1 ->]. destruct (prefix_of_aid_inv _ _ H2) as [l2 ->].
  rewrite <- app_assoc. apply prefix_of_aid_intro.
Qed.

Lemma get_lt s j y : get_act s j = Some y -> j < length (acts s).
Proof. intros H. apply nth_error_Some. unfold get_act in H. rewrite H. discriminate. Qed.

Definition under_alt (s s' : state) (a : nat) (x : act) (j : nat) (y' : act) (k : nat) : Prop :=
  (k = length (ctxs s) /\ prefix_of_aid (a_path x) (a_path y') = true) \/
  (exists y, get_act s j = Some y /\ under s y k /\ a_path y = a_path y') \/
  (length (acts s) <= j /\ a_parent y' = Some a /\ under s x k /\ prefix_of_aid (a_path x) (a_path y') = true) \/
  k = background_ctx.

Lemma under_step p c s a s' x :
  inv_tree p s -> uniq p (pj csof s) -> ctxinv p s -> step p c s a = Some s' -> get_act s a = Some x ->
  forall j y' k, get_act s' j = Some y' -> under s' y' k -> under_alt s s' a x j y' k.
Proof.
  intros Htree Huq Hc H Hx0.
  pose proof (step_uniq p c s a s' Huq H) as Huq'.
  destruct (step_some_act _ _ _ _ _ H) as [x1 Hx]. rewrite Hx0 in Hx. injection Hx as <-. rename Hx0 into Hx.
  destruct (step_self p c s a s' x H Hx) as [x' Hx'].
  assert (Hself : a_parent x <> Some a).
  { intros E. pose proof (it_par _ _ Htree a x a Hx E). lia. }
  pose proof (step_cview2 p c s a s' x x' Hx H Hx' Hself) as V.
  pose proof (step_cls p c s a s' x x' Hx H Hx') as Hcls.
  destruct (step_own p c s a s' x x' Hx H Hx') as [Hstat _]. apply stat_fields in Hstat.
  destruct Hstat as (Sp & St & Sv & Sk & Spar).
  destruct (c2_par _ _ _ _ V) as [np [Hpar Hmove]].
  pose proof (c2_ctx _ _ _ _ V) as Hctx.
  set (L := length (ctxs s)) in *.
  pose proof (ci_L2 _ _ Hc) as HL2. fold L in HL2.
  destruct (ci_refs _ _ Hc a x Hx) as (Rx1 & Rx2 & Rx3). fold L in Rx1, Rx2, Rx3.
  assert (HPL : length (parents s) = L) by apply plen.
  assert (Hnp : length np <= 1 /\ length (ctxs s') = L + length np).
  { rewrite <- (plen s'), Hpar, app_length, HPL.
    destruct Hmove as [(-> & _)|[(-> & _)|(-> & _)]]; simpl; lia. }
  destruct Hnp as [Hnp1 HL'].
  (* fields of the stepping activation stay in range *)
  assert (Rx' : a_ctx x' < length (ctxs s') /\ a_ectx x' < length (ctxs s') /\ a_gctx x' < length (ctxs s')).
  { rewrite HL', Hctx. destruct Hmove as [(-> & E1 & E2 & _)|[(-> & _ & _ & E1 & E2 & _)|(-> & _ & _ & E1 & E2 & _)]];
      rewrite E1, E2; simpl; fold L; lia. }
  (* dep children only appear at a fork *)
  assert (Hfk : forall j y', length (acts s) <= j -> get_act s' j = Some y' -> a_kind y' = KDep ->
            np = [Some (a_ectx x)] /\ a_gctx x' = L /\ a_ectx x' = a_ectx x).
  { intros j y' Hge Hy' Hk.
    destruct (step_new p c s a s' j y' H Hge Hy') as (_ & _ & _ & _ & _ & Hf0).
    destruct (Hf0 Hk) as [x0 [Hx0 Hq0]]. rewrite Hx in Hx0. injection Hx0 as <-.
    destruct Hmove as [(-> & _ & _ & _ & Hpf)|[(-> & Hq1 & _)|(-> & _ & _ & E1 & E2 & _)]]; [|congruence|auto].
    exfalso. pose proof (vw_new _ _ _ _ _ (step_view p c s a s' x x' Hx H Hx') j y' Hge Hy') as [Hnv _].
    unfold new_view in Hnv. rewrite Hk in Hnv. rewrite Hnv in Hpf. specialize (Hpf eq_refl). rewrite Hq0 in Hpf. discriminate. }
  (* reachability from an old context *)
  assert (Hro : forall c0 k, c0 < L -> reach (parents s') c0 k -> reach (parents s) c0 k).
  { intros c0 k Hc0 Hr. rewrite Hpar in Hr. eapply reach_app_inv; [exact (ci_par _ _ Hc)|rewrite HPL; exact Hc0|exact Hr]. }
  intros j y' k Hy' Hu. unfold under_alt.
  assert (Hfresh : forall q, np = [Some q] -> q < L -> reach (parents s') L k -> k = L \/ reach (parents s) q k).
  { intros q -> Hq Hr. rewrite Hpar, <- HPL in Hr. apply reach_fresh in Hr. destruct Hr as [->|Hr]; [left; exact HPL|right].
    apply Hro; [exact Hq|]. rewrite Hpar. exact Hr. }
  destruct (Hcls j y' Hy') as [[-> ->]|[[Hja [y [Hy Hn]]]|(Hge & _ & Hpa)]].
  - (* the stepping activation *)
    assert (Hxu : forall k0, under s x k0 -> exists y, get_act s a = Some y /\ under s y k0 /\ a_path y = a_path x').
    { intros k0 Hk0. exists x. split; [exact Hx|]. split; [exact Hk0|]. symmetry. exact Sp. }
    destruct Hu as [Hu|[Hu|Hu]].
    + rewrite Hctx in Hu. right; left. apply Hxu. left. apply Hro; assumption.
    + destruct Hmove as [(-> & E1 & E2 & _)|[(-> & _ & _ & E1 & E2 & _)|(-> & _ & _ & E1 & E2 & _)]]; rewrite E1 in Hu.
      * right; left. apply Hxu. right; left. apply Hro; assumption.
      * destruct (Hfresh _ eq_refl Rx1 Hu) as [->|Hr].
        -- left. split; [reflexivity|]. rewrite Sp. apply prefix_of_aid_refl.
        -- right; left. apply Hxu. left. exact Hr.
      * right; left. apply Hxu. right; left. apply Hro; assumption.
    + destruct Hmove as [(-> & E1 & E2 & _)|[(-> & _ & _ & E1 & E2 & _)|(-> & _ & _ & E1 & E2 & _)]]; rewrite E2 in Hu.
      * right; left. apply Hxu. right; right. apply Hro; assumption.
      * right; left. apply Hxu. right; right. apply Hro; assumption.
      * destruct (Hfresh _ eq_refl Rx2 Hu) as [->|Hr].
        -- left. split; [reflexivity|]. rewrite Sp. apply prefix_of_aid_refl.
        -- right; left. apply Hxu. right; left. exact Hr.
  - (* an untouched activation *)
    pose proof (noG_ctxs _ _ Hn) as (N1 & N2 & N3 & _). apply noG_fields in Hn. destruct Hn as (Np & _).
    destruct (ci_refs _ _ Hc j y Hy) as (R1 & R2 & R3). fold L in R1, R2, R3.
    right; left. exists y. split; [exact Hy|]. split; [|symmetry; exact Np].
    unfold under in *. rewrite N1, N2, N3 in Hu.
    destruct Hu as [Hu|[Hu|Hu]]; [left|right; left|right; right]; apply Hro; assumption.
  - (* a fresh child of the stepping activation *)
    destruct (c2_new _ _ _ _ V j y' Hge Hy') as (E1 & E2 & _ & Hk).
    assert (Hu0 : reach (parents s') (a_ctx y') k).
    { unfold under in Hu. rewrite E1, E2 in Hu. tauto. }
    assert (Hkr : a_kind y' <> KRoot) by (intros E; rewrite E in Hk; exact Hk).
    destruct (parent_info p s' j y' Huq' Hy' Hkr) as (pa & z & m & Hp1 & Hz & Hpm).
    assert (pa = a) by congruence. subst pa. rewrite Hx' in Hz. injection Hz as <-.
    assert (Hpre : prefix_of_aid (a_path x) (a_path y') = true) by (rewrite Hpm, Sp; apply prefix_of_aid_intro).
    destruct (a_kind y') eqn:Ek; try contradiction.
    + rewrite Hk in Hu0. destruct (Hfk j y' Hge Hy' Ek) as (Enp & _ & _).
      destruct (Hfresh _ Enp Rx2 Hu0) as [->|Hr].
      * left. split; [reflexivity|exact Hpre].
      * right; right; left. repeat split; auto. right; left. exact Hr.
    + rewrite Hk in Hu0. right; right; left. repeat split; auto. right; left. apply Hro; assumption.
    + rewrite Hk in Hu0. right; right; right.
      assert (Hr : reach (parents s) background_ctx k) by (apply Hro; [unfold background_ctx; lia|exact Hu0]).
      exact (reach_base _ _ _ (proj2 (ci_base _ _ Hc)) Hr).
Qed.

Lemma step_ctxinv p c s a s' :
  inv_tree p s -> uniq p (pj csof s) -> ctxinv p s -> step p c s a = Some s' -> ctxinv p s'.
Proof.
  intros Htree Huq Hc H.
  pose proof (step_uniq p c s a s' Huq H) as Huq'.
  destruct (step_some_act _ _ _ _ _ H) as [x Hx].
  destruct (step_self p c s a s' x H Hx) as [x' Hx'].
  assert (Hself : a_parent x <> Some a).
  { intros E. pose proof (it_par _ _ Htree a x a Hx E). lia. }
  pose proof (step_cview2 p c s a s' x x' Hx H Hx' Hself) as V.
  pose proof (step_cls p c s a s' x x' Hx H Hx') as Hcls.
  destruct (step_own p c s a s' x x' Hx H Hx') as [Hstat _]. apply stat_fields in Hstat.
  destruct Hstat as (Sp & St & Sv & Sk & Spar).
  destruct (c2_par _ _ _ _ V) as [np [Hpar Hmove]].
  pose proof (c2_ctx _ _ _ _ V) as Hctx.
  set (L := length (ctxs s)) in *.
  pose proof (ci_L2 _ _ Hc) as HL2. fold L in HL2.
  destruct (ci_refs _ _ Hc a x Hx) as (Rx1 & Rx2 & Rx3). fold L in Rx1, Rx2, Rx3.
  assert (HPL : length (parents s) = L) by apply plen.
  assert (Hnp : length np <= 1 /\ length (ctxs s') = L + length np).
  { rewrite <- (plen s'), Hpar, app_length, HPL.
    destruct Hmove as [(-> & _)|[(-> & _)|(-> & _)]]; simpl; lia. }
  destruct Hnp as [Hnp1 HL'].
  (* fields of the stepping activation stay in range *)
  assert (Rx' : a_ctx x' < length (ctxs s') /\ a_ectx x' < length (ctxs s') /\ a_gctx x' < length (ctxs s')).
  { rewrite HL', Hctx. destruct Hmove as [(-> & E1 & E2 & _)|[(-> & _ & _ & E1 & E2 & _)|(-> & _ & _ & E1 & E2 & _)]];
      rewrite E1, E2; simpl; fold L; lia. }
  (* dep children only appear at a fork *)
  assert (Hfk : forall j y', length (acts s) <= j -> get_act s' j = Some y' -> a_kind y' = KDep ->
            np = [Some (a_ectx x)] /\ a_gctx x' = L /\ a_ectx x' = a_ectx x).
  { intros j y' Hge Hy' Hk.
    destruct (step_new p c s a s' j y' H Hge Hy') as (_ & _ & _ & _ & _ & Hf0).
    destruct (Hf0 Hk) as [x0 [Hx0 Hq0]]. rewrite Hx in Hx0. injection Hx0 as <-.
    destruct Hmove as [(-> & _ & _ & _ & Hpf)|[(-> & Hq1 & _)|(-> & _ & _ & E1 & E2 & _)]]; [|congruence|auto].
    exfalso. pose proof (vw_new _ _ _ _ _ (step_view p c s a s' x x' Hx H Hx') j y' Hge Hy') as [Hnv _].
    unfold new_view in Hnv. rewrite Hk in Hnv. rewrite Hnv in Hpf. specialize (Hpf eq_refl). rewrite Hq0 in Hpf. discriminate. }
  (* created contexts of the successor *)
  assert (Hcr' : forall j z' k, get_act s' j = Some z' -> created z' k ->
            (k = L /\ j = a /\ np <> []) \/ (k < L /\ exists z, get_act s j = Some z /\ created z k /\ a_path z = a_path z')).
  { intros j z' k Hz' [Hk Hne].
    destruct (Hcls j z' Hz') as [[-> ->]|[[Hja [z [Hz Hn]]]|(Hge & _ & _)]].
    - destruct Hmove as [(-> & E1 & E2 & _)|[(-> & _ & _ & E1 & E2 & _)|(-> & _ & _ & E1 & E2 & _)]];
        rewrite E1, E2, Hctx in *.
      + right. split; [destruct Hk as [->| ->]; assumption|]. exists x. repeat split; auto.
      + destruct Hk as [->| ->]; [left; repeat split; auto; discriminate|].
        right. split; [assumption|]. exists x. repeat split; auto.
      + destruct Hk as [->| ->]; [|left; repeat split; auto; discriminate].
        right. split; [assumption|]. exists x. repeat split; auto.
    - pose proof (noG_ctxs _ _ Hn) as (N1 & N2 & N3 & _). apply noG_fields in Hn. destruct Hn as (Np & _).
      destruct (ci_refs _ _ Hc j z Hz) as (R1 & R2 & R3). fold L in R1, R2, R3.
      right. split; [destruct Hk as [->| ->]; congruence|]. exists z. split; [exact Hz|].
      split; [|auto]. split; [destruct Hk as [->| ->]; [left|right]; congruence|congruence].
    - exfalso. destruct (c2_new _ _ _ _ V j z' Hge Hz') as (E1 & E2 & _). destruct Hk as [->| ->]; congruence. }
  (* reachability from an old context *)
  assert (Hro : forall c0 k, c0 < L -> reach (parents s') c0 k -> reach (parents s) c0 k).
  { intros c0 k Hc0 Hr. rewrite Hpar in Hr. eapply reach_app_inv; [exact (ci_par _ _ Hc)|rewrite HPL; exact Hc0|exact Hr]. }
  pose proof (under_step p c s a s' x Htree Huq Hc H Hx) as Hun'.
  constructor.
  - (* refs *)
    intros j y' Hy'. destruct (Hcls j y' Hy') as [[-> ->]|[[Hja [y [Hy Hn]]]|(Hge & _ & Hpa)]].
    + exact Rx'.
    + pose proof (noG_ctxs _ _ Hn) as (N1 & N2 & N3 & _).
      destruct (ci_refs _ _ Hc j y Hy) as (R1 & R2 & R3). fold L in R1, R2, R3. rewrite HL', N1, N2, N3. lia.
    + destruct (c2_new _ _ _ _ V j y' Hge Hy') as (E1 & E2 & _ & Hk). rewrite E1, E2, HL'.
      destruct (a_kind y') eqn:Ek; try contradiction; rewrite Hk.
      * destruct (Hfk j y' Hge Hy' Ek) as (-> & _). simpl. fold L. lia.
      * lia.
      * unfold background_ctx. lia.
  - (* par_ok *)
    rewrite Hpar. intros k q Hk. destruct (Nat.lt_ge_cases k (length (parents s))) as [Hlt|Hge].
    + rewrite nth_error_app1 in Hk by exact Hlt. exact (ci_par _ _ Hc k q Hk).
    + rewrite nth_error_app2 in Hk by exact Hge. rewrite HPL in *.
      destruct Hmove as [(-> & _)|[(-> & _)|(-> & _)]]; destruct (k - L) as [|m] eqn:Ek; simpl in Hk; try discriminate;
        try (destruct m; discriminate); injection Hk as <-; lia.
  - (* base *)
    destruct (ci_base _ _ Hc) as [B0 B1]. rewrite Hpar. split; rewrite nth_error_app1 by (rewrite HPL; lia); assumption.
  - (* created >= 2 *)
    intros j z' k Hz' Hcr. destruct (Hcr' j z' k Hz' Hcr) as [(-> & _)|(_ & z & Hz & Hcz & _)]; [exact HL2|].
    exact (ci_big _ _ Hc j z k Hz Hcz).
  - (* owners *)
    intros j z' Hz' Hrk. destruct (Hcls j z' Hz') as [[-> ->]|[[Hja [z [Hz Hn]]]|(Hge & _ & Hpa)]].
    + rewrite Hctx. destruct Hmove as [(-> & E1 & E2 & E3 & _)|[(-> & _ & _ & E1 & E2 & _)|(-> & _ & _ & E1 & E2 & E3)]]; rewrite E1.
      * apply (ci_own _ _ Hc a x Hx). congruence.
      * fold L. lia.
      * apply (ci_own _ _ Hc a x Hx). congruence.
    + pose proof (noG_ctxs _ _ Hn) as (N1 & N2 & N3 & N4 & _). rewrite N1, N2. apply (ci_own _ _ Hc j z Hz). congruence.
    + destruct (c2_new _ _ _ _ V j z' Hge Hz') as (_ & _ & E3 & _). congruence.
  - (* dep children *)
    intros j y' pa px' Hy' Hk Hp Hpx'.
    destruct (Hcls j y' Hy') as [[-> ->]|[[Hja [y [Hy Hn]]]|(Hge & _ & Hpa)]].
    + (* the stepping activation is a dep child *)
      assert (Hpa : pa <> a) by congruence.
      destruct (Hcls pa px' Hpx') as [[-> _]|[[_ [px [Hpx Hn]]]|(Hge & Hnone & _)]]; [congruence| |].
      * pose proof (noG_ctxs _ _ Hn) as (N1 & _ & N3 & _). rewrite Hctx, N1, N3.
        apply (ci_dep _ _ Hc a x pa px Hx); congruence.
      * exfalso. pose proof (it_par _ _ Htree a x pa Hx). assert (pa < a) by (apply H0; congruence).
        apply nth_error_None in Hnone. apply get_lt in Hx. lia.
    + pose proof (noG_ctxs _ _ Hn) as (N1 & _ & _ & _ & _ & N6 & N7).
      destruct (Hcls pa px' Hpx') as [[-> ->]|[[_ [px [Hpx Hn2]]]|(Hge & Hnone & _)]].
      * (* the parent steps: its group context does not change (it is past its fork) *)
        destruct (ci_dep _ _ Hc j y a x Hy) as [D1 D2]; [congruence|congruence|exact Hx|].
        rewrite N1, Hctx.
        destruct Hmove as [(-> & E1 & E2 & _)|[(-> & _ & _ & E1 & E2 & _)|(-> & Hq1 & _)]]; try (rewrite E2; split; assumption).
        exfalso. (* x at PDepsFork cannot have a dep child yet *)
        destruct Huq as [_ Hall]. rewrite Forall_forall in Hall.
        assert (He : entry_ok p (pj csof s) (csof y)) by (apply Hall; eapply nth_error_In; apply pj_nth; exact Hy).
        destruct He as (_ & _ & He). simpl in He. rewrite <- N7, Hp in He.
        destruct He as [_ (pxx & m & Hpxx & _ & Hcons)].
        rewrite (pj_nth csof _ _ _ Hx) in Hpxx. injection Hpxx as <-. simpl in Hcons. rewrite Hq1 in Hcons.
        unfold consumed in Hcons. simpl in Hcons.
        destruct (Nat.ltb m (length (t_deps (get_task p (a_task x))))); [discriminate|].
        assert (Hkd : a_kind y = KDep) by congruence.
        (* a dep child sits at a dep slot *)
        pose proof (it_par _ _ Htree j y a Hy) as _.
        destruct (nth_error (t_cmds (get_task p (a_task x))) (m - length (t_deps (get_task p (a_task x))))) as [[| | |]|]; discriminate.
      * pose proof (noG_ctxs _ _ Hn2) as (M1 & _ & M3 & _). rewrite N1, M1, M3.
        apply (ci_dep _ _ Hc j y pa px Hy); congruence.
      * exfalso. pose proof (it_par _ _ Htree j y pa Hy). assert (pa < j) by (apply H0; congruence).
        apply nth_error_None in Hnone. apply get_lt in Hy. lia.
    + (* fresh dep child *)
      assert (pa = a) by congruence. subst pa. rewrite Hx' in Hpx'. injection Hpx' as <-.
      destruct (c2_new _ _ _ _ V j y' Hge Hy') as (_ & _ & _ & Hkk). rewrite Hk in Hkk.
      destruct (Hfk j y' Hge Hy' Hk) as (_ & E2 & _).
      rewrite Hkk, E2, Hctx. fold L. split; [reflexivity|lia].
  - (* scoping *)
    intros jz z' jy y' k Hz' Hy' Hcr Hu.
    destruct (Hun' jy y' k Hy' Hu) as [(-> & Hpre)|[(y & Hy & Hu0 & Hpy)|[(Hge & _ & Hu0 & Hpre)| ->]]].
    + destruct (Hcr' jz z' _ Hz' Hcr) as [(_ & -> & _)|(Hlt & _)]; [|fold L in Hlt; lia].
      rewrite Hx' in Hz'. injection Hz' as <-. rewrite Sp. exact Hpre.
    + destruct (Hcr' jz z' k Hz' Hcr) as [(-> & _ & _)|(_ & z & Hz & Hcz & Hpz)].
      * exfalso. destruct (ci_refs _ _ Hc jy y Hy) as (R1 & R2 & R3). fold L in R1, R2, R3.
        destruct Hu0 as [Hr|[Hr|Hr]]; apply (reach_le _ _ _ (ci_par _ _ Hc)) in Hr; lia.
      * rewrite <- Hpz, <- Hpy. exact (ci_sc _ _ Hc jz z jy y k Hz Hy Hcz Hu0).
    + destruct (Hcr' jz z' k Hz' Hcr) as [(-> & _ & _)|(_ & z & Hz & Hcz & Hpz)].
      * exfalso. destruct Hu0 as [Hr|[Hr|Hr]]; apply (reach_le _ _ _ (ci_par _ _ Hc)) in Hr; lia.
      * rewrite <- Hpz. eapply prefix_trans; [|exact Hpre]. exact (ci_sc _ _ Hc jz z a x k Hz Hx Hcz Hu0).
    + exfalso. destruct (Hcr' jz z' _ Hz' Hcr) as [(E & _)|(_ & z & Hz & Hcz & _)].
      * unfold background_ctx in E. fold L in E. lia.
      * pose proof (ci_big _ _ Hc jz z _ Hz Hcz). unfold background_ctx in *. lia.
  - (* the background context is never cancelled *)
    intros Hf. destruct (c2_flags _ _ _ _ V 1 Hf) as [Hf0|[(r & _ & _ & Hrk & Hk)|(e & _ & [(Hkd & pa & px & Hp & Hpx & _ & Hk)|(_ & _ & Hk)])]].
    + exact (ci_unfl _ _ Hc Hf0).
    + pose proof (ci_own _ _ Hc a x Hx Hrk) as Hne.
      assert (Hcr : created x 1) by (split; [left; exact Hk|congruence]).
      pose proof (ci_big _ _ Hc a x 1 Hx Hcr). lia.
    + destruct (ci_dep _ _ Hc a x pa px Hx Hkd Hp Hpx) as [_ D2].
      assert (Hcr : created px 1) by (split; [right; exact Hk|congruence]).
      pose proof (ci_big _ _ Hc pa px 1 Hpx Hcr). lia.
    + unfold root_ctx in Hk. discriminate.
Qed.

(* ------------------------------------------------------------------ *)
(* roots; no "skipping" line, no waiter; live ancestors wait *)

Lemma ctxinv_init p : ctxinv p (init_state p).
Proof.
  assert (Hn : forall j y, get_act (init_state p) j = Some y -> False).
  { intros j y H. rewrite get_act_init in H. discriminate. }
  constructor; try (intros; exfalso; eapply Hn; eassumption).
  - intros k q H. unfold parents in H. simpl in H. destruct k as [|[|[|k]]]; discriminate.
  - split; reflexivity.
  - intros (r & Hr & Hc). simpl in Hr. injection Hr as <-. discriminate.
Qed.

Lemma start_root_ctxinv p c s k s' : inv_tree p s -> ctxinv p s -> start_root p c s k = Some s' -> ctxinv p s'.
Proof.
  intros Htree Hc H. pose proof (ci_L2 _ _ Hc) as HL2. unfold start_root in H.
  destruct (nth_error (cf_roots c) k) as [cl|]; [|discriminate].
  destruct (negb (precheck_ok p c) || root_started s k); [discriminate|].
  match type of H with (if ?b then _ else _) = _ => destruct b end; [|discriminate].
  injection H as <-. unfold add_act. simpl.
  set (n := new_act [k] (c_task cl) (eval_var 0 (c_var cl)) KRoot None root_ctx).
  set (s' := {| acts := acts s ++ [n]; used := used s; dedup := dedup s; calls := calls s; ctxs := ctxs s;
                trace := trace s; rootres := rootres s; rungerr := rungerr s |}).
  assert (Hget : forall j y, get_act s' j = Some y -> get_act s j = Some y \/ y = n).
  { intros j y Hy. eapply app_get_cls; [|exact Hy]. reflexivity. }
  assert (Hncr : forall k0, ~ created n k0).
  { intros k0 [[->| ->] Hne]; apply Hne; reflexivity. }
  assert (Hun : forall k0, under s n k0 -> k0 = 0).
  { intros k0 Hk0. unfold under, n in Hk0. simpl in Hk0.
    destruct Hk0 as [Hk0|[Hk0|Hk0]]; exact (reach_base _ _ _ (proj1 (ci_base _ _ Hc)) Hk0). }
  constructor.
  - intros j y Hy. simpl. destruct (Hget j y Hy) as [Hy0| ->]; [exact (ci_refs _ _ Hc j y Hy0)|].
    unfold n, root_ctx. simpl. lia.
  - exact (ci_par _ _ Hc).
  - exact (ci_base _ _ Hc).
  - intros j z k0 Hz Hcr. destruct (Hget j z Hz) as [Hz0| ->]; [exact (ci_big _ _ Hc j z k0 Hz0 Hcr)|].
    exfalso. exact (Hncr k0 Hcr).
  - intros j z Hz Hrk. destruct (Hget j z Hz) as [Hz0| ->]; [exact (ci_own _ _ Hc j z Hz0 Hrk)|].
    exfalso. apply Hrk. reflexivity.
  - intros j y pa px Hy Hk Hp Hpx. destruct (Hget j y Hy) as [Hy0| ->]; [|discriminate].
    assert (Hlt : pa < length (acts s)).
    { pose proof (it_par _ _ Htree j y pa Hy0 Hp). apply get_lt in Hy0. lia. }
    assert (Hpx0 : get_act s pa = Some px).
    { unfold get_act in *. simpl in Hpx. rewrite nth_error_app1 in Hpx by exact Hlt. exact Hpx. }
    exact (ci_dep _ _ Hc j y pa px Hy0 Hk Hp Hpx0).
  - intros jz z jy y k0 Hz Hy Hcr Hu.
    destruct (Hget jz z Hz) as [Hz0| ->]; [|exfalso; exact (Hncr k0 Hcr)].
    destruct (Hget jy y Hy) as [Hy0| ->]; [exact (ci_sc _ _ Hc jz z jy y k0 Hz0 Hy0 Hcr Hu)|].
    exfalso. apply Hun in Hu. subst k0. pose proof (ci_big _ _ Hc jz z 0 Hz0 Hcr). lia.
  - exact (ci_unfl _ _ Hc).
Qed.

(* ------------------------------------------------------------------ *)
(* without a "skipping" line nobody waits for a shared execution       *)

Definition noskip (tr : list event) : bool :=
  negb (existsb (fun e => match e with EvSkipping _ _ => true | _ => false end) tr).

Lemma noskip_app t1 t2 : noskip (t1 ++ t2) = noskip t1 && noskip t2.
Proof. unfold noskip. rewrite existsb_app, negb_orb. reflexivity. Qed.

Definition nopw (s : state) : Prop := forall j y, get_act s j = Some y -> is_pw (a_pc y) = false.

Lemma step_nopw p c s a s' :
  inv_tree p s -> (noskip (trace s) = true -> nopw s) -> step p c s a = Some s' ->
  noskip (trace s') = true -> nopw s'.
Proof.
  intros Htree Hn H Hns'.
  destruct (step_some_act _ _ _ _ _ H) as [x Hx].
  destruct (step_self p c s a s' x H Hx) as [x' Hx'].
  pose proof (step_cview1 p c s a s' x x' Hx H Hx') as V.
  destruct (step_trace_app p c s a s' H) as [evs Htr].
  assert (Hns : noskip (trace s) = true).
  { rewrite Htr, noskip_app in Hns'. apply andb_true_iff in Hns'. apply Hns'. }
  specialize (Hn Hns).
  intros j y' Hy'. destruct (step_cls p c s a s' x x' Hx H Hx' j y' Hy') as [[-> ->]|[[Hja [y [Hy Hnn]]]|(Hge & _ & _)]].
  - destruct (is_pw (a_pc x')) eqn:E; [|reflexivity]. exfalso.
    destruct (c1_noskip _ _ _ _ _ _ V E) as [Hp|[k Ht]].
    + rewrite (Hn a x Hx) in Hp. discriminate.
    + rewrite Ht, noskip_app in Hns'. apply andb_true_iff in Hns'. destruct Hns' as [_ Hb]. discriminate.
  - apply noG_fields in Hnn. destruct Hnn as (_ & _ & _ & _ & _ & Hq & _). rewrite Hq. exact (Hn j y Hy).
  - destruct (step_new p c s a s' j y' H Hge Hy') as (-> & _). reflexivity.
Qed.

(* ------------------------------------------------------------------ *)
(* a running activation keeps all its ancestors waiting                *)

Lemma waits_for_waiting z k j : k <> KRoot -> waits_for z k j -> waiting_pc (a_pc z) = true.
Proof. destruct k; simpl; [congruence|intros _ ->|intros _ [i ->]|intros _ [r ->]]; reflexivity. Qed.

Lemma is_done_donepc q : is_done q = donepc q.
Proof. destruct q; reflexivity. Qed.

Lemma path_uniq p s i j x y :
  uniq p (pj csof s) -> get_act s i = Some x -> get_act s j = Some y -> a_path x = a_path y -> i = j.
Proof.
  intros [Hnd _] Hx Hy Hp.
  eapply (NoDup_map_nth c_path (pj csof s) i j (csof x) (csof y)); auto; apply pj_nth; assumption.
Qed.

Lemma root_kind_parent p s j y : uniq p (pj csof s) -> get_act s j = Some y ->
  (a_kind y = KRoot <-> a_parent y = None) /\ (a_parent y = None -> length (a_path y) = 1) /\ a_path y <> [].
Proof.
  intros [_ Hall] Hy. rewrite Forall_forall in Hall.
  assert (He : entry_ok p (pj csof s) (csof y)) by (apply Hall; eapply nth_error_In; apply pj_nth; exact Hy).
  destruct He as (_ & Hne & He). simpl in *. destruct (a_parent y) as [pa|].
  - destruct He as [Hk _]. split; [split; [congruence|discriminate]|]. split; [discriminate|exact Hne].
  - destruct He as [Hk Hl]. split; [split; auto|]. split; auto.
Qed.

Lemma live_anc p s : uniq p (pj csof s) -> wait_par s ->
  forall n j y io o, length (a_path y) <= n ->
    get_act s j = Some y -> is_done (a_pc y) = false -> get_act s io = Some o ->
    prefix_of_aid (a_path o) (a_path y) = true -> io <> j -> waiting_pc (a_pc o) = true.
Proof.
  intros Huq Hw. induction n as [|n IH]; intros j y io o Hlen Hy Hlive Ho Hpre Hne.
  - destruct (root_kind_parent p s j y Huq Hy) as (_ & _ & Hnn). destruct (a_path y); [congruence|simpl in Hlen; lia].
  - destruct (prefix_of_aid_inv _ _ Hpre) as [l Hl].
    destruct l as [|m0 l0] using rev_ind.
    { rewrite app_nil_r in Hl. exfalso. apply Hne. symmetry. eapply path_uniq; eauto. }
    clear IHl0.
    destruct (root_kind_parent p s j y Huq Hy) as (Hkr & Hroot & _).
    destruct (a_parent y) as [i|] eqn:Epar.
    + assert (Hknr : a_kind y <> KRoot) by (intros E; apply Hkr in E; discriminate).
      destruct (parent_info p s j y Huq Hy Hknr) as (pa & px & m & Hp1 & Hpx & Hpm).
      assert (pa = i) by congruence. subst pa.
      destruct (Hw j y i Hy Hlive Epar) as (px' & Hpx' & Hwf). rewrite Hpx in Hpx'. injection Hpx' as <-.
      pose proof (waits_for_waiting _ _ _ Hknr Hwf) as Hwp.
      rewrite Hl, app_assoc in Hpm. apply app_inj_tail in Hpm. destruct Hpm as [Hpp _].
      destruct l0 as [|m1 l1].
      * rewrite app_nil_r in Hpp. assert (io = i) by (eapply path_uniq; eauto). subst i.
        rewrite Ho in Hpx. injection Hpx as <-. exact Hwp.
      * apply (IH i px io o); auto.
        -- rewrite Hl in Hlen. rewrite <- Hpp. rewrite !app_length in *. simpl in *. lia.
        -- destruct (a_pc px); try reflexivity; discriminate.
        -- rewrite <- Hpp. apply prefix_of_aid_intro.
        -- intros ->. rewrite Ho in Hpx. injection Hpx as <-.
           apply (f_equal (@length nat)) in Hpp. rewrite app_length in Hpp. simpl in Hpp. lia.
    + pose proof (Hroot eq_refl) as H1.
      destruct (root_kind_parent p s io o Huq Ho) as (_ & _ & H2).
      rewrite Hl, !app_length in H1. simpl in H1. destruct (a_path o); [congruence|simpl in H1; lia].
Qed.

(* ------------------------------------------------------------------ *)
(* reaches_root along the chain; the frontier activation holds the real error *)

(* ------------------------------------------------------------------ *)
(* reaches_root along the chain                                        *)

Definition is_root_link (p : prog) (c : cfg) (b : aid) : bool :=
  match link_of p c b with LRoot => true | _ => false end.

Definition rrb (p : prog) (c : cfg) (b : aid) : bool :=
  existsb (is_root_link p c) (b :: climb (length b) p c b).

Lemma reaches_root_rrb p c a : reaches_root p c a = rrb p c a.
Proof. reflexivity. Qed.

Lemma removelast_length {A} (l : list A) m : length (removelast (l ++ [m])) = length l.
Proof. rewrite removelast_last. reflexivity. Qed.

Lemma rrb_up p c b m :
  (link_of p c (b ++ [m]) = LDep \/
   (link_of p c (b ++ [m]) = LCall /\ t_ignore (get_task p (task_of p c b)) = false)) ->
  rrb p c (b ++ [m]) = rrb p c b.
Proof.
  intros Hl. unfold rrb. rewrite app_length. simpl length. rewrite Nat.add_1_r.
  cbn [existsb climb]. unfold is_root_link at 1. unfold parent_of. rewrite removelast_last.
  destruct Hl as [->|[-> ->]]; reflexivity.
Qed.

Lemma rrb_stop p c b :
  (link_of p c b = LDefer \/
   (link_of p c b = LCall /\ t_ignore (get_task p (task_of p c (parent_of b))) = true)) ->
  rrb p c b = false.
Proof.
  intros Hl. unfold rrb. destruct (length b) as [|n]; cbn [existsb climb]; unfold is_root_link;
    destruct Hl as [->|[-> Hi]]; try rewrite Hi; reflexivity.
Qed.

Lemma rrb_root p c b : link_of p c b = LRoot -> rrb p c b = true.
Proof. intros Hl. unfold rrb. cbn [existsb]. unfold is_root_link. rewrite Hl. reflexivity. Qed.

(* ------------------------------------------------------------------ *)
(* the frontier activation holds the real error                        *)

Section Arrived.
  Variables (p : prog) (ex : nat).

  Definition out_err (y : act) : err := if indirect y then EExit ex else ETaskRun (Some ex).

  Definition chain_pc (y : act) (q : pc) : Prop :=
    (forall e, q = PFail e -> e = EExit ex) /\ (forall e, carried q = Some (RErr e) -> e = out_err y).

  Inductive arrived (s : state) (F : act) : Prop :=
  | A_pc : err_pc (a_pc F) = true -> chain_pc F (a_pc F) -> arrived s F
  | A_join : (a_pc F = PDepsJoin \/ a_pc F = PDepsReacq) -> a_gerr F = Some (EExit ex) -> arrived s F
  | A_call i k : a_pc F = PCallWait i k -> t_ignore (get_task p (a_task F)) = false ->
                 act_result s k = Some (RErr (EExit ex)) -> arrived s F
  | A_reacq i : a_pc F = PCallReacq i (RErr (EExit ex)) -> t_ignore (get_task p (a_task F)) = false -> arrived s F.

  Lemma arrived_done s F r : arrived s F -> a_pc F = PDone r -> r = RErr (out_err F).
  Proof.
    intros [He Hc|[Hq|Hq] _|i k Hq _ _|i Hq _] Hd; try congruence.
    rewrite Hd in He, Hc. simpl in He. destruct r as [|e]; [discriminate|]. destruct Hc as [_ Hc]. rewrite (Hc e eq_refl). reflexivity.
  Qed.

  Lemma out_err_static x x' : a_kind x' = a_kind x -> out_err x' = out_err x.
  Proof. unfold out_err, indirect. intros ->. reflexivity. Qed.

  Lemma wrap_cmd_out x : wrap_cmd_error x (EExit ex) = out_err x.
  Proof. unfold wrap_cmd_error, out_err. destruct (indirect x); reflexivity. Qed.
  Lemma wrap_deps_out x : wrap_deps_error x (EExit ex) = out_err x.
  Proof. unfold wrap_deps_error, out_err. destruct (indirect x); reflexivity. Qed.

  Lemma err_pc_cases q : err_pc q = true -> (exists e, q = PFail e) \/ (exists e, carried q = Some (RErr e)).
  Proof. destruct q as [| | | | | | | | | | | | | | | | |e|r|r ?|r ?|r ?|r|r|r|r]; simpl; try discriminate;
    try (intros _; left; eauto; fail); destruct r; try discriminate; intros _; right; eauto. Qed.

  (* the frontier steps *)
  Lemma arrived_self c s a s' x x' :
    inv_tree p s -> get_act s a = Some x -> step p c s a = Some s' -> get_act s' a = Some x' ->
    arrived s x -> arrived s' x'.
  Proof.
    intros Htree Hx H Hx' Harr.
    pose proof (step_view p c s a s' x x' Hx H Hx') as V.
    pose proof (step_cview1 p c s a s' x x' Hx H Hx') as V1.
    destruct (step_keep p c s a s' a x Htree H Hx) as [x0 (Hx0 & Hst & _ & _ & Hg)].
    rewrite Hx' in Hx0. injection Hx0 as <-. specialize (Hg eq_refl).
    apply stat_eq in Hst. destruct Hst as (_ & St & Sk & _).
    destruct Harr as [He Hc|Hq Hge|i k Hq Hig Hr|i Hq Hig].
    - apply A_pc; [apply (vw_err _ _ _ _ _ V); exact He|].
      destruct Hc as [Hc1 Hc2]. destruct (err_pc_cases _ He) as [[e Hq]|[e Hq]].
      + pose proof (Hc1 e Hq). subst e. rewrite (c1_fail _ _ _ _ _ _ V1 _ Hq). split; [intros e0 E0; discriminate|].
        simpl. intros e0 E0. injection E0 as <-. rewrite wrap_cmd_out. symmetry. apply out_err_static. exact Sk.
      + pose proof (c1_carry _ _ _ _ _ _ V1 _ Hq) as Hq'. split.
        * intros e0 E0. rewrite E0 in Hq'. discriminate.
        * intros e0 E0. rewrite Hq' in E0. injection E0 as <-. rewrite (Hc2 e Hq). symmetry. apply out_err_static. exact Sk.
    - destruct Hq as [Hq|Hq].
      + destruct (vw_join _ _ _ _ _ V Hq) as [Hq' _]. apply A_join; [right; exact Hq'|congruence].
      + apply A_pc; rewrite (c1_reacq _ _ _ _ _ _ V1 _ Hq Hge); simpl; [reflexivity|].
        split; [intros e0 E0; discriminate|]. simpl. intros e0 E0. injection E0 as <-.
        rewrite wrap_deps_out. symmetry. apply out_err_static. exact Sk.
    - destruct (vw_cwait _ _ _ _ _ V i k Hq) as [r [Hr' Hq']]. rewrite Hr in Hr'. injection Hr' as <-.
      eapply A_reacq; [exact Hq'|congruence].
    - apply A_pc; rewrite (vw_creacq _ _ _ _ _ V i _ Hq Hig); simpl; [reflexivity|].
      split; [intros e0 E0; congruence|intros e0 E0; discriminate].
  Qed.

  (* somebody else steps *)
  Lemma arrived_other c s a s' f F F' :
    inv_tree p s -> step p c s a = Some s' -> f <> a -> get_act s f = Some F -> get_act s' f = Some F' ->
    arrived s F -> arrived s' F'.
  Proof.
    intros Htree H Hne HF HF' Harr.
    destruct (step_keep p c s a s' f F Htree H HF) as [F0 (HF0 & Hst & Hgs & Hpk & _)].
    rewrite HF' in HF0. injection HF0 as <-. destruct (Hpk Hne) as [Hq _].
    apply stat_eq in Hst. destruct Hst as (_ & St & Sk & _).
    destruct (step_some_act _ _ _ _ _ H) as [xa Hxa].
    assert (Hself : a_parent xa <> Some a).
    { intros E. pose proof (it_par _ _ Htree a xa a Hxa E). lia. }
    destruct Harr as [He Hc|Hq0 Hge|i k Hq0 Hig Hr|i Hq0 Hig].
    - apply A_pc; rewrite Hq; [exact He|]. destruct Hc as [Hc1 Hc2]. split; [exact Hc1|].
      intros e0 E0. rewrite (Hc2 e0 E0). symmetry. apply out_err_static. exact Sk.
    - apply A_join; [rewrite Hq; exact Hq0|].
      destruct (step_gerr p c s a s' xa Hxa H Hself f F HF) as [F1 [HF1 [Hs|(Hn & _)]]]; [|congruence].
      rewrite HF' in HF1. injection HF1 as <-. congruence.
    - eapply A_call; [rewrite Hq; exact Hq0|congruence|].
      apply act_result_done in Hr. destruct Hr as [y [Hy Hqy]].
      assert (Hka : k <> a).
      { intros ->. rewrite Hxa in Hy. injection Hy as <-. rewrite (step_done_none p c s a xa _ Hxa Hqy) in H. discriminate. }
      destruct (step_keep p c s a s' k y Htree H Hy) as [y' (Hy' & _ & _ & Hpk' & _)].
      destruct (Hpk' Hka) as [Hqy' _]. apply act_result_done. exists y'. split; [exact Hy'|congruence].
    - eapply A_reacq; [rewrite Hq; exact Hq0|congruence].
  Qed.
End Arrived.

(* ------------------------------------------------------------------ *)
(* outside the subtree of the frontier: error free, uncancelled *)

Definition inside (pF : aid) (y : act) : bool := prefix_of_aid pF (a_path y).

Lemma prefix_snoc a : forall b m, prefix_of_aid a (b ++ [m]) = true -> a = b ++ [m] \/ prefix_of_aid a b = true.
Proof.
  induction a as [|x a IH]; intros b m H; [right; reflexivity|].
  destruct b as [|y b]; simpl in H.
  - apply andb_true_iff in H. destruct H as [H1 H2]. apply Nat.eqb_eq in H1. subst.
    destruct a; [left; reflexivity|discriminate].
  - apply andb_true_iff in H. destruct H as [H1 H2]. apply Nat.eqb_eq in H1. subst.
    destruct (IH b m H2) as [->|Hp]; [left; reflexivity|right]. simpl. rewrite Nat.eqb_refl. exact Hp.
Qed.

Section Out.
  Variables (p : prog) (c : cfg).

  Definition oinv (pF : aid) (s : state) : Prop :=
    forall j y, get_act s j = Some y -> inside pF y = false ->
      pc_cleanx (get_task p (a_task y)) (a_pc y) = true /\ a_gerr y = None.

  Definition cinv (pF : aid) (s : state) : Prop :=
    forall k j y, flagged s k -> get_act s j = Some y -> under s y k -> fin (a_pc y) = true \/ inside pF y = true.

  (* what a caller outside the subtree reads from its callee *)
  Definition callee_ok (pF : aid) (s : state) : Prop :=
    forall j y i k r, get_act s j = Some y -> inside pF y = false -> a_pc y = PCallWait i k ->
      act_result s k = Some r ->
      r = ROk \/ (t_ignore (get_task p (a_task y)) = true /\ exists n, r = RErr (EExit n)).

  Lemma uncancelled_out pF s j y :
    cinv pF s -> get_act s j = Some y -> inside pF y = false -> fin (a_pc y) = false ->
    cancelled s (a_ectx y) = false.
  Proof.
    intros Hc Hy Ho Hf. destruct (cancelled s (a_ectx y)) eqn:E; [|reflexivity].
    destruct (cancelled_reach _ _ E) as (k & Hr & Hk).
    destruct (Hc k j y Hk Hy) as [H1|H1]; [right; left; exact Hr|congruence|congruence].
  Qed.

  Lemma out_step pF s a s' x x' :
    no_guard_errors p c = true -> callcount_safe c s -> inv_ids p c s -> nopw s ->
    oinv pF s -> cinv pF s -> callee_ok pF s ->
    get_act s a = Some x -> inside pF x = false -> step p c s a = Some s' -> get_act s' a = Some x' ->
    failing_ends p c (trace s') = failing_ends p c (trace s) ->
    pc_cleanx (get_task p (a_task x)) (a_pc x') = true.
  Proof.
    intros Hng Hcc Hids Hnp Ho Hc Hcal Hx Hout H Hx' Hfe.
    pose proof (step_cview1 p c s a s' x x' Hx H Hx') as V1.
    destruct (Ho a x Hx Hout) as [Hcl Hg].
    assert (Hunc : fin (a_pc x) = false -> cancelled s (a_ectx x) = false).
    { intros Hfin. eapply uncancelled_out; eauto. }
    assert (Hres : forall i k r, a_pc x = PCallWait i k -> act_result s k = Some r ->
              r = ROk \/ (t_ignore (get_task p (a_task x)) = true /\ exists n, r = RErr (EExit n))).
    { intros i k r Hq Hr. eapply Hcal; eauto. }
    destruct (c1_clean _ _ _ _ _ _ V1 (no_guard_fine p c _ Hng) (Hcc a x Hx) Hunc Hcl Hg (Hnp a x Hx) Hres)
      as [Hok|(i & n & Hq & Hf & _ & _ & Ht)].
    - exact Hok.
    - exfalso. rewrite Ht, failing_ends_app in Hfe. simpl in Hfe.
      rewrite (failing_cmd_tk p c s a x i Hids Hx), Hf in Hfe.
      apply (f_equal (@length _)) in Hfe. rewrite app_length in Hfe. simpl in Hfe. lia.
  Qed.

  Lemma inside_mono pF' pF y : prefix_of_aid pF' pF = true -> inside pF y = true -> inside pF' y = true.
  Proof. unfold inside. intros H1 H2. eapply prefix_trans; eauto. Qed.

  Lemma cleanx_not_err tk e : pc_cleanx tk (PDone (RErr e)) = false.
  Proof. reflexivity. Qed.

  Lemma oinv_step pF pF' s a s' x x' :
    inv_tree p s -> oinv pF s -> prefix_of_aid pF' pF = true ->
    get_act s a = Some x -> step p c s a = Some s' -> get_act s' a = Some x' ->
    (inside pF x = false -> pc_cleanx (get_task p (a_task x)) (a_pc x') = true) ->
    (forall e pa px, a_pc x' = PDone (RErr e) -> a_kind x = KDep -> a_parent x = Some pa -> get_act s pa = Some px ->
       inside pF' px = true) ->
    oinv pF' s'.
  Proof.
    intros Htree Ho Hpre Hx H Hx' Hxo Hpar j y' Hy' Hout'.
    assert (Hself : a_parent x <> Some a).
    { intros E. pose proof (it_par _ _ Htree a x a Hx E). lia. }
    assert (Hout : inside pF y' = false).
    { destruct (inside pF y') eqn:E; [|reflexivity]. rewrite (inside_mono _ _ _ Hpre E) in Hout'. discriminate. }
    destruct (step_cls p c s a s' x x' Hx H Hx' j y' Hy') as [[-> ->]|[[Hja [y [Hy Hn]]]|(Hge & _ & Hpa)]].
    - destruct (step_keep p c s a s' a x Htree H Hx) as [x0 (Hx0 & Hst & _ & _ & Hg)].
      rewrite Hx' in Hx0. injection Hx0 as <-. specialize (Hg eq_refl).
      apply stat_eq in Hst. destruct Hst as (Sp & St & _).
      assert (Hox : inside pF x = false) by (unfold inside in *; rewrite <- Sp; exact Hout).
      split; [rewrite St; apply Hxo; exact Hox|]. rewrite Hg. apply (Ho a x Hx Hox).
    - apply noG_fields in Hn. destruct Hn as (Np & Nt & _ & _ & _ & Nq & _).
      assert (Hoy : inside pF y = false) by (unfold inside in *; rewrite <- Np; exact Hout).
      destruct (Ho j y Hy Hoy) as [Hcl Hg]. split; [rewrite Nt, Nq; exact Hcl|].
      destruct (step_gerr p c s a s' x Hx H Hself j y Hy) as [y1 [Hy1 [Hs|(_ & Hk & Hp & e & He & x1 & Hx1 & Hq1)]]];
        rewrite Hy' in Hy1; injection Hy1 as <-; [congruence|].
      exfalso. rewrite Hx' in Hx1. injection Hx1 as <-.
      pose proof (Hpar e j y Hq1 Hk Hp Hy) as Hin. unfold inside in Hin, Hout'. rewrite <- Np in Hin. congruence.
    - destruct (step_new p c s a s' j y' H Hge Hy') as (Hq & _).
      destruct (vw_new _ _ _ _ _ (step_view p c s a s' x x' Hx H Hx') j y' Hge Hy') as [_ Hg].
      rewrite Hq. split; [reflexivity|exact Hg].
  Qed.
End Out.

(* ------------------------------------------------------------------ *)
(* cancelled contexts stay inside the subtree *)

Lemma step_release_done p c s a s' x x' r :
  get_act s a = Some x -> step p c s a = Some s' -> get_act s' a = Some x' -> a_pc x = PRelease r -> a_pc x' = PDone r.
Proof.
  intros Hx H Hx' Hq. pose proof (pj_lt noG _ _ _ Hx) as Hlt.
  unfold step in H. rewrite Hx, Hq in H. injection H as <-.
  eassert (E : pj noG (finish (release c s) a (set_holds x false) r) = upd (pj noG s) a _ ++ []).
  { autorewrite with ngdb. simpl. autorewrite with ngdb. rewrite app_nil_r. reflexivity. }
  pose proof (noG_at _ _ _ _ _ _ E Hlt Hx') as Hn. apply noG_fields in Hn.
  destruct Hn as (_ & _ & _ & _ & _ & Hq' & _). exact Hq'.
Qed.

Lemma fin_step p c s a s' x x' :
  get_act s a = Some x -> step p c s a = Some s' -> get_act s' a = Some x' -> fin (a_pc x) = true -> fin (a_pc x') = true.
Proof.
  intros Hx H Hx' Hf. destruct (a_pc x) eqn:Hq; try discriminate.
  - rewrite (step_release_done p c s a s' x x' r Hx H Hx' Hq). reflexivity.
  - rewrite (step_done_none p c s a x r Hx Hq) in H. discriminate.
Qed.

Section CStep.
  Variables (p : prog) (c : cfg).

  Lemma cinv_step pF pF' s a s' x x' :
    inv_tree p s -> uniq p (pj csof s) -> ctxinv p s ->
    uniq p (pj csof s') -> ctxinv p s' -> wait_par s' ->
    cinv pF s -> prefix_of_aid pF' pF = true ->
    get_act s a = Some x -> step p c s a = Some s' -> get_act s' a = Some x' ->
    (inside pF x = false -> pc_cleanx (get_task p (a_task x)) (a_pc x') = true) ->
    (forall e pa px, a_pc x' = PDone (RErr e) -> a_kind x = KDep -> a_parent x = Some pa -> get_act s pa = Some px ->
       inside pF' px = true) ->
    (forall e, a_pc x' = PDone (RErr e) -> a_kind x = KRoot -> rungerr s = None -> False) ->
    cinv pF' s'.
  Proof.
    intros Htree Huq Hci Huq' Hci' Hw' Hc Hpre Hx H Hx' Hxo Hpar Hroot k j y' Hk Hy' Hu.
    assert (Hself : a_parent x <> Some a).
    { intros E. pose proof (it_par _ _ Htree a x a Hx E). lia. }
    pose proof (step_cview2 p c s a s' x x' Hx H Hx' Hself) as V2.
    destruct (step_own p c s a s' x x' Hx H Hx') as [Hstat _]. apply stat_fields in Hstat.
    destruct Hstat as (Sp & St & Sv & Sk & Spar).
    destruct (inside pF' y') eqn:Hin; [right; reflexivity|left].
    assert (Hout : inside pF y' = false).
    { destruct (inside pF y') eqn:E; [|reflexivity]. rewrite (inside_mono _ _ _ Hpre E) in Hin. discriminate. }
    (* the stepping activation does not finish with an error unless it is inside *)
    assert (Hxin : forall e, a_pc x' = PDone (RErr e) -> inside pF x = true).
    { intros e He. destruct (inside pF x) eqn:E; [reflexivity|]. specialize (Hxo eq_refl). rewrite He in Hxo. discriminate. }
    destruct (c2_flags _ _ _ _ V2 k Hk) as [Hk0|[(r & Hq & Hq' & Hrk & ->)|(e & Hq' & [(Hkd & pa & px & Hp & Hpx & Hg & ->)|(Hkr & Hrg & ->)])]].
    - (* an old flag *)
      assert (HkL : k < length (ctxs s)).
      { destruct Hk0 as (r0 & Hr0 & _). apply nth_error_Some. rewrite Hr0. discriminate. }
      destruct (under_step p c s a s' x Htree Huq Hci H Hx j y' k Hy' Hu) as [(-> & _)|[(y & Hy & Hu0 & Hpy)|[(Hge & Hpa & Hu0 & Hpx)| ->]]].
      + lia.
      + destruct (Hc k j y Hk0 Hy Hu0) as [Hf|Hi].
        * destruct (Nat.eq_dec j a) as [->|Hja].
          -- rewrite Hx in Hy. injection Hy as <-. rewrite Hx' in Hy'. injection Hy' as <-.
             exact (fin_step p c s a s' x x' Hx H Hx' Hf).
          -- destruct (step_other p c s a s' j y H Hja Hy) as [y1 [Hy1 Hn]]. rewrite Hy' in Hy1. injection Hy1 as <-.
             apply noG_fields in Hn. destruct Hn as (_ & _ & _ & _ & _ & Nq & _). rewrite Nq. exact Hf.
        * exfalso. unfold inside in Hi, Hout. rewrite Hpy in Hi. congruence.
      + exfalso. destruct (Hc k a x Hk0 Hx Hu0) as [Hf|Hi].
        * pose proof (fin_step p c s a s' x x' Hx H Hx' Hf) as Hf'.
          destruct (vw_new _ _ _ _ _ (step_view p c s a s' x x' Hx H Hx') j y' Hge Hy') as [Hnv _].
          unfold new_view in Hnv. destruct (a_kind y'); try contradiction;
            [rewrite Hnv in Hf'|destruct Hnv as [i Hnv]; rewrite Hnv in Hf'|destruct Hnv as [r Hnv]; rewrite Hnv in Hf']; discriminate.
        * unfold inside in Hi, Hout. pose proof (prefix_trans _ _ _ Hi Hpx) as Ht. congruence.
      + exfalso. exact (ci_unfl _ _ Hci Hk0).
    - (* the execution context of an owner that completes *)
      assert (Hcr : created x' (a_ectx x)).
      { destruct (c2_par _ _ _ _ V2) as [np [_ Hmove]]. pose proof (c2_ctx _ _ _ _ V2) as Hcx.
        pose proof (ci_own _ _ Hci a x Hx Hrk) as Hne.
        destruct Hmove as [(_ & E1 & _)|[(_ & Hq1 & _)|(_ & Hq1 & _)]]; try congruence.
        split; [left; congruence|congruence]. }
      pose proof (ci_sc _ _ Hci' a x' j y' _ Hx' Hy' Hcr Hu) as Hpx.
      destruct (Nat.eq_dec j a) as [->|Hja].
      + rewrite Hx' in Hy'. injection Hy' as <-. rewrite Hq'. reflexivity.
      + destruct (is_done (a_pc y')) eqn:Hd; [destruct (a_pc y'); try discriminate; reflexivity|].
        exfalso. pose proof (live_anc p s' Huq' Hw' _ j y' a x' (le_n _) Hy' Hd Hx' Hpx (not_eq_sym Hja)) as Hwp.
        rewrite Hq' in Hwp. discriminate.
    - (* the group context of the parent of a dep child that failed *)
      exfalso. pose proof (Hpar e pa px Hq' Hkd Hp Hpx) as Hpin.
      assert (Hpa : pa <> a) by congruence.
      destruct (step_other p c s a s' pa px H Hpa Hpx) as [px' [Hpx' Hn]].
      pose proof (noG_ctxs _ _ Hn) as (N1 & _ & N3 & _). apply noG_fields in Hn. destruct Hn as (Np & _).
      destruct (ci_dep _ _ Hci a x pa px Hx Hkd Hp Hpx) as [_ D2].
      assert (Hcr : created px' (a_gctx px)) by (split; [right; congruence|congruence]).
      pose proof (ci_sc _ _ Hci' pa px' j y' _ Hpx' Hy' Hcr Hu) as Hpre2.
      unfold inside in Hpin, Hin. rewrite <- Np in Hpin. pose proof (prefix_trans _ _ _ Hpin Hpre2) as Ht. congruence.
    - exfalso. exact (Hroot e Hq' Hkr Hrg).
  Qed.
End CStep.

(* ------------------------------------------------------------------ *)
(* the frontier invariant *)

Lemma prefix_longer a m : prefix_of_aid (a ++ [m]) a = false.
Proof.
  destruct (prefix_of_aid (a ++ [m]) a) eqn:E; [|reflexivity].
  apply prefix_of_aid_inv in E. destruct E as [l E]. apply (f_equal (@length _)) in E.
  rewrite !app_length in E. simpl in E. lia.
Qed.

Lemma prefix_len1 a r : a <> [] -> prefix_of_aid a [r] = true -> a = [r].
Proof.
  intros Hne H. apply prefix_of_aid_inv in H. destruct H as [l E].
  destruct a as [|x a]; [congruence|]. destruct a; [|destruct a; discriminate].
  simpl in E. injection E as <- _. reflexivity.
Qed.

Lemma noflag0_step p c s a s' x x' :
  inv_tree p s -> ctxinv p s -> get_act s a = Some x -> step p c s a = Some s' -> get_act s' a = Some x' ->
  ~ flagged s root_ctx ->
  (forall e, a_pc x' = PDone (RErr e) -> a_kind x = KRoot -> rungerr s = None -> False) ->
  ~ flagged s' root_ctx.
Proof.
  intros Htree Hci Hx H Hx' Hz Hroot Hf.
  assert (Hself : a_parent x <> Some a).
  { intros E. pose proof (it_par _ _ Htree a x a Hx E). lia. }
  pose proof (step_cview2 p c s a s' x x' Hx H Hx' Hself) as V2.
  destruct (c2_flags _ _ _ _ V2 _ Hf) as [Hk0|[(r & Hq & Hq' & Hrk & Hk)|(e & Hq' & [(Hkd & pa & px & Hp & Hpx & Hg & Hk)|(Hkr & Hrg & _)])]].
  - exact (Hz Hk0).
  - pose proof (ci_own _ _ Hci a x Hx Hrk) as Hne.
    assert (Hcr : created x root_ctx) by (split; [left; exact Hk|congruence]).
    pose proof (ci_big _ _ Hci a x _ Hx Hcr). unfold root_ctx in *. lia.
  - destruct (ci_dep _ _ Hci a x pa px Hx Hkd Hp Hpx) as [_ D2].
    assert (Hcr : created px root_ctx) by (split; [right; exact Hk|congruence]).
    pose proof (ci_big _ _ Hci pa px _ Hpx Hcr). unfold root_ctx in *. lia.
  - exact (Hroot e Hq' Hkr Hrg).
Qed.

Section Frontier.
  Variables (p : prog) (c : cfg) (ex : nat) (R : bool).

  (* the activation a caller waits for is its callee (Exec/InvCalls.v) *)
  Definition cw (s : state) : Prop :=
    forall a x i cid, get_act s a = Some x -> a_pc x = PCallWait i cid ->
      exists cl y, nth_error (t_cmds (get_task p (a_task x))) i = Some (CallC cl) /\
        get_act s cid = Some y /\ a_path y = a_path x ++ [length (t_deps (get_task p (a_task x))) + i].

  Lemma callee_kind s a x i cid y :
    inv_ids p c s -> get_act s a = Some x -> get_act s cid = Some y ->
    (exists cl, nth_error (t_cmds (get_task p (a_task x))) i = Some (CallC cl)) ->
    a_path y = a_path x ++ [length (t_deps (get_task p (a_task x))) + i] -> a_kind y = KCall.
  Proof.
    intros Hids Hx Hy [cl Hcl] Hp.
    pose proof (inv_ids_get p c s cid y Hids Hy) as Hr. rewrite Hp in Hr.
    rewrite (resolve_app p c _ _ _ _ _ (inv_ids_get p c s a x Hids Hx)) in Hr.
    unfold resolve_step in Hr.
    replace (Nat.ltb _ _) with false in Hr by (symmetry; apply Nat.ltb_ge; lia).
    rewrite Nat.add_comm, Nat.add_sub, Hcl in Hr. injection Hr as _ _ Hl.
    destruct (a_kind y); simpl in Hl; try discriminate. reflexivity.
  Qed.

  Record J (s : state) (f : nat) (F : act) : Prop := {
    jF : get_act s f = Some F;
    jA : arrived p ex s F;
    jR : rrb p c (a_path F) = R;
    jD : is_done (a_pc F) = true ->
         R = false /\
         (a_kind F = KDefer \/
          (a_kind F = KCall /\ forall pa px, a_parent F = Some pa -> get_act s pa = Some px ->
                                  t_ignore (get_task p (a_task px)) = true));
    jO : oinv p (a_path F) s;
    jC : cinv (a_path F) s;
    jG : rungerr s = None;
    jZ : ~ flagged s root_ctx
  }.

  Lemma callee_ok_J s f F :
    inv_ids p c s -> uniq p (pj csof s) -> cw s -> J s f F -> callee_ok p (a_path F) s.
  Proof.
    intros Hids Huq Hcw HJ j y i k r Hy Hout Hq Hr.
    destruct (Hcw j y i k Hy Hq) as (cl & yk & Hcl & Hyk & Hpk).
    apply act_result_done in Hr. destruct Hr as [yk' [Hyk' Hqk]]. rewrite Hyk in Hyk'. injection Hyk' as <-.
    destruct (inside (a_path F) yk) eqn:Hin.
    - (* the callee is the frontier activation *)
      unfold inside in Hin, Hout. rewrite Hpk in Hin. apply prefix_snoc in Hin.
      destruct Hin as [Hin|Hin]; [|congruence].
      assert (k = f) by (apply (path_uniq p s k f yk F Huq Hyk (jF _ _ _ HJ)); congruence). subst k.
      rewrite (jF _ _ _ HJ) in Hyk. injection Hyk as <-.
      pose proof (arrived_done p ex s F r (jA _ _ _ HJ) Hqk) as ->.
      assert (Hkc : a_kind F = KCall).
      { exact (callee_kind s j y i f F Hids Hy (jF _ _ _ HJ) (ex_intro _ cl Hcl) Hpk). }
      assert (Hd : is_done (a_pc F) = true) by (rewrite Hqk; reflexivity).
      destruct (jD _ _ _ HJ Hd) as [_ [Hk|[_ Hig]]]; [congruence|].
      right. unfold out_err, indirect. rewrite Hkc. split; [|eauto].
      assert (Hknr : a_kind F <> KRoot) by congruence.
      destruct (parent_info p s f F Huq (jF _ _ _ HJ) Hknr) as (pa & z & m & Hp & Hz & Hpm).
      rewrite Hin in Hpm. apply app_inj_tail in Hpm. destruct Hpm as [Hpm _].
      assert (j = pa) by (apply (path_uniq p s j pa y z Huq Hy Hz); congruence). subst pa. rewrite Hy in Hz. injection Hz as <-.
      exact (Hig j y Hp Hy).
    - left. destruct (jO _ _ _ HJ k yk Hyk Hin) as [Hcl' _]. rewrite Hqk in Hcl'.
      destruct r; [reflexivity|discriminate].
  Qed.
End Frontier.

(* ------------------------------------------------------------------ *)
(* a step of an activation other than the frontier *)

Section Main.
  Variables (p : prog) (c : cfg) (ex : nat) (R : bool).
  Hypothesis Hng : no_guard_errors p c = true.

  Record glob (s : state) : Prop := {
    g_fail : inv_fail p c s;
    g_ctx : ctxinv p s;
    g_npw : nopw s;
    g_cc : callcount_safe c s;
    g_cw : cw p s
  }.

  (* an activation outside the subtree that steps stays clean; one that finishes with an error is inside *)
  Lemma out_clean s a s' f F x x' :
    glob s -> J p c ex R s f F -> get_act s a = Some x -> step p c s a = Some s' -> get_act s' a = Some x' ->
    failing_ends p c (trace s') = failing_ends p c (trace s) ->
    inside (a_path F) x = false -> pc_cleanx (get_task p (a_task x)) (a_pc x') = true.
  Proof.
    intros G HJ Hx H Hx' Hfe Hout.
    destruct (g_fail _ G) as [Hids Htree Huq Hw _].
    eapply (out_step p c (a_path F) s a s' x x'); eauto.
    - exact (g_cc _ G).
    - exact (g_npw _ G).
    - exact (jO _ _ _ _ _ _ _ HJ).
    - exact (jC _ _ _ _ _ _ _ HJ).
    - eapply callee_ok_J; eauto. exact (g_cw _ G).
  Qed.

  Lemma err_inside s a s' f F x x' e :
    glob s -> J p c ex R s f F -> get_act s a = Some x -> step p c s a = Some s' -> get_act s' a = Some x' ->
    failing_ends p c (trace s') = failing_ends p c (trace s) ->
    a_pc x' = PDone (RErr e) -> inside (a_path F) x = true.
  Proof.
    intros G HJ Hx H Hx' Hfe Hq. destruct (inside (a_path F) x) eqn:E; [reflexivity|].
    pose proof (out_clean s a s' f F x x' G HJ Hx H Hx' Hfe E) as Hc. rewrite Hq in Hc. discriminate.
  Qed.

  (* the parent of an inside activation other than the frontier is inside *)
  Lemma parent_inside s f F a x pa px :
    uniq p (pj csof s) -> get_act s f = Some F -> get_act s a = Some x -> a <> f ->
    inside (a_path F) x = true -> a_parent x = Some pa -> get_act s pa = Some px ->
    inside (a_path F) px = true.
  Proof.
    intros Huq HF Hx Hne Hin Hp Hpx.
    destruct (root_kind_parent p s a x Huq Hx) as (Hkr & _).
    assert (Hknr : a_kind x <> KRoot) by (intros E; apply Hkr in E; congruence).
    destruct (parent_info p s a x Huq Hx Hknr) as (pa' & z & m & Hp' & Hz & Hpm).
    assert (pa' = pa) by congruence. subst pa'. rewrite Hpx in Hz. injection Hz as <-.
    unfold inside in *. rewrite Hpm in Hin. apply prefix_snoc in Hin. destruct Hin as [Hin|Hin]; [|exact Hin].
    exfalso. apply Hne. apply (path_uniq p s a f x F Huq Hx HF). congruence.
  Qed.

  Lemma root_inside s f F a x :
    uniq p (pj csof s) -> get_act s f = Some F -> get_act s a = Some x -> a_kind x = KRoot ->
    inside (a_path F) x = true -> a = f.
  Proof.
    intros Huq HF Hx Hk Hin.
    destruct (root_kind_parent p s a x Huq Hx) as (Hkr & Hlen & _).
    destruct (root_kind_parent p s f F Huq HF) as (_ & _ & Hne).
    pose proof (Hlen (proj1 Hkr Hk)) as Hl.
    destruct (a_path x) as [|r [|? ?]] eqn:Ep; try discriminate.
    unfold inside in Hin. rewrite Ep in Hin. apply (prefix_len1 _ _ Hne) in Hin.
    apply (path_uniq p s a f x F Huq Hx HF). congruence.
  Qed.

  Lemma J_step_other s a s' f F :
    glob s -> glob s' -> J p c ex R s f F -> step p c s a = Some s' -> a <> f ->
    failing_ends p c (trace s') = failing_ends p c (trace s) ->
    exists F', J p c ex R s' f F'.
  Proof.
    intros G G' HJ H Hne Hfe.
    destruct (g_fail _ G) as [Hids Htree Huq Hw _]. destruct (g_fail _ G') as [Hids' Htree' Huq' Hw' _].
    destruct (step_some_act _ _ _ _ _ H) as [x Hx].
    destruct (step_self p c s a s' x H Hx) as [x' Hx'].
    pose proof (jF _ _ _ _ _ _ _ HJ) as HF.
    destruct (step_keep p c s a s' f F Htree H HF) as [F' (HF' & Hst & _ & Hpk & _)].
    destruct (Hpk (not_eq_sym Hne)) as [HqF _]. apply stat_eq in Hst. destruct Hst as (SpF & StF & SkF & SparF).
    pose proof (step_cview1 p c s a s' x x' Hx H Hx') as V1.
    assert (Hxo : inside (a_path F) x = false -> pc_cleanx (get_task p (a_task x)) (a_pc x') = true).
    { apply (out_clean s a s' f F x x' G HJ Hx H Hx' Hfe). }
    assert (Hpar : forall e pa px, a_pc x' = PDone (RErr e) -> a_kind x = KDep -> a_parent x = Some pa ->
              get_act s pa = Some px -> inside (a_path F) px = true).
    { intros e pa px Hq _ Hp Hpx.
      exact (parent_inside s f F a x pa px Huq HF Hx Hne (err_inside s a s' f F x x' e G HJ Hx H Hx' Hfe Hq) Hp Hpx). }
    assert (Hroot : forall e, a_pc x' = PDone (RErr e) -> a_kind x = KRoot -> rungerr s = None -> False).
    { intros e Hq Hk _. apply Hne. exact (root_inside s f F a x Huq HF Hx Hk (err_inside s a s' f F x x' e G HJ Hx H Hx' Hfe Hq)). }
    exists F'. constructor.
    - exact HF'.
    - exact (arrived_other p ex c s a s' f F F' Htree H (not_eq_sym Hne) HF HF' (jA _ _ _ _ _ _ _ HJ)).
    - rewrite SpF. exact (jR _ _ _ _ _ _ _ HJ).
    - rewrite HqF. intros Hd. destruct (jD _ _ _ _ _ _ _ HJ Hd) as [HR Hk]. split; [exact HR|].
      destruct Hk as [Hk|[Hk Hig]]; [left; congruence|right]. split; [congruence|].
      intros pa px' Hp Hpx'. rewrite SparF in Hp.
      assert (Hlt : pa < f) by (apply (it_par _ _ Htree f F pa HF Hp)).
      destruct (get_act s pa) as [px|] eqn:Hpx; [|apply nth_error_None in Hpx; apply get_lt in HF; lia].
      destruct (step_keep p c s a s' pa px Htree H Hpx) as [px1 (Hpx1 & Hst1 & _)].
      rewrite Hpx' in Hpx1. injection Hpx1 as <-. apply stat_eq in Hst1. destruct Hst1 as (_ & St1 & _).
      rewrite St1. exact (Hig pa px Hp Hpx).
    - rewrite SpF. exact (oinv_step p c (a_path F) (a_path F) s a s' x x' Htree (jO _ _ _ _ _ _ _ HJ) (prefix_of_aid_refl _) Hx H Hx' Hxo Hpar).
    - rewrite SpF. exact (cinv_step p c (a_path F) (a_path F) s a s' x x' Htree Huq (g_ctx _ G) Huq' (g_ctx _ G') Hw'
               (jC _ _ _ _ _ _ _ HJ) (prefix_of_aid_refl _) Hx H Hx' Hxo Hpar Hroot).
    - destruct (c1_rung _ _ _ _ _ _ V1) as [Hs|(Hn & Hk & e & He & Hq)]; [rewrite Hs; exact (jG _ _ _ _ _ _ _ HJ)|].
      exfalso. exact (Hroot e Hq Hk Hn).
    - exact (noflag0_step p c s a s' x x' Htree (g_ctx _ G) Hx H Hx' (jZ _ _ _ _ _ _ _ HJ) Hroot).
  Qed.
End Main.

(* ------------------------------------------------------------------ *)
(* a step of the frontier activation *)

Lemma link_of_get p c s a x : inv_ids p c s -> get_act s a = Some x -> link_of p c (a_path x) = link_of_kind (a_kind x).
Proof. intros Hi Hx. unfold link_of. rewrite (inv_ids_get p c s a x Hi Hx). reflexivity. Qed.

Section Self.
  Variables (p : prog) (c : cfg) (ex : nat) (R : bool).
  Hypothesis Hng : no_guard_errors p c = true.

  Lemma J_step_self s s' f F :
    glob p c s -> glob p c s' -> J p c ex R s f F -> step p c s f = Some s' ->
    failing_ends p c (trace s') = failing_ends p c (trace s) ->
    (exists f' F', J p c ex R s' f' F') \/ (R = true /\ rungerr s' = Some (ETaskRun (Some ex))).
  Proof.
    intros G G' HJ H Hfe.
    destruct (g_fail _ _ _ G) as [Hids Htree Huq Hw _]. destruct (g_fail _ _ _ G') as [Hids' Htree' Huq' Hw' _].
    pose proof (jF _ _ _ _ _ _ _ HJ) as HF.
    destruct (step_self p c s f s' F H HF) as [F' HF'].
    pose proof (step_cview1 p c s f s' F F' HF H HF') as V1.
    destruct (step_keep p c s f s' f F Htree H HF) as [F0 (HF0 & Hst & _ & _ & _)].
    rewrite HF' in HF0. injection HF0 as <-. apply stat_eq in Hst. destruct Hst as (Sp & St & Sk & Spar).
    pose proof (arrived_self p ex c s f s' F F' Htree HF H HF' (jA _ _ _ _ _ _ _ HJ)) as Harr'.
    assert (Hnd : is_done (a_pc F) = false).
    { destruct (a_pc F) eqn:E; try reflexivity. rewrite (step_done_none p c s f F r HF E) in H. discriminate. }
    assert (Hin : inside (a_path F) F = true) by (unfold inside; apply prefix_of_aid_refl).
    assert (Hxo : forall q, inside (a_path F) F = false -> pc_cleanx (get_task p (a_task F)) q = true) by (intros q E; congruence).
    assert (HR := jR _ _ _ _ _ _ _ HJ).
    assert (Hfr : link_of p c (a_path F) = link_of_kind (a_kind F)) by exact (link_of_get p c s f F Hids HF).
    destruct (is_done (a_pc F')) eqn:Hd'.
    2:{ (* the frontier activation keeps running *)
      left. exists f, F'. constructor.
      - exact HF'.
      - exact Harr'.
      - rewrite Sp. exact HR.
      - intros Hd. congruence.
      - rewrite Sp. apply (oinv_step p c (a_path F) (a_path F) s f s' F F' Htree (jO _ _ _ _ _ _ _ HJ) (prefix_of_aid_refl _) HF H HF' (Hxo _)).
        intros e pa px Hq. rewrite Hq in Hd'. discriminate.
      - rewrite Sp. apply (cinv_step p c (a_path F) (a_path F) s f s' F F' Htree Huq (g_ctx _ _ _ G) Huq' (g_ctx _ _ _ G') Hw'
                 (jC _ _ _ _ _ _ _ HJ) (prefix_of_aid_refl _) HF H HF' (Hxo _)).
        + intros e pa px Hq. rewrite Hq in Hd'. discriminate.
        + intros e Hq. rewrite Hq in Hd'. discriminate.
      - destruct (c1_rung _ _ _ _ _ _ V1) as [Hs|(_ & _ & e & _ & Hq)]; [rewrite Hs; exact (jG _ _ _ _ _ _ _ HJ)|].
        rewrite Hq in Hd'. discriminate.
      - apply (noflag0_step p c s f s' F F' Htree (g_ctx _ _ _ G) HF H HF' (jZ _ _ _ _ _ _ _ HJ)).
        intros e Hq. rewrite Hq in Hd'. discriminate. }
    (* the frontier activation returns *)
    destruct (a_pc F') as [| | | | | | | | | | | | | | | | | | | | | | | | |r] eqn:Hq'; try discriminate. clear Hd'.
    pose proof (arrived_done p ex s' F' r Harr' Hq') as Hr. subst r.
    rewrite (out_err_static ex F F' Sk) in Hq'.
    destruct (a_kind F) eqn:Ek.
    - (* a root: Run records the error *)
      right. split.
      + rewrite <- HR. apply rrb_root. rewrite Hfr. reflexivity.
      + pose proof (c1_rung2 _ _ _ _ _ _ V1 _ Ek Hq' (jG _ _ _ _ _ _ _ HJ)) as Hg. rewrite Hg.
        unfold out_err, indirect. rewrite Ek. reflexivity.
    - (* a dep: the errgroup of the parent records the error *)
      destruct (root_kind_parent p s f F Huq HF) as (Hkr & _).
      assert (Hknr : a_kind F <> KRoot) by congruence.
      destruct (parent_info p s f F Huq HF Hknr) as (pa & P & m & Hp & HP & Hpm).
      destruct (Hw f F pa HF Hnd Hp) as (P0 & HP0 & Hwf). rewrite HP in HP0. injection HP0 as <-.
      rewrite Ek in Hwf. simpl in Hwf.
      assert (Hpa : pa <> f) by (pose proof (it_par _ _ Htree f F pa HF Hp); lia).
      assert (HPout : inside (a_path F) P = false) by (unfold inside; rewrite Hpm; apply prefix_longer).
      destruct (jO _ _ _ _ _ _ _ HJ pa P HP HPout) as [_ HgP].
      destruct (step_keep p c s f s' pa P Htree H HP) as [P' (HP' & HstP & _ & HpkP & _)].
      destruct (HpkP Hpa) as [HqP _]. apply stat_eq in HstP. destruct HstP as (SpP & StP & SkP & SparP).
      assert (Hself : a_parent F <> Some f) by congruence.
      assert (HgP' : a_gerr P' = Some (EExit ex)).
      { destruct (step_finish_err p c s f s' F F' (out_err ex F) pa P HF H HF' Hq' Ek Hp Hpa HP) as [P1 [HP1 Hgs]].
        rewrite HP' in HP1. injection HP1 as <-.
        destruct (step_gerr p c s f s' F HF H Hself pa P HP) as [P2 [HP2 [Hs|(_ & _ & _ & e0 & He0 & x1 & Hx1 & Hq1)]]];
          rewrite HP' in HP2; injection HP2 as <-.
        - unfold gsome in Hgs. rewrite Hs, HgP in Hgs. discriminate.
        - rewrite HF' in Hx1. injection Hx1 as <-. rewrite Hq' in Hq1. injection Hq1 as <-.
          rewrite He0. unfold out_err, indirect. rewrite Ek. reflexivity. }
      assert (Hpre : prefix_of_aid (a_path P) (a_path F) = true) by (rewrite Hpm; apply prefix_of_aid_intro).
      assert (Hpar : forall e pa0 px, a_pc F' = PDone (RErr e) -> a_kind F = KDep -> a_parent F = Some pa0 ->
                get_act s pa0 = Some px -> inside (a_path P) px = true).
      { intros e pa0 px _ _ Hp0 Hpx. assert (pa0 = pa) by congruence. subst pa0. rewrite HP in Hpx. injection Hpx as <-.
        apply prefix_of_aid_refl. }
      left. exists pa, P'. constructor.
      + exact HP'.
      + apply A_join; [left; congruence|exact HgP'].
      + rewrite SpP, <- HR, Hpm. symmetry. apply rrb_up. left. rewrite <- Hpm, Hfr. reflexivity.
      + rewrite HqP, Hwf. discriminate.
      + rewrite SpP. apply (oinv_step p c (a_path F) (a_path P) s f s' F F' Htree (jO _ _ _ _ _ _ _ HJ) Hpre HF H HF' (Hxo _)).
        exact Hpar.
      + rewrite SpP. apply (cinv_step p c (a_path F) (a_path P) s f s' F F' Htree Huq (g_ctx _ _ _ G) Huq' (g_ctx _ _ _ G') Hw'
                 (jC _ _ _ _ _ _ _ HJ) Hpre HF H HF' (Hxo _)).
        * exact Hpar.
        * intros e _ Hk. congruence.
      + destruct (c1_rung _ _ _ _ _ _ V1) as [Hs|(_ & Hk & _)]; [rewrite Hs; exact (jG _ _ _ _ _ _ _ HJ)|congruence].
      + apply (noflag0_step p c s f s' F F' Htree (g_ctx _ _ _ G) HF H HF' (jZ _ _ _ _ _ _ _ HJ)). intros e _ Hk. congruence.
    - (* a task: call *)
      destruct (root_kind_parent p s f F Huq HF) as (Hkr & _).
      assert (Hknr : a_kind F <> KRoot) by congruence.
      destruct (parent_info p s f F Huq HF Hknr) as (pa & P & m & Hp & HP & Hpm).
      destruct (Hw f F pa HF Hnd Hp) as (P0 & HP0 & Hwf). rewrite HP in HP0. injection HP0 as <-.
      rewrite Ek in Hwf. simpl in Hwf. destruct Hwf as [i Hwf].
      assert (Hpa : pa <> f) by (pose proof (it_par _ _ Htree f F pa HF Hp); lia).
      destruct (step_keep p c s f s' pa P Htree H HP) as [P' (HP' & HstP & _ & HpkP & _)].
      destruct (HpkP Hpa) as [HqP _]. apply stat_eq in HstP. destruct HstP as (SpP & StP & SkP & SparP).
      assert (Hpre : prefix_of_aid (a_path P) (a_path F) = true) by (rewrite Hpm; apply prefix_of_aid_intro).
      assert (Hout : out_err ex F = EExit ex) by (unfold out_err, indirect; rewrite Ek; reflexivity).
      assert (Hnodep : forall pF' e pa0 px, a_pc F' = PDone (RErr e) -> a_kind F = KDep -> a_parent F = Some pa0 ->
                get_act s pa0 = Some px -> inside pF' px = true) by (intros; congruence).
      assert (Hnoroot : forall e, a_pc F' = PDone (RErr e) -> a_kind F = KRoot -> rungerr s = None -> False) by (intros; congruence).
      assert (HG' : rungerr s' = None).
      { destruct (c1_rung _ _ _ _ _ _ V1) as [Hs|(_ & Hk & _)]; [rewrite Hs; exact (jG _ _ _ _ _ _ _ HJ)|congruence]. }
      destruct (t_ignore (get_task p (a_task P))) eqn:Eig.
      + (* the caller ignores the error: the failure stops here *)
        left. exists f, F'. constructor.
        * exact HF'.
        * exact Harr'.
        * rewrite Sp. exact HR.
        * intros _. split.
          -- rewrite <- HR. apply rrb_stop. right. split; [rewrite Hfr; reflexivity|].
             rewrite Hpm. unfold parent_of. rewrite removelast_last, (task_of_get p c s pa P Hids HP). exact Eig.
          -- right. split; [congruence|]. intros pa0 px' Hp0 Hpx'. rewrite Spar in Hp0.
             assert (pa0 = pa) by congruence. subst pa0. rewrite HP' in Hpx'. injection Hpx' as <-. rewrite StP. exact Eig.
        * rewrite Sp. apply (oinv_step p c (a_path F) (a_path F) s f s' F F' Htree (jO _ _ _ _ _ _ _ HJ) (prefix_of_aid_refl _) HF H HF' (Hxo _)).
          apply Hnodep.
        * rewrite Sp. apply (cinv_step p c (a_path F) (a_path F) s f s' F F' Htree Huq (g_ctx _ _ _ G) Huq' (g_ctx _ _ _ G') Hw'
                 (jC _ _ _ _ _ _ _ HJ) (prefix_of_aid_refl _) HF H HF' (Hxo _)); [apply Hnodep|exact Hnoroot].
        * exact HG'.
        * exact (noflag0_step p c s f s' F F' Htree (g_ctx _ _ _ G) HF H HF' (jZ _ _ _ _ _ _ _ HJ) Hnoroot).
      + (* the caller fails in turn *)
        left. exists pa, P'. constructor.
        * exact HP'.
        * apply (A_call p ex s' P' i f); [congruence|congruence|].
          apply act_result_done. exists F'. split; [exact HF'|]. rewrite Hq', Hout. reflexivity.
        * rewrite SpP, <- HR, Hpm. symmetry. apply rrb_up. right. split; [rewrite <- Hpm, Hfr; reflexivity|].
          rewrite (task_of_get p c s pa P Hids HP). exact Eig.
        * rewrite HqP, Hwf. discriminate.
        * rewrite SpP. apply (oinv_step p c (a_path F) (a_path P) s f s' F F' Htree (jO _ _ _ _ _ _ _ HJ) Hpre HF H HF' (Hxo _)).
          apply Hnodep.
        * rewrite SpP. apply (cinv_step p c (a_path F) (a_path P) s f s' F F' Htree Huq (g_ctx _ _ _ G) Huq' (g_ctx _ _ _ G') Hw'
                 (jC _ _ _ _ _ _ _ HJ) Hpre HF H HF' (Hxo _)); [apply Hnodep|exact Hnoroot].
        * exact HG'.
        * exact (noflag0_step p c s f s' F F' Htree (g_ctx _ _ _ G) HF H HF' (jZ _ _ _ _ _ _ _ HJ) Hnoroot).
    - (* a deferred call: its result is dropped *)
      assert (Hnodep : forall pF' e pa0 px, a_pc F' = PDone (RErr e) -> a_kind F = KDep -> a_parent F = Some pa0 ->
                get_act s pa0 = Some px -> inside pF' px = true) by (intros; congruence).
      assert (Hnoroot : forall e, a_pc F' = PDone (RErr e) -> a_kind F = KRoot -> rungerr s = None -> False) by (intros; congruence).
      left. exists f, F'. constructor.
      + exact HF'.
      + exact Harr'.
      + rewrite Sp. exact HR.
      + intros _. split; [|left; congruence].
        rewrite <- HR. apply rrb_stop. left. rewrite Hfr. reflexivity.
      + rewrite Sp. apply (oinv_step p c (a_path F) (a_path F) s f s' F F' Htree (jO _ _ _ _ _ _ _ HJ) (prefix_of_aid_refl _) HF H HF' (Hxo _)).
        apply Hnodep.
      + rewrite Sp. apply (cinv_step p c (a_path F) (a_path F) s f s' F F' Htree Huq (g_ctx _ _ _ G) Huq' (g_ctx _ _ _ G') Hw'
               (jC _ _ _ _ _ _ _ HJ) (prefix_of_aid_refl _) HF H HF' (Hxo _)); [apply Hnodep|exact Hnoroot].
      + destruct (c1_rung _ _ _ _ _ _ V1) as [Hs|(_ & Hk & _)]; [rewrite Hs; exact (jG _ _ _ _ _ _ _ HJ)|congruence].
      + exact (noflag0_step p c s f s' F F' Htree (g_ctx _ _ _ G) HF H HF' (jZ _ _ _ _ _ _ _ HJ) Hnoroot).
  Qed.
End Self.

(* ------------------------------------------------------------------ *)
(* Run starts another root *)

Lemma start_root_shape p c s k s' : start_root p c s k = Some s' ->
  exists cl, s' = {| acts := acts s ++ [new_act [k] (c_task cl) (eval_var 0 (c_var cl)) KRoot None root_ctx];
                     used := used s; dedup := dedup s; calls := calls s; ctxs := ctxs s;
                     trace := trace s; rootres := rootres s; rungerr := rungerr s |}.
Proof.
  intros H. unfold start_root in H.
  destruct (nth_error (cf_roots c) k) as [cl|]; [|discriminate].
  destruct (negb (precheck_ok p c) || root_started s k); [discriminate|].
  match type of H with (if ?b then _ else _) = _ => destruct b end; [|discriminate].
  injection H as <-. exists cl. reflexivity.
Qed.

Section Roots.
  Variables (p : prog) (c : cfg) (ex : nat) (R : bool).

  Lemma J_start_root s k s' f F :
    inv_tree p s -> uniq p (pj csof s) -> uniq p (pj csof s') -> ctxinv p s -> J p c ex R s f F -> start_root p c s k = Some s' ->
    J p c ex R s' f F.
  Proof.
    intros Htree Huq Huq' Hci HJ H. destruct (start_root_shape p c s k s' H) as [cl ->].
    set (nr := new_act [k] (c_task cl) (eval_var 0 (c_var cl)) KRoot None root_ctx).
    set (s' := {| acts := acts s ++ [nr]; used := used s; dedup := dedup s; calls := calls s; ctxs := ctxs s;
                  trace := trace s; rootres := rootres s; rungerr := rungerr s |}) in *.
    assert (Ha : acts s' = acts s ++ [nr]) by reflexivity.
    assert (Hold : forall j y, get_act s j = Some y -> get_act s' j = Some y) by (intros j y; apply (app_get_old s s' nr j y Ha)).
    assert (Hcls : forall j y, get_act s' j = Some y -> get_act s j = Some y \/ y = nr) by (intros j y; apply (app_get_cls s s' nr j y Ha)).
    pose proof (jF _ _ _ _ _ _ _ HJ) as HF.
    assert (Hnew : get_act s' (length (acts s)) = Some nr) by (unfold get_act; simpl; apply nth_error_app_new).
    assert (Hnout : inside (a_path F) nr = false).
    { destruct (inside (a_path F) nr) eqn:E; [|reflexivity]. exfalso. unfold inside in E. simpl in E.
      destruct (root_kind_parent p s f F Huq HF) as (_ & _ & Hne).
      apply (prefix_len1 _ _ Hne) in E.
      assert (f = length (acts s)) by (apply (path_uniq p s' f (length (acts s)) F nr Huq' (Hold _ _ HF) Hnew); exact E).
      apply get_lt in HF. lia. }
    assert (Hun : forall k0, under s' nr k0 -> k0 = root_ctx).
    { intros k0 Hk0. unfold under, nr in Hk0. simpl in Hk0.
      destruct Hk0 as [Hk0|[Hk0|Hk0]]; exact (reach_base _ _ _ (proj1 (ci_base _ _ Hci)) Hk0). }
    constructor.
    - apply Hold. exact HF.
    - destruct (jA _ _ _ _ _ _ _ HJ) as [He Hc|Hq Hg|i k0 Hq Hig Hr|i Hq Hig].
      + apply A_pc; assumption.
      + apply A_join; assumption.
      + eapply A_call; eauto. apply act_result_done in Hr. destruct Hr as [y [Hy Hqy]].
        apply act_result_done. exists y. split; [apply Hold; exact Hy|exact Hqy].
      + eapply A_reacq; eauto.
    - exact (jR _ _ _ _ _ _ _ HJ).
    - intros Hd. destruct (jD _ _ _ _ _ _ _ HJ Hd) as [HR Hk]. split; [exact HR|].
      destruct Hk as [Hk|[Hk Hig]]; [left; exact Hk|right]. split; [exact Hk|].
      intros pa px Hp Hpx.
      assert (Hlt : pa < f) by (apply (it_par _ _ Htree f F pa HF Hp)).
      destruct (get_act s pa) as [px0|] eqn:Hpx0; [|apply nth_error_None in Hpx0; apply get_lt in HF; lia].
      rewrite (Hold _ _ Hpx0) in Hpx. injection Hpx as <-. exact (Hig pa px0 Hp Hpx0).
    - intros j y Hy Ho. destruct (Hcls j y Hy) as [Hy0| ->]; [exact (jO _ _ _ _ _ _ _ HJ j y Hy0 Ho)|].
      split; reflexivity.
    - intros k0 j y Hk0 Hy Hu. destruct (Hcls j y Hy) as [Hy0| ->]; [exact (jC _ _ _ _ _ _ _ HJ k0 j y Hk0 Hy0 Hu)|].
      exfalso. rewrite (Hun k0 Hu) in Hk0. exact (jZ _ _ _ _ _ _ _ HJ Hk0).
    - exact (jG _ _ _ _ _ _ _ HJ).
    - exact (jZ _ _ _ _ _ _ _ HJ).
  Qed.
End Roots.

(* ------------------------------------------------------------------ *)
(* facts about run states *)

Lemma run_snoc p c sched ch : run p c (sched ++ [ch]) = do_choice p c (run p c sched) ch.
Proof. unfold run. rewrite fold_left_app. reflexivity. Qed.

Lemma run_ctxinv p c sched : ctxinv p (run p c sched).
Proof.
  induction sched as [|ch sched IH] using rev_ind; [apply ctxinv_init|].
  rewrite run_snoc. destruct (run_inv_tree p c sched) as [Ht Hu]. destruct ch as [a|k]; simpl.
  - destruct (step p c (run p c sched) a) eqn:E; [|exact IH]. eapply step_ctxinv; eauto.
  - destruct (start_root p c (run p c sched) k) eqn:E; [|exact IH]. eapply start_root_ctxinv; eauto.
Qed.

Lemma choice_trace p c s ch : exists evs, trace (do_choice p c s ch) = trace s ++ evs.
Proof.
  destruct ch as [a|k]; simpl.
  - destruct (step p c s a) eqn:E; [eapply step_trace_app; eauto|exists []; symmetry; apply app_nil_r].
  - destruct (start_root p c s k) eqn:E; [|exists []; symmetry; apply app_nil_r].
    exists []. rewrite (start_root_trace _ _ _ _ _ E). symmetry. apply app_nil_r.
Qed.

Lemma run_nopw p c sched : noskip (trace (run p c sched)) = true -> nopw (run p c sched).
Proof.
  induction sched as [|ch sched IH] using rev_ind.
  - intros _ j y Hy. change (get_act (init_state p) j = Some y) in Hy. rewrite get_act_init in Hy. discriminate.
  - rewrite run_snoc. destruct (run_inv_tree p c sched) as [Ht Hu]. intros Hns.
    assert (Hns0 : noskip (trace (run p c sched)) = true).
    { destruct (choice_trace p c (run p c sched) ch) as [evs He]. rewrite He, noskip_app in Hns.
      apply andb_true_iff in Hns. apply Hns. }
    destruct ch as [a|k]; simpl in *.
    + destruct (step p c (run p c sched) a) eqn:E; [|exact (IH Hns0)]. eapply step_nopw; eauto.
    + destruct (start_root p c (run p c sched) k) eqn:E; [|exact (IH Hns0)].
      destruct (start_root_shape p c _ k s E) as [cl ->]. intros j y Hy.
      eapply app_get_cls in Hy; [|reflexivity]. destruct Hy as [Hy| ->]; [exact (IH Hns0 j y Hy)|reflexivity].
Qed.

Lemma all_states_run (P : state -> Prop) p c sched : forall s rest,
  all_states P p c s (sched ++ rest) -> P (fold_left (do_choice p c) sched s).
Proof.
  induction sched as [|ch sched IH]; intros s rest H; simpl in *.
  - destruct rest; apply H.
  - destruct H as [_ H]. exact (IH _ _ H).
Qed.

Lemma run_callcount_safe p c sched : callcount_possible p c = false -> callcount_safe c (run p c sched).
Proof.
  intros Hcp. apply (all_states_run (callcount_safe c) p c sched (init_state p) []).
  rewrite app_nil_r. apply callcount_safe_all. exact Hcp.
Qed.

(* Run's error is the error of a root that returned *)
Lemma run_rung_witness p c sched e :
  rungerr (run p c sched) = Some e -> exists j y, get_act (run p c sched) j = Some y /\ a_pc y = PDone (RErr e).
Proof.
  revert e. induction sched as [|ch sched IH] using rev_ind; intros e; [discriminate|].
  rewrite run_snoc. destruct (run_inv_tree p c sched) as [Ht Hu]. set (s := run p c sched) in *.
  destruct ch as [a|k]; simpl.
  - destruct (step p c s a) as [s'|] eqn:E; [|apply IH].
    destruct (step_some_act _ _ _ _ _ E) as [x Hx]. destruct (step_self p c s a s' x E Hx) as [x' Hx'].
    pose proof (step_cview1 p c s a s' x x' Hx E Hx') as V1. intros Hg.
    destruct (c1_rung _ _ _ _ _ _ V1) as [Hs|(_ & _ & e0 & He0 & Hq)].
    + rewrite Hs in Hg. destruct (IH e Hg) as (j & y & Hy & Hqy).
      destruct (step_keep p c s a s' j y Ht E Hy) as [y' (Hy' & _ & _ & Hpk & _)].
      assert (Hja : j <> a).
      { intros ->. rewrite Hx in Hy. injection Hy as <-. rewrite (step_done_none p c s a x _ Hx Hqy) in E. discriminate. }
      exists j, y'. split; [exact Hy'|]. destruct (Hpk Hja) as [-> _]. exact Hqy.
    + rewrite He0 in Hg. injection Hg as <-. exists a, x'. split; assumption.
  - destruct (start_root p c s k) as [s'|] eqn:E; [|apply IH].
    destruct (start_root_shape p c s k s' E) as [cl ->]. simpl. intros Hg.
    destruct (IH e Hg) as (j & y & Hy & Hqy). exists j, y. split; [|exact Hqy].
    eapply app_get_old; eauto. reflexivity.
Qed.

(* the error-free regime of Exec/InvDefer.v, for run states *)
Lemma run_causal p c sched :
  no_guard_errors p c = true -> callcount_possible p c = false ->
  causal p c (fun _ => false) (run p c sched).
Proof.
  intros Hng Hcp.
  induction sched as [|ch sched IH] using rev_ind; [right; apply clean_init|].
  rewrite run_snoc.
  assert (Htrip : trip_ok c (fun _ => false) (run p c sched)).
  { intros a x Hx Ht. exfalso. exact (run_callcount_safe p c sched Hcp a x Hx Ht). }
  apply (choice_causal p c (fun _ => false) (fun _ _ H => H) (run p c sched) ch Hng Htrip).
  split; [apply run_inv_phase|exact IH].
Qed.

Lemma fail_seen_ends p c tr : fail_seen p c tr = false <-> failing_ends p c tr = [].
Proof.
  unfold fail_seen, failing_ends. induction tr as [|e tr IH]; simpl; [tauto|].
  destruct e; simpl; try exact IH.
  destruct (failing_cmd p c a i); simpl; [split; discriminate|exact IH].
Qed.

Lemma run_clean p c sched :
  no_guard_errors p c = true -> callcount_possible p c = false ->
  failing_ends p c (trace (run p c sched)) = [] -> clean (run p c sched).
Proof.
  intros Hng Hcp Hfe. destruct (run_causal p c sched Hng Hcp) as [[Hf|Hf]|Hc]; [|discriminate|exact Hc].
  apply fail_seen_ends in Hfe. congruence.
Qed.

Lemma run_glob p c sched :
  callcount_possible p c = false -> noskip (trace (run p c sched)) = true -> glob p c (run p c sched).
Proof.
  intros Hcp Hns. constructor.
  - apply run_inv_fail.
  - apply run_ctxinv.
  - apply run_nopw. exact Hns.
  - apply run_callcount_safe. exact Hcp.
  - intros a x i cid Hx Hq. destruct (call_waits_for_callee p c sched a x i cid Hx Hq) as (cl & y & H1 & H2 & H3 & _).
    exists cl, y. repeat split; assumption.
Qed.

(* ------------------------------------------------------------------ *)
(* the failing command ends *)

Lemma pc_clean_cleanx tk q : pc_clean q = true -> pc_cleanx tk q = true.
Proof. unfold pc_cleanx. intros ->. reflexivity. Qed.

(* the one failing command ends: the run leaves the error-free regime with that activation as frontier *)
Lemma J_init p c s a s' :
  no_guard_errors p c = true -> glob p c s -> glob p c s' -> clean s -> rungerr s = None ->
  step p c s a = Some s' ->
  failing_ends p c (trace s) = [] -> failing_ends p c (trace s') <> [] ->
  exists x i F', get_act s a = Some x /\ failing_ends p c (trace s') = [(a_path x, i)] /\
    J p c (exit_of p c (a_path x) i) (reaches_root p c (a_path x)) s' a F'.
Proof.
  intros Hng G G' Hcl Hrg H Hfe Hfe'.
  destruct (g_fail _ _ _ G) as [Hids Htree Huq Hw _]. destruct (g_fail _ _ _ G') as [Hids' Htree' Huq' Hw' _].
  destruct (step_some_act _ _ _ _ _ H) as [x Hx].
  destruct (step_self p c s a s' x H Hx) as [x' Hx'].
  pose proof (step_view p c s a s' x x' Hx H Hx') as V.
  pose proof (step_cview1 p c s a s' x x' Hx H Hx') as V1.
  destruct (step_keep p c s a s' a x Htree H Hx) as [x0 (Hx0 & Hst & _ & _ & _)].
  rewrite Hx' in Hx0. injection Hx0 as <-. apply stat_eq in Hst. destruct Hst as (Sp & St & Sk & Spar).
  destruct (vw_trace _ _ _ _ _ V) as [Ht|[e [Ht Hev]]]; [rewrite Ht in Hfe'; contradiction|].
  assert (Hfe1 : failing_ends p c (trace s') = failing_ends p c [e]) by (rewrite Ht, failing_ends_app, Hfe; reflexivity).
  destruct e; try (rewrite Hfe1 in Hfe'; simpl in Hfe'; contradiction).
  simpl in Hev. destruct Hev as (-> & Hq & Hfx).
  simpl in Hfe1. destruct (failing_cmd p c (a_path x) i) eqn:Efc; [|rewrite Hfe1 in Hfe'; contradiction].
  rewrite (failing_cmd_tk p c s a x i Hids Hx) in Efc. destruct (Hfx Efc) as [e0 Hq0].
  destruct (cl_c1 _ Hcl a x Hx) as [Hpcl Hg].
  assert (Hunc : fin (a_pc x) = false -> cancelled s (a_ectx x) = false) by (apply (clean_uncancelled s a x Hcl Hx)).
  destruct (c1_clean _ _ _ _ _ _ V1 (no_guard_fine p c _ Hng) (g_cc _ _ _ G a x Hx) Hunc (pc_clean_cleanx _ _ Hpcl) Hg (g_npw _ _ _ G a x Hx))
    as [Hok|(i0 & n & Hq1 & _ & Hn & Hq' & _)].
  { intros i1 k r Hq1. congruence. }
  { rewrite Hq0 in Hok. discriminate. }
  assert (i0 = i) by congruence. subst i0.
  assert (Hex : exit_of p c (a_path x) i = S n).
  { unfold exit_of. rewrite (task_of_get p c s a x Hids Hx), Hn. reflexivity. }
  exists x, i, x'. split; [exact Hx|]. split; [exact Hfe1|].
  rewrite Hex.
  assert (Hin : inside (a_path x) x = true) by (unfold inside; apply prefix_of_aid_refl).
  assert (Hxo : inside (a_path x) x = false -> pc_cleanx (get_task p (a_task x)) (a_pc x') = true) by (intros E; congruence).
  assert (Hpar : forall e pa px, a_pc x' = PDone (RErr e) -> a_kind x = KDep -> a_parent x = Some pa ->
            get_act s pa = Some px -> inside (a_path x) px = true) by (intros; congruence).
  assert (Hroot : forall e, a_pc x' = PDone (RErr e) -> a_kind x = KRoot -> rungerr s = None -> False) by (intros; congruence).
  assert (Ho : oinv p (a_path x) s).
  { intros j y Hy _. destruct (cl_c1 _ Hcl j y Hy) as [H1 H2]. split; [apply pc_clean_cleanx; exact H1|exact H2]. }
  assert (Hc : cinv (a_path x) s).
  { intros k j y Hk Hy Hu. left. exact (cl_c2 _ Hcl k j y Hk Hy Hu). }
  constructor.
  - exact Hx'.
  - apply A_pc; rewrite Hq'; [reflexivity|]. split; [intros e1 E1; congruence|intros e1 E1; discriminate].
  - rewrite Sp. reflexivity.
  - rewrite Hq'. discriminate.
  - rewrite Sp. exact (oinv_step p c _ _ s a s' x x' Htree Ho (prefix_of_aid_refl _) Hx H Hx' Hxo Hpar).
  - rewrite Sp. exact (cinv_step p c _ _ s a s' x x' Htree Huq (g_ctx _ _ _ G) Huq' (g_ctx _ _ _ G') Hw' Hc (prefix_of_aid_refl _) Hx H Hx' Hxo Hpar Hroot).
  - destruct (c1_rung _ _ _ _ _ _ V1) as [Hs|(_ & _ & e1 & _ & Hq2)]; [congruence|congruence].
  - apply (noflag0_step p c s a s' x x' Htree (g_ctx _ _ _ G) Hx H Hx'); [|exact Hroot].
    exact (proj1 (wf_unfl _ (cl_wf _ Hcl))).
Qed.

(* ------------------------------------------------------------------ *)
(* the phases of a run and the theorem *)

Definition status_phase (p : prog) (c : cfg) (s : state) : Prop :=
  (failing_ends p c (trace s) = [] /\ clean s) \/
  (exists a i f F, failing_ends p c (trace s) = [(a, i)] /\
                   J p c (exit_of p c a i) (reaches_root p c a) s f F) \/
  (exists a i, failing_ends p c (trace s) = [(a, i)] /\ reaches_root p c a = true /\
               rungerr s = Some (ETaskRun (Some (exit_of p c a i)))) \/
  2 <= length (failing_ends p c (trace s)).

Lemma only_cmd_split p c : only_cmd_errors p c = true -> no_guard_errors p c = true /\ callcount_possible p c = false.
Proof. unfold only_cmd_errors. intros H. apply andb_true_iff in H. destruct H as [H1 H2]. apply negb_true_iff in H2. auto. Qed.

Theorem run_phase p c sched :
  only_cmd_errors p c = true -> noskip (trace (run p c sched)) = true -> status_phase p c (run p c sched).
Proof.
  intros Hoc. destruct (only_cmd_split p c Hoc) as [Hng Hcp].
  induction sched as [|ch sched IH] using rev_ind; intros Hns.
  - left. split; [reflexivity|apply clean_init].
  - assert (Hns0 : noskip (trace (run p c sched)) = true).
    { rewrite run_snoc in Hns. destruct (choice_trace p c (run p c sched) ch) as [evs He]. rewrite He, noskip_app in Hns.
      apply andb_true_iff in Hns. apply Hns. }
    specialize (IH Hns0).
    pose proof (run_glob p c sched Hcp Hns0) as G.
    pose proof (run_glob p c (sched ++ [ch]) Hcp Hns) as G'.
    pose proof (fun H => run_clean p c (sched ++ [ch]) Hng Hcp H) as Hclean'.
    rewrite run_snoc in *. set (s := run p c sched) in *.
    destruct (g_fail _ _ _ G) as [Hids Htree Huq Hw _].
    destruct ch as [a|k]; simpl in *.
    + destruct (step p c s a) as [s'|] eqn:E; [|exact IH].
      destruct (step_trace_app p c s a s' E) as [evs Htr].
      assert (Hfe' : failing_ends p c (trace s') = failing_ends p c (trace s) ++ failing_ends p c evs).
      { rewrite Htr. apply failing_ends_app. }
      destruct (step_some_act _ _ _ _ _ E) as [x Hx]. destruct (step_self p c s a s' x E Hx) as [x' Hx'].
      pose proof (step_cview1 p c s a s' x x' Hx E Hx') as V1.
      destruct (failing_ends p c evs) as [|fe0 fes] eqn:Efe.
      * rewrite app_nil_r in Hfe'.
        destruct IH as [[Hfe Hcl]|[(a0 & i0 & f & F & Hfe & HJ)|[(a0 & i0 & Hfe & Hrr & Hrg)|Hlen]]].
        -- left. split; [congruence|]. apply Hclean'. congruence.
        -- destruct (Nat.eq_dec a f) as [->|Hne].
           ++ destruct (J_step_self p c _ _ s s' f F G G' HJ E Hfe') as [(f' & F' & HJ')|[HR Hrg]].
              ** right; left. exists a0, i0, f', F'. split; [congruence|exact HJ'].
              ** right; right; left. exists a0, i0. split; [congruence|]. split; assumption.
           ++ destruct (J_step_other p c _ _ Hng s a s' f F G G' HJ E Hne Hfe') as [F' HJ'].
              right; left. exists a0, i0, f, F'. split; [congruence|exact HJ'].
        -- right; right; left. exists a0, i0. split; [congruence|]. split; [exact Hrr|].
           destruct (c1_rung _ _ _ _ _ _ V1) as [Hs|(Hn & _)]; congruence.
        -- right; right; right. congruence.
      * destruct IH as [[Hfe Hcl]|[(a0 & i0 & f & F & Hfe & HJ)|[(a0 & i0 & Hfe & Hrr & Hrg)|Hlen]]].
        -- assert (Hrg : rungerr s = None).
           { destruct (rungerr s) as [e|] eqn:Er; [|reflexivity]. exfalso.
             destruct (run_rung_witness p c sched e Er) as (j & y & Hy & Hq).
             destruct (cl_c1 _ Hcl j y Hy) as [Hpc _]. fold s in Hy. rewrite Hq in Hpc. discriminate. }
           assert (Hne : failing_ends p c (trace s') <> []) by (rewrite Hfe', Hfe; discriminate).
           destruct (J_init p c s a s' Hng G G' Hcl Hrg E Hfe Hne) as (x0 & i & F' & _ & Hfe1 & HJ').
           right; left. exists (a_path x0), i, a, F'. split; assumption.
        -- right; right; right. rewrite Hfe', Hfe. simpl. lia.
        -- right; right; right. rewrite Hfe', Hfe. simpl. lia.
        -- right; right; right. rewrite Hfe', app_length. lia.
    + destruct (start_root p c s k) as [s'|] eqn:E; [|exact IH].
      pose proof (start_root_trace p c s k s' E) as Htr.
      destruct IH as [[Hfe Hcl]|[(a0 & i0 & f & F & Hfe & HJ)|[(a0 & i0 & Hfe & Hrr & Hrg)|Hlen]]].
      * left. split; [congruence|]. eapply start_root_clean; eauto.
      * right; left. exists a0, i0, f, F. split; [congruence|].
        destruct (g_fail _ _ _ G') as [_ _ Huq' _ _].
        eapply J_start_root; eauto. exact (g_ctx _ _ _ G).
      * right; right; left. exists a0, i0. split; [congruence|]. split; [exact Hrr|].
        destruct (start_root_shape p c s k s' E) as [cl ->]. exact Hrg.
      * right; right; right. congruence.
Qed.

Lemma all_done_get s j y :
  forallb (fun x => match a_pc x with PDone _ => true | _ => false end) (acts s) = true ->
  get_act s j = Some y -> is_done (a_pc y) = true.
Proof.
  intros Hall Hy. rewrite forallb_forall in Hall. unfold get_act in Hy. specialize (Hall y (nth_error_In _ _ Hy)).
  destruct (a_pc y); try discriminate. reflexivity.
Qed.

(* clause 2 of mon_C03_status for completed runs with exactly one failing command *)
Theorem single_failure_status p c sched r a i :
  run_result p c (run p c sched) = Some r ->
  failing_ends p c (trace (run p c sched)) = [(a, i)] ->
  only_cmd_errors p c = true -> noskip (trace (run p c sched)) = true ->
  if reaches_root p c a then r = RErr (ETaskRun (Some (exit_of p c a i))) else r = ROk.
Proof.
  intros Hr Hfe Hoc Hns. pose proof (run_phase p c sched Hoc Hns) as Hph. set (s := run p c sched) in *.
  unfold run_result in Hr. destruct (negb (precheck_ok p c)) eqn:Epc.
  { exfalso. apply negb_true_iff in Epc. unfold s in Hfe. rewrite (precheck_false_run p c sched Epc) in Hfe. discriminate. }
  destruct (forallb _ (acts s)) eqn:Hall; [|discriminate].
  destruct Hph as [[Hfe0 _]|[(a0 & i0 & f & F & Hfe0 & HJ)|[(a0 & i0 & Hfe0 & Hrr & Hrg)|Hlen]]].
  - congruence.
  - rewrite Hfe in Hfe0. injection Hfe0 as <- <-.
    pose proof (all_done_get s f F Hall (jF _ _ _ _ _ _ _ HJ)) as Hd.
    destruct (jD _ _ _ _ _ _ _ HJ Hd) as [HR _]. rewrite HR.
    rewrite (jG _ _ _ _ _ _ _ HJ) in Hr. destruct (Nat.eqb _ _); congruence.
  - rewrite Hfe in Hfe0. injection Hfe0 as <- <-. rewrite Hrr. rewrite Hrg in Hr. congruence.
  - rewrite Hfe in Hlen. simpl in Hlen. lia.
Qed.

Theorem status_all_schedules p c sched r :
  run_result p c (run p c sched) = Some r -> mon_C03_status p c (trace (run p c sched)) r = true.
Proof.
  intros Hr.
  destruct (failing_ends p c (trace (run p c sched))) as [|[a i] [|fe2 fes]] eqn:Hfe.
  - apply no_failure_no_exit_error; assumption.
  - pose proof (fail_reaches_root_all_schedules p c sched r Hr) as H1.
    rewrite mon_C03_status_split, H1. simpl. unfold status_clause2. rewrite Hfe.
    unfold status_clause1 in H1. rewrite Hfe in H1. simpl in H1. rewrite andb_true_r in H1.
    destruct (only_cmd_errors p c && negb (existsb (fun e => match e with EvSkipping _ _ => true | _ => false end) (trace (run p c sched)))) eqn:Eg.
    + apply andb_true_iff in Eg. destruct Eg as [Hoc Hns].
      pose proof (single_failure_status p c sched r a i Hr Hfe Hoc Hns) as Hs.
      destruct (reaches_root p c a); rewrite Hs; [apply Nat.eqb_refl|reflexivity].
    + destruct (reaches_root p c a); [exact H1|reflexivity].
  - pose proof (fail_reaches_root_all_schedules p c sched r Hr) as H1.
    rewrite mon_C03_status_split, H1. simpl. unfold status_clause2. rewrite Hfe. reflexivity.
Qed.

(* exit status of the CLI for such a run *)
Theorem single_failure_exit_status p c sched r a i :
  run_result p c (run p c sched) = Some r ->
  failing_ends p c (trace (run p c sched)) = [(a, i)] -> reaches_root p c a = true ->
  only_cmd_errors p c = true -> noskip (trace (run p c sched)) = true ->
  exit_status false r = 201 /\ exit_status true r = exit_of p c a i.
Proof.
  intros Hr Hfe Hrr Hoc Hns. pose proof (single_failure_status p c sched r a i Hr Hfe Hoc Hns) as Hs.
  rewrite Hrr in Hs. subst r. split; reflexivity.
Qed.

(* ------------------------------------------------------------------ *)
(* the "nobody was skipped" guard is needed: the clause without it is refuted *)

Definition unguarded_clause_a (p : prog) (c : cfg) (tr : list event) (r : res) : bool :=
  match failing_ends p c tr with
  | [(a, i)] =>
      if reaches_root p c a && only_cmd_errors p c
      then match r with RErr (ETaskRun (Some n)) => Nat.eqb n (exit_of p c a i) | _ => false end
      else true
  | _ => true
  end.

Definition exs_mk (deps : list call) (cmds : list cmd) (rm : runmode) : task :=
  {| t_deps := deps; t_cmds := cmds; t_run := rm; t_ignore := false; t_internal := false; t_g := dummy_guards |}.
Definition exs_call (t : nat) : call := {| c_task := t; c_var := VConst 0 |}.
(* 0: root, deps [1; 2];  1: deps [3; 4];  2: calls 4;  3: its command exits with 3;  4: run once *)
Definition exs_prog : prog :=
  [ exs_mk [exs_call 1; exs_call 2] [] Always;
    exs_mk [exs_call 3; exs_call 4] [] Always;
    exs_mk [] [CallC (exs_call 4)] Always;
    exs_mk [] [Shell 3 false] Always;
    exs_mk [] [Shell 0 false] Once ].
Definition exs_cfg : cfg :=
  {| cf_N := None; cf_parallel := false; cf_force := false; cf_forceall := false; cf_yes := false;
     cf_roots := [ exs_call 0 ]; cf_maxcall := 1000 |}.
(* activations: 0 root; 1, 2 its deps; 3, 4 the deps of 1 (4 owns the one execution of task 4);
   5 the call of task 4 by 2, skipped in favour of 4.  Task 3 fails; the group of 1 is cancelled; the
   owner 4 ends "context canceled"; the skipped caller 5 reports that to 2, which returns it to the
   errgroup of the root before 1 returns the real error *)
Definition exs_sched : list choice :=
  ChRoot 0 :: repeat (ChStep 0) 5 ++ repeat (ChStep 1) 5 ++ repeat (ChStep 4) 9 ++
  repeat (ChStep 2) 10 ++ repeat (ChStep 5) 6 ++ repeat (ChStep 3) 30 ++ repeat (ChStep 4) 30 ++
  repeat (ChStep 5) 10 ++ repeat (ChStep 2) 30 ++ repeat (ChStep 1) 30 ++ repeat (ChStep 0) 30.
Definition exs_trace : list event := trace (run exs_prog exs_cfg exs_sched).

Example status_single_reaching_refuted :
  failing_ends exs_prog exs_cfg exs_trace = [([0; 0; 0], 0)] /\
  reaches_root exs_prog exs_cfg [0; 0; 0] = true /\
  only_cmd_errors exs_prog exs_cfg = true /\
  noskip exs_trace = false /\
  run_result exs_prog exs_cfg (run exs_prog exs_cfg exs_sched) = Some (RErr ECancel) /\
  unguarded_clause_a exs_prog exs_cfg exs_trace (RErr ECancel) = false /\
  mon_C03_status exs_prog exs_cfg exs_trace (RErr ECancel) = true.
Proof. vm_compute. repeat split; reflexivity. Qed.
