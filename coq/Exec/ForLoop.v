(* Expansion of `for:` loops of a task's cmds / deps into the per-call command list
   (variables.go: compiledTask, itemsFromFor, resolveMatrixRefs, product).
   Definitions only; the proofs are in Exec/ForLoopProofs.v, the statements in Properties/C02for.v.

   What the real code supports at this commit (taskfile/ast/for.go, variables.go:itemsFromFor):
     for: [a, b, c]                          LList      explicit list, in list order
     for: {matrix: {K1: [..], K2: [..]}}     LMatrix    rows in declaration order (ordered map); a row may
                                                        be {ref: .VAR} = the list VAR resolves to (resolveMatrixRefs)
     for: {var: X, split: S}                 LSplit     X a string: strings.Split(X, S); S = "" : strings.Fields(X)
     for: {var: X}  (X a list)               LVarList   in list order
     for: {var: X}  (X a map)                LMap       Go map iteration: order unspecified (documented as random);
                                                        KEY is bound besides ITEM
     for: sources | generates                LFiles     the list fingerprint.Globs returns (oracle), in that order
     as: NAME                                           renames ITEM (default "ITEM")
   The same forms exist for deps entries (a dep is a task call). *)
From Coq Require Import List String Ascii Bool Arith.
Import ListNotations.
Local Open Scope string_scope.

(* ---------- values, bindings, templates ---------- *)

(* a combination of a matrix: (key, item) in row declaration order *)
Definition comb := list (string * string).

(* the loop value bound to ITEM: a scalar (rendered as text) or a matrix combination *)
Inductive value := VStr (s : string) | VComb (kv : comb).

(* the `extra` map handed to the templater: name -> value (first match wins) *)
Definition binding := list (string * value).

Fixpoint lookup {A} (k : string) (l : list (string * A)) : option A :=
  match l with
  | [] => None
  | (k', v) :: r => if String.eqb k k' then Some v else lookup k r
  end.

(* fmt's rendering of a map[string]any: keys sorted *)
Fixpoint insert_kv (x : string * string) (l : comb) : comb :=
  match l with
  | [] => [x]
  | y :: r => if String.leb (fst x) (fst y) then x :: l else y :: insert_kv x r
  end.
Definition sort_kv (l : comb) : comb := fold_right insert_kv [] l.
Definition go_map (kv : comb) : string :=
  "map[" ++ String.concat " " (map (fun p => fst p ++ ":" ++ snd p) (sort_kv kv)) ++ "]".

(* template pieces: literal text, {{.NAME}}, {{.NAME.FIELD}} *)
Inductive piece := PLit (s : string) | PVar (name : string) | PField (name field : string).
Definition tmpl := list piece.

(* An unbound {{.NAME}} renders "<no value>", which the templater deletes.  {{.NAME.FIELD}} is only
   well formed under a matrix loop binding NAME (on a scalar or an unbound name the real templater
   reports an error; the model renders "" there and the harness never generates it). *)
Definition render_piece (b : binding) (p : piece) : string :=
  match p with
  | PLit s => s
  | PVar n => match lookup n b with
              | Some (VStr s) => s
              | Some (VComb kv) => go_map kv
              | None => ""
              end
  | PField n f => match lookup n b with
                  | Some (VComb kv) => match lookup f kv with Some s => s | None => "" end
                  | _ => ""
                  end
  end.
Definition render (b : binding) (t : tmpl) : string :=
  fold_right (fun p acc => render_piece b p ++ acc) "" t.

(* the attributes of an entry besides its text / callee / vars: every field of ast.Cmd (ast.Dep: only
   silent) that compiledTask must carry over unchanged to each command it produces.  platforms as
   written ("linux", "amd64", "darwin/arm64"). *)
Record attrs := {
  a_ignore_error : bool;
  a_silent : bool;
  a_set : list string;
  a_shopt : list string;
  a_platforms : list string;
  a_defer : bool
}.
Definition no_attrs : attrs :=
  {| a_ignore_error := false; a_silent := false; a_set := []; a_shopt := []; a_platforms := []; a_defer := false |}.

(* a command / dep before expansion, and after *)
Inductive cmdt := TShell (a : attrs) (t : tmpl) | TCall (a : attrs) (task : tmpl) (vars : list (string * tmpl)).
Inductive xcmd := XShell (a : attrs) (s : string) | XCall (a : attrs) (task : string) (vars : list (string * string)).

Definition cattrs_of (c : cmdt) : attrs := match c with TShell a _ => a | TCall a _ _ => a end.
Definition attrs_of (x : xcmd) : attrs := match x with XShell a _ => a | XCall a _ _ => a end.

(* newCmd := cmd.DeepCopy(); then Cmd / Task / Vars are replaced by their rendering *)
Definition inst (c : cmdt) (b : binding) : xcmd :=
  match c with
  | TShell a t => XShell a (render b t)
  | TCall a t vs => XCall a (render b t) (map (fun kv => (fst kv, render b (snd kv))) vs)
  end.

(* ---------- where the items come from ---------- *)

(* strings.Split(s, sep) for sep <> "": cut at the leftmost non-overlapping occurrences.
   [skip] = how many characters of a separator just matched are still to be dropped. *)
Fixpoint is_prefix (p s : string) : bool :=
  match p with
  | "" => true
  | String a p' => match s with
                   | "" => false
                   | String b s' => Ascii.eqb a b && is_prefix p' s'
                   end
  end.

Fixpoint split_aux (sep s : string) (skip : nat) (cur : string) : list string :=
  match s with
  | "" => [cur]
  | String a s' =>
      match skip with
      | S k => split_aux sep s' k cur
      | O => if is_prefix sep s
             then cur :: split_aux sep s' (String.length sep - 1) ""
             else split_aux sep s' 0 (cur ++ String a "")
      end
  end.
Definition split (sep s : string) : list string := split_aux sep s 0 "".

(* strings.Fields(s) on ASCII text: maximal runs of non-space characters *)
Definition is_space (a : ascii) : bool :=
  let n := nat_of_ascii a in
  Nat.eqb n 9 || Nat.eqb n 10 || Nat.eqb n 11 || Nat.eqb n 12 || Nat.eqb n 13 || Nat.eqb n 32.

Definition flush (cur : string) (rest : list string) : list string :=
  match cur with "" => rest | _ => cur :: rest end.

Fixpoint fields_aux (s : string) (cur : string) : list string :=
  match s with
  | "" => flush cur []
  | String a s' =>
      if is_space a then flush cur (fields_aux s' "")
      else fields_aux s' (cur ++ String a "")
  end.
Definition fields (s : string) : list string := fields_aux s "".

(* product (variables.go): result starts as [{}]; for each row in declaration order, every
   combination so far (outer loop) is extended by every item of the row (inner loop) *)
Definition row := (string * list string)%type.

Definition product_step (result : list comb) (r : row) : list comb :=
  flat_map (fun cmb => map (fun it => (cmb ++ [(fst r, it)])%list) (snd r)) result.

Definition product (rows : list row) : list comb :=
  match rows with
  | [] => []
  | _ => fold_left product_step rows [[]]
  end.

Inductive loop :=
| LList (items : list string)
| LVarList (items : list string)
| LFiles (items : list string)
| LMatrix (rows : list row)
| LSplit (value sep : string)
| LMap (kvs : list (string * string)).

(* [mo]: the order in which Go iterates over the map (external; any permutation) *)
Definition map_order := list (string * string) -> list (string * string).

(* (key, value) per iteration: itemsFromFor's (keys[i], list[i]) *)
Definition items_of (mo : map_order) (l : loop) : list (option string * value) :=
  match l with
  | LList xs | LVarList xs | LFiles xs => map (fun x => (None, VStr x)) xs
  | LMatrix rows => map (fun c => (None, VComb c)) (product rows)
  | LSplit v sep => map (fun x => (None, VStr x))
                        (match sep with "" => fields v | _ => split sep v end)
  | LMap kvs => map (fun kv => (Some (fst kv), VStr (snd kv))) (mo kvs)
  end.

(* extra := {as: loopValue}; if there are keys, extra["KEY"] = keys[i] (set last: it wins) *)
Definition as_name (a : string) : string := match a with "" => "ITEM" | _ => a end.
Definition bind (a : string) (kv : option string * value) : binding :=
  match fst kv with
  | Some k => [("KEY", VStr k); (as_name a, snd kv)]
  | None => [(as_name a, snd kv)]
  end.

(* ---------- the expansion ---------- *)

(* an entry of cmds: / deps: as decoded.  Plain = no `for:` (already rendered; also defer entries,
   which compiledTask copies unexpanded); Null = a `~` entry (skipped) *)
Inductive entry :=
| Plain (x : xcmd)
| Null
| For (l : loop) (as_ : string) (c : cmdt).

Definition expand_entry (mo : map_order) (e : entry) : list xcmd :=
  match e with
  | Plain x => [x]
  | Null => []
  | For l a c => map (fun kv => inst c (bind a kv)) (items_of mo l)
  end.

(* compiledTask: new.Cmds = append(new.Cmds, ...) while ranging over origTask.Cmds in order *)
Definition expand (mo : map_order) (es : list entry) : list xcmd :=
  fold_left (fun acc e => (acc ++ expand_entry mo e)%list) es [].

(* ---------- the specification (independent of the folds above) ---------- *)

(* lexicographic enumeration of the rows, first key slowest *)
Fixpoint lex_enum (rows : list row) : list comb :=
  match rows with
  | [] => [[]]
  | r :: rest => flat_map (fun it => map (cons (fst r, it)) (lex_enum rest)) (snd r)
  end.

Definition spec_items (l : loop) : list (option string * value) :=
  match l with
  | LList xs | LVarList xs | LFiles xs => map (fun x => (None, VStr x)) xs
  | LMatrix [] => []
  | LMatrix rows => map (fun c => (None, VComb c)) (lex_enum rows)
  | LSplit v sep => map (fun x => (None, VStr x))
                        (match sep with "" => fields v | _ => split sep v end)
  | LMap kvs => map (fun kv => (Some (fst kv), VStr (snd kv))) kvs
  end.

Definition ordered_loop (l : loop) : bool := match l with LMap _ => false | _ => true end.

(* one segment per entry: (order matters?, the commands it must produce) *)
Definition spec_segment (e : entry) : bool * list xcmd :=
  match e with
  | Plain x => (true, [x])
  | Null => (true, [])
  | For l a c => (ordered_loop l, map (fun kv => inst c (bind a kv)) (spec_items l))
  end.

Definition spec_expand (es : list entry) : list xcmd := flat_map (fun e => snd (spec_segment e)) es.

(* boolean equalities *)
Fixpoint list_eqb {A} (eqb : A -> A -> bool) (a b : list A) : bool :=
  match a, b with
  | [], [] => true
  | x :: a', y :: b' => eqb x y && list_eqb eqb a' b'
  | _, _ => false
  end.
Definition pair_eqb (p q : string * string) : bool := String.eqb (fst p) (fst q) && String.eqb (snd p) (snd q).
Definition attrs_eqb (a b : attrs) : bool :=
  Bool.eqb (a_ignore_error a) (a_ignore_error b) && Bool.eqb (a_silent a) (a_silent b) &&
  list_eqb String.eqb (a_set a) (a_set b) && list_eqb String.eqb (a_shopt a) (a_shopt b) &&
  list_eqb String.eqb (a_platforms a) (a_platforms b) && Bool.eqb (a_defer a) (a_defer b).
Definition xcmd_eqb (x y : xcmd) : bool :=
  match x, y with
  | XShell a s, XShell b t => attrs_eqb a b && String.eqb s t
  | XCall a s vs, XCall b t ws => attrs_eqb a b && String.eqb s t && list_eqb pair_eqb vs ws
  | _, _ => false
  end.
Definition xl_eqb := list_eqb xcmd_eqb.

(* same multiset *)
Definition count_x (x : xcmd) (l : list xcmd) : nat := List.length (filter (xcmd_eqb x) l).
Definition perm_eqb (a b : list xcmd) : bool :=
  Nat.eqb (List.length a) (List.length b) &&
  forallb (fun x => Nat.eqb (count_x x a) (count_x x b)) a.

(* the monitor: the observed expanded list, cut at the segment lengths of the specification, is
   segment by segment what the specification says, in that order (a map loop: up to the order
   of its own iterations) *)
Fixpoint mon_segments (segs : list (bool * list xcmd)) (obs : list xcmd) : bool :=
  match segs with
  | [] => match obs with [] => true | _ => false end
  | (ord, seg) :: r =>
      let n := List.length seg in
      (if ord then xl_eqb seg (firstn n obs) else perm_eqb seg (firstn n obs)) &&
      mon_segments r (skipn n obs)
  end.
Definition mon_for (es : list entry) (obs : list xcmd) : bool := mon_segments (map spec_segment es) obs.

(* the attribute part on its own: every command of the segment an entry produces carries exactly the
   entry's attributes (a Null entry produces nothing) *)
Definition entry_attrs (e : entry) : option attrs :=
  match e with
  | Plain x => Some (attrs_of x)
  | Null => None
  | For _ _ c => Some (cattrs_of c)
  end.

Definition has_attrs (oa : option attrs) (x : xcmd) : bool :=
  match oa with Some a => attrs_eqb a (attrs_of x) | None => false end.

Fixpoint mon_attr_segments (segs : list (option attrs * nat)) (obs : list xcmd) : bool :=
  match segs with
  | [] => match obs with [] => true | _ => false end
  | (oa, n) :: r =>
      Nat.eqb (List.length (firstn n obs)) n && forallb (has_attrs oa) (firstn n obs) &&
      mon_attr_segments r (skipn n obs)
  end.
Definition mon_attrs (es : list entry) (obs : list xcmd) : bool :=
  mon_attr_segments (map (fun e => (entry_attrs e, List.length (snd (spec_segment e)))) es) obs.

Definition deterministic (es : list entry) : bool :=
  forallb (fun e => fst (spec_segment e)) es.
