(* Shape of variables.go the for-loop model (Exec/ForLoop.v) hard-wires, compared with the skeletons
   the extractor (extract/facts_for.go) prints from the Go source on every run.  A skeleton is one
   token per order-relevant statement, "depth:statement" (depth = enclosing for/if/case blocks).
   If a fact is missing from Extracted/Facts.v this file does not compile (obligation broken). *)
From Coq Require Import List String Bool Arith.
Import ListNotations.
From TV Require Import Extracted.Facts.
Local Open Scope string_scope.

Fixpoint strs_eqb (a b : list string) : bool :=
  match a, b with
  | [], [] => true
  | x :: a', y :: b' => String.eqb x y && strs_eqb a' b'
  | _, _ => false
  end.

(* product: result = [{}]; rows in matrix.All() order (outermost loop); for every combination so far
   (middle loop) every item of the row (innermost loop) appends combination+{key:item}.
   = ForLoop.product_step / ForLoop.product: flat_map over the result outside, map over the row's
   items inside, hence the FIRST key varies slowest. *)
Definition expected_product : list string :=
  ["0:if matrix.Len() == 0";
   "1:return nil";
   "0:result := []map[string]any{{}}";
   "0:range key,row in matrix.All()";
   "1:var newResult []map[string]any";
   "1:range _,combination in result";
   "2:range _,item in row.Value";
   "3:newComb := make(map[string]any, len(combination))";
   "3:maps.Copy(newComb, combination)";
   "3:newComb[key] = item";
   "3:newResult = append(newResult, newComb)";
   "1:result = newResult";
   "0:return result"].

(* compiledTask, cmds: entries in origTask.Cmds order; nil skipped (Null); a for entry appends one
   copy per item of itemsFromFor in list order with extra = {as: item} (+ KEY = keys[i]);
   defer entries and plain entries are appended as they come (Plain).  Each produced command is
   cmd.DeepCopy() with only Cmd / Task / Vars replaced: all other fields (ignore_error, silent, set,
   shopt, platforms, defer) are the entry's (ForLoop.inst keeps the attrs).
   = ForLoop.expand / expand_entry / bind / as_name *)
Definition expected_cmds : list string :=
  ["0:range _,cmd in origTask.Cmds";
   "1:if cmd == nil";
   "2:continue";
   "1:if cmd.For != nil";
   "2:list, keys, err := itemsFromFor(cmd.For, new.Dir, new.Sources, new.Generates, vars, origTask.Location, cache)";
   "2:if cmd.For.As != """"";
   "3:as = cmd.For.As";
   "2:else";
   "3:as = ""ITEM""";
   "2:range i,loopValue in list";
   "3:extra := map[string]any{ as: loopValue, }";
   "3:if len(keys) > 0";
   "4:extra[""KEY""] = keys[i]";
   "3:newCmd := cmd.DeepCopy()";
   "3:newCmd.Cmd = templater.ReplaceWithExtra(cmd.Cmd, cache, extra)";
   "3:newCmd.Task = templater.ReplaceWithExtra(cmd.Task, cache, extra)";
   "3:newCmd.Vars = templater.ReplaceVarsWithExtra(cmd.Vars, cache, extra)";
   "3:new.Cmds = append(new.Cmds, newCmd)";
   "2:continue";
   "1:if cmd.Defer";
   "2:new.Cmds = append(new.Cmds, cmd.DeepCopy())";
   "2:continue";
   "1:newCmd := cmd.DeepCopy()";
   "1:newCmd.Cmd = templater.Replace(cmd.Cmd, cache)";
   "1:newCmd.Task = templater.Replace(cmd.Task, cache)";
   "1:newCmd.Vars = templater.ReplaceVars(cmd.Vars, cache)";
   "1:new.Cmds = append(new.Cmds, newCmd)"].

Definition expected_deps : list string :=
  ["0:range _,dep in origTask.Deps";
   "1:if dep == nil";
   "2:continue";
   "1:if dep.For != nil";
   "2:list, keys, err := itemsFromFor(dep.For, new.Dir, new.Sources, new.Generates, vars, origTask.Location, cache)";
   "2:if dep.For.As != """"";
   "3:as = dep.For.As";
   "2:else";
   "3:as = ""ITEM""";
   "2:range i,loopValue in list";
   "3:extra := map[string]any{ as: loopValue, }";
   "3:if len(keys) > 0";
   "4:extra[""KEY""] = keys[i]";
   "3:newDep := dep.DeepCopy()";
   "3:newDep.Task = templater.ReplaceWithExtra(dep.Task, cache, extra)";
   "3:newDep.Vars = templater.ReplaceVarsWithExtra(dep.Vars, cache, extra)";
   "3:new.Deps = append(new.Deps, newDep)";
   "2:continue";
   "1:newDep := dep.DeepCopy()";
   "1:newDep.Task = templater.Replace(dep.Task, cache)";
   "1:newDep.Vars = templater.ReplaceVars(dep.Vars, cache)";
   "1:new.Deps = append(new.Deps, newDep)"].

(* nothing else in compiledTask writes (or sorts, reverses ...) new.Cmds / new.Deps *)
Definition expected_writes : list string :=
  ["new.Cmds = make([]*ast.Cmd, 0, len(origTask.Cmds))";
   "new.Cmds = append(new.Cmds, newCmd)";
   "new.Cmds = append(new.Cmds, cmd.DeepCopy())";
   "new.Cmds = append(new.Cmds, newCmd)";
   "new.Deps = make([]*ast.Dep, 0, len(origTask.Deps))";
   "new.Deps = append(new.Deps, newDep)";
   "new.Deps = append(new.Deps, newDep)"].

(* itemsFromFor: matrix -> product(resolveMatrixRefs(..)); explicit list as it is; sources /
   generates -> the Globs list in its order; var: string -> strings.Split / strings.Fields,
   list -> as it is, map -> Go map iteration (keys and values appended pairwise).
   = ForLoop.items_of *)
Definition expected_items : list string :=
  ["0:if f.Matrix.Len() != 0";
   "1:matrix, err := resolveMatrixRefs(f.Matrix, cache)";
   "1:return asAnySlice(product(matrix)), nil, nil";
   "0:if len(f.List) > 0";
   "1:return f.List, nil, nil";
   "0:if f.From == ""sources""";
   "1:glist, err := fingerprint.Globs(dir, sources)";
   "1:range i,v in glist";
   "1:values = asAnySlice(glist)";
   "0:if f.From == ""generates""";
   "1:glist, err := fingerprint.Globs(dir, generates)";
   "1:range i,v in glist";
   "1:values = asAnySlice(glist)";
   "0:if f.Var != """"";
   "1:if vars != nil";
   "2:if ok && v.Value != nil && v.Sh == nil";
   "3:switch value := v.Value.(type)";
   "4:case string";
   "5:if f.Split != """"";
   "6:values = asAnySlice(strings.Split(value, f.Split))";
   "5:else";
   "6:values = asAnySlice(strings.Fields(value))";
   "4:case []string";
   "5:values = asAnySlice(value)";
   "4:case []int";
   "5:values = asAnySlice(value)";
   "4:case []any";
   "5:values = value";
   "4:case map[string]any";
   "5:range k,v in value";
   "6:keys = append(keys, k)";
   "6:values = append(values, v)";
   "0:return values, keys, nil"].

(* resolveMatrixRefs copies the rows in matrix.All() order into a fresh ordered matrix *)
Definition expected_matrix_refs : list string :=
  ["0:if matrix.Len() == 0";
   "1:return matrix, nil";
   "0:resolved := ast.NewMatrix()";
   "0:range key,row in matrix.All()";
   "1:if row.Ref == """"";
   "2:resolved.Set(key, row)";
   "2:continue";
   "1:resolved.Set(key, &ast.MatrixRow{Ref: row.Ref, Value: value})";
   "0:return resolved, nil"].

(* Matrix.All: the ordered map from the front = declaration order of the YAML mapping *)
Definition expected_matrix_all : string := "matrix.om.AllFromFront()".

Definition for_shape_ok : bool :=
  strs_eqb for_product_skeleton expected_product &&
  strs_eqb for_cmds_skeleton expected_cmds &&
  strs_eqb for_deps_skeleton expected_deps &&
  strs_eqb for_task_writes expected_writes &&
  strs_eqb for_items_skeleton expected_items &&
  strs_eqb for_matrix_refs_skeleton expected_matrix_refs &&
  String.eqb for_matrix_all_returns expected_matrix_all.

(* the loop nest of a skeleton: its `range` headers with their depth, outermost first *)
Fixpoint has_infix (p s : string) : bool :=
  match s with
  | "" => match p with "" => true | _ => false end
  | String _ s' => String.prefix p s || has_infix p s'
  end.
Definition loop_nest (sk : list string) : list string := filter (has_infix ":range ") sk.

Lemma product_loop_nest :
  loop_nest expected_product =
  ["0:range key,row in matrix.All()"; "1:range _,combination in result"; "2:range _,item in row.Value"].
Proof. reflexivity. Qed.

Lemma cmds_loop_nest :
  loop_nest expected_cmds = ["0:range _,cmd in origTask.Cmds"; "2:range i,loopValue in list"].
Proof. reflexivity. Qed.

Lemma deps_loop_nest :
  loop_nest expected_deps = ["0:range _,dep in origTask.Deps"; "2:range i,loopValue in list"].
Proof. reflexivity. Qed.
