(* C07 (bound): slot accounting.  An activation holds a slot exactly at the program points
   [holds_at]; the number of slots in use equals the number of holders and never exceeds N;
   every activation inside a probe holds a slot; hence at most N commands execute at once. *)
From Coq Require Import List Arith Bool Lia.
Import ListNotations.
From TV Require Import Exec.Model Exec.Monitors Exec.Facts.

Definition holds_at (q : pc) : bool :=
  match q with
  | PDedup | PWRelease _ | PDepsFork | PBlock | PPrompt | PCmd _ | PRun _ | PProbe _ | PFail _
  | PDefers _ | PDRun _ _ | PDProbe _ _ | PEnd _ | PRelease _ => true
  | _ => false
  end.

Definition probe_pc (q : pc) : bool := match q with PProbe _ | PDProbe _ _ => true | _ => false end.

(* the part of an activation this invariant looks at *)
Definition sg (x : act) : pc * bool := (a_pc x, a_holds x).
Definition sig (s : state) : list (pc * bool) := map sg (acts s).

Definition sg_ok (y : pc * bool) : bool := Bool.eqb (snd y) (holds_at (fst y)).

Lemma mfold_app {St} (f : St -> event -> option St) st l1 l2 :
  mfold f st (l1 ++ l2) = match mfold f st l1 with Some st' => mfold f st' l2 | None => None end.
Proof.
  revert st; induction l1 as [|e l1 IH]; intros st; simpl; [reflexivity|].
  destruct (f st e); [apply IH|reflexivity].
Qed.

Lemma map_upd {A B} (f : A -> B) l n x : map f (upd l n x) = upd (map f l) n (f x).
Proof. revert n; induction l as [|y l IH]; intros [|n]; simpl; auto. rewrite IH. reflexivity. Qed.

Lemma upd_same {A} (l : list A) n x : nth_error l n = Some x -> upd l n x = l.
Proof. revert n; induction l as [|y l IH]; intros [|n] H; simpl in *; try discriminate; auto.
  - injection H as ->. reflexivity.
  - rewrite IH by assumption. reflexivity. Qed.

Lemma upd_upd {A} (l : list A) n x y : upd (upd l n x) n y = upd l n y.
Proof. revert n; induction l as [|z l IH]; intros [|n]; simpl; auto. rewrite IH. reflexivity. Qed.

Lemma upd_app_l {A} (l1 l2 : list A) n x : n < length l1 -> upd (l1 ++ l2) n x = upd l1 n x ++ l2.
Proof. revert n; induction l1 as [|y l1 IH]; intros [|n] H; simpl in *; try lia; auto. rewrite IH by lia. reflexivity. Qed.

Lemma sig_set_act s a y : sig (set_act s a y) = upd (sig s) a (sg y).
Proof. unfold sig. simpl. apply map_upd. Qed.

Lemma sig_emit s e : sig (emit s e) = sig s. Proof. reflexivity. Qed.
Lemma sig_cancel s c : sig (cancel_ctx s c) = sig s.
Proof. unfold sig. rewrite cancel_ctx_acts. reflexivity. Qed.
Lemma sig_acquire c s : sig (acquire c s) = sig s.
Proof. unfold sig. rewrite acquire_acts. reflexivity. Qed.
Lemma sig_release c s : sig (release c s) = sig s.
Proof. unfold sig. rewrite release_acts. reflexivity. Qed.

Lemma sig_nth s a x : get_act s a = Some x -> nth_error (sig s) a = Some (sg x).
Proof. unfold get_act, sig. intros H. rewrite nth_error_map, H. reflexivity. Qed.

Lemma sig_notify s x r : sig (notify_parent s x r) = sig s.
Proof.
  unfold notify_parent. destruct (a_kind x); try reflexivity.
  destruct (a_parent x) as [pa|]; try reflexivity. destruct r as [|e]; try reflexivity.
  destruct (get_act s pa) as [px|] eqn:E; try reflexivity.
  destruct (a_gerr px); try reflexivity.
  rewrite sig_cancel, sig_set_act. apply upd_same. apply sig_nth in E. exact E.
Qed.

Lemma sig_record_root s a r : sig (record_root s a r) = sig s. Proof. reflexivity. Qed.

Lemma sig_finish s a x r : sig (finish s a x r) = upd (sig s) a (PDone r, a_holds x).
Proof.
  unfold finish.
  assert (E : sig (notify_parent (emit (set_act s a (set_pc x (PDone r))) (EvEnd (a_path x) r)) x r)
              = upd (sig s) a (PDone r, a_holds x)).
  { rewrite sig_notify, sig_emit, sig_set_act. reflexivity. }
  destruct (a_kind x); try exact E.
  destruct r; [|destruct (rungerr _)]; rewrite ?sig_cancel, ?sig_record_root; exact E.
Qed.

Lemma used_notify s x r : used (notify_parent s x r) = used s.
Proof.
  unfold notify_parent. destruct (a_kind x); try reflexivity.
  destruct (a_parent x) as [pa|]; try reflexivity. destruct r as [|e]; try reflexivity.
  destruct (get_act s pa) as [px|]; try reflexivity. destruct (a_gerr px); try reflexivity.
  rewrite cancel_ctx_used. reflexivity.
Qed.

Lemma used_finish s a x r : used (finish s a x r) = used s.
Proof.
  unfold finish.
  assert (E : used (notify_parent (emit (set_act s a (set_pc x (PDone r))) (EvEnd (a_path x) r)) x r) = used s).
  { rewrite used_notify. reflexivity. }
  destruct (a_kind x); try exact E.
  destruct r; [|destruct (rungerr _)]; rewrite ?cancel_ctx_used; exact E.
Qed.

Lemma trace_notify s x r : trace (notify_parent s x r) = trace s.
Proof.
  unfold notify_parent. destruct (a_kind x); try reflexivity.
  destruct (a_parent x) as [pa|]; try reflexivity. destruct r as [|e]; try reflexivity.
  destruct (get_act s pa) as [px|]; try reflexivity. destruct (a_gerr px); try reflexivity.
  rewrite cancel_ctx_trace. reflexivity.
Qed.

Lemma trace_finish s a x r : trace (finish s a x r) = trace s ++ [EvEnd (a_path x) r].
Proof.
  unfold finish.
  assert (E : trace (notify_parent (emit (set_act s a (set_pc x (PDone r))) (EvEnd (a_path x) r)) x r)
              = trace s ++ [EvEnd (a_path x) r]).
  { rewrite trace_notify. reflexivity. }
  destruct (a_kind x); try exact E.
  destruct r; [|destruct (rungerr _)]; rewrite ?cancel_ctx_trace; exact E.
Qed.

Definition used_of (c : cfg) (s : state) : nat := used s.

Record inv_slots (c : cfg) (s : state) : Prop := {
  is_ok : forallb sg_ok (sig s) = true;
  is_used : forall n, limited c = Some n -> used s = count snd (sig s) /\ used s <= n;
  is_mon : mfold (step07 (limited c)) 0 (trace s) = Some (count (fun y => probe_pc (fst y)) (sig s))
}.

Lemma forallb_upd {A} (f : A -> bool) l n x : forallb f l = true -> f x = true -> forallb f (upd l n x) = true.
Proof.
  revert n; induction l as [|y l IH]; intros [|n] H Hx; simpl in *; auto;
    apply andb_true_iff in H; destruct H as [H1 H2]; apply andb_true_iff; split; auto.
Qed.

Lemma forallb_nth {A} (f : A -> bool) l n x : forallb f l = true -> nth_error l n = Some x -> f x = true.
Proof. intros H Hn. rewrite forallb_forall in H. apply H. eapply nth_error_In; eauto. Qed.

(* generic preservation: the activation at index a moves from (q,h) to (q',h'), [k] fresh
   activations at PEntry are appended, the slot counter moves accordingly, and the appended
   events keep the monitor in step *)
Lemma inv_slots_move c s s' a q h q' h' (news : list (pc * bool)) evs :
  inv_slots c s ->
  nth_error (sig s) a = Some (q, h) ->
  sig s' = upd (sig s) a (q', h') ++ news ->
  Forall (fun y => y = (PEntry, false)) news ->
  h' = holds_at q' ->
  (forall n, limited c = Some n -> used s' + b2n h = used s + b2n h' /\ used s' <= n) ->
  trace s' = trace s ++ evs ->
  mfold (step07 (limited c)) (count (fun y => probe_pc (fst y)) (sig s)) evs
    = Some (count (fun y => probe_pc (fst y)) (sig s) + b2n (probe_pc q') - b2n (probe_pc q)) ->
  inv_slots c s'.
Proof.
  intros [Hok Hused Hmon] Hn Hsig Hnews Hh' Hu Htr Hev.
  assert (Hcn : forall f : pc * bool -> bool, f (PEntry, false) = false -> count f news = 0).
  { intros f Hf. clear -Hnews Hf. induction Hnews as [|y news Hy _ IH]; [reflexivity|]. subst y. rewrite count_cons, Hf, IH. reflexivity. }
  constructor.
  - rewrite Hsig, forallb_app. apply andb_true_iff. split.
    + apply forallb_upd; [exact Hok|]. unfold sg_ok. simpl. rewrite Hh'. apply Bool.eqb_reflx.
    + clear -Hnews. induction Hnews as [|y news Hy _ IH]; [reflexivity|]. subst y. simpl. exact IH.
  - intros n Hl. destruct (Hused n Hl) as [H1 H2]. destruct (Hu n Hl) as [H3 H4]. split; [|exact H4].
    rewrite Hsig, count_app, (Hcn snd eq_refl).
    pose proof (count_upd snd (sig s) a (q, h) (q', h') Hn) as Hc. simpl in Hc. lia.
  - rewrite Htr, mfold_app, Hmon, Hev. f_equal.
    rewrite Hsig, count_app, (Hcn (fun y => probe_pc (fst y)) eq_refl).
    pose proof (count_upd (fun y => probe_pc (fst y)) (sig s) a (q, h) (q', h') Hn) as Hc. simpl in Hc.
    assert (b2n (probe_pc q) <= count (fun y => probe_pc (fst y)) (sig s)).
    { clear -Hn. revert a Hn. induction (sig s) as [|z l IH]; intros [|a] Hn; simpl in *; try discriminate.
      - injection Hn as ->. rewrite count_cons. simpl. lia.
      - rewrite count_cons. specialize (IH a Hn). lia. }
    lia.
Qed.

Lemma inv_slots_move0 c s s' a q h q' h' evs :
  inv_slots c s ->
  nth_error (sig s) a = Some (q, h) ->
  sig s' = upd (sig s) a (q', h') ->
  h' = holds_at q' ->
  (forall n, limited c = Some n -> used s' + b2n h = used s + b2n h' /\ used s' <= n) ->
  trace s' = trace s ++ evs ->
  mfold (step07 (limited c)) (count (fun y => probe_pc (fst y)) (sig s)) evs
    = Some (count (fun y => probe_pc (fst y)) (sig s) + b2n (probe_pc q') - b2n (probe_pc q)) ->
  inv_slots c s'.
Proof.
  intros. eapply inv_slots_move with (news := []); eauto. rewrite app_nil_r. assumption.
Qed.

Global Hint Rewrite sig_set_act sig_emit sig_cancel sig_acquire sig_release sig_finish sig_notify
  used_set_act used_emit used_finish cancel_ctx_used
  trace_emit trace_set_act trace_finish cancel_ctx_trace acquire_trace release_trace : sigdb.

Lemma slot_free_lt c s n : limited c = Some n -> slot_free c s = true -> used s < n.
Proof. unfold slot_free. intros ->. apply Nat.ltb_lt. Qed.

Lemma used_acquire c s n : limited c = Some n -> used (acquire c s) = S (used s).
Proof. unfold acquire. intros ->. reflexivity. Qed.
Lemma used_release c s n : limited c = Some n -> used (release c s) = pred (used s).
Proof. unfold release. intros ->. reflexivity. Qed.

Lemma holder_counted (l : list (pc * bool)) a q : nth_error l a = Some (q, true) -> 1 <= count snd l.
Proof.
  revert a; induction l as [|z l IH]; intros [|a] Hn; simpl in *; try discriminate.
  - injection Hn as ->. rewrite count_cons. simpl. lia.
  - rewrite count_cons. specialize (IH a Hn). lia.
Qed.

Ltac break_match H :=
  match type of H with
  | context [match ?e with _ => _ end] =>
      lazymatch e with
      | context [match _ with _ => _ end] => fail
      | _ => destruct e eqn:?
      end
  end.

Lemma mfold_nil {St} (f : St -> event -> option St) st : mfold f st [] = Some st. Proof. reflexivity. Qed.

Ltac slots_used Hinv Hn :=
  let n := fresh "n" in let Hl := fresh "Hl" in
  intros n Hl;
  let H1 := fresh in let H2 := fresh in
  destruct (is_used _ _ Hinv n Hl) as [H1 H2];
  repeat match goal with
  | Hs : slot_free _ _ = true |- _ => apply (slot_free_lt _ _ n Hl) in Hs
  end;
  autorewrite with sigdb;
  rewrite ?(used_acquire _ _ n Hl), ?(used_release _ _ n Hl);
  autorewrite with sigdb;
  try (pose proof (holder_counted _ _ _ Hn));
  simpl; lia.


Lemma probes_below_holders (l : list (pc * bool)) :
  forallb sg_ok l = true -> count (fun y => probe_pc (fst y)) l <= count snd l.
Proof.
  induction l as [|[q h] l IH]; intros H; simpl in *; [unfold count; simpl; lia|].
  apply andb_true_iff in H. destruct H as [H1 H2]. rewrite !count_cons. specialize (IH H2).
  unfold sg_ok in H1. simpl in *. apply Bool.eqb_prop in H1. subst h.
  destruct q; simpl; lia.
Qed.

Lemma probes_room (l : list (pc * bool)) a q :
  forallb sg_ok l = true -> nth_error l a = Some (q, true) -> probe_pc q = false ->
  S (count (fun y => probe_pc (fst y)) l) <= count snd l.
Proof.
  revert a; induction l as [|[q0 h0] l IH]; intros [|a] H Hn Hq; simpl in *; try discriminate;
    apply andb_true_iff in H; destruct H as [H1 H2]; rewrite !count_cons; simpl.
  - injection Hn as -> ->. rewrite Hq. pose proof (probes_below_holders l H2). simpl. lia.
  - specialize (IH a H2 Hn Hq). unfold sg_ok in H1. simpl in H1. apply Bool.eqb_prop in H1. subst h0.
    destruct q0; simpl; lia.
Qed.

Ltac mon_goal Hinv Hn :=
  simpl;
  match goal with
  | |- context [limited ?c] =>
      let Hl := fresh "Hl" in
      destruct (limited c) as [lim|] eqn:Hl; simpl;
      [ try (let H1 := fresh in let H2 := fresh in
             destruct (is_used _ _ Hinv lim Hl) as [H1 H2];
             pose proof (probes_room _ _ _ (is_ok _ _ Hinv) Hn eq_refl) as Hroom;
             match goal with |- context [Nat.ltb ?x ?y] =>
               replace (Nat.ltb x y) with true by (symmetry; apply Nat.ltb_lt; lia) end);
        f_equal; lia
      | f_equal; lia ]
  | _ => f_equal; lia
  end.

Lemma step_inv_slots p c s a s' : inv_slots c s -> step p c s a = Some s' -> inv_slots c s'.
Proof.
  intros Hinv H. unfold step in H.
  destruct (get_act s a) as [x|] eqn:Hx; [|discriminate].
  pose proof (sig_nth _ _ _ Hx) as Hn. unfold sg in Hn.
  assert (Hh : a_holds x = holds_at (a_pc x)).
  { pose proof (forallb_nth _ _ _ _ (is_ok _ _ Hinv) Hn) as Hk. unfold sg_ok in Hk. simpl in Hk.
    apply Bool.eqb_prop in Hk. exact Hk. }
  rewrite Hh in Hn.
  set (np := count (fun y => probe_pc (fst y)) (sig s)) in *.
  unfold bump_call, new_ctx, add_act, after_cmd_error in H.
  destruct (a_pc x) eqn:Hpc; simpl in Hn;
    repeat break_match H; try discriminate; injection H as <-;
    try (eapply inv_slots_move0 with (a := a);
         [ exact Hinv | exact Hn
         | autorewrite with sigdb; unfold sg; simpl; rewrite ?Hh; reflexivity
         | reflexivity
         | slots_used Hinv Hn
         | autorewrite with sigdb; simpl; rewrite <- ?app_assoc; first [reflexivity | symmetry; apply app_nil_r]
         | fold np; mon_goal Hinv Hn ]).
  - (* fork deps *)
    apply fork_deps_spec in Heqp0. simpl in Heqp0.
    destruct Heqp0 as [news (Ha & Hu & Ht & _ & _ & _ & _ & _ & Hl & _ & Hf & _)].
    assert (Hlt : a < length (sig s)) by (apply nth_error_Some; rewrite Hn; discriminate).
    eapply inv_slots_move with (a := a) (news := map sg news) (evs := []).
    + exact Hinv.
    + exact Hn.
    + unfold sig at 1. rewrite acts_set_act, map_upd, Ha, release_acts, map_app.
      rewrite upd_app_l by (unfold sig in Hlt; exact Hlt). unfold sg at 1. simpl. reflexivity.
    + clear -Hf. induction Hf as [|y news Hy _ IH]; simpl; constructor; auto.
      destruct Hy as (H1 & H2 & _). unfold sg. rewrite H1, H2. reflexivity.
    + reflexivity.
    + intros n Hl'. destruct (is_used _ _ Hinv n Hl') as [H1 H2]. rewrite used_set_act, Hu.
      rewrite (used_release _ _ n Hl'). pose proof (holder_counted _ _ _ Hn). simpl. lia.
    + rewrite trace_set_act, Ht, release_trace. symmetry. apply app_nil_r.
    + fold np. simpl. f_equal. lia.
  - (* call *)
    assert (Hlt : a < length (sig s)) by (apply nth_error_Some; rewrite Hn; discriminate).
    eapply inv_slots_move with (a := a) (news := [(PEntry, false)]) (evs := []).
    + exact Hinv.
    + exact Hn.
    + unfold sig at 1. rewrite acts_set_act, map_upd. simpl. rewrite release_acts, map_app.
      rewrite upd_app_l by (unfold sig in Hlt; exact Hlt). reflexivity.
    + repeat constructor.
    + reflexivity.
    + intros n Hl'. destruct (is_used _ _ Hinv n Hl') as [H1 H2]. rewrite used_set_act. simpl.
      rewrite (used_release _ _ n Hl'). pose proof (holder_counted _ _ _ Hn). simpl. lia.
    + rewrite trace_set_act. simpl. rewrite release_trace. symmetry. apply app_nil_r.
    + fold np. simpl. f_equal. lia.
  - (* deferred call *)
    assert (Hlt : a < length (sig s)) by (apply nth_error_Some; rewrite Hn; discriminate).
    eapply inv_slots_move with (a := a) (news := [(PEntry, false)]) (evs := []).
    + exact Hinv.
    + exact Hn.
    + unfold sig at 1. rewrite acts_set_act, map_upd. simpl. rewrite release_acts, map_app.
      rewrite upd_app_l by (unfold sig in Hlt; exact Hlt). reflexivity.
    + repeat constructor.
    + reflexivity.
    + intros n' Hl'. destruct (is_used _ _ Hinv n' Hl') as [H1 H2]. rewrite used_set_act. simpl.
      rewrite (used_release _ _ n' Hl'). pose proof (holder_counted _ _ _ Hn). simpl. lia.
    + rewrite trace_set_act. simpl. rewrite release_trace. symmetry. apply app_nil_r.
    + fold np. simpl. f_equal. lia.
Qed.



Lemma inv_slots_init p c : inv_slots c (init_state p).
Proof.
  constructor; simpl.
  - reflexivity.
  - intros n _. unfold count. simpl. lia.
  - reflexivity.
Qed.

Lemma inv_slots_add c s x :
  inv_slots c s -> a_pc x = PEntry -> a_holds x = false -> inv_slots c (fst (add_act s x)).
Proof.
  intros [Hok Hused Hmon] Hq Hh. unfold add_act. simpl.
  assert (E : sig {| acts := acts s ++ [x]; used := used s; dedup := dedup s; calls := calls s; ctxs := ctxs s;
                    trace := trace s; rootres := rootres s; rungerr := rungerr s |} = sig s ++ [(PEntry, false)]).
  { unfold sig. simpl. rewrite map_app. simpl. unfold sg. rewrite Hq, Hh. reflexivity. }
  constructor; simpl.
  - rewrite E, forallb_app, Hok. reflexivity.
  - intros n Hl. rewrite E, count_app. destruct (Hused n Hl). unfold count at 2. simpl. split; lia.
  - rewrite E, count_app. unfold count at 2. simpl. rewrite Nat.add_0_r. exact Hmon.
Qed.

Lemma start_root_inv_slots p c s k s' : inv_slots c s -> start_root p c s k = Some s' -> inv_slots c s'.
Proof.
  intros Hinv H. unfold start_root in H.
  destruct (nth_error (cf_roots c) k); [|discriminate].
  destruct (negb (precheck_ok p c) || root_started s k); [discriminate|].
  match type of H with (if ?b then _ else _) = _ => destruct b end; [|discriminate].
  injection H as <-. apply inv_slots_add; auto.
Qed.

Lemma do_choice_inv_slots p c s ch : inv_slots c s -> inv_slots c (do_choice p c s ch).
Proof.
  intros Hinv. destruct ch as [a|k]; simpl.
  - destruct (step p c s a) eqn:E; [eapply step_inv_slots; eauto|exact Hinv].
  - destruct (start_root p c s k) eqn:E; [eapply start_root_inv_slots; eauto|exact Hinv].
Qed.

Lemma run_inv_slots p c sched : inv_slots c (run p c sched).
Proof.
  unfold run. generalize (inv_slots_init p c). generalize (init_state p).
  induction sched as [|ch sched IH]; intros s Hs; simpl; [exact Hs|].
  apply IH. apply do_choice_inv_slots. exact Hs.
Qed.

(* at most N commands execute at any instant, for every program, configuration and schedule *)
Theorem bound_all_schedules p c sched : mon_C07 c (trace (run p c sched)) = true.
Proof.
  unfold mon_C07, accepts. rewrite (is_mon _ _ (run_inv_slots p c sched)). reflexivity.
Qed.

(* the harness cannot see EvEnd; the monitor ignores it *)
Lemma mfold07_observable n st tr :
  mfold (step07 n) st (filter observable tr) = mfold (step07 n) st tr.
Proof.
  revert st; induction tr as [|e tr IH]; intros st; simpl; [reflexivity|].
  destruct e; cbn [filter observable mfold];
    try (match goal with |- context [step07 ?n ?st ?e] => destruct (step07 n st e) end; [apply IH|reflexivity]).
  simpl. apply IH.
Qed.

Theorem bound_observable p c sched : mon_C07 c (filter observable (trace (run p c sched))) = true.
Proof. unfold mon_C07, accepts. rewrite mfold07_observable. apply bound_all_schedules. Qed.

(* the invariant behind it, for every reachable state: slots in use = holders <= N, probes hold a slot *)
Theorem slots_invariant p c sched n :
  limited c = Some n ->
  used (run p c sched) = count snd (sig (run p c sched)) /\
  used (run p c sched) <= n /\
  count (fun y => probe_pc (fst y)) (sig (run p c sched)) <= used (run p c sched).
Proof.
  intros Hl. pose proof (run_inv_slots p c sched) as Hinv. destruct (is_used _ _ Hinv n Hl) as [H1 H2].
  repeat split; auto. rewrite H1. apply probes_below_holders. apply (is_ok _ _ Hinv).
Qed.
