(* C02 (sequence) and C14 (order of deferred commands): per activation, the events follow
   the automaton [phase_step]: started, then the shell commands one at a time in increasing
   index order (announce, probe begins, probe ends), then "finished" (or the loop stops), then
   the registered deferred commands in decreasing index order, each announce/run/end. *)
From Coq Require Import List Arith Bool Lia.
Import ListNotations.
From TV Require Import Exec.Model Exec.Monitors Exec.Facts Exec.InvSlots Exec.Proj Exec.InvPaths Exec.Frame Exec.InvUniq.

Definition lo_ok (ph : phase) (i : nat) : bool :=
  match ph with PhStarted => true | PhAfter j => Nat.ltb j i | _ => false end.

Definition loop_over (ph : phase) : bool :=
  match ph with PhFinished | PhStarted | PhAfter _ | PhAnnounced _ | PhDefer 2 _ => true | _ => false end.

Definition defers_below (ds : list nat) (ph : phase) : bool :=
  match ph with PhDefer _ i' => forallb (fun d => Nat.ltb d i') ds | _ => true end.

Definition ph_ok (q : pc) (ds : list nat) (ph : phase) : bool :=
  match q with
  | PEntry | PAcquire | PDedup | PWRelease _ | PWWait _ | PWReacq _ => match ph with PhNew => true | _ => false end
  | PPlatformEnd => match ph with PhClosed => true | _ => false end
  | PDepsFork | PDepsJoin | PDepsReacq | PBlock | PPrompt => match ph with PhStarted => true | _ => false end
  | PCmd i | PCallWait i _ | PCallReacq i _ => lo_ok ph i
  | PRun i => match ph with PhAnnounced j => Nat.eqb i j | _ => false end
  | PProbe i => match ph with PhRunning j => Nat.eqb i j | _ => false end
  | PFail _ => match ph with PhStarted | PhAfter _ | PhAnnounced _ => true | _ => false end
  | PDefers _ | PDCallWait _ _ | PDCallReacq _ => loop_over ph && defers_below ds ph
  | PDRun _ i => match ph with PhDefer 0 j => Nat.eqb i j && forallb (fun d => Nat.ltb d i) ds | _ => false end
  | PDProbe _ i => match ph with PhDefer 1 j => Nat.eqb i j && forallb (fun d => Nat.ltb d i) ds | _ => false end
  | PEnd _ | PRelease _ | PDone _ => true
  end.

(* ------------------------------------------------------------------ *)
(* the phase table                                                     *)

Lemma aid_eqb_refl a : aid_eqb a a = true.
Proof. induction a as [|x a IH]; simpl; [reflexivity|]. rewrite Nat.eqb_refl. exact IH. Qed.

Lemma aid_eqb_eq a b : aid_eqb a b = true -> a = b.
Proof.
  revert b; induction a as [|x a IH]; intros [|y b] H; simpl in *; try discriminate; [reflexivity|].
  apply andb_true_iff in H. destruct H as [H1 H2]. apply Nat.eqb_eq in H1. subst. f_equal. apply IH. exact H2.
Qed.

Lemma aid_eqb_neq a b : a <> b -> aid_eqb a b = false.
Proof. intros H. destruct (aid_eqb a b) eqn:E; [apply aid_eqb_eq in E; congruence|reflexivity]. Qed.

Lemma get_set_phase_same L a q : get_phase (set_phase L a q) a = q.
Proof.
  induction L as [|[b r] L IH]; simpl.
  - rewrite aid_eqb_refl. reflexivity.
  - destruct (aid_eqb a b) eqn:E; simpl; rewrite ?E, ?aid_eqb_refl; auto.
Qed.

Lemma get_set_phase_other L a b q : a <> b -> get_phase (set_phase L a q) b = get_phase L b.
Proof.
  intros Hne. induction L as [|[d r] L IH]; simpl.
  - rewrite aid_eqb_neq by congruence. reflexivity.
  - destruct (aid_eqb a d) eqn:E; simpl.
    + apply aid_eqb_eq in E. subst d. rewrite !aid_eqb_neq by congruence. reflexivity.
    + destruct (aid_eqb b d); auto.
Qed.

(* the events of one activation, folded through the automaton *)
Fixpoint lfold (p : prog) (t v : nat) (ph : phase) (evs : list event) : option phase :=
  match evs with
  | [] => Some ph
  | e :: r =>
      match ev_act e with
      | None => lfold p t v ph r
      | Some _ => match phase_step p t v ph e with Some q => lfold p t v q r | None => None end
      end
  end.

Lemma mfold_local p c pa t v lk evs : forall L ph1,
  resolve p c pa = Some (t, v, lk) ->
  Forall (fun e => ev_act e = Some pa \/ ev_act e = None) evs ->
  lfold p t v (get_phase L pa) evs = Some ph1 ->
  exists L', mfold (step02seq p c) L evs = Some L' /\ get_phase L' pa = ph1 /\
             forall b, b <> pa -> get_phase L' b = get_phase L b.
Proof.
  induction evs as [|e evs IH]; intros L ph1 Hr Hall Hl; simpl in *.
  - injection Hl as <-. exists L. repeat split; auto.
  - inversion Hall as [|? ? He Hall']; subst. unfold step02seq at 1.
    destruct (ev_act e) as [a'|] eqn:Ea.
    + destruct He as [He|He]; [|discriminate]. injection He as ->. rewrite Hr.
      destruct (phase_step p t v (get_phase L pa) e) as [q|] eqn:Eq; [|discriminate].
      destruct (IH (set_phase L pa q) ph1 Hr Hall') as [L' (H1 & H2 & H3)].
      { rewrite get_set_phase_same. exact Hl. }
      exists L'. repeat split; auto. intros b Hb. rewrite (H3 b Hb). apply get_set_phase_other. congruence.
    + apply IH; auto.
Qed.

(* ------------------------------------------------------------------ *)
(* the invariant                                                       *)

Definition pq (x : act) : aid * pc * list nat := (a_path x, a_pc x, a_defers x).
Lemma pq_gerr x e : pq (set_gerr x e) = pq x. Proof. reflexivity. Qed.

Record inv_phase (p : prog) (c : cfg) (s : state) : Prop := {
  ip_ids : inv_ids p c s;
  ip_uniq : uniq p (pj csof s);
  ip_tab : exists L, mfold (step02seq p c) [] (trace s) = Some L /\
             Forall (fun y => ph_ok (snd (fst y)) (snd y) (get_phase L (fst (fst y))) = true) (pj pq s) /\
             (forall pth, ~ In pth (map a_path (acts s)) -> get_phase L pth = PhNew)
}.

Lemma sdec_head_bounds j l : sdec (j :: l) = true -> forallb (fun d => Nat.ltb d j) l = true.
Proof.
  revert j; induction l as [|y r IH]; intros j H; simpl in *; [reflexivity|].
  apply andb_true_iff in H. destruct H as [H1 H2]. rewrite H1. simpl.
  specialize (IH y H2). rewrite forallb_forall in *. intros d Hd. specialize (IH d Hd).
  apply Nat.ltb_lt in IH, H1. apply Nat.ltb_lt. lia.
Qed.

Lemma NoDup_app_disjoint {A} (l1 l2 : list A) x0 : NoDup (l1 ++ l2) -> In x0 l1 -> In x0 l2 -> False.
Proof.
  induction l1 as [|y l1 IH]; simpl; intros Hnd H1 H2; [contradiction|].
  inversion Hnd as [|? ? Hy Hnd']; subst. destruct H1 as [->|H1].
  - apply Hy. apply in_or_app. right. exact H2.
  - exact (IH Hnd' H1 H2).
Qed.

Lemma paths_of_pq s : map (fun y : aid * pc * list nat => fst (fst y)) (pj pq s) = map a_path (acts s).
Proof. unfold pj. rewrite map_map. reflexivity. Qed.

Lemma paths_of_cs s : map c_path (pj csof s) = map a_path (acts s).
Proof. unfold pj. rewrite map_map. reflexivity. Qed.

Lemma phase_move p c s s' a x q' ds' news evs :
  inv_phase p c s ->
  inv_ids p c s' -> uniq p (pj csof s') ->
  get_act s a = Some x ->
  pj pq s' = upd (pj pq s) a (a_path x, q', ds') ++ map pq news ->
  Forall (fun y => a_pc y = PEntry /\ a_defers y = []) news ->
  trace s' = trace s ++ evs ->
  Forall (fun e => ev_act e = Some (a_path x) \/ ev_act e = None) evs ->
  (forall ph0, ph_ok (a_pc x) (a_defers x) ph0 = true ->
     exists ph1, lfold p (a_task x) (a_var x) ph0 evs = Some ph1 /\ ph_ok q' ds' ph1 = true) ->
  inv_phase p c s'.
Proof.
  intros [Hids Huq [L (HL & Hall & Hnew)]] Hids' Huq' Hx Hpq Hnews Htr Hevs Hsim.
  constructor; auto.
  pose proof (inv_ids_get p c s a x Hids Hx) as Hres.
  pose proof (pj_nth pq _ _ _ Hx) as Hn.
  assert (Hph0 : ph_ok (a_pc x) (a_defers x) (get_phase L (a_path x)) = true).
  { rewrite Forall_forall in Hall. apply (Hall _ (nth_error_In _ _ Hn)). }
  destruct (Hsim _ Hph0) as [ph1 [Hl Hok1]].
  destruct (mfold_local p c (a_path x) _ _ _ evs L ph1 Hres Hevs Hl) as [L' (HL' & Hg & Hoth)].
  exists L'. split; [rewrite Htr, mfold_app, HL; exact HL'|].
  assert (Hlt : a < length (pj pq s)) by (apply nth_error_Some; rewrite Hn; discriminate).
  (* paths of s' *)
  assert (Hpaths' : map a_path (acts s') = map a_path (acts s) ++ map a_path news).
  { rewrite <- (paths_of_pq s'), Hpq, map_app, map_upd. simpl.
    rewrite upd_same by (rewrite nth_error_map, Hn; reflexivity).
    rewrite paths_of_pq, map_map. reflexivity. }
  assert (Hnd' : NoDup (map a_path (acts s) ++ map a_path news)).
  { rewrite <- Hpaths', <- paths_of_cs. apply Huq'. }
  assert (Hnd : NoDup (map a_path (acts s))) by (rewrite <- paths_of_cs; apply Huq).
  split.
  - rewrite Hpq. apply Forall_app. split.
    + apply Forall_forall. intros y Hy. apply In_nth_error in Hy. destruct Hy as [j Hj].
      assert (Hjl : j < length (pj pq s)) by (rewrite <- (upd_length (pj pq s) a (a_path x, q', ds')); apply nth_error_Some; rewrite Hj; discriminate).
      destruct (Nat.eq_dec a j) as [<-|Hne].
      * rewrite (nth_error_upd_same (pj pq s) a (a_path x, q', ds') (pq x) Hn) in Hj. injection Hj as <-. simpl. rewrite Hg. exact Hok1.
      * rewrite nth_error_upd_other in Hj by exact Hne.
        assert (Hpne : fst (fst y) <> a_path x).
        { intros Heq. apply Hne.
          apply (NoDup_map_nth (fun z : aid * pc * list nat => fst (fst z)) (pj pq s) a j (pq x) y); auto.
          rewrite paths_of_pq. exact Hnd. }
        rewrite (Hoth _ Hpne). rewrite Forall_forall in Hall. apply (Hall _ (nth_error_In _ _ Hj)).
    + apply Forall_forall. intros y Hy. apply in_map_iff in Hy. destruct Hy as [n [<- Hn']].
      rewrite Forall_forall in Hnews. destruct (Hnews n Hn') as [Hq Hd]. unfold pq. simpl. rewrite Hq, Hd.
      assert (Hfresh : ~ In (a_path n) (map a_path (acts s))).
      { intros Hin. apply (NoDup_app_disjoint _ _ (a_path n) Hnd' Hin). apply in_map. exact Hn'. }
      assert (Hpne : a_path n <> a_path x).
      { intros Heq. apply Hfresh. rewrite Heq. apply in_map. unfold get_act in Hx. eapply nth_error_In; eauto. }
      rewrite (Hoth _ Hpne), (Hnew _ Hfresh). reflexivity.
  - intros pth Hpth. rewrite Hpaths' in Hpth.
    assert (Hp1 : ~ In pth (map a_path (acts s))) by (intros H; apply Hpth; apply in_or_app; left; exact H).
    assert (Hpne : pth <> a_path x).
    { intros ->. apply Hp1. apply in_map. unfold get_act in Hx. eapply nth_error_In; eauto. }
    rewrite (Hoth _ Hpne). apply Hnew. exact Hp1.
Qed.

Global Hint Rewrite (pj_set_act pq) (pj_emit pq) (pj_cancel pq) (pj_acquire pq) (pj_release pq)
  (pj_finish pq pq_gerr) : pqdb.

Ltac phase_setup Hinv Hids' Huq' Hx :=
  eapply phase_move with (news := []);
  [ exact Hinv | exact Hids' | exact Huq' | exact Hx
  | autorewrite with pqdb; unfold pq; simpl; rewrite ?app_nil_r; reflexivity
  | constructor
  | autorewrite with sigdb; simpl; rewrite <- ?app_assoc; first [reflexivity | symmetry; apply app_nil_r]
  | repeat (first [apply Forall_nil | apply Forall_cons; [first [left; reflexivity | right; reflexivity]|]])
  | ].

Ltac arith_bools :=
  repeat match goal with
  | H : _ && _ = true |- _ => apply andb_true_iff in H; destruct H
  | H : Nat.eqb _ _ = true |- _ => apply Nat.eqb_eq in H; subst
  | H : Nat.ltb _ _ = true |- _ => apply Nat.ltb_lt in H
  | H : Nat.leb _ _ = true |- _ => apply Nat.leb_le in H
  end.

Ltac local_sim :=
  let ph0 := fresh "ph0" in let H0 := fresh "H0" in
  intros ph0 H0;
  destruct ph0 as [| | | | | |[|[|[|?]]] ?|]; simpl in H0; try discriminate;
  arith_bools;
  unfold is_shell, is_defer_shell in *;
  eexists; (split;
  [ simpl; unfold is_shell, is_defer_shell;
    repeat match goal with
    | H : nth_error _ _ = Some _ |- _ => rewrite H
    | |- context [Nat.eqb ?a ?a] => rewrite Nat.eqb_refl
    | |- context [Nat.leb ?a ?b] => replace (Nat.leb a b) with true by (symmetry; apply Nat.leb_le; lia)
    | |- context [Nat.ltb ?a ?b] => replace (Nat.ltb a b) with true by (symmetry; apply Nat.ltb_lt; lia)
    end; simpl; reflexivity
  | simpl; rewrite ?Nat.eqb_refl; simpl;
    repeat match goal with
    | |- context [Nat.ltb ?a ?b] => replace (Nat.ltb a b) with true by (symmetry; apply Nat.ltb_lt; lia)
    end; simpl; auto ]).

Lemma forallb_lt_weaken i j l : i <= j -> forallb (fun d => Nat.ltb d i) l = true -> forallb (fun d => Nat.ltb d j) l = true.
Proof.
  intros Hij H. rewrite forallb_forall in *. intros d Hd. specialize (H d Hd). apply Nat.ltb_lt in H. apply Nat.ltb_lt. lia.
Qed.

Lemma step_inv_phase p c s a s' : inv_phase p c s -> step p c s a = Some s' -> inv_phase p c s'.
Proof.
  intros Hinv H.
  pose proof (step_inv_ids p c s a s' (ip_ids _ _ _ Hinv) H) as Hids'.
  pose proof (step_uniq p c s a s' (ip_uniq _ _ _ Hinv) H) as Huq'.
  destruct (get_act s a) as [x|] eqn:Hx; [|unfold step in H; rewrite Hx in H; discriminate].
  pose proof (pj_lt pq _ _ _ Hx) as Hlt.
  assert (He : entry_ok p (pj csof s) (csof x)).
  { destruct (ip_uniq _ _ _ Hinv) as [_ Hall]. rewrite Forall_forall in Hall. apply Hall.
    eapply nth_error_In. apply pj_nth. exact Hx. }
  destruct He as ((Hsd & Hdb) & _ & _). simpl in Hsd, Hdb.
  step_cases H Hx; simpl in Hdb;
    try (phase_setup Hinv Hids' Huq' Hx; rewrite ?Hpc; local_sim).
  all: try (apply bound_tl; assumption).
  - (* fork deps *)
    apply fork_deps_spec in Heqp0. simpl in Heqp0.
    destruct Heqp0 as [news (Ha & _ & Ht & _ & _ & _ & _ & _ & _ & _ & Hf & _)].
    eapply phase_move with (a := a) (news := news) (evs := []);
      [exact Hinv|exact Hids'|exact Huq'|exact Hx| | | | constructor | ].
    + unfold pj at 1. rewrite acts_set_act, map_upd, Ha, release_acts, map_app.
      rewrite upd_app_l by exact Hlt. reflexivity.
    + eapply Forall_impl; [|exact Hf]. intros y (H1 & _ & _ & _ & H5 & _). split; assumption.
    + rewrite trace_set_act, Ht, release_trace. symmetry. apply app_nil_r.
    + rewrite Hpc. local_sim.
  - (* announce *)
    phase_setup Hinv Hids' Huq' Hx. rewrite Hpc.
    intros ph0 H0. destruct ph0; simpl in H0; try discriminate.
    + eexists. split; [simpl; unfold is_shell; rewrite Heqo; simpl; reflexivity|simpl; apply Nat.eqb_refl].
    + apply Nat.ltb_lt in H0. destruct i as [|m]; [lia|]. eexists. split.
      * simpl. unfold is_shell. rewrite Heqo.
        replace (Nat.leb i0 m) with true by (symmetry; apply Nat.leb_le; lia). simpl. reflexivity.
      * simpl. apply Nat.eqb_refl.
  - (* call *)
    eapply phase_move with (a := a) (news := [_]) (evs := []);
      [exact Hinv|exact Hids'|exact Huq'|exact Hx| | | | constructor | ].
    + unfold pj at 1. rewrite acts_set_act, map_upd. simpl. rewrite release_acts, map_app.
      rewrite upd_app_l by exact Hlt. reflexivity.
    + repeat constructor.
    + rewrite trace_set_act. simpl. rewrite release_trace. symmetry. apply app_nil_r.
    + rewrite Hpc. local_sim.
  - (* deferred announce *)
    phase_setup Hinv Hids' Huq' Hx. rewrite Hpc, Heql.
    pose proof (sdec_head_bounds _ _ Hsd) as Hb.
    intros ph0 H0. destruct ph0 as [| | | | | |[|[|[|?]]] ?|]; simpl in H0; try discriminate;
      (eexists; split; [simpl; unfold is_defer_shell; rewrite Heqo; simpl; try reflexivity|simpl; rewrite ?Nat.eqb_refl; simpl; try exact Hb]).
    + apply andb_true_iff in H0. destruct H0 as [H1 H2]. rewrite H1. simpl. reflexivity.
    + simpl. rewrite Nat.eqb_refl. exact Hb.
  - (* deferred call *)
    eapply phase_move with (a := a) (news := [_]) (evs := []);
      [exact Hinv|exact Hids'|exact Huq'|exact Hx| | | | constructor | ].
    + unfold pj at 1. rewrite acts_set_act, map_upd. simpl. rewrite release_acts, map_app.
      rewrite upd_app_l by exact Hlt. reflexivity.
    + repeat constructor.
    + rewrite trace_set_act. simpl. rewrite release_trace. symmetry. apply app_nil_r.
    + rewrite Hpc. local_sim. apply bound_tl. assumption.
Qed.

Lemma inv_phase_init p c : inv_phase p c (init_state p).
Proof.
  constructor; [constructor|apply uniq_init|].
  exists []. split; [reflexivity|]. split; [constructor|reflexivity].
Qed.

Lemma start_root_inv_phase p c s k s' : inv_phase p c s -> start_root p c s k = Some s' -> inv_phase p c s'.
Proof.
  intros [Hi Hu [L (HL & Hall & Hnew)]] H.
  pose proof (start_root_inv_ids p c s k s' Hi H) as Hi'.
  pose proof (start_root_uniq p c s k s' Hu H) as Hu'.
  constructor; auto.
  unfold start_root in H.
  destruct (nth_error (cf_roots c) k) as [cl|]; [|discriminate].
  destruct (negb (precheck_ok p c) || root_started s k); [discriminate|].
  match type of H with (if ?b then _ else _) = _ => destruct b end; [|discriminate].
  injection H as <-. exists L. unfold add_act. simpl. split; [exact HL|]. split.
  - unfold pj. simpl. rewrite map_app. apply Forall_app. split; [exact Hall|].
    constructor; [|constructor]. unfold pq. simpl.
    rewrite Hnew; [reflexivity|].
    destruct Hu' as [Hnd _]. rewrite paths_of_cs in Hnd. unfold add_act in Hnd. simpl in Hnd.
    rewrite map_app in Hnd. simpl in Hnd. intros Hin.
    apply (NoDup_app_disjoint _ _ [k] Hnd Hin). left. reflexivity.
  - intros pth Hp. apply Hnew. intros Hin. apply Hp. rewrite map_app. apply in_or_app. left. exact Hin.
Qed.

Lemma run_inv_phase p c sched : inv_phase p c (run p c sched).
Proof.
  unfold run. generalize (inv_phase_init p c). generalize (init_state p).
  induction sched as [|ch sched IH]; intros s Hs; simpl; [exact Hs|].
  apply IH. destruct ch as [a|k]; simpl.
  - destruct (step p c s a) eqn:E; [eapply step_inv_phase; eauto|exact Hs].
  - destruct (start_root p c s k) eqn:E; [eapply start_root_inv_phase; eauto|exact Hs].
Qed.

(* C02 (sequence) / C14 (order): for every program, configuration and schedule, the events of every
   activation follow the automaton: its commands run one at a time in increasing index order, each
   announced, started and ended before the next; "finished" only after the last; deferred commands
   afterwards, in decreasing index order, each run to its end; the probe sees the variable passed *)
Theorem sequence_all_schedules p c sched : mon_C02seq p c (trace (run p c sched)) = true.
Proof.
  destruct (run_inv_phase p c sched) as [_ _ [L [HL _]]]. unfold mon_C02seq, accepts. rewrite HL. reflexivity.
Qed.

Lemma mfold02_observable p c L tr :
  mfold (step02seq p c) L (filter observable tr) = mfold (step02seq p c) L tr.
Proof.
  revert L; induction tr as [|e tr IH]; intros L; simpl; [reflexivity|].
  destruct e; cbn [observable filter mfold];
    try (match goal with |- context [step02seq ?p ?c ?L ?e] => destruct (step02seq p c L e) end; [apply IH|reflexivity]).
  simpl. apply IH.
Qed.

Theorem sequence_observable p c sched : mon_C02seq p c (filter observable (trace (run p c sched))) = true.
Proof. unfold mon_C02seq, accepts. rewrite mfold02_observable. apply sequence_all_schedules. Qed.
