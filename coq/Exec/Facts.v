(* Basic facts about the machine: list update, activation lookup, and a tactic that
   splits [step p c s a = Some s'] into its cases. *)
From Coq Require Import List Arith Bool Lia.
Import ListNotations.
From TV Require Import Exec.Model.

Lemma upd_length {A} (l : list A) n x : length (upd l n x) = length l.
Proof. revert n; induction l as [|y l IH]; intros [|n]; simpl; auto. Qed.

Lemma nth_error_upd_same {A} (l : list A) n x y :
  nth_error l n = Some y -> nth_error (upd l n x) n = Some x.
Proof. revert n; induction l as [|z l IH]; intros [|n] H; simpl in *; try discriminate; auto. Qed.

Lemma nth_error_upd_other {A} (l : list A) n m x :
  n <> m -> nth_error (upd l n x) m = nth_error l m.
Proof.
  revert n m; induction l as [|z l IH]; intros [|n] [|m] H; simpl; auto; try congruence.
Qed.

Lemma nth_error_upd {A} (l : list A) n m x :
  nth_error (upd l n x) m =
  if Nat.eqb n m then match nth_error l n with Some _ => Some x | None => None end else nth_error l m.
Proof.
  destruct (Nat.eqb_spec n m) as [->|H].
  - destruct (nth_error l m) eqn:E.
    + eapply nth_error_upd_same; eauto.
    + revert m E. induction l as [|z l IH]; intros [|m] E; simpl in *; auto; discriminate.
  - apply nth_error_upd_other; auto.
Qed.

Lemma nth_error_app_new {A} (l : list A) x : nth_error (l ++ [x]) (length l) = Some x.
Proof. rewrite nth_error_app2 by lia. rewrite Nat.sub_diag. reflexivity. Qed.

(* counting *)
Definition count {A} (f : A -> bool) (l : list A) : nat := length (filter f l).
Definition b2n (b : bool) : nat := if b then 1 else 0.

Lemma count_app {A} (f : A -> bool) l1 l2 : count f (l1 ++ l2) = count f l1 + count f l2.
Proof. unfold count. rewrite filter_app, app_length. reflexivity. Qed.

Lemma count_cons {A} (f : A -> bool) x l : count f (x :: l) = b2n (f x) + count f l.
Proof. unfold count. simpl. destruct (f x); reflexivity. Qed.

Lemma count_upd {A} (f : A -> bool) (l : list A) n x y :
  nth_error l n = Some x -> count f (upd l n y) + b2n (f x) = count f l + b2n (f y).
Proof.
  revert n; induction l as [|z l IH]; intros [|n] H; simpl in *; try discriminate.
  - injection H as ->. rewrite !count_cons. lia.
  - rewrite !count_cons. specialize (IH n H). lia.
Qed.

Lemma count_le_length {A} (f : A -> bool) l : count f l <= length l.
Proof. unfold count. induction l as [|x l IH]; simpl; [lia|]. destruct (f x); simpl; lia. Qed.

(* field projections through the state updaters *)
Lemma acts_set_act s a x : acts (set_act s a x) = upd (acts s) a x. Proof. reflexivity. Qed.
Lemma acts_emit s e : acts (emit s e) = acts s. Proof. reflexivity. Qed.
Lemma trace_emit s e : trace (emit s e) = trace s ++ [e]. Proof. reflexivity. Qed.
Lemma trace_set_act s a x : trace (set_act s a x) = trace s. Proof. reflexivity. Qed.
Lemma used_set_act s a x : used (set_act s a x) = used s. Proof. reflexivity. Qed.
Lemma used_emit s e : used (emit s e) = used s. Proof. reflexivity. Qed.

Lemma get_act_set_same s a x y : get_act s a = Some y -> get_act (set_act s a x) a = Some x.
Proof. unfold get_act, set_act; simpl. apply nth_error_upd_same. Qed.

Lemma get_act_set_other s a b x : a <> b -> get_act (set_act s a x) b = get_act s b.
Proof. unfold get_act, set_act; simpl. apply nth_error_upd_other. Qed.

Lemma cancel_ctx_acts s c : acts (cancel_ctx s c) = acts s.
Proof. unfold cancel_ctx. destruct (nth_error (ctxs s) c); reflexivity. Qed.
Lemma cancel_ctx_used s c : used (cancel_ctx s c) = used s.
Proof. unfold cancel_ctx. destruct (nth_error (ctxs s) c); reflexivity. Qed.
Lemma cancel_ctx_trace s c : trace (cancel_ctx s c) = trace s.
Proof. unfold cancel_ctx. destruct (nth_error (ctxs s) c); reflexivity. Qed.
Lemma cancel_ctx_dedup s c : dedup (cancel_ctx s c) = dedup s.
Proof. unfold cancel_ctx. destruct (nth_error (ctxs s) c); reflexivity. Qed.

Lemma acquire_acts c s : acts (acquire c s) = acts s.
Proof. unfold acquire. destruct (limited c); reflexivity. Qed.
Lemma release_acts c s : acts (release c s) = acts s.
Proof. unfold release. destruct (limited c); reflexivity. Qed.
Lemma acquire_trace c s : trace (acquire c s) = trace s.
Proof. unfold acquire. destruct (limited c); reflexivity. Qed.
Lemma release_trace c s : trace (release c s) = trace s.
Proof. unfold release. destruct (limited c); reflexivity. Qed.
Lemma acquire_dedup c s : dedup (acquire c s) = dedup s.
Proof. unfold acquire. destruct (limited c); reflexivity. Qed.
Lemma release_dedup c s : dedup (release c s) = dedup s.
Proof. unfold release. destruct (limited c); reflexivity. Qed.

(* fork_deps only appends fresh activations *)
Lemma fork_deps_spec p : forall ds s a x gctx j s' ids,
  fork_deps p s a x gctx ds j = (s', ids) ->
  exists news,
    acts s' = acts s ++ news /\ used s' = used s /\ trace s' = trace s /\ dedup s' = dedup s /\
    calls s' = calls s /\ ctxs s' = ctxs s /\ rootres s' = rootres s /\ rungerr s' = rungerr s /\
    length news = length ds /\
    ids = seq (length (acts s)) (length ds) /\
    Forall (fun y => a_pc y = PEntry /\ a_holds y = false /\ a_kind y = KDep /\ a_parent y = Some a /\
                     a_defers y = [] /\ a_regkey y = None /\ a_kids y = [] /\ a_gerr y = None) news /\
    (forall k d, nth_error ds k = Some d ->
       exists y, nth_error news k = Some y /\ a_path y = a_path x ++ [j + k] /\ a_task y = c_task d /\
                 a_var y = eval_var (a_var x) (c_var d) /\ a_ctx y = gctx).
Proof.
  induction ds as [|d ds IH]; intros s a x gctx j s' ids H; simpl in H.
  - injection H as <- <-. exists []. rewrite app_nil_r. repeat split; auto.
    intros k d Hk. destruct k; discriminate.
  - unfold add_act in H; simpl in H.
    match type of H with context [fork_deps ?a1 ?a2 ?a3 ?a4 ?a5 ?a6 ?a7] =>
      destruct (fork_deps a1 a2 a3 a4 a5 a6 a7) as [s2 ids2] eqn:E end.
    injection H as <- <-.
    apply IH in E. destruct E as [news (Ha & Hu & Ht & Hd & Hc & Hx & Hr & Hg & Hl & Hi & Hf & Hn)].
    simpl in *.
    eexists (_ :: news). rewrite Ha, <- app_assoc. simpl.
    repeat split; auto.
    + rewrite Hi, app_length. simpl. rewrite Nat.add_1_r. reflexivity.
    + constructor; [simpl; repeat split; reflexivity|exact Hf].
    + intros k d0 Hk. destruct k as [|k]; simpl in *.
      * injection Hk as <-. eexists; split; [reflexivity|]. simpl. rewrite Nat.add_0_r. repeat split; reflexivity.
      * destruct (Hn k d0 Hk) as [y (Hy & Hp & Hq)]. exists y. split; [exact Hy|].
        rewrite Hp. replace (j + S k) with (S (j + k)) by lia. split; [reflexivity|exact Hq].
Qed.
