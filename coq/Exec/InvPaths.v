(* Identity of activations: the call path stored in an activation resolves, in the program,
   to the task and variable the activation runs; every event carries the path of the
   activation that emitted it.  On top of that: guards (C13) and dedup counts (C06). *)
From Coq Require Import List Arith Bool Lia.
Import ListNotations.
From TV Require Import Exec.Model Exec.Monitors Exec.Facts Exec.InvSlots Exec.Proj.

Definition link_of_kind (k : kind) : link :=
  match k with KRoot => LRoot | KDep => LDep | KCall => LCall | KDefer => LDefer end.

Definition idn (x : act) : aid * nat * nat * kind := (a_path x, a_task x, a_var x, a_kind x).

Definition id_ok (p : prog) (c : cfg) (y : aid * nat * nat * kind) : Prop :=
  let '(path, t, v, k) := y in resolve p c path = Some (t, v, link_of_kind k).

(* one level of resolve_from *)
Definition resolve_step (p : prog) (t v m : nat) : option (nat * nat * link) :=
  let tk := get_task p t in
  let nd := length (t_deps tk) in
  if Nat.ltb m nd then
    match nth_error (t_deps tk) m with
    | Some d => Some (c_task d, eval_var v (c_var d), LDep)
    | None => None
    end
  else
    match nth_error (t_cmds tk) (m - nd) with
    | Some (CallC cl) => Some (c_task cl, eval_var v (c_var cl), LCall)
    | Some (DeferCall cl) => Some (c_task cl, eval_var v (c_var cl), LDefer)
    | _ => None
    end.

Lemma resolve_from_app p : forall path t v lk m t1 v1 lk1,
  resolve_from p t v lk path = Some (t1, v1, lk1) ->
  resolve_from p t v lk (path ++ [m]) = resolve_step p t1 v1 m.
Proof.
  induction path as [|x path IH]; intros t v lk m t1 v1 lk1 H; simpl in *.
  - injection H as <- <- <-. unfold resolve_step.
    destruct (Nat.ltb m (length (t_deps (get_task p t)))).
    + destruct (nth_error (t_deps (get_task p t)) m); reflexivity.
    + destruct (nth_error (t_cmds (get_task p t)) (m - length (t_deps (get_task p t)))) as [[| | |]|]; reflexivity.
  - destruct (Nat.ltb x (length (t_deps (get_task p t)))).
    + destruct (nth_error (t_deps (get_task p t)) x); [|discriminate]. eapply IH; eauto.
    + destruct (nth_error (t_cmds (get_task p t)) (x - length (t_deps (get_task p t)))) as [[| | |]|];
        try discriminate; eapply IH; eauto.
Qed.

Lemma resolve_app p c path m t v lk :
  resolve p c path = Some (t, v, lk) -> resolve p c (path ++ [m]) = resolve_step p t v m.
Proof.
  destruct path as [|k rest]; simpl; [discriminate|].
  destruct (nth_error (cf_roots c) k); [|discriminate]. apply resolve_from_app.
Qed.

Definition inv_ids (p : prog) (c : cfg) (s : state) : Prop :=
  Forall (id_ok p c) (map idn (acts s)).

Lemma idn_set_pc x q : idn (set_pc x q) = idn x. Proof. reflexivity. Qed.
Lemma idn_set_holds x h : idn (set_holds x h) = idn x. Proof. reflexivity. Qed.
Lemma idn_set_kids x k g : idn (set_kids x k g) = idn x. Proof. reflexivity. Qed.
Lemma idn_set_gerr x e : idn (set_gerr x e) = idn x. Proof. reflexivity. Qed.
Lemma idn_set_exec x e k : idn (set_exec x e k) = idn x. Proof. reflexivity. Qed.
Lemma idn_push_defer x i : idn (push_defer x i) = idn x. Proof. reflexivity. Qed.
Lemma idn_pop_defer x : idn (pop_defer x) = idn x. Proof. reflexivity. Qed.
Lemma idn_set_dexit x n : idn (set_dexit x n) = idn x. Proof. reflexivity. Qed.

Lemma ids_set_act s a x y :
  get_act s a = Some x -> idn y = idn x -> map idn (acts (set_act s a y)) = map idn (acts s).
Proof.
  intros Hx Hy. rewrite acts_set_act, map_upd, Hy. apply upd_same.
  unfold get_act in Hx. rewrite nth_error_map, Hx. reflexivity.
Qed.

Lemma ids_notify s x r : map idn (acts (notify_parent s x r)) = map idn (acts s).
Proof.
  unfold notify_parent. destruct (a_kind x); try reflexivity.
  destruct (a_parent x) as [pa|]; try reflexivity. destruct r as [|e]; try reflexivity.
  destruct (get_act s pa) as [px|] eqn:E; try reflexivity.
  destruct (a_gerr px); try reflexivity.
  rewrite cancel_ctx_acts. apply (ids_set_act s pa px); [exact E|reflexivity].
Qed.

Lemma ids_finish s a x r :
  get_act s a = Some x -> map idn (acts (finish s a x r)) = map idn (acts s).
Proof.
  intros Hx. unfold finish.
  assert (E : map idn (acts (notify_parent (emit (set_act s a (set_pc x (PDone r))) (EvEnd (a_path x) r)) x r))
              = map idn (acts s)).
  { rewrite ids_notify. simpl. apply (ids_set_act s a x); [exact Hx|reflexivity]. }
  destruct (a_kind x); try exact E.
  destruct r; [|destruct (rungerr _)]; rewrite ?cancel_ctx_acts; exact E.
Qed.

(* what a step does to the identities: old ones are kept, children of the stepping
   activation are appended *)
Definition is_child (p : prog) (x : act) (y : act) : Prop :=
  exists m, a_path y = a_path x ++ [m] /\
            resolve_step p (a_task x) (a_var x) m = Some (a_task y, a_var y, link_of_kind (a_kind y)).

Lemma step_ids p c s a s' x :
  get_act s a = Some x -> step p c s a = Some s' ->
  exists news, map idn (acts s') = map idn (acts s) ++ map idn news /\ Forall (is_child p x) news.
Proof.
  intros Hx H. unfold step in H. rewrite Hx in H.
  unfold bump_call, new_ctx, add_act, after_cmd_error in H.
  destruct (a_pc x) eqn:Hpc; repeat break_match H; try discriminate; injection H as <-;
    try (exists []; split; [|constructor]; rewrite app_nil_r;
         rewrite ?ids_finish by (first [exact Hx | rewrite get_act_set_same with (y := x) by exact Hx; reflexivity | idtac]);
         simpl; rewrite ?cancel_ctx_acts, ?acquire_acts, ?release_acts;
         first [ reflexivity
               | apply (ids_set_act _ a x); [first [exact Hx | unfold get_act; simpl; rewrite ?cancel_ctx_acts, ?acquire_acts, ?release_acts; exact Hx]|reflexivity] ]).
  - (* fork deps *)
    apply fork_deps_spec in Heqp0. simpl in Heqp0.
    destruct Heqp0 as [news (Ha & _ & _ & _ & _ & _ & _ & _ & Hl & _ & Hf & Hk)].
    exists news. split.
    + rewrite acts_set_act, map_upd, Ha, release_acts, map_app.
      assert (Hlt : a < length (map idn (acts s))).
      { rewrite map_length. apply nth_error_Some. unfold get_act in Hx. rewrite Hx. discriminate. }
      rewrite upd_app_l by exact Hlt. f_equal. apply upd_same.
      unfold get_act in Hx. rewrite nth_error_map, Hx. reflexivity.

    + apply Forall_forall. intros y Hy. apply In_nth_error in Hy. destruct Hy as [k Hy].
      assert (Hkl : k < length (t_deps (get_task p (a_task x)))).
      { rewrite <- Hl. apply nth_error_Some. rewrite Hy. discriminate. }
      destruct (nth_error (t_deps (get_task p (a_task x))) k) as [d|] eqn:Ed;
        [|apply nth_error_None in Ed; lia].
      destruct (Hk k d Ed) as [y' (Hy' & Hp & Ht & Hv & _)]. rewrite Hy in Hy'. injection Hy' as <-.
      exists k. split; [exact Hp|].
      unfold resolve_step. apply Nat.ltb_lt in Hkl. rewrite Hkl, Ed, Ht, Hv.
      rewrite Forall_forall in Hf. destruct (Hf y (nth_error_In _ _ Hy)) as (_ & _ & Hkd & _).
      rewrite Hkd. reflexivity.
  - (* call *)
    eexists [_]. split.
    + rewrite acts_set_act, map_upd. simpl. rewrite release_acts, map_app.
      assert (Hlt : a < length (map idn (acts s))).
      { rewrite map_length. apply nth_error_Some. unfold get_act in Hx. rewrite Hx. discriminate. }
      rewrite upd_app_l by exact Hlt. f_equal; [|reflexivity]. apply upd_same.
      unfold get_act in Hx. rewrite nth_error_map, Hx. reflexivity.
    + constructor; [|constructor]. eexists. split; [reflexivity|].
      unfold resolve_step. simpl.
      replace (Nat.ltb _ _) with false by (symmetry; apply Nat.ltb_ge; lia).
      rewrite Nat.add_comm, Nat.add_sub. rewrite Heqo. reflexivity.
  - (* deferred call *)
    eexists [_]. split.
    + rewrite acts_set_act, map_upd. simpl. rewrite release_acts, map_app.
      assert (Hlt : a < length (map idn (acts s))).
      { rewrite map_length. apply nth_error_Some. unfold get_act in Hx. rewrite Hx. discriminate. }
      rewrite upd_app_l by exact Hlt. f_equal; [|reflexivity]. apply upd_same.
      unfold get_act in Hx. rewrite nth_error_map, Hx. reflexivity.
    + constructor; [|constructor]. eexists. split; [reflexivity|].
      unfold resolve_step. simpl.
      replace (Nat.ltb _ _) with false by (symmetry; apply Nat.ltb_ge; lia).
      rewrite Nat.add_comm, Nat.add_sub. rewrite Heqo. reflexivity.
  - (* release *)
    exists []. split; [|constructor]. rewrite app_nil_r.
    assert (Hx' : get_act (release c s) a = Some x) by (unfold get_act; rewrite release_acts; exact Hx).
    unfold finish.
    assert (E : map idn (acts (notify_parent (emit (set_act (release c s) a (set_pc (set_holds x false) (PDone r)))
                 (EvEnd (a_path (set_holds x false)) r)) (set_holds x false) r)) = map idn (acts s)).
    { rewrite ids_notify. simpl. rewrite map_upd. rewrite release_acts. apply upd_same.
      unfold get_act in Hx. rewrite nth_error_map, Hx. reflexivity. }
    destruct (a_kind (set_holds x false)); try exact E.
    destruct r; [|destruct (rungerr _)]; rewrite ?cancel_ctx_acts; exact E.
Qed.

(* ------------------------------------------------------------------ *)
(* inv_ids is preserved                                                *)

Lemma is_child_ok p c x y :
  id_ok p c (idn x) -> is_child p x y -> id_ok p c (idn y).
Proof.
  unfold id_ok, idn. intros Hx [m [Hp Hr]]. rewrite Hp.
  rewrite (resolve_app p c _ m _ _ _ Hx). exact Hr.
Qed.

Lemma step_inv_ids p c s a s' : inv_ids p c s -> step p c s a = Some s' -> inv_ids p c s'.
Proof.
  intros Hinv H. unfold inv_ids in *.
  destruct (get_act s a) as [x|] eqn:Hx; [|unfold step in H; rewrite Hx in H; discriminate].
  destruct (step_ids p c s a s' x Hx H) as [news [E Hc]]. rewrite E. apply Forall_app. split; [exact Hinv|].
  assert (Hxo : id_ok p c (idn x)).
  { rewrite Forall_forall in Hinv. apply Hinv. apply in_map. unfold get_act in Hx. eapply nth_error_In; eauto. }
  clear E. induction Hc as [|y news Hy _ IH]; simpl; constructor; auto. eapply is_child_ok; eauto.
Qed.

Lemma start_root_inv_ids p c s k s' : inv_ids p c s -> start_root p c s k = Some s' -> inv_ids p c s'.
Proof.
  intros Hinv H. unfold start_root in H.
  destruct (nth_error (cf_roots c) k) as [cl|] eqn:Ek; [|discriminate].
  destruct (negb (precheck_ok p c) || root_started s k); [discriminate|].
  match type of H with (if ?b then _ else _) = _ => destruct b end; [|discriminate].
  injection H as <-. unfold inv_ids, add_act. simpl. rewrite map_app. apply Forall_app. split; [exact Hinv|].
  constructor; [|constructor]. unfold id_ok, idn. simpl. rewrite Ek. reflexivity.
Qed.

Lemma inv_ids_get p c s a x : inv_ids p c s -> get_act s a = Some x ->
  resolve p c (a_path x) = Some (a_task x, a_var x, link_of_kind (a_kind x)).
Proof.
  intros Hinv Hx. unfold inv_ids in Hinv. rewrite Forall_forall in Hinv.
  apply (Hinv (idn x)). apply in_map. unfold get_act in Hx. eapply nth_error_In; eauto.
Qed.

Lemma task_of_get p c s a x : inv_ids p c s -> get_act s a = Some x -> task_of p c (a_path x) = a_task x.
Proof. intros Hi Hx. unfold task_of. rewrite (inv_ids_get p c s a x Hi Hx). reflexivity. Qed.
Lemma var_of_get p c s a x : inv_ids p c s -> get_act s a = Some x -> var_of p c (a_path x) = a_var x.
Proof. intros Hi Hx. unfold var_of. rewrite (inv_ids_get p c s a x Hi Hx). reflexivity. Qed.
Lemma key_of_act_get p c s a x : inv_ids p c s -> get_act s a = Some x ->
  key_of_act p c (a_path x) = key_of p (a_task x) (a_var x).
Proof. intros Hi Hx. unfold key_of_act. rewrite (inv_ids_get p c s a x Hi Hx). reflexivity. Qed.

(* ------------------------------------------------------------------ *)
(* C13: guards                                                          *)

Definition glevel (q : pc) : nat :=
  match q with
  | PEntry | PPlatformEnd | PDone _ => 0
  | PAcquire | PDedup | PWRelease _ | PWWait _ | PWReacq _ | PDepsFork | PDepsJoin | PDepsReacq | PBlock
  | PEnd _ | PRelease _ => 1
  | PPrompt => 2
  | _ => 3
  end.

Definition guards_upto (n : nat) (c : cfg) (tk : task) : bool :=
  let g := t_g tk in
  Nat.ltb n 1 ||
  (g_platform g && g_required g && g_enum g &&
   (Nat.ltb n 2 ||
    (negb (match g_precond g with Some false => true | _ => false end) &&
     (Nat.ltb n 3 || negb (g_prompt g && negb (cf_yes c)))))).

Definition gp (x : act) : nat * pc := (a_task x, a_pc x).
Lemma gp_gerr x e : gp (set_gerr x e) = gp x. Proof. reflexivity. Qed.

Definition gp_ok (p : prog) (c : cfg) (y : nat * pc) : bool :=
  guards_upto (glevel (snd y)) c (get_task p (fst y)).

Definition c13_ok (p : prog) (c : cfg) (e : event) : bool :=
  match e with
  | EvAnnounce a _ | EvProbeBegin a _ _ | EvDAnnounce a _ | EvDProbeBegin a _ _ | EvFinished a =>
      negb (guard_blocks c (get_task p (task_of p c a)))
  | EvStarted a _ =>
      let g := t_g (get_task p (task_of p c a)) in g_platform g && g_required g && g_enum g
  | _ => true
  end.

Lemma mon_C13_forallb p c tr : mon_C13 p c tr = forallb (c13_ok p c) tr.
Proof. reflexivity. Qed.

Record inv13 (p : prog) (c : cfg) (s : state) : Prop := {
  i13_ids : inv_ids p c s;
  i13_g : forallb (gp_ok p c) (pj gp s) = true;
  i13_tr : forallb (c13_ok p c) (trace s) = true
}.

Lemma inv13_move p c s s' a t q q' news evs :
  inv13 p c s -> inv_ids p c s' ->
  nth_error (pj gp s) a = Some (t, q) ->
  pj gp s' = upd (pj gp s) a (t, q') ++ news ->
  Forall (fun y => snd y = PEntry) news ->
  guards_upto (glevel q') c (get_task p t) = true ->
  trace s' = trace s ++ evs ->
  forallb (c13_ok p c) evs = true ->
  inv13 p c s'.
Proof.
  intros [Hi Hg Ht] Hi' Hn Hp Hnews Hq Htr Hev. constructor; auto.
  - rewrite Hp, forallb_app. apply andb_true_iff. split.
    + apply forallb_upd; auto.
    + clear -Hnews. induction Hnews as [|[t0 q0] news Hy _ IH]; [reflexivity|]. simpl in *. subst q0.
      rewrite IH. reflexivity.
  - rewrite Htr, forallb_app, Ht, Hev. reflexivity.
Qed.

Ltac guard_bools :=
  unfold guards_upto, guard_blocks in *; simpl in *;
  repeat match goal with
  | H : context [g_platform ?g] |- _ => destruct (g_platform g); simpl in *; try discriminate
  | H : context [g_required ?g] |- _ => destruct (g_required g); simpl in *; try discriminate
  | H : context [g_enum ?g] |- _ => destruct (g_enum g); simpl in *; try discriminate
  | H : context [g_precond ?g] |- _ => destruct (g_precond g) as [[|]|]; simpl in *; try discriminate
  | H : context [g_prompt ?g] |- _ => destruct (g_prompt g); simpl in *; try discriminate
  | H : context [cf_yes ?c] |- _ => destruct (cf_yes c); simpl in *; try discriminate
  | |- context [g_platform ?g] => destruct (g_platform g); simpl in *; try discriminate
  | |- context [g_required ?g] => destruct (g_required g); simpl in *; try discriminate
  | |- context [g_enum ?g] => destruct (g_enum g); simpl in *; try discriminate
  | |- context [g_precond ?g] => destruct (g_precond g) as [[|]|]; simpl in *; try discriminate
  | |- context [g_prompt ?g] => destruct (g_prompt g); simpl in *; try discriminate
  | |- context [cf_yes ?c] => destruct (cf_yes c); simpl in *; try discriminate
  end;
  repeat match goal with H : Some ?u = Some ?v |- _ => injection H as H; try subst; simpl in * end;
  try reflexivity; try discriminate.

Global Hint Rewrite (pj_set_act gp) (pj_emit gp) (pj_cancel gp) (pj_acquire gp) (pj_release gp)
  (pj_finish gp gp_gerr) : gpdb.

Lemma step_inv13 p c s a s' : inv13 p c s -> step p c s a = Some s' -> inv13 p c s'.
Proof.
  intros Hinv H.
  pose proof (step_inv_ids p c s a s' (i13_ids _ _ _ Hinv) H) as Hids'.
  destruct (get_act s a) as [x|] eqn:Hx; [|unfold step in H; rewrite Hx in H; discriminate].
  pose proof (pj_nth gp _ _ _ Hx) as Hn. unfold gp in Hn.
  pose proof (forallb_nth _ _ _ _ (i13_g _ _ _ Hinv) Hn) as Hg. unfold gp_ok in Hg. simpl in Hg.
  pose proof (task_of_get p c s a x (i13_ids _ _ _ Hinv) Hx) as Htk.
  pose proof (pj_lt gp _ _ _ Hx) as Hlt.
  step_cases H Hx; simpl in Hg;
    try (eapply inv13_move with (a := a) (news := []);
         [ exact Hinv | exact Hids' | exact Hn
         | autorewrite with gpdb; unfold gp; simpl; rewrite ?app_nil_r; reflexivity
         | constructor
         | simpl; guard_bools
         | autorewrite with sigdb; simpl; rewrite <- ?app_assoc; first [reflexivity | symmetry; apply app_nil_r]
         | simpl; rewrite ?Htk; guard_bools ]).
  - (* fork deps *)
    apply fork_deps_spec in Heqp0. simpl in Heqp0.
    destruct Heqp0 as [news (Ha & _ & Ht & _ & _ & _ & _ & _ & _ & _ & Hf & _)].
    eapply inv13_move with (a := a) (news := map gp news) (evs := []).
    + exact Hinv.
    + exact Hids'.
    + exact Hn.
    + unfold pj at 1. rewrite acts_set_act, map_upd, Ha, release_acts, map_app.
      rewrite upd_app_l by exact Hlt. reflexivity.
    + clear -Hf. induction Hf as [|y news Hy _ IH]; simpl; constructor; auto. destruct Hy as (H1 & _). exact H1.
    + simpl. exact Hg.
    + rewrite trace_set_act, Ht, release_trace. symmetry. apply app_nil_r.
    + reflexivity.
  - (* call *)
    eapply inv13_move with (a := a) (news := [(_, PEntry)]) (evs := []).
    + exact Hinv.
    + exact Hids'.
    + exact Hn.
    + unfold pj at 1. rewrite acts_set_act, map_upd. simpl. rewrite release_acts, map_app.
      rewrite upd_app_l by exact Hlt. reflexivity.
    + repeat constructor.
    + simpl. exact Hg.
    + rewrite trace_set_act. simpl. rewrite release_trace. symmetry. apply app_nil_r.
    + reflexivity.
  - (* deferred call *)
    eapply inv13_move with (a := a) (news := [(_, PEntry)]) (evs := []).
    + exact Hinv.
    + exact Hids'.
    + exact Hn.
    + unfold pj at 1. rewrite acts_set_act, map_upd. simpl. rewrite release_acts, map_app.
      rewrite upd_app_l by exact Hlt. reflexivity.
    + repeat constructor.
    + simpl. exact Hg.
    + rewrite trace_set_act. simpl. rewrite release_trace. symmetry. apply app_nil_r.
    + reflexivity.
Qed.

Lemma inv13_init p c : inv13 p c (init_state p).
Proof. constructor; [constructor|reflexivity|reflexivity]. Qed.

Lemma start_root_inv13 p c s k s' : inv13 p c s -> start_root p c s k = Some s' -> inv13 p c s'.
Proof.
  intros [Hi Hg Ht] H. pose proof (start_root_inv_ids p c s k s' Hi H) as Hi'.
  unfold start_root in H.
  destruct (nth_error (cf_roots c) k) as [cl|]; [|discriminate].
  destruct (negb (precheck_ok p c) || root_started s k); [discriminate|].
  match type of H with (if ?b then _ else _) = _ => destruct b end; [|discriminate].
  injection H as <-. constructor; auto.
  unfold add_act, pj. simpl. rewrite map_app, forallb_app. fold (pj gp s). rewrite Hg. reflexivity.
Qed.

Lemma run_inv13 p c sched : inv13 p c (run p c sched).
Proof.
  unfold run. generalize (inv13_init p c). generalize (init_state p).
  induction sched as [|ch sched IH]; intros s Hs; simpl; [exact Hs|].
  apply IH. destruct ch as [a|k]; simpl.
  - destruct (step p c s a) eqn:E; [eapply step_inv13; eauto|exact Hs].
  - destruct (start_root p c s k) eqn:E; [eapply start_root_inv13; eauto|exact Hs].
Qed.

(* C13: for every program, configuration and schedule, no command (nor "finished", nor a deferred
   command) of a task whose guard fails ever appears, and a task only starts when its platform and
   required-variable guards hold *)
Theorem guards_all_schedules p c sched : mon_C13 p c (trace (run p c sched)) = true.
Proof. rewrite mon_C13_forallb. apply (i13_tr _ _ _ (run_inv13 p c sched)). Qed.

Lemma forallb_filter {A} (f g : A -> bool) l : forallb f l = true -> forallb f (filter g l) = true.
Proof. induction l as [|x l IH]; simpl; intros H; [reflexivity|]. apply andb_true_iff in H. destruct H.
  destruct (g x); simpl; auto. rewrite H. auto. Qed.

Theorem guards_observable p c sched : mon_C13 p c (filter observable (trace (run p c sched))) = true.
Proof. rewrite mon_C13_forallb. apply forallb_filter. apply (i13_tr _ _ _ (run_inv13 p c sched)). Qed.
