(* Generic bookkeeping for invariants that look at a projection [f] of every activation
   which the errgroup notification (set_gerr on the parent) does not change. *)
From Coq Require Import List Arith Bool Lia.
Import ListNotations.
From TV Require Import Exec.Model Exec.Facts Exec.InvSlots.

Section Proj.
  Context {B : Type}.
  Variable f : act -> B.
  Hypothesis f_gerr : forall x e, f (set_gerr x e) = f x.

  Definition pj (s : state) : list B := map f (acts s).

  Lemma pj_set_act s a y : pj (set_act s a y) = upd (pj s) a (f y).
  Proof. unfold pj. simpl. apply map_upd. Qed.
  Lemma pj_emit s e : pj (emit s e) = pj s. Proof. reflexivity. Qed.
  Lemma pj_cancel s c : pj (cancel_ctx s c) = pj s.
  Proof. unfold pj. rewrite cancel_ctx_acts. reflexivity. Qed.
  Lemma pj_acquire c s : pj (acquire c s) = pj s.
  Proof. unfold pj. rewrite acquire_acts. reflexivity. Qed.
  Lemma pj_release c s : pj (release c s) = pj s.
  Proof. unfold pj. rewrite release_acts. reflexivity. Qed.
  Lemma pj_nth s a x : get_act s a = Some x -> nth_error (pj s) a = Some (f x).
  Proof. unfold get_act, pj. intros H. rewrite nth_error_map, H. reflexivity. Qed.

  Lemma pj_notify s x r : pj (notify_parent s x r) = pj s.
  Proof.
    unfold notify_parent. destruct (a_kind x); try reflexivity.
    destruct (a_parent x) as [pa|]; try reflexivity. destruct r as [|e]; try reflexivity.
    destruct (get_act s pa) as [px|] eqn:E; try reflexivity.
    destruct (a_gerr px); try reflexivity.
    rewrite pj_cancel, pj_set_act, f_gerr. apply upd_same. apply pj_nth. exact E.
  Qed.

  Lemma pj_finish s a x r : pj (finish s a x r) = upd (pj s) a (f (set_pc x (PDone r))).
  Proof.
    unfold finish.
    assert (E : pj (notify_parent (emit (set_act s a (set_pc x (PDone r))) (EvEnd (a_path x) r)) x r)
                = upd (pj s) a (f (set_pc x (PDone r)))).
    { rewrite pj_notify, pj_emit, pj_set_act. reflexivity. }
    destruct (a_kind x); try exact E.
    destruct r; [|destruct (rungerr _)]; rewrite ?pj_cancel; exact E.
  Qed.

  Lemma pj_lt s a x : get_act s a = Some x -> a < length (pj s).
  Proof. intros H. apply nth_error_Some. rewrite (pj_nth _ _ _ H). discriminate. Qed.
End Proj.

Ltac step_cases H Hx :=
  unfold step in H; rewrite Hx in H;
  unfold bump_call, new_ctx, add_act, after_cmd_error in H;
  match type of H with context [a_pc ?x] =>
    let Hpc := fresh "Hpc" in
    destruct (a_pc x) eqn:Hpc; repeat break_match H; try discriminate; injection H as <-
  end.
