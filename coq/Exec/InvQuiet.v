(* Quiescence ("bracket/seal" and "shared execution waits"): for every program, configuration
   and schedule the trace of the machine is accepted by [mon_C02seal] and by [mon_waits].

   Core argument.  An event that belongs to an activation (every event but "skipping" and the
   ghost EvEnd) is only ever emitted at a [loud] program point; a loud program point is not one
   of the three program points at which an activation waits for a child ([waiting]: the join of
   the deps, PCallWait, PDCallWait).  By [wait_par] (Exec/InvFail.v) the parent of an activation
   that has not returned is waiting for it, so, walking up the call path ([desc_done]): every
   activation strictly below an activation that is not waiting has returned (PDone) -- and an
   activation that has returned never steps again.
   - seal: when activation a emits, everything strictly below it has returned, so in particular
     every strict descendant seen so far; the monitor's sealed list only ever holds paths of
     activations that have returned ([seal_ok]).
   - waits: a skipped activation h sits at PWRelease o / PWWait o, o the owner registered for the
     key, until [exec_result s o] is available, i.e. until o is at PRelease / PDone ([pend_ok]);
     when an activation at or above h emits, h is not at a waiter program point any more (it has
     returned, or it is the emitter itself, which is loud), so the owner is at PRelease / PDone:
     it only has its ghost EvEnd left to emit, it is not waiting, so everything below it has
     returned: the monitor's w_sealed list only holds paths of such owners ([waits_ok]).
   Side invariants reused: inv_fail (inv_ids, inv_tree, uniq, wait_par) from Exec/InvFail.v. *)
From Coq Require Import List Arith Bool Lia.
Import ListNotations.
From TV Require Import Exec.Model Exec.Monitors Exec.Facts Exec.InvSlots Exec.Proj Exec.InvPaths Exec.Frame
  Exec.InvUniq Exec.InvPhase Exec.InvTree Exec.InvDedup Exec.Progress Exec.InvFail Exec.InvDeps.

(* ------------------------------------------------------------------ *)
(* what a step does, as far as quiescence is concerned                 *)

(* the program points at which an event belonging to the activation is emitted *)
Definition loud (q : pc) : bool :=
  match q with
  | PEntry | PDedup | PBlock | PCmd _ | PRun _ | PProbe _ | PDefers _ | PDRun _ _ | PDProbe _ _ => true
  | _ => false
  end.

(* the program points at which an activation waits for a child *)
Definition waiting (q : pc) : bool :=
  match q with PDepsJoin | PCallWait _ _ | PDCallWait _ _ => true | _ => false end.

Definition qev (p : prog) (s s' : state) (a : nat) (x x' : act) (e : event) : Prop :=
  (forall pth, ev_act e = Some pth -> pth = a_path x /\ loud (a_pc x) = true) /\
  (forall k h, e = EvSkipping k h ->
     h = a_path x /\ exists o, a_pc x' = PWRelease o /\ lookup_key (dedup s) k = Some o) /\
  (forall pth t, e = EvStarted pth t ->
     (key_of p (a_task x) (a_var x) = None /\ dedup s' = dedup s) \/
     exists k, key_of p (a_task x) (a_var x) = Some k /\ lookup_key (dedup s) k = None /\
               dedup s' = dedup s ++ [(k, a)]).

Record qview (p : prog) (s s' : state) (a : nat) (x x' : act) : Prop := {
  qv_trace : trace s' = trace s \/ exists e, trace s' = trace s ++ [e] /\ qev p s s' a x x' e;
  qv_dedup : exists dnew, dedup s' = dedup s ++ dnew;
  qv_wrel : forall o, a_pc x = PWRelease o -> a_pc x' = PWWait o;
  qv_wwait : forall o, a_pc x = PWWait o -> exec_result s o <> None;
  qv_rel : forall r, a_pc x = PRelease r -> a_pc x' = PDone r
}.

Lemma step_qview p c s a s' x x' :
  get_act s a = Some x -> step p c s a = Some s' -> get_act s' a = Some x' -> qview p s s' a x x'.
Proof.
  intros Hx H Hx'.
  pose proof (pj_lt noG _ _ _ Hx) as Hlt.
  step_cases H Hx;
  try (match goal with _ : get_act ?S' a = Some x' |- _ =>
           let E := fresh "E" in
           eassert (E : pj noG S' = upd (pj noG s) a _ ++ []);
           [autorewrite with ngdb; simpl; autorewrite with ngdb; rewrite ?app_nil_r; reflexivity|];
           let Hn := fresh "Hn" in
           pose proof (noG_at _ _ _ _ _ _ E Hlt Hx') as Hn;
           apply noG_fields in Hn; destruct Hn as (Np & _ & _ & _ & _ & Hq & _); simpl in Hq, Np;
           constructor; rewrite ?Hpc, ?Hq;
        [ idtac
        | idtac
        | solve [simpl; intros ? Heq; try discriminate; inversion Heq; subst; eauto]
        | solve [simpl; intros ? Heq; try discriminate; inversion Heq; subst; congruence]
        | solve [simpl; intros ? Heq; try discriminate; inversion Heq; subst; eauto] ]
           end).
  all: try solve [exists []; rewrite app_nil_r; autorewrite with dddb; simpl; autorewrite with dddb; reflexivity].
  all: try solve [left; autorewrite with sigdb; simpl; autorewrite with sigdb; reflexivity].
  all: try solve [right; eexists; split;
                  [autorewrite with sigdb; simpl; autorewrite with sigdb; rewrite <- ?app_assoc; reflexivity
                  |unfold qev; rewrite ?Hpc, ?Hq; split; [|split];
                   [ intros ? Hev; simpl in Hev; try discriminate Hev; inversion Hev; subst; split; reflexivity
                   | intros ? ? Hev; first [discriminate Hev | inversion Hev; subst; split; [reflexivity|eauto]]
                   | intros ? ? Hev;
                     first [ discriminate Hev
                           | left; split; [assumption|autorewrite with dddb; simpl; autorewrite with dddb; reflexivity]
                           | right; eexists; repeat split; eauto ] ]]].
  - exists [(k, a)]. reflexivity.
  - apply fork_deps_spec in Heqp0. simpl in Heqp0.
    destruct Heqp0 as [news (_ & _ & Ht & Hd & _)].
    constructor; rewrite ?Hpc; try (intros; discriminate).
    + left. rewrite trace_set_act, Ht. apply release_trace.
    + exists []. rewrite app_nil_r, dedup_set_act, Hd. apply release_dedup.
  - constructor; rewrite ?Hpc; try (intros; discriminate).
    + left. rewrite trace_set_act. simpl. apply release_trace.
    + exists []. rewrite app_nil_r, dedup_set_act. simpl. apply release_dedup.
  - constructor; rewrite ?Hpc; try (intros; discriminate).
    + left. rewrite trace_set_act. simpl. apply release_trace.
    + exists []. rewrite app_nil_r, dedup_set_act. simpl. apply release_dedup.
Qed.

Lemma loud_not_waiting q : loud q = true -> waiting q = false.
Proof. destruct q; simpl; intros H; try reflexivity; discriminate. Qed.

Lemma loud_not_done q : loud q = true -> is_done q = false.
Proof. destruct q; simpl; intros H; try reflexivity; discriminate. Qed.

Lemma done_not_waiting q : is_done q = true -> waiting q = false.
Proof. destruct q; simpl; intros H; try reflexivity; discriminate. Qed.

(* ------------------------------------------------------------------ *)
(* call paths                                                          *)

Lemma strict_prefix_nil_r a : strict_prefix a [] = false.
Proof. destruct a; reflexivity. Qed.

Lemma strict_prefix_length a : forall b, strict_prefix a b = true -> length a < length b.
Proof.
  induction a as [|x a IH]; intros [|y b] H; simpl in *; try discriminate; try lia.
  apply andb_true_iff in H. destruct H as [_ H]. specialize (IH b H). lia.
Qed.

Lemma strict_prefix_snoc a : forall b m, strict_prefix a (b ++ [m]) = true -> a = b \/ strict_prefix a b = true.
Proof.
  induction a as [|x a IH]; intros [|y b] m H; simpl in *.
  - left. reflexivity.
  - right. reflexivity.
  - rewrite strict_prefix_nil_r, andb_false_r in H. discriminate.
  - apply andb_true_iff in H. destruct H as [Hxy H]. apply Nat.eqb_eq in Hxy. subst y.
    destruct (IH b m H) as [->|Hs]; [left; reflexivity|right]. rewrite Nat.eqb_refl. exact Hs.
Qed.

Lemma prefix_cases a : forall b, prefix_of_aid a b = true -> a = b \/ strict_prefix a b = true.
Proof.
  induction a as [|x a IH]; intros [|y b] H; simpl in *; try discriminate.
  - left. reflexivity.
  - right. reflexivity.
  - apply andb_true_iff in H. destruct H as [Hxy H]. apply Nat.eqb_eq in Hxy. subst y.
    destruct (IH b H) as [->|Hs]; [left; reflexivity|right]. rewrite Nat.eqb_refl. exact Hs.
Qed.

Lemma uniq_path p s i j x y :
  uniq p (pj csof s) -> get_act s i = Some x -> get_act s j = Some y -> a_path x = a_path y -> i = j.
Proof.
  intros [Hnd _] Hi Hj Hp.
  eapply (NoDup_map_nth c_path (pj csof s) i j (csof x) (csof y)); auto; apply pj_nth; assumption.
Qed.

Lemma path_cases p s j y :
  uniq p (pj csof s) -> get_act s j = Some y ->
  a_path y <> [] /\
  ((a_parent y = None /\ length (a_path y) = 1) \/
   exists pa z m, a_parent y = Some pa /\ a_kind y <> KRoot /\ get_act s pa = Some z /\ a_path y = a_path z ++ [m]).
Proof.
  intros [_ Hall] Hy. rewrite Forall_forall in Hall.
  assert (He : entry_ok p (pj csof s) (csof y)) by (apply Hall; eapply nth_error_In; apply pj_nth; exact Hy).
  destruct He as (_ & Hne & He). simpl in Hne, He. split; [exact Hne|].
  destruct (a_parent y) as [pa|].
  - right. destruct He as [Hk (px & m & Hpx & Hpm & _)]. apply nth_pj_act in Hpx. destruct Hpx as [z [Hz ->]].
    exists pa, z, m. repeat split; auto.
  - left. destruct He as [_ Hl]. split; [reflexivity|exact Hl].
Qed.

Lemma waits_for_waiting z k j : k <> KRoot -> waits_for z k j -> waiting (a_pc z) = true.
Proof.
  intros Hk Hw. destruct k; simpl in Hw; [congruence| | |].
  - rewrite Hw. reflexivity.
  - destruct Hw as [i ->]. reflexivity.
  - destruct Hw as [r ->]. reflexivity.
Qed.

(* everything strictly below an activation that is not waiting for a child has returned *)
Lemma desc_done p s :
  uniq p (pj csof s) -> wait_par s ->
  forall n j y, length (a_path y) <= n -> get_act s j = Some y ->
  forall i x, get_act s i = Some x -> waiting (a_pc x) = false ->
    strict_prefix (a_path x) (a_path y) = true -> is_done (a_pc y) = true.
Proof.
  intros Huq Hw. induction n as [|n IH]; intros j y Hlen Hy i x Hx Hnw Hsp.
  - apply strict_prefix_length in Hsp. lia.
  - destruct (path_cases p s i x Huq Hx) as [Hxne _].
    destruct (path_cases p s j y Huq Hy) as [_ [[_ Hl]|(pa & z & m & Hpar & Hk & Hz & Hpm)]].
    + apply strict_prefix_length in Hsp. destruct (a_path x); [congruence|simpl in Hsp; lia].
    + destruct (is_done (a_pc y)) eqn:Ed; [reflexivity|exfalso].
      destruct (Hw j y pa Hy Ed Hpar) as [z0 [Hz0 Hwf]]. rewrite Hz in Hz0. injection Hz0 as <-.
      pose proof (waits_for_waiting z (a_kind y) j Hk Hwf) as Hzw.
      rewrite Hpm in Hsp. apply strict_prefix_snoc in Hsp. destruct Hsp as [Heq|Hsp].
      * assert (i = pa) by (eapply uniq_path; eauto). subst pa.
        rewrite Hx in Hz. injection Hz as <-. congruence.
      * assert (Hlz : length (a_path z) <= n).
        { rewrite Hpm, app_length in Hlen. simpl in Hlen. lia. }
        pose proof (IH pa z Hlz Hz i x Hx Hnw Hsp) as Hzd.
        apply done_not_waiting in Hzd. congruence.
Qed.

Lemma below_done p s i x j y :
  uniq p (pj csof s) -> wait_par s -> get_act s i = Some x -> waiting (a_pc x) = false ->
  get_act s j = Some y -> strict_prefix (a_path x) (a_path y) = true -> is_done (a_pc y) = true.
Proof. intros Huq Hw Hx Hnw Hy Hsp. exact (desc_done p s Huq Hw (length (a_path y)) j y (le_n _) Hy i x Hx Hnw Hsp). Qed.

(* ------------------------------------------------------------------ *)
(* what the monitor states say about a machine state, and the part of  *)
(* the machine state they depend on ([ext]: what every transition      *)
(* preserves)                                                          *)

Definition has_path (s : state) (d : aid) : Prop :=
  exists i x, get_act s i = Some x /\ a_path x = d.
Definition done_path (s : state) (d : aid) : Prop :=
  exists i x, get_act s i = Some x /\ a_path x = d /\ is_done (a_pc x) = true.
(* the execution closure of the activation has returned: it is at PRelease or PDone *)
Definition closed_path (s : state) (d : aid) : Prop :=
  exists i x, get_act s i = Some x /\ a_path x = d /\ exec_result s i <> None.

Definition pend_ok (s : state) (kh : key * aid) : Prop :=
  exists i y oi, get_act s i = Some y /\ a_path y = snd kh /\ lookup_key (dedup s) (fst kh) = Some oi /\
    (a_pc y = PWRelease oi \/ a_pc y = PWWait oi \/ exec_result s oi <> None).

Definition owner_ok (s : state) (owners : list (key * aid)) : Prop :=
  forall k o, owner_of owners k = Some o ->
    exists i x, get_act s i = Some x /\ a_path x = o /\ lookup_key (dedup s) k = Some i.

Definition seal_ok (s : state) (st : st02) : Prop :=
  (forall d, In d (seen st) -> has_path s d) /\ (forall d, In d (sealed st) -> done_path s d).

Definition waits_ok (s : state) (st : stW) : Prop :=
  owner_ok s (w_owner st) /\
  (forall kh, In kh (w_pending st) -> pend_ok s kh) /\
  (forall o, In o (w_sealed st) -> closed_path s o).

Record ext (s s' : state) : Prop := {
  ex_act : forall j y, get_act s j = Some y ->
     exists y', get_act s' j = Some y' /\ a_path y' = a_path y /\
       (is_done (a_pc y) = true -> is_done (a_pc y') = true) /\
       (forall o, a_pc y = PWRelease o \/ a_pc y = PWWait o ->
                  a_pc y' = PWRelease o \/ a_pc y' = PWWait o \/ exec_result s o <> None);
  ex_res : forall o, exec_result s o <> None -> exec_result s' o <> None;
  ex_tab : forall k o, lookup_key (dedup s) k = Some o -> lookup_key (dedup s') k = Some o
}.

Lemma has_path_ext s s' d : ext s s' -> has_path s d -> has_path s' d.
Proof.
  intros He (i & x & Hx & Hp). destruct (ex_act _ _ He i x Hx) as (x' & Hx' & Hp' & _).
  exists i, x'. split; [exact Hx'|congruence].
Qed.

Lemma done_path_ext s s' d : ext s s' -> done_path s d -> done_path s' d.
Proof.
  intros He (i & x & Hx & Hp & Hd). destruct (ex_act _ _ He i x Hx) as (x' & Hx' & Hp' & Hd' & _).
  exists i, x'. repeat split; [exact Hx'|congruence|auto].
Qed.

Lemma closed_path_ext s s' d : ext s s' -> closed_path s d -> closed_path s' d.
Proof.
  intros He (i & x & Hx & Hp & Hr). destruct (ex_act _ _ He i x Hx) as (x' & Hx' & Hp' & _).
  exists i, x'. repeat split; [exact Hx'|congruence|]. apply (ex_res _ _ He). exact Hr.
Qed.

Lemma pend_ok_ext s s' kh : ext s s' -> pend_ok s kh -> pend_ok s' kh.
Proof.
  intros He (i & y & oi & Hy & Hp & Hl & Hq). destruct (ex_act _ _ He i y Hy) as (y' & Hy' & Hp' & _ & Hw').
  exists i, y', oi. repeat split; [exact Hy'|congruence|apply (ex_tab _ _ He); exact Hl|].
  destruct Hq as [Hq|[Hq|Hq]].
  - destruct (Hw' oi (or_introl Hq)) as [H|[H|H]]; auto. right; right. apply (ex_res _ _ He). exact H.
  - destruct (Hw' oi (or_intror Hq)) as [H|[H|H]]; auto. right; right. apply (ex_res _ _ He). exact H.
  - right; right. apply (ex_res _ _ He). exact Hq.
Qed.

Lemma owner_ok_ext s s' owners : ext s s' -> owner_ok s owners -> owner_ok s' owners.
Proof.
  intros He Ho k o Hk. destruct (Ho k o Hk) as (i & x & Hx & Hp & Hl).
  destruct (ex_act _ _ He i x Hx) as (x' & Hx' & Hp' & _).
  exists i, x'. repeat split; [exact Hx'|congruence|apply (ex_tab _ _ He); exact Hl].
Qed.

Lemma seal_ok_ext s s' st : ext s s' -> seal_ok s st -> seal_ok s' st.
Proof.
  intros He [H1 H2]. split; intros d Hd; [eapply has_path_ext|eapply done_path_ext]; eauto.
Qed.

Lemma waits_ok_ext s s' st : ext s s' -> waits_ok s st -> waits_ok s' st.
Proof.
  intros He (H1 & H2 & H3). repeat split.
  - eapply owner_ok_ext; eauto.
  - intros kh Hk. eapply pend_ok_ext; eauto.
  - intros o Ho. eapply closed_path_ext; eauto.
Qed.

Lemma exec_result_pc s o : exec_result s o <> None ->
  exists x, get_act s o = Some x /\ exists r, a_pc x = PRelease r \/ a_pc x = PDone r.
Proof.
  unfold exec_result. destruct (get_act s o) as [x|]; [|congruence]. intros H. exists x. split; [reflexivity|].
  destruct (a_pc x); try congruence; eauto.
Qed.

Lemma exec_result_of_pc s o x r : get_act s o = Some x -> a_pc x = PRelease r \/ a_pc x = PDone r -> exec_result s o <> None.
Proof. unfold exec_result. intros -> [-> | ->]; discriminate. Qed.

Lemma closed_not_loud s i x : get_act s i = Some x -> exec_result s i <> None ->
  loud (a_pc x) = false /\ waiting (a_pc x) = false.
Proof.
  intros Hx Hr. apply exec_result_pc in Hr. destruct Hr as (x0 & Hx0 & r & Hq). rewrite Hx in Hx0. injection Hx0 as <-.
  destruct Hq as [-> | ->]; split; reflexivity.
Qed.

Lemma step_ext p c s a s' : inv_tree p s -> step p c s a = Some s' -> ext s s'.
Proof.
  intros Hinv H.
  destruct (step_some_act _ _ _ _ _ H) as [xa Hxa].
  destruct (step_self p c s a s' xa H Hxa) as [xa' Hxa'].
  pose proof (step_qview p c s a s' xa xa' Hxa H Hxa') as V.
  assert (Hxnd : is_done (a_pc xa) = false).
  { destruct (a_pc xa) eqn:E; try reflexivity. rewrite (step_done_none p c s a xa r Hxa E) in H. discriminate. }
  constructor.
  - intros j y Hy. destruct (step_keep p c s a s' j y Hinv H Hy) as [y' (Hy' & Hst & _ & Hne & _)].
    apply stat_eq in Hst. destruct Hst as (Sp & _).
    exists y'. split; [exact Hy'|]. split; [exact Sp|].
    destruct (Nat.eq_dec j a) as [->|Hja].
    + rewrite Hxa in Hy. injection Hy as <-. rewrite Hxa' in Hy'. injection Hy' as <-.
      split; [congruence|]. intros o [Hq|Hq].
      * right; left. apply (qv_wrel _ _ _ _ _ _ V). exact Hq.
      * right; right. apply (qv_wwait _ _ _ _ _ _ V). exact Hq.
    + destruct (Hne Hja) as [Hq _]. rewrite Hq. split; [auto|]. intros o Ho. destruct Ho; auto.
  - intros o Hr. apply exec_result_pc in Hr. destruct Hr as (x & Hx & r & Hq).
    destruct (step_keep p c s a s' o x Hinv H Hx) as [x' (Hx' & _ & _ & Hne & _)].
    destruct (Nat.eq_dec o a) as [->|Hoa].
    + rewrite Hxa in Hx. injection Hx as <-. rewrite Hxa' in Hx'. injection Hx' as <-.
      destruct Hq as [Hq|Hq]; [|rewrite Hq in Hxnd; discriminate].
      eapply exec_result_of_pc; [exact Hxa'|]. right. apply (qv_rel _ _ _ _ _ _ V). exact Hq.
    + destruct (Hne Hoa) as [Hq' _]. eapply exec_result_of_pc; [exact Hx'|]. rewrite Hq'. exact Hq.
  - intros k o Hl. destruct (qv_dedup _ _ _ _ _ _ V) as [dnew ->]. apply lookup_key_app_some. exact Hl.
Qed.

Lemma start_root_dedup p c s k s' : start_root p c s k = Some s' -> dedup s' = dedup s.
Proof.
  intros H. unfold start_root in H.
  destruct (nth_error (cf_roots c) k) as [cl|]; [|discriminate].
  destruct (negb (precheck_ok p c) || root_started s k); [discriminate|].
  match type of H with (if ?b then _ else _) = _ => destruct b end; [|discriminate].
  injection H as <-. reflexivity.
Qed.

Lemma start_root_ext p c s k s' : start_root p c s k = Some s' -> ext s s'.
Proof.
  intros H. destruct (start_root_acts p c s k s' H) as [nr (Ha & _ & _)].
  constructor.
  - intros j y Hy. exists y. split; [eapply app_get_old; eauto|]. split; [reflexivity|]. split; [auto|].
    intros o Ho. destruct Ho; auto.
  - intros o Hr. apply exec_result_pc in Hr. destruct Hr as (x & Hx & r & Hq).
    eapply exec_result_of_pc; [eapply app_get_old; eauto|exact Hq].
  - intros k0 o Hl. rewrite (start_root_dedup p c s k s' H). exact Hl.
Qed.

(* ------------------------------------------------------------------ *)
(* one event of the stepping activation against the two monitors       *)

Definition st02_0 : st02 := {| seen := []; sealed := [] |}.
Definition stW_0 : stW := {| w_owner := []; w_pending := []; w_sealed := []; w_seen := [] |}.

Lemma seal_event p s s' st a xa e :
  uniq p (pj csof s) -> wait_par s -> get_act s a = Some xa -> ext s s' -> seal_ok s st ->
  (forall pth, ev_act e = Some pth -> pth = a_path xa /\ loud (a_pc xa) = true) ->
  exists st', step02seal st e = Some st' /\ seal_ok s' st'.
Proof.
  intros Huq Hw Hxa He [Hseen Hsealed] Hev. unfold step02seal.
  destruct (ev_act e) as [pth|] eqn:Ea.
  2:{ exists st. split; [reflexivity|]. apply (seal_ok_ext s s'); [exact He|split; assumption]. }
  destruct (Hev pth eq_refl) as [-> Hl].
  assert (Hnm : mem_aid (a_path xa) (sealed st) = false).
  { destruct (mem_aid (a_path xa) (sealed st)) eqn:Em; [|reflexivity]. exfalso.
    apply mem_aid_in in Em. destruct (Hsealed _ Em) as (i & x & Hx & Hp & Hd).
    assert (i = a) by (eapply uniq_path; eauto). subst i. rewrite Hxa in Hx. injection Hx as <-.
    rewrite (loud_not_done _ Hl) in Hd. discriminate. }
  rewrite Hnm.
  assert (Hdesc : forall d, In d (seal_descendants st (a_path xa)) -> done_path s d).
  { intros d Hd. unfold seal_descendants in Hd. apply in_app_or in Hd. destruct Hd as [Hd|Hd]; [|auto].
    apply filter_In in Hd. destruct Hd as [Hd Hsp]. destruct (Hseen d Hd) as (i & x & Hx & Hp).
    exists i, x. repeat split; auto. subst d.
    exact (below_done p s a xa i x Huq Hw Hxa (loud_not_waiting _ Hl) Hx Hsp). }
  eexists. split; [reflexivity|]. split; simpl.
  - intros d Hd. destruct (mem_aid (a_path xa) (seen st)).
    + eapply has_path_ext; eauto.
    + destruct Hd as [<-|Hd]; [|eapply has_path_ext; eauto].
      eapply has_path_ext; [exact He|]. exists a, xa. auto.
  - intros d Hd. eapply done_path_ext; [exact He|]. destruct e; simpl in Hd; auto.
Qed.

Lemma waits_reject p s (sl : list aid) a xa :
  uniq p (pj csof s) -> wait_par s -> get_act s a = Some xa -> loud (a_pc xa) = true ->
  (forall o, In o sl -> closed_path s o) ->
  existsb (fun o => prefix_of_aid o (a_path xa)) sl = false.
Proof.
  intros Huq Hw Hxa Hl Hs.
  destruct (existsb (fun o => prefix_of_aid o (a_path xa)) sl) eqn:Ee; [|reflexivity]. exfalso.
  apply existsb_exists in Ee. destruct Ee as [o [Ho Hp]].
  destruct (Hs o Ho) as (i & x & Hx & Hpx & Hr).
  destruct (closed_not_loud s i x Hx Hr) as [Hnl Hnw].
  apply prefix_cases in Hp. destruct Hp as [Heq|Hsp].
  - assert (i = a) by (eapply uniq_path; eauto; congruence). subst i.
    rewrite Hxa in Hx. injection Hx as <-. congruence.
  - subst o. pose proof (below_done p s i x a xa Huq Hw Hx Hnw Hxa Hsp) as Hd.
    rewrite (loud_not_done _ Hl) in Hd. discriminate.
Qed.

Lemma waits_moved p s s' st a xa owners :
  uniq p (pj csof s) -> wait_par s -> get_act s a = Some xa -> loud (a_pc xa) = true ->
  ext s s' -> waits_ok s st -> owner_ok s' owners ->
  waits_ok s'
    {| w_owner := owners;
       w_pending := filter (fun '(k, h) => negb (prefix_of_aid (a_path xa) h)) (w_pending st);
       w_sealed := flat_map (fun '(k, _) => match owner_of owners k with
                                            | Some o => if prefix_of_aid o (a_path xa) then [] else [o]
                                            | None => [] end)
                            (filter (fun '(k, h) => prefix_of_aid (a_path xa) h) (w_pending st)) ++ w_sealed st;
       w_seen := a_path xa :: w_seen st |}.
Proof.
  intros Huq Hw Hxa Hl He (Hown & Hpend & Hseal) Hown'. repeat split; simpl.
  - exact Hown'.
  - intros kh Hk. apply filter_In in Hk. destruct Hk as [Hk _]. eapply pend_ok_ext; eauto.
  - intros o Ho. apply in_app_or in Ho. destruct Ho as [Ho|Ho]; [|eapply closed_path_ext; eauto].
    apply in_flat_map in Ho. destruct Ho as [[k h] [Hkh Ho]].
    apply filter_In in Hkh. destruct Hkh as [Hkh Hpre].
    destruct (owner_of owners k) as [o'|] eqn:Eo; [|contradiction].
    assert (Hoo : o' = o).
    { destruct (prefix_of_aid o' (a_path xa)); [contradiction|]. destruct Ho as [Ho|[]]. exact Ho. }
    subst o'.
    destruct (Hown' k o Eo) as (i & xo & Hxo & Hpo & Hlo).
    destruct (Hpend (k, h) Hkh) as (j & y & oi & Hy & Hpy & Hly & Hq). simpl in Hpy, Hly.
    pose proof (ex_tab _ _ He k oi Hly) as Hly'. rewrite Hlo in Hly'. injection Hly' as ->.
    exists oi, xo. repeat split; auto. apply (ex_res _ _ He).
    assert (Hnotw : forall o0, a_pc y <> PWRelease o0 /\ a_pc y <> PWWait o0).
    { intros o0. apply prefix_cases in Hpre. destruct Hpre as [Heq|Hsp].
      - assert (j = a) by (eapply uniq_path; eauto; congruence). subst j.
        rewrite Hxa in Hy. injection Hy as <-.
        split; intros E; rewrite E in Hl; discriminate.
      - rewrite <- Hpy in Hsp.
        pose proof (below_done p s a xa j y Huq Hw Hxa (loud_not_waiting _ Hl) Hy Hsp) as Hd.
        split; intros E; rewrite E in Hd; discriminate. }
    destruct Hq as [Hq|[Hq|Hq]]; [destruct (Hnotw oi); contradiction|destruct (Hnotw oi); contradiction|exact Hq].
Qed.

Lemma waits_event p c s s' st a xa xa' e :
  inv_ids p c s -> uniq p (pj csof s) -> wait_par s ->
  get_act s a = Some xa -> get_act s' a = Some xa' -> a_path xa' = a_path xa ->
  ext s s' -> waits_ok s st -> qev p s s' a xa xa' e ->
  exists st', stepW p c st e = Some st' /\ waits_ok s' st'.
Proof.
  intros Hids Huq Hw Hxa Hxa' Hpp He Hok (Hact & Hskip & Hstart).
  pose proof Hok as (Hown & Hpend & Hseal).
  destruct e as [a0 t|k h|a0 i|a0 i v|a0 i|a0|a0|a0|a0 i|a0 i cd|a0 i|a0 r];
    try (destruct (Hact a0 eq_refl) as [-> Hl]; simpl;
         rewrite (waits_reject p s (w_sealed st) a xa Huq Hw Hxa Hl Hseal);
         eexists; split; [reflexivity|]; apply (waits_moved p s s' st a xa); auto).
  - (* started: the owner of its key, if any *)
    rewrite (key_of_act_get p c s a xa Hids Hxa).
    destruct (Hstart _ _ eq_refl) as [[Hk Hd]|(k & Hk & Hln & Hd)]; rewrite Hk.
    + eapply owner_ok_ext; eauto.
    + intros k' o Ho. simpl in Ho. destruct (key_eqb k' k) eqn:Ek.
      * injection Ho as <-. apply key_eqb_eq in Ek. subst k'. exists a, xa'. repeat split; auto.
        rewrite Hd, lookup_key_app, Hln. simpl. rewrite key_eqb_refl. reflexivity.
      * exact (owner_ok_ext s s' _ He Hown k' o Ho).
  - (* skipping: a new pending wait *)
    destruct (Hskip k h eq_refl) as [-> (o & Hq & Hl)]. simpl. eexists. split; [reflexivity|].
    repeat split; simpl.
    + eapply owner_ok_ext; eauto.
    + intros kh [<-|Hk]; [|eapply pend_ok_ext; eauto].
      exists a, xa', o. simpl. repeat split; auto. apply (ex_tab _ _ He). exact Hl.
    + intros o0 Ho. eapply closed_path_ext; eauto.
  - eapply owner_ok_ext; eauto.
  - eapply owner_ok_ext; eauto.
  - eapply owner_ok_ext; eauto.
  - eapply owner_ok_ext; eauto.
  - eapply owner_ok_ext; eauto.
  - eapply owner_ok_ext; eauto.
  - eapply owner_ok_ext; eauto.
  - eapply owner_ok_ext; eauto.
  - eapply owner_ok_ext; eauto.
  - (* the ghost event *)
    simpl. exists st. split; [reflexivity|]. eapply waits_ok_ext; eauto.
Qed.

(* ------------------------------------------------------------------ *)
(* the invariant                                                       *)

Record inv_quiet (p : prog) (c : cfg) (s : state) : Prop := {
  iq_fail : inv_fail p c s;
  iq_seal : exists st, mfold step02seal st02_0 (trace s) = Some st /\ seal_ok s st;
  iq_waits : exists st, mfold (stepW p c) stW_0 (trace s) = Some st /\ waits_ok s st
}.

Lemma step_inv_quiet p c s a s' : inv_quiet p c s -> step p c s a = Some s' -> inv_quiet p c s'.
Proof.
  intros [Hf [st2 [Hm2 Hok2]] [stw [Hmw Hokw]]] H.
  pose proof (step_inv_fail p c s a s' Hf H) as Hf'.
  destruct Hf as [Hids Htree Huq Hw _].
  destruct (step_some_act _ _ _ _ _ H) as [xa Hxa].
  destruct (step_self p c s a s' xa H Hxa) as [xa' Hxa'].
  pose proof (step_qview p c s a s' xa xa' Hxa H Hxa') as V.
  pose proof (step_ext p c s a s' Htree H) as He.
  assert (Hpp : a_path xa' = a_path xa).
  { destruct (ex_act _ _ He a xa Hxa) as (y' & Hy' & Hp & _). rewrite Hxa' in Hy'. injection Hy' as <-. exact Hp. }
  destruct (qv_trace _ _ _ _ _ _ V) as [Ht|[e [Ht Hev]]].
  - constructor; [exact Hf'| |]; rewrite Ht.
    + exists st2. split; [exact Hm2|eapply seal_ok_ext; eauto].
    + exists stw. split; [exact Hmw|eapply waits_ok_ext; eauto].
  - constructor; [exact Hf'| |]; rewrite Ht, mfold_app.
    + rewrite Hm2. simpl.
      destruct (seal_event p s s' st2 a xa e Huq Hw Hxa He Hok2 (proj1 Hev)) as [st' [Hs Hok']].
      rewrite Hs. exists st'. split; [reflexivity|exact Hok'].
    + rewrite Hmw. simpl.
      destruct (waits_event p c s s' stw a xa xa' e Hids Huq Hw Hxa Hxa' Hpp He Hokw Hev) as [st' [Hs Hok']].
      rewrite Hs. exists st'. split; [reflexivity|exact Hok'].
Qed.

Lemma inv_quiet_init p c : inv_quiet p c (init_state p).
Proof.
  constructor; [apply inv_fail_init| |].
  - exists st02_0. split; [reflexivity|]. split; intros d [].
  - exists stW_0. split; [reflexivity|]. repeat split.
    + intros k o Ho. discriminate.
    + intros kh [].
    + intros o [].
Qed.

Lemma start_root_inv_quiet p c s k s' : inv_quiet p c s -> start_root p c s k = Some s' -> inv_quiet p c s'.
Proof.
  intros [Hf [st2 [Hm2 Hok2]] [stw [Hmw Hokw]]] H.
  pose proof (start_root_ext p c s k s' H) as He.
  destruct (start_root_acts p c s k s' H) as [nr (_ & Ht & _)].
  constructor; [eapply start_root_inv_fail; eauto| |]; rewrite Ht.
  - exists st2. split; [exact Hm2|eapply seal_ok_ext; eauto].
  - exists stw. split; [exact Hmw|eapply waits_ok_ext; eauto].
Qed.

Lemma run_inv_quiet p c sched : inv_quiet p c (run p c sched).
Proof.
  unfold run. generalize (inv_quiet_init p c). generalize (init_state p).
  induction sched as [|ch sched IH]; intros s Hs; simpl; [exact Hs|].
  apply IH. destruct ch as [a|k]; simpl.
  - destruct (step p c s a) eqn:E; [eapply step_inv_quiet; eauto|exact Hs].
  - destruct (start_root p c s k) eqn:E; [eapply start_root_inv_quiet; eauto|exact Hs].
Qed.

(* ------------------------------------------------------------------ *)
(* the theorems                                                        *)

(* brackets: whenever an activation emits an event (the monitor exempts "started" and the probe
   arrivals, the machine needs no exemption), every strict descendant seen so far never emits again *)
Theorem seal_all_schedules p c sched : mon_C02seal (trace (run p c sched)) = true.
Proof.
  destruct (run_inv_quiet p c sched) as [_ [st [Hm _]] _].
  unfold mon_C02seal, accepts. fold st02_0. rewrite Hm. reflexivity.
Qed.

(* shared executions: after "skipping execution of task K" on behalf of activation h, nobody at or
   above h emits before the one execution of K has gone quiet for good, with everything below it *)
Theorem waits_all_schedules p c sched : mon_waits p c (trace (run p c sched)) = true.
Proof.
  destruct (run_inv_quiet p c sched) as [_ _ [st [Hm _]]].
  unfold mon_waits, accepts. fold stW_0. rewrite Hm. reflexivity.
Qed.

(* the harness cannot see EvEnd; neither monitor looks at it *)
Lemma mfold02seal_observable st tr :
  mfold step02seal st (filter observable tr) = mfold step02seal st tr.
Proof.
  revert st; induction tr as [|e tr IH]; intros st; simpl; [reflexivity|].
  destruct e; cbn [observable filter mfold];
    try (match goal with |- context [step02seal ?st ?e] => destruct (step02seal st e) end; [apply IH|reflexivity]).
  simpl. apply IH.
Qed.

Lemma mfoldW_observable p c st tr :
  mfold (stepW p c) st (filter observable tr) = mfold (stepW p c) st tr.
Proof.
  revert st; induction tr as [|e tr IH]; intros st; simpl; [reflexivity|].
  destruct e; cbn [observable filter mfold];
    try (match goal with |- context [stepW ?p ?c ?st ?e] => destruct (stepW p c st e) end; [apply IH|reflexivity]).
  simpl. apply IH.
Qed.

Theorem seal_observable p c sched : mon_C02seal (filter observable (trace (run p c sched))) = true.
Proof. unfold mon_C02seal, accepts. rewrite mfold02seal_observable. apply seal_all_schedules. Qed.

Theorem waits_observable p c sched : mon_waits p c (filter observable (trace (run p c sched))) = true.
Proof. unfold mon_waits, accepts. rewrite mfoldW_observable. apply waits_all_schedules. Qed.

(* both halves of C02 *)
Theorem C02_all_schedules p c sched : mon_C02 p c (trace (run p c sched)) = true.
Proof. unfold mon_C02. rewrite sequence_all_schedules, seal_all_schedules. reflexivity. Qed.

(* ------------------------------------------------------------------ *)
(* state-level readings, for every reachable state                     *)

(* everything strictly below an activation that is not waiting for a child has returned *)
Theorem descendants_returned p c sched i x j y :
  get_act (run p c sched) i = Some x -> waiting (a_pc x) = false ->
  get_act (run p c sched) j = Some y -> strict_prefix (a_path x) (a_path y) = true ->
  is_done (a_pc y) = true.
Proof.
  intros Hx Hnw Hy Hsp. destruct (run_inv_quiet p c sched) as [[_ _ Huq Hw _] _ _].
  exact (below_done p _ i x j y Huq Hw Hx Hnw Hy Hsp).
Qed.

(* a waiter that has stopped waiting: the owner of its key is at PRelease / PDone, and everything
   at or below the owner except the owner's ghost EvEnd is over *)
Theorem sealed_owner_closed p c sched :
  exists st, mfold (stepW p c) stW_0 (trace (run p c sched)) = Some st /\
    forall o, In o (w_sealed st) ->
      exists i x, get_act (run p c sched) i = Some x /\ a_path x = o /\ exec_result (run p c sched) i <> None /\
        forall j y, get_act (run p c sched) j = Some y -> strict_prefix o (a_path y) = true -> is_done (a_pc y) = true.
Proof.
  destruct (run_inv_quiet p c sched) as [[_ _ Huq Hw _] _ [st [Hm (_ & _ & Hs)]]].
  exists st. split; [exact Hm|]. intros o Ho. destruct (Hs o Ho) as (i & x & Hx & Hp & Hr).
  exists i, x. repeat split; auto. intros j y Hy Hsp. subst o.
  destruct (closed_not_loud _ i x Hx Hr) as [_ Hnw].
  exact (below_done p _ i x j y Huq Hw Hx Hnw Hy Hsp).
Qed.
