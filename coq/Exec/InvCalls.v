(* C02 (calls): when a command of a task is announced or starts executing, every task: call
   among the earlier commands of the task has been satisfied -- the callee's own activation printed
   "finished" / "up to date" / "not for current platform", or (run: once / when_changed) the one real
   execution of its dedup key did and the callee activation, skipped in its favour, only returned
   after that -- unless the task ignores errors (ignore_error on the task); and when the task prints
   "finished" this holds of all its task: calls.
   The monitor [mon_calls] (= [mon_C01] plus [calls_ok]) is proved to accept the trace of every
   program, configuration and schedule.

   The proof sits on top of [inv_deps] (Exec/InvDeps.v): the monitor state reached by
   [step01 true] is the one reached by [step01 false] (the two only differ in what they reject),
   so the witness clause (W) of [inv_deps] is available for the callee, and two clauses are added:
   (C1) an activation at [PCallWait i cid] waits for the activation [cid] on the child path
        [path ++ [nd + i]], for the task and variable of the call at command i;
   (C3) for an activation whose loop is at command index n (it received ROk from the callee of
        command i: n = i + 1), every call among the commands below n is satisfied in the monitor
        state, or the task ignores errors. *)
From Coq Require Import List Arith Bool Lia.
Import ListNotations.
From TV Require Import Exec.Model Exec.Monitors Exec.Facts Exec.InvSlots Exec.Proj Exec.InvPaths
  Exec.Frame Exec.InvUniq Exec.InvDedup Exec.InvPhase Exec.InvTree Exec.InvDeps.

(* ------------------------------------------------------------------ *)
(* the two monitors                                                    *)

(* what [step01 true] checks on top of [step01 false] *)
Definition chk (p : prog) (c : cfg) (st : st01) (e : event) : bool :=
  match e with
  | EvAnnounce a i | EvProbeBegin a i _ => calls_ok p c st a i
  | EvFinished a => calls_ok p c st a (length (t_cmds (get_task p (task_of p c a))))
  | _ => true
  end.

Lemma step01_true p c st e st' :
  step01 false p c st e = Some st' -> chk p c st e = true -> step01 true p c st e = Some st'.
Proof.
  destruct e; simpl; intros H Hc; rewrite ?Hc; simpl; exact H.
Qed.

Lemma step01_grows b p c st e st' : step01 b p c st e = Some st' -> grows st st'.
Proof.
  assert (Hcons : forall a ks, (forall k, mem_key k (ok_keys st) = true -> mem_key k ks = true) ->
            grows st {| ok_acts := a :: ok_acts st; ok_keys := ks |}).
  { intros a ks Hk. split; simpl; [|exact Hk]. intros b0 Hb. rewrite Hb. apply orb_true_r. }
  assert (Hk1 : forall k0 k, mem_key k (ok_keys st) = true -> mem_key k (k0 :: ok_keys st) = true).
  { intros k0 k Hk. simpl. rewrite Hk. apply orb_true_r. }
  destruct e; simpl; intros H;
    repeat match type of H with
           | (if ?b then _ else _) = _ => destruct b; [|discriminate]
           end;
    injection H as <-; try apply grows_refl; apply Hcons;
    try match goal with |- context [key_of_act ?p ?c ?a] => destruct (key_of_act p c a) end; auto.
Qed.

Lemma mfold_grows b p c evs : forall st st', mfold (step01 b p c) st evs = Some st' -> grows st st'.
Proof.
  induction evs as [|e evs IH]; simpl; intros st st' H.
  - injection H as <-. apply grows_refl.
  - destruct (step01 b p c st e) as [st1|] eqn:E; [|discriminate].
    pose proof (step01_grows _ _ _ _ _ _ E) as [G1 G2]. destruct (IH _ _ H) as [G3 G4].
    split; auto.
Qed.

(* ------------------------------------------------------------------ *)
(* vocabulary                                                          *)

(* the index the command loop of the activation has reached with every earlier call accounted for *)
Definition didx (q : pc) : option nat :=
  match q with
  | PCmd i | PRun i | PProbe i | PCallWait i _ | PCallReacq i (RErr _) => Some i
  | PCallReacq i ROk => Some (S i)
  | _ => None
  end.

(* (C3) every call among the commands below n is satisfied, unless the task ignores errors *)
Definition sat_below (p : prog) (c : cfg) (st : st01) (pth : aid) (t v : nat) (n : nat) : Prop :=
  t_ignore (get_task p t) = true \/
  forall i cl, i < n -> nth_error (t_cmds (get_task p t)) i = Some (CallC cl) ->
    dep_satisfied p c st pth v (length (t_deps (get_task p t)) + i) cl = true.

(* (C1) the activation waited for is the callee of command i *)
Definition child_at (p : prog) (L : list de) (pth : aid) (t v : nat) (i cid : nat) : Prop :=
  exists cl ye, nth_error (t_cmds (get_task p t)) i = Some (CallC cl) /\
    nth_error L cid = Some ye /\
    d_path ye = pth ++ [length (t_deps (get_task p t)) + i] /\
    d_task ye = c_task cl /\ d_var ye = eval_var v (c_var cl).

Definition cent_ok (p : prog) (c : cfg) (L : list de) (st : st01) (e : de) : Prop :=
  (forall i cid, d_pc e = PCallWait i cid -> child_at p L (d_path e) (d_task e) (d_var e) i cid) /\
  (forall n, didx (d_pc e) = Some n -> sat_below p c st (d_path e) (d_task e) (d_var e) n).

Record inv_calls (p : prog) (c : cfg) (s : state) (st : st01) : Prop := {
  ic_deps : inv_deps p c s st;
  ic_fold : mfold (step01 true p c) st0 (trace s) = Some st;
  ic_ent : forall j e, nth_error (pj dp s) j = Some e -> cent_ok p c (pj dp s) st e
}.

(* ------------------------------------------------------------------ *)
(* small facts                                                         *)

Lemma dep_satisfied_mono p c st st' pth v j d :
  grows st st' -> dep_satisfied p c st pth v j d = true -> dep_satisfied p c st' pth v j d = true.
Proof.
  intros [Ga Gk] H. unfold dep_satisfied in *. apply orb_true_iff in H. apply orb_true_iff.
  destruct H as [H|H]; [left; auto|right].
  destruct (key_of p (c_task d) (eval_var v (c_var d))); [auto|discriminate].
Qed.

Lemma sat_below_mono p c st st' pth t v n m :
  grows st st' -> m <= n -> sat_below p c st pth t v n -> sat_below p c st' pth t v m.
Proof.
  intros G Hle [H|H]; [left; exact H|right].
  intros i cl Hi Hc. eapply dep_satisfied_mono; [exact G|]. apply H; [lia|exact Hc].
Qed.

Lemma sat_below_0 p c st pth t v : sat_below p c st pth t v 0.
Proof. right. intros i cl Hi. lia. Qed.

Lemma sat_below_succ p c st pth t v n :
  sat_below p c st pth t v n ->
  (forall cl, nth_error (t_cmds (get_task p t)) n = Some (CallC cl) ->
     t_ignore (get_task p t) = true \/
     dep_satisfied p c st pth v (length (t_deps (get_task p t)) + n) cl = true) ->
  sat_below p c st pth t v (S n).
Proof.
  intros [H|H] Hn; [left; exact H|].
  unfold sat_below. destruct (t_ignore (get_task p t)) eqn:Eig; [left; reflexivity|right].
  intros i cl Hi Hc. destruct (Nat.eq_dec i n) as [->|Hne].
  - destruct (Hn cl Hc) as [Hg|Hg]; [discriminate|exact Hg].
  - apply H; [lia|exact Hc].
Qed.

(* what the monitor checks on top of the deps holds for an activation whose loop is at n *)
Lemma calls_ok_here p c s st a x n m :
  inv_calls p c s st -> get_act s a = Some x -> didx (a_pc x) = Some n -> m <= n ->
  calls_ok p c st (a_path x) m = true.
Proof.
  intros Hinv Hx Hn Hm.
  pose proof (id_ids _ _ _ _ (ic_deps _ _ _ _ Hinv)) as Hids.
  destruct (ic_ent _ _ _ _ Hinv a (dp x) (pj_nth dp _ _ _ Hx)) as [_ C3]. simpl in C3.
  specialize (C3 n Hn). unfold calls_ok.
  rewrite (task_of_get p c s a x Hids Hx), (var_of_get p c s a x Hids Hx).
  destruct C3 as [Hig|Hall]; [rewrite Hig; reflexivity|]. apply orb_true_iff. right.
  apply forall_idx_intro. intros j cm Hj. simpl. destruct cm as [ex ig|cl|ex|cl]; try reflexivity.
  destruct (Nat.leb_spec m j) as [Hle|Hlt]; [reflexivity|]. simpl. apply Hall; [lia|exact Hj].
Qed.

(* ------------------------------------------------------------------ *)
(* the move lemmas                                                     *)

Lemma calls_move p c s st s' st' a x q' rk' news evs :
  inv_calls p c s st -> inv_deps p c s' st' -> get_act s a = Some x ->
  pj dp s' = upd (pj dp s) a {| d_path := a_path x; d_task := a_task x; d_var := a_var x; d_pc := q'; d_rk := rk' |}
             ++ map dp news ->
  Forall (fun y => a_pc y = PEntry) news ->
  trace s' = trace s ++ evs ->
  Forall (fun e => chk p c st e = true) evs -> length evs <= 1 ->
  (forall i cid, q' = PCallWait i cid -> child_at p (pj dp s') (a_path x) (a_task x) (a_var x) i cid) ->
  (forall n, didx q' = Some n -> sat_below p c st (a_path x) (a_task x) (a_var x) n) ->
  inv_calls p c s' st'.
Proof.
  intros [Hd Hf He] Hd' Hx Hpj Hnews Htr Hchk Hlen L1 L2.
  pose proof (pj_nth dp _ _ _ Hx) as Hn.
  pose proof (id_fold _ _ _ _ Hd) as F. pose proof (id_fold _ _ _ _ Hd') as F'.
  rewrite Htr, mfold_app, F in F'.
  pose proof (mfold_grows _ _ _ _ _ _ F') as Hg.
  constructor; [exact Hd'| |].
  - rewrite Htr, mfold_app, Hf.
    destruct evs as [|e [|e2 evs]]; [exact F'| |simpl in Hlen; lia].
    simpl in *. destruct (step01 false p c st e) as [st1|] eqn:E; [|discriminate].
    inversion Hchk as [|? ? Hc _]; subst. rewrite (step01_true _ _ _ _ _ E Hc). exact F'.
  - intros j e Hj. rewrite Hpj in Hj. apply nth_upd_app_cases in Hj.
    destruct Hj as [[-> ->]|[[Hne Hj]|Hin]].
    + split; simpl; [assumption|].
      intros n Hq. eapply sat_below_mono; [exact Hg|apply le_n|exact (L2 n Hq)].
    + destruct (He j e Hj) as [C1 C3]. split.
      * intros i cid Hq. destruct (C1 i cid Hq) as (cl & ye & H1 & H2 & H3 & H4 & H5).
        exists cl. rewrite Hpj. rewrite (nth_upd_app_old _ a _ (map dp news) cid ye H2).
        destruct (Nat.eqb_spec a cid) as [->|Hac].
        -- rewrite Hn in H2. injection H2 as <-. simpl in *. eexists. repeat split; eauto.
        -- exists ye. repeat split; auto.
      * intros n Hq. eapply sat_below_mono; [exact Hg|apply le_n|exact (C3 n Hq)].
    + apply in_map_iff in Hin. destruct Hin as [y [<- Hy]].
      rewrite Forall_forall in Hnews. pose proof (Hnews y Hy) as Hq.
      split; simpl; rewrite Hq; intros; discriminate.
Qed.

(* the bulk of the steps: the activation does not start waiting for a callee and its loop index
   does not advance *)
Definition simple_c (q q' : pc) : bool :=
  match q' with PCallWait _ _ => false | _ => true end &&
  match didx q' with
  | None => true
  | Some n => match didx q with Some m => Nat.leb n m | None => Nat.eqb n 0 end
  end.

Lemma calls_move_simple p c s st s' st' a x q' rk' news evs :
  inv_calls p c s st -> inv_deps p c s' st' -> get_act s a = Some x ->
  pj dp s' = upd (pj dp s) a {| d_path := a_path x; d_task := a_task x; d_var := a_var x; d_pc := q'; d_rk := rk' |}
             ++ map dp news ->
  Forall (fun y => a_pc y = PEntry) news ->
  trace s' = trace s ++ evs ->
  Forall (fun e => chk p c st e = true) evs -> length evs <= 1 ->
  simple_c (a_pc x) q' = true ->
  inv_calls p c s' st'.
Proof.
  intros Hinv Hd' Hx Hpj Hnews Htr Hchk Hlen Hs.
  apply andb_true_iff in Hs. destruct Hs as [S1 S2].
  destruct (ic_ent _ _ _ _ Hinv a (dp x) (pj_nth dp _ _ _ Hx)) as [_ C3]. simpl in C3.
  eapply calls_move; eauto.
  - intros i cid ->. discriminate.
  - intros n Hq. rewrite Hq in S2. destruct (didx (a_pc x)) as [m|].
    + apply Nat.leb_le in S2. eapply sat_below_mono; [apply grows_refl|exact S2|apply C3; reflexivity].
    + apply Nat.eqb_eq in S2. subst n. apply sat_below_0.
Qed.

(* ------------------------------------------------------------------ *)
(* preservation                                                        *)

Ltac simple_c_close Hpc :=
  rewrite Hpc; unfold simple_c; simpl; rewrite ?Nat.leb_refl, ?Nat.eqb_refl; try reflexivity;
  repeat match goal with r : res |- _ => destruct r end; simpl; rewrite ?Nat.leb_refl; try reflexivity;
  apply Nat.leb_le; lia.

Ltac pj_eq2 :=
  first [ pj_eq | autorewrite with dpdb; unfold dp, pj; simpl; rewrite ?app_nil_r; reflexivity ].
Ltac tr_eq2 := first [ tr_eq | reflexivity ].
Ltac chk_close := repeat constructor.

Lemma step_inv_calls p c s st a s' :
  inv_calls p c s st -> step p c s a = Some s' -> exists st', inv_calls p c s' st'.
Proof.
  intros Hinv H.
  destruct (step_inv_deps p c s st a s' (ic_deps _ _ _ _ Hinv) H) as [st' Hd'].
  exists st'.
  destruct (get_act s a) as [x|] eqn:Hx; [|unfold step in H; rewrite Hx in H; discriminate].
  pose proof (pj_lt dp _ _ _ Hx) as Hlt.
  destruct (ic_ent _ _ _ _ Hinv a (dp x) (pj_nth dp _ _ _ Hx)) as [C1 C3]. simpl in C1, C3.
  step_cases H Hx;
    try (eapply calls_move_simple with (a := a) (news := []);
         [ exact Hinv | exact Hd' | exact Hx | pj_eq2 | constructor | tr_eq2 | chk_close | simpl; lia
         | simple_c_close Hpc ]).
  - (* fork deps *)
    apply fork_deps_spec in Heqp0. simpl in Heqp0.
    destruct Heqp0 as [news (Ha & _ & Ht & _ & _ & _ & _ & _ & _ & _ & Hf & _)].
    eapply calls_move_simple with (a := a) (news := news) (evs := []);
      [ exact Hinv | exact Hd' | exact Hx | | | | apply Forall_nil | simpl; lia | ].
    + unfold pj at 1. rewrite acts_set_act, map_upd, Ha, release_acts, map_app.
      rewrite upd_app_l by exact Hlt. reflexivity.
    + eapply Forall_impl; [|exact Hf]. intros y (H1 & _). exact H1.
    + rewrite trace_set_act, Ht, release_trace. symmetry. apply app_nil_r.
    + rewrite Hpc. reflexivity.
  - (* announce: every earlier call is satisfied *)
    simpl. eapply calls_ok_here; [exact Hinv|exact Hx|rewrite Hpc; reflexivity|apply le_n].
  - (* call: the callee is created on the child path *)
    match goal with Hc : nth_error (t_cmds _) i = Some (CallC ?cl) |- _ => rename Hc into Hcmd end.
    match goal with |- inv_calls _ _ (set_act ?S0 a ?X) _ =>
      assert (Hpj : pj dp (set_act S0 a X) = upd (pj dp s) a (dp X) ++
                [dp (new_act (a_path x ++ [length (t_deps (get_task p (a_task x))) + i]) (c_task c1)
                             (eval_var (a_var x) (c_var c1)) KCall (Some a) (a_ectx x))]) end.
    { unfold pj at 1. rewrite acts_set_act, map_upd. simpl. rewrite release_acts, map_app.
      rewrite upd_app_l by exact Hlt. reflexivity. }
    eapply calls_move with (a := a) (news := [_]) (evs := []);
      [ exact Hinv | exact Hd' | exact Hx | exact Hpj | repeat constructor | | apply Forall_nil | simpl; lia | | ].
    + rewrite trace_set_act. simpl. rewrite release_trace. symmetry. apply app_nil_r.
    + intros i0 cid Hq. injection Hq as <- <-. exists c1. eexists. split; [exact Hcmd|]. split.
      * rewrite Hpj. rewrite nth_error_app2 by (rewrite upd_length, release_acts; unfold pj; rewrite map_length; apply le_n).
        rewrite upd_length, release_acts. unfold pj. rewrite map_length, Nat.sub_diag. reflexivity.
      * simpl. repeat split; reflexivity.
    + intros n Hq. injection Hq as <-. apply C3. reflexivity.
  - (* defer: <shell> is registered *)
    eapply calls_move with (a := a) (news := []) (evs := []);
      [ exact Hinv | exact Hd' | exact Hx | pj_eq2 | constructor | tr_eq2 | apply Forall_nil | simpl; lia | | ].
    + intros i0 cid Hq. discriminate.
    + intros n Hq. injection Hq as <-. apply sat_below_succ; [apply C3; reflexivity|].
      intros cl Hc. congruence.
  - (* defer: <call> is registered *)
    eapply calls_move with (a := a) (news := []) (evs := []);
      [ exact Hinv | exact Hd' | exact Hx | pj_eq2 | constructor | tr_eq2 | apply Forall_nil | simpl; lia | | ].
    + intros i0 cid Hq. discriminate.
    + intros n Hq. injection Hq as <-. apply sat_below_succ; [apply C3; reflexivity|].
      intros cl Hc. congruence.
  - (* finished: every call is satisfied *)
    simpl. rewrite (task_of_get p c s a x (id_ids _ _ _ _ (ic_deps _ _ _ _ Hinv)) Hx).
    eapply calls_ok_here; [exact Hinv|exact Hx|rewrite Hpc; reflexivity|].
    apply nth_error_None. assumption.
  - (* the probe begins: every earlier call is satisfied *)
    simpl. eapply calls_ok_here; [exact Hinv|exact Hx|rewrite Hpc; reflexivity|apply le_n].
  - (* a shell command ends with status 0 *)
    eapply calls_move with (a := a) (news := []);
      [ exact Hinv | exact Hd' | exact Hx | pj_eq2 | constructor | tr_eq2 | chk_close | simpl; lia | | ].
    + intros i0 cid Hq. discriminate.
    + intros n0 Hq. injection Hq as <-. apply sat_below_succ; [apply C3; reflexivity|].
      intros cl Hc. congruence.
  - (* a shell command fails, ignore_error on the command *)
    eapply calls_move with (a := a) (news := []);
      [ exact Hinv | exact Hd' | exact Hx | pj_eq2 | constructor | tr_eq2 | chk_close | simpl; lia | | ].
    + intros i0 cid Hq. discriminate.
    + intros n0 Hq. injection Hq as <-. apply sat_below_succ; [apply C3; reflexivity|].
      intros cl Hc. congruence.
  - (* a shell command fails, ignore_error on the task *)
    eapply calls_move with (a := a) (news := []);
      [ exact Hinv | exact Hd' | exact Hx | pj_eq2 | constructor | tr_eq2 | chk_close | simpl; lia | | ].
    + intros i0 cid Hq. discriminate.
    + intros n1 Hq. left. assumption.
  - (* the caller learns the callee's result *)
    match goal with Hr : act_result s ?k = Some r |- _ => rename Hr into Hres end.
    eapply calls_move with (a := a) (news := []) (evs := []);
      [ exact Hinv | exact Hd' | exact Hx | pj_eq2 | constructor | tr_eq2 | apply Forall_nil | simpl; lia | | ].
    + intros i0 cid Hq. discriminate.
    + intros n Hq. destruct r as [|er]; simpl in Hq; injection Hq as <-; [|apply C3; reflexivity].
      apply sat_below_succ; [apply C3; reflexivity|]. intros cl Hc. right.
      destruct (C1 i c0 eq_refl) as (cl' & ye & H1 & H2 & H3 & H4 & H5).
      assert (cl' = cl) by congruence. subst cl'.
      apply act_result_done in Hres. destruct Hres as [y [Hy Hqy]].
      rewrite (pj_nth dp _ _ _ Hy) in H2. injection H2 as <-. simpl in H3, H4, H5.
      destruct (id_ent _ _ _ _ (ic_deps _ _ _ _ Hinv) c0 (dp y) (pj_nth dp _ _ _ Hy)) as (W & _).
      simpl in W. rewrite Hqy in W. specialize (W eq_refl). unfold dep_satisfied.
      destruct W as [W|[k0 [Hk0 Hm]]]; simpl in *.
      * rewrite H3 in W. rewrite W. reflexivity.
      * rewrite H4, H5 in Hk0. rewrite Hk0, Hm. apply orb_true_r.
  - (* the callee failed with an exit status, ignore_error on the task *)
    eapply calls_move with (a := a) (news := []) (evs := []);
      [ exact Hinv | exact Hd' | exact Hx | pj_eq2 | constructor | tr_eq2 | apply Forall_nil | simpl; lia | | ].
    + intros i0 cid Hq. discriminate.
    + intros n1 Hq. left. assumption.
  - (* deferred call *)
    eapply calls_move_simple with (a := a) (news := [_]) (evs := []);
      [ exact Hinv | exact Hd' | exact Hx | | | | apply Forall_nil | simpl; lia | ].
    + unfold pj at 1. rewrite acts_set_act, map_upd. simpl. rewrite release_acts, map_app.
      rewrite upd_app_l by exact Hlt. reflexivity.
    + repeat constructor.
    + rewrite trace_set_act. simpl. rewrite release_trace. symmetry. apply app_nil_r.
    + rewrite Hpc. destruct r; reflexivity.
Qed.

Lemma inv_calls_init p c : inv_calls p c (init_state p) st0.
Proof.
  constructor.
  - apply inv_deps_init.
  - reflexivity.
  - intros j e H. unfold pj in H. simpl in H. destruct j; discriminate.
Qed.

Lemma start_root_inv_calls p c s st k s' :
  inv_calls p c s st -> start_root p c s k = Some s' -> inv_calls p c s' st.
Proof.
  intros [Hd Hf He] H.
  pose proof (start_root_inv_deps p c s st k s' Hd H) as Hd'.
  constructor; [exact Hd'| |]; unfold start_root in H;
    (destruct (nth_error (cf_roots c) k) as [cl|]; [|discriminate]);
    (destruct (negb (precheck_ok p c) || root_started s k); [discriminate|]);
    (match type of H with (if ?b then _ else _) = _ => destruct b end; [|discriminate]);
    injection H as <-; unfold add_act; simpl.
  - exact Hf.
  - intros j e Hj. unfold pj in Hj |- *. simpl in Hj |- *. rewrite map_app in Hj |- *. fold (pj dp s) in Hj |- *.
    destruct (Nat.lt_ge_cases j (length (pj dp s))) as [Hlt|Hge].
    + rewrite nth_error_app1 in Hj by exact Hlt. destruct (He j e Hj) as [C1 C3]. split; [|exact C3].
      intros i cid Hq. destruct (C1 i cid Hq) as (cl0 & ye & H1 & H2 & H3).
      exists cl0, ye. split; [exact H1|]. split; [|exact H3].
      rewrite nth_error_app1; [exact H2|]. apply nth_error_Some. rewrite H2. discriminate.
    + rewrite nth_error_app2 in Hj by exact Hge.
      destruct (j - length (pj dp s)) as [|n]; simpl in Hj; [|destruct n; discriminate].
      injection Hj as <-. split; simpl; intros; discriminate.
Qed.

Lemma run_inv_calls p c sched : exists st, inv_calls p c (run p c sched) st.
Proof.
  unfold run.
  assert (G : exists st, inv_calls p c (init_state p) st) by (exists st0; apply inv_calls_init).
  revert G. generalize (init_state p).
  induction sched as [|ch sched IH]; intros s Hs; simpl; [exact Hs|].
  apply IH. destruct Hs as [st Hs]. destruct ch as [a|k]; simpl.
  - destruct (step p c s a) eqn:E; [eapply step_inv_calls; eauto|exists st; exact Hs].
  - destruct (start_root p c s k) eqn:E; [exists st; eapply start_root_inv_calls; eauto|exists st; exact Hs].
Qed.

(* ------------------------------------------------------------------ *)
(* C02 (calls) *)

(* for every program, configuration and schedule: whenever a command of an activation is announced
   or its probe begins, every dep of its task is satisfied and so is every task: call among the
   earlier commands of its task (unless the task has ignore_error), and when an activation prints
   "finished" so is every task: call among its commands -- "satisfied": the callee's own
   activation printed "finished" / "up to date" / "not for current platform" before, or the one
   execution of the callee's dedup key printed "finished" / "up to date" before *)
Theorem calls_monitor_all_schedules p c sched : mon_calls p c (trace (run p c sched)) = true.
Proof.
  destruct (run_inv_calls p c sched) as [st Hinv]. unfold mon_calls, accepts.
  fold st0. rewrite (ic_fold _ _ _ _ Hinv). reflexivity.
Qed.

Theorem calls_monitor_observable p c sched : mon_calls p c (filter observable (trace (run p c sched))) = true.
Proof. unfold mon_calls, accepts. rewrite mfold01_observable. apply calls_monitor_all_schedules. Qed.

(* state-level reading of the invariant: the callee an activation waits for at command i is the
   activation on the child path, running the called task with the variable passed *)
Theorem call_waits_for_callee p c sched a x i cid :
  get_act (run p c sched) a = Some x -> a_pc x = PCallWait i cid ->
  exists cl y, nth_error (t_cmds (get_task p (a_task x))) i = Some (CallC cl) /\
    get_act (run p c sched) cid = Some y /\
    a_path y = a_path x ++ [length (t_deps (get_task p (a_task x))) + i] /\
    a_task y = c_task cl /\ a_var y = eval_var (a_var x) (c_var cl).
Proof.
  intros Hx Hq. destruct (run_inv_calls p c sched) as [st Hinv].
  destruct (ic_ent _ _ _ _ Hinv a (dp x) (pj_nth dp _ _ _ Hx)) as [C1 _]. simpl in C1.
  destruct (C1 i cid Hq) as (cl & ye & H1 & H2 & H3 & H4 & H5).
  destruct (pj_nth_inv dp _ _ _ H2) as [y [Hy ->]]. exists cl, y. repeat split; assumption.
Qed.

(* ... and an activation whose command loop has reached index n (in particular one that is
   announcing or running command n, or printing "finished" with n past the last command) has every
   call among the commands below n satisfied in the monitor state reached on the trace so far,
   unless its task ignores errors *)
Theorem calls_below_satisfied p c sched a x n :
  get_act (run p c sched) a = Some x -> didx (a_pc x) = Some n ->
  exists st, mfold (step01 true p c) st0 (trace (run p c sched)) = Some st /\
    (t_ignore (get_task p (a_task x)) = true \/
     forall i cl, i < n -> nth_error (t_cmds (get_task p (a_task x))) i = Some (CallC cl) ->
       dep_satisfied p c st (a_path x) (a_var x) (length (t_deps (get_task p (a_task x))) + i) cl = true).
Proof.
  intros Hx Hq. destruct (run_inv_calls p c sched) as [st Hinv]. exists st.
  split; [exact (ic_fold _ _ _ _ Hinv)|].
  destruct (ic_ent _ _ _ _ Hinv a (dp x) (pj_nth dp _ _ _ Hx)) as [_ C3]. exact (C3 n Hq).
Qed.
