(* Shape of the Go source the executor model hard-wires, compared with the facts the
   extractor reads from task.go / hash.go on every run. *)
From Coq Require Import List String Bool Arith.
Import ListNotations.
From TV Require Import Exec.Model Extracted.Facts.
Local Open Scope string_scope.

(* order of the stages of RunTask (first occurrence of each anchor call; "fp:" = inside the
   block that --force skips).  The step function of Exec/Model.v follows this pipeline:
   PEntry (platform, required, enum, call counter) -> PAcquire -> PDedup -> PDepsFork/Join ->
   PBlock (ctx check [fp], preconditions, up-to-date check [fp]) -> PPrompt -> PCmd ... *)
Definition expected_stages : list string :=
  ["FastCompiledTask"; "shouldRunOnCurrentPlatform"; "areTaskRequiredVarsSet"; "CompiledTask";
   "areTaskRequiredVarsAllowedValuesSet"; "AddInt32"; "acquireConcurrencyLimit"; "startExecution";
   "runDeps"; "fp:Err"; "areTaskPreconditionsMet"; "fp:IsTaskUpToDate"; "Prompt"; "mkdir";
   "runDeferred"; "runCommand"].

Definition expected_hash_switch : list string :=
  ["always=hash.Empty"; "once=hash.Name"; "when_changed=hash.Hash"].

Fixpoint index_of (x : string) (l : list string) : option nat :=
  match l with
  | [] => None
  | y :: r => if String.eqb x y then Some 0 else option_map S (index_of x r)
  end.

Definition before (x y : string) (l : list string) : bool :=
  match index_of x l, index_of y l with
  | Some i, Some j => Nat.ltb i j
  | _, _ => false
  end.

Fixpoint strs_eqb (a b : list string) : bool :=
  match a, b with
  | [], [] => true
  | x :: a', y :: b' => String.eqb x y && strs_eqb a' b'
  | _, _ => false
  end.

(* everything the executor theorems rely on, as one boolean over the extracted facts *)
Definition exec_shape_ok : bool :=
  strs_eqb runtask_stages expected_stages &&
  strs_eqb gethash_switch expected_hash_switch &&
  dedup_waits_completion && dedup_returns_error && deps_error_wrapped && deferred_call_templated &&
  Nat.eqb maximum_task_call 1000.

(* order facts of the expected pipeline used by the property files *)
Lemma deps_before_cmds : before "runDeps" "runCommand" expected_stages = true. Proof. reflexivity. Qed.
Lemma guards_before_execution :
  before "shouldRunOnCurrentPlatform" "startExecution" expected_stages &&
  before "areTaskRequiredVarsSet" "startExecution" expected_stages &&
  before "areTaskRequiredVarsAllowedValuesSet" "startExecution" expected_stages &&
  before "areTaskPreconditionsMet" "runCommand" expected_stages &&
  before "Prompt" "runCommand" expected_stages = true.
Proof. reflexivity. Qed.
Lemma preconditions_not_skipped_by_force : In "areTaskPreconditionsMet" expected_stages.
Proof. simpl. tauto. Qed.
Lemma slot_before_execution : before "acquireConcurrencyLimit" "startExecution" expected_stages = true.
Proof. reflexivity. Qed.
