(* C13 (status): the exit class when a guard stops the invocation.  For every program, configuration
   and schedule and every completed run in which no non-ignored failing command ended, an error Run
   reports is one the program and the flags allow (mon_C13_status of Exec/Monitors.v).

   - [step_origin]: where the error value an activation holds after a step comes from: it held it
     before, it wrapped it (wrap_cmd_error / wrap_deps_error), it read it from its callee or from the
     shared execution it was skipped for, or it is born in this step ([prim]: a guard of the task,
     the call counter, a cancelled context, a failing command);
   - [err_static] / [run_inv_static]: every error value held anywhere is of a class the program and
     flags allow (206/207/205 only if some task has such a guard, 204 only if the call counter can
     trip, a precondition error only if some precondition fails or --force/--force-all is given);
   - [cx2]: more structure of the contexts (callees run under the caller's execution context, the
     parent pointers of execution and group contexts, why a context is cancelled);
   - [qinv] / [rct]: as long as nobody is skipped in favour of a shared execution, an activation that
     holds an error only a cancellation produces ("context canceled", a precondition failing under a
     cancelled context) sits below a context that was cancelled because an errgroup - or Run - had
     already recorded an error; hence such an error never is the first at an errgroup above it, and
     never Run's error;
   - exit statuses and ETaskRun None: Exec/InvFail.v ([run_inv_nx]), Exec/InvStatus.v ([run_clean]).

   [guard_status_precond_refuted]: the first version of the monitor's precondition clause (some
   precondition of the program fails) was too strong; with --force-all
   a precondition fails under a cancelled context and a skipped caller can carry that error to the top.
   [root_guard_result]: a command-line task that fails its own entry guard makes Run return exactly
   guard_code. *)
From Coq Require Import List Arith Bool Lia.
Import ListNotations.
From TV Require Import Exec.Model Exec.Monitors Exec.Facts Exec.InvSlots Exec.Proj Exec.InvPaths Exec.Frame
  Exec.InvUniq Exec.InvPhase Exec.InvTree Exec.InvDedup Exec.Progress Exec.InvDefer Exec.InvFail
  Exec.InvDeps Exec.InvCalls Exec.InvStatus.

(* ------------------------------------------------------------------ *)
(* where error values come from *)

(* the error value a program point holds *)
Definition holds (q : pc) : option err :=
  match q with
  | PFail e => Some e
  | PWReacq (RErr e) | PCallReacq _ (RErr e) | PDefers (RErr e) | PDRun (RErr e) _ | PDProbe (RErr e) _
  | PDCallWait (RErr e) _ | PDCallReacq (RErr e) | PEnd (RErr e) | PRelease (RErr e) | PDone (RErr e) => Some e
  | _ => None
  end.

(* where an error value is born *)
Definition prim (p : prog) (c : cfg) (s s' : state) (x : act) (e : err) : Prop :=
  let g := t_g (get_task p (a_task x)) in
  match e with
  | ECode cd =>
      (a_pc x = PEntry /\ ((cd = 206 /\ g_required g = false) \/ (cd = 207 /\ g_enum g = false) \/
                           (cd = 204 /\ callcount_trips c s x))) \/
      (a_pc x = PPrompt /\ cd = 205 /\ g_prompt g = true /\ cf_yes c = false)
  | ECancel => cancelled s (a_ectx x) = true /\ fin (a_pc x) = false
  | EPrecond => a_pc x = PBlock /\
                (g_precond g = Some false \/
                 (cancelled s (a_ectx x) = true /\ (cf_forceall c || negb (indirect x) && cf_force c) = true))
  | EExit n => exists i, a_pc x = PProbe i /\ fail_tk (get_task p (a_task x)) i = true /\
                         trace s' = trace s ++ [EvProbeEnd (a_path x) i]
  | ETaskRun _ => False
  end.

Definition origin (p : prog) (c : cfg) (s s' : state) (x : act) (e : err) : Prop :=
  holds (a_pc x) = Some e \/
  (exists e0, a_pc x = PFail e0 /\ e = wrap_cmd_error x e0) \/
  (a_pc x = PDepsReacq /\ exists e0, a_gerr x = Some e0 /\ e = wrap_deps_error x e0) \/
  (exists i k, a_pc x = PCallWait i k /\ act_result s k = Some (RErr e)) \/
  (exists o, a_pc x = PWWait o /\ exec_result s o = Some (RErr e)) \/
  prim p c s s' x e.

Lemma step_origin p c s a s' x x' :
  get_act s a = Some x -> step p c s a = Some s' -> get_act s' a = Some x' ->
  forall e, holds (a_pc x') = Some e -> origin p c s s' x e.
Proof.
  intros Hx H Hx'.
  pose proof (pj_lt noG _ _ _ Hx) as Hlt.
  step_cases H Hx;
  try (match goal with _ : get_act ?S' a = Some x' |- _ =>
           let E := fresh "E" in
           eassert (E : pj noG S' = upd (pj noG s) a _ ++ []);
           [autorewrite with ngdb; simpl; autorewrite with ngdb; rewrite ?app_nil_r; reflexivity|];
           let Hn := fresh "Hn" in
           pose proof (noG_at _ _ _ _ _ _ E Hlt Hx') as Hn; clear E;
           apply noG_fields in Hn; destruct Hn as (_ & _ & _ & _ & _ & Hq & _); simpl in Hq;
           rewrite Hq; unfold origin; rewrite ?Hpc;
           first [ solve [ simpl; intros e0 He0; try discriminate;
                           try (repeat match goal with r : res |- _ => destruct r end; simpl in He0; try discriminate);
                           inversion He0; subst;
                           first [ left; reflexivity
                                 | right; left; eexists; split; reflexivity
                                 | right; right; left; split; [reflexivity|eexists; split; [eassumption|reflexivity]]
                                 | right; right; right; left; do 2 eexists; split; [reflexivity|eassumption]
                                 | right; right; right; right; left; eexists; split; [reflexivity|eassumption]
                                 | right; right; right; right; right; unfold prim; simpl; rewrite ?Hpc;
                                   repeat match goal with Hb : negb _ = true |- _ => apply negb_true_iff in Hb end;
                                   repeat match goal with Hb : negb _ = false |- _ => apply negb_false_iff in Hb end;
                                   repeat match goal with Hb : _ && _ = true |- _ => apply andb_true_iff in Hb; destruct Hb end;
                                   repeat match goal with Hb : negb _ = true |- _ => apply negb_true_iff in Hb end;
                                   first [ left; split; [reflexivity|]; first [left; split; [reflexivity|assumption]
                                                                               | right; left; split; [reflexivity|assumption]
                                                                               | right; right; split; [reflexivity|split; assumption] ]
                                         | right; repeat split; assumption
                                         | split; [assumption|reflexivity]
                                         | split; [reflexivity|];
                                           match goal with Ho : g_precond _ = Some ?b |- _ => destruct b end;
                                           [right|left; assumption];
                                           destruct (cancelled s (a_ectx x)), (cf_forceall c), (cf_force c), (indirect x);
                                           simpl in *; try discriminate; auto
                                         | eexists; split; [reflexivity|]; split;
                                           [ unfold fail_tk;
                                             repeat match goal with Hm : nth_error _ _ = Some _ |- _ => rewrite Hm end;
                                             repeat match goal with Hm : t_ignore _ = _ |- _ => rewrite Hm end; reflexivity
                                           | autorewrite with sigdb; simpl; reflexivity ] ] ] ]
                 | fail ]
           end).
  - (* fork deps *)
    pose proof Heqp0 as Hfd. apply fork_deps_spec in Hfd. simpl in Hfd. destruct Hfd as [news (Ha & _)].
    assert (E : pj noG (set_act s0 a (set_kids (set_holds (set_pc x PDepsJoin) false) l (length (ctxs (release c s)))))
                = upd (pj noG s) a (noG (set_kids (set_holds (set_pc x PDepsJoin) false) l (length (ctxs (release c s))))) ++ map noG news).
    { unfold pj at 1. rewrite acts_set_act, map_upd, Ha, release_acts, map_app. rewrite upd_app_l by exact Hlt. reflexivity. }
    pose proof (noG_at _ _ _ _ _ _ E Hlt Hx') as Hn.
    apply noG_fields in Hn; destruct Hn as (_ & _ & _ & _ & _ & Hq & _); simpl in Hq.
    rewrite Hq. intros e He. discriminate.
  - (* call *)
    match goal with _ : get_act (set_act ?S0 a ?X) a = Some x' |- _ =>
      assert (E : pj noG (set_act S0 a X) = upd (pj noG s) a (noG X) ++ [noG (new_act (a_path x ++ [length (t_deps (get_task p (a_task x))) + i]) (c_task c1) (eval_var (a_var x) (c_var c1)) KCall (Some a) (a_ectx x))]) end.
    { unfold pj at 1. rewrite acts_set_act, map_upd. simpl. rewrite release_acts, map_app. rewrite upd_app_l by exact Hlt. reflexivity. }
    pose proof (noG_at _ _ _ _ _ _ E Hlt Hx') as Hn.
    apply noG_fields in Hn; destruct Hn as (_ & _ & _ & _ & _ & Hq & _); simpl in Hq.
    rewrite Hq. intros e He. discriminate.
  - (* deferred call *)
    match goal with _ : get_act (set_act ?S0 a ?X) a = Some x' |- _ =>
      assert (E : pj noG (set_act S0 a X) = upd (pj noG s) a (noG X) ++ [noG (new_act (a_path x ++ [length (t_deps (get_task p (a_task x))) + n]) (c_task c1) (eval_var (a_var x) (c_var c1)) KDefer (Some a) background_ctx)]) end.
    { unfold pj at 1. rewrite acts_set_act, map_upd. simpl. rewrite release_acts, map_app. rewrite upd_app_l by exact Hlt. reflexivity. }
    pose proof (noG_at _ _ _ _ _ _ E Hlt Hx') as Hn.
    apply noG_fields in Hn; destruct Hn as (_ & _ & _ & _ & _ & Hq & _); simpl in Hq.
    rewrite Hq. intros e He. left. rewrite Hpc. destruct r; [discriminate|exact He].
Qed.

(* an activation does not go back before its fork *)
Lemma step_prefork p c s a s' x x' :
  get_act s a = Some x -> step p c s a = Some s' -> get_act s' a = Some x' ->
  pre_fork (a_pc x') = true -> pre_fork (a_pc x) = true.
Proof.
  intros Hx H Hx'.
  pose proof (vw_new _ _ _ _ _ (step_view p c s a s' x x' Hx H Hx')) as Hnew.
  pose proof (pj_lt noG _ _ _ Hx) as Hlt.
  step_cases H Hx;
  try (match goal with _ : get_act ?S' a = Some x' |- _ =>
           let E := fresh "E" in
           eassert (E : pj noG S' = upd (pj noG s) a _ ++ []);
           [autorewrite with ngdb; simpl; autorewrite with ngdb; rewrite ?app_nil_r; reflexivity|];
           let Hn := fresh "Hn" in
           pose proof (noG_at _ _ _ _ _ _ E Hlt Hx') as Hn; clear E;
           apply noG_fields in Hn; destruct Hn as (_ & _ & _ & _ & _ & Hq & _); simpl in Hq;
           rewrite Hq; simpl; intros; try discriminate; reflexivity
           end).
  - (* fork: the successor is at the join *)
    pose proof Heqp0 as Hfd. apply fork_deps_spec in Hfd. simpl in Hfd. destruct Hfd as [news (Ha & _)].
    assert (E : pj noG (set_act s0 a (set_kids (set_holds (set_pc x PDepsJoin) false) l (length (ctxs (release c s)))))
                = upd (pj noG s) a (noG (set_kids (set_holds (set_pc x PDepsJoin) false) l (length (ctxs (release c s))))) ++ map noG news).
    { unfold pj at 1. rewrite acts_set_act, map_upd, Ha, release_acts, map_app. rewrite upd_app_l by exact Hlt. reflexivity. }
    pose proof (noG_at _ _ _ _ _ _ E Hlt Hx') as Hn.
    apply noG_fields in Hn; destruct Hn as (_ & _ & _ & _ & _ & Hq & _); simpl in Hq. rewrite Hq. discriminate.
  - match goal with _ : get_act (set_act ?S0 a ?X) a = Some x' |- _ =>
      assert (E : pj noG (set_act S0 a X) = upd (pj noG s) a (noG X) ++ [noG (new_act (a_path x ++ [length (t_deps (get_task p (a_task x))) + i]) (c_task c1) (eval_var (a_var x) (c_var c1)) KCall (Some a) (a_ectx x))]) end.
    { unfold pj at 1. rewrite acts_set_act, map_upd. simpl. rewrite release_acts, map_app. rewrite upd_app_l by exact Hlt. reflexivity. }
    pose proof (noG_at _ _ _ _ _ _ E Hlt Hx') as Hn.
    apply noG_fields in Hn; destruct Hn as (_ & _ & _ & _ & _ & Hq & _); simpl in Hq. rewrite Hq. discriminate.
  - match goal with _ : get_act (set_act ?S0 a ?X) a = Some x' |- _ =>
      assert (E : pj noG (set_act S0 a X) = upd (pj noG s) a (noG X) ++ [noG (new_act (a_path x ++ [length (t_deps (get_task p (a_task x))) + n]) (c_task c1) (eval_var (a_var x) (c_var c1)) KDefer (Some a) background_ctx)]) end.
    { unfold pj at 1. rewrite acts_set_act, map_upd. simpl. rewrite release_acts, map_app. rewrite upd_app_l by exact Hlt. reflexivity. }
    pose proof (noG_at _ _ _ _ _ _ E Hlt Hx') as Hn.
    apply noG_fields in Hn; destruct Hn as (_ & _ & _ & _ & _ & Hq & _); simpl in Hq. rewrite Hq. discriminate.
Qed.

(* ------------------------------------------------------------------ *)
(* error values the program and flags allow *)

Lemma pc_P_holds P q : pc_P P q = true <-> (forall e, holds q = Some e -> P e = true).
Proof.
  destruct q; simpl; try (destruct r; simpl);
    (split; [intros H e0 E; try discriminate; injection E as <-; exact H|intros H; try reflexivity; apply H; reflexivity]).
Qed.

Lemma exec_result_holds s o e : exec_result s o = Some (RErr e) ->
  exists y, get_act s o = Some y /\ holds (a_pc y) = Some e.
Proof.
  unfold exec_result. destruct (get_act s o) as [y|]; [|discriminate].
  intros H. exists y. split; [reflexivity|]. destruct (a_pc y); try discriminate; injection H as ->; reflexivity.
Qed.

Lemma act_result_holds s o e : act_result s o = Some (RErr e) ->
  exists y, get_act s o = Some y /\ holds (a_pc y) = Some e.
Proof. intros H. apply exec_result_holds. apply act_exec_result. exact H. Qed.

(* a task with a given guard property is a task of the program *)
Lemma task_in_prog p t (f : task -> bool) : f dummy_task = false -> f (get_task p t) = true -> existsb f p = true.
Proof.
  intros Hd H. unfold get_task in H. destruct (nth_in_or_default t p dummy_task) as [Hin|Hdef].
  - apply existsb_exists. eexists. split; [exact Hin|exact H].
  - rewrite Hdef in H. congruence.
Qed.

Section Codes.
  Variables (p : prog) (c : cfg).

  Definition ex_req : bool := existsb (fun tk => negb (g_required (t_g tk))) p.
  Definition ex_enum : bool := existsb (fun tk => negb (g_enum (t_g tk))) p.
  Definition ex_prompt : bool := existsb (fun tk => g_prompt (t_g tk)) p && negb (cf_yes c).
  Definition ex_prefalse : bool := existsb (fun tk => match g_precond (t_g tk) with Some false => true | _ => false end) p.

  (* error values the machine can hold at all *)
  Definition err_static (e : err) : bool :=
    match e with
    | ECode cd => Nat.eqb cd 206 && ex_req || Nat.eqb cd 207 && ex_enum || Nat.eqb cd 205 && ex_prompt ||
                  Nat.eqb cd 204 && callcount_possible p c
    | EPrecond => ex_prefalse || cf_force c || cf_forceall c
    | _ => true
    end.

  Lemma static_wrapc x e : err_static e = true -> err_static (wrap_cmd_error x e) = true.
  Proof. unfold wrap_cmd_error. destruct (indirect x); auto. Qed.
  Lemma static_wrapd x e : err_static e = true -> err_static (wrap_deps_error x e) = true.
  Proof. unfold wrap_deps_error. destruct (indirect x); auto. destruct e; simpl; auto. Qed.

  Lemma static_prim s s' x e :
    (callcount_possible p c = false -> ~ callcount_trips c s x) -> prim p c s s' x e -> err_static e = true.
  Proof.
    intros Hcc Hp. destruct e as [n|o| | |cd]; simpl in *; try reflexivity; try contradiction.
    - destruct Hp as [_ [Hp|[_ Hf]]].
      + unfold ex_prefalse.
        rewrite (task_in_prog p (a_task x) (fun tk => match g_precond (t_g tk) with Some false => true | _ => false end) eq_refl);
          [reflexivity|rewrite Hp; reflexivity].
      + destruct (cf_forceall c), (cf_force c), (indirect x); simpl in Hf; try discriminate; rewrite ?orb_true_r; reflexivity.
    - destruct Hp as [[_ [[-> Hr]|[[-> He]|[-> Ht]]]]|(_ & -> & Hpr & Hy)].
      + assert (E : ex_req = true) by (apply (task_in_prog p (a_task x) (fun tk => negb (g_required (t_g tk))) eq_refl); rewrite Hr; reflexivity).
        rewrite E. reflexivity.
      + assert (E : ex_enum = true) by (apply (task_in_prog p (a_task x) (fun tk => negb (g_enum (t_g tk))) eq_refl); rewrite He; reflexivity).
        rewrite E. change (Nat.eqb 207 206) with false. change (Nat.eqb 207 207) with true. simpl. reflexivity.
      + destruct (callcount_possible p c) eqn:Ec; [|exfalso; exact (Hcc eq_refl Ht)].
        change (Nat.eqb 204 206) with false. change (Nat.eqb 204 207) with false. change (Nat.eqb 204 205) with false.
        change (Nat.eqb 204 204) with true. simpl. reflexivity.
      + assert (E : ex_prompt = true).
        { unfold ex_prompt. rewrite Hy. simpl. rewrite andb_true_r.
          apply (task_in_prog p (a_task x) (fun tk => g_prompt (t_g tk)) eq_refl). exact Hpr. }
        rewrite E. change (Nat.eqb 205 206) with false. change (Nat.eqb 205 207) with false. change (Nat.eqb 205 205) with true.
        simpl. reflexivity.
  Qed.

  (* every error value held anywhere in the machine is one the program and flags allow *)
  Lemma step_inv_static s a s' :
    inv_tree p s -> (callcount_possible p c = false -> callcount_safe c s) ->
    inv_P err_static s -> step p c s a = Some s' -> inv_P err_static s'.
  Proof.
    intros Htree Hcc Hinv H.
    destruct (step_some_act _ _ _ _ _ H) as [x Hx]. destruct (step_self p c s a s' x H Hx) as [x' Hx'].
    apply (step_inv_P err_static p c s a s' x' Htree Hinv H Hx').
    apply pc_P_holds. intros e He.
    destruct (step_origin p c s a s' x x' Hx H Hx' e He) as [Hk|[(e0 & Hq & ->)|[(Hq & e0 & Hg & ->)|[(i & k & Hq & Hr)|[(o & Hq & Hr)|Hp]]]]].
    - exact (proj1 (pc_P_holds _ _) (ip_pc _ _ Hinv a x Hx) e Hk).
    - apply static_wrapc. apply (proj1 (pc_P_holds _ _) (ip_pc _ _ Hinv a x Hx)). rewrite Hq. reflexivity.
    - apply static_wrapd. exact (ip_gerr _ _ Hinv a x e0 Hx Hg).
    - destruct (act_result_holds s k e Hr) as [y [Hy Hh]]. exact (proj1 (pc_P_holds _ _) (ip_pc _ _ Hinv k y Hy) e Hh).
    - destruct (exec_result_holds s o e Hr) as [y [Hy Hh]]. exact (proj1 (pc_P_holds _ _) (ip_pc _ _ Hinv o y Hy) e Hh).
    - eapply static_prim; [|exact Hp]. intros Ec. exact (Hcc Ec a x Hx).
  Qed.
End Codes.

Lemma run_inv_static p c sched : inv_P (err_static p c) (run p c sched).
Proof.
  induction sched as [|ch sched IH] using rev_ind; [apply inv_P_init|].
  rewrite run_snoc. destruct (run_inv_tree p c sched) as [Ht Hu]. destruct ch as [a|k]; simpl.
  - destruct (step p c (run p c sched) a) eqn:E; [|exact IH].
    eapply step_inv_static; eauto. intros Ec. apply run_callcount_safe. exact Ec.
  - destruct (start_root p c (run p c sched) k) eqn:E; [|exact IH]. eapply start_root_inv_P; eauto.
Qed.

(* ------------------------------------------------------------------ *)
(* contexts cancelled because of an error *)

(* a context cancelled because of an error: the group context of an activation whose errgroup
   recorded an error, or Run's context once Run recorded one *)
Definition errflag (s : state) (k : nat) : Prop :=
  (exists j z, get_act s j = Some z /\ a_gerr z <> None /\ k = a_gctx z /\ a_gctx z <> a_ctx z) \/
  (k = root_ctx /\ rungerr s <> None).

Record cx2 (s : state) : Prop := {
  x_call : forall j y pa px, get_act s j = Some y -> a_kind y = KCall -> a_parent y = Some pa ->
           get_act s pa = Some px -> a_ctx y = a_ectx px;
  x_root : forall j y, get_act s j = Some y -> a_kind y = KRoot -> a_ctx y = root_ctx;
  x_epar : forall j z, get_act s j = Some z -> a_ectx z <> a_ctx z ->
           nth_error (parents s) (a_ectx z) = Some (Some (a_ctx z));
  x_gpar : forall j z, get_act s j = Some z -> a_gctx z <> a_ctx z ->
           nth_error (parents s) (a_gctx z) = Some (Some (a_ectx z));
  x_eg : forall j z, get_act s j = Some z -> a_gctx z <> a_ctx z -> a_gctx z <> a_ectx z;
  x_pre : forall j z, get_act s j = Some z -> pre_fork (a_pc z) = true -> a_gctx z = a_ctx z;
  x_ow : forall k, flagged s k ->
         errflag s k \/ exists j o, get_act s j = Some o /\ fin (a_pc o) = true /\ a_ectx o <> a_ctx o /\ k = a_ectx o
}.

Lemma errflag_step p c s a s' k :
  inv_tree p s -> cx2 s -> step p c s a = Some s' -> errflag s k -> errflag s' k.
Proof.
  intros Htree Hx2 H [(j & z & Hz & Hg & Hk & Hne)|[Hk Hr]].
  - left. destruct (step_keep p c s a s' j z Htree H Hz) as [z' (Hz' & _ & Hgs & _)].
    destruct (step_some_act _ _ _ _ _ H) as [x Hx]. destruct (step_self p c s a s' x H Hx) as [x' Hx'].
    assert (Hself : a_parent x <> Some a).
    { intros E. pose proof (it_par _ _ Htree a x a Hx E). lia. }
    exists j, z'. split; [exact Hz'|].
    assert (Hf : a_gctx z' = a_gctx z /\ a_ctx z' = a_ctx z).
    { destruct (Nat.eq_dec j a) as [->|Hja].
      - rewrite Hx in Hz. injection Hz as <-. rewrite Hx' in Hz'. injection Hz' as <-.
        pose proof (step_cview2 p c s a s' x x' Hx H Hx' Hself) as V2.
        split; [|exact (c2_ctx _ _ _ _ V2)].
        destruct (c2_par _ _ _ _ V2) as [np [_ [(_ & _ & E2 & _)|[(_ & _ & _ & _ & E2 & _)|(_ & Hq & _)]]]]; auto.
        exfalso. apply Hne. apply (x_pre _ Hx2 a x Hx). rewrite Hq. reflexivity.
      - destruct (step_other p c s a s' j z H Hja Hz) as [z1 [Hz1 Hn]]. rewrite Hz' in Hz1. injection Hz1 as <-.
        apply noG_ctxs in Hn. destruct Hn as (N1 & _ & N3 & _). split; congruence. }
    destruct Hf as [F1 F2]. split; [|split; congruence].
    unfold gsome in Hgs. destruct (a_gerr z); [|congruence]. specialize (Hgs eq_refl). destruct (a_gerr z'); discriminate.
  - right. split; [exact Hk|]. destruct (step_some_act _ _ _ _ _ H) as [x Hx]. destruct (step_self p c s a s' x H Hx) as [x' Hx'].
    destruct (c1_rung _ _ _ _ _ _ (step_cview1 p c s a s' x x' Hx H Hx')) as [Hs|(Hn & _)]; congruence.
Qed.

Lemma called_dedup j : called PDedup j = false. Proof. reflexivity. Qed.

Lemma step_cx2 p c s a s' :
  inv_tree p s -> uniq p (pj csof s) -> ctxinv p s -> wait_par s -> cx2 s -> step p c s a = Some s' -> cx2 s'.
Proof.
  intros Htree Huq Hci Hw Hx2 H.
  destruct (step_some_act _ _ _ _ _ H) as [x Hx]. destruct (step_self p c s a s' x H Hx) as [x' Hx'].
  assert (Hself : a_parent x <> Some a).
  { intros E. pose proof (it_par _ _ Htree a x a Hx E). lia. }
  pose proof (step_cview2 p c s a s' x x' Hx H Hx' Hself) as V2.
  pose proof (step_cls p c s a s' x x' Hx H Hx') as Hcls.
  destruct (step_own p c s a s' x x' Hx H Hx') as [Hstat _]. apply stat_fields in Hstat.
  destruct Hstat as (Sp & St & Sv & Sk & Spar).
  destruct (c2_par _ _ _ _ V2) as [np [Hpar Hmove]].
  pose proof (c2_ctx _ _ _ _ V2) as Hctx.
  set (L := length (ctxs s)) in *.
  destruct (ci_refs _ _ Hci a x Hx) as (Rx1 & Rx2 & Rx3). fold L in Rx1, Rx2, Rx3.
  assert (HPL : length (parents s) = L) by apply plen.
  assert (Hold : forall k v, k < L -> nth_error (parents s) k = Some v -> nth_error (parents s') k = Some v).
  { intros k v Hk Hn. rewrite Hpar, nth_error_app1 by (rewrite HPL; exact Hk). exact Hn. }
  constructor.
  - (* call children run under the caller's execution context *)
    intros j y' pa px' Hy' Hk Hp Hpx'.
    destruct (Hcls j y' Hy') as [[-> ->]|[[Hja [y [Hy Hn]]]|(Hge & Hnone & Hpa)]].
    + assert (Hpa : pa <> a) by congruence.
      assert (Hlt : pa < a) by (apply (it_par _ _ Htree a x pa Hx); congruence).
      destruct (get_act s pa) as [px|] eqn:Hpx; [|apply nth_error_None in Hpx; apply get_lt in Hx; lia].
      destruct (step_other p c s a s' pa px H Hpa Hpx) as [px1 [Hpx1 Hn]]. rewrite Hpx' in Hpx1. injection Hpx1 as <-.
      apply noG_ctxs in Hn. destruct Hn as (_ & N2 & _). rewrite Hctx, N2.
      apply (x_call _ Hx2 a x pa px Hx); congruence.
    + pose proof (noG_ctxs _ _ Hn) as (N1 & _ & _ & _ & _ & N6 & N7).
      assert (Hlt : pa < j) by (apply (it_par _ _ Htree j y pa Hy); congruence).
      destruct (get_act s pa) as [px|] eqn:Hpx; [|apply nth_error_None in Hpx; apply get_lt in Hy; lia].
      pose proof (x_call _ Hx2 j y pa px Hy) as Hc0. rewrite N1, Hc0 by congruence.
      destruct (Nat.eq_dec pa a) as [->|Hpa].
      * rewrite Hx in Hpx. injection Hpx as <-. rewrite Hx' in Hpx'. injection Hpx' as <-.
        destruct Hmove as [(_ & E1 & _)|[(_ & Hq1 & _)|(_ & _ & _ & E1 & _)]]; try congruence.
        exfalso. (* a caller at its dedup lookup has not called anybody yet *)
        destruct Huq as [_ Hall]. rewrite Forall_forall in Hall.
        assert (He : entry_ok p (pj csof s) (csof y)) by (apply Hall; eapply nth_error_In; apply pj_nth; exact Hy).
        destruct He as (_ & _ & He). simpl in He. rewrite <- N7, Hp in He.
        destruct He as [_ (pxx & m & Hpxx & _ & Hcons)].
        rewrite (pj_nth csof _ _ _ Hx) in Hpxx. injection Hpxx as <-. simpl in Hcons. rewrite Hq1 in Hcons.
        unfold consumed in Hcons. simpl in Hcons.
        destruct (Nat.ltb m (length (t_deps (get_task p (a_task x))))); [discriminate|].
        destruct (nth_error (t_cmds (get_task p (a_task x))) (m - length (t_deps (get_task p (a_task x))))) as [[| | |]|]; discriminate.
      * destruct (step_other p c s a s' pa px H Hpa Hpx) as [px1 [Hpx1 Hn1]]. rewrite Hpx' in Hpx1. injection Hpx1 as <-.
        apply noG_ctxs in Hn1. destruct Hn1 as (_ & N2 & _). congruence.
    + assert (pa = a) by congruence. subst pa. rewrite Hx' in Hpx'. injection Hpx' as <-.
      destruct (c2_new _ _ _ _ V2 j y' Hge Hy') as (_ & _ & _ & Hkk). rewrite Hk in Hkk. rewrite Hkk.
      destruct (vw_new _ _ _ _ _ (step_view p c s a s' x x' Hx H Hx') j y' Hge Hy') as [Hnv _].
      unfold new_view in Hnv. rewrite Hk in Hnv. destruct Hnv as [i Hq].
      destruct Hmove as [(_ & E1 & _)|[(_ & _ & Hq1 & _)|(_ & _ & Hq1 & _)]]; congruence.
  - (* roots run under Run's context *)
    intros j y' Hy' Hk.
    destruct (Hcls j y' Hy') as [[-> ->]|[[Hja [y [Hy Hn]]]|(Hge & Hnone & Hpa)]].
    + rewrite Hctx. apply (x_root _ Hx2 a x Hx). congruence.
    + apply noG_ctxs in Hn. destruct Hn as (N1 & _ & _ & _ & _ & N6 & _). rewrite N1. apply (x_root _ Hx2 j y Hy). congruence.
    + destruct (c2_new _ _ _ _ V2 j y' Hge Hy') as (_ & _ & _ & Hkk). rewrite Hk in Hkk. contradiction.
  - (* the parent of an execution context *)
    intros j z' Hz' Hne.
    destruct (Hcls j z' Hz') as [[-> ->]|[[Hja [z [Hz Hn]]]|(Hge & Hnone & Hpa)]].
    + rewrite Hctx in *. destruct Hmove as [(-> & E1 & _)|[(-> & _ & _ & E1 & _)|(-> & _ & _ & E1 & _)]]; rewrite E1 in *.
      * apply Hold; [exact Rx2|]. exact (x_epar _ Hx2 a x Hx Hne).
      * rewrite Hpar. fold L. rewrite <- HPL. apply nth_error_app_new.
      * apply Hold; [exact Rx2|]. exact (x_epar _ Hx2 a x Hx Hne).
    + apply noG_ctxs in Hn. destruct Hn as (N1 & N2 & _). rewrite N1, N2 in *.
      destruct (ci_refs _ _ Hci j z Hz) as (_ & R2 & _). apply Hold; [exact R2|]. exact (x_epar _ Hx2 j z Hz Hne).
    + destruct (c2_new _ _ _ _ V2 j z' Hge Hz') as (E1 & _). congruence.
  - (* the parent of a group context *)
    intros j z' Hz' Hne.
    destruct (Hcls j z' Hz') as [[-> ->]|[[Hja [z [Hz Hn]]]|(Hge & Hnone & Hpa)]].
    + rewrite Hctx in *. destruct Hmove as [(-> & E1 & E2 & _)|[(-> & Hq1 & _ & E1 & E2 & _)|(-> & _ & _ & E1 & E2 & _)]]; rewrite E1, E2 in *.
      * apply Hold; [exact Rx3|]. exact (x_gpar _ Hx2 a x Hx Hne).
      * exfalso. apply Hne. apply (x_pre _ Hx2 a x Hx). rewrite Hq1. reflexivity.
      * rewrite Hpar. fold L. rewrite <- HPL. apply nth_error_app_new.
    + apply noG_ctxs in Hn. destruct Hn as (N1 & N2 & N3 & _). rewrite N1, N2, N3 in *.
      destruct (ci_refs _ _ Hci j z Hz) as (_ & _ & R3). apply Hold; [exact R3|]. exact (x_gpar _ Hx2 j z Hz Hne).
    + destruct (c2_new _ _ _ _ V2 j z' Hge Hz') as (_ & E2 & _). congruence.
  - (* group and execution contexts differ *)
    intros j z' Hz' Hne.
    destruct (Hcls j z' Hz') as [[-> ->]|[[Hja [z [Hz Hn]]]|(Hge & Hnone & Hpa)]].
    + rewrite Hctx in *. destruct Hmove as [(-> & E1 & E2 & _)|[(-> & Hq1 & _ & E1 & E2 & _)|(-> & _ & _ & E1 & E2 & _)]]; rewrite E1, E2 in *.
      * exact (x_eg _ Hx2 a x Hx Hne).
      * fold L. lia.
      * fold L. lia.
    + apply noG_ctxs in Hn. destruct Hn as (N1 & N2 & N3 & _). rewrite N1, N2, N3 in *. exact (x_eg _ Hx2 j z Hz Hne).
    + destruct (c2_new _ _ _ _ V2 j z' Hge Hz') as (_ & E2 & _). congruence.
  - (* before the fork there is no group context *)
    intros j z' Hz' Hpf.
    destruct (Hcls j z' Hz') as [[-> ->]|[[Hja [z [Hz Hn]]]|(Hge & Hnone & Hpa)]].
    + pose proof (step_prefork p c s a s' x x' Hx H Hx' Hpf) as Hpf0.
      rewrite Hctx. destruct Hmove as [(-> & E1 & E2 & _)|[(-> & Hq1 & _ & E1 & E2 & _)|(-> & _ & Hq2 & _)]].
      * rewrite E2. exact (x_pre _ Hx2 a x Hx Hpf0).
      * rewrite E2. exact (x_pre _ Hx2 a x Hx Hpf0).
      * rewrite Hq2 in Hpf. discriminate.
    + pose proof (noG_ctxs _ _ Hn) as (N1 & _ & N3 & _ & N5 & _). rewrite N1, N3. apply (x_pre _ Hx2 j z Hz). congruence.
    + destruct (c2_new _ _ _ _ V2 j z' Hge Hz') as (_ & E2 & _). exact E2.
  - (* why a context is cancelled *)
    intros k Hk.
    destruct (c2_flags _ _ _ _ V2 k Hk) as [Hk0|[(r & Hq & Hq' & Hrk & ->)|(e & Hq' & [(Hkd & pa & px & Hp & Hpx & Hg & ->)|(Hkr & Hrg & ->)])]].
    + destruct (x_ow _ Hx2 k Hk0) as [He|(j & o & Ho & Hf & Hne & ->)].
      * left. eapply errflag_step; eauto.
      * right. destruct (Nat.eq_dec j a) as [->|Hja].
        -- rewrite Hx in Ho. injection Ho as <-. exists a, x'. split; [exact Hx'|].
           split; [exact (fin_step p c s a s' x x' Hx H Hx' Hf)|].
           destruct (a_pc x) eqn:Eq; try discriminate.
           ++ destruct Hmove as [(_ & E1 & _)|[(_ & Hq1 & _)|(_ & Hq1 & _)]]; try congruence. rewrite Hctx, E1. auto.
           ++ rewrite (step_done_none p c s a x r Hx Eq) in H. discriminate.
        -- destruct (step_other p c s a s' j o H Hja Ho) as [o' [Ho' Hn]].
           pose proof (noG_ctxs _ _ Hn) as (N1 & N2 & _ & _ & N5 & _). exists j, o'. rewrite N5, N1, N2. auto.
    + right. exists a, x'. split; [exact Hx'|]. rewrite Hq'. split; [reflexivity|].
      destruct Hmove as [(_ & E1 & _)|[(_ & Hq1 & _)|(_ & Hq1 & _)]]; try congruence.
      rewrite Hctx, E1. split; [exact (ci_own _ _ Hci a x Hx Hrk)|reflexivity].
    + left. left. assert (Hpa : pa <> a) by congruence.
      destruct (step_finish_err p c s a s' x x' e pa px Hx H Hx' Hq' Hkd Hp Hpa Hpx) as [px' [Hpx' Hgs]].
      destruct (step_other p c s a s' pa px H Hpa Hpx) as [px1 [Hpx1 Hn]]. rewrite Hpx' in Hpx1. injection Hpx1 as <-.
      apply noG_ctxs in Hn. destruct Hn as (N1 & _ & N3 & _).
      destruct (ci_dep _ _ Hci a x pa px Hx Hkd Hp Hpx) as [_ D2].
      exists pa, px'. split; [exact Hpx'|]. split; [unfold gsome in Hgs; destruct (a_gerr px'); [discriminate|discriminate]|].
      split; congruence.
    + left. right. split; [reflexivity|].
      rewrite (c1_rung2 _ _ _ _ _ _ (step_cview1 p c s a s' x x' Hx H Hx') e Hkr Hq' Hrg). discriminate.
Qed.

(* ------------------------------------------------------------------ *)
(* roots and runs *)

Lemma cx2_init p : cx2 (init_state p).
Proof.
  assert (Hn : forall j y, get_act (init_state p) j = Some y -> False).
  { intros j y H. rewrite get_act_init in H. discriminate. }
  constructor; try (intros; exfalso; eapply Hn; eassumption).
  intros k (r & Hr & Hc). simpl in Hr. destruct k as [|[|k]]; simpl in Hr; try (injection Hr as <-; discriminate).
  destruct k; discriminate.
Qed.

Lemma start_root_cx2 p c s k s' : inv_tree p s -> cx2 s -> start_root p c s k = Some s' -> cx2 s'.
Proof.
  intros Htree Hx2 H. destruct (start_root_shape p c s k s' H) as [cl ->].
  set (nr := new_act [k] (c_task cl) (eval_var 0 (c_var cl)) KRoot None root_ctx).
  set (s' := {| acts := acts s ++ [nr]; used := used s; dedup := dedup s; calls := calls s; ctxs := ctxs s;
                trace := trace s; rootres := rootres s; rungerr := rungerr s |}).
  assert (Ha : acts s' = acts s ++ [nr]) by reflexivity.
  assert (Hold : forall j y, get_act s j = Some y -> get_act s' j = Some y) by (intros j y; apply (app_get_old s s' nr j y Ha)).
  assert (Hcls : forall j y, get_act s' j = Some y -> get_act s j = Some y \/ y = nr) by (intros j y; apply (app_get_cls s s' nr j y Ha)).
  constructor.
  - intros j y pa px Hy Hk Hp Hpx. destruct (Hcls j y Hy) as [Hy0| ->]; [|discriminate].
    assert (Hlt : pa < j) by (apply (it_par _ _ Htree j y pa Hy0 Hp)).
    destruct (get_act s pa) as [px0|] eqn:Hpx0; [|apply nth_error_None in Hpx0; apply get_lt in Hy0; lia].
    rewrite (Hold _ _ Hpx0) in Hpx. injection Hpx as <-. exact (x_call _ Hx2 j y pa px0 Hy0 Hk Hp Hpx0).
  - intros j y Hy Hk. destruct (Hcls j y Hy) as [Hy0| ->]; [exact (x_root _ Hx2 j y Hy0 Hk)|reflexivity].
  - intros j z Hz Hne. destruct (Hcls j z Hz) as [Hz0| ->]; [exact (x_epar _ Hx2 j z Hz0 Hne)|exfalso; apply Hne; reflexivity].
  - intros j z Hz Hne. destruct (Hcls j z Hz) as [Hz0| ->]; [exact (x_gpar _ Hx2 j z Hz0 Hne)|exfalso; apply Hne; reflexivity].
  - intros j z Hz Hne. destruct (Hcls j z Hz) as [Hz0| ->]; [exact (x_eg _ Hx2 j z Hz0 Hne)|exfalso; apply Hne; reflexivity].
  - intros j z Hz Hpf. destruct (Hcls j z Hz) as [Hz0| ->]; [exact (x_pre _ Hx2 j z Hz0 Hpf)|reflexivity].
  - intros k0 Hk0. destruct (x_ow _ Hx2 k0 Hk0) as [[(j & z & Hz & Hr)|Hr]|(j & o & Ho & Hr)].
    + left. left. exists j, z. split; [apply Hold; exact Hz|exact Hr].
    + left. right. exact Hr.
    + right. exists j, o. split; [apply Hold; exact Ho|exact Hr].
Qed.

Lemma run_cx2 p c sched : cx2 (run p c sched).
Proof.
  induction sched as [|ch sched IH] using rev_ind; [apply cx2_init|].
  rewrite run_snoc. destruct (run_inv_tree p c sched) as [Ht Hu]. destruct ch as [a|k]; simpl.
  - destruct (step p c (run p c sched) a) eqn:E; [|exact IH].
    eapply step_cx2; eauto; [apply run_ctxinv|exact (if_wait _ _ _ (run_inv_fail p c sched))].
  - destruct (start_root p c (run p c sched) k) eqn:E; [|exact IH]. eapply start_root_cx2; eauto.
Qed.

(* ------------------------------------------------------------------ *)
(* errors only a cancellation produces *)

Lemma prefix_antisym a b : prefix_of_aid a b = true -> prefix_of_aid b a = true -> a = b.
Proof.
  intros H1 H2. apply prefix_of_aid_inv in H1. apply prefix_of_aid_inv in H2.
  destruct H1 as [l1 E1], H2 as [l2 E2]. rewrite E1 in E2. rewrite <- app_assoc in E2.
  assert (l1 ++ l2 = []).
  { apply (f_equal (@length _)) in E2. rewrite !app_length in E2. destruct (l1 ++ l2) eqn:E; [reflexivity|].
    apply (f_equal (@length _)) in E. rewrite app_length in E. simpl in E. lia. }
  apply app_eq_nil in H. destruct H as [-> _]. rewrite app_nil_r in E1. congruence.
Qed.

Section Q.
  Variables (p : prog) (c : cfg).

  (* errors that only a cancellation produces *)
  Definition ct (e : err) : bool :=
    match e with ECancel => true | EPrecond => negb (ex_prefalse p) | _ => false end.

  Record gl (s : state) : Prop := {
    gl_fail : inv_fail p c s;
    gl_ctx : ctxinv p s;
    gl_x2 : cx2 s;
    gl_cw : cw p s
  }.

  (* two activations that created the same context are the same *)
  Lemma created_same s i z j z' k :
    gl s -> get_act s i = Some z -> get_act s j = Some z' -> created z k -> created z' k -> i = j.
  Proof.
    intros G Hz Hz' Hc Hc'. destruct (gl_fail _ G) as [_ _ Huq _ _].
    assert (Hu : forall y, created y k -> under s y k).
    { intros y [[->| ->] _]; [right; left|right; right]; constructor. }
    apply (path_uniq p s i j z z' Huq Hz Hz'). apply prefix_antisym.
    - exact (ci_sc _ _ (gl_ctx _ G) i z j z' k Hz Hz' Hc (Hu _ Hc')).
    - exact (ci_sc _ _ (gl_ctx _ G) j z' i z k Hz' Hz Hc' (Hu _ Hc)).
  Qed.

  Lemma errflag_not_ectx s k j z :
    gl s -> errflag s k -> get_act s j = Some z -> a_ectx z <> a_ctx z -> k <> a_ectx z.
  Proof.
    intros G [(j' & z' & Hz' & Hg & Hk & Hne')|[Hk _]] Hz Hne E.
    - assert (Hc : created z k) by (split; [left; exact E|congruence]).
      assert (Hc' : created z' k) by (split; [right; exact Hk|congruence]).
      assert (j = j') by (eapply created_same; eauto). subst j'. rewrite Hz in Hz'. injection Hz' as <-.
      apply (x_eg _ (gl_x2 _ G) j z Hz Hne'). congruence.
    - assert (Hc : created z k) by (split; [left; exact E|congruence]).
      pose proof (ci_big _ _ (gl_ctx _ G) j z k Hz Hc). unfold root_ctx in Hk. lia.
  Qed.

  Lemma errflag_gctx s k j P :
    gl s -> errflag s k -> get_act s j = Some P -> a_gctx P <> a_ctx P -> k = a_gctx P -> a_gerr P <> None.
  Proof.
    intros G [(j' & z' & Hz' & Hg & Hk & Hne')|[Hk _]] HP Hne E.
    - assert (Hc : created P k) by (split; [right; exact E|congruence]).
      assert (Hc' : created z' k) by (split; [right; exact Hk|congruence]).
      assert (j = j') by (eapply created_same; eauto). subst j'. rewrite HP in Hz'. injection Hz' as <-. exact Hg.
    - assert (Hc : created P k) by (split; [right; exact E|congruence]).
      pose proof (ci_big _ _ (gl_ctx _ G) j P k HP Hc). unfold root_ctx in Hk. lia.
  Qed.

  Lemma up_e s k j z :
    gl s -> errflag s k -> get_act s j = Some z -> reach (parents s) (a_ectx z) k -> reach (parents s) (a_ctx z) k.
  Proof.
    intros G He Hz Hr. destruct (Nat.eq_dec (a_ectx z) (a_ctx z)) as [E|Hne]; [rewrite <- E; exact Hr|].
    inversion Hr as [|k0 q k1 Hn Hr']; subst.
    - exfalso. exact (errflag_not_ectx s _ j z G He Hz Hne eq_refl).
    - rewrite (x_epar _ (gl_x2 _ G) j z Hz Hne) in Hn. injection Hn as <-. exact Hr'.
  Qed.

  Lemma up_g s k j P :
    gl s -> errflag s k -> get_act s j = Some P -> a_gctx P <> a_ctx P -> a_gerr P = None ->
    reach (parents s) (a_gctx P) k -> reach (parents s) (a_ctx P) k.
  Proof.
    intros G He HP Hne Hg Hr. apply (up_e s k j P G He HP).
    inversion Hr as [|k0 q k1 Hn Hr']; subst.
    - exfalso. exact (errflag_gctx s _ j P G He HP Hne eq_refl Hg).
    - rewrite (x_gpar _ (gl_x2 _ G) j P HP Hne) in Hn. injection Hn as <-. exact Hr'.
  Qed.

  Definition qinv (s : state) : Prop :=
    forall j y e, get_act s j = Some y -> (holds (a_pc y) = Some e \/ a_gerr y = Some e) -> ct e = true ->
      exists k, errflag s k /\ reach (parents s) (a_ctx y) k.

  (* an activation that sees its context cancelled sits below an error-cancelled context *)
  Lemma cancelled_witness s a x :
    gl s -> get_act s a = Some x -> cancelled s (a_ectx x) = true -> fin (a_pc x) = false ->
    exists k, errflag s k /\ reach (parents s) (a_ctx x) k.
  Proof.
    intros G Hx Hcan Hfin. destruct (gl_fail _ G) as [_ _ Huq Hw _].
    destruct (cancelled_reach _ _ Hcan) as (k & Hr & Hk).
    destruct (x_ow _ (gl_x2 _ G) k Hk) as [He|(j & o & Ho & Hfo & Hne & ->)].
    - exists k. split; [exact He|]. eapply up_e; eauto.
    - exfalso. assert (Hc : created o (a_ectx o)) by (split; [left; reflexivity|exact Hne]).
      assert (Hu : under s x (a_ectx o)) by (right; left; exact Hr).
      pose proof (ci_sc _ _ (gl_ctx _ G) j o a x _ Ho Hx Hc Hu) as Hpre.
      destruct (Nat.eq_dec j a) as [->|Hja]; [rewrite Hx in Ho; injection Ho as <-; congruence|].
      assert (Hnd : is_done (a_pc x) = false) by (destruct (a_pc x); try reflexivity; discriminate).
      pose proof (live_anc p s Huq Hw _ a x j o (le_n _) Hx Hnd Ho Hpre Hja) as Hwp.
      destruct (a_pc o); discriminate.
  Qed.

  Lemma origin_witness s s' a x e :
    gl s -> nopw s -> qinv s -> get_act s a = Some x -> origin p c s s' x e -> ct e = true ->
    exists k, errflag s k /\ reach (parents s) (a_ctx x) k.
  Proof.
    intros G Hnp Hq Hx Ho Hct. destruct (gl_fail _ G) as [Hids Htree Huq Hw _].
    destruct Ho as [Hk|[(e0 & Hpc & ->)|[(Hpc & e0 & Hg & ->)|[(i & k & Hpc & Hr)|[(o & Hpc & Hr)|Hp]]]]].
    - exact (Hq a x e Hx (or_introl Hk) Hct).
    - unfold wrap_cmd_error in Hct. destruct (indirect x) eqn:Ei; [|discriminate].
      apply (Hq a x e0 Hx); [left; rewrite Hpc; reflexivity|exact Hct].
    - assert (E : wrap_deps_error x e0 = e0).
      { unfold wrap_deps_error in *. destruct (indirect x); [reflexivity|]. destruct e0; simpl in *; try reflexivity; discriminate. }
      rewrite E in Hct. exact (Hq a x e0 Hx (or_intror Hg) Hct).
    - (* the error of the callee *)
      destruct (gl_cw _ G a x i k Hx Hpc) as (cl & yk & Hcl & Hyk & Hpk).
      destruct (act_result_holds s k e Hr) as [yk' [Hyk' Hh]]. rewrite Hyk in Hyk'. injection Hyk' as <-.
      pose proof (callee_kind p c s a x i k yk Hids Hx Hyk (ex_intro _ cl Hcl) Hpk) as Hkc.
      assert (Hknr : a_kind yk <> KRoot) by congruence.
      destruct (parent_info p s k yk Huq Hyk Hknr) as (pa & z & m & Hp & Hz & Hpm).
      rewrite Hpk in Hpm. apply app_inj_tail in Hpm. destruct Hpm as [Hpm _].
      assert (a = pa) by (apply (path_uniq p s a pa x z Huq Hx Hz); congruence). subst pa.
      destruct (Hq k yk e Hyk (or_introl Hh) Hct) as (kk & He & Hrr).
      rewrite (x_call _ (gl_x2 _ G) k yk a x Hyk Hkc Hp Hx) in Hrr.
      exists kk. split; [exact He|]. eapply up_e; eauto.
    - exfalso. pose proof (Hnp a x Hx) as Hn. rewrite Hpc in Hn. discriminate.
    - destruct e as [n|o| | |cd]; simpl in Hct, Hp; try discriminate.
      + destruct Hp as [Hcan Hfin]. eapply cancelled_witness; eauto.
      + destruct Hp as [Hpc [Hp|[Hcan _]]].
        * exfalso. apply negb_true_iff in Hct. unfold ex_prefalse in Hct.
          rewrite (task_in_prog p (a_task x) (fun tk => match g_precond (t_g tk) with Some false => true | _ => false end) eq_refl) in Hct;
            [discriminate|rewrite Hp; reflexivity].
        * eapply cancelled_witness; eauto. rewrite Hpc. reflexivity.
  Qed.
End Q.

(* ------------------------------------------------------------------ *)
(* ... never win without a skipped caller *)

Section QStep.
  Variables (p : prog) (c : cfg).

  Lemma reach_step s a s' x x' c0 k :
    get_act s a = Some x -> step p c s a = Some s' -> get_act s' a = Some x' -> a_parent x <> Some a ->
    reach (parents s) c0 k -> reach (parents s') c0 k.
  Proof.
    intros Hx H Hx' Hself Hr. destruct (c2_par _ _ _ _ (step_cview2 p c s a s' x x' Hx H Hx' Hself)) as [np [-> _]].
    apply reach_app_l. exact Hr.
  Qed.

  Lemma step_qinv s a s' :
    gl p c s -> nopw s -> qinv p s -> step p c s a = Some s' -> qinv p s'.
  Proof.
    intros G Hnp Hq H. destruct (gl_fail _ _ _ G) as [Hids Htree Huq Hw _].
    destruct (step_some_act _ _ _ _ _ H) as [x Hx]. destruct (step_self p c s a s' x H Hx) as [x' Hx'].
    assert (Hself : a_parent x <> Some a).
    { intros E. pose proof (it_par _ _ Htree a x a Hx E). lia. }
    assert (Hlift : forall c0, (exists k, errflag s k /\ reach (parents s) c0 k) ->
                               exists k, errflag s' k /\ reach (parents s') c0 k).
    { intros c0 (k & He & Hr). exists k. split; [exact (errflag_step p c s a s' k Htree (gl_x2 _ _ _ G) H He)|].
      exact (reach_step s a s' x x' c0 k Hx H Hx' Hself Hr). }
    intros j y' e Hy' Hhold Hct.
    destruct (step_cls p c s a s' x x' Hx H Hx' j y' Hy') as [[-> ->]|[[Hja [y [Hy Hn]]]|(Hge & _ & _)]].
    - destruct (step_keep p c s a s' a x Htree H Hx) as [x0 (Hx0 & _ & _ & _ & Hg)].
      rewrite Hx' in Hx0. injection Hx0 as <-. specialize (Hg eq_refl).
      rewrite (c2_ctx _ _ _ _ (step_cview2 p c s a s' x x' Hx H Hx' Hself)). apply Hlift.
      destruct Hhold as [Hh|Hh].
      + exact (origin_witness p c s s' a x e G Hnp Hq Hx (step_origin p c s a s' x x' Hx H Hx' e Hh) Hct).
      + apply (Hq a x e Hx); [right; congruence|exact Hct].
    - pose proof (noG_ctxs _ _ Hn) as (N1 & _ & N3 & _ & N5 & _). rewrite N1. apply Hlift.
      destruct Hhold as [Hh|Hh]; [apply (Hq j y e Hy); [left; congruence|exact Hct]|].
      destruct (step_gerr p c s a s' x Hx H Hself j y Hy) as [y1 [Hy1 [Hs|(Hgn & Hkd & Hp & e0 & He0 & x1 & Hx1 & Hq1)]]];
        rewrite Hy' in Hy1; injection Hy1 as <-.
      + apply (Hq j y e Hy); [right; congruence|exact Hct].
      + rewrite Hx' in Hx1. injection Hx1 as <-. assert (e0 = e) by congruence. subst e0.
        assert (Ho : origin p c s s' x e) by (apply (step_origin p c s a s' x x' Hx H Hx'); rewrite Hq1; reflexivity).
        destruct (origin_witness p c s s' a x e G Hnp Hq Hx Ho Hct) as (k & He & Hr).
        destruct (ci_dep _ _ (gl_ctx _ _ _ G) a x j y Hx Hkd Hp Hy) as [D1 D2]. rewrite D1 in Hr.
        exists k. split; [exact He|]. exact (up_g p c s k j y G He Hy D2 Hgn Hr).
    - exfalso. destruct (step_new p c s a s' j y' H Hge Hy') as (Hpc & _).
      destruct (vw_new _ _ _ _ _ (step_view p c s a s' x x' Hx H Hx') j y' Hge Hy') as [_ Hg].
      destruct Hhold as [Hh|Hh]; [rewrite Hpc in Hh; discriminate|congruence].
  Qed.

  (* Run's error is never an error that only a cancellation produces *)
  Definition rct (s : state) : Prop := forall e, rungerr s = Some e -> ct p e = false.

  Lemma step_rct s a s' :
    gl p c s -> nopw s -> qinv p s -> rct s -> step p c s a = Some s' -> rct s'.
  Proof.
    intros G Hnp Hq Hr H e He. destruct (gl_fail _ _ _ G) as [Hids Htree Huq Hw _].
    destruct (step_some_act _ _ _ _ _ H) as [x Hx]. destruct (step_self p c s a s' x H Hx) as [x' Hx'].
    destruct (c1_rung _ _ _ _ _ _ (step_cview1 p c s a s' x x' Hx H Hx')) as [Hs|(Hn & Hk & e0 & He0 & Hq0)].
    - apply Hr. congruence.
    - assert (e0 = e) by congruence. subst e0.
      destruct (ct p e) eqn:Hct; [exfalso|reflexivity].
      assert (Ho : origin p c s s' x e) by (apply (step_origin p c s a s' x x' Hx H Hx'); rewrite Hq0; reflexivity).
      destruct (origin_witness p c s s' a x e G Hnp Hq Hx Ho Hct) as (k & Hek & Hrk).
      rewrite (x_root _ (gl_x2 _ _ _ G) a x Hx Hk) in Hrk.
      apply (reach_base _ _ _ (proj1 (ci_base _ _ (gl_ctx _ _ _ G)))) in Hrk. subst k.
      destruct Hek as [(j & z & Hz & _ & Hk0 & Hne)|[_ Hrg]]; [|congruence].
      assert (Hcr : created z root_ctx) by (split; [right; exact Hk0|unfold root_ctx; intros E0; apply Hne; congruence]).
      pose proof (ci_big _ _ (gl_ctx _ _ _ G) j z _ Hz Hcr) as Hbig. unfold root_ctx in Hbig. lia.
  Qed.
End QStep.

Lemma run_gl p c sched : gl p c (run p c sched).
Proof.
  constructor; [apply run_inv_fail|apply run_ctxinv|apply run_cx2|].
  intros a x i cid Hx Hq. destruct (call_waits_for_callee p c sched a x i cid Hx Hq) as (cl & y & H1 & H2 & H3 & _).
  exists cl, y. repeat split; assumption.
Qed.

Lemma run_qinv p c sched :
  noskip (trace (run p c sched)) = true -> qinv p (run p c sched) /\ rct p (run p c sched).
Proof.
  induction sched as [|ch sched IH] using rev_ind.
  - intros _. split; [intros j y e Hy; change (get_act (init_state p) j = Some y) in Hy; rewrite get_act_init in Hy; discriminate|].
    intros e He. discriminate.
  - intros Hns.
    assert (Hns0 : noskip (trace (run p c sched)) = true).
    { rewrite run_snoc in Hns. destruct (choice_trace p c (run p c sched) ch) as [evs He]. rewrite He, noskip_app in Hns.
      apply andb_true_iff in Hns. apply Hns. }
    destruct (IH Hns0) as [Hq Hr]. pose proof (run_gl p c sched) as G. pose proof (run_nopw p c sched Hns0) as Hnp.
    rewrite run_snoc. set (s := run p c sched) in *. destruct ch as [a|k]; simpl.
    + destruct (step p c s a) as [s'|] eqn:E; [|split; assumption].
      split; [eapply step_qinv; eauto|eapply step_rct; eauto].
    + destruct (start_root p c s k) as [s'|] eqn:E; [|split; assumption].
      destruct (start_root_shape p c s k s' E) as [cl ->]. split.
      * intros j y e Hy Hh Hct. eapply app_get_cls in Hy; [|reflexivity]. destruct Hy as [Hy| ->].
        -- destruct (Hq j y e Hy Hh Hct) as (k0 & [(j' & z & Hz & Hrest)|Hrg] & Hrr); exists k0; (split; [|exact Hrr]).
           ++ left. exists j', z. split; [eapply app_get_old; eauto; reflexivity|exact Hrest].
           ++ right. exact Hrg.
        -- destruct Hh as [Hh|Hh]; discriminate.
      * exact Hr.
Qed.

(* ------------------------------------------------------------------ *)
(* the theorem *)

Definition skipped (tr : list event) : bool :=
  existsb (fun ev => match ev with EvSkipping _ _ => true | _ => false end) tr.

Lemma noskip_skipped tr : noskip tr = negb (skipped tr). Proof. reflexivity. Qed.

(* the precondition clause of guard_err_possible, in the notation of this file *)
Lemma guard_err_possible_precond p c tr :
  guard_err_possible p c tr EPrecond = ex_prefalse p || (skipped tr && (cf_force c || cf_forceall c)).
Proof. reflexivity. Qed.

Lemma code_possible p c tr cd : err_static p c (ECode cd) = true -> guard_err_possible p c tr (ECode cd) = true.
Proof.
  simpl. intros H. repeat (apply orb_true_iff in H; destruct H as [H|H]); apply andb_true_iff in H; destruct H as [Hc H];
    apply Nat.eqb_eq in Hc; subst cd; exact H.
Qed.

Lemma precheck_false_internal p c : precheck_ok p c = false -> existsb t_internal p = true.
Proof.
  unfold precheck_ok. intros H.
  assert (Hex : exists cl, In cl (cf_roots c) /\ t_internal (get_task p (c_task cl)) = true).
  { induction (cf_roots c) as [|cl l IH]; simpl in H; [discriminate|].
    apply andb_false_iff in H. destruct H as [H|H].
    - apply negb_false_iff in H. exists cl. split; [left; reflexivity|exact H].
    - destruct (IH H) as [cl' [Hin Hi]]. exists cl'. split; [right; exact Hin|exact Hi]. }
  destruct Hex as [cl [_ Hi]]. exact (task_in_prog p (c_task cl) t_internal eq_refl Hi).
Qed.

(* mon_C13_status of Exec/Monitors.v, for every program, configuration, schedule and completed run *)
Theorem guard_status_all_schedules p c sched r :
  run_result p c (run p c sched) = Some r ->
  mon_C13_status p c (trace (run p c sched)) r = true.
Proof.
  intros Hr. unfold mon_C13_status.
  destruct (failing_ends p c (trace (run p c sched))) eqn:Hfe; [|reflexivity].
  destruct r as [|e]; [reflexivity|].
  unfold run_result in Hr. destruct (precheck_ok p c) eqn:Epc; simpl in Hr.
  2:{ injection Hr as <-. simpl. exact (precheck_false_internal p c Epc). }
  set (s := run p c sched) in *.
  destruct (forallb _ (acts s)) eqn:Hall; [|discriminate].
  destruct (rungerr s) as [e0|] eqn:Eg; [|destruct (Nat.eqb _ _); discriminate].
  injection Hr as ->.
  pose proof (ip_rung _ _ (run_inv_static p c sched) e Eg) as Hst.
  pose proof (ip_rung _ _ (run_inv_nx p c sched Hfe) e Eg) as Hnx.
  assert (Hct : noskip (trace s) = true -> ct p e = false).
  { intros Hns. exact (proj2 (run_qinv p c sched Hns) e Eg). }
  destruct e as [n|[n|]| | |cd]; simpl in Hnx; try discriminate.
  - (* a task-run error wrapping something that is not an exit status *)
    simpl. destruct (only_cmd_errors p c) eqn:Eoc.
    + exfalso. destruct (only_cmd_split p c Eoc) as [Hng Hcp].
      pose proof (run_clean p c sched Hng Hcp Hfe) as Hcl.
      destruct (run_rung_witness p c sched _ Eg) as (j & y & Hy & Hq).
      destruct (cl_c1 _ Hcl j y Hy) as [Hpc _]. rewrite Hq in Hpc. discriminate.
    + unfold only_cmd_errors in Eoc. destruct (no_guard_errors p c), (callcount_possible p c); simpl in *; try reflexivity; discriminate.
  - (* context canceled: only through a skipped caller *)
    simpl. fold (skipped (trace s)). destruct (skipped (trace s)) eqn:Esk; [reflexivity|].
    exfalso. assert (Hns : noskip (trace s) = true) by (rewrite noskip_skipped, Esk; reflexivity).
    specialize (Hct Hns). discriminate.
  - (* precondition *)
    rewrite guard_err_possible_precond. simpl in Hst. destruct (ex_prefalse p) eqn:Epf; [reflexivity|]. simpl in *.
    destruct (skipped (trace s)) eqn:Esk; [simpl; exact Hst|].
    exfalso. assert (Hns : noskip (trace s) = true) by (rewrite noskip_skipped, Esk; reflexivity).
    specialize (Hct Hns). simpl in Hct. rewrite Epf in Hct. discriminate.
  - apply code_possible. exact Hst.
Qed.

(* a tighter bound for the precondition error: --force alone does not suffice.  Without --force-all
   only a root activation evaluates its preconditions under a cancelled context, and Run's context is
   cancelled only once Run has recorded an error; so as long as Run has no error nobody holds a
   precondition error (unless a precondition of the program fails), and Run's first error is not one *)
Definition err_npre (e : err) : bool := match e with EPrecond => false | _ => true end.

Section Tight.
  Variables (p : prog) (c : cfg).
  Hypothesis Hfa : cf_forceall c = false.
  Hypothesis Hpf : ex_prefalse p = false.

  Definition kinv (s : state) : Prop :=
    (rungerr s = None -> inv_P err_npre s) /\ (forall e, rungerr s = Some e -> err_npre e = true).

  Lemma npre_wrapc x e : err_npre e = true -> err_npre (wrap_cmd_error x e) = true.
  Proof. unfold wrap_cmd_error. destruct (indirect x); auto. Qed.
  Lemma npre_wrapd x e : err_npre e = true -> err_npre (wrap_deps_error x e) = true.
  Proof. unfold wrap_deps_error. destruct (indirect x); auto. destruct e; simpl; auto. Qed.

  Lemma step_kinv s a s' : gl p c s -> kinv s -> step p c s a = Some s' -> kinv s'.
  Proof.
    intros G [K1 K2] H. destruct (gl_fail _ _ _ G) as [Hids Htree Huq Hw _].
    destruct (step_some_act _ _ _ _ _ H) as [x Hx]. destruct (step_self p c s a s' x H Hx) as [x' Hx'].
    pose proof (step_cview1 p c s a s' x x' Hx H Hx') as V1.
    assert (Hnew : rungerr s = None -> pc_P err_npre (a_pc x') = true).
    { intros Hrg. specialize (K1 Hrg). apply pc_P_holds. intros e He.
      destruct (step_origin p c s a s' x x' Hx H Hx' e He) as [Hk|[(e0 & Hq & ->)|[(Hq & e0 & Hg & ->)|[(i & k & Hq & Hr)|[(o & Hq & Hr)|Hp]]]]].
      - exact (proj1 (pc_P_holds _ _) (ip_pc _ _ K1 a x Hx) e Hk).
      - apply npre_wrapc. apply (proj1 (pc_P_holds _ _) (ip_pc _ _ K1 a x Hx)). rewrite Hq. reflexivity.
      - apply npre_wrapd. exact (ip_gerr _ _ K1 a x e0 Hx Hg).
      - destruct (act_result_holds s k e Hr) as [y [Hy Hh]]. exact (proj1 (pc_P_holds _ _) (ip_pc _ _ K1 k y Hy) e Hh).
      - destruct (exec_result_holds s o e Hr) as [y [Hy Hh]]. exact (proj1 (pc_P_holds _ _) (ip_pc _ _ K1 o y Hy) e Hh).
      - destruct e as [n|o| | |cd]; try reflexivity. exfalso. simpl in Hp. destruct Hp as [Hq [Hp|[Hcan Hf]]].
        + unfold ex_prefalse in Hpf.
          rewrite (task_in_prog p (a_task x) (fun tk => match g_precond (t_g tk) with Some false => true | _ => false end) eq_refl) in Hpf;
            [discriminate|rewrite Hp; reflexivity].
        + rewrite Hfa in Hf. simpl in Hf. apply andb_true_iff in Hf. destruct Hf as [Hi _]. apply negb_true_iff in Hi.
          assert (Hk : a_kind x = KRoot) by (unfold indirect in Hi; destruct (a_kind x); try discriminate; reflexivity).
          assert (Hfin : fin (a_pc x) = false) by (rewrite Hq; reflexivity).
          destruct (cancelled_witness p c s a x G Hx Hcan Hfin) as (k & Hek & Hrk).
          rewrite (x_root _ (gl_x2 _ _ _ G) a x Hx Hk) in Hrk.
          apply (reach_base _ _ _ (proj1 (ci_base _ _ (gl_ctx _ _ _ G)))) in Hrk. subst k.
          destruct Hek as [(j & z & Hz & _ & Hk0 & Hne)|[_ Hrg']]; [|congruence].
          assert (Hcr : created z root_ctx) by (split; [right; exact Hk0|unfold root_ctx; intros E0; apply Hne; congruence]).
          pose proof (ci_big _ _ (gl_ctx _ _ _ G) j z _ Hz Hcr) as Hbig. unfold root_ctx in Hbig. lia. }
    split.
    - intros Hrg'. assert (Hrg : rungerr s = None).
      { destruct (c1_rung _ _ _ _ _ _ V1) as [Hs|(_ & _ & e & He & _)]; congruence. }
      exact (step_inv_P err_npre p c s a s' x' Htree (K1 Hrg) H Hx' (Hnew Hrg)).
    - intros e He. destruct (c1_rung _ _ _ _ _ _ V1) as [Hs|(Hrg & _ & e0 & He0 & Hq0)].
      + apply K2. congruence.
      + assert (e0 = e) by congruence. subst e0. specialize (Hnew Hrg). rewrite Hq0 in Hnew. exact Hnew.
  Qed.

  Lemma run_kinv sched : kinv (run p c sched).
  Proof.
    induction sched as [|ch sched IH] using rev_ind.
    - split; [intros _; apply inv_P_init|intros e He; discriminate].
    - rewrite run_snoc. pose proof (run_gl p c sched) as G. destruct ch as [a|k]; simpl.
      + destruct (step p c (run p c sched) a) eqn:E; [|exact IH]. eapply step_kinv; eauto.
      + destruct (start_root p c (run p c sched) k) as [s'|] eqn:E; [|exact IH].
        destruct IH as [K1 K2]. pose proof (start_root_inv_P err_npre p c (run p c sched) k s') as Hsr.
        destruct (start_root_shape p c (run p c sched) k s' E) as [cl Hs']. split.
        * intros Hrg. apply Hsr; [|exact E]. apply K1. rewrite Hs' in Hrg. exact Hrg.
        * intros e He. apply K2. rewrite Hs' in He. exact He.
  Qed.

  Theorem precond_needs_forceall sched r : run_result p c (run p c sched) = Some r -> r <> RErr EPrecond.
  Proof.
    unfold run_result. destruct (negb (precheck_ok p c)); [intros E; injection E as <-; discriminate|].
    destruct (forallb _ _); [|discriminate].
    destruct (rungerr (run p c sched)) as [e|] eqn:Eg.
    - intros E. injection E as <-. intros E. injection E as ->.
      pose proof (proj2 (run_kinv sched) _ Eg). discriminate.
    - destruct (Nat.eqb _ _); [intros E; injection E as <-; discriminate|discriminate].
  Qed.
End Tight.

(* the precondition clause of the monitor with --force-all only *)
Theorem guard_status_precond_tight p c sched :
  run_result p c (run p c sched) = Some (RErr EPrecond) ->
  failing_ends p c (trace (run p c sched)) = [] ->
  ex_prefalse p || (skipped (trace (run p c sched)) && cf_forceall c) = true.
Proof.
  intros Hr Hfe. pose proof (guard_status_all_schedules p c sched _ Hr) as H.
  unfold mon_C13_status in H. rewrite Hfe, guard_err_possible_precond in H.
  destruct (ex_prefalse p) eqn:Epf; [reflexivity|]. simpl in *.
  destruct (cf_forceall c) eqn:Efa.
  - rewrite orb_true_r, andb_true_r in H. rewrite andb_true_r. exact H.
  - exfalso. exact (precond_needs_forceall p c Efa Epf sched _ Hr eq_refl).
Qed.

(* the first version of the monitor's precondition clause (some precondition of the program fails),
   which the witness below refutes *)
Definition guard_err_possible_old (p : prog) (c : cfg) (tr : list event) (e : err) : bool :=
  match e with
  | EPrecond => existsb (fun tk => match g_precond (t_g tk) with Some false => true | _ => false end) p
  | _ => guard_err_possible p c tr e
  end.

Definition mon_C13_status_old (p : prog) (c : cfg) (tr : list event) (r : res) : bool :=
  match failing_ends p c tr, r with
  | [], RErr e => guard_err_possible_old p c tr e
  | _, _ => true
  end.

(* it holds of every completed run that does not report a precondition error while no precondition
   of the program fails *)
Theorem guard_status_old_partial p c sched r :
  run_result p c (run p c sched) = Some r ->
  (r = RErr EPrecond -> ex_prefalse p = true) ->
  mon_C13_status_old p c (trace (run p c sched)) r = true.
Proof.
  intros Hr Hpre. pose proof (guard_status_all_schedules p c sched r Hr) as H.
  unfold mon_C13_status_old, mon_C13_status in *.
  destruct (failing_ends p c (trace (run p c sched))); [|reflexivity].
  destruct r as [|e]; [reflexivity|].
  destruct e as [n|o| | |cd]; try exact H. exact (Hpre eq_refl).
Qed.

(* ------------------------------------------------------------------ *)
(* the task named on the command line fails its own entry guard *)

(* the task named on the command line fails its own entry guard *)
Section RootGuard.
  Variables (p : prog) (c : cfg) (cl : call) (e : err).
  Hypothesis Hroots : cf_roots c = [cl].
  Hypothesis Hint : t_internal (get_task p (c_task cl)) = false.
  Hypothesis Hgc : guard_code c (get_task p (c_task cl)) = Some e.

  Definition rg_inv (s : state) : Prop :=
    (acts s = [] /\ rungerr s = None /\ rootres s = []) \/
    (exists x, acts s = [x] /\ a_task x = c_task cl /\ a_kind x = KRoot /\ a_path x = [0] /\
               ((a_pc x = PEntry /\ rungerr s = None) \/ (a_pc x = PDone (RErr e) /\ rungerr s = Some e))).

  Lemma rg_precheck : precheck_ok p c = true.
  Proof. unfold precheck_ok. rewrite Hroots. simpl. rewrite Hint. reflexivity. Qed.

  Lemma rg_step s ch : rg_inv s -> rg_inv (do_choice p c s ch).
  Proof.
    intros [(Ha & Hg & Hrr)|(x & Ha & Ht & Hk & Hp & Hpc)]; destruct ch as [a|k]; simpl.
    - unfold step, get_act. rewrite Ha. destruct a; simpl; left; auto.
    - unfold start_root. rewrite Hroots. destruct k as [|k]; simpl; [|destruct k; left; auto].
      rewrite rg_precheck. simpl. unfold root_started. rewrite Ha. simpl.
      destruct (cf_parallel c); simpl; right; eexists; (split; [reflexivity|]); simpl; repeat split; auto.
    - destruct a as [|a].
      + destruct Hpc as [[Hq Hg]|[Hq Hg]].
        * unfold step, get_act. rewrite Ha. simpl. rewrite Hq, Ht.
          unfold guard_code in Hgc.
          destruct (negb (g_platform (t_g (get_task p (c_task cl))))) eqn:Epl; [discriminate|].
          assert (Hfin : forall s0, acts s0 = [x] -> rungerr s0 = None ->
                    rg_inv (finish s0 0 x (RErr e))).
          { intros s0 Ha0 Hg0. right. exists (set_pc x (PDone (RErr e))).
            unfold finish, notify_parent. rewrite Hk. simpl. rewrite Hg0.
            rewrite cancel_ctx_acts, rungerr_cancel. simpl. rewrite Ha0. simpl. repeat split; auto.
            right. rewrite Hg0. split; reflexivity. }
          destruct (negb (g_required (t_g (get_task p (c_task cl))))) eqn:Er.
          -- injection Hgc as <-. apply Hfin; assumption.
          -- destruct (negb (g_enum (t_g (get_task p (c_task cl))))) eqn:Ee; [|discriminate].
             injection Hgc as <-. apply Hfin; assumption.
        * unfold step, get_act. rewrite Ha. simpl. rewrite Hq. right. exists x. repeat split; auto.
      + unfold step, get_act. rewrite Ha. simpl. destruct a; simpl; right; exists x; repeat split; auto.
    - unfold start_root. rewrite Hroots. destruct k as [|k]; simpl; [|destruct k; right; exists x; repeat split; auto].
      rewrite rg_precheck. simpl. unfold root_started. rewrite Ha. simpl. rewrite Hk, Hp. simpl.
      right. exists x. repeat split; auto.
  Qed.

  Lemma rg_run sched : rg_inv (run p c sched).
  Proof.
    unfold run. assert (H0 : rg_inv (init_state p)) by (left; repeat split; reflexivity).
    revert H0. generalize (init_state p). induction sched as [|ch sched IH]; intros s Hs; simpl; [exact Hs|].
    apply IH. apply rg_step. exact Hs.
  Qed.

  Theorem root_guard_result sched r : run_result p c (run p c sched) = Some r -> r = RErr e.
  Proof.
    unfold run_result. rewrite rg_precheck. simpl.
    destruct (rg_run sched) as [(Ha & Hg & Hrr)|(x & Ha & _ & _ & _ & [[Hq Hg]|[Hq Hg]])]; rewrite Ha; simpl.
    - rewrite Hg, Hrr, Hroots. simpl. discriminate.
    - rewrite Hq. simpl. discriminate.
    - rewrite Hq. simpl. rewrite Hg. intros E. injection E as <-. reflexivity.
  Qed.

  Theorem root_guard_exit_status sched r flag :
    run_result p c (run p c sched) = Some r ->
    exists n, e = ECode n /\ (n = 206 \/ n = 207) /\ r = RErr (ECode n) /\ exit_status flag r = n.
  Proof.
    intros Hr. rewrite (root_guard_result sched r Hr). unfold guard_code in Hgc.
    destruct (negb (g_platform _)); [discriminate|].
    destruct (negb (g_required _)); [injection Hgc as <-; exists 206; auto|].
    destruct (negb (g_enum _)); [injection Hgc as <-; exists 207; auto|discriminate].
  Qed.
End RootGuard.

Lemma exit_status_code flag n : exit_status flag (RErr (ECode n)) = n.
Proof. reflexivity. Qed.

(* ------------------------------------------------------------------ *)
(* the precondition clause of mon_C13_status is too strong             *)

Definition exq_mk (deps : list call) (cmds : list cmd) (rm : runmode) (g : guards) : task :=
  {| t_deps := deps; t_cmds := cmds; t_run := rm; t_ignore := false; t_internal := false; t_g := g |}.
Definition exq_call (t : nat) : call := {| c_task := t; c_var := VConst 0 |}.
Definition exq_noreq : guards :=
  {| g_platform := true; g_required := false; g_enum := true; g_precond := None; g_prompt := false; g_uptodate := false |}.
Definition exq_pre : guards :=
  {| g_platform := true; g_required := true; g_enum := true; g_precond := Some true; g_prompt := false; g_uptodate := false |}.
(* 0: root, deps [1; 2];  1: deps [3; 4];  2: calls 4;  3: a required variable is missing (206);
   4: run once, with a precondition that holds; --force-all *)
Definition exq_prog : prog :=
  [ exq_mk [exq_call 1; exq_call 2] [] Always dummy_guards;
    exq_mk [exq_call 3; exq_call 4] [] Always dummy_guards;
    exq_mk [] [CallC (exq_call 4)] Always dummy_guards;
    exq_mk [] [] Always exq_noreq;
    exq_mk [] [Shell 0 false] Once exq_pre ].
Definition exq_cfg : cfg :=
  {| cf_N := None; cf_parallel := false; cf_force := false; cf_forceall := true; cf_yes := false;
     cf_roots := [ exq_call 0 ]; cf_maxcall := 1000 |}.
(* the owner of task 4 (under 1) has forked; 2's call of 4 is skipped; 3 fails (206), the group of 1 is
   cancelled; the owner's precondition fails under the cancelled context; the skipped caller hands that
   error to 2, which returns it to the root's errgroup before 1 returns 206 *)
Definition exq_sched : list choice :=
  ChRoot 0 :: repeat (ChStep 0) 5 ++ repeat (ChStep 1) 5 ++ repeat (ChStep 4) 6 ++
  repeat (ChStep 2) 10 ++ repeat (ChStep 5) 6 ++ repeat (ChStep 3) 30 ++ repeat (ChStep 4) 30 ++
  repeat (ChStep 5) 10 ++ repeat (ChStep 2) 30 ++ repeat (ChStep 1) 30 ++ repeat (ChStep 0) 30.
Definition exq_trace : list event := trace (run exq_prog exq_cfg exq_sched).

Example guard_status_precond_refuted :
  failing_ends exq_prog exq_cfg exq_trace = [] /\
  skipped exq_trace = true /\
  ex_prefalse exq_prog = false /\
  run_result exq_prog exq_cfg (run exq_prog exq_cfg exq_sched) = Some (RErr EPrecond) /\
  mon_C13_status_old exq_prog exq_cfg exq_trace (RErr EPrecond) = false /\
  mon_C13_status exq_prog exq_cfg exq_trace (RErr EPrecond) = true.
Proof. vm_compute. repeat split; reflexivity. Qed.
