(* Frame lemma: a step of activation a changes only a (arbitrarily), appends fresh
   activations at PEntry, and may set the errgroup error of a's parent; everything else
   of every other activation is untouched. *)
From Coq Require Import List Arith Bool Lia.
Import ListNotations.
From TV Require Import Exec.Model Exec.Monitors Exec.Facts Exec.InvSlots Exec.Proj.

(* everything but the errgroup error *)
Definition noG (x : act) :=
  (a_path x, a_task x, a_var x, a_kind x, a_parent x, (a_ctx x, a_ectx x, a_pc x, a_holds x, a_defers x,
   (a_dexit x, a_kids x, a_gctx x, a_regkey x))).

Lemma noG_gerr x e : noG (set_gerr x e) = noG x. Proof. reflexivity. Qed.

Global Hint Rewrite (pj_set_act noG) (pj_emit noG) (pj_cancel noG) (pj_acquire noG) (pj_release noG)
  (pj_finish noG noG_gerr) : ngdb.

Lemma step_acts p c s a s' x :
  get_act s a = Some x -> step p c s a = Some s' ->
  exists x' news,
    pj noG s' = upd (pj noG s) a (noG x') ++ map noG news /\
    Forall (fun y => a_pc y = PEntry /\ a_parent y = Some a /\ a_gerr y = None /\ a_kids y = [] /\
                     a_regkey y = None /\ a_defers y = [] /\ (a_kind y = KDep -> a_pc x = PDepsFork)) news.
Proof.
  intros Hx H.
  pose proof (pj_lt noG _ _ _ Hx) as Hlt.
  step_cases H Hx;
    try (eexists; exists []; split; [|constructor]; simpl; rewrite app_nil_r;
         autorewrite with ngdb; simpl; autorewrite with ngdb; reflexivity).
  - apply fork_deps_spec in Heqp0. simpl in Heqp0.
    destruct Heqp0 as [news (Ha & _ & _ & _ & _ & _ & _ & _ & _ & _ & Hf & _)].
    eexists; exists news. split.
    + unfold pj at 1. rewrite acts_set_act, map_upd, Ha, release_acts, map_app.
      rewrite upd_app_l by exact Hlt. reflexivity.
    + eapply Forall_impl; [|exact Hf]. intros y (H1 & _ & _ & H4 & H5 & H6 & H7 & H8). repeat split; assumption.
  - eexists; eexists [_]. split.
    + unfold pj at 1. rewrite acts_set_act, map_upd. simpl. rewrite release_acts, map_app.
      rewrite upd_app_l by exact Hlt. reflexivity.
    + repeat constructor; simpl; discriminate.
  - eexists; eexists [_]. split.
    + unfold pj at 1. rewrite acts_set_act, map_upd. simpl. rewrite release_acts, map_app.
      rewrite upd_app_l by exact Hlt. reflexivity.
    + repeat constructor; simpl; discriminate.
Qed.

(* consequences *)
Lemma step_other p c s a s' j y :
  step p c s a = Some s' -> j <> a -> get_act s j = Some y ->
  exists y', get_act s' j = Some y' /\ noG y' = noG y.
Proof.
  intros H Hj Hy.
  destruct (get_act s a) as [x|] eqn:Hx; [|unfold step in H; rewrite Hx in H; discriminate].
  destruct (step_acts p c s a s' x Hx H) as [x' [news [E _]]].
  pose proof (pj_nth noG _ _ _ Hy) as Hn.
  assert (Hn' : nth_error (pj noG s') j = Some (noG y)).
  { rewrite E. rewrite nth_error_app1.
    - rewrite nth_error_upd_other by congruence. exact Hn.
    - rewrite upd_length. apply nth_error_Some. rewrite Hn. discriminate. }
  unfold pj in Hn'. rewrite nth_error_map in Hn'.
  destruct (nth_error (acts s') j) as [y'|] eqn:E'; [|discriminate].
  exists y'. split; [exact E'|]. simpl in Hn'. congruence.
Qed.

Lemma step_self p c s a s' x :
  step p c s a = Some s' -> get_act s a = Some x -> exists x', get_act s' a = Some x'.
Proof.
  intros H Hx. destruct (step_acts p c s a s' x Hx H) as [x' [news [E _]]].
  pose proof (pj_lt noG _ _ _ Hx) as Hlt.
  assert (Hn' : nth_error (pj noG s') a = Some (noG x')).
  { rewrite E. rewrite nth_error_app1 by (rewrite upd_length; exact Hlt).
    apply nth_error_upd_same with (y := noG x). apply pj_nth. exact Hx. }
  unfold pj in Hn'. rewrite nth_error_map in Hn'.
  destruct (nth_error (acts s') a) as [y'|] eqn:E'; [|discriminate]. exists y'. exact E'.
Qed.

Lemma step_length p c s a s' : step p c s a = Some s' -> length (acts s) <= length (acts s').
Proof.
  intros H. destruct (get_act s a) as [x|] eqn:Hx; [|unfold step in H; rewrite Hx in H; discriminate].
  destruct (step_acts p c s a s' x Hx H) as [x' [news [E _]]].
  apply (f_equal (@length _)) in E. unfold pj in E. rewrite app_length, upd_length, !map_length in E. lia.
Qed.

(* fresh activations *)
Lemma step_new p c s a s' j y :
  step p c s a = Some s' -> length (acts s) <= j -> get_act s' j = Some y ->
  a_pc y = PEntry /\ a_parent y = Some a /\ a_kids y = [] /\ a_regkey y = None /\ a_defers y = [] /\
  (a_kind y = KDep -> exists x, get_act s a = Some x /\ a_pc x = PDepsFork).
Proof.
  intros H Hj Hy.
  destruct (get_act s a) as [x|] eqn:Hx; [|unfold step in H; rewrite Hx in H; discriminate].
  destruct (step_acts p c s a s' x Hx H) as [x' [news [E Hf]]].
  pose proof (pj_nth noG _ _ _ Hy) as Hn. rewrite E in Hn.
  rewrite nth_error_app2 in Hn by (rewrite upd_length; unfold pj; rewrite map_length; exact Hj).
  rewrite upd_length in Hn. unfold pj in Hn. rewrite map_length, nth_error_map in Hn.
  destruct (nth_error news (j - length (acts s))) as [z|] eqn:Ez; [|discriminate].
  injection Hn as Hn. rewrite Forall_forall in Hf. destruct (Hf z (nth_error_In _ _ Ez)) as (Hz1 & Hz2 & _ & Hz4 & Hz5 & Hz6 & Hz7).
  unfold noG in Hn. inversion Hn. repeat split; try congruence.
  intros Hk. exists x. split; [reflexivity|]. apply Hz7. congruence.
Qed.
