From Coq Require Import List NArith Bool Permutation Lia.
Import ListNotations.
From TV Require Import Base.Shuffle Base.ShuffleFacts Output.Model.
Local Open Scope N_scope.

(* ------------------------------------------------------------------ *)
(* split_lines                                                         *)

Lemma split_lines_app a : forall acc b ls r,
  split_lines acc a = (ls, r) ->
  split_lines acc (a ++ b) =
    (let '(ls2, r2) := split_lines (rev r) b in (ls ++ ls2, r2)).
Proof.
  induction a as [|x a IH]; intros acc b ls r H; simpl in *.
  - injection H as <- <-. rewrite rev_involutive. simpl.
    destruct (split_lines acc b); reflexivity.
  - destruct (N.eqb x nl).
    + destruct (split_lines [] a) as [ls1 r1] eqn:E. injection H as <- <-.
      rewrite (IH [] b ls1 r1 E). destruct (split_lines (rev r1) b). reflexivity.
    + apply IH. exact H.
Qed.

Definition no_nl (s : bytes) : Prop := Forall (fun b => N.eqb b nl = false) s.

Lemma split_lines_rest_no_nl a : forall acc ls r,
  split_lines acc a = (ls, r) -> no_nl acc -> no_nl r.
Proof.
  induction a as [|x a IH]; intros acc ls r H Hacc; simpl in *.
  - injection H as <- <-. unfold no_nl in *. apply Forall_rev. exact Hacc.
  - destruct (N.eqb x nl) eqn:Ex.
    + destruct (split_lines [] a) as [ls1 r1] eqn:E. injection H as <- <-.
      eapply IH; [exact E|constructor].
    + eapply IH; [exact H|]. constructor; assumption.
Qed.

Lemma split_lines_no_nl_prefix r : forall acc b,
  no_nl r -> split_lines acc (r ++ b) = split_lines (rev r ++ acc) b.
Proof.
  induction r as [|x r IH]; intros acc b H; simpl.
  - reflexivity.
  - inversion H as [|? ? Hx Hr]; subst. rewrite Hx. rewrite IH by assumption.
    rewrite <- app_assoc. reflexivity.
Qed.

Lemma pw_close_app a b ls r :
  split_lines [] a = (ls, r) -> pw_close (a ++ b) = ls ++ pw_close (r ++ b).
Proof.
  intros H. unfold pw_close.
  rewrite (split_lines_app a [] b ls r H).
  assert (Hr : no_nl r) by (eapply split_lines_rest_no_nl; [exact H|constructor]).
  rewrite (split_lines_no_nl_prefix r [] b Hr). rewrite app_nil_r.
  destruct (split_lines (rev r) b) as [ls2 r2]. rewrite app_assoc. reflexivity.
Qed.

(* The lines a prefix writer emits do not depend on how the command's output
   was cut into Write calls. *)
Lemma pw_run_spec chunks : forall buf,
  pw_run buf chunks = pw_close (buf ++ concat chunks).
Proof.
  induction chunks as [|p rest IH]; intros buf; simpl.
  - rewrite app_nil_r. reflexivity.
  - unfold pw_write. destruct (split_lines [] (buf ++ p)) as [ls buf'] eqn:E.
    rewrite IH. rewrite app_assoc. symmetry. apply pw_close_app. exact E.
Qed.

Theorem prefixed_chunking_invariant chunks :
  prefixed_lines chunks = lines_of (concat chunks).
Proof. unfold prefixed_lines, lines_of. rewrite pw_run_spec. reflexivity. Qed.

(* nothing lost, nothing duplicated: the emitted lines are the output itself,
   plus one newline when the output did not end with one *)
Lemma split_lines_concat s : forall acc ls r,
  split_lines acc s = (ls, r) -> concat ls ++ r = rev acc ++ s.
Proof.
  induction s as [|x s IH]; intros acc ls r H; simpl in *.
  - injection H as <- <-. simpl. rewrite app_nil_r. reflexivity.
  - destruct (N.eqb x nl).
    + destruct (split_lines [] s) as [ls1 r1] eqn:E. injection H as <- <-.
      simpl. rewrite <- app_assoc. rewrite (IH [] ls1 r1 E). simpl.
      rewrite <- app_assoc. reflexivity.
    + rewrite (IH _ _ _ H). simpl. rewrite <- app_assoc. reflexivity.
Qed.

Definition needs_nl (s : bytes) : bool :=
  let '(_, r) := split_lines [] s in negb (is_nil r).

Theorem lines_no_loss s :
  concat (lines_of s) = s ++ (if needs_nl s then [nl] else []).
Proof.
  unfold lines_of, pw_close, needs_nl.
  destruct (split_lines [] s) as [ls r] eqn:E.
  pose proof (split_lines_concat s [] ls r E) as H. simpl in H.
  rewrite concat_app. destruct r as [|b r]; simpl.
  - rewrite !app_nil_r in *. exact H.
  - rewrite app_nil_r. rewrite <- H. rewrite <- !app_assoc. reflexivity.
Qed.

(* every emitted line is newline-terminated and has no inner newline: it is a whole line *)
Definition whole_line (l : bytes) : Prop := exists body, l = body ++ [nl] /\ no_nl body.

Lemma split_lines_whole s : forall acc ls r,
  split_lines acc s = (ls, r) -> no_nl acc ->
  match ls with
  | [] => True
  | l :: ls' => (exists body, l = rev acc ++ body ++ [nl] /\ no_nl body) /\ Forall whole_line ls'
  end.
Proof.
  induction s as [|x s IH]; intros acc ls r H Hacc; simpl in *.
  - injection H as <- <-. exact I.
  - destruct (N.eqb x nl) eqn:Ex.
    + destruct (split_lines [] s) as [ls1 r1] eqn:E. injection H as <- <-.
      split.
      * exists []. simpl. apply N.eqb_eq in Ex. subst x. split; [reflexivity|constructor].
      * specialize (IH [] ls1 r1 E (Forall_nil _)). destruct ls1 as [|l1 ls1']; [constructor|].
        destruct IH as [[body [Hb Hn]] Hrest]. constructor; [|exact Hrest].
        exists body. simpl in Hb. split; assumption.
    + specialize (IH (x :: acc) ls r H). 
      assert (Hx : no_nl (x :: acc)) by (constructor; assumption).
      specialize (IH Hx). destruct ls as [|l ls']; [exact I|].
      destruct IH as [[body [Hb Hn]] Hrest]. split; [|exact Hrest].
      exists (x :: body). simpl in Hb. rewrite <- app_assoc in Hb. simpl in Hb.
      split; [exact Hb|constructor; assumption].
Qed.

Theorem lines_are_whole s : Forall whole_line (lines_of s).
Proof.
  unfold lines_of, pw_close. destruct (split_lines [] s) as [ls r] eqn:E.
  pose proof (split_lines_whole s [] ls r E (Forall_nil _)) as H.
  assert (Hr : no_nl r) by (eapply split_lines_rest_no_nl; [exact E|constructor]).
  apply Forall_app. split.
  - destruct ls as [|l ls']; [constructor|]. destruct H as [[body [Hb Hn]] Hrest].
    constructor; [|exact Hrest]. exists body. split; assumption.
  - destruct r as [|b r]; simpl; [constructor|]. constructor; [|constructor].
    exists (b :: r). split; [reflexivity|exact Hr].
Qed.

(* ------------------------------------------------------------------ *)
(* strip_prefix                                                        *)

Lemma strip_prefix_app p s : strip_prefix p (p ++ s) = Some s.
Proof. induction p as [|x p IH]; simpl; [reflexivity|]. rewrite N.eqb_refl. exact IH. Qed.

(* ------------------------------------------------------------------ *)
(* queues_cover is complete for interleavings                          *)

Lemma take_head_In (x : bytes) l ls2 rest : forall ls1 pre,
  In (rest, pre ++ ls1 ++ l :: ls2) (take_head pre (ls1 ++ (x :: l) :: ls2) (x ++ rest)).
Proof.
  induction ls1 as [|q ls1 IH]; intros pre; simpl.
  - rewrite strip_prefix_app. left. reflexivity.
  - destruct q as [|y q].
    + specialize (IH (pre ++ [[]])). rewrite <- app_assoc in IH. exact IH.
    + destruct (strip_prefix y (x ++ rest)).
      * right. specialize (IH (pre ++ [y :: q])). rewrite <- app_assoc in IH. exact IH.
      * specialize (IH (pre ++ [y :: q])). rewrite <- app_assoc in IH. exact IH.
Qed.

Lemma forallb_is_nil_false (ls1 : list (list bytes)) x l ls2 :
  forallb is_nil (ls1 ++ (x :: l) :: ls2) = false.
Proof. rewrite forallb_app. simpl. apply andb_false_r. Qed.

Lemma forallb_is_nil_true (ls : list (list bytes)) :
  Forall (fun l => l = []) ls -> forallb is_nil ls = true.
Proof. induction 1 as [|l ls H _ IH]; simpl; [reflexivity|]. subst. exact IH. Qed.

Lemma Shuffle_length {A} (ls : list (list A)) w : Shuffle ls w -> length w = length (concat ls).
Proof. intros H. apply Permutation_length. apply Shuffle_perm. exact H. Qed.

Lemma queues_cover_complete (qs : list (list bytes)) w :
  Shuffle qs w -> forall fuel, (length w < fuel)%nat -> queues_cover fuel qs (concat w) = true.
Proof.
  induction 1 as [ls H | ls1 x l ls2 w Hs IH]; intros fuel Hf.
  - destruct fuel; [lia|]. simpl. rewrite forallb_is_nil_true by assumption. reflexivity.
  - destruct fuel; [simpl in Hf; lia|]. cbn [queues_cover].
    rewrite forallb_is_nil_false. apply existsb_exists.
    exists (concat w, [] ++ ls1 ++ l :: ls2). split.
    + cbn [concat]. apply take_head_In.
    + simpl. apply IH. simpl in Hf. lia.
Qed.

(* ------------------------------------------------------------------ *)
(* blocks_cover is complete for permutations                           *)

Lemma take_block_In b s' : forall l1 l2 pre,
  In (s', rev_append pre (l1 ++ l2)) (take_block pre (l1 ++ b :: l2) (b ++ s')) \/
  (exists l1a l1b, l1 = l1a ++ b :: l1b /\
     In (s', rev_append pre (l1a ++ l1b ++ b :: l2)) (take_block pre (l1 ++ b :: l2) (b ++ s'))).
Proof.
  induction l1 as [|c l1 IH]; intros l2 pre; simpl.
  - left. rewrite strip_prefix_app. left. reflexivity.
  - destruct (strip_prefix c (b ++ s')) eqn:E.
    + specialize (IH l2 (c :: pre)). simpl in IH. destruct IH as [IH|[l1a [l1b [-> IH]]]].
      * left. right. exact IH.
      * right. exists (c :: l1a), l1b. split; [reflexivity|]. right. exact IH.
    + specialize (IH l2 (c :: pre)). simpl in IH. destruct IH as [IH|[l1a [l1b [-> IH]]]].
      * left. exact IH.
      * right. exists (c :: l1a), l1b. split; [reflexivity|]. exact IH.
Qed.

Lemma blocks_cover_complete : forall order blocks fuel,
  Permutation order blocks -> (length blocks < fuel)%nat ->
  blocks_cover fuel blocks (concat order) = true.
Proof.
  induction order as [|b order IH]; intros blocks fuel Hp Hf.
  - apply Permutation_nil in Hp. subst. destruct fuel; [lia|]. reflexivity.
  - destruct fuel; [lia|].
    assert (Hin : In b blocks) by (eapply Permutation_in; [exact Hp|left; reflexivity]).
    apply in_split in Hin. destruct Hin as [l1 [l2 ->]].
    assert (Hp' : Permutation order (l1 ++ l2)) by (eapply Permutation_cons_app_inv; exact Hp).
    cbn [blocks_cover concat]. destruct (l1 ++ b :: l2) eqn:El; [destruct l1; discriminate|]. rewrite <- El in *.
    apply existsb_exists.
    destruct (take_block_In b (concat order) l1 l2 []) as [H|[l1a [l1b [-> H]]]].
    + eexists; split; [exact H|]. cbn [rev_append]. apply IH.
      * exact Hp'.
      * rewrite app_length in *. simpl in Hf. lia.
    + eexists; split; [exact H|]. cbn [rev_append]. apply IH.
      * eapply Permutation_trans; [exact Hp'|].
        rewrite <- !app_assoc. apply Permutation_app_head. simpl.
        apply Permutation_middle.
      * repeat (rewrite app_length in * || cbn [length] in * ). lia.
Qed.

(* ------------------------------------------------------------------ *)
(* group: with a single write per command, every interleaving is a      *)
(* concatenation of whole blocks                                        *)

Lemma group_atoms_concat cfg cmds :
  concat (map (group_atoms true cfg) cmds) =
  map (fun c => [g_block cfg c]) (filter (g_flushes cfg) cmds).
Proof.
  induction cmds as [|c cmds IH]; simpl; [reflexivity|].
  unfold group_atoms at 1. destruct (g_flushes cfg c); simpl; rewrite IH; reflexivity.
Qed.

Lemma stream_map_single (f : gcmd -> bytes) order :
  stream (map (fun c => [f c]) order) = concat (map f order).
Proof.
  unfold stream. induction order as [|c order IH]; simpl; [reflexivity|].
  rewrite IH. reflexivity.
Qed.

Theorem group_blocks_contiguous cfg cmds w :
  Shuffle (map (group_atoms true cfg) cmds) w ->
  exists order, Permutation order (filter (g_flushes cfg) cmds) /\
                stream w = concat (map (g_block cfg) order).
Proof.
  intros H. apply Shuffle_perm in H. rewrite group_atoms_concat in H.
  apply Permutation_map_inv in H. destruct H as [order [-> Hp]].
  exists order. split; [apply Permutation_sym; exact Hp|]. apply stream_map_single.
Qed.

Theorem group_monitor_holds cfg cmds w :
  Shuffle (map (group_atoms true cfg) cmds) w ->
  mon_group cfg cmds (stream w) = true.
Proof.
  intros H. destruct (group_blocks_contiguous cfg cmds w H) as [order [Hp ->]].
  unfold mon_group. apply blocks_cover_complete.
  - apply Permutation_map. exact Hp.
  - lia.
Qed.

(* error_only: the block appears iff the command failed (and wrote something) *)
Theorem group_error_only cfg c :
  g_error_only cfg = true ->
  (group_atoms true cfg c <> [] <-> g_failed c = true /\ g_body c <> []).
Proof.
  intros He. unfold group_atoms, g_flushes. rewrite He. simpl.
  destruct (g_failed c); simpl; destruct (g_body c); simpl; split; intros H;
    try discriminate; try (destruct H; congruence); try (split; congruence); congruence.
Qed.

(* the two-write variant (begin line and body written separately) can be torn *)
Definition torn_cfg : gcfg := {| g_begin := [66; 10]; g_end := []; g_error_only := false |}.
Definition torn_cmds : list gcmd :=
  [ {| g_chunks := [[97; 10]]; g_failed := false |}; {| g_chunks := [[98; 10]]; g_failed := false |} ].
Definition torn_w : list (list bytes) := [[[66; 10]]; [[66; 10]]; [[97; 10]]; [[98; 10]]].

Theorem group_two_writes_refuted :
  Shuffle (map (group_atoms false torn_cfg) torn_cmds) torn_w /\
  mon_group torn_cfg torn_cmds (stream torn_w) = false.
Proof.
  split; [|vm_compute; reflexivity].
  unfold torn_w. cbn.
  apply (Sh_take [] [[66;10]] [[[97;10]]] [[[[66; 10]]; [[98; 10]]]]).
  apply (Sh_take [[[[97;10]]]] [[66;10]] [[[98;10]]] []).
  apply (Sh_take [] [[97;10]] [] [[[[98; 10]]]]).
  apply (Sh_take [[]] [[98;10]] [] []).
  apply Sh_done. repeat constructor.
Qed.

(* ------------------------------------------------------------------ *)
(* prefixed                                                             *)

Lemma concat_pw_atom p l : concat (pw_atom p l) = pline p l.
Proof. unfold pw_atom, pline. simpl. rewrite app_nil_r. reflexivity. Qed.

Lemma Shuffle_map {A B} (f : A -> B) (ls : list (list A)) w :
  Shuffle ls w -> Shuffle (map (map f) ls) (map f w).
Proof.
  induction 1 as [ls H | ls1 x l ls2 w Hs IH].
  - apply Sh_done. induction H as [|l ls Hl _ IH]; simpl; constructor; [subst; reflexivity|exact IH].
  - rewrite map_app in *. simpl in *. apply Sh_take. exact IH.
Qed.

Definition pcmd_atoms (c : bytes * list bytes) : list (list bytes) :=
  let '(p, ch) := c in prefixed_atoms p ch.

Theorem prefixed_monitor_holds (cmds : list (bytes * list bytes)) w :
  Shuffle (map pcmd_atoms cmds) w ->
  mon_prefixed cmds (stream w) = true.
Proof.
  intros H. unfold mon_prefixed, stream.
  apply (Shuffle_map (@concat N)) in H.
  rewrite map_map in H.
  assert (E : map (fun x => map (@concat N) (pcmd_atoms x)) cmds =
              map (fun '(prefix, chunks) => map (pline prefix) (lines_of (concat chunks))) cmds).
  { apply map_ext. intros [p ch]. unfold pcmd_atoms, prefixed_atoms.
    rewrite map_map. rewrite prefixed_chunking_invariant.
    apply map_ext. intros l. apply concat_pw_atom. }
  rewrite E in H.
  assert (Ec : concat (concat w) = concat (map (@concat N) w)).
  { clear. induction w as [|a w IH]; simpl; [reflexivity|]. rewrite concat_app, IH. reflexivity. }
  rewrite Ec.
  apply queues_cover_complete; [exact H|].
  pose proof (Shuffle_length _ _ H) as HL. unfold bytes in *. rewrite HL. apply le_n.
Qed.

(* each command's prefixed lines, in order, each exactly once *)
Theorem prefixed_per_command p chunks :
  map (@concat N) (prefixed_atoms p chunks) = map (pline p) (lines_of (concat chunks)).
Proof.
  unfold prefixed_atoms. rewrite map_map, prefixed_chunking_invariant.
  apply map_ext. intros l. apply concat_pw_atom.
Qed.
