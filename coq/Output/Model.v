(* Model F: the output wrappers of internal/output (group.go, prefixed.go) as
   seen from the shared sink.  Bytes are [N]; a "write" is one call of the
   sink's Write; an "atom" is a list of writes that no other command can
   split (one mutex section, or a single write). *)
From Coq Require Import List NArith Bool.
Import ListNotations.
Local Open Scope N_scope.

Definition bytes := list N.
Definition nl : N := 10.

(* ---------- group.go ---------- *)

Record gcmd := {
  g_chunks : list bytes;      (* the command's Write calls on the wrapper *)
  g_failed : bool             (* did the command return an error *)
}.

Record gcfg := { g_begin : bytes; g_end : bytes; g_error_only : bool }.
(* g_begin / g_end already carry their trailing newline when set, [] when unset
   (WrapWriter: templater.Replace(g.Begin) + "\n" only if g.Begin != ""). *)

Definition is_nil {A} (l : list A) : bool := match l with [] => true | _ => false end.

Definition g_body (c : gcmd) : bytes := concat (g_chunks c).

(* does the closer flush anything *)
Definition g_flushes (cfg : gcfg) (c : gcmd) : bool :=
  negb (g_error_only cfg && negb (g_failed c)) && negb (is_nil (g_body c)).

Definition g_block (cfg : gcfg) (c : gcmd) : bytes := g_begin cfg ++ g_body c ++ g_end cfg.

(* sink writes issued by groupWriter.close(), as a list of atoms.
   [one_write = true]: begin+body+end in a single Write (one atom);
   [one_write = false]: io.WriteString(begin) then io.Copy(body+end): two
   separate writes, hence two atoms that another command may separate. *)
Definition group_atoms (one_write : bool) (cfg : gcfg) (c : gcmd) : list (list bytes) :=
  if g_flushes cfg c then
    if one_write then [[g_block cfg c]]
    else [[g_begin cfg]; [g_body c ++ g_end cfg]]
  else [].

(* ---------- prefixed.go ---------- *)

(* split at newlines: complete lines (each ending in nl) and the unterminated rest *)
Fixpoint split_lines (acc : bytes) (s : bytes) : list bytes * bytes :=
  match s with
  | [] => ([], rev acc)
  | b :: s' =>
      if N.eqb b nl then
        let '(ls, r) := split_lines [] s' in (rev (b :: acc) :: ls, r)
      else split_lines (b :: acc) s'
  end.

(* prefixWriter.Write: append, emit the complete lines, keep the rest buffered *)
Definition pw_write (buf p : bytes) : list bytes * bytes := split_lines [] (buf ++ p).

(* prefixWriter.close: emit everything; an unterminated rest gets a newline; "" is dropped *)
Definition pw_close (buf : bytes) : list bytes :=
  let '(ls, r) := split_lines [] buf in
  ls ++ (if is_nil r then [] else [r ++ [nl]]).

Fixpoint pw_run (buf : bytes) (chunks : list bytes) : list bytes :=
  match chunks with
  | [] => pw_close buf
  | p :: rest => let '(ls, buf') := pw_write buf p in ls ++ pw_run buf' rest
  end.

(* the lines a command emits, for a given chunking of its output *)
Definition prefixed_lines (chunks : list bytes) : list bytes := pw_run [] chunks.

(* specification: the lines of the whole output, chunking forgotten *)
Definition lines_of (s : bytes) : list bytes := pw_close s.

Definition lbr : N := 91.  Definition rbr : N := 93.  Definition sp : N := 32.

(* writeLine: one mutex section with four sink writes *)
Definition pw_atom (prefix line : bytes) : list bytes := [[lbr]; prefix; [rbr; sp]; line].

Definition prefixed_atoms (prefix : bytes) (chunks : list bytes) : list (list bytes) :=
  map (pw_atom prefix) (prefixed_lines chunks).

(* ---------- what reaches the sink ---------- *)

Definition stream (w : list (list bytes)) : bytes := concat (concat w).

(* ---------- monitors (the same boolean functions are evaluated on the
   writes the real Executor produced) ---------- *)

Fixpoint beqb (a b : bytes) : bool :=
  match a, b with
  | [], [] => true
  | x :: a', y :: b' => N.eqb x y && beqb a' b'
  | _, _ => false
  end.

Fixpoint strip_prefix (p s : bytes) : option bytes :=
  match p, s with
  | [], _ => Some s
  | x :: p', y :: s' => if N.eqb x y then strip_prefix p' s' else None
  | _ :: _, [] => None
  end.

(* remove the first block that is a prefix of s; returns the rest of s and the remaining blocks *)
Fixpoint take_block (pre blocks : list bytes) (s : bytes) : list (bytes * list bytes) :=
  match blocks with
  | [] => []
  | b :: rest =>
      match strip_prefix b s with
      | Some s' => (s', rev_append pre rest) :: take_block (b :: pre) rest s
      | None => take_block (b :: pre) rest s
      end
  end.

(* is s a concatenation of all the blocks, each used once, in some order *)
Fixpoint blocks_cover (fuel : nat) (blocks : list bytes) (s : bytes) : bool :=
  match fuel with
  | O => false
  | S f =>
      match blocks with
      | [] => is_nil s
      | _ => existsb (fun '(s', bl') => blocks_cover f bl' s') (take_block [] blocks s)
      end
  end.

Definition mon_group (cfg : gcfg) (cmds : list gcmd) (sink : bytes) : bool :=
  let blocks := map (g_block cfg) (filter (g_flushes cfg) cmds) in
  blocks_cover (S (length blocks)) blocks sink.

(* prefixed: the sink is a concatenation of whole prefixed lines, each command's lines in order *)
Definition pline (prefix line : bytes) : bytes := lbr :: prefix ++ [rbr; sp] ++ line.

Fixpoint take_head (pre : list (list bytes)) (qs : list (list bytes)) (s : bytes)
  : list (bytes * list (list bytes)) :=
  match qs with
  | [] => []
  | [] :: rest => take_head (pre ++ [[]]) rest s
  | (l :: q) :: rest =>
      match strip_prefix l s with
      | Some s' => (s', pre ++ q :: rest) :: take_head (pre ++ [l :: q]) rest s
      | None => take_head (pre ++ [l :: q]) rest s
      end
  end.

Fixpoint queues_cover (fuel : nat) (qs : list (list bytes)) (s : bytes) : bool :=
  match fuel with
  | O => false
  | S f =>
      if forallb is_nil qs then is_nil s
      else existsb (fun '(s', qs') => queues_cover f qs' s') (take_head [] qs s)
  end.

Definition mon_prefixed (cmds : list (bytes * list bytes)) (sink : bytes) : bool :=
  let qs := map (fun '(prefix, chunks) => map (pline prefix) (lines_of (concat chunks))) cmds in
  queues_cover (S (length (concat qs))) qs sink.
