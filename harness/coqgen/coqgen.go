// Package coqgen prints Go values as Coq terms for cases.v files.
package coqgen

import (
	"fmt"
	"strings"
)

func Bool(b bool) string {
	if b {
		return "true"
	}
	return "false"
}

func Nat(n int) string { return fmt.Sprintf("%d", n) }

// Bytes renders a byte string as a list of N.
func Bytes(b []byte) string {
	if len(b) == 0 {
		return "[]"
	}
	var sb strings.Builder
	sb.WriteString("[")
	for i, c := range b {
		if i > 0 {
			sb.WriteString(";")
		}
		fmt.Fprintf(&sb, "%d", c)
	}
	sb.WriteString("]%N")
	return sb.String()
}

func List(items []string) string {
	if len(items) == 0 {
		return "[]"
	}
	return "[" + strings.Join(items, "; ") + "]"
}

func BytesList(bs [][]byte) string {
	items := make([]string, len(bs))
	for i, b := range bs {
		items[i] = Bytes(b)
	}
	return List(items)
}

// Str renders a Coq string literal (only printable ASCII is expected; '"' is doubled).
func Str(s string) string {
	return "\"" + strings.ReplaceAll(s, "\"", "\"\"") + "\"%string"
}

func StrList(ss []string) string {
	items := make([]string, len(ss))
	for i, s := range ss {
		items[i] = Str(s)
	}
	return List(items)
}

func NatList(ns []int) string {
	items := make([]string, len(ns))
	for i, n := range ns {
		items[i] = Nat(n)
	}
	return List(items)
}

func Pair(a, b string) string { return "(" + a + ", " + b + ")" }

func OptNat(n *int) string {
	if n == nil {
		return "None"
	}
	return fmt.Sprintf("(Some %d)", *n)
}
