// Package forloop is the correspondence driver of the for-loop expansion model
// (coq/Exec/ForLoop.v, property C02): generated Taskfiles whose cmds and deps
// contain `for:` loops of every modelled form are compiled by the REAL
// Executor.CompiledTask / FastCompiledTask; the expanded Cmds / Deps (command
// text, or callee + rendered call vars) are dumped in order into cases.v, where
// Coq compares them with the model's `expand` ("agree") and evaluates the
// monitor mon_for on them ("mon").  A sample of tasks is RUN by the real
// Executor (sequential `echo` commands and task calls) and the order of the
// output lines is judged by the same specification.
package forloop

import (
	"bytes"
	"context"
	"encoding/json"
	"fmt"
	"io"
	"math/rand"
	"os"
	"path/filepath"
	"reflect"
	"runtime/debug"
	"strconv"
	"strings"
	"time"

	task "github.com/go-task/task/v3"
	"github.com/go-task/task/v3/internal/fingerprint"
	"github.com/go-task/task/v3/taskfile/ast"
	"github.com/go-task/task/v3/verifharness/common"
	cg "github.com/go-task/task/v3/verifharness/coqgen"
)

// ---------------------------------------------------------------- abstract input (mirrors Exec/ForLoop.v)

// Piece: Var == "" : literal Lit; Field == "" : {{.Var}}; else {{.Var.Field}}
type Piece struct {
	Lit   string `json:"lit,omitempty"`
	Var   string `json:"var,omitempty"`
	Field string `json:"field,omitempty"`
}

type VarT struct {
	Name string  `json:"name"`
	T    []Piece `json:"t"`
}

// Attrs: every field of ast.Cmd / ast.Dep besides the text / callee / vars / loop definition; the
// expansion must carry them over to each command it produces.  Platforms as written in the Taskfile.
type Attrs struct {
	IgnoreError bool     `json:"ignore_error,omitempty"`
	Silent      bool     `json:"silent,omitempty"`
	Set         []string `json:"set,omitempty"`
	Shopt       []string `json:"shopt,omitempty"`
	Platforms   []string `json:"platforms,omitempty"`
	Defer       bool     `json:"defer,omitempty"`
}

func (a Attrs) zero() bool {
	return !a.IgnoreError && !a.Silent && len(a.Set) == 0 && len(a.Shopt) == 0 && len(a.Platforms) == 0 && !a.Defer
}

// CmdT: a shell command template (Call false) or a task call template
type CmdT struct {
	Attrs Attrs   `json:"attrs"`
	Call  bool    `json:"call,omitempty"`
	Shell []Piece `json:"shell,omitempty"`
	Task  []Piece `json:"task,omitempty"`
	Vars  []VarT  `json:"vars,omitempty"`
}

type KV struct {
	K string `json:"k"`
	V string `json:"v"`
}

// XCmd: an expanded command: shell text, or callee + rendered call vars in order
type XCmd struct {
	Attrs Attrs  `json:"attrs"`
	Call  bool   `json:"call,omitempty"`
	Shell string `json:"shell,omitempty"`
	Task  string `json:"task,omitempty"`
	Vars  []KV   `json:"vars,omitempty"`
}

type Row struct {
	Key   string   `json:"key"`
	Items []string `json:"items"`
	Ref   bool     `json:"ref,omitempty"` // written as {ref: .VAR} with VAR a list variable of the task
}

type Loop struct {
	Kind  string   `json:"kind"` // list | varlist | files | matrix | split | map
	Items []string `json:"items,omitempty"`
	Rows  []Row    `json:"rows,omitempty"`
	Value string   `json:"value,omitempty"`
	Sep   string   `json:"sep,omitempty"`
	KVs   []KV     `json:"kvs,omitempty"`
	From  string   `json:"from,omitempty"` // files: sources | generates (Items = what fingerprint.Globs returns, filled in at run time)
}

type Entry struct {
	Kind  string `json:"kind"` // plain | null | for
	Plain *XCmd  `json:"plain,omitempty"`
	Loop  *Loop  `json:"loop,omitempty"`
	As    string `json:"as,omitempty"`
	C     *CmdT  `json:"c,omitempty"`
}

// Case is one replayable input.
type Case struct {
	Kind    string   `json:"kind"`   // compile | run
	Family  string   `json:"family"` // which generator
	Fast    bool     `json:"fast,omitempty"`
	Cmds    []Entry  `json:"cmds"`
	Deps    []Entry  `json:"deps,omitempty"`
	Sources []string `json:"sources,omitempty"` // globs of sources:
	Gens    []string `json:"generates,omitempty"`
	Files   []string `json:"files,omitempty"` // files created in the task dir
	// observed
	ObsCmds []XCmd   `json:"obs_cmds,omitempty"`
	ObsDeps []XCmd   `json:"obs_deps,omitempty"`
	Lines   []string `json:"lines,omitempty"`
	OK      bool     `json:"ok,omitempty"` // run cases: Run returned nil
}

// ---------------------------------------------------------------- Taskfile rendering

func q(s string) string { b, _ := json.Marshal(s); return string(b) }

// a list item: digits-only items are written as YAML integers (the loop value is then an int)
func qItem(s string) string {
	if len(s) > 0 && len(s) < 6 && s[0] != '0' {
		if _, err := strconv.Atoi(s); err == nil && !strings.ContainsAny(s, "+-") {
			return s
		}
	}
	return q(s)
}

func qItems(ss []string) string {
	p := make([]string, len(ss))
	for i, s := range ss {
		p[i] = qItem(s)
	}
	return "[" + strings.Join(p, ", ") + "]"
}

func tmplText(t []Piece) string {
	var sb strings.Builder
	for _, p := range t {
		switch {
		case p.Var == "":
			sb.WriteString(p.Lit)
		case p.Field == "":
			sb.WriteString("{{." + p.Var + "}}")
		default:
			sb.WriteString("{{." + p.Var + "." + p.Field + "}}")
		}
	}
	return sb.String()
}

type tfBuilder struct {
	vars []string // lines of the task's vars: block
	nvar int
}

func (b *tfBuilder) newVar(val string) string {
	name := fmt.Sprintf("X%d", b.nvar)
	b.nvar++
	b.vars = append(b.vars, fmt.Sprintf("      %s: %s", name, val))
	return name
}

func (b *tfBuilder) forText(l *Loop, as string) string {
	asPart := ""
	if as != "" {
		asPart = ", as: " + q(as)
	}
	switch l.Kind {
	case "list":
		return qItems(l.Items) // `as` is not expressible with the list form
	case "files":
		return l.From
	case "varlist":
		return "{var: " + b.newVar(qItems(l.Items)) + asPart + "}"
	case "map":
		var kvs []string
		for _, kv := range l.KVs {
			kvs = append(kvs, q(kv.K)+": "+q(kv.V))
		}
		return "{var: " + b.newVar("{map: {"+strings.Join(kvs, ", ")+"}}") + asPart + "}"
	case "split":
		s := "{var: " + b.newVar(q(l.Value))
		if l.Sep != "" {
			s += ", split: " + q(l.Sep)
		}
		return s + asPart + "}"
	case "matrix":
		var rows []string
		for _, r := range l.Rows {
			if r.Ref {
				rows = append(rows, q(r.Key)+": {ref: ."+b.newVar(qItems(r.Items))+"}")
			} else {
				rows = append(rows, q(r.Key)+": "+qItems(r.Items))
			}
		}
		return "{matrix: {" + strings.Join(rows, ", ") + "}" + asPart + "}"
	}
	panic("loop kind " + l.Kind)
}

// the attribute keys of a cmds / deps entry (", key: value" ...), in the forms the decoder reads them:
// a cmd: entry takes all of them, a task: entry / a dep / a defer: entry only silent
func attrsText(a Attrs) string {
	var sb strings.Builder
	if a.IgnoreError {
		sb.WriteString(", ignore_error: true")
	}
	if a.Silent {
		sb.WriteString(", silent: true")
	}
	if len(a.Set) > 0 {
		sb.WriteString(", set: " + qStrs(a.Set))
	}
	if len(a.Shopt) > 0 {
		sb.WriteString(", shopt: " + qStrs(a.Shopt))
	}
	if len(a.Platforms) > 0 {
		sb.WriteString(", platforms: " + qStrs(a.Platforms))
	}
	return sb.String()
}

func varsText(vs []KV) string {
	var p []string
	for _, kv := range vs {
		p = append(p, kv.K+": "+q(kv.V))
	}
	return "{" + strings.Join(p, ", ") + "}"
}

func (b *tfBuilder) entryText(e *Entry, dep bool) string {
	switch e.Kind {
	case "null":
		return "~"
	case "plain":
		x := e.Plain
		if x.Call {
			s := "{task: " + q(x.Task)
			if len(x.Vars) > 0 {
				s += ", vars: " + varsText(x.Vars)
			}
			return s + attrsText(x.Attrs) + "}"
		}
		if x.Attrs.Defer {
			return "{defer: " + q(x.Shell) + attrsText(x.Attrs) + "}"
		}
		if x.Attrs.zero() {
			return q(x.Shell)
		}
		return "{cmd: " + q(x.Shell) + attrsText(x.Attrs) + "}"
	case "for":
		s := "{for: " + b.forText(e.Loop, e.As) + ", "
		if e.C.Call {
			s += "task: " + q(tmplText(e.C.Task))
			if len(e.C.Vars) > 0 {
				var vs []KV
				for _, v := range e.C.Vars {
					vs = append(vs, KV{v.Name, tmplText(v.T)})
				}
				s += ", vars: " + varsText(vs)
			}
		} else {
			s += "cmd: " + q(tmplText(e.C.Shell))
		}
		return s + attrsText(e.C.Attrs) + "}"
	}
	panic("entry kind " + e.Kind)
}

func taskfileOf(c *Case) string {
	b := &tfBuilder{}
	var cmds, deps []string
	for i := range c.Cmds {
		cmds = append(cmds, "      - "+b.entryText(&c.Cmds[i], false))
	}
	for i := range c.Deps {
		deps = append(deps, "      - "+b.entryText(&c.Deps[i], true))
	}
	var sb strings.Builder
	sb.WriteString("version: '3'\nsilent: true\ntasks:\n  t:\n")
	if len(b.vars) > 0 {
		sb.WriteString("    vars:\n" + strings.Join(b.vars, "\n") + "\n")
	}
	if len(c.Sources) > 0 {
		sb.WriteString("    sources: " + qStrs(c.Sources) + "\n")
	}
	if len(c.Gens) > 0 {
		sb.WriteString("    generates: " + qStrs(c.Gens) + "\n")
	}
	if len(deps) > 0 {
		sb.WriteString("    deps:\n" + strings.Join(deps, "\n") + "\n")
	}
	if len(cmds) > 0 {
		sb.WriteString("    cmds:\n" + strings.Join(cmds, "\n") + "\n")
	} else {
		sb.WriteString("    cmds: []\n")
	}
	for _, s := range []string{"sub1", "sub2"} {
		fmt.Fprintf(&sb, "  %s:\n    cmds:\n      - %s\n", s, q(`echo "`+s+`:{{.V}}"`))
	}
	return sb.String()
}

func qStrs(ss []string) string {
	p := make([]string, len(ss))
	for i, s := range ss {
		p[i] = q(s)
	}
	return "[" + strings.Join(p, ", ") + "]"
}

// ---------------------------------------------------------------- running the real code

func hasFiles(es []Entry) bool {
	for _, e := range es {
		if e.Kind == "for" && e.Loop.Kind == "files" {
			return true
		}
	}
	return false
}

// Every field of ast.Cmd / ast.Dep is accounted for by name: Cmd / Task / Vars are the body, For is the
// loop definition (the expanded command keeps a copy that nothing reads afterwards: not compared),
// the rest are attributes.  A field this driver does not know is reported (unknown-field) instead of
// being ignored silently.
var bodyFields = map[string]bool{"Cmd": true, "Task": true, "Vars": true, "For": true}

func platformText(p *ast.Platform) string {
	switch {
	case p == nil:
		return "<nil>"
	case p.Arch == "":
		return p.OS
	case p.OS == "":
		return p.Arch
	}
	return p.OS + "/" + p.Arch
}

// attrsOf reads the attribute fields of an ast.Cmd / ast.Dep value by reflection.
func attrsOf(v reflect.Value) (a Attrs, unknown []string) {
	t := v.Type()
	for i := 0; i < t.NumField(); i++ {
		name, f := t.Field(i).Name, v.Field(i)
		if bodyFields[name] {
			continue
		}
		switch name {
		case "IgnoreError":
			a.IgnoreError = f.Bool()
		case "Silent":
			a.Silent = f.Bool()
		case "Defer":
			a.Defer = f.Bool()
		case "Set":
			a.Set = append([]string(nil), f.Interface().([]string)...)
		case "Shopt":
			a.Shopt = append([]string(nil), f.Interface().([]string)...)
		case "Platforms":
			for _, p := range f.Interface().([]*ast.Platform) {
				a.Platforms = append(a.Platforms, platformText(p))
			}
		default:
			unknown = append(unknown, t.Name()+"."+name)
		}
	}
	return a, unknown
}

// unknownFields: fields of ast.Cmd / ast.Dep / ast.Platform the model has no counterpart for
func unknownFields() []string {
	_, u1 := attrsOf(reflect.ValueOf(ast.Cmd{}))
	_, u2 := attrsOf(reflect.ValueOf(ast.Dep{}))
	pt := reflect.TypeOf(ast.Platform{})
	for i := 0; i < pt.NumField(); i++ {
		if n := pt.Field(i).Name; n != "OS" && n != "Arch" {
			u2 = append(u2, "Platform."+n)
		}
	}
	return append(u1, u2...)
}

func dumpVars(vs *ast.Vars) []KV {
	var out []KV
	for k, v := range vs.All() {
		out = append(out, KV{k, fmt.Sprint(v.Value)})
	}
	return out
}

// runCase writes the Taskfile, compiles (and for run cases executes) task t with the real code.
func runCase(c *Case) (tf string, err error) {
	dir, err := os.MkdirTemp("", "vh-for")
	if err != nil {
		return "", err
	}
	defer os.RemoveAll(dir)
	if dir, err = filepath.EvalSymlinks(dir); err != nil {
		return "", err
	}
	for _, f := range c.Files {
		if err := os.WriteFile(filepath.Join(dir, f), []byte(f), 0o644); err != nil {
			return "", err
		}
	}
	tf = taskfileOf(c)
	if err := os.WriteFile(filepath.Join(dir, "Taskfile.yml"), []byte(tf), 0o644); err != nil {
		return tf, err
	}
	var stdout bytes.Buffer
	e := task.NewExecutor(task.WithDir(dir), task.WithStdout(&stdout), task.WithStderr(io.Discard), task.WithSilent(true), task.WithVersionCheck(false))
	if err := e.Setup(); err != nil {
		return tf, fmt.Errorf("setup: %w", err)
	}
	// the oracle of for: sources / generates = what the real glob expansion returns (with the Taskfile
	// in place), relative to the dir
	if hasFiles(c.Cmds) || hasFiles(c.Deps) {
		fill := func(es []Entry) error {
			for i := range es {
				if es[i].Kind != "for" || es[i].Loop.Kind != "files" {
					continue
				}
				gl := c.Sources
				if es[i].Loop.From == "generates" {
					gl = c.Gens
				}
				var globs []*ast.Glob
				for _, g := range gl {
					globs = append(globs, &ast.Glob{Glob: g})
				}
				fs, err := fingerprint.Globs(dir, globs)
				if err != nil {
					return err
				}
				es[i].Loop.Items = nil
				for _, f := range fs {
					rel, err := filepath.Rel(dir, f)
					if err != nil {
						return err
					}
					es[i].Loop.Items = append(es[i].Loop.Items, rel)
				}
			}
			return nil
		}
		if err := fill(c.Cmds); err != nil {
			return tf, err
		}
		if err := fill(c.Deps); err != nil {
			return tf, err
		}
	}
	c.ObsCmds, c.ObsDeps, c.Lines, c.OK = nil, nil, nil, false
	if c.Kind == "run" {
		ctx, cancel := context.WithTimeout(context.Background(), 20*time.Second)
		defer cancel()
		done := make(chan error, 1)
		go func() {
			defer func() {
				if r := recover(); r != nil {
					done <- fmt.Errorf("panic: %v\n%s", r, debug.Stack())
				}
			}()
			done <- e.Run(ctx, &task.Call{Task: "t"})
		}()
		select {
		case err := <-done:
			if err != nil && strings.HasPrefix(err.Error(), "panic") {
				return tf, err
			}
			c.OK = err == nil
		case <-time.After(25 * time.Second):
			return tf, fmt.Errorf("run: no result after 25s")
		}
		out := stdout.String()
		out = strings.TrimSuffix(out, "\n")
		if out != "" {
			c.Lines = strings.Split(out, "\n")
		}
		return tf, nil
	}
	var t *ast.Task
	if c.Fast {
		t, err = e.FastCompiledTask(&task.Call{Task: "t"})
	} else {
		t, err = e.CompiledTask(&task.Call{Task: "t"})
	}
	if err != nil {
		return tf, fmt.Errorf("compile: %w", err)
	}
	for _, cmd := range t.Cmds {
		if cmd == nil {
			c.ObsCmds = append(c.ObsCmds, XCmd{Shell: "<nil>"})
			continue
		}
		at, _ := attrsOf(reflect.ValueOf(*cmd))
		if cmd.Task != "" {
			c.ObsCmds = append(c.ObsCmds, XCmd{Attrs: at, Call: true, Task: cmd.Task, Vars: dumpVars(cmd.Vars)})
		} else {
			c.ObsCmds = append(c.ObsCmds, XCmd{Attrs: at, Shell: cmd.Cmd})
		}
	}
	for _, d := range t.Deps {
		if d == nil {
			c.ObsDeps = append(c.ObsDeps, XCmd{Shell: "<nil>"})
			continue
		}
		at, _ := attrsOf(reflect.ValueOf(*d))
		c.ObsDeps = append(c.ObsDeps, XCmd{Attrs: at, Call: true, Task: d.Task, Vars: dumpVars(d.Vars)})
	}
	return tf, nil
}

// ---------------------------------------------------------------- Coq rendering

func pieceCoq(p Piece) string {
	switch {
	case p.Var == "":
		return "PLit " + cg.Str(p.Lit)
	case p.Field == "":
		return "PVar " + cg.Str(p.Var)
	}
	return "PField " + cg.Str(p.Var) + " " + cg.Str(p.Field)
}

func tmplCoq(t []Piece) string {
	it := make([]string, len(t))
	for i, p := range t {
		it[i] = pieceCoq(p)
	}
	return cg.List(it)
}

func kvsCoq(kvs []KV) string {
	it := make([]string, len(kvs))
	for i, kv := range kvs {
		it[i] = cg.Pair(cg.Str(kv.K), cg.Str(kv.V))
	}
	return cg.List(it)
}

func attrsCoq(a Attrs) string {
	if a.zero() {
		return "no_attrs"
	}
	return fmt.Sprintf("{| a_ignore_error := %s; a_silent := %s; a_set := %s; a_shopt := %s; a_platforms := %s; a_defer := %s |}",
		cg.Bool(a.IgnoreError), cg.Bool(a.Silent), cg.StrList(a.Set), cg.StrList(a.Shopt), cg.StrList(a.Platforms), cg.Bool(a.Defer))
}

func xcmdCoq(x XCmd) string {
	if x.Call {
		return "XCall " + attrsCoq(x.Attrs) + " " + cg.Str(x.Task) + " " + kvsCoq(x.Vars)
	}
	return "XShell " + attrsCoq(x.Attrs) + " " + cg.Str(x.Shell)
}

func xcmdsCoq(xs []XCmd) string {
	it := make([]string, len(xs))
	for i, x := range xs {
		it[i] = xcmdCoq(x)
	}
	return cg.List(it)
}

func cmdtCoq(c *CmdT) string {
	if !c.Call {
		return "TShell " + attrsCoq(c.Attrs) + " " + tmplCoq(c.Shell)
	}
	it := make([]string, len(c.Vars))
	for i, v := range c.Vars {
		it[i] = cg.Pair(cg.Str(v.Name), tmplCoq(v.T))
	}
	return "TCall " + attrsCoq(c.Attrs) + " " + tmplCoq(c.Task) + " " + cg.List(it)
}

func loopCoq(l *Loop) string {
	switch l.Kind {
	case "list":
		return "LList " + cg.StrList(l.Items)
	case "varlist":
		return "LVarList " + cg.StrList(l.Items)
	case "files":
		return "LFiles " + cg.StrList(l.Items)
	case "split":
		return "LSplit " + cg.Str(l.Value) + " " + cg.Str(l.Sep)
	case "map":
		return "LMap " + kvsCoq(l.KVs)
	case "matrix":
		it := make([]string, len(l.Rows))
		for i, r := range l.Rows {
			it[i] = cg.Pair(cg.Str(r.Key), cg.StrList(r.Items))
		}
		return "LMatrix " + cg.List(it)
	}
	panic("loop kind " + l.Kind)
}

func entriesCoq(es []Entry) string {
	it := make([]string, len(es))
	for i := range es {
		e := &es[i]
		switch e.Kind {
		case "plain":
			it[i] = "Plain (" + xcmdCoq(*e.Plain) + ")"
		case "null":
			it[i] = "Null"
		default:
			it[i] = "For (" + loopCoq(e.Loop) + ") " + cg.Str(e.As) + " (" + cmdtCoq(e.C) + ")"
		}
	}
	return cg.List(it)
}

// Coq string literals are raw: every byte except '"' stands for itself, so tabs and newlines in
// values are fine; only printable ASCII, \t and \n are generated.

func hasMap(es []Entry) bool {
	for _, e := range es {
		if e.Kind == "for" && e.Loop.Kind == "map" {
			return true
		}
	}
	return false
}

func expandedSize(c *Case) int { return len(c.ObsCmds) + len(c.ObsDeps) + len(c.Lines) }

// ---------------------------------------------------------------- Main

func Main(args []string) {
	o := common.ParseOpts(args)
	obs := common.NewObs("forloop", o.Seed)
	var cases []*Case
	if o.Replay != "" {
		b, err := os.ReadFile(o.Replay)
		if err != nil {
			panic(err)
		}
		var rp struct {
			Input Case `json:"input"`
		}
		if err := json.Unmarshal(b, &rp); err != nil {
			panic(err)
		}
		c := rp.Input
		cases = append(cases, &c)
	} else {
		// bin/check runs shard s with seed S*1000+s: the enumerated families go into shard 0 only
		cases = generate(o.Rand(), o.N, o.Tier, o.Seed%1000 == 0 || o.Extra["sys"] == "1")
	}

	if u := unknownFields(); len(u) > 0 {
		obs.ImplFails = append(obs.ImplFails, common.ImplFail{Case: 0, Kind: "unknown-field",
			Msg: "ast.Cmd / ast.Dep / ast.Platform have fields the for-loop model does not account for: " + strings.Join(u, ", ")})
	}

	var fc, mc, rc []string
	var fcIdx, mcIdx, rcIdx []int
	seen := map[string]bool{}
	for i, c := range cases {
		var tf string
		var err error
		func() {
			defer func() {
				if r := recover(); r != nil {
					err = fmt.Errorf("panic: %v\n%s", r, debug.Stack())
				}
			}()
			tf, err = runCase(c)
		}()
		obs.CaseInputs = append(obs.CaseInputs, c)
		obs.Count("kind:" + c.Kind)
		obs.Count("family:" + c.Family)
		if err != nil {
			kind := "error"
			if strings.HasPrefix(err.Error(), "panic") {
				kind = "panic"
			}
			obs.ImplFails = append(obs.ImplFails, common.ImplFail{Case: i, Kind: kind, Msg: err.Error() + "\n--- Taskfile.yml\n" + tf})
			continue
		}
		for _, es := range [][]Entry{c.Cmds, c.Deps} {
			for _, e := range es {
				if e.Kind == "for" {
					obs.Count("loop:" + e.Loop.Kind)
					if e.As != "" {
						obs.Count("loop:as")
					}
					if e.C.Call {
						obs.Count("loop:task-call")
					}
					countAttrs(obs, "loop-attr:", e.C.Attrs)
				} else {
					obs.Count("entry:" + e.Kind)
					if e.Kind == "plain" {
						countAttrs(obs, "plain-attr:", e.Plain.Attrs)
					}
				}
			}
		}
		obs.Count(fmt.Sprintf("expanded:%d", min(expandedSize(c), 30)/5*5))
		switch {
		case c.Kind == "run":
			rc = append(rc, fmt.Sprintf("{| fr_cmds := %s; fr_lines := %s; fr_ok := %s |}", entriesCoq(c.Cmds), cg.StrList(c.Lines), cg.Bool(c.OK)))
			obs.Count(fmt.Sprintf("run-ok:%v", c.OK))
			rcIdx = append(rcIdx, i)
		default:
			rec := fmt.Sprintf("{| fc_cmds := %s; fc_deps := %s; fc_obs_cmds := %s; fc_obs_deps := %s |}",
				entriesCoq(c.Cmds), entriesCoq(c.Deps), xcmdsCoq(c.ObsCmds), xcmdsCoq(c.ObsDeps))
			if hasMap(c.Cmds) || hasMap(c.Deps) {
				mc = append(mc, rec)
				mcIdx = append(mcIdx, i)
			} else {
				fc = append(fc, rec)
				fcIdx = append(fcIdx, i)
			}
		}
		key, _ := json.Marshal([]any{c.Kind, c.Fast, c.Cmds, c.Deps})
		if expandedSize(c) >= 2 && !seen[string(key)] {
			seen[string(key)] = true
			obs.Distinct++
		}
		if len(obs.Samples) < 4 && expandedSize(c) > 3 && c.Family == "random" {
			obs.Samples = append(obs.Samples, map[string]any{"case": c, "taskfile": tf})
		}
	}
	obs.Cases = len(cases)

	var sb strings.Builder
	sb.WriteString("From Coq Require Import List String Bool.\nImport ListNotations.\nFrom TV Require Import Exec.ForLoop Run.ForCases.\n")
	fmt.Fprintf(&sb, "Definition fcases : list fcase := %s.\n", cg.List(fc))
	fmt.Fprintf(&sb, "Definition mcases : list fcase := %s.\n", cg.List(mc))
	fmt.Fprintf(&sb, "Definition fruns : list frun := %s.\n", cg.List(rc))
	sb.WriteString("Definition R_for_agree := Eval vm_compute in failures for_agree fcases.\nPrint R_for_agree.\n")
	sb.WriteString("Definition R_for_mon := Eval vm_compute in failures for_mon fcases.\nPrint R_for_mon.\n")
	sb.WriteString("Definition R_for_attrs := Eval vm_compute in failures for_attrs (fcases ++ mcases).\nPrint R_for_attrs.\n")
	sb.WriteString("Definition R_for_map := Eval vm_compute in failures for_mon mcases.\nPrint R_for_map.\n")
	sb.WriteString("Definition R_for_run := Eval vm_compute in failures for_run_mon fruns.\nPrint R_for_run.\n")
	common.WriteFile(o.Out, "cases.v", sb.String())
	idx := map[string][]int{"R_for_agree": fcIdx, "R_for_mon": fcIdx, "R_for_attrs": append(append([]int{}, fcIdx...), mcIdx...), "R_for_map": mcIdx, "R_for_run": rcIdx}
	b, _ := json.Marshal(idx)
	common.WriteFile(o.Out, "index.json", string(b))
	obs.Write(o.Out)
}

func countAttrs(obs *common.Obs, pre string, a Attrs) {
	if a.IgnoreError {
		obs.Count(pre + "ignore_error")
	}
	if a.Silent {
		obs.Count(pre + "silent")
	}
	if len(a.Set) > 0 {
		obs.Count(pre + "set")
	}
	if len(a.Shopt) > 0 {
		obs.Count(pre + "shopt")
	}
	if len(a.Platforms) > 0 {
		obs.Count(pre + "platforms")
	}
	if a.Defer {
		obs.Count(pre + "defer")
	}
}

var _ = rand.New
