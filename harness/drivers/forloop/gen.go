package forloop

import (
	"fmt"
	"math/rand"
	"strings"
)

// ---------------------------------------------------------------- small helpers

func lit(s string) Piece      { return Piece{Lit: s} }
func pv(n string) Piece       { return Piece{Var: n} }
func pf(n, f string) Piece    { return Piece{Var: n, Field: f} }
func shellT(t ...Piece) *CmdT { return &CmdT{Shell: t} }
func plainSh(s string) Entry  { return Entry{Kind: "plain", Plain: &XCmd{Shell: s}} }
func forE(l *Loop, as string, c *CmdT) Entry {
	return Entry{Kind: "for", Loop: l, As: as, C: c}
}

var setPool = []string{"e", "u", "x", "pipefail", "errexit"}
var shoptPool = []string{"globstar", "nullglob", "expand_aliases"}
var platformPool = []string{"linux", "darwin", "windows", "amd64", "arm64", "linux/amd64", "darwin/arm64", "windows/amd64"}

func pick(r *rand.Rand, pool []string, max int) []string {
	n := 1 + r.Intn(max)
	out := make([]string, n)
	for i := range out {
		out[i] = pool[r.Intn(len(pool))]
	}
	return out
}

// randAttrs: what the decoder reads for the kind of entry: a cmd: entry takes every attribute, a
// task: entry / a dep only silent
func randAttrs(r *rand.Rand, call bool) Attrs {
	var a Attrs
	if r.Intn(2) == 0 {
		return a
	}
	a.Silent = r.Intn(3) == 0
	if call {
		return a
	}
	a.IgnoreError = r.Intn(2) == 0
	if r.Intn(3) == 0 {
		a.Set = pick(r, setPool, 2)
	}
	if r.Intn(3) == 0 {
		a.Shopt = pick(r, shoptPool, 2)
	}
	if r.Intn(3) == 0 {
		a.Platforms = pick(r, platformPool, 3)
	}
	return a
}

// the i-th of a fixed cycle of attribute settings (systematic families)
func cycAttrs(i int) Attrs {
	switch i % 8 {
	case 1:
		return Attrs{IgnoreError: true}
	case 2:
		return Attrs{Silent: true}
	case 3:
		return Attrs{Set: []string{"e", "u"}}
	case 4:
		return Attrs{Shopt: []string{"globstar"}}
	case 5:
		return Attrs{Platforms: []string{"linux", "darwin/arm64", "amd64"}}
	case 6:
		return Attrs{IgnoreError: true, Silent: true, Set: []string{"pipefail"}, Shopt: []string{"nullglob", "globstar"}, Platforms: []string{"windows"}}
	}
	return Attrs{}
}

func asName(as string) string {
	if as == "" {
		return "ITEM"
	}
	return as
}

// the same loop as a deps entry: a dep is always a task call
func depOf(e Entry) Entry {
	if e.Kind != "for" {
		return e
	}
	n := asName(e.As)
	var vt []Piece
	if e.Loop.Kind == "matrix" {
		for _, r := range e.Loop.Rows {
			vt = append(vt, pf(n, r.Key), lit("/"))
		}
	} else {
		vt = []Piece{pv(n)}
	}
	return forE(e.Loop, e.As, &CmdT{Attrs: Attrs{Silent: e.C.Attrs.Silent || e.C.Attrs.IgnoreError}, Call: true, Task: []Piece{lit("sub1")}, Vars: []VarT{{Name: "V", T: vt}}})
}

var itemPool = []string{"a", "b", "c", "b c", "foo.txt", "x  y", "7", "42", "it's", `say "hi"`, "a,b", "-n", "", "Z_9", "$HOME", "k=v", "*.go", "#5"}
var keyPool = []string{"OS", "ARCH", "A", "B", "K1", "k_2", "VERSION"}
var asPool = []string{"", "", "FILE", "X", "KEY", "item"}
var litPool = []string{"echo ", "-", " ", ":", "/", "pre.", " x ", "[", "]", "="}
var sepPool = []string{",", ";", ":", "::", ", ", "ab", " ", "-->", "|", "."}

func randItems(r *rand.Rand, max int) []string {
	n := r.Intn(max + 1)
	out := make([]string, n)
	for i := range out {
		if i > 0 && r.Intn(5) == 0 {
			out[i] = out[r.Intn(i)] // a duplicate
		} else {
			out[i] = itemPool[r.Intn(len(itemPool))]
		}
	}
	return out
}

func randRows(r *rand.Rand, maxKeys, maxVals int, allowRef bool) []Row {
	nk := 1 + r.Intn(maxKeys)
	perm := r.Perm(len(keyPool))
	rows := make([]Row, nk)
	for i := range rows {
		rows[i] = Row{Key: keyPool[perm[i]], Items: randItems(r, maxVals)}
		if r.Intn(6) != 0 && len(rows[i].Items) == 0 {
			rows[i].Items = []string{itemPool[r.Intn(len(itemPool))]} // empty rows are the rarer case
		}
		if allowRef && r.Intn(5) == 0 {
			rows[i].Ref = true
		}
	}
	return rows
}

func randSplit(r *rand.Rand) *Loop {
	if r.Intn(3) == 0 { // whitespace fields
		ws := []string{" ", "  ", "\t", "\n", " \t ", "\n\n"}
		words := []string{"foo.txt", "bar", "a,b", "x", "42", "it's", "-n"}
		var sb strings.Builder
		if r.Intn(3) == 0 {
			sb.WriteString(ws[r.Intn(len(ws))])
		}
		n := r.Intn(5)
		for i := 0; i < n; i++ {
			sb.WriteString(words[r.Intn(len(words))])
			if i < n-1 || r.Intn(3) == 0 {
				sb.WriteString(ws[r.Intn(len(ws))])
			}
		}
		return &Loop{Kind: "split", Value: sb.String(), Sep: ""}
	}
	sep := sepPool[r.Intn(len(sepPool))]
	parts := []string{"a", "b", "", "b c", "ab", "x:y", "a", "::", "abab", " ", "1"}
	n := r.Intn(5)
	var ps []string
	for i := 0; i < n; i++ {
		ps = append(ps, parts[r.Intn(len(parts))])
	}
	v := strings.Join(ps, sep)
	switch r.Intn(6) {
	case 0:
		v = sep + v
	case 1:
		v += sep
	case 2:
		v += sep + sep
	}
	return &Loop{Kind: "split", Value: v, Sep: sep}
}

func randLoop(r *rand.Rand, allowMap, allowFiles bool) (*Loop, string) {
	as := asPool[r.Intn(len(asPool))]
	switch k := r.Intn(12); {
	case k < 3:
		return &Loop{Kind: "list", Items: randItems(r, 4)}, ""
	case k < 6:
		return &Loop{Kind: "matrix", Rows: randRows(r, 3, 3, true)}, as
	case k < 8:
		return randSplit(r), as
	case k < 10:
		return &Loop{Kind: "varlist", Items: randItems(r, 4)}, as
	case k == 10 && allowMap:
		n := r.Intn(4)
		perm := r.Perm(6)
		var kvs []KV
		for i := 0; i < n; i++ {
			kvs = append(kvs, KV{fmt.Sprintf("k%d", perm[i]), itemPool[r.Intn(len(itemPool))]})
		}
		return &Loop{Kind: "map", KVs: kvs}, as
	case k == 11 && allowFiles:
		return &Loop{Kind: "files", From: []string{"sources", "generates"}[r.Intn(2)]}, ""
	}
	return &Loop{Kind: "list", Items: randItems(r, 4)}, ""
}

// a template over the loop's variables
func randTmpl(r *rand.Rand, l *Loop, as string) []Piece {
	n := asName(as)
	var t []Piece
	k := 1 + r.Intn(4)
	for i := 0; i < k; i++ {
		switch c := r.Intn(10); {
		case c < 3:
			t = append(t, lit(litPool[r.Intn(len(litPool))]))
		case c < 8:
			if l.Kind == "matrix" {
				if r.Intn(8) == 0 {
					t = append(t, pv(n)) // the whole combination: fmt's map[...] rendering
				} else if r.Intn(10) == 0 {
					t = append(t, pf(n, "NOPE")) // no such key: <no value>, deleted
				} else {
					t = append(t, pf(n, l.Rows[r.Intn(len(l.Rows))].Key))
				}
			} else {
				t = append(t, pv(n))
			}
		case c == 8:
			t = append(t, pv("KEY")) // bound only by map loops (or by as: KEY)
		default:
			if l.Kind != "matrix" || as == "" {
				t = append(t, pv("ITEM")) // unbound when renamed
			} else {
				t = append(t, lit("."))
			}
		}
	}
	return t
}

func randCmdT(r *rand.Rand, l *Loop, as string, dep bool) *CmdT {
	if dep || r.Intn(3) == 0 {
		c := &CmdT{Attrs: randAttrs(r, true), Call: true, Task: []Piece{lit([]string{"sub1", "sub2", "sub-", "ns:"}[r.Intn(4)])}}
		if r.Intn(3) == 0 {
			c.Task = append(c.Task, randTmpl(r, l, as)...)
		}
		nv := r.Intn(3)
		for i := 0; i < nv; i++ {
			c.Vars = append(c.Vars, VarT{Name: []string{"V", "W", "FILE"}[i], T: randTmpl(r, l, as)})
		}
		return c
	}
	return &CmdT{Attrs: randAttrs(r, false), Shell: append([]Piece{lit("echo ")}, randTmpl(r, l, as)...)}
}

func randPlain(r *rand.Rand, dep bool) Entry {
	if dep || r.Intn(4) == 0 {
		x := &XCmd{Attrs: randAttrs(r, true), Call: true, Task: []string{"sub1", "sub2"}[r.Intn(2)]}
		if r.Intn(2) == 0 {
			x.Vars = []KV{{"V", itemPool[r.Intn(len(itemPool))]}}
		}
		return Entry{Kind: "plain", Plain: x}
	}
	e := plainSh("echo plain" + fmt.Sprint(r.Intn(100)))
	if r.Intn(8) == 0 {
		e.Plain.Attrs = Attrs{Defer: true, Silent: r.Intn(3) == 0}
	} else if r.Intn(3) == 0 {
		e.Plain.Attrs = randAttrs(r, false)
	}
	return e
}

func randEntries(r *rand.Rand, dep, allowMap, allowFiles bool) []Entry {
	n := r.Intn(5)
	var es []Entry
	for i := 0; i < n; i++ {
		switch k := r.Intn(10); {
		case k < 6:
			l, as := randLoop(r, allowMap, allowFiles)
			es = append(es, forE(l, as, randCmdT(r, l, as, dep)))
		case k == 6 && !dep:
			es = append(es, Entry{Kind: "null"})
		default:
			es = append(es, randPlain(r, dep))
		}
	}
	return es
}

func addFiles(r *rand.Rand, c *Case) {
	c.Files = []string{"b.txt", "a.txt", "c.md", "a1.txt", "z.go"}
	c.Sources = [][]string{{"*.txt"}, {"b.txt", "a.txt"}, {"z.go", "*.md", "a*.txt"}, {"nope.*"}}[r.Intn(4)]
	c.Gens = [][]string{{"*.md", "*.go"}, {"c.md"}, {"*"}}[r.Intn(3)]
}

// ---------------------------------------------------------------- end-to-end (run) cases

var runItems = []string{"a", "b", "b c", "x.y", "7", "", "A_1", "a", "k=v", "two  blanks"}

func runCaseOf(r *rand.Rand) *Case {
	c := &Case{Kind: "run", Family: "run"}
	n := 1 + r.Intn(4)
	for i := 0; i < n; i++ {
		tag := fmt.Sprintf("L%d:", i)
		switch k := r.Intn(8); {
		case k < 6:
			var l *Loop
			as := []string{"", "", "FILE"}[r.Intn(3)]
			switch r.Intn(4) {
			case 0:
				its := make([]string, r.Intn(5))
				for j := range its {
					its[j] = runItems[r.Intn(len(runItems))]
				}
				l, as = &Loop{Kind: "list", Items: its}, ""
			case 1:
				rows := randRows(r, 3, 3, false)
				for i := range rows {
					for j := range rows[i].Items {
						rows[i].Items[j] = runItems[r.Intn(len(runItems))]
					}
				}
				l = &Loop{Kind: "matrix", Rows: rows}
			case 2:
				l = &Loop{Kind: "split", Value: "p,q r,,s", Sep: []string{",", "", " ", ",,"}[r.Intn(4)]}
			default:
				l = &Loop{Kind: "varlist", Items: []string{"u", "v w", "u"}[:r.Intn(4)]}
			}
			n := asName(as)
			var body []Piece
			if l.Kind == "matrix" {
				for _, row := range l.Rows {
					body = append(body, pf(n, row.Key), lit("/"))
				}
			} else {
				body = []Piece{pv(n)}
			}
			if r.Intn(3) == 0 { // a task call per item; the callee prints sub:<V>
				c.Cmds = append(c.Cmds, forE(l, as, &CmdT{Call: true, Task: []Piece{lit([]string{"sub1", "sub2"}[r.Intn(2)])},
					Vars: []VarT{{Name: "V", T: append([]Piece{lit(tag)}, body...)}}}))
			} else {
				t := append([]Piece{lit(`echo "`), lit(tag)}, body...)
				c.Cmds = append(c.Cmds, forE(l, as, &CmdT{Shell: append(t, lit(`"`))}))
			}
		case k == 6:
			c.Cmds = append(c.Cmds, Entry{Kind: "plain", Plain: &XCmd{Call: true, Task: "sub2", Vars: []KV{{"V", tag + "plain"}}}})
		default:
			c.Cmds = append(c.Cmds, plainSh(`echo "`+tag+`plain"`))
		}
	}
	return c
}

// runFailCaseOf: commands of the form  echo "<line>"; (exit <code>)  where the code is the loop item
func runFailCaseOf(r *rand.Rand, i int) *Case {
	c := &Case{Kind: "run", Family: "run-fail"}
	codes := func() []string {
		n := 1 + r.Intn(4)
		out := make([]string, n)
		for j := range out {
			out[j] = []string{"0", "0", "3", "7", "1"}[r.Intn(5)]
		}
		if i%2 == 0 { // make sure one iteration in the middle fails
			out = append(out, "3", "0")
		}
		return out
	}
	ign := func() Attrs { return Attrs{IgnoreError: i%4 < 2 || r.Intn(3) == 0, Silent: r.Intn(4) == 0} }
	c.Cmds = append(c.Cmds, plainSh(`echo "before"`))
	nl := 1 + r.Intn(2)
	for k := 0; k < nl; k++ {
		tag := fmt.Sprintf("L%d:", k)
		switch (i + k) % 5 {
		case 0:
			c.Cmds = append(c.Cmds, forE(&Loop{Kind: "list", Items: codes()}, "", &CmdT{Attrs: ign(),
				Shell: []Piece{lit(`echo "` + tag), pv("ITEM"), lit(`"; (exit `), pv("ITEM"), lit(")")}}))
		case 1:
			c.Cmds = append(c.Cmds, forE(&Loop{Kind: "matrix", Rows: []Row{{Key: "N", Items: []string{"a", "b"}}, {Key: "CODE", Items: codes()}}}, "M", &CmdT{Attrs: ign(),
				Shell: []Piece{lit(`echo "` + tag), pf("M", "N"), lit("/"), pf("M", "CODE"), lit(`"; (exit `), pf("M", "CODE"), lit(")")}}))
		case 2:
			c.Cmds = append(c.Cmds, forE(&Loop{Kind: "split", Value: strings.Join(codes(), ","), Sep: ","}, "C", &CmdT{Attrs: ign(),
				Shell: []Piece{lit(`echo "` + tag), pv("C"), lit(`"; (exit `), pv("C"), lit(")")}}))
		case 3:
			c.Cmds = append(c.Cmds, forE(&Loop{Kind: "varlist", Items: codes()}, "", &CmdT{Attrs: ign(),
				Shell: []Piece{lit(`echo "` + tag), pv("ITEM"), lit(`"; (exit `), pv("ITEM"), lit(")")}}))
		default: // a plain failing command, for comparison
			c.Cmds = append(c.Cmds, Entry{Kind: "plain", Plain: &XCmd{Attrs: ign(), Shell: `echo "` + tag + `plain"; (exit ` + []string{"0", "5"}[r.Intn(2)] + ")"}})
		}
	}
	c.Cmds = append(c.Cmds, plainSh(`echo "after"`))
	return c
}

// ---------------------------------------------------------------- the families

// all lists over alpha of length 0..maxLen
func allLists(alpha []string, maxLen int) [][]string {
	out := [][]string{{}}
	prev := [][]string{{}}
	for l := 1; l <= maxLen; l++ {
		var next [][]string
		for _, p := range prev {
			for _, a := range alpha {
				next = append(next, append(append([]string{}, p...), a))
			}
		}
		out = append(out, next...)
		prev = next
	}
	return out
}

// all row-size vectors of nk rows with sizes 0..maxSize
func allShapes(nk, maxSize int) [][]int {
	out := [][]int{{}}
	for i := 0; i < nk; i++ {
		var next [][]int
		for _, p := range out {
			for s := 0; s <= maxSize; s++ {
				next = append(next, append(append([]int{}, p...), s))
			}
		}
		out = next
	}
	return out
}

func generate(r *rand.Rand, n int, tier string, systematic bool) []*Case {
	var cases []*Case
	thorough := tier == "thorough"
	mk := func(fam string, cmds []Entry) *Case {
		c := &Case{Kind: "compile", Family: fam, Cmds: cmds, Fast: len(cases)%4 == 3}
		for i := range cmds {
			if cmds[i].Kind == "for" && cmds[i].C.Attrs.zero() {
				cmds[i].C.Attrs = cycAttrs(len(cases) + i)
			}
		}
		for _, e := range cmds {
			if e.Kind == "for" {
				c.Deps = append(c.Deps, depOf(e))
			}
		}
		cases = append(cases, c)
		return c
	}
	before, after := plainSh("echo before"), plainSh("echo after")
	if systematic {

		// (1) list loops: every list over a small alphabet (duplicates, an item with a blank), lengths 0..4
		alpha := []string{"a", "b c"}
		if thorough {
			alpha = []string{"a", "b c", "7"}
		}
		for i, xs := range allLists(alpha, 4) {
			l := &Loop{Kind: "list", Items: xs}
			if i%2 == 1 {
				l = &Loop{Kind: "varlist", Items: xs}
			}
			mk("list-exhaustive", []Entry{before, forE(l, "", shellT(lit("echo "), pv("ITEM"))), after})
		}

		// (2) matrices: 1..3 keys x 0..3 values each (every shape, empty rows included); distinct items,
		// so the observed order identifies the enumeration
		maxK := 3
		for nk := 1; nk <= maxK; nk++ {
			for si, shape := range allShapes(nk, 3) {
				rows := make([]Row, nk)
				var t []Piece
				as := []string{"", "M"}[si%2]
				for i, sz := range shape {
					rows[i].Key = []string{"OS", "ARCH", "A"}[i]
					// declaration order deliberately not alphabetical for 3 keys: OS, ARCH, A
					for j := 0; j < sz; j++ {
						rows[i].Items = append(rows[i].Items, fmt.Sprintf("%s%d", strings.ToLower(rows[i].Key[:1]), j))
					}
					rows[i].Ref = (si+i)%5 == 4
					t = append(t, pf(asName(as), rows[i].Key), lit("/"))
				}
				mk("matrix-exhaustive", []Entry{before, forE(&Loop{Kind: "matrix", Rows: rows}, as, shellT(append([]Piece{lit("echo ")}, t...)...)), after})
			}
		}
		if thorough { // 4 keys x 0..2 values
			for _, shape := range allShapes(4, 2) {
				rows := make([]Row, 4)
				var t []Piece
				for i, sz := range shape {
					rows[i].Key = []string{"D", "C", "B", "A"}[i]
					for j := 0; j < sz; j++ {
						rows[i].Items = append(rows[i].Items, fmt.Sprintf("%s%d", strings.ToLower(rows[i].Key), j))
					}
					t = append(t, pf("ITEM", rows[i].Key))
				}
				mk("matrix-exhaustive", []Entry{forE(&Loop{Kind: "matrix", Rows: rows}, "", shellT(append([]Piece{lit("echo ")}, t...)...))})
			}
		}
		// duplicate items inside a row, and the whole combination rendered
		mk("matrix-dup", []Entry{forE(&Loop{Kind: "matrix", Rows: []Row{{Key: "B", Items: []string{"x", "x", "y"}}, {Key: "A", Items: []string{"1", "b c"}}}}, "",
			shellT(lit("echo "), pv("ITEM"), lit(" "), pf("ITEM", "A"), pf("ITEM", "B")))})

		// (3) var + split: separators x values
		vals := []string{"", "a", "a,b", "a,,b", ",a,", "a, b,c", "a::b:::c", "abab", "aabab", "x y  z", " lead", "trail ", "a;b;c", "a.b", "--->x-->y"}
		seps := []string{",", ", ", "::", "ab", " ", ";", ".", "-->"}
		for i, v := range vals {
			for j, s := range seps {
				if !thorough && (i+j)%3 != 0 {
					continue
				}
				as := []string{"", "PART"}[(i+j)%2]
				mk("split", []Entry{forE(&Loop{Kind: "split", Value: v, Sep: s}, as, shellT(lit("echo ["), pv(asName(as)), lit("]"))), after})
			}
		}
		for i, v := range []string{"", " ", "foo.txt bar.txt", "  a\tb\n c  ", "one", "\ta", "a\n", "a  b   c", "x\t\ty z"} {
			as := []string{"", "W"}[i%2]
			mk("fields", []Entry{before, forE(&Loop{Kind: "split", Value: v, Sep: ""}, as, shellT(lit("echo ["), pv(asName(as)), lit("]")))})
		}

		// (4) map variables (order of iteration unspecified: judged by the monitor only), sources / generates
		for i := 0; i < 6; i++ {
			var kvs []KV
			for j := 0; j < i; j++ {
				kvs = append(kvs, KV{fmt.Sprintf("k%d", (j*3)%7), itemPool[(i+j)%len(itemPool)]})
			}
			mk("map", []Entry{before, forE(&Loop{Kind: "map", KVs: kvs}, []string{"", "VAL"}[i%2], shellT(lit("echo "), pv("KEY"), lit("="), pv(asName([]string{"", "VAL"}[i%2])))), after})
		}
		for i := 0; i < 8; i++ {
			c := mk("files", []Entry{before, forE(&Loop{Kind: "files", From: []string{"sources", "generates"}[i%2]}, "", shellT(lit("cat "), pv("ITEM"))), after})
			addFiles(rand.New(rand.NewSource(int64(i))), c)
		}

		// (4b) attributes: every loop form x every attribute setting; the plain commands around the loop
		// carry different attributes than the loop
		forms := []func() (*Loop, []Piece){
			func() (*Loop, []Piece) {
				return &Loop{Kind: "list", Items: []string{"a", "b c", "a"}}, []Piece{pv("ITEM")}
			},
			func() (*Loop, []Piece) { return &Loop{Kind: "varlist", Items: []string{"u", "v"}}, []Piece{pv("ITEM")} },
			func() (*Loop, []Piece) { return &Loop{Kind: "files", From: "sources"}, []Piece{pv("ITEM")} },
			func() (*Loop, []Piece) {
				return &Loop{Kind: "matrix", Rows: []Row{{Key: "OS", Items: []string{"l", "d"}}, {Key: "ARCH", Items: []string{"x", "y"}}}}, []Piece{pf("ITEM", "OS"), lit("/"), pf("ITEM", "ARCH")}
			},
			func() (*Loop, []Piece) { return &Loop{Kind: "split", Value: "p,q,r", Sep: ","}, []Piece{pv("ITEM")} },
			func() (*Loop, []Piece) { return &Loop{Kind: "split", Value: " p  q ", Sep: ""}, []Piece{pv("ITEM")} },
			func() (*Loop, []Piece) {
				return &Loop{Kind: "map", KVs: []KV{{"k1", "v1"}, {"k2", "v2"}}}, []Piece{pv("KEY"), lit("="), pv("ITEM")}
			},
		}
		for fi, f := range forms {
			for ai := 1; ai <= 6; ai++ {
				l, body := f()
				pre := Entry{Kind: "plain", Plain: &XCmd{Attrs: cycAttrs(ai + 1), Shell: "echo before"}}
				post := Entry{Kind: "plain", Plain: &XCmd{Attrs: cycAttrs(ai + 3), Shell: "echo after"}}
				c := mk("attrs", []Entry{pre, forE(l, "", &CmdT{Attrs: cycAttrs(ai), Shell: append([]Piece{lit("echo ")}, body...)}), post})
				if l.Kind == "files" {
					addFiles(rand.New(rand.NewSource(int64(fi))), c)
				}
			}
		}

		// (6a) end to end with failing iterations: a looped command `echo ..; (exit <item>)` with and without
		// ignore_error: with it the failure is suppressed for exactly that iteration (the later iterations
		// and the later commands run, Run returns nil), without it the task stops there
		for i := 0; i < 16; i++ {
			cases = append(cases, runFailCaseOf(rand.New(rand.NewSource(int64(i))), i))
		}
	} // systematic

	// (5) random mixtures: several loops of all forms, plain commands and task calls before / between /
	// after, null entries, defer entries, `as:`, loops over task calls with vars, in cmds and in deps
	for i := 0; i < n; i++ {
		c := &Case{Kind: "compile", Family: "random", Fast: i%4 == 3}
		allowMap := i%7 == 0
		allowFiles := i%5 == 0
		c.Cmds = randEntries(r, false, allowMap, allowFiles)
		c.Deps = randEntries(r, true, allowMap, allowFiles)
		if hasFiles(c.Cmds) || hasFiles(c.Deps) {
			addFiles(r, c)
		}
		cases = append(cases, c)
	}

	// (6) end to end: the task is run; order of the output lines
	nr := n / 8
	if nr < 12 {
		nr = 12
	}
	for i := 0; i < nr; i++ {
		if i%3 == 2 {
			cases = append(cases, runFailCaseOf(r, r.Intn(1<<20)))
		} else {
			cases = append(cases, runCaseOf(r))
		}
	}
	return cases
}
