// Package merge is the correspondence driver of model C "Merge" (C08, C09):
// it generates include trees, loads them with the real reader / Executor and
// writes what was observed, next to the parsed inputs, as a Coq file.
package merge

import (
	"fmt"
	"math/rand"
	"sort"
	"strings"
)

// ---- ordered JSON (YAML is a superset of JSON; key order is what the ordered maps of go-task keep) ----

type KV struct {
	K string
	V any
}
type OM []KV

func toJSON(v any) string {
	switch x := v.(type) {
	case nil:
		return "null"
	case string:
		return jsonStr(x)
	case bool:
		if x {
			return "true"
		}
		return "false"
	case int:
		return fmt.Sprint(x)
	case []string:
		parts := make([]string, len(x))
		for i, s := range x {
			parts[i] = jsonStr(s)
		}
		return "[" + strings.Join(parts, ", ") + "]"
	case []any:
		parts := make([]string, len(x))
		for i, s := range x {
			parts[i] = toJSON(s)
		}
		return "[" + strings.Join(parts, ", ") + "]"
	case OM:
		parts := make([]string, len(x))
		for i, kv := range x {
			parts[i] = jsonStr(kv.K) + ": " + toJSON(kv.V)
		}
		return "{" + strings.Join(parts, ", ") + "}"
	}
	panic(fmt.Sprintf("toJSON: %T", v))
}

func jsonStr(s string) string {
	var sb strings.Builder
	sb.WriteByte('"')
	for _, c := range []byte(s) {
		switch c {
		case '"':
			sb.WriteString(`\"`)
		case '\\':
			sb.WriteString(`\\`)
		case '\n':
			sb.WriteString(`\n`)
		default:
			sb.WriteByte(c)
		}
	}
	sb.WriteByte('"')
	return sb.String()
}

// ---- abstract tree ----

type GCmd struct {
	Shell  string `json:"sh,omitempty"`
	Task   string `json:"task,omitempty"`
	Extra  OM     `json:"-"`
	ExtraS string `json:"extra,omitempty"`
}

type GTask struct {
	Name  string `json:"name"`
	Attrs OM     `json:"-"` // yaml key -> value (everything but cmds/deps)
	AttrS string `json:"attrs,omitempty"`
	Cmds  []GCmd `json:"cmds"`
	Deps  []GCmd `json:"deps,omitempty"` // Task (+Extra)
}

type GInclude struct {
	NS       string   `json:"ns"`
	Taskfile string   `json:"taskfile"`
	Advanced bool     `json:"adv"`
	Dir      string   `json:"dir,omitempty"`
	Optional bool     `json:"optional,omitempty"`
	Internal bool     `json:"internal,omitempty"`
	Flatten  bool     `json:"flatten,omitempty"`
	Aliases  []string `json:"aliases,omitempty"`
	Excludes []string `json:"excludes,omitempty"`
	Vars     OM       `json:"-"`
}

type GFile struct {
	Path     string     `json:"path"` // relative to the tree root
	Version  string     `json:"version"`
	Dotenv   bool       `json:"dotenv,omitempty"`
	Output   string     `json:"output,omitempty"`
	Vars     OM         `json:"-"`
	Env      OM         `json:"-"`
	Includes []GInclude `json:"includes,omitempty"`
	Tasks    []GTask    `json:"tasks"`
	Raw      string     `json:"raw,omitempty"` // not a Taskfile: written as is (keeps a directory in existence)
}

func (f *GFile) Render() string {
	if f.Raw != "" {
		return f.Raw
	}
	var top OM
	if f.Version != "" {
		top = append(top, KV{"version", f.Version})
	}
	if f.Output != "" {
		top = append(top, KV{"output", f.Output})
	}
	if f.Dotenv {
		top = append(top, KV{"dotenv", []string{".env"}})
	}
	if len(f.Vars) > 0 {
		top = append(top, KV{"vars", f.Vars})
	}
	if len(f.Env) > 0 {
		top = append(top, KV{"env", f.Env})
	}
	if len(f.Includes) > 0 {
		var incs OM
		for _, in := range f.Includes {
			if !in.Advanced {
				incs = append(incs, KV{in.NS, in.Taskfile})
				continue
			}
			m := OM{{"taskfile", in.Taskfile}}
			if in.Dir != "" {
				m = append(m, KV{"dir", in.Dir})
			}
			if in.Optional {
				m = append(m, KV{"optional", true})
			}
			if in.Internal {
				m = append(m, KV{"internal", true})
			}
			if in.Flatten {
				m = append(m, KV{"flatten", true})
			}
			if len(in.Aliases) > 0 {
				m = append(m, KV{"aliases", in.Aliases})
			}
			if len(in.Excludes) > 0 {
				m = append(m, KV{"excludes", in.Excludes})
			}
			if len(in.Vars) > 0 {
				m = append(m, KV{"vars", in.Vars})
			}
			incs = append(incs, KV{in.NS, m})
		}
		top = append(top, KV{"includes", incs})
	}
	var tasks OM
	for _, t := range f.Tasks {
		m := OM{}
		m = append(m, t.Attrs...)
		if len(t.Deps) > 0 {
			var ds []any
			for _, d := range t.Deps {
				if len(d.Extra) == 0 {
					ds = append(ds, d.Task)
				} else {
					ds = append(ds, append(OM{{"task", d.Task}}, d.Extra...))
				}
			}
			m = append(m, KV{"deps", ds})
		}
		var cs []any
		for _, c := range t.Cmds {
			switch {
			case c.Task != "":
				cs = append(cs, append(OM{{"task", c.Task}}, c.Extra...))
			case len(c.Extra) > 0:
				cs = append(cs, append(OM{{"cmd", c.Shell}}, c.Extra...))
			default:
				cs = append(cs, c.Shell)
			}
		}
		m = append(m, KV{"cmds", cs})
		tasks = append(tasks, KV{t.Name, m})
	}
	top = append(top, KV{"tasks", tasks})
	// one top-level key per line keeps decode errors readable
	var sb strings.Builder
	sb.WriteString("{\n")
	for i, kv := range top {
		sb.WriteString("  " + jsonStr(kv.K) + ": " + toJSON(kv.V))
		if i+1 < len(top) {
			sb.WriteString(",")
		}
		sb.WriteString("\n")
	}
	sb.WriteString("}\n")
	return sb.String()
}

// ---- generator ----

// every yaml attribute of a task besides cmds/deps; each is forced on for some task of some case
var attrGens = []struct {
	key string
	gen func(r *rand.Rand) any
}{
	{"label", func(r *rand.Rand) any { return "L" + fmt.Sprint(r.Intn(3)) }},
	{"desc", func(r *rand.Rand) any { return "D" + fmt.Sprint(r.Intn(3)) }},
	{"prompt", func(r *rand.Rand) any { return "sure?" }},
	{"summary", func(r *rand.Rand) any { return "S" + fmt.Sprint(r.Intn(3)) }},
	{"aliases", func(r *rand.Rand) any { return []string{[]string{"al", "x", "go"}[r.Intn(3)]} }},
	{"sources", func(r *rand.Rand) any { return []string{"src*.txt"} }},
	{"generates", func(r *rand.Rand) any { return []string{"out.txt"} }},
	{"status", func(r *rand.Rand) any { return []string{"false"} }},
	{"preconditions", func(r *rand.Rand) any { return []any{OM{{"sh", "true"}, {"msg", "m"}}} }},
	{"dir", func(r *rand.Rand) any { return []string{"td", "w/x"}[r.Intn(2)] }},
	{"set", func(r *rand.Rand) any { return []string{"errexit"} }},
	{"shopt", func(r *rand.Rand) any { return []string{"globstar"} }},
	{"vars", func(r *rand.Rand) any { return OM{{"TV", "tv" + fmt.Sprint(r.Intn(3))}} }},
	{"env", func(r *rand.Rand) any { return OM{{"TE", "te" + fmt.Sprint(r.Intn(3))}} }},
	{"dotenv", func(r *rand.Rand) any { return []string{".env.task"} }},
	{"silent", func(r *rand.Rand) any { return true }},
	{"interactive", func(r *rand.Rand) any { return true }},
	{"internal", func(r *rand.Rand) any { return true }},
	{"method", func(r *rand.Rand) any { return []string{"none", "timestamp", "checksum"}[r.Intn(3)] }},
	{"prefix", func(r *rand.Rand) any { return "P" + fmt.Sprint(r.Intn(3)) }},
	{"ignore_error", func(r *rand.Rand) any { return true }},
	{"run", func(r *rand.Rand) any { return []string{"once", "always", "when_changed"}[r.Intn(3)] }},
	{"platforms", func(r *rand.Rand) any { return []string{"linux"} }},
	{"requires", func(r *rand.Rand) any { return OM{{"vars", []string{"IV0"}}} }},
	{"watch", func(r *rand.Rand) any { return true }},
}

var taskNames = []string{"default", "a", "b", "build", "root", "c"}

// include options that are combined pairwise over the cases of a run
var incOpts = []string{"dir", "optional", "internal", "flatten", "aliases", "excludes", "vars"}

type GenOpts struct {
	Mode  string // c08 | c09
	Index int    // case index: drives the pairwise / every-attribute schedules
}

func marker(path, task string) string {
	return fmt.Sprintf(`echo "@M /R/%s#%s iv0={{.IV0}} iv1={{.IV1}} pwd=$(pwd)"`, path, task)
}

func applyOpt(r *rand.Rand, in *GInclude, opt string, childTasks []string) {
	in.Advanced = true
	switch opt {
	case "dir":
		in.Dir = []string{"wd", "wd/sub", "."}[r.Intn(3)]
	case "optional":
		in.Optional = true
	case "internal":
		in.Internal = true
	case "flatten":
		in.Flatten = true
	case "aliases":
		in.Aliases = []string{"z" + fmt.Sprint(r.Intn(2))}
		if r.Intn(3) == 0 {
			in.Aliases = append(in.Aliases, "y")
		}
	case "excludes":
		if len(childTasks) > 0 {
			in.Excludes = []string{childTasks[r.Intn(len(childTasks))]}
			for _, ct := range childTasks {
				// the default task is special in Tasks.Merge (namespace alias): exclude it often when it exists
				if ct == "default" && r.Intn(2) == 0 {
					in.Excludes = []string{"default"}
				}
			}
		} else {
			in.Excludes = []string{"nonexistent"}
		}
		if r.Intn(4) == 0 {
			in.Excludes = append(in.Excludes, "nonexistent")
		}
	case "vars":
		in.Vars = OM{{"IV0", "i" + fmt.Sprint(r.Intn(3))}}
		if r.Intn(2) == 0 {
			in.Vars = append(in.Vars, KV{"IV1", "j" + fmt.Sprint(r.Intn(3))})
		}
	}
}

// Generate builds one include tree. Files are numbered; file i may include files j > i
// (plus injected cycles), so reference chains stay acyclic.
func Generate(r *rand.Rand, g GenOpts) []*GFile {
	nfiles := 2 + r.Intn(4) // 2..5
	if g.Mode == "c09" {
		nfiles = 3 + r.Intn(3)
	}
	files := make([]*GFile, nfiles)
	dirs := []string{"", "b", "d", "b/c", "e", "d/f"}
	for i := range files {
		name := "Taskfile.yml"
		if i > 0 && r.Intn(4) == 0 {
			name = "inc.yml"
		}
		p := name
		if dirs[i] != "" {
			p = dirs[i] + "/" + name
		}
		files[i] = &GFile{Path: p, Version: "3"}
	}
	// tasks
	overlap := g.Mode == "c09" || r.Intn(5) == 0
	for i, f := range files {
		nt := 1 + r.Intn(3)
		perm := r.Perm(len(taskNames))
		var names []string
		for _, k := range perm[:nt] {
			n := taskNames[k]
			if !overlap && n != "default" && n != "root" && i > 0 {
				n = fmt.Sprintf("%s%d", n, i) // mostly distinct names across files
			}
			names = append(names, n)
		}
		if i == 0 {
			// the root always has a task `root` that ':'-references can name
			found := false
			for _, n := range names {
				if n == "root" {
					found = true
				}
			}
			if !found {
				names = append(names, "root")
			}
		}
		for k, n := range names {
			t := GTask{Name: n}
			t.Cmds = append(t.Cmds, GCmd{Shell: marker(f.Path, n)})
			// references only to later tasks of the same file (acyclic) or to the root's `root`
			if k+1 < len(names) && r.Intn(3) == 0 {
				c := GCmd{Task: names[k+1+r.Intn(len(names)-k-1)]}
				if r.Intn(4) == 0 {
					c.Extra = OM{{"vars", OM{{"CV", "cv"}}}}
				}
				if r.Intn(6) == 0 {
					c.Extra = append(c.Extra, KV{"silent", true})
				}
				t.Cmds = append(t.Cmds, c)
			}
			if k+1 < len(names) && r.Intn(4) == 0 {
				d := GCmd{Task: names[k+1+r.Intn(len(names)-k-1)]}
				if r.Intn(4) == 0 {
					d.Extra = OM{{"vars", OM{{"DV", "dv"}}}}
				}
				t.Deps = append(t.Deps, d)
			}
			if i > 0 && r.Intn(5) == 0 {
				if r.Intn(2) == 0 {
					t.Cmds = append(t.Cmds, GCmd{Task: ":root"})
				} else {
					t.Deps = append(t.Deps, GCmd{Task: ":root"})
				}
			}
			if r.Intn(5) == 0 {
				c := GCmd{Shell: "echo extra", Extra: OM{}}
				switch r.Intn(5) {
				case 0:
					c.Extra = OM{{"silent", true}}
				case 1:
					c.Extra = OM{{"ignore_error", true}}
				case 2:
					c.Extra = OM{{"platforms", []string{"linux"}}}
				case 3:
					c.Extra = OM{{"set", []string{"errexit"}}, {"shopt", []string{"globstar"}}}
				case 4:
					c = GCmd{Shell: "echo deferred", Extra: OM{}}
					c.Extra = nil
					t.Cmds = append(t.Cmds, GCmd{Shell: "", Extra: OM{{"defer", "echo deferred"}}})
					c.Shell = "echo after"
				}
				t.Cmds = append(t.Cmds, c)
			}
			// attributes: a few at random, plus the scheduled one
			for ai, ag := range attrGens {
				forced := (g.Index+i*3+k)%len(attrGens) == ai
				if forced || r.Intn(14) == 0 {
					t.Attrs = append(t.Attrs, KV{ag.key, ag.gen(r)})
				}
			}
			f.Tasks = append(f.Tasks, t)
		}
		// globals; overlapping names between siblings are what C09 is about
		if r.Intn(2) == 0 || g.Mode == "c09" {
			f.Vars = append(f.Vars, KV{"SHARED", fmt.Sprintf("s%d", i)})
		}
		if r.Intn(3) == 0 {
			f.Vars = append(f.Vars, KV{fmt.Sprintf("G%d", i), fmt.Sprintf("g%d", i)})
		}
		if r.Intn(4) == 0 {
			f.Env = append(f.Env, KV{"E", fmt.Sprintf("e%d", i)})
		}
		if g.Mode == "c09" && r.Intn(3) == 0 {
			// a dynamic variable: Vars.Merge stamps the include's dir on it (its working directory)
			f.Vars = append(f.Vars, KV{"DYN", OM{{"sh", fmt.Sprintf("echo dyn%d", i)}}})
		}
		if r.Intn(10) == 0 {
			f.Output = []string{"prefixed", "group"}[r.Intn(2)]
		}
	}
	// include edges: every file i > 0 gets at least one parent j < i; depth <= 3 through the dirs layout
	depth := make([]int, nfiles)
	addInclude := func(p, c int, ns string) *GInclude {
		pf, cf := files[p], files[c]
		// path of the child relative to the parent's directory
		rel := relPath(dirOf(pf.Path), cf.Path)
		if strings.HasSuffix(rel, "/Taskfile.yml") && r.Intn(2) == 0 {
			rel = strings.TrimSuffix(rel, "/Taskfile.yml") // directory form
		}
		if !strings.HasPrefix(rel, ".") {
			rel = "./" + rel
		}
		in := GInclude{NS: ns, Taskfile: rel}
		pf.Includes = append(pf.Includes, in)
		return &pf.Includes[len(pf.Includes)-1]
	}
	nsCount := 0
	newNS := func() string {
		nsCount++
		if r.Intn(20) == 0 {
			return taskNames[1+r.Intn(3)] // a namespace equal to a task name (default-alias guard)
		}
		return fmt.Sprintf("n%d", nsCount)
	}
	childTasks := func(c int) []string {
		var ns []string
		for _, t := range files[c].Tasks {
			ns = append(ns, t.Name)
		}
		return ns
	}
	var allIncs []struct{ p, c, k int }
	for c := 1; c < nfiles; c++ {
		var cands []int
		for p := 0; p < c; p++ {
			if depth[p] < 3 {
				cands = append(cands, p)
			}
		}
		p := cands[r.Intn(len(cands))]
		if g.Mode == "c09" && r.Intn(2) == 0 {
			p = 0 // siblings of the root
		}
		addInclude(p, c, newNS())
		allIncs = append(allIncs, struct{ p, c, k int }{p, c, len(files[p].Includes) - 1})
		if depth[p]+1 > depth[c] {
			depth[c] = depth[p] + 1
		}
		// diamond: a second parent
		if c >= 2 && r.Intn(4) == 0 {
			q := cands[r.Intn(len(cands))]
			if q != p {
				addInclude(q, c, newNS())
				allIncs = append(allIncs, struct{ p, c, k int }{q, c, len(files[q].Includes) - 1})
			}
		}
		// the same file twice from the same parent
		if r.Intn(6) == 0 {
			addInclude(p, c, newNS())
			allIncs = append(allIncs, struct{ p, c, k int }{p, c, len(files[p].Includes) - 1})
		}
	}
	// options: pairwise schedule on the first include, random elsewhere
	npairs := len(incOpts) * (len(incOpts) - 1) / 2
	pi := g.Index % (npairs + 2)
	k := 0
	for a := 0; a < len(incOpts); a++ {
		for b := a + 1; b < len(incOpts); b++ {
			if k == pi && len(allIncs) > 0 {
				e := allIncs[r.Intn(len(allIncs))]
				in := &files[e.p].Includes[e.k]
				applyOpt(r, in, incOpts[a], childTasks(e.c))
				applyOpt(r, in, incOpts[b], childTasks(e.c))
			}
			k++
		}
	}
	for _, e := range allIncs {
		in := &files[e.p].Includes[e.k]
		if r.Intn(3) == 0 {
			in.Advanced = true
		}
		for _, o := range incOpts {
			p := 9
			if g.Mode == "c09" && o == "vars" {
				p = 4
			}
			if g.Mode == "c09" && o == "flatten" {
				p = 14
			}
			if r.Intn(p) == 0 {
				applyOpt(r, in, o, childTasks(e.c))
			}
		}
	}
	// directed family: task names / namespace keys containing ':' that collide (or nearly collide)
	// with the qualified name of an included task; a collision must be reported, never overwrite
	if g.Mode == "c08" && g.Index%5 == 2 && len(allIncs) > 0 {
		colonFamily(r, files, allIncs, addInclude, g.Index/5)
		return files
	}
	// directed family: a non-flattened include that excludes the default task of a file that defines one
	// (the `<ns>` alias of `<ns>:default` must simply not be created)
	if g.Mode == "c08" && g.Index%10 == 4 && len(allIncs) > 0 {
		e := allIncs[r.Intn(len(allIncs))]
		in := &files[e.p].Includes[e.k]
		child := files[e.c]
		has := false
		for _, t := range child.Tasks {
			has = has || t.Name == "default"
		}
		if !has {
			child.Tasks = append(child.Tasks, GTask{Name: "default", Cmds: []GCmd{{Shell: marker(child.Path, "default")}}})
		}
		in.Advanced, in.Flatten, in.Excludes = true, false, []string{"default"}
		if r.Intn(2) == 0 && len(child.Tasks) > 1 {
			in.Excludes = append(in.Excludes, child.Tasks[0].Name)
		}
		return files
	}
	// injected error causes (at most one per tree, in about a third of the trees)
	if g.Mode == "c08" {
		switch r.Intn(22) {
		case 0: // cycle
			c := 1 + r.Intn(nfiles-1)
			anc := 0
			if r.Intn(2) == 0 {
				anc = c // self include
			}
			addInclude(c, anc, "cyc")
		case 1: // missing file
			p := r.Intn(nfiles)
			in := GInclude{NS: "miss", Taskfile: "./nothere.yml"}
			if r.Intn(2) == 0 {
				in.Advanced, in.Optional = true, true
			}
			files[p].Includes = append(files[p].Includes, in)
		case 2: // schema version mismatch
			files[1+r.Intn(nfiles-1)].Version = []string{"3.1", "2"}[r.Intn(2)]
		case 3: // no version
			files[1+r.Intn(nfiles-1)].Version = ""
		case 4: // dotenv in an included file
			files[1+r.Intn(nfiles-1)].Dotenv = true
		}
	}
	return files
}

func dirOf(p string) string {
	i := strings.LastIndex(p, "/")
	if i < 0 {
		return ""
	}
	return p[:i]
}

// relPath: path of file `target` (relative to the tree root) as seen from directory `from`.
func relPath(from, target string) string {
	if from == "" {
		return target
	}
	fs := strings.Split(from, "/")
	ts := strings.Split(target, "/")
	i := 0
	for i < len(fs) && i < len(ts)-1 && fs[i] == ts[i] {
		i++
	}
	var parts []string
	for j := i; j < len(fs); j++ {
		parts = append(parts, "..")
	}
	parts = append(parts, ts[i:]...)
	return strings.Join(parts, "/")
}

func sortedCopy(ss []string) []string {
	c := append([]string(nil), ss...)
	sort.Strings(c)
	return c
}

// ---- small-scope exhaustive enumeration (thorough tier) ----

// EnumSmallCount: 5 shapes x 22 option pairs (21 + none) on the first include x 8 options on the second x 2 reference styles.
const EnumSmallCount = 5 * 22 * 8 * 2

// EnumSmall builds the k-th tree of the enumeration: at most 3 files over the task alphabet {default, a}
// (+ `root` in the root file), every pair of include options on the first include statement.
func EnumSmall(k int, r *rand.Rand) []*GFile {
	shape := k % 5
	k /= 5
	pair := k % 22
	k /= 22
	second := k % 8
	k /= 8
	rootrefs := k%2 == 1

	mk := func(path string, isRoot bool) *GFile {
		f := &GFile{Path: path, Version: "3"}
		names := []string{"default", "a"}
		if isRoot {
			names = append(names, "root")
		}
		for i, n := range names {
			t := GTask{Name: n, Cmds: []GCmd{{Shell: marker(path, n)}}}
			if n == "a" {
				t.Cmds = append(t.Cmds, GCmd{Task: "default"})
				t.Attrs = OM{{"aliases", []string{"al"}}}
			}
			if n == "default" && !isRoot && rootrefs {
				t.Deps = append(t.Deps, GCmd{Task: ":root"})
			}
			_ = i
			f.Tasks = append(f.Tasks, t)
		}
		f.Vars = OM{{"SHARED", "s-" + path}}
		return f
	}
	root := mk("Taskfile.yml", true)
	b := mk("b/Taskfile.yml", false)
	c := mk("b/c/Taskfile.yml", false)
	files := []*GFile{root, b}
	var incs []*GInclude
	add := func(p *GFile, ns, tf string) {
		p.Includes = append(p.Includes, GInclude{NS: ns, Taskfile: tf})
	}
	switch shape {
	case 0: // chain root -> b -> c
		add(root, "n1", "./b")
		add(b, "n2", "./c")
		files = append(files, c)
		incs = []*GInclude{&root.Includes[0], &b.Includes[0]}
	case 1: // siblings
		add(root, "n1", "./b")
		add(root, "n2", "./b/c")
		files = append(files, c)
		incs = []*GInclude{&root.Includes[0], &root.Includes[1]}
	case 2: // diamond
		add(root, "n1", "./b")
		add(root, "n2", "./b/c")
		add(b, "n3", "./c")
		files = append(files, c)
		incs = []*GInclude{&root.Includes[0], &b.Includes[0]}
	case 3: // the same file twice
		add(root, "n1", "./b")
		add(root, "n2", "./b")
		incs = []*GInclude{&root.Includes[0], &root.Includes[1]}
	case 4: // single include
		add(root, "n1", "./b/Taskfile.yml")
		incs = []*GInclude{&root.Includes[0]}
	}
	tasksOf := []string{"default", "a"}
	idx := 0
	for a := 0; a < len(incOpts); a++ {
		for bb := a + 1; bb < len(incOpts); bb++ {
			if idx == pair {
				applyOpt(r, incs[0], incOpts[a], tasksOf)
				applyOpt(r, incs[0], incOpts[bb], tasksOf)
			}
			idx++
		}
	}
	if second > 0 && len(incs) > 1 {
		applyOpt(r, incs[1], incOpts[second-1], tasksOf)
	}
	return files
}

// colonFamily: variant 0: the including file itself has a task named `<ns>:<task>`; 1: the near miss `<ns>:<task>x`;
// 2: a second include whose namespace key is `<ns1>:<ns2>` of a nested chain and whose file has the same task;
// 3: the near miss `<ns1>:<ns2>x`; 4: like 0 but the colliding name sits in a sibling that is flattened into the parent.
func colonFamily(r *rand.Rand, files []*GFile, allIncs []struct{ p, c, k int },
	addInclude func(p, c int, ns string) *GInclude, variant int) {
	plain := func(in *GInclude) {
		in.Flatten, in.Excludes, in.Optional = false, nil, false
	}
	e := allIncs[r.Intn(len(allIncs))]
	if variant%5 == 2 || variant%5 == 3 {
		// prefer an include whose file has includes of its own (a chain)
		for _, cand := range allIncs {
			for _, e2 := range allIncs {
				if e2.p == cand.c {
					e = cand
				}
			}
		}
	}
	in := &files[e.p].Includes[e.k]
	plain(in)
	child := files[e.c]
	tn := child.Tasks[r.Intn(len(child.Tasks))].Name
	switch variant % 5 {
	case 0, 1, 4:
		name := in.NS + ":" + tn
		if variant%5 == 1 {
			name += "x"
		}
		host := files[e.p]
		t := GTask{Name: name, Cmds: []GCmd{{Shell: marker(host.Path, name)}}}
		if variant%5 == 4 && len(files) > 2 {
			// put the colliding task into another file that the parent flattens in
			for o := 1; o < len(files); o++ {
				if o != e.c && o != e.p && o > e.p {
					files[o].Tasks = append(files[o].Tasks, GTask{Name: name, Cmds: []GCmd{{Shell: marker(files[o].Path, name)}}})
					fi := addInclude(e.p, o, "flat")
					fi.Advanced, fi.Flatten = true, true
					return
				}
			}
		}
		host.Tasks = append(host.Tasks, t)
	case 2, 3:
		// a chain p -> c -> d, and p includes d's file once more under the key "<ns(p->c)>:<ns(c->d)>"
		for _, e2 := range allIncs {
			if e2.p == e.c {
				in2 := &files[e2.p].Includes[e2.k]
				plain(in2)
				ns := in.NS + ":" + in2.NS
				if variant%5 == 3 {
					ns += "x"
				}
				addInclude(e.p, e2.c, ns)
				return
			}
		}
		// no chain in this tree: fall back to the task-name form
		name := in.NS + ":" + tn
		if variant%5 == 3 {
			name += "x"
		}
		files[e.p].Tasks = append(files[e.p].Tasks, GTask{Name: name, Cmds: []GCmd{{Shell: marker(files[e.p].Path, name)}}})
	}
}

// EnvToolName is set in the driver's process environment so that templates can refer to it.
const EnvToolName = "VH_ENVTOOL"
const EnvToolValue = "envx"

// GenerateTpl: a file reached through two include statements that pass different vars (double include or
// diamond) has itself an include whose taskfile: / dir: is a template.  The template may refer to a variable
// set by the include statements (NOT visible when the nested path is expanded: the default is used), to the
// process environment (visible), to a global of the file itself (visible) or to a global of the root (not visible).
func GenerateTpl(r *rand.Rand, idx int) []*GFile {
	mkTask := func(path, name string, extra ...GCmd) GTask {
		return GTask{Name: name, Cmds: append([]GCmd{{Shell: marker(path, name)}}, extra...)}
	}
	root := &GFile{Path: "Taskfile.yml", Version: "3"}
	root.Tasks = []GTask{mkTask(root.Path, "default"), mkTask(root.Path, "root")}
	root.Vars = OM{{"RTOOL", "rootg"}, {"SHARED", "s-root"}}
	x := &GFile{Path: "x/Taskfile.yml", Version: "3"}
	x.Tasks = []GTask{mkTask(x.Path, "build", GCmd{Task: "tc:cc"}), mkTask(x.Path, "default")}
	x.Vars = OM{{"SHARED", "s-x"}}
	files := []*GFile{root, x}

	kind := idx % 6
	tpl := map[int]string{
		0: `{{.TOOLCHAIN | default "generic"}}`, // include-statement var
		1: `{{.` + EnvToolName + ` | default "generic"}}`,
		2: `{{.GTOOL | default "generic"}}`, // x's own global
		3: `{{.RTOOL | default "generic"}}`, // only the root has it
		4: `{{.TOOLCHAIN | default "generic"}}`,
		5: `{{.` + EnvToolName + `}}`,
	}[kind]
	if kind == 2 {
		x.Vars = append(x.Vars, KV{"GTOOL", "own"})
	}
	tc := GInclude{NS: "tc", Advanced: true, Taskfile: "./toolchain_" + tpl + ".yml"}
	switch r.Intn(3) {
	case 0:
		tc.Dir = "./wd_" + tpl
	case 1:
		tc.Dir = "./wd_{{." + EnvToolName + ` | default "noenv"}}`
	}
	if kind == 4 { // the variable also has a (static) global in x: that one is visible
		x.Vars = append(x.Vars, KV{"TOOLCHAIN", "own"})
	}
	x.Includes = []GInclude{tc}
	for _, v := range []string{"generic", "gcc", "cl", EnvToolValue, "own", "rootg"} {
		p := "x/toolchain_" + v + ".yml"
		f := &GFile{Path: p, Version: "3", Vars: OM{{"TC", "tc-" + v}}}
		f.Tasks = []GTask{mkTask(p, "cc"), mkTask(p, "only_"+v)}
		files = append(files, f)
	}
	incX := func(ns, tool, from string) GInclude {
		in := GInclude{NS: ns, Advanced: true, Taskfile: from, Vars: OM{{"TOOLCHAIN", tool}}}
		if r.Intn(3) == 0 { // include vars that shadow the other sources: still not visible in the nested path
			in.Vars = append(in.Vars, KV{"GTOOL", tool}, KV{"RTOOL", tool})
		}
		return in
	}
	switch r.Intn(3) {
	case 0: // the same file twice from the root
		root.Includes = []GInclude{incX("x1", "gcc", "./x"), incX("x2", "cl", "./x")}
	case 1: // diamond
		b := &GFile{Path: "b/Taskfile.yml", Version: "3", Tasks: []GTask{mkTask("b/Taskfile.yml", "bt")}}
		c := &GFile{Path: "c/Taskfile.yml", Version: "3", Tasks: []GTask{mkTask("c/Taskfile.yml", "ct")}}
		b.Includes = []GInclude{incX("x", "gcc", "../x")}
		c.Includes = []GInclude{incX("x", "cl", "../x")}
		root.Includes = []GInclude{{NS: "b", Taskfile: "./b"}, {NS: "c", Taskfile: "./c"}}
		files = append(files, b, c)
	case 2: // the same file twice from an intermediate file, and once from the root
		b := &GFile{Path: "b/Taskfile.yml", Version: "3", Tasks: []GTask{mkTask("b/Taskfile.yml", "bt")}}
		b.Includes = []GInclude{incX("x1", "gcc", "../x"), incX("x2", "cl", "../x")}
		root.Includes = []GInclude{{NS: "b", Taskfile: "./b"}, incX("x3", "generic", "./x")}
		files = append(files, b)
	}
	return files
}

// GenerateDirLeak: a diamond whose shared file is included once in long form with dir: and once in short
// form, and has a dynamic (sh:) global variable.  Vars.Merge stamps Dir = include.Dir on the variables of
// the long-form include; which copy the short-form branch and the root end up with must not change
// between loads (it does when the order in which sibling Taskfiles are processed varies).
// DirLeakLongName: the name of the long-form includer in GenerateDirLeak(_, idx); idx^1 is the twin tree
// that differs in nothing but that file name.
func DirLeakLongName(idx int) string { return []string{"app.yml", "zapp.yml"}[idx%2] }

func GenerateDirLeak(r *rand.Rand, idx int) []*GFile {
	mkTask := func(path, name string) GTask {
		return GTask{Name: name, Cmds: []GCmd{{Shell: marker(path, name)}, {Shell: "echo WHERE={{.WHERE}}"}}}
	}
	long := DirLeakLongName(idx) // sorts before / after lib.yml
	short := "lib.yml"
	root := &GFile{Path: "Taskfile.yml", Version: "3", Tasks: []GTask{mkTask("Taskfile.yml", "root")}}
	a := &GFile{Path: long, Version: "3", Tasks: []GTask{mkTask(long, "at")}}
	b := &GFile{Path: short, Version: "3", Tasks: []GTask{mkTask(short, "bt")}}
	common := &GFile{Path: "common.yml", Version: "3", Tasks: []GTask{mkTask("common.yml", "where")}}
	common.Vars = OM{{"WHERE", OM{{"sh", "basename $PWD"}}}}
	if r.Intn(2) == 0 {
		common.Vars = append(common.Vars, KV{"WHO", OM{{"sh", "echo who-$(basename $PWD)"}}})
	}
	a.Includes = []GInclude{{NS: "common", Advanced: true, Taskfile: "./common.yml", Dir: "./appdir"}}
	b.Includes = []GInclude{{NS: "common", Taskfile: "./common.yml"}}
	ia := GInclude{NS: "app", Taskfile: "./" + long}
	ib := GInclude{NS: "lib", Taskfile: "./" + short}
	if (idx/2)%2 == 0 {
		root.Includes = []GInclude{ia, ib}
	} else {
		root.Includes = []GInclude{ib, ia}
	}
	files := []*GFile{root, a, b, common, {Path: "appdir/.keep", Raw: "keep\n"}, {Path: "middir/.keep", Raw: "keep\n"}}
	switch (idx / 4) % 3 {
	case 1: // a third branch, long form with another dir
		c := &GFile{Path: "mid.yml", Version: "3", Tasks: []GTask{mkTask("mid.yml", "mt")}}
		c.Includes = []GInclude{{NS: "common", Advanced: true, Taskfile: "./common.yml", Dir: "./middir"}}
		root.Includes = append(root.Includes, GInclude{NS: "mid", Taskfile: "./mid.yml"})
		files = append(files, c)
	case 2: // the root includes the shared file itself, in short form
		root.Includes = append(root.Includes, GInclude{NS: "c0", Taskfile: "./common.yml"})
	}
	return files
}

// GenerateSharedDir: one Taskfile (svc/service.yml) is included several times with different dir: values
// (three includes of the root, or a diamond) and has itself a nested long-form include WITHOUT dir:.  The dir
// of that nested include is the directory of service.yml's file, for every namespace and on every load; it
// must not be the dir of whichever include reached the shared vertex first.
func GenerateSharedDir(r *rand.Rand, idx int) []*GFile {
	mkTask := func(path, name string) GTask {
		return GTask{Name: name, Cmds: []GCmd{{Shell: marker(path, name)}, {Shell: "echo WHERE={{.WHERE}}"}}}
	}
	root := &GFile{Path: "Taskfile.yml", Version: "3", Tasks: []GTask{mkTask("Taskfile.yml", "root")}}
	svc := &GFile{Path: "svc/service.yml", Version: "3", Tasks: []GTask{mkTask("svc/service.yml", "up"), mkTask("svc/service.yml", "default")}}
	docker := &GFile{Path: "svc/tools/docker.yml", Version: "3", Tasks: []GTask{mkTask("svc/tools/docker.yml", "image")}}
	docker.Vars = OM{{"WHERE", OM{{"sh", "basename $PWD"}}}}
	nested := GInclude{NS: "docker", Advanced: true, Taskfile: "./tools/docker.yml"}
	switch idx % 4 {
	case 1:
		nested.Vars = OM{{"IV0", "i1"}} // still long form, still no dir
	case 2:
		nested.Aliases = []string{"dk"}
	case 3: // a second nested include, in short form (tasks keep their own dir, joined with the outer dir)
		svc.Includes = append(svc.Includes, GInclude{NS: "dshort", Taskfile: "./tools/docker.yml"})
	}
	svc.Includes = append([]GInclude{nested}, svc.Includes...)
	files := []*GFile{root, svc, docker}
	for _, d := range []string{"api", "web", "db", "svc/tools"} {
		files = append(files, &GFile{Path: d + "/.keep", Raw: "keep\n"})
	}
	inc := func(ns, dir, from string) GInclude {
		return GInclude{NS: ns, Advanced: true, Taskfile: from, Dir: dir}
	}
	switch (idx / 4) % 3 {
	case 0: // three includes of the same file from the root
		root.Includes = []GInclude{inc("api", "./api", "./svc/service.yml"), inc("web", "./web", "./svc/service.yml"), inc("db", "./db", "./svc/service.yml")}
	case 1: // diamond: two intermediate files include it with different dirs
		a := &GFile{Path: "a.yml", Version: "3", Tasks: []GTask{mkTask("a.yml", "at")}}
		b := &GFile{Path: "b.yml", Version: "3", Tasks: []GTask{mkTask("b.yml", "bt")}}
		a.Includes = []GInclude{inc("svc", "./api", "./svc/service.yml")}
		b.Includes = []GInclude{inc("svc", "./web", "./svc/service.yml")}
		root.Includes = []GInclude{{NS: "a", Taskfile: "./a.yml"}, {NS: "b", Taskfile: "./b.yml"}}
		files = append(files, a, b)
	case 2: // one include with dir, one without (long form), one in short form
		root.Includes = []GInclude{inc("api", "./api", "./svc/service.yml"), {NS: "plain", Advanced: true, Taskfile: "./svc/service.yml"}, {NS: "short", Taskfile: "./svc/service.yml"}}
	}
	return files
}
