package merge

import (
	"fmt"
	"os"
	"reflect"
	"regexp"
	"sort"
	"strings"

	"github.com/go-task/task/v3/taskfile/ast"
	cg "github.com/go-task/task/v3/verifharness/coqgen"
)

// ---- canonical dump of arbitrary ast values (zero value => "") ----

type dumper struct {
	root string // temp dir replaced by /R
	pool *pool
}

// pool interns string literals: cases.v declares each distinct string once (elaborating
// string literals dominates coqc's time on these files).
type pool struct {
	ids  map[string]string
	defs []string
}

func newPool() *pool { return &pool{ids: map[string]string{}} }

func (p *pool) str(s string) string {
	if len(s) <= 3 {
		return cg.Str(s)
	}
	if id, ok := p.ids[s]; ok {
		return id
	}
	id := fmt.Sprintf("s%d", len(p.ids))
	p.ids[s] = id
	p.defs = append(p.defs, fmt.Sprintf("Definition %s : string := %s.", id, cg.Str(s)))
	return id
}

// term interns a whole Coq term of the given type (identical tasks recur in every load of a tree).
func (p *pool) term(typ, text string) string {
	key := typ + "\x00" + text
	if id, ok := p.ids[key]; ok {
		return id
	}
	id := fmt.Sprintf("x%d", len(p.ids))
	p.ids[key] = id
	p.defs = append(p.defs, fmt.Sprintf("Definition %s : %s := %s.", id, typ, text))
	return id
}

func (d *dumper) S(s string) string {
	if d.pool == nil {
		return cg.Str(s)
	}
	return d.pool.str(s)
}

func (d *dumper) SL(ss []string) string {
	items := make([]string, len(ss))
	for i, s := range ss {
		items[i] = d.S(s)
	}
	return cg.List(items)
}

func (d *dumper) path(s string) string {
	if d.root == "" {
		return s
	}
	return strings.ReplaceAll(s, d.root, "/R")
}

func (d *dumper) varStr(v ast.Var) string {
	// Dir is abstracted away by the model (see DESIGN model C)
	var parts []string
	if v.Value != nil {
		parts = append(parts, "v="+d.canon(reflect.ValueOf(v.Value)))
	}
	if v.Live != nil {
		parts = append(parts, "live="+d.canon(reflect.ValueOf(v.Live)))
	}
	if v.Sh != nil {
		parts = append(parts, "sh="+*v.Sh)
	}
	if v.Ref != "" {
		parts = append(parts, "ref="+v.Ref)
	}
	return strings.Join(parts, ",")
}

func (d *dumper) vars(vs *ast.Vars) [][2]string {
	var out [][2]string
	if vs == nil {
		return out
	}
	for k, v := range vs.All() {
		// "<Dir>|<value>": the model carries ast.Var.Dir in front of the value (Model.v: stamp_dir)
		out = append(out, [2]string{k, d.path(v.Dir) + "|" + d.path(d.varStr(v))})
	}
	return out
}

func (d *dumper) canon(v reflect.Value) string {
	if !v.IsValid() {
		return ""
	}
	// special cases: ordered maps with unexported fields
	if v.CanInterface() {
		switch x := v.Interface().(type) {
		case *ast.Vars:
			if x == nil || x.Len() == 0 {
				return ""
			}
			var parts []string
			for _, kv := range d.vars(x) {
				parts = append(parts, kv[0]+"="+kv[1])
			}
			return "{" + strings.Join(parts, ";") + "}"
		case *ast.Matrix:
			if x == nil || x.Len() == 0 {
				return ""
			}
			var parts []string
			for k, row := range x.All() {
				parts = append(parts, k+"="+d.canon(reflect.ValueOf(row)))
			}
			return "{" + strings.Join(parts, ";") + "}"
		case ast.Var:
			return d.varStr(x)
		}
	}
	switch v.Kind() {
	case reflect.Ptr, reflect.Interface:
		if v.IsNil() {
			return ""
		}
		return d.canon(v.Elem())
	case reflect.String:
		return v.String()
	case reflect.Bool:
		if v.Bool() {
			return "true"
		}
		return ""
	case reflect.Int, reflect.Int8, reflect.Int16, reflect.Int32, reflect.Int64:
		if v.Int() == 0 {
			return ""
		}
		return fmt.Sprint(v.Int())
	case reflect.Uint, reflect.Uint8, reflect.Uint16, reflect.Uint32, reflect.Uint64:
		if v.Uint() == 0 {
			return ""
		}
		return fmt.Sprint(v.Uint())
	case reflect.Float32, reflect.Float64:
		return fmt.Sprint(v.Float())
	case reflect.Slice, reflect.Array:
		if v.Len() == 0 {
			return ""
		}
		parts := make([]string, v.Len())
		for i := 0; i < v.Len(); i++ {
			parts[i] = d.canon(v.Index(i))
		}
		return "[" + strings.Join(parts, ";") + "]"
	case reflect.Map:
		if v.Len() == 0 {
			return ""
		}
		var parts []string
		for _, k := range v.MapKeys() {
			parts = append(parts, fmt.Sprint(k.Interface())+"="+d.canon(v.MapIndex(k)))
		}
		sort.Strings(parts)
		return "{" + strings.Join(parts, ";") + "}"
	case reflect.Struct:
		var parts []string
		t := v.Type()
		for i := 0; i < v.NumField(); i++ {
			if !t.Field(i).IsExported() {
				continue
			}
			s := d.canon(v.Field(i))
			if s != "" {
				parts = append(parts, t.Field(i).Name+"="+s)
			}
		}
		if len(parts) == 0 {
			return ""
		}
		return "{" + strings.Join(parts, ";") + "}"
	}
	return fmt.Sprintf("?%s", v.Kind())
}

// attrs dumps every exported field of the struct except `skip`, omitting zero values.
func (d *dumper) attrs(v reflect.Value, skip map[string]bool) [][2]string {
	var out [][2]string
	t := v.Type()
	for i := 0; i < v.NumField(); i++ {
		f := t.Field(i)
		if !f.IsExported() || skip[f.Name] {
			continue
		}
		s := d.path(d.canon(v.Field(i)))
		if s != "" {
			out = append(out, [2]string{f.Name, s})
		}
	}
	return out
}

var taskStructured = map[string]bool{"Task": true, "Cmds": true, "Deps": true, "Aliases": true, "Dir": true, "Internal": true,
	"Namespace": true, "IncludeVars": true, "IncludedTaskfileVars": true}

// ---- Coq literals ----

func (d *dumper) kvList(kvs [][2]string) string {
	items := make([]string, len(kvs))
	for i, kv := range kvs {
		items[i] = cg.Pair(d.S(kv[0]), d.S(kv[1]))
	}
	return cg.List(items)
}

func (d *dumper) cmdCoq(c *ast.Cmd) string {
	if c == nil {
		return `(Build_cmd ""%string [("nil"%string, "nil"%string)])`
	}
	return fmt.Sprintf("(Build_cmd %s %s)", d.S(c.Task), d.kvList(d.attrs(reflect.ValueOf(*c), map[string]bool{"Task": true})))
}

func (d *dumper) depCoq(c *ast.Dep) string {
	if c == nil {
		return `(Build_dep ""%string [("nil"%string, "nil"%string)])`
	}
	return fmt.Sprintf("(Build_dep %s %s)", d.S(c.Task), d.kvList(d.attrs(reflect.ValueOf(*c), map[string]bool{"Task": true})))
}

func (d *dumper) taskCoq(t *ast.Task) string {
	cmds := make([]string, len(t.Cmds))
	for i, c := range t.Cmds {
		cmds[i] = d.cmdCoq(c)
	}
	deps := make([]string, len(t.Deps))
	for i, c := range t.Deps {
		deps[i] = d.depCoq(c)
	}
	text := fmt.Sprintf("(Build_task %s %s %s %s %s %s %s %s %s %s)",
		d.S(t.Task), cg.List(cmds), cg.List(deps), d.SL(t.Aliases), d.S(d.path(t.Dir)), cg.Bool(t.Internal), d.S(t.Namespace),
		d.kvList(d.vars(t.IncludeVars)), d.kvList(d.vars(t.IncludedTaskfileVars)), d.kvList(d.attrs(reflect.ValueOf(*t), taskStructured)))
	if d.pool == nil {
		return text
	}
	return d.pool.term("task", text)
}

// ---- templates of include statements: `{{.NAME}}` / `{{.NAME | default "x"}}` ----

type tplSeg struct {
	Lit, Name, Def string
	IsVar          bool
}

var tplRe = regexp.MustCompile(`\{\{\s*\.([A-Za-z_][A-Za-z0-9_]*)\s*(?:\|\s*default\s+"([^"]*)"\s*)?\}\}`)

// parseTpl splits a template of the generated family into segments; ok=false when something else is left.
func parseTpl(s string) ([]tplSeg, bool) {
	var out []tplSeg
	pos := 0
	for _, m := range tplRe.FindAllStringSubmatchIndex(s, -1) {
		if m[0] > pos {
			out = append(out, tplSeg{Lit: s[pos:m[0]]})
		}
		sg := tplSeg{IsVar: true, Name: s[m[2]:m[3]]}
		if m[4] >= 0 {
			sg.Def = s[m[4]:m[5]]
		}
		out = append(out, sg)
		pos = m[1]
	}
	if pos < len(s) {
		out = append(out, tplSeg{Lit: s[pos:]})
	}
	for _, sg := range out {
		if !sg.IsVar && (strings.Contains(sg.Lit, "{{") || strings.Contains(sg.Lit, "}}")) {
			return out, false
		}
	}
	return out, true
}

func evalTpl(segs []tplSeg, env map[string]string) string {
	var sb strings.Builder
	for _, sg := range segs {
		if !sg.IsVar {
			sb.WriteString(sg.Lit)
		} else if v := env[sg.Name]; v != "" {
			sb.WriteString(v)
		} else {
			sb.WriteString(sg.Def)
		}
	}
	return sb.String()
}

// tplVarNames collects the variables the templates of a tree refer to (for the "$ENV" pseudo file).
func tplVarNames(s string, into map[string]bool) {
	segs, _ := parseTpl(s)
	for _, sg := range segs {
		if sg.IsVar {
			into[sg.Name] = true
		}
	}
}

func (d *dumper) tplCoq(s string) string {
	segs, _ := parseTpl(s)
	items := make([]string, len(segs))
	for i, sg := range segs {
		if sg.IsVar {
			items[i] = fmt.Sprintf("(TVar %s %s)", d.S(sg.Name), d.S(sg.Def))
		} else {
			items[i] = fmt.Sprintf("(TLit %s)", d.S(d.path(sg.Lit)))
		}
	}
	return cg.List(items)
}

// envFileCoq: the process environment, restricted to the names the templates use, as the pseudo file "$ENV".
func (d *dumper) envFileCoq(names map[string]bool) string {
	var kvs [][2]string
	var ns []string
	for n := range names {
		ns = append(ns, n)
	}
	sort.Strings(ns)
	for _, n := range ns {
		if v, ok := os.LookupEnv(n); ok {
			kvs = append(kvs, [2]string{n, "|v=" + v})
		}
	}
	return fmt.Sprintf("(Build_file %s false %s %s [] [] [] None)", cg.Str(""), cg.Str(""), d.kvList(kvs))
}

func (d *dumper) includeCoq(in *ast.Include) string {
	return fmt.Sprintf("(Build_include %s %s %s %s %s %s %s %s %s %s %s %s)",
		d.S(in.Namespace), d.S(d.path(in.Taskfile)), d.S(d.path(in.Dir)), cg.Bool(in.Optional), cg.Bool(in.Internal), cg.Bool(in.Flatten), cg.Bool(in.AdvancedImport),
		d.SL(in.Aliases), d.SL(in.Excludes), d.kvList(d.vars(in.Vars)), d.tplCoq(in.Taskfile), d.tplCoq(in.Dir))
}

func (d *dumper) tasksCoq(ts *ast.Tasks) string {
	var items []string
	if ts != nil {
		for k, t := range ts.All(nil) {
			if t == nil {
				t = &ast.Task{}
			}
			items = append(items, cg.Pair(d.S(k), d.taskCoq(t)))
		}
	}
	return cg.List(items)
}

func (d *dumper) fileCoq(tf *ast.Taskfile, withIncludes bool) string {
	ver := ""
	if tf.Version != nil {
		ver = tf.Version.String()
	}
	var incs []string
	if withIncludes && tf.Includes != nil {
		for _, in := range tf.Includes.All() {
			incs = append(incs, d.includeCoq(in))
		}
	}
	return fmt.Sprintf("(Build_file %s %s %s %s %s %s %s None)",
		d.S(ver), cg.Bool(len(tf.Dotenv) > 0), d.S(tf.Output.Name), d.kvList(d.vars(tf.Vars)), d.kvList(d.vars(tf.Env)), cg.List(incs), d.tasksCoq(tf.Tasks))
}

// ---- dynamic DeepCopy check: populate every exported field, copy, compare field by field ----

func fill(v reflect.Value, depth int) {
	if !v.CanSet() {
		return
	}
	if v.CanInterface() {
		switch v.Interface().(type) {
		case *ast.Vars:
			vs := ast.NewVars()
			vs.Set("K", ast.Var{Value: "v"})
			v.Set(reflect.ValueOf(vs))
			return
		}
	}
	switch v.Kind() {
	case reflect.String:
		v.SetString("x")
	case reflect.Bool:
		v.SetBool(true)
	case reflect.Int, reflect.Int8, reflect.Int16, reflect.Int32, reflect.Int64:
		v.SetInt(7)
	case reflect.Ptr:
		if depth <= 0 {
			return
		}
		p := reflect.New(v.Type().Elem())
		fill(p.Elem(), depth-1)
		v.Set(p)
	case reflect.Slice:
		if depth <= 0 {
			return
		}
		s := reflect.MakeSlice(v.Type(), 1, 1)
		fill(s.Index(0), depth-1)
		v.Set(s)
	case reflect.Struct:
		for i := 0; i < v.NumField(); i++ {
			if v.Type().Field(i).IsExported() {
				fill(v.Field(i), depth-1)
			}
		}
	case reflect.Interface:
		if v.NumMethod() == 0 {
			v.Set(reflect.ValueOf("x"))
		}
	}
}

// DeepCopyMissing lists the exported fields of ast.Task whose value does not survive Task.DeepCopy.
func DeepCopyMissing() []string {
	var t ast.Task
	fill(reflect.ValueOf(&t).Elem(), 4)
	c := t.DeepCopy()
	d := &dumper{}
	var out []string
	tv, cv := reflect.ValueOf(t), reflect.ValueOf(*c)
	for i := 0; i < tv.NumField(); i++ {
		f := tv.Type().Field(i)
		if !f.IsExported() {
			continue
		}
		a, b := d.canon(tv.Field(i)), d.canon(cv.Field(i))
		if a == "" {
			out = append(out, f.Name+"?unfilled")
		} else if a != b {
			out = append(out, f.Name)
		}
	}
	return out
}
