package merge

import (
	"bytes"
	"context"
	"encoding/json"
	"errors"
	"fmt"
	"io"
	"io/fs"
	"os"
	"path/filepath"
	"sort"
	"strings"
	"time"

	task "github.com/go-task/task/v3"
	taskerrors "github.com/go-task/task/v3/errors"
	"github.com/go-task/task/v3/internal/editors"
	"github.com/go-task/task/v3/internal/templater"
	"github.com/go-task/task/v3/taskfile"
	"github.com/go-task/task/v3/taskfile/ast"
	cg "github.com/go-task/task/v3/verifharness/coqgen"
	"gopkg.in/yaml.v3"
)

// errClass maps an error of the reader / Setup to the model's small enum.
func errClass(err error) string {
	var cyc taskerrors.TaskfileCycleError
	var cycp *taskerrors.TaskfileCycleError
	var dup *taskerrors.TaskNameFlattenConflictError
	var ver *taskerrors.TaskfileVersionCheckError
	switch {
	case errors.As(err, &cyc), errors.As(err, &cycp):
		return "ECycle"
	case errors.As(err, &dup):
		return "EDup"
	case errors.As(err, &ver):
		return "ENoVersion"
	case errors.Is(err, ast.ErrIncludedTaskfilesCantHaveDotenvs):
		return "EDotenv"
	case errors.Is(err, fs.ErrNotExist):
		return "ENotFound"
	case strings.Contains(err.Error(), "Taskfiles versions should match"):
		return "EVersion"
	}
	return ""
}

func exitCode(err error) int {
	if err == nil {
		return 0
	}
	var te taskerrors.TaskError
	if errors.As(err, &te) {
		return te.Code()
	}
	return 1
}

// Tree is a generated include tree written to a temp dir.
type Tree struct {
	Root      string            // temp dir (absolute, symlinks resolved)
	Files     map[string]string // relative path -> content
	Order     []string
	loads     int
	listCache [3][]string
	jsonCache []string
	compCache []string
}

func writeTree(files map[string]string) (*Tree, error) {
	dir, err := os.MkdirTemp("", "vh-merge")
	if err != nil {
		return nil, err
	}
	if r, err := filepath.EvalSymlinks(dir); err == nil {
		dir = r
	}
	t := &Tree{Root: dir, Files: files}
	for p := range files {
		t.Order = append(t.Order, p)
	}
	sort.Strings(t.Order)
	for _, p := range t.Order {
		full := filepath.Join(dir, p)
		if err := os.MkdirAll(filepath.Dir(full), 0o755); err != nil {
			return nil, err
		}
		if err := os.WriteFile(full, []byte(files[p]), 0o644); err != nil {
			return nil, err
		}
	}
	return t, nil
}

func (t *Tree) Remove() { _ = os.RemoveAll(t.Root) }

// parseStandalone decodes one file the way Reader.readNode does (yaml.Unmarshal + task locations), without includes.
func parseStandalone(full string) (*ast.Taskfile, error) {
	b, err := os.ReadFile(full)
	if err != nil {
		return nil, err
	}
	var tf ast.Taskfile
	if err := yaml.Unmarshal(b, &tf); err != nil {
		return nil, err
	}
	tf.Location = full
	for tk := range tf.Tasks.Values(nil) {
		if tk != nil && tk.Location != nil && tk.Location.Taskfile == "" {
			tk.Location.Taskfile = full
		}
	}
	return &tf, nil
}

// fsCoq: the parsed files as the model's fsys (absolute canonical path -> file).
func (t *Tree) fsCoq(d *dumper) (string, map[string]*ast.Taskfile, error) {
	var items []string
	parsed := map[string]*ast.Taskfile{}
	names := map[string]bool{}
	for _, p := range t.Order {
		if !strings.HasSuffix(p, ".yml") {
			continue // not a Taskfile
		}
		tf, err := parseStandalone(filepath.Join(t.Root, p))
		if err != nil {
			return "", nil, fmt.Errorf("%s: %w", p, err)
		}
		parsed["/R/"+p] = tf
		for _, in := range tf.Includes.All() {
			for _, raw := range []string{in.Taskfile, in.Dir} {
				if err := tplGlue(raw); err != nil {
					return "", nil, fmt.Errorf("%s: include %s: %w", p, in.Namespace, err)
				}
				tplVarNames(raw, names)
			}
		}
		items = append(items, cg.Pair(d.S("/R/"+p), d.fileCoq(tf, true)))
	}
	if len(names) > 0 {
		items = append(items, cg.Pair(cg.Str("$ENV"), d.envFileCoq(names)))
	}
	return cg.List(items), parsed, nil
}

// tplGlue checks the harness's reading of a template against the real templater on three variable environments.
func tplGlue(raw string) error {
	segs, ok := parseTpl(raw)
	if !ok {
		return fmt.Errorf("template %q is outside the modelled family", raw)
	}
	envs := []map[string]string{{}, {}, {}}
	for _, sg := range segs {
		if sg.IsVar {
			envs[1][sg.Name] = "zz"
			envs[2][sg.Name] = ""
		}
	}
	for _, e := range envs {
		vs := ast.NewVars()
		for k, v := range e {
			vs.Set(k, ast.Var{Value: v})
		}
		cache := &templater.Cache{Vars: vs}
		got := templater.Replace(raw, cache)
		if cache.Err() != nil || got != evalTpl(segs, e) {
			return fmt.Errorf("template %q: real templater gives %q, harness %q (%v)", raw, got, evalTpl(segs, e), cache.Err())
		}
	}
	return nil
}

type guarded struct {
	err   error
	panic string
}

func guard(f func() error) (g guarded) {
	defer func() {
		if r := recover(); r != nil {
			g.panic = fmt.Sprint(r)
		}
	}()
	g.err = f()
	return
}

// readReal runs the real Reader on the tree and renders the graph (or the error class) as a Coq robs.
func (t *Tree) readReal(d *dumper) (string, string) {
	var g *ast.TaskfileGraph
	res := guard(func() error {
		node, err := taskfile.NewRootNode("", t.Root, false, 10*time.Second)
		if err != nil {
			return err
		}
		ctx, cf := context.WithTimeout(context.Background(), 10*time.Second)
		defer cf()
		g, err = taskfile.NewReader().Read(ctx, node)
		return err
	})
	if res.panic != "" {
		return fmt.Sprintf("(ROther %s)", cg.Str("panic")), "panic: " + res.panic
	}
	if res.err != nil {
		if c := errClass(res.err); c != "" {
			return "(RErr " + c + ")", ""
		}
		return fmt.Sprintf("(ROther %s)", cg.Str(d.path(res.err.Error()))), ""
	}
	adj, err := g.AdjacencyMap()
	if err != nil {
		return fmt.Sprintf("(ROther %s)", cg.Str(err.Error())), ""
	}
	var vs []string
	for v := range adj {
		vs = append(vs, v)
	}
	sort.Strings(vs)
	var vsC, esC []string
	for _, v := range vs {
		vsC = append(vsC, d.S(d.path(v)))
		var ts []string
		for x := range adj[v] {
			ts = append(ts, x)
		}
		sort.Strings(ts)
		for _, x := range ts {
			incs, _ := adj[v][x].Properties.Data.([]*ast.Include)
			var descr []string
			for _, in := range incs {
				descr = append(descr, in.Namespace+"@"+d.path(in.Dir))
			}
			sort.Strings(descr)
			esC = append(esC, cg.Pair(cg.Pair(d.S(d.path(v)), d.S(d.path(x))), d.SL(descr)))
		}
	}
	return fmt.Sprintf("(RGraph %s %s)", cg.List(vsC), cg.List(esC)), ""
}

// Load is one Executor.Setup on the tree.
type Load struct {
	Exec   *task.Executor
	Err    error
	Panic  string
	Coq    string // sobs literal
	Code   int
	Class  string
	Stdout *bytes.Buffer
	// task names in the order of: --list-all --json --no-status, --list-all --json, --list-all, --list --json --no-status
	Listings [][]string
}

func (t *Tree) load(d *dumper, compiled bool) *Load { return t.loadL(d, compiled, false) }

// loadL: one Executor.Setup; compiled: add the compiled digest; list: add the listings
func (t *Tree) loadL(d *dumper, compiled, list bool) *Load {
	l := &Load{Stdout: &bytes.Buffer{}}
	e := task.NewExecutor(task.WithDir(t.Root), task.WithStdout(l.Stdout), task.WithStderr(io.Discard),
		task.WithSilent(true), task.WithVersionCheck(true), task.WithColor(false))
	res := guard(e.Setup)
	l.Exec, l.Err, l.Panic = e, res.err, res.panic
	switch {
	case res.panic != "":
		l.Coq = fmt.Sprintf("(SOther %s)", cg.Str("panic"))
	case res.err != nil:
		l.Code = exitCode(res.err)
		l.Class = errClass(res.err)
		if l.Class != "" {
			l.Coq = "(SErr " + l.Class + ")"
		} else {
			l.Coq = fmt.Sprintf("(SOther %s)", cg.Str(d.path(res.err.Error())))
		}
	default:
		var comp []string
		if compiled {
			if t.loads%2 == 0 || t.compCache == nil {
				t.compCache = compiledDigest(e, d)
			}
			comp = t.compCache
		}
		var lst []string
		if list {
			// even loads take the compiled digest, odd loads the JSON listing; the other half is repeated
			l.Listings = listings(e, t.loads%2 == 0, &t.listCache, t.jsonCache)
			t.jsonCache = l.Listings[0]
			for _, names := range l.Listings {
				lst = append(lst, d.SL(names))
			}
		}
		t.loads++
		l.Coq = fmt.Sprintf("(STable %s %s %s)", d.fileCoq(e.Taskfile, false), d.SL(comp), cg.List(lst))
	}
	return l
}

// listings runs Executor.ListTasks the way the CLI does and returns the task names in the order they are printed.
func listings(e *task.Executor, full bool, cache *[3][]string, jsonCache []string) [][]string {
	run := func(o task.ListOptions) []string {
		buf := &bytes.Buffer{}
		old := e.Stdout
		e.Stdout = buf
		defer func() { e.Stdout = old }()
		var names []string
		res := guard(func() error {
			_, err := e.ListTasks(o)
			return err
		})
		switch {
		case res.panic != "":
			return []string{"!panic " + res.panic}
		case res.err != nil:
			return []string{"!error"}
		}
		if o.FormatTaskListAsJSON {
			var out editors.Taskfile
			if err := json.Unmarshal(buf.Bytes(), &out); err != nil {
				return []string{"!json"}
			}
			for _, t := range out.Tasks {
				names = append(names, t.Name)
			}
			return names
		}
		for _, ln := range strings.Split(buf.String(), "\n") {
			if strings.HasPrefix(ln, "* ") {
				f := strings.Fields(ln[2:])
				if len(f) > 0 {
					names = append(names, strings.TrimSuffix(f[0], ":"))
				}
			}
		}
		return names
	}
	// the JSON listing (ToEditorOutput builds its entries in goroutines) is taken on every odd load, the other
	// three once per tree; they are repeated in between, so that all loads have the same shape
	a := jsonCache
	if a == nil || !full {
		a = run(task.NewListOptions(false, true, true, true))
	}
	if cache[0] == nil {
		cache[0] = run(task.NewListOptions(false, true, true, false))
		cache[1] = run(task.NewListOptions(false, true, false, false))
		cache[2] = run(task.NewListOptions(true, false, true, true))
	}
	return [][]string{a, cache[0], cache[1], cache[2]}
}

// compiledDigest: for every task in table order, the fast-compiled command lines, deps and static variable values.
func compiledDigest(e *task.Executor, d *dumper) []string {
	var out []string
	// working directories stamped on the global variables (ast.Var.Dir is not part of the model)
	var dirs []string
	for k, v := range e.Taskfile.Vars.All() {
		if v.Dir != "" {
			dirs = append(dirs, k+"@"+d.path(v.Dir))
		}
	}
	out = append(out, "vardirs="+strings.Join(dirs, ","))
	for name := range e.Taskfile.Tasks.Keys(nil) {
		var line string
		res := guard(func() error {
			// full compilation first (it evaluates the dynamic variables in the directory stamped on them)
			ct, err := e.CompiledTask(&task.Call{Task: name})
			if err != nil {
				ct, err = e.FastCompiledTask(&task.Call{Task: name})
			}
			if err != nil {
				line = name + " !" + d.path(err.Error())
				return nil
			}
			var parts []string
			for _, c := range ct.Cmds {
				if c != nil {
					parts = append(parts, c.Cmd+"|"+c.Task)
				}
			}
			for _, c := range ct.Deps {
				if c != nil {
					parts = append(parts, "dep:"+c.Task)
				}
			}
			var vs []string
			for k, v := range ct.Vars.All() {
				switch k {
				case "SHARED", "IV0", "IV1", "TV", "CV", "DV", "E", "TASK", "TASK_DIR", "TASKFILE", "WHERE", "WHO", "DYN", "TC":
					vs = append(vs, k+"="+fmt.Sprint(v.Value))
				default:
					if strings.HasPrefix(k, "G") && len(k) == 2 {
						vs = append(vs, k+"="+fmt.Sprint(v.Value))
					}
				}
			}
			sort.Strings(vs)
			var idirs []string
			if ot, ok := e.Taskfile.Tasks.Get(name); ok && ot != nil {
				for k, v := range ot.IncludedTaskfileVars.All() {
					if v.Dir != "" {
						idirs = append(idirs, k+"@"+v.Dir)
					}
				}
			}
			line = d.path(name + " dir=" + ct.Dir + " cmds=" + strings.Join(parts, ";") + " vars=" + strings.Join(vs, ",") + " itvdirs=" + strings.Join(idirs, ","))
			return nil
		})
		if res.panic != "" {
			line = name + " !panic"
		}
		out = append(out, line)
	}
	return out
}

// ExecObs: running one callable name through the real Executor.
type ExecObs struct {
	Name  string   `json:"name"`
	OK    bool     `json:"ok"`
	Err   string   `json:"err,omitempty"`
	Lines []string `json:"lines"`
}

// execSafe: the closure of `name` in the merged table avoids tasks that would block or need a terminal.
func execSafe(e *task.Executor, name string, seen map[string]bool, depth int) bool {
	if depth > 12 || seen[name] {
		return depth <= 12
	}
	seen[name] = true
	t, err := e.GetTask(&task.Call{Task: name})
	if err != nil {
		return true // unresolvable: the run fails fast with TaskNotFound, which is an observation
	}
	if t.Watch || t.Prompt != nil || t.Interactive || t.Requires != nil || len(t.Dotenv) > 0 || len(t.Sources) > 0 || len(t.Status) > 0 {
		return false
	}
	for _, p := range t.Platforms {
		if p != nil && p.OS != "" && p.OS != "linux" {
			return false
		}
	}
	for _, c := range t.Cmds {
		if c != nil && c.Task != "" && !execSafe(e, c.Task, seen, depth+1) {
			return false
		}
	}
	for _, c := range t.Deps {
		if c != nil && c.Task != "" && !execSafe(e, c.Task, seen, depth+1) {
			return false
		}
	}
	return true
}

func (t *Tree) execName(d *dumper, name string) (*ExecObs, bool) {
	l := t.load(d, false)
	if l.Err != nil || l.Panic != "" {
		return nil, false
	}
	if tk, err := l.Exec.GetTask(&task.Call{Task: name}); err != nil || tk.Internal {
		return nil, false
	}
	if !execSafe(l.Exec, name, map[string]bool{}, 0) {
		return nil, false
	}
	ob := &ExecObs{Name: name}
	done := make(chan guarded, 1)
	ctx, cf := context.WithTimeout(context.Background(), 8*time.Second)
	defer cf()
	go func() {
		done <- guard(func() error { return l.Exec.Run(ctx, &task.Call{Task: name}) })
	}()
	select {
	case g := <-done:
		if g.panic != "" {
			ob.Err = "panic: " + g.panic
		} else if g.err != nil {
			ob.Err = d.path(g.err.Error())
		} else {
			ob.OK = true
		}
	case <-time.After(10 * time.Second):
		return nil, false // inconclusive
	}
	for _, ln := range strings.Split(l.Stdout.String(), "\n") {
		if i := strings.Index(ln, "@M "); i >= 0 {
			ob.Lines = append(ob.Lines, d.path(ln[i+3:]))
		}
	}
	return ob, true
}

// markerCoq parses `path#task iv0=.. iv1=.. pwd=..` into a Coq 4-tuple.
func markerCoq(d *dumper, line string) string {
	id, iv0, iv1, pwd := "", "", "", ""
	fs := strings.Split(line, " ")
	if len(fs) > 0 {
		id = fs[0]
	}
	for _, f := range fs[1:] {
		switch {
		case strings.HasPrefix(f, "iv0="):
			iv0 = f[4:]
		case strings.HasPrefix(f, "iv1="):
			iv1 = f[4:]
		case strings.HasPrefix(f, "pwd="):
			pwd = f[4:]
		}
	}
	return fmt.Sprintf("(%s, %s, %s, %s)", d.S(id), d.S(iv0), d.S(iv1), d.S(pwd))
}

func (o *ExecObs) Coq(d *dumper) string {
	ls := make([]string, len(o.Lines))
	for i, l := range o.Lines {
		ls[i] = markerCoq(d, l)
	}
	return fmt.Sprintf("(Build_eobs %s %s %s)", d.S(o.Name), cg.Bool(o.OK), cg.List(ls))
}
