package merge

import (
	"encoding/json"
	"fmt"
	"math/rand"
	"os"
	"path/filepath"
	"reflect"
	"sort"
	"strings"

	task "github.com/go-task/task/v3"
	"github.com/go-task/task/v3/taskfile/ast"
	"github.com/go-task/task/v3/verifharness/common"
	cg "github.com/go-task/task/v3/verifharness/coqgen"
)

// MergeCase is the replayable input of one case (+ what was seen, for signatures and evidence).
type MergeCase struct {
	Mode  string            `json:"mode"`
	Seed  int64             `json:"seed"`
	Index int               `json:"index"`
	Files map[string]string `json:"files"`
	Loads int               `json:"loads"`
	// trees that differ from Files only in the name of one file (TwinNames[i] in twin i, TwinNames[0] in Files)
	Twins     []map[string]string `json:"twins,omitempty"`
	TwinNames []string            `json:"twin_names,omitempty"`
	// filled after the run
	Diag     *Diag      `json:"diag,omitempty"`
	Outcome  []string   `json:"outcome,omitempty"`
	Execs    []*ExecObs `json:"execs,omitempty"`
	Features []string   `json:"features,omitempty"`
}

// Diag: a Go-side diagnosis of what differed, used only to give each defect a narrow signature.
type Diag struct {
	AttrsLost       []string `json:"attrs_lost,omitempty"` // ast.Task / Cmd / Dep fields whose value changed through the merge
	RootRef         []string `json:"rootref,omitempty"`    // nested | flatten
	C09             []string `json:"c09,omitempty"`        // classes of differences between loads of the same tree
	Distinct        int      `json:"distinct_loads,omitempty"`
	DeepCopyMissing []string `json:"deepcopy_missing,omitempty"` // fields of ast.Task that a populated value loses through Task.DeepCopy (run on the real code)
}

func addUniq(l []string, s string) []string {
	for _, x := range l {
		if x == s {
			return l
		}
	}
	l = append(l, s)
	sort.Strings(l)
	return l
}

type locKey struct {
	file      string
	line, col int
}

func definitions(parsed map[string]*ast.Taskfile) map[locKey]*ast.Task {
	defs := map[locKey]*ast.Task{}
	for _, tf := range parsed {
		for t := range tf.Tasks.Values(nil) {
			if t != nil && t.Location != nil {
				defs[locKey{t.Location.Taskfile, t.Location.Line, t.Location.Column}] = t
			}
		}
	}
	return defs
}

func diagnoseTable(d *dumper, e *task.Executor, parsed map[string]*ast.Taskfile, dg *Diag) {
	defs := definitions(parsed)
	for m := range e.Taskfile.Tasks.Values(nil) {
		if m == nil || m.Location == nil {
			continue
		}
		def, ok := defs[locKey{m.Location.Taskfile, m.Location.Line, m.Location.Column}]
		if !ok {
			continue
		}
		da := d.attrs(reflect.ValueOf(*def), taskStructured)
		ma := d.attrs(reflect.ValueOf(*m), taskStructured)
		dm, mm := map[string]string{}, map[string]string{}
		for _, kv := range da {
			dm[kv[0]] = kv[1]
		}
		for _, kv := range ma {
			mm[kv[0]] = kv[1]
		}
		for k, v := range dm {
			if mm[k] != v {
				dg.AttrsLost = addUniq(dg.AttrsLost, k)
			}
		}
		for k, v := range mm {
			if dm[k] != v {
				dg.AttrsLost = addUniq(dg.AttrsLost, k)
			}
		}
		ref := func(orig, merged string) {
			if strings.HasPrefix(orig, ":") && merged != orig[1:] {
				if strings.HasPrefix(merged, ":") {
					dg.RootRef = addUniq(dg.RootRef, "flatten")
				} else {
					dg.RootRef = addUniq(dg.RootRef, "nested")
				}
			}
		}
		for i, c := range def.Cmds {
			if i < len(m.Cmds) && c != nil && m.Cmds[i] != nil {
				ref(c.Task, m.Cmds[i].Task)
				if fmt.Sprint(d.attrs(reflect.ValueOf(*c), map[string]bool{"Task": true})) != fmt.Sprint(d.attrs(reflect.ValueOf(*m.Cmds[i]), map[string]bool{"Task": true})) {
					dg.AttrsLost = addUniq(dg.AttrsLost, "Cmds[]")
				}
			}
		}
		for i, c := range def.Deps {
			if i < len(m.Deps) && c != nil && m.Deps[i] != nil {
				ref(c.Task, m.Deps[i].Task)
				if fmt.Sprint(d.attrs(reflect.ValueOf(*c), map[string]bool{"Task": true})) != fmt.Sprint(d.attrs(reflect.ValueOf(*m.Deps[i]), map[string]bool{"Task": true})) {
					dg.AttrsLost = addUniq(dg.AttrsLost, "Deps[]")
				}
			}
		}
	}
}

// tableView: projections of one load used to classify differences between loads.
type tableView struct {
	err      string
	keys     []string
	vars     string
	env      string
	output   string
	aliases  map[string]string
	inctf    map[string]string
	rest     map[string]string
	compiled string
	listing  string
	listSet  string
}

func viewOf(d *dumper, l *Load, comp []string) tableView {
	v := tableView{aliases: map[string]string{}, inctf: map[string]string{}, rest: map[string]string{}}
	if l.Err != nil || l.Panic != "" {
		v.err = l.Class + l.Panic
		if v.err == "" {
			v.err = "other"
		}
		return v
	}
	tf := l.Exec.Taskfile
	for k, t := range tf.Tasks.All(nil) {
		v.keys = append(v.keys, k)
		v.aliases[k] = strings.Join(t.Aliases, ",")
		v.inctf[k] = fmt.Sprint(d.vars(t.IncludedTaskfileVars))
		c := *t
		c.Aliases, c.IncludedTaskfileVars = nil, nil
		v.rest[k] = d.taskCoq(&c)
	}
	v.vars = fmt.Sprint(d.vars(tf.Vars))
	v.env = fmt.Sprint(d.vars(tf.Env))
	v.output = tf.Output.Name
	v.compiled = strings.Join(comp, "\n")
	var ls, lset []string
	for _, names := range l.Listings {
		ls = append(ls, strings.Join(names, ","))
		lset = append(lset, strings.Join(sortedCopy(names), ","))
	}
	v.listing, v.listSet = strings.Join(ls, "|"), strings.Join(lset, "|")
	return v
}

func diffClasses(a, b tableView) []string {
	var out []string
	if a.err != "" || b.err != "" {
		if a.err != b.err {
			if a.err != "" && b.err != "" {
				out = append(out, "error-class")
			} else {
				out = append(out, "error-vs-ok")
			}
		}
		return out
	}
	sa, sb := sortedCopy(a.keys), sortedCopy(b.keys)
	if strings.Join(sa, "\x00") != strings.Join(sb, "\x00") {
		out = append(out, "task-set")
	} else if strings.Join(a.keys, "\x00") != strings.Join(b.keys, "\x00") {
		out = append(out, "task-order")
	}
	if a.vars != b.vars {
		out = append(out, "global-vars")
	}
	if a.env != b.env {
		out = append(out, "global-env")
	}
	if a.output != b.output {
		out = append(out, "output-style")
	}
	al, it, rs := false, false, false
	for k := range a.rest {
		if _, ok := b.rest[k]; !ok {
			continue
		}
		al = al || a.aliases[k] != b.aliases[k]
		it = it || a.inctf[k] != b.inctf[k]
		rs = rs || a.rest[k] != b.rest[k]
	}
	if al {
		out = append(out, "aliases")
	}
	if it {
		out = append(out, "included-taskfile-vars")
	}
	if rs {
		out = append(out, "task-body")
	}
	if a.listing != b.listing {
		if a.listSet == b.listSet {
			out = append(out, "listing-order")
		} else {
			out = append(out, "listing")
		}
	}
	if len(out) == 0 && a.compiled != b.compiled {
		out = append(out, "compiled-only")
	}
	return out
}

func features(files []*GFile) []string {
	var fs []string
	add := func(s string) { fs = addUniq(fs, s) }
	add(fmt.Sprintf("files:%d", len(files)))
	targets := map[string]int{}
	for _, f := range files {
		if len(f.Includes) >= 2 {
			add("siblings")
		}
		seen := map[string]int{}
		for _, in := range f.Includes {
			seen[in.Taskfile]++
			targets[dirOf(f.Path)+"|"+in.Taskfile]++
			if in.Advanced {
				add("inc:advanced")
			} else {
				add("inc:simple")
			}
			if in.Dir != "" {
				add("inc:dir")
			}
			if in.Optional {
				add("inc:optional")
			}
			if in.Internal {
				add("inc:internal")
			}
			if in.Flatten {
				add("inc:flatten")
			}
			if len(in.Aliases) > 0 {
				add("inc:aliases")
			}
			if len(in.Excludes) > 0 {
				add("inc:excludes")
			}
			if len(in.Vars) > 0 {
				add("inc:vars")
			}
			if strings.Contains(in.Taskfile, "{{") || strings.Contains(in.Dir, "{{") {
				add("inc:template")
			}
			if strings.Contains(in.NS, ":") {
				add("colon:namespace")
			}
			if len(in.Excludes) > 0 && in.Excludes[0] == "default" && !in.Flatten {
				add("excludes-default")
			}
			if in.NS == "cyc" {
				add("inject:cycle")
			}
			if in.NS == "miss" {
				add("inject:missing")
			}
		}
		for _, n := range seen {
			if n > 1 {
				add("same-file-twice")
			}
		}
		if f.Version != "3" {
			add("inject:version")
		}
		if f.Dotenv {
			add("inject:dotenv")
		}
		for _, kv := range f.Vars {
			if _, ok := kv.V.(OM); ok {
				add("dynamic-global")
			}
		}
		for _, t := range f.Tasks {
			for _, kv := range t.Attrs {
				add("attr:" + kv.K)
			}
			if strings.Contains(t.Name, ":") {
				add("colon:taskname")
			}
			for _, c := range append(append([]GCmd{}, t.Cmds...), t.Deps...) {
				if strings.HasPrefix(c.Task, ":") {
					add("rootref")
				}
			}
		}
	}
	return fs
}

func Main(args []string) {
	o := common.ParseOpts(args)
	_ = os.Setenv(EnvToolName, EnvToolValue) // the environment variable the generated include templates refer to
	mode := o.Extra["mode"]
	if mode == "" {
		mode = "c08"
	}
	obs := common.NewObs("merge", o.Seed)
	var cases []*MergeCase
	if o.Replay != "" {
		b, err := os.ReadFile(o.Replay)
		if err != nil {
			panic(err)
		}
		var rp struct {
			Input MergeCase `json:"input"`
		}
		if err := json.Unmarshal(b, &rp); err != nil {
			panic(err)
		}
		c := rp.Input
		c.Diag, c.Outcome, c.Execs = nil, nil, nil
		if c.Mode == "" {
			c.Mode = mode
		}
		cases = append(cases, &c)
	} else {
		r := o.Rand()
		for i := 0; i < o.N; i++ {
			c := &MergeCase{Mode: mode, Seed: r.Int63(), Index: int(o.Seed%1000)*o.N + i, Files: map[string]string{}}
			cr := rand.New(rand.NewSource(c.Seed))
			var gf []*GFile
			if o.Tier == "thorough" && mode == "c08" && c.Index < EnumSmallCount {
				gf = EnumSmall(c.Index, cr) // small-scope exhaustive part of the thorough tier
			} else if o.Tier == "thorough" && mode == "c09" && c.Index%12 == 0 && c.Index/12 < EnumSmallCount {
				gf = EnumSmall(c.Index/12, cr) // C09: the enumeration takes one index in twelve, the families keep theirs
			} else if (mode == "c09" && c.Index%12 == 5) || (mode == "c08" && c.Index%10 == 8) {
				gf = GenerateSharedDir(cr, c.Index/10) // a file included several times with different dir:, nested long-form include without dir:
			} else if mode == "c09" && c.Index%3 == 1 {
				gf = GenerateTpl(cr, c.Index/3) // templated nested include paths
			} else if (mode == "c09" && c.Index%6 == 2) || (mode == "c08" && c.Index%10 == 9) {
				// long-form + short-form includes of a file with sh: vars, and its twin under another file name
				k := c.Index / 6
				gf = GenerateDirLeak(cr, k)
				twin := map[string]string{}
				for _, f := range GenerateDirLeak(rand.New(rand.NewSource(c.Seed)), k^1) {
					twin[f.Path] = f.Render()
				}
				c.Twins = []map[string]string{twin}
				c.TwinNames = []string{DirLeakLongName(k), DirLeakLongName(k ^ 1)}
			} else {
				gf = Generate(cr, GenOpts{Mode: mode, Index: c.Index})
			}
			for _, f := range gf {
				c.Files[f.Path] = f.Render()
			}
			c.Features = features(gf)
			c.Loads = 1
			if mode == "c09" {
				c.Loads = 40
			}
			cases = append(cases, c)
		}
	}

	dcMissing := DeepCopyMissing()
	for _, f := range dcMissing {
		obs.Count("deepcopy-missing:" + f)
	}
	var sb strings.Builder
	sb.WriteString("From Coq Require Import List String Bool.\nImport ListNotations.\nFrom TV Require Import Merge.Model Merge.Spec Run.MergeCases.\n")
	pl := newPool()
	var items []string
	var idx []int
	seen := map[string]bool{}
	for i, c := range cases {
		tree, err := writeTree(c.Files)
		if err != nil {
			panic(err)
		}
		d := &dumper{root: tree.Root, pool: pl}
		fsC, parsed, err := tree.fsCoq(d)
		if err != nil {
			obs.ImplFails = append(obs.ImplFails, common.ImplFail{Case: i, Kind: "inconclusive", Msg: "generated file does not parse standalone: " + err.Error()})
			obs.CaseInputs = append(obs.CaseInputs, c)
			tree.Remove()
			continue
		}
		readC, pmsg := tree.readReal(d)
		if pmsg != "" {
			obs.ImplFails = append(obs.ImplFails, common.ImplFail{Case: i, Kind: "panic", Msg: pmsg})
		}
		dg := &Diag{DeepCopyMissing: dcMissing}
		var loadsC []string
		var views []tableView
		distinct := map[string]int{}
		var first *Load
		for k := 0; k < c.Loads; k++ {
			l := tree.loadL(d, c.Mode == "c09", true)
			if l.Panic != "" {
				obs.ImplFails = append(obs.ImplFails, common.ImplFail{Case: i, Kind: "panic", Msg: "Setup: " + l.Panic})
			}
			if first == nil {
				first = l
			}
			if _, ok := distinct[l.Coq]; !ok {
				distinct[l.Coq] = len(loadsC)
				if len(loadsC) < 6 { // the monitor needs two, the outcome-set check gets up to six
					loadsC = append(loadsC, l.Coq)
				}
				var comp []string
				if c.Mode == "c09" && l.Err == nil && l.Panic == "" {
					comp = compiledDigest(l.Exec, d)
				}
				views = append(views, viewOf(d, l, comp))
				if l.Err == nil && l.Panic == "" {
					diagnoseTable(d, l.Exec, parsed, dg)
				}
			}
		}
		for a := 1; a < len(views); a++ {
			for _, cl := range diffClasses(views[0], views[a]) {
				dg.C09 = addUniq(dg.C09, cl)
			}
		}
		dg.Distinct = len(distinct)
		c.Diag = dg
		switch {
		case first.Panic != "":
			c.Outcome = []string{"panic"}
		case first.Err != nil:
			c.Outcome = []string{"error", first.Class, fmt.Sprint(first.Code), d.path(first.Err.Error())}
		default:
			c.Outcome = []string{"ok", fmt.Sprintf("tasks=%d", first.Exec.Taskfile.Tasks.Len())}
		}
		// run a sample of callable names through the real Executor (C08)
		var execC []string
		if c.Mode == "c08" && first.Err == nil && first.Panic == "" {
			var names []string
			for k, t := range first.Exec.Taskfile.Tasks.All(nil) {
				names = append(names, k)
				names = append(names, t.Aliases...)
			}
			cr := rand.New(rand.NewSource(c.Seed + 7))
			cr.Shuffle(len(names), func(a, b int) { names[a], names[b] = names[b], names[a] })
			done := map[string]bool{}
			for _, n := range names {
				if len(c.Execs) >= 3 {
					break
				}
				if done[n] {
					continue
				}
				done[n] = true
				ob, ok := tree.execName(d, n)
				if !ok {
					continue
				}
				if strings.HasPrefix(ob.Err, "panic") {
					obs.ImplFails = append(obs.ImplFails, common.ImplFail{Case: i, Kind: "panic", Msg: "Run " + n + ": " + ob.Err})
				}
				c.Execs = append(c.Execs, ob)
				execC = append(execC, ob.Coq(d))
			}
		}
		// the tree and its twins (same tree, one file renamed): digests with the file name normalised
		var twinC []string
		if len(c.Twins) > 0 {
			norm := func(dd *dumper, l *Load, name string) string {
				if l.Err != nil || l.Panic != "" {
					return cg.List([]string{d.S("load failed: " + l.Class + l.Panic)})
				}
				lines := compiledDigest(l.Exec, dd)
				for i := range lines {
					lines[i] = strings.ReplaceAll(lines[i], name, "LONG")
					lines[i] = strings.ReplaceAll(lines[i], filepath.Base(dd.root), "ROOT") // basename $PWD in the root dir
				}
				return d.SL(lines)
			}
			twinC = append(twinC, norm(d, tree.load(d, false), c.TwinNames[0]))
			for ti, tw := range c.Twins {
				tt, err := writeTree(tw)
				if err != nil {
					panic(err)
				}
				td := &dumper{root: tt.Root}
				twinC = append(twinC, norm(td, tt.load(td, false), c.TwinNames[ti+1]))
				tt.Remove()
			}
		}
		tree.Remove()

		items = append(items, fmt.Sprintf("(Build_mcase %s\n   %s\n   %s\n   %s\n   %s\n   %s)",
			fsC, d.S("/R/Taskfile.yml"), readC, cg.List(loadsC), cg.List(execC), cg.List(twinC)))
		idx = append(idx, i)

		for _, f := range c.Features {
			obs.Count(f)
		}
		obs.Count("outcome:" + strings.Join(c.Outcome[:min(2, len(c.Outcome))], ":"))
		obs.Count(fmt.Sprintf("distinct_loads:%d", min(len(distinct), 9)))
		obs.Count(fmt.Sprintf("execs:%d", len(c.Execs)))
		key, _ := json.Marshal(c.Files)
		if !seen[string(key)] && len(c.Files) > 1 {
			seen[string(key)] = true
			obs.Distinct++
		}
		obs.Counters["loads"] += int64(c.Loads)
		obs.Counters["execs"] += int64(len(c.Execs))
		obs.CaseInputs = append(obs.CaseInputs, c)
		if len(obs.Samples) < 3 {
			obs.Samples = append(obs.Samples, map[string]any{"files": c.Files, "outcome": c.Outcome, "diag": c.Diag, "execs": c.Execs})
		}
	}
	obs.Cases = len(cases)
	sb.WriteString("Local Open Scope string_scope.\n")
	sb.WriteString(strings.Join(pl.defs, "\n"))
	sb.WriteString("\n")
	for k, it := range items {
		fmt.Fprintf(&sb, "Definition case_%d : mcase := %s.\n", k, it)
	}
	names := make([]string, len(items))
	for k := range items {
		names[k] = fmt.Sprintf("case_%d", k)
	}
	fmt.Fprintf(&sb, "Definition cases : list mcase := %s.\n", cg.List(names))
	results := []string{"R_read", "R_merge", "R_wf", "R_vardir", "R_listing"}
	sb.WriteString("Definition R_listing := Eval vm_compute in failures mon_listing cases.\nPrint R_listing.\n")
	sb.WriteString("Definition R_vardir := Eval vm_compute in failures mon_vardir cases.\nPrint R_vardir.\n")
	sb.WriteString("Definition R_wf := Eval vm_compute in failures wf_case cases.\nPrint R_wf.\n")
	sb.WriteString("Definition R_read := Eval vm_compute in failures agree_read cases.\nPrint R_read.\n")
	sb.WriteString("Definition R_merge := Eval vm_compute in failures agree_merge cases.\nPrint R_merge.\n")
	if mode == "c08" {
		for _, m := range []string{"present", "refs", "attrs", "place", "aliases", "default", "dropped", "errors", "exec"} {
			fmt.Fprintf(&sb, "Definition R_c08_%s := Eval vm_compute in failures mon_c08_%s cases.\nPrint R_c08_%s.\n", m, m, m)
			results = append(results, "R_c08_"+m)
		}
		// the extracted-fact obligation of Task.DeepCopy, evaluated like a monitor so that it is reported with its own signature
		sb.WriteString("Definition R_c08_deepcopy := Eval vm_compute in failures (fun f : string => false) deepcopy_missing.\nPrint R_c08_deepcopy.\n")
		results = append(results, "R_c08_deepcopy")
	} else {
		sb.WriteString("Definition R_c09_det := Eval vm_compute in failures mon_c09_det cases.\nPrint R_c09_det.\n")
		sb.WriteString("Definition R_c09_stable := Eval vm_compute in failures mon_c09_stable cases.\nPrint R_c09_stable.\n")
		sb.WriteString("Definition R_c09_place := Eval vm_compute in failures mon_c09_place cases.\nPrint R_c09_place.\n")
		results = append(results, "R_c09_det", "R_c09_stable", "R_c09_place")
	}
	common.WriteFile(o.Out, "cases.v", sb.String())
	im := map[string][]int{}
	for _, r := range results {
		im[r] = idx
	}
	b, _ := json.Marshal(im)
	common.WriteFile(o.Out, "index.json", string(b))
	obs.Write(o.Out)
}
