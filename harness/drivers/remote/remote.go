// Package remote is the correspondence driver for C20 (model H): histories of
// (server state, CLI flags) executed with the real task binary against a local
// scripted HTTP server; per invocation it records the exit status, which
// version's probe ran and the cache directory, and writes them as Coq records.
package remote

import (
	"bytes"
	"context"
	"crypto/sha256"
	"encoding/json"
	"fmt"
	"math/rand"
	"os"
	"os/exec"
	"path/filepath"
	"runtime"
	"strconv"
	"strings"
	"sync"
	"syscall"
	"time"
	"unsafe"

	"github.com/go-task/task/v3/verifharness/common"
	cg "github.com/go-task/task/v3/verifharness/coqgen"
)

// Step is one CLI invocation together with the state of the world around it.
type Step struct {
	Server    string `json:"server"`            // serve | down | refuse | slow | status
	Version   int    `json:"version,omitempty"` // content version served (serve, slow)
	DelayMs   int    `json:"delay_ms,omitempty"`
	Status    int    `json:"status,omitempty"`
	Yes       bool   `json:"yes,omitempty"`
	Download  bool   `json:"download,omitempty"`
	Offline   bool   `json:"offline,omitempty"`
	Clear     bool   `json:"clear,omitempty"`
	Insecure  bool   `json:"insecure,omitempty"`
	ExpirySec int    `json:"expiry_s,omitempty"`
	TimeoutMs int    `json:"timeout_ms,omitempty"`  // 0: flag not given (default 10 s)
	Answer    string `json:"answer"`                // noterm | ttyyes | ttyno
	AgeSec    int    `json:"age_s,omitempty"`       // time that passes before this invocation
	OffEnv    bool   `json:"offline_env,omitempty"` // offline requested through TASK_OFFLINE=true instead of --offline
	Tamper    string `json:"tamper,omitempty"`      // before the invocation somebody removed: rm-content | rm-timestamp
}

type History struct {
	Via       string `json:"via"`             // include | root (-t URL)
	RemoteDir bool   `json:"remote_dir"`      // cache placed through TASK_REMOTE_DIR instead of TASK_TEMP_DIR
	HTTPS     bool   `json:"https,omitempty"` // the URL is https (certificate trusted through SSL_CERT_FILE)
	Steps     []Step `json:"steps"`
}

type CacheObs struct {
	Content *int `json:"content"` // version stored in <key>.yaml (900+: unknown bytes)
	Sum     *int `json:"sum"`     // version whose sha256 is in <key>.checksum (900+: unknown)
	Time    *int `json:"time"`    // logical time of the invocation that wrote <key>.timestamp
}

type StepObs struct {
	Now    int      `json:"now"`
	Pre    CacheObs `json:"pre"`
	Exit   int      `json:"exit"`
	Ran    []int    `json:"ran"`
	Post   CacheObs `json:"post"`
	Stderr string   `json:"stderr,omitempty"`
}

// CaseInput is the replayable unit: a history prefix; the entry is about its LAST step.
type CaseInput struct {
	History  History   `json:"history"`
	Step     int       `json:"step"`
	Observed []StepObs `json:"observed,omitempty"`
}

const defaultTimeoutMs = 10000

// ---------- pty ----------

func ioctl(fd, req, arg uintptr) error {
	_, _, e := syscall.Syscall(syscall.SYS_IOCTL, fd, req, arg)
	if e != 0 {
		return e
	}
	return nil
}

func openPty() (*os.File, *os.File, error) {
	m, err := os.OpenFile("/dev/ptmx", os.O_RDWR|syscall.O_NOCTTY, 0)
	if err != nil {
		return nil, nil, err
	}
	var n uint32
	if err := ioctl(m.Fd(), syscall.TIOCGPTN, uintptr(unsafe.Pointer(&n))); err != nil {
		m.Close()
		return nil, nil, err
	}
	var unlock int32
	if err := ioctl(m.Fd(), syscall.TIOCSPTLCK, uintptr(unsafe.Pointer(&unlock))); err != nil {
		m.Close()
		return nil, nil, err
	}
	s, err := os.OpenFile(fmt.Sprintf("/dev/pts/%d", n), os.O_RDWR|syscall.O_NOCTTY, 0)
	if err != nil {
		m.Close()
		return nil, nil, err
	}
	return m, s, nil
}

// ---------- one history on the real binary ----------

type runner struct {
	taskBin string
	killed  bool
}

func contentOf(trace string, v int) []byte {
	return []byte(fmt.Sprintf("version: '3'\ntasks:\n  probe:\n    silent: true\n    cmds:\n      - echo v%d >> '%s'\n", v, trace))
}

func sha(b []byte) string { return fmt.Sprintf("%x", sha256.Sum256(b)) }

type proj struct {
	dir, trace, cacheDir string
	srv                  *scriptedServer
	shaToVer             map[string]int
	bytesToVer           map[string]int
	tsMtime              time.Time
	tsLogical            *int
	traceLines           int
}

const maxVersion = 6

func (p *proj) readCache(now int) (CacheObs, error) {
	var o CacheObs
	glob := func(suffix string) (string, error) {
		m, _ := filepath.Glob(filepath.Join(p.cacheDir, "remote", "*."+suffix))
		if len(m) > 1 {
			return "", fmt.Errorf("more than one cache entry: %v", m)
		}
		if len(m) == 0 {
			return "", nil
		}
		return m[0], nil
	}
	f, err := glob("yaml")
	if err != nil {
		return o, err
	}
	if f != "" {
		b, err := os.ReadFile(f)
		if err == nil {
			v, ok := p.bytesToVer[string(b)]
			if !ok {
				v = 900
			}
			o.Content = &v
		}
	}
	f, err = glob("checksum")
	if err != nil {
		return o, err
	}
	if f != "" {
		b, err := os.ReadFile(f)
		if err == nil && len(b) > 0 {
			v, ok := p.shaToVer[string(b)]
			if !ok {
				v = 900
			}
			o.Sum = &v
		}
	}
	f, err = glob("timestamp")
	if err != nil {
		return o, err
	}
	if f != "" {
		fi, err := os.Stat(f)
		if err == nil {
			if !fi.ModTime().Equal(p.tsMtime) {
				p.tsMtime = fi.ModTime()
				n := now
				p.tsLogical = &n
			}
			if p.tsLogical != nil {
				n := *p.tsLogical
				o.Time = &n
			}
		}
	} else {
		p.tsLogical = nil
		p.tsMtime = time.Time{}
	}
	return o, nil
}

// age lets [sec] seconds pass: the stored fetch time moves into the past.
func (p *proj) age(sec int) error {
	m, _ := filepath.Glob(filepath.Join(p.cacheDir, "remote", "*.timestamp"))
	for _, f := range m {
		b, err := os.ReadFile(f)
		if err != nil {
			return err
		}
		t, err := time.Parse(time.RFC3339, string(b))
		if err != nil {
			return err
		}
		if err := os.WriteFile(f, []byte(t.Add(-time.Duration(sec)*time.Second).UTC().Format(time.RFC3339)), 0o644); err != nil {
			return err
		}
		fi, err := os.Stat(f)
		if err != nil {
			return err
		}
		p.tsMtime = fi.ModTime()
	}
	return nil
}

func (p *proj) newRan() ([]int, error) {
	b, err := os.ReadFile(p.trace)
	if err != nil {
		if os.IsNotExist(err) {
			return []int{}, nil
		}
		return nil, err
	}
	lines := strings.Split(strings.TrimRight(string(b), "\n"), "\n")
	if len(b) == 0 {
		lines = nil
	}
	ran := []int{}
	for _, l := range lines[p.traceLines:] {
		v, err := strconv.Atoi(strings.TrimPrefix(strings.TrimSpace(l), "v"))
		if err != nil {
			v = 900
		}
		ran = append(ran, v)
	}
	p.traceLines = len(lines)
	return ran, nil
}

func args(h *History, st *Step, url string) []string {
	var a []string
	if h.Via == "root" {
		a = append(a, "-t", url)
	}
	if st.Yes {
		a = append(a, "--yes")
	}
	if st.Download {
		a = append(a, "--download")
	}
	if st.Offline && !st.OffEnv {
		a = append(a, "--offline")
	}
	if st.Clear {
		a = append(a, "--clear-cache")
	}
	if st.Insecure {
		a = append(a, "--insecure")
	}
	if st.ExpirySec != 0 {
		a = append(a, "--expiry", fmt.Sprintf("%ds", st.ExpirySec))
	}
	if st.TimeoutMs != 0 {
		a = append(a, "--timeout", fmt.Sprintf("%dms", st.TimeoutMs))
	}
	if h.Via == "root" {
		a = append(a, "probe")
	} else {
		a = append(a, "r:probe")
	}
	return a
}

// invoke runs the real CLI once under a SIGKILL deadline. rc -1: killed by the deadline.
func (r *runner) invoke(p *proj, h *History, st *Step) (int, string, error) {
	ctx, cancel := context.WithTimeout(context.Background(), 45*time.Second)
	defer cancel()
	cmd := exec.CommandContext(ctx, r.taskBin, args(h, st, p.srv.URL())...)
	cmd.Cancel = func() error { return cmd.Process.Kill() }
	cmd.Dir = p.dir
	env := []string{
		"PATH=" + os.Getenv("PATH"),
		"HOME=" + filepath.Join(p.dir, "home"),
		"TASK_X_REMOTE_TASKFILES=1",
		"NO_COLOR=1",
		"NO_PROXY=*",
	}
	if st.Offline && st.OffEnv {
		env = append(env, "TASK_OFFLINE=true")
	}
	if h.HTTPS {
		env = append(env, "SSL_CERT_FILE="+filepath.Join(p.dir, "ca.pem"), "SSL_CERT_DIR="+filepath.Join(p.dir, "home"))
	}
	if h.RemoteDir {
		env = append(env, "TASK_TEMP_DIR="+filepath.Join(p.dir, ".tmp"), "TASK_REMOTE_DIR="+p.cacheDir)
	} else {
		env = append(env, "TASK_TEMP_DIR="+p.cacheDir)
	}
	cmd.Env = env
	var stderr bytes.Buffer
	cmd.Stderr = &stderr
	var master *os.File
	drained := make(chan struct{})
	if st.Answer == "noterm" {
		// not a terminal; a piped "y" must not count as an approval
		cmd.Stdin = strings.NewReader("y\n")
		cmd.Stdout = &stderr
		close(drained)
	} else {
		m, s, err := openPty()
		if err != nil {
			return 0, "", fmt.Errorf("pty: %w", err)
		}
		master = m
		cmd.Stdin = s
		cmd.Stdout = s
		ans := "y\n"
		if st.Answer == "ttyno" {
			ans = "n\n"
		}
		if _, err := m.WriteString(ans); err != nil {
			m.Close()
			s.Close()
			return 0, "", err
		}
		go func() {
			buf := make([]byte, 4096)
			for {
				if _, err := m.Read(buf); err != nil {
					break
				}
			}
			close(drained)
		}()
		defer func() {
			s.Close()
			m.Close()
		}()
	}
	err := cmd.Run()
	if f, ok := cmd.Stdin.(*os.File); ok {
		f.Close() // the slave: the drain goroutine sees EIO
	}
	if master != nil {
		select {
		case <-drained:
		case <-time.After(500 * time.Millisecond):
		}
	}
	if ctx.Err() != nil {
		return -1, stderr.String(), nil
	}
	rc := 0
	if err != nil {
		ee, ok := err.(*exec.ExitError)
		if !ok {
			return 0, "", err
		}
		rc = ee.ExitCode()
	}
	return rc, stderr.String(), nil
}

func logicalNow(h *History, k int) int {
	n := 10 * (k + 1)
	for i := 0; i <= k; i++ {
		n += h.Steps[i].AgeSec
	}
	return n
}

// runHistory executes every step; inconclusive=true when an invocation hit its deadline.
func (r *runner) runHistory(h *History) (obs []StepObs, inconclusive bool, err error) {
	dir, err := os.MkdirTemp("", "vh-remote")
	if err != nil {
		return nil, false, err
	}
	defer os.RemoveAll(dir)
	dir, _ = filepath.EvalSymlinks(dir)
	p := &proj{dir: dir, trace: filepath.Join(dir, "trace.txt"), shaToVer: map[string]int{}, bytesToVer: map[string]int{}}
	p.cacheDir = filepath.Join(dir, ".tmp")
	if h.RemoteDir {
		p.cacheDir = filepath.Join(dir, ".rcache")
	}
	_ = os.MkdirAll(filepath.Join(dir, "home"), 0o755)
	for v := 0; v <= maxVersion; v++ {
		b := contentOf(p.trace, v)
		p.shaToVer[sha(b)] = v
		p.bytesToVer[string(b)] = v
	}
	srv, err := newScriptedServer(func(v int) []byte { return contentOf(p.trace, v) }, h.HTTPS)
	if err != nil {
		return nil, false, err
	}
	p.srv = srv
	if h.HTTPS {
		if err := os.WriteFile(filepath.Join(dir, "ca.pem"), srv.certPEM, 0o644); err != nil {
			return nil, false, err
		}
	}
	defer srv.close()
	if h.Via != "root" {
		root := fmt.Sprintf("version: '3'\nincludes:\n  r: %s\ntasks:\n  local:\n    cmds:\n      - 'true'\n", srv.URL())
		if err := os.WriteFile(filepath.Join(dir, "Taskfile.yml"), []byte(root), 0o644); err != nil {
			return nil, false, err
		}
	}
	for k := range h.Steps {
		st := &h.Steps[k]
		now := logicalNow(h, k)
		if st.AgeSec > 0 {
			if err := p.age(st.AgeSec); err != nil {
				return nil, false, err
			}
		}
		if st.Tamper != "" {
			suffix := map[string]string{"rm-content": "yaml", "rm-timestamp": "timestamp"}[st.Tamper]
			m, _ := filepath.Glob(filepath.Join(p.cacheDir, "remote", "*."+suffix))
			for _, f := range m {
				_ = os.Remove(f)
			}
		}
		pre, err := p.readCache(now)
		if err != nil {
			return nil, false, err
		}
		if err := srv.set(st); err != nil {
			return obs, true, nil // could not get the port back: not a statement about the implementation
		}
		rc, stderr, err := r.invoke(p, h, st)
		if err != nil {
			return nil, false, err
		}
		if rc == -1 {
			return obs, true, nil
		}
		ran, err := p.newRan()
		if err != nil {
			return nil, false, err
		}
		post, err := p.readCache(now)
		if err != nil {
			return nil, false, err
		}
		if len(stderr) > 400 {
			stderr = stderr[:400]
		}
		obs = append(obs, StepObs{Now: now, Pre: pre, Exit: rc, Ran: ran, Post: post, Stderr: stderr})
	}
	return obs, false, nil
}

// ---------- generation ----------

func pick(r *rand.Rand, weights ...int) int {
	t := 0
	for _, w := range weights {
		t += w
	}
	x := r.Intn(t)
	for i, w := range weights {
		if x < w {
			return i
		}
		x -= w
	}
	return 0
}

func genStep(r *rand.Rand, cur *int, first bool) Step {
	st := Step{Answer: "noterm", Insecure: r.Intn(12) != 0}
	switch pick(r, 46, 14, 10, 12, 6, 8) {
	case 0:
		st.Server = "serve"
		if r.Intn(3) == 0 {
			*cur = 1 + r.Intn(3)
		}
		st.Version = *cur
	case 1:
		st.Server = "down"
	case 2:
		st.Server = "refuse"
	case 3: // slower than --timeout
		st.Server, st.DelayMs, st.TimeoutMs, st.Version = "slow", 1500, 400, *cur
	case 4: // slow, but within the default timeout
		st.Server, st.DelayMs, st.Version = "slow", 150, *cur
		if r.Intn(2) == 0 {
			st.TimeoutMs = 10000
		}
	case 5:
		st.Server = "status"
		st.Status = []int{404, 500, 403}[r.Intn(3)]
	}
	switch pick(r, 5, 3, 2) {
	case 0:
		st.Answer = "noterm"
	case 1:
		st.Answer = "ttyyes"
	case 2:
		st.Answer = "ttyno"
	}
	st.Yes = r.Intn(3) == 0
	switch pick(r, 56, 20, 20, 4) {
	case 1:
		st.Download = true
	case 2:
		st.Offline = true
	case 3:
		st.Download, st.Offline = true, true
	}
	if st.Offline && r.Intn(4) == 0 {
		st.OffEnv = true
	}
	if r.Intn(25) == 0 {
		st.Clear = true
	}
	if r.Intn(2) == 0 {
		st.ExpirySec = 3600
	}
	if !first && r.Intn(5) == 0 {
		st.AgeSec = 7200
	}
	if !first && r.Intn(10) == 0 {
		st.Tamper = []string{"rm-content", "rm-timestamp"}[r.Intn(2)]
	}
	return st
}

func genHistory(r *rand.Rand) History {
	h := History{Via: "include"}
	if r.Intn(4) == 0 {
		h.Via = "root"
	}
	h.RemoteDir = r.Intn(4) == 0
	h.HTTPS = r.Intn(5) == 0
	cur := 1
	n := 1 + pick(r, 1, 3, 5, 6)
	for k := 0; k < n; k++ {
		if k == 0 && r.Intn(10) < 6 {
			// most histories start by downloading and approving a copy
			st := Step{Server: "serve", Version: cur, Insecure: true, Answer: "noterm", Yes: true}
			if r.Intn(2) == 0 {
				st.Yes, st.Answer = false, "ttyyes"
			}
			if r.Intn(2) == 0 {
				st.ExpirySec = 3600
			}
			h.Steps = append(h.Steps, st)
			continue
		}
		st := genStep(r, &cur, k == 0)
		if h.HTTPS {
			st.Insecure = r.Intn(2) == 0 // not needed for https
		}
		h.Steps = append(h.Steps, st)
	}
	return h
}

// directed histories run by every shard: the reproducers of the reading pass and
// the documented scenarios, so that they never depend on the luck of a seed.
func directedHistories() []History {
	ok := func(st Step) Step {
		st.Insecure = true
		if st.Answer == "" {
			st.Answer = "noterm"
		}
		return st
	}
	approve := ok(Step{Server: "serve", Version: 1, Yes: true})
	approveTty := ok(Step{Server: "serve", Version: 1, Answer: "ttyyes"})
	hs := []History{
		{Via: "include", Steps: []Step{approve, ok(Step{Server: "down"})}},
		{Via: "include", Steps: []Step{approveTty, ok(Step{Server: "refuse", Download: true, ExpirySec: 3600})}},
		{Via: "root", Steps: []Step{approve, ok(Step{Server: "down"}), ok(Step{Server: "down", ExpirySec: 3600}), ok(Step{Server: "down", Offline: true})}},
		{Via: "include", Steps: []Step{approve, ok(Step{Server: "slow", DelayMs: 1500, TimeoutMs: 400, Version: 2}),
			ok(Step{Server: "serve", Version: 2}), ok(Step{Server: "serve", Version: 2, Answer: "ttyno"})}},
		{Via: "include", Steps: []Step{approve, ok(Step{Server: "serve", Version: 2, Yes: true}), ok(Step{Server: "serve", Version: 1}),
			ok(Step{Server: "down", Offline: true, OffEnv: true})}},
		{Via: "include", Steps: []Step{{Server: "serve", Version: 1, Yes: true, Answer: "noterm"}, {Server: "serve", Version: 1, Offline: true, Answer: "noterm"}}},
		{Via: "include", HTTPS: true, Steps: []Step{{Server: "serve", Version: 1, Yes: true, Answer: "noterm"}, {Server: "down", Answer: "noterm"},
			{Server: "down", Offline: true, Answer: "noterm"}}},
		{Via: "include", Steps: []Step{approve, ok(Step{Server: "serve", Version: 1, Download: true, Offline: true})}},
		{Via: "include", Steps: []Step{approve, ok(Step{Server: "serve", Version: 1, Clear: true}), ok(Step{Server: "serve", Version: 1, Offline: true}),
			ok(Step{Server: "serve", Version: 1})}},
		{Via: "include", Steps: []Step{ok(Step{Server: "serve", Version: 1, Yes: true, ExpirySec: 3600}), ok(Step{Server: "serve", Version: 2, ExpirySec: 3600}),
			ok(Step{Server: "serve", Version: 2, ExpirySec: 3600, AgeSec: 7200}), ok(Step{Server: "down", ExpirySec: 3600})}},
		{Via: "include", Steps: []Step{approve, ok(Step{Server: "serve", Version: 1, Tamper: "rm-content"}), ok(Step{Server: "down", Tamper: "rm-timestamp", ExpirySec: 3600})}},
		{Via: "include", Steps: []Step{ok(Step{Server: "serve", Version: 1}), ok(Step{Server: "serve", Version: 1, Answer: "ttyno"}),
			ok(Step{Server: "status", Status: 404, Yes: true}), ok(Step{Server: "slow", DelayMs: 150, Version: 1, Answer: "ttyyes"})}},
	}
	// An unapproved invocation on NEW or CHANGED content (exit 104) followed by every way
	// of reading the cache without asking: --offline (flag / TASK_OFFLINE), a copy still
	// fresh under --expiry, server down / refusing / slower than --timeout (fallback).
	// Nothing but the approved version may run afterwards (and nothing at all if none was).
	readers := []Step{
		ok(Step{Server: "serve", Version: 2, Offline: true}),
		ok(Step{Server: "down", Offline: true, OffEnv: true}),
		ok(Step{Server: "serve", Version: 2, ExpirySec: 3600}),
		ok(Step{Server: "down"}),
		ok(Step{Server: "refuse", ExpirySec: 3600}),
		ok(Step{Server: "slow", DelayMs: 1500, TimeoutMs: 400, Version: 2}),
		ok(Step{Server: "down", Download: true, ExpirySec: 3600}),
	}
	declines := []Step{
		ok(Step{Server: "serve", Version: 2}),                                  // no terminal
		ok(Step{Server: "serve", Version: 2, Answer: "ttyno"}),                 // n on the terminal
		ok(Step{Server: "serve", Version: 2, Download: true, ExpirySec: 3600}), // forced re-download of a fresh copy, declined
	}
	approvals := []Step{
		ok(Step{Server: "serve", Version: 1, Yes: true, ExpirySec: 3600}),
		ok(Step{Server: "serve", Version: 1, Answer: "ttyyes"}),
	}
	var out2 []History
	n := 0
	for _, rd := range readers {
		for di, d := range declines {
			a := approvals[n%len(approvals)]
			via := []string{"include", "root"}[n%2]
			n++
			// approve v1; decline v2; read the cache; and once more --offline at the end
			out2 = append(out2, History{Via: via, Steps: []Step{a, d, rd, ok(Step{Server: "serve", Version: 2, Offline: true})}})
			if di == 0 {
				// first-ever download declined, then the cache readers: nothing may run (106 / 103 / 108 / 104)
				out2 = append(out2, History{Via: via, Steps: []Step{d, rd, ok(Step{Server: "down", Offline: true})}})
			}
		}
	}
	return append(hs, out2...)
}

// small-scope enumeration (thorough tier): all histories of length <= 3 over
// 5 server states x 6 flag sets, from an empty cache.
func enumHistories() []History {
	servers := []Step{
		{Server: "serve", Version: 1}, {Server: "serve", Version: 2}, {Server: "down"}, {Server: "refuse"},
		{Server: "slow", DelayMs: 1500, TimeoutMs: 400, Version: 2},
	}
	flagsets := []Step{
		{},
		{Yes: true},
		{Offline: true},
		{Download: true},
		{ExpirySec: 3600},
		{Download: true, Yes: true, ExpirySec: 3600},
	}
	var alpha []Step
	for _, s := range servers {
		for _, f := range flagsets {
			st := s
			st.Yes, st.Offline, st.Download, st.ExpirySec = f.Yes, f.Offline, f.Download, f.ExpirySec
			st.Insecure, st.Answer = true, "noterm"
			alpha = append(alpha, st)
		}
	}
	var out []History
	var rec func(prefix []Step, depth int)
	rec = func(prefix []Step, depth int) {
		if len(prefix) > 0 {
			out = append(out, History{Via: "include", Steps: append([]Step(nil), prefix...)})
		}
		if depth == 0 {
			return
		}
		for _, a := range alpha {
			rec(append(prefix, a), depth-1)
		}
	}
	rec(nil, 3)
	// and every history of length <= 2 after an approved download of version 1
	approved := Step{Server: "serve", Version: 1, Yes: true, Insecure: true, Answer: "noterm"}
	rec([]Step{approved}, 2)
	return out
}

// ---------- Coq rendering ----------

func optN(p *int, digest bool) string {
	if p == nil {
		return "None"
	}
	v := *p
	if digest {
		v += 1000
	}
	return fmt.Sprintf("(Some %d)", v)
}

func cacheCoq(c CacheObs) string {
	return fmt.Sprintf("(mkCache %s %s %s)", optN(c.Content, false), optN(c.Sum, true), optN(c.Time, false))
}

func serverCoq(st *Step) string {
	switch st.Server {
	case "serve":
		return fmt.Sprintf("(Serve %d)", st.Version)
	case "down":
		return "Down"
	case "refuse":
		return "Refuse"
	case "slow":
		return fmt.Sprintf("(Slow %d %d)", st.DelayMs, st.Version)
	case "status":
		return fmt.Sprintf("(Status %d)", st.Status)
	}
	return "Down"
}

func invCoq(st *Step, now int) string {
	ans := map[string]string{"noterm": "NoTerm", "ttyyes": "TtyYes", "ttyno": "TtyNo"}[st.Answer]
	to := st.TimeoutMs
	if to == 0 {
		to = defaultTimeoutMs
	}
	return fmt.Sprintf("(mkInv %s %s %s %s %d %s %d %s %d)", cg.Bool(st.Yes), cg.Bool(st.Download), cg.Bool(st.Offline),
		cg.Bool(st.Clear), st.ExpirySec, cg.Bool(st.Insecure), to, ans, now)
}

// beforeCoq renders the inputs of the steps before k: [(server, inv); ...]
func beforeCoq(h *History, k int) string {
	items := make([]string, k)
	for j := 0; j < k; j++ {
		items[j] = "(" + serverCoq(&h.Steps[j]) + ", " + invCoq(&h.Steps[j], logicalNow(h, j)) + ")"
	}
	return cg.List(items)
}

func stepCoq(h *History, k int, st *Step, o *StepObs) string {
	ran := make([]string, len(o.Ran))
	for i, v := range o.Ran {
		ran[i] = fmt.Sprint(v)
	}
	exit := o.Exit
	if exit < 0 {
		exit = 999
	}
	return fmt.Sprintf("{| rs_http := %s; rs_before := %s; rs_obs := mkObs %s %s %s %d %s %s |}", cg.Bool(!h.HTTPS), beforeCoq(h, k), cacheCoq(o.Pre), serverCoq(st), invCoq(st, o.Now),
		exit, cg.List(ran), cacheCoq(o.Post))
}

func cacheClass(c CacheObs) string {
	switch {
	case c.Content == nil && c.Sum == nil:
		return "empty"
	case c.Content == nil:
		return "sum-only"
	case c.Sum == nil:
		return "content-no-sum"
	case *c.Content == *c.Sum:
		return "approved"
	}
	return "mismatch"
}

// ---------- main ----------

var resultNames = []string{"R_agree", "R_only_approved", "R_ran_approved", "R_guarded", "R_unapproved", "R_keeps", "R_http"}

func Main(argv []string) {
	o := common.ParseOpts(argv)
	obs := common.NewObs("remote", o.Seed)
	bin := os.Getenv("VERIF_TASK_BIN")
	if bin == "" {
		bin = "/verif/.build/task"
	}
	run := &runner{taskBin: bin}

	var hs []History
	if o.Replay != "" {
		b, err := os.ReadFile(o.Replay)
		if err != nil {
			panic(err)
		}
		var rp struct {
			Input CaseInput `json:"input"`
		}
		if err := json.Unmarshal(b, &rp); err != nil {
			panic(err)
		}
		hs = append(hs, rp.Input.History)
	} else {
		r := o.Rand()
		hs = append(hs, directedHistories()...)
		for i := 0; i < o.N; i++ {
			hs = append(hs, genHistory(rand.New(rand.NewSource(r.Int63()))))
		}
		if o.Tier == "thorough" {
			shards, _ := strconv.Atoi(o.Extra["enum_shards"])
			if shards > 0 {
				all := enumHistories()
				me := int(o.Seed % 1000 % int64(shards))
				// only maximal histories are run: every shorter one is a prefix of them
				for i, h := range all {
					if len(h.Steps) == 3 && i%shards == me {
						hs = append(hs, h)
					}
				}
			}
		}
	}

	type res struct {
		obs          []StepObs
		inconclusive bool
		err          error
	}
	results := make([]res, len(hs))
	par := runtime.NumCPU() * 2
	if v, err := strconv.Atoi(o.Extra["par"]); err == nil && v > 0 {
		par = v
	}
	sem := make(chan struct{}, par)
	var wg sync.WaitGroup
	for i := range hs {
		wg.Add(1)
		sem <- struct{}{}
		go func(i int) {
			defer wg.Done()
			defer func() { <-sem }()
			ob, inc, err := run.runHistory(&hs[i])
			results[i] = res{ob, inc, err}
		}(i)
	}
	wg.Wait()
	// an invocation that hit its SIGKILL deadline, or a network timeout (108) against a
	// server that was not scripted to be slow (a loaded machine can do that): once more, alone
	for i := range hs {
		suspicious := false
		for k, so := range results[i].obs {
			st := &hs[i].Steps[k]
			if so.Exit == 108 && !(st.Server == "slow" && st.TimeoutMs != 0 && 2*st.DelayMs >= st.TimeoutMs) {
				suspicious = true
			}
		}
		if suspicious {
			obs.Count("rerun:unexpected-108")
		}
		if results[i].inconclusive || suspicious {
			ob, inc, err := run.runHistory(&hs[i])
			results[i] = res{ob, inc, err}
		}
	}

	var sb strings.Builder
	sb.WriteString("From Coq Require Import List NArith Bool.\nImport ListNotations.\nFrom TV Require Import Remote.Model Run.RemoteCases.\nOpen Scope N_scope.\n")
	var entries []string
	var idx []int
	seenStep := map[string]bool{}
	seenDistinct := map[string]bool{}
	for i := range hs {
		h := &hs[i]
		rs := results[i]
		if rs.err != nil {
			obs.ImplFails = append(obs.ImplFails, common.ImplFail{Case: len(obs.CaseInputs), Kind: "harness", Msg: rs.err.Error()})
			obs.CaseInputs = append(obs.CaseInputs, CaseInput{History: *h, Step: 0})
			continue
		}
		if rs.inconclusive {
			obs.ImplFails = append(obs.ImplFails, common.ImplFail{Case: len(obs.CaseInputs), Kind: "inconclusive", Msg: fmt.Sprintf("an invocation of %+v hit its SIGKILL deadline twice", *h)})
			obs.CaseInputs = append(obs.CaseInputs, CaseInput{History: *h, Step: 0})
			obs.Count("inconclusive")
			continue
		}
		obs.Count(fmt.Sprintf("history_len:%d", len(h.Steps)))
		obs.Count("via:" + h.Via)
		for k := range rs.obs {
			st := &h.Steps[k]
			so := &rs.obs[k]
			line := stepCoq(h, k, st, so)
			obs.Counters["invocations"]++
			srvKind := st.Server
			if st.Server == "slow" {
				to := st.TimeoutMs
				if to == 0 {
					to = defaultTimeoutMs
				}
				if 2*st.DelayMs < to {
					srvKind = "slow-in-time"
				} else {
					srvKind = "slow-timeout"
				}
			}
			obs.Count("server:" + srvKind)
			obs.Count(fmt.Sprintf("exit:%d", so.Exit))
			obs.Count("pre:" + cacheClass(so.Pre))
			obs.Count("answer:" + st.Answer)
			if st.Tamper != "" {
				obs.Count("tamper:" + st.Tamper)
			}
			if h.HTTPS {
				obs.Count("scheme:https")
			} else {
				obs.Count("scheme:http")
			}
			for name, b := range map[string]bool{"offline_env": st.OffEnv, "yes": st.Yes, "download": st.Download, "offline": st.Offline, "clear": st.Clear, "insecure": st.Insecure, "expiry": st.ExpirySec != 0, "aged": st.AgeSec != 0, "timeout": st.TimeoutMs != 0} {
				if b {
					obs.Count("flag:" + name)
				}
			}
			if len(so.Ran) > 0 {
				obs.Count("ran")
			}
			dk, _ := json.Marshal([]any{h.Via, h.HTTPS, st.Tamper, cacheClass(so.Pre), so.Pre.Time != nil, st.Server, st.Version, st.Yes, st.Download, st.Offline, st.Clear, st.Insecure, st.ExpirySec, st.TimeoutMs, st.Answer, st.AgeSec, so.Exit, so.Ran, cacheClass(so.Post)})
			if (st.Insecure || h.HTTPS) && !seenDistinct[string(dk)] {
				seenDistinct[string(dk)] = true
				obs.Distinct++
			}
			if seenStep[line] && o.Replay == "" {
				continue // the same observation (same pre-state, input, outcome) is evaluated once
			}
			seenStep[line] = true
			ci := CaseInput{History: History{Via: h.Via, RemoteDir: h.RemoteDir, HTTPS: h.HTTPS, Steps: h.Steps[:k+1]}, Step: k, Observed: rs.obs[:k+1]}
			idx = append(idx, len(obs.CaseInputs))
			obs.CaseInputs = append(obs.CaseInputs, ci)
			entries = append(entries, line)
			if len(obs.Samples) < 4 && k >= 1 && len(so.Ran) > 0 {
				obs.Samples = append(obs.Samples, ci)
			}
		}
	}
	obs.Cases = len(hs)
	obs.Counters["steps_evaluated"] = int64(len(entries))

	const chunk = 100
	var names []string
	for c := 0; c*chunk < len(entries); c++ {
		hi := min((c+1)*chunk, len(entries))
		n := fmt.Sprintf("steps_%d", c)
		names = append(names, n)
		fmt.Fprintf(&sb, "Definition %s : list rstep := [\n %s].\n", n, strings.Join(entries[c*chunk:hi], ";\n "))
	}
	if len(names) == 0 {
		sb.WriteString("Definition steps : list rstep := [].\n")
	} else {
		fmt.Fprintf(&sb, "Definition steps : list rstep := %s.\n", strings.Join(names, " ++ "))
	}
	sb.WriteString("Close Scope N_scope.\n")
	sb.WriteString("Definition R_agree := Eval vm_compute in failures (rstep_agree current_variant) steps.\nPrint R_agree.\n")
	sb.WriteString("Definition R_only_approved := Eval vm_compute in failures rstep_only_approved steps.\nPrint R_only_approved.\n")
	sb.WriteString("Definition R_ran_approved := Eval vm_compute in failures rstep_ran_approved steps.\nPrint R_ran_approved.\n")
	sb.WriteString("Definition R_guarded := Eval vm_compute in failures rstep_guarded steps.\nPrint R_guarded.\n")
	sb.WriteString("Definition R_unapproved := Eval vm_compute in failures rstep_unapproved steps.\nPrint R_unapproved.\n")
	sb.WriteString("Definition R_keeps := Eval vm_compute in failures rstep_keeps steps.\nPrint R_keeps.\n")
	sb.WriteString("Definition R_http := Eval vm_compute in failures rstep_http steps.\nPrint R_http.\n")
	common.WriteFile(o.Out, "cases.v", sb.String())
	im := map[string][]int{}
	for _, n := range resultNames {
		im[n] = idx
	}
	b, _ := json.Marshal(im)
	common.WriteFile(o.Out, "index.json", string(b))
	obs.Write(o.Out)
}
