package remote

import (
	"crypto/ecdsa"
	"crypto/elliptic"
	"crypto/rand"
	"crypto/tls"
	"crypto/x509"
	"crypto/x509/pkix"
	"encoding/pem"
	"fmt"
	"math/big"
	mrand "math/rand"
	"net"
	"net/http"
	"os"
	"path/filepath"
	"sync"
	"syscall"
	"time"
)

// scriptedServer is the remote end of one history: a listener on 127.0.0.1 whose
// behaviour is switched by the harness between CLI invocations.
type scriptedServer struct {
	mu       sync.Mutex
	addr     string // 127.0.0.1:port, fixed for the history (the cache key is the URL)
	ln       net.Listener
	srv      *http.Server
	mode     string // serve | down | refuse | slow | status
	version  int
	delay    time.Duration
	status   int
	content  func(v int) []byte
	requests int
	tlsCfg   *tls.Config // nil: plain http
	certPEM  []byte      // the self-signed certificate the client has to trust (SSL_CERT_FILE)
	claim    *portClaim
}

// selfSigned makes a certificate for 127.0.0.1 that is its own CA.
func selfSigned() (*tls.Config, []byte, error) {
	key, err := ecdsa.GenerateKey(elliptic.P256(), rand.Reader)
	if err != nil {
		return nil, nil, err
	}
	tmpl := &x509.Certificate{
		SerialNumber:          big.NewInt(1),
		Subject:               pkix.Name{CommonName: "vh-remote"},
		NotBefore:             time.Now().Add(-time.Hour),
		NotAfter:              time.Now().Add(24 * time.Hour),
		KeyUsage:              x509.KeyUsageDigitalSignature | x509.KeyUsageCertSign,
		ExtKeyUsage:           []x509.ExtKeyUsage{x509.ExtKeyUsageServerAuth},
		BasicConstraintsValid: true,
		IsCA:                  true,
		IPAddresses:           []net.IP{net.ParseIP("127.0.0.1")},
	}
	der, err := x509.CreateCertificate(rand.Reader, tmpl, tmpl, &key.PublicKey, key)
	if err != nil {
		return nil, nil, err
	}
	cfg := &tls.Config{Certificates: []tls.Certificate{{Certificate: [][]byte{der}, PrivateKey: key}}}
	return cfg, pem.EncodeToMemory(&pem.Block{Type: "CERTIFICATE", Bytes: der}), nil
}

func newScriptedServer(content func(v int) []byte, https bool) (*scriptedServer, error) {
	s := &scriptedServer{content: content, mode: "down"}
	if https {
		cfg, pemBytes, err := selfSigned()
		if err != nil {
			return nil, err
		}
		s.tlsCfg, s.certPEM = cfg, pemBytes
	}
	claim, err := claimPort()
	if err != nil {
		return nil, err
	}
	s.claim = claim
	s.addr = fmt.Sprintf("127.0.0.1:%d", claim.port)
	return s, nil
}

// A history needs ONE port for its whole life, also while its server is "down"
// (listener closed).  A port from the kernel's ephemeral range would be handed
// to somebody else (another history's server, an outgoing connection) during
// that time, so ports are taken from below that range and claimed with a
// flock'ed file, which every vh-remote process honours and which the kernel
// releases when the process dies.
type portClaim struct {
	port int
	f    *os.File
}

const portLo, portN = 20000, 12000

var portRand = mrand.New(mrand.NewSource(time.Now().UnixNano() ^ int64(os.Getpid())<<20))
var portMu sync.Mutex

func claimPort() (*portClaim, error) {
	dir := filepath.Join(os.TempDir(), "vh-remote-ports")
	if err := os.MkdirAll(dir, 0o777); err != nil {
		return nil, err
	}
	for try := 0; try < 4000; try++ {
		portMu.Lock()
		port := portLo + portRand.Intn(portN)
		portMu.Unlock()
		f, err := os.OpenFile(filepath.Join(dir, fmt.Sprint(port)), os.O_CREATE|os.O_RDWR, 0o666)
		if err != nil {
			return nil, err
		}
		if err := syscall.Flock(int(f.Fd()), syscall.LOCK_EX|syscall.LOCK_NB); err != nil {
			f.Close()
			continue
		}
		// usable right now?
		ln, err := net.Listen("tcp", fmt.Sprintf("127.0.0.1:%d", port))
		if err != nil {
			f.Close()
			continue
		}
		_ = ln.Close()
		return &portClaim{port: port, f: f}, nil
	}
	return nil, fmt.Errorf("no free port in %d..%d", portLo, portLo+portN)
}

func (c *portClaim) release() {
	if c != nil && c.f != nil {
		_ = c.f.Close()
		c.f = nil
	}
}

func (s *scriptedServer) URL() string {
	if s.tlsCfg != nil {
		return "https://" + s.addr + "/t.yml"
	}
	return "http://" + s.addr + "/t.yml"
}

type gateListener struct {
	net.Listener
	s *scriptedServer
}

func (g gateListener) Accept() (net.Conn, error) {
	for {
		c, err := g.Listener.Accept()
		if err != nil {
			return nil, err
		}
		g.s.mu.Lock()
		refuse := g.s.mode == "refuse"
		g.s.mu.Unlock()
		if refuse {
			// drop the connection without an answer (RST)
			if tc, ok := c.(*net.TCPConn); ok {
				_ = tc.SetLinger(0)
			}
			_ = c.Close()
			continue
		}
		return c, nil
	}
}

func (s *scriptedServer) handle(w http.ResponseWriter, r *http.Request) {
	s.mu.Lock()
	s.requests++
	mode, v, delay, status := s.mode, s.version, s.delay, s.status
	s.mu.Unlock()
	switch mode {
	case "status":
		w.WriteHeader(status)
		return
	case "slow":
		select {
		case <-time.After(delay):
		case <-r.Context().Done():
			return
		}
	}
	if r.URL.Path != "/t.yml" {
		w.WriteHeader(http.StatusNotFound)
		return
	}
	b := s.content(v)
	w.Header().Set("Content-Type", "text/yaml")
	w.Header().Set("Content-Length", fmt.Sprint(len(b)))
	w.WriteHeader(http.StatusOK)
	if r.Method != http.MethodHead {
		_, _ = w.Write(b)
	}
}

func (s *scriptedServer) up() error {
	if s.ln != nil {
		return nil
	}
	var ln net.Listener
	var err error
	for i := 0; i < 100; i++ {
		ln, err = net.Listen("tcp", s.addr)
		if err == nil {
			break
		}
		time.Sleep(20 * time.Millisecond)
	}
	if err != nil {
		return err
	}
	s.ln = ln
	s.srv = &http.Server{Handler: http.HandlerFunc(s.handle)}
	s.srv.SetKeepAlivesEnabled(false)
	var serveOn net.Listener = gateListener{ln, s}
	if s.tlsCfg != nil {
		serveOn = tls.NewListener(serveOn, s.tlsCfg)
	}
	go func(srv *http.Server, l net.Listener) { _ = srv.Serve(l) }(s.srv, serveOn)
	return nil
}

func (s *scriptedServer) downNow() {
	if s.ln != nil {
		_ = s.srv.Close()
		_ = s.ln.Close()
		s.ln, s.srv = nil, nil
	}
}

// set switches the behaviour for the next invocation.
func (s *scriptedServer) set(st *Step) error {
	s.mu.Lock()
	s.mode = st.Server
	s.version = st.Version
	s.delay = time.Duration(st.DelayMs) * time.Millisecond
	s.status = st.Status
	s.mu.Unlock()
	if st.Server == "down" {
		s.downNow()
		return nil
	}
	return s.up()
}

func (s *scriptedServer) close() {
	s.downNow()
	s.claim.release()
}
