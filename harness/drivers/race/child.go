package race

import (
	"context"
	"encoding/json"
	"fmt"
	"io"
	"math/rand"
	"os"
	"path/filepath"
	"runtime"
	"time"

	task "github.com/go-task/task/v3"
	"github.com/go-task/task/v3/verifharness/sched"
)

// RaceCase is one workload: a Taskfile tree plus how the real Executor is asked to run it.
type RaceCase struct {
	Name        string            `json:"name"`
	Files       map[string]string `json:"files"` // relative path -> content
	Targets     []string          `json:"targets"`
	Parallel    bool              `json:"parallel"`
	Concurrency int               `json:"concurrency"`
	Verbose     bool              `json:"verbose"`
	Silent      bool              `json:"silent"`
	Force       bool              `json:"force"`
	Procs       int               `json:"gomaxprocs"`
	Sched       string            `json:"sched"` // "free" | "gate"
	Seed        int64             `json:"seed"`
	Features    []string          `json:"features"`
	Directed    string            `json:"directed,omitempty"` // object class this case is aimed at
}

type childResult struct {
	Err      string `json:"err"`
	SetupErr string `json:"setup_err"`
	Timeout  bool   `json:"timeout"`
	Deadlock bool   `json:"deadlock"`
	Writes   int    `json:"writes"`
}

// sink is the harness's stdout/stderr in free-running mode: no state, no
// synchronisation, so it neither races itself nor adds happens-before edges
// that could hide a race of the code under test.
type sink struct{}

func (sink) Write(p []byte) (int, error) { return len(p), nil }

// jitter is sink plus a delay that is a pure function of (seed, bytes written):
// it perturbs the schedule without holding any state or lock.
type jitter struct{ seed uint64 }

func (j jitter) Write(p []byte) (int, error) {
	h := j.seed*0x9E3779B97F4A7C15 + 0x1234567
	for _, b := range p {
		h = (h ^ uint64(b)) * 0x100000001B3
	}
	switch h >> 61 {
	case 0, 1, 2:
	case 3, 4:
		runtime.Gosched()
	case 5:
		for k := 0; k < 8; k++ {
			runtime.Gosched()
		}
	default:
		time.Sleep(time.Duration(h>>40&0xff) * time.Microsecond)
	}
	return len(p), nil
}

type eofReader struct{}

func (eofReader) Read([]byte) (int, error) { return 0, io.EOF }

// runChild executes one case in this process (which is built with -race and
// started with GORACE=log_path=...).  The verdict about races is read by the
// parent from the race log; this function only reports how the run ended.
func runChild(path string) {
	b, err := os.ReadFile(path)
	if err != nil {
		fmt.Fprintln(os.Stderr, err)
		os.Exit(2)
	}
	var c RaceCase
	if err := json.Unmarshal(b, &c); err != nil {
		fmt.Fprintln(os.Stderr, err)
		os.Exit(2)
	}
	if c.Procs > 0 {
		runtime.GOMAXPROCS(c.Procs)
	}
	dir, err := os.MkdirTemp("", "vh-race")
	if err != nil {
		fmt.Fprintln(os.Stderr, err)
		os.Exit(2)
	}
	res := childResult{}
	finish := func(code int) {
		_ = os.RemoveAll(dir)
		out, _ := json.Marshal(res)
		fmt.Println(string(out))
		os.Exit(code)
	}
	for name, content := range c.Files {
		p := filepath.Join(dir, name)
		_ = os.MkdirAll(filepath.Dir(p), 0o755)
		if err := os.WriteFile(p, []byte(content), 0o644); err != nil {
			res.SetupErr = err.Error()
			finish(2)
		}
	}
	var stdout, stderr io.Writer = sink{}, sink{}
	var ctl *sched.Controller
	if c.Sched == "jitter" {
		stdout, stderr = jitter{uint64(c.Seed)}, jitter{uint64(c.Seed) + 1}
	}
	if c.Sched == "gate" {
		ctl = sched.New()
		ctl.MaxSteps = 20000
		// Setup itself may print (verbose dynamic variables): nothing is gated before Run
		ctl.AutoRelease = func(string, []byte) bool { return true }
		stdout, stderr = ctl.Writer("out"), ctl.Writer("err")
	}
	done := make(chan struct{})
	go func() {
		select {
		case <-done:
		case <-time.After(40 * time.Second):
			// Setup or Run did not return (e.g. a deadlock of the code under test): report and leave
			_ = os.RemoveAll(dir)
			fmt.Println(`{"timeout":true}`)
			os.Exit(3)
		}
	}()
	e := task.NewExecutor(
		task.WithDir(dir),
		task.WithStdin(eofReader{}),
		task.WithStdout(stdout),
		task.WithStderr(stderr),
		task.WithParallel(c.Parallel),
		task.WithConcurrency(c.Concurrency),
		task.WithVerbose(c.Verbose),
		task.WithSilent(c.Silent),
		task.WithForce(c.Force),
		task.WithTempDir(task.TempDir{Remote: filepath.Join(dir, ".task"), Fingerprint: filepath.Join(dir, ".task")}),
	)
	if err := e.Setup(); err != nil {
		res.SetupErr = err.Error()
		finish(0)
	}
	calls := make([]*task.Call, len(c.Targets))
	for i, t := range c.Targets {
		calls[i] = &task.Call{Task: t}
	}
	run := func() error { return e.Run(context.Background(), calls...) }
	if ctl != nil {
		ctl.AutoRelease = nil
		r := ctl.Run(run, sched.RandChooser{R: rand.New(rand.NewSource(c.Seed))})
		if r.Deadlock || r.Overrun {
			res.Deadlock = r.Deadlock
			ctl.ReleaseAll()
		}
		err = r.Err
		res.Writes = len(ctl.Events) / 2
	} else {
		err = run()
	}
	close(done)
	if err != nil {
		res.Err = err.Error()
	}
	finish(0)
}
