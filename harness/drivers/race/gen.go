package race

import (
	"fmt"
	"math/rand"
	"sort"
	"strings"

	"gopkg.in/yaml.v3"
)

// The generator builds acyclic programs (task i only refers to tasks j > i, so
// that neither the dedup cycle deadlock nor the call limit is what is being
// measured) in which a few leaf definitions are compiled and run from many
// goroutines at once.

type m = map[string]any

type gen struct {
	r     *rand.Rand
	feats map[string]bool
	files map[string]string
	calls map[string][]gcall // task -> the tasks it runs (deps, task calls), with loop multiplicity
	cur   string
	mult  int
}

type gcall struct {
	target string
	mult   int
}

func (g *gen) call(target string, mult int) {
	g.calls[g.cur] = append(g.calls[g.cur], gcall{target, mult})
}

// cost: number of task executions started by running task t once (dedup ignored: an upper bound)
func (g *gen) cost(t string, memo map[string]int) int {
	if v, ok := memo[t]; ok {
		return v
	}
	c := 1
	for _, k := range g.calls[t] {
		c += k.mult * g.cost(k.target, memo)
		if c > 1000000 {
			c = 1000000
		}
	}
	memo[t] = c
	return c
}

func (g *gen) feat(f string)       { g.feats[f] = true }
func (g *gen) p(num, den int) bool { return g.r.Intn(den) < num }
func (g *gen) pick(ss ...string) string {
	return ss[g.r.Intn(len(ss))]
}

func (g *gen) xval() string { return g.pick("1", "2", "3", "a b", "{{.G1}}") }

// callVars: variables passed along a dep / task call.
func (g *gen) callVars() m {
	v := m{}
	if g.p(3, 4) {
		v["X"] = g.xval()
	}
	if g.p(1, 4) {
		v["Y"] = m{"sh": "echo y" + g.pick("1", "2")}
		g.feat("call-sh-var")
	}
	if g.p(1, 6) {
		v["Z"] = m{"ref": ".LIST"}
		g.feat("call-ref-var")
	}
	return v
}

func (g *gen) forSpec(allowMatrixRef bool) (any, string) {
	switch k := g.r.Intn(6); {
	case k == 0:
		g.feat("for-list")
		n := 1 + g.r.Intn(3)
		g.mult = n
		return []any{"f1", "f2", "f3"}[:n], "{{.ITEM}}"
	case k == 1:
		g.feat("for-var")
		g.mult = 2
		return m{"var": "LISTSTR"}, "{{.ITEM}}"
	case k == 2:
		g.feat("for-var-ref")
		g.mult = 2
		return m{"var": "LIST", "as": "IT"}, "{{.IT}}"
	case k == 3:
		g.feat("for-matrix")
		n := 1 + g.r.Intn(2)
		g.mult = 2 * n
		return m{"matrix": m{"A": []any{"m1", "m2"}, "B": []any{1, 2}[:n]}}, "{{.ITEM.A}}{{.ITEM.B}}"
	case k == 4 && allowMatrixRef:
		g.feat("for-matrix-ref")
		g.mult = 2
		return m{"matrix": m{"A": m{"ref": ".LIST"}, "B": []any{"x"}}}, "{{.ITEM.A}}{{.ITEM.B}}"
	default:
		g.feat("for-split")
		g.mult = 3
		return m{"var": "CSV", "split": ","}, "{{.ITEM}}"
	}
}

func (g *gen) echo(name string) string {
	return g.pick(
		"echo "+name+" {{.X}} {{.G1}}",
		"printf '%s\\n' "+name+"-{{.TASK}}",
		"echo $GE $TE {{.DYN}}",
		"echo "+name+"; echo "+name+"-2",
		"true",
		"echo {{.V1}} {{.VD}}",
	)
}

type genOpts struct {
	matrixRef bool // allow for: matrix with ref: rows (DESIGN 7.17, repaired in /repo 3d636e5)
	pipeErr   bool // allow pipelines whose stages write to stdout and stderr at once
}

func (g *gen) task(i, n int, name string, o genOpts) m {
	t := m{}
	g.cur = name
	later := func() string { return fmt.Sprintf("t%d", i+1+g.r.Intn(n-i-1)) }
	hasLater := i+1 < n
	if g.p(1, 2) {
		t["run"] = g.pick("once", "when_changed", "always")
		g.feat("run-" + t["run"].(string))
	}
	if g.p(1, 2) {
		v := m{"V1": "{{.G1}}-{{.X}}"}
		if g.p(1, 2) {
			v["VD"] = m{"sh": "echo d-" + g.pick("1", "2", "{{.X}}")}
			g.feat("task-sh-var")
		}
		if g.p(1, 3) {
			v["VR"] = m{"ref": ".LIST"}
			g.feat("task-ref-var")
		}
		if g.p(1, 4) {
			v["VM"] = m{"map": m{"k1": "v1", "k2": "{{.G1}}"}}
			g.feat("task-map-var")
		}
		t["vars"] = v
	}
	if g.p(1, 3) {
		e := m{"TE": "te-{{.X}}"}
		if g.p(1, 2) {
			e["TED"] = m{"sh": "echo ted"}
			g.feat("task-sh-env")
		}
		t["env"] = e
	}
	if g.p(1, 5) {
		t["dotenv"] = []any{".env2"}
		g.feat("task-dotenv")
	}
	if g.p(1, 4) {
		t["requires"] = m{"vars": []any{"X"}}
		g.feat("requires")
	}
	if g.p(1, 4) {
		t["preconditions"] = []any{m{"sh": g.pick("true", `test -n "{{.X}}"`), "msg": "pre {{.TASK}}"}}
		g.feat("preconditions")
	}
	if g.p(1, 4) {
		t["status"] = []any{g.pick("false", "test -f nonexistent-{{.X}}", "true")}
		g.feat("status")
	}
	if g.p(1, 5) {
		t["sources"] = []any{"src/*.txt"}
		t["generates"] = []any{"gen-" + name + ".txt"}
		t["method"] = g.pick("checksum", "timestamp", "none")
		g.feat("sources-" + t["method"].(string))
	}
	if g.p(1, 5) {
		t["dir"] = g.pick("d1", "d2/{{.X}}")
		g.feat("dir")
	}
	if g.p(1, 4) {
		t["prefix"] = "p-{{.X}}"
	}
	if g.p(1, 6) {
		t["label"] = name + "-{{.X}}"
	}
	if g.p(1, 5) {
		t["silent"] = true
	}
	if g.p(1, 8) {
		t["ignore_error"] = true
	}
	if g.p(1, 8) {
		t["aliases"] = []any{name + "alias"}
	}
	// deps
	if hasLater && g.p(2, 3) {
		var deps []any
		k := 1 + g.r.Intn(3)
		for j := 0; j < k; j++ {
			switch g.r.Intn(4) {
			case 0:
				d := later()
				g.call(d, 1)
				deps = append(deps, d)
			case 1, 2:
				d := later()
				g.call(d, 1)
				deps = append(deps, m{"task": d, "vars": g.callVars()})
				g.feat("dep-vars")
			case 3:
				f, item := g.forSpec(o.matrixRef)
				d := later()
				g.call(d, g.mult)
				deps = append(deps, m{"for": f, "task": d, "vars": m{"X": item}})
				g.feat("dep-for")
			}
		}
		if g.p(1, 3) { // the same definition several times at once
			deps = append(deps, deps[0], deps[0])
			first := g.calls[name][0]
			g.call(first.target, 2*first.mult)
			g.feat("dep-dup")
		}
		t["deps"] = deps
	}
	// cmds
	var cmds []any
	k := 1 + g.r.Intn(3)
	for j := 0; j < k; j++ {
		switch c := g.r.Intn(10); {
		case c <= 3:
			cmds = append(cmds, g.echo(name))
		case c == 4 && hasLater:
			d := later()
			g.call(d, 1)
			cmds = append(cmds, m{"task": d, "vars": g.callVars()})
			g.feat("cmd-call")
		case c == 5 && hasLater:
			f, item := g.forSpec(o.matrixRef)
			d := later()
			g.call(d, g.mult)
			cmds = append(cmds, m{"for": f, "task": d, "vars": m{"X": item}})
			g.feat("cmd-for-call")
		case c == 6:
			f, item := g.forSpec(o.matrixRef)
			cmds = append(cmds, m{"for": f, "cmd": "echo " + item})
			g.feat("cmd-for")
		case c == 7:
			if g.p(1, 2) || !hasLater {
				cmds = append(cmds, m{"defer": "echo deferred {{.X}} {{.EXIT_CODE}}"})
			} else {
				d := later()
				g.call(d, 1)
				cmds = append(cmds, m{"defer": m{"task": d, "vars": m{"X": "dx"}}})
			}
			g.feat("defer")
		case c == 8:
			if o.pipeErr && g.p(1, 2) {
				cmds = append(cmds, "echo e-"+name+" >&2 | echo o-"+name)
				g.feat("pipe-stderr")
			} else {
				cmds = append(cmds, "echo a-"+name+" | while read l; do echo $l; done")
				g.feat("pipe")
			}
		default:
			cmds = append(cmds, m{"cmd": "exit " + g.pick("0", "1"), "ignore_error": true})
			g.feat("ignore-error")
		}
	}
	t["cmds"] = cmds
	return t
}

// Generate builds program number prog of a run; variant selects GOMAXPROCS / scheduling.
func Generate(seed int64, variant int, o genOpts) *RaceCase {
	// programs whose fan-out would start more than maxExecs task executions are re-drawn (deterministically)
	const maxExecs = 50
	for k := int64(0); ; k++ {
		if c := generate(seed+k*7919, variant, o, maxExecs); c != nil {
			c.Seed = seed
			return c
		}
	}
}

func generate(seed int64, variant int, o genOpts, maxExecs int) *RaceCase {
	g := &gen{r: rand.New(rand.NewSource(seed)), feats: map[string]bool{}, files: map[string]string{}, calls: map[string][]gcall{}}
	n := 3 + g.r.Intn(5)
	tasks := m{}
	for i := 0; i < n; i++ {
		name := fmt.Sprintf("t%d", i)
		tasks[name] = g.task(i, n, name, o)
	}
	// wildcard task, called under several names
	wild := g.p(1, 3)
	if wild {
		tasks["w-*"] = m{"vars": m{"W": "{{index .MATCH 0}}"}, "cmds": []any{"echo wild {{.W}} {{.X}}"}}
		g.feat("wildcard")
	}
	// the fan-out: top depends on several entry points, some of them several times
	var topDeps []any
	k := 2 + g.r.Intn(4)
	for j := 0; j < k; j++ {
		d := fmt.Sprintf("t%d", g.r.Intn(n))
		if wild && g.p(1, 4) {
			d = "w-" + g.pick("a", "b")
		}
		if g.p(1, 2) {
			topDeps = append(topDeps, m{"task": d, "vars": g.callVars()})
		} else {
			topDeps = append(topDeps, d)
		}
		if !strings.HasPrefix(d, "w-") {
			g.calls["top"] = append(g.calls["top"], gcall{d, 1})
		}
	}
	memo := map[string]int{}
	total := g.cost("top", memo)
	tasks["top"] = m{"deps": topDeps, "cmds": []any{"echo top"}}
	tf := m{
		"version": "3",
		"vars": m{
			"G1": "g1", "X": "gx", "LIST": []any{"l1", "l2"}, "LISTSTR": "s1 s2", "CSV": "c1,c2,c3",
			"DYN": m{"sh": "echo dyn"}, "GREF": m{"ref": ".LIST"},
		},
		"env":   m{"GE": "ge", "GED": m{"sh": "echo ged"}},
		"tasks": tasks,
	}
	g.files[".env2"] = "DOT2=two\n"
	g.files["src/a.txt"] = "a\n"
	g.files["src/b.txt"] = "b\n"
	if g.p(1, 2) {
		tf["dotenv"] = []any{".env"}
		g.files[".env"] = "DOT1=one\nGE=fromdotenv\n"
		g.feat("dotenv")
	}
	switch g.r.Intn(4) {
	case 0:
		tf["output"] = "prefixed"
		g.feat("output-prefixed")
	case 1:
		tf["output"] = m{"group": m{"begin": "::begin {{.TASK}}", "end": "::end", "error_only": g.p(1, 4)}}
		g.feat("output-group")
	case 2:
		tf["output"] = "interleaved"
	}
	if g.p(1, 4) {
		tf["run"] = g.pick("once", "when_changed")
		g.feat("global-run-" + tf["run"].(string))
	}
	if g.p(1, 4) {
		tf["silent"] = true
	}
	if g.p(1, 3) {
		tf["includes"] = m{"inc": m{"taskfile": "./inc/Taskfile.yml", "vars": m{"IV": "iv-{{.G1}}"}}}
		inc := m{"version": "3", "vars": m{"INCV": "incv"}, "tasks": m{
			"leaf": m{"vars": m{"LV": "{{.IV}}-{{.INCV}}-{{.X}}"}, "cmds": []any{"echo inc {{.LV}}"}, "run": g.pick("always", "once", "when_changed")},
			"mid":  m{"deps": []any{"leaf", m{"task": "leaf", "vars": m{"X": "ix"}}}, "cmds": []any{m{"task": "leaf", "vars": m{"X": "iy"}}}},
		}}
		b, _ := yaml.Marshal(inc)
		g.files["inc/Taskfile.yml"] = string(b)
		tasks["top"].(m)["deps"] = append(topDeps, "inc:mid", "inc:leaf", "inc:mid")
		g.feat("include")
	}
	b, _ := yaml.Marshal(tf)
	g.files["Taskfile.yml"] = string(b)

	c := &RaceCase{Files: g.files, Seed: seed}
	g.feat(fmt.Sprintf("execs<=%d", (total/10+1)*10))
	// how it is run
	if g.p(1, 3) {
		c.Parallel = true
		c.Targets = []string{"top"}
		kk := 1 + g.r.Intn(3)
		for j := 0; j < kk; j++ {
			c.Targets = append(c.Targets, fmt.Sprintf("t%d", g.r.Intn(n)))
		}
		if g.p(1, 2) {
			c.Targets = append(c.Targets, c.Targets[len(c.Targets)-1]) // the same target twice
		}
		for _, t := range c.Targets[1:] {
			total += g.cost(t, memo)
		}
		g.feat("parallel-targets")
	} else {
		c.Targets = []string{"top"}
	}
	if total > maxExecs {
		return nil
	}
	c.Concurrency = []int{0, 0, 1, 2, 3}[g.r.Intn(5)]
	if c.Concurrency > 0 {
		g.feat(fmt.Sprintf("concurrency-%d", c.Concurrency))
	}
	c.Verbose = g.p(1, 3)
	c.Force = g.p(1, 6)
	procs := [][]int{{1, 4, 8}, {2, 3, 16}, {1, 2, 6}}[g.r.Intn(3)]
	c.Procs = procs[variant%3]
	// scheduling: free-running, free-running with seed-derived delays in the harness's
	// (stateless) writers, or fully controlled release of gated writes (slow under -race: small programs only)
	c.Sched = "free"
	if variant%3 == 1 {
		c.Sched = "jitter"
		// (a pipeline stage blocked in a pipe read never looks quiescent to the gate scheduler)
		if n <= 4 && g.p(1, 2) && !g.feats["pipe"] && !g.feats["pipe-stderr"] {
			c.Sched = "gate"
		}
	}
	for f := range g.feats {
		c.Features = append(c.Features, f)
	}
	sort.Strings(c.Features)
	c.Name = fmt.Sprintf("gen-%d-v%d", seed, variant)
	return c
}

// Directed cases: one small program per object class that the extracted table
// flags or once flagged (regression cases for the repaired findings), so that the dynamic leg is not a
// matter of luck for them.
func Directed() []*RaceCase {
	matrixCmd := `version: '3'
vars:
  LIST: [a, b, c]
tasks:
  top:
    deps:
      - task: leaf
        vars: {X: "1"}
      - task: leaf
        vars: {X: "2"}
      - task: leaf
        vars: {X: "3"}
  leaf:
    cmds:
      - for:
          matrix:
            A: {ref: .LIST}
            B: [1, 2]
        cmd: echo {{.ITEM.A}} {{.ITEM.B}} {{.X}}
`
	matrixDep := `version: '3'
vars:
  LIST: [a, b]
tasks:
  top:
    deps: [mid, mid, mid]
  mid:
    deps:
      - for:
          matrix:
            A: {ref: .LIST}
        task: leaf
        vars: {X: '{{.ITEM.A}}'}
  leaf:
    cmds:
      - echo {{.X}}
`
	pipe := func(output string) string {
		return `version: '3'
` + output + `
tasks:
  top:
    cmds:
      - echo e1 >&2 | echo o1
      - "{ echo x; echo y >&2; } | { echo z >&2; while read l; do echo $l; done; }"
`
	}
	mk := func(name, cls, tf string, targets ...string) *RaceCase {
		return &RaceCase{Name: name, Directed: cls, Files: map[string]string{"Taskfile.yml": tf}, Targets: targets, Procs: 4, Sched: "free", Features: []string{"directed:" + name}}
	}
	return []*RaceCase{
		mk("matrix-ref-cmds", "ast.MatrixRow", matrixCmd, "top"),
		mk("matrix-ref-deps", "ast.MatrixRow", matrixDep, "top"),
		mk("pipe-prefixed", "output.prefixWriter.buff", pipe("output: prefixed"), "top"),
		mk("pipe-group", "output.groupWriter.buff", pipe("output:\n  group:\n    begin: 'B {{.TASK}}'\n    end: E"), "top"),
	}
}

func featKey(c *RaceCase) string { return strings.Join(c.Features, ",") }
