package race

import "testing"

func TestNormFunc(t *testing.T) {
	for in, want := range map[string]string{
		"github.com/go-task/task/v3.resolveMatrixRefs-range1()": "github.com/go-task/task/v3.resolveMatrixRefs",
		"github.com/go-task/task/v3/internal/templater.ReplaceVarsWithExtra.(*Vars).All.(*OrderedMap[go.shape.string,go.shape.struct { Value interface {} }]).AllFromFront.func2()": "github.com/go-task/task/v3/internal/templater.ReplaceVarsWithExtra",
		"github.com/go-task/task/v3/taskfile/ast.(*Vars).Set()":                                         "github.com/go-task/task/v3/taskfile/ast.(*Vars).Set",
		"github.com/go-task/task/v3.(*Compiler).getVariables.(*Compiler).getVariables.func1.func2()":    "github.com/go-task/task/v3.(*Compiler).getVariables",
		"github.com/go-task/task/v3/internal/output.Group.WrapWriter.func1()":                           "github.com/go-task/task/v3/internal/output.Group.WrapWriter",
		"github.com/go-task/task/v3/internal/templater.ReplaceWithExtra[go.shape.interface {}].func1()": "github.com/go-task/task/v3/internal/templater.ReplaceWithExtra",
		"github.com/go-task/task/v3.(*Executor).RunTask.func1.deferwrap1()":                             "github.com/go-task/task/v3.(*Executor).RunTask",
	} {
		if got := NormFunc(in); got != want {
			t.Errorf("NormFunc(%q) = %q, want %q", in, got, want)
		}
	}
}
