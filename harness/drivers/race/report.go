package race

import (
	"regexp"
	"sort"
	"strings"
)

// Frame is one stack frame of a race report.
type Frame struct {
	Func string `json:"func"`
	Pos  string `json:"pos"`
}

// Side is one of the two conflicting accesses of a report.
type Side struct {
	Kind   string  `json:"kind"` // "R" | "W"
	Atomic bool    `json:"atomic"`
	G      string  `json:"g"`
	Frames []Frame `json:"frames"`
	Top    string  `json:"top"` // innermost go-task frame (normalised), "" if none
	TopPos string  `json:"top_pos"`
}

// Report is one parsed "WARNING: DATA RACE" block.
type Report struct {
	Sides []Side `json:"sides"`
	Text  string `json:"text"`
}

const taskPrefix = "github.com/go-task/task/v3"

var (
	accessRe  = regexp.MustCompile(`^(Read|Write|Previous read|Previous write|Atomic read|Atomic write|Previous atomic read|Previous atomic write) at 0x[0-9a-f]+ by (main goroutine|goroutine \d+):$`)
	closureRe = regexp.MustCompile(`^(.*?)(?:\.func\d+|\.gowrap\d+|\.deferwrap\d+|-range\d+)(?:[.\-].*)?$`)
)

// NormFunc maps a runtime symbol name to the enclosing declared function:
// closures, go/defer wrappers, range-over-func bodies and type arguments are folded away.
func NormFunc(f string) string {
	f = strings.TrimSuffix(f, "()")
	if i := strings.Index(f, "["); i >= 0 {
		// generic instantiation: pkg.F[...] or pkg.F[...].func1
		j := strings.LastIndex(f, "]")
		if j > i {
			f = f[:i] + f[j+1:]
		}
	}
	if m := closureRe.FindStringSubmatch(f); m != nil {
		f = m[1]
	}
	// bodies of range-over-func loops are named after the inlined iterator chain:
	// pkg.F.(*Vars).All.(*OrderedMap).AllFromFront -> pkg.F
	start := strings.LastIndex(f, "/") + 1
	if d := strings.Index(f[start:], "."); d >= 0 {
		start += d + 1
		if start < len(f) && f[start] == '(' {
			if c := strings.Index(f[start:], ")"); c >= 0 {
				start += c + 1
			}
		}
		if k := strings.Index(f[start:], ".("); k >= 0 {
			f = f[:start+k]
		}
	}
	return f
}

func isTaskFunc(f string) bool {
	if !strings.HasPrefix(f, taskPrefix) {
		return false
	}
	rest := f[len(taskPrefix):]
	if rest == "" || (rest[0] != '.' && rest[0] != '/') {
		return false
	}
	return !strings.HasPrefix(rest, "/verifharness")
}

// ParseReports splits the race detector's log into reports.
func ParseReports(log string) []Report {
	var out []Report
	for _, blk := range strings.Split(log, "==================") {
		if !strings.Contains(blk, "WARNING: DATA RACE") {
			continue
		}
		r := Report{Text: strings.TrimSpace(blk)}
		lines := strings.Split(blk, "\n")
		var cur *Side
		for i := 0; i < len(lines); i++ {
			ln := strings.TrimRight(lines[i], "\r")
			if m := accessRe.FindStringSubmatch(ln); m != nil {
				lower := strings.ToLower(m[1])
				s := Side{Kind: "R", Atomic: strings.Contains(lower, "atomic"), G: m[2]}
				if strings.Contains(lower, "write") {
					s.Kind = "W"
				}
				r.Sides = append(r.Sides, s)
				cur = &r.Sides[len(r.Sides)-1]
				continue
			}
			if strings.TrimSpace(ln) == "" || (!strings.HasPrefix(ln, "  ") && ln != "") {
				if !strings.HasPrefix(ln, "  ") {
					cur = nil
				}
				continue
			}
			if cur == nil {
				continue
			}
			if strings.HasPrefix(ln, "      ") {
				continue // position line, consumed with its function line
			}
			fn := strings.TrimSpace(ln)
			pos := ""
			if i+1 < len(lines) && strings.HasPrefix(lines[i+1], "      ") {
				pos = strings.TrimSpace(lines[i+1])
				if k := strings.LastIndex(pos, " +0x"); k >= 0 {
					pos = pos[:k]
				}
			}
			cur.Frames = append(cur.Frames, Frame{Func: NormFunc(fn), Pos: pos})
		}
		for k := range r.Sides {
			for _, f := range r.Sides[k].Frames {
				if isTaskFunc(f.Func) {
					r.Sides[k].Top, r.Sides[k].TopPos = f.Func, f.Pos
					break
				}
			}
		}
		out = append(out, r)
	}
	return out
}

// TaskRace: both accesses are known and both have a go-task frame.
func (r Report) TaskRace() bool {
	return len(r.Sides) == 2 && r.Sides[0].Top != "" && r.Sides[1].Top != ""
}

// Pair is the canonical (sorted) pair of innermost go-task frames.
func (r Report) Pair() string {
	a := []string{short(r.Sides[0].Top), short(r.Sides[1].Top)}
	sort.Strings(a)
	return a[0] + "|" + a[1]
}

// short names a function the way the extracted access table does:
// "task.(*Executor).RunTask" for the root package, "taskfile/ast.(*Vars).Set" below it.
func short(f string) string {
	f = strings.TrimPrefix(f, taskPrefix)
	switch {
	case strings.HasPrefix(f, "/"):
		return f[1:]
	case strings.HasPrefix(f, "."):
		return "task" + f
	}
	return "?"
}
