// Package race is the dynamic leg of C18: generated concurrent Taskfiles are
// run by the real Executor in a child process of this same binary (built with
// -race), the race detector's log is parsed, and every report whose two
// accesses both have go-task frames is an implementation failure.
package race

import (
	"context"
	"encoding/json"
	"fmt"
	"os"
	"os/exec"
	"path/filepath"
	"sort"
	"strings"
	"sync"
	"time"

	"github.com/go-task/task/v3/verifharness/common"
	cg "github.com/go-task/task/v3/verifharness/coqgen"
)

type caseOutcome struct {
	Res      childResult
	Reports  []Report
	Other    int // reports without go-task frames on both sides
	ExecErr  string
	WallSecs float64
}

// execCase runs one case in a child process under the race detector.
func execCase(c *RaceCase, outdir string, i int) caseOutcome {
	var oc caseOutcome
	self, err := os.Executable()
	if err != nil {
		oc.ExecErr = err.Error()
		return oc
	}
	cf := filepath.Join(outdir, fmt.Sprintf("case-%d.json", i))
	b, _ := json.Marshal(c)
	if err := os.WriteFile(cf, b, 0o644); err != nil {
		oc.ExecErr = err.Error()
		return oc
	}
	defer os.Remove(cf)
	logBase := filepath.Join(outdir, fmt.Sprintf("racelog-%d", i))
	ctx, cancel := context.WithTimeout(context.Background(), 90*time.Second)
	defer cancel()
	cmd := exec.CommandContext(ctx, self, "-child", cf)
	cmd.Cancel = func() error { return cmd.Process.Kill() }
	env := []string{}
	for _, kv := range os.Environ() {
		if strings.HasPrefix(kv, "GORACE=") || strings.HasPrefix(kv, "GOMAXPROCS=") || strings.HasPrefix(kv, "FORCE_COLOR=") {
			continue
		}
		env = append(env, kv)
	}
	env = append(env, "GORACE=log_path="+logBase+" halt_on_error=0 exitcode=0 history_size=7")
	if c.Procs > 0 {
		env = append(env, fmt.Sprintf("GOMAXPROCS=%d", c.Procs))
	}
	cmd.Env = env
	t0 := time.Now()
	out, err := cmd.Output()
	oc.WallSecs = time.Since(t0).Seconds()
	lines := strings.Split(strings.TrimSpace(string(out)), "\n")
	if e2 := json.Unmarshal([]byte(lines[len(lines)-1]), &oc.Res); e2 != nil {
		oc.ExecErr = fmt.Sprintf("child: %v; output %q", err, tail(string(out), 400))
	}
	logs, _ := filepath.Glob(logBase + ".*")
	sort.Strings(logs)
	for _, lf := range logs {
		lb, _ := os.ReadFile(lf)
		for _, r := range ParseReports(string(lb)) {
			if r.TaskRace() {
				oc.Reports = append(oc.Reports, r)
			} else {
				oc.Other++
			}
		}
		_ = os.Remove(lf)
	}
	return oc
}

func tail(s string, n int) string {
	if len(s) > n {
		return s[len(s)-n:]
	}
	return s
}

func Main(args []string) {
	if len(args) >= 2 && args[0] == "-child" {
		runChild(args[1])
		return
	}
	if len(args) >= 2 && args[0] == "-case" { // debugging aid: run one case file, print the racing pairs
		b, err := os.ReadFile(args[1])
		if err != nil {
			panic(err)
		}
		var c RaceCase
		if err := json.Unmarshal(b, &c); err != nil {
			panic(err)
		}
		d, _ := os.MkdirTemp("", "vh-race-case")
		defer os.RemoveAll(d)
		oc := execCase(&c, d, 0)
		fmt.Printf("result=%+v other=%d execErr=%q wall=%.1fs\n", oc.Res, oc.Other, oc.ExecErr, oc.WallSecs)
		for _, r := range oc.Reports {
			fmt.Printf("PAIR %s  [%s %s / %s %s]\n", r.Pair(), r.Sides[0].Kind, r.Sides[0].TopPos, r.Sides[1].Kind, r.Sides[1].TopPos)
		}
		if len(args) > 2 {
			for _, r := range oc.Reports {
				fmt.Println(r.Text)
			}
		}
		return
	}
	if len(args) >= 3 && args[0] == "-gen" { // debugging aid: print the case generated for (program seed, variant)
		var seed int64
		var variant int
		fmt.Sscanf(args[1], "%d", &seed)
		fmt.Sscanf(args[2], "%d", &variant)
		b, _ := json.MarshalIndent(Generate(seed, variant, genOpts{matrixRef: true, pipeErr: true}), "", " ")
		fmt.Println(string(b))
		return
	}
	o := common.ParseOpts(args)
	mainRun(o)
}

func rwCoq(k string) string {
	if k == "R" {
		return "Rd"
	}
	return "Wr"
}

func mainRun(o *common.Opts) {
	obs := common.NewObs("race", o.Seed)
	var cases []*RaceCase
	replay := o.Replay != ""
	if replay {
		b, err := os.ReadFile(o.Replay)
		if err != nil {
			panic(err)
		}
		var rp struct {
			Input RaceCase `json:"input"`
		}
		if err := json.Unmarshal(b, &rp); err != nil {
			panic(err)
		}
		c := rp.Input
		cases = append(cases, &c)
	} else {
		cases = append(cases, Directed()...)
		if o.Tier == "thorough" {
			// the directed programs under every GOMAXPROCS / scheduling combination
			for _, procs := range []int{1, 2, 8} {
				for _, sc := range []string{"free", "jitter", "gate"} {
					for _, d := range Directed() {
						if sc == "gate" && strings.HasPrefix(d.Name, "pipe-") {
							continue // a stage blocked in a pipe read never looks quiescent to the gate scheduler
						}
						d.Procs, d.Sched, d.Seed = procs, sc, o.Seed
						d.Name = fmt.Sprintf("%s-p%d-%s", d.Name, procs, sc)
						cases = append(cases, d)
					}
				}
			}
		}
		r := o.Rand()
		gopts := genOpts{matrixRef: true, pipeErr: true}
		for len(cases) < o.N {
			ps := r.Int63()
			for v := 0; v < 3 && len(cases) < o.N; v++ {
				cases = append(cases, Generate(ps, v, gopts))
			}
		}
	}
	workers := 8
	if w, ok := o.Extra["workers"]; ok {
		fmt.Sscanf(w, "%d", &workers)
	}
	outs := make([]caseOutcome, len(cases))
	var wg sync.WaitGroup
	sem := make(chan struct{}, workers)
	for i := range cases {
		wg.Add(1)
		sem <- struct{}{}
		go func(i int) {
			defer wg.Done()
			defer func() { <-sem }()
			outs[i] = execCase(cases[i], o.Out, i)
		}(i)
	}
	wg.Wait()

	type obsRow struct {
		caseIdx int
		coq     string
	}
	var rows []obsRow
	seenProg := map[string]bool{}
	for i, c := range cases {
		oc := outs[i]
		obs.CaseInputs = append(obs.CaseInputs, c)
		obs.Count(fmt.Sprintf("gomaxprocs:%d", c.Procs))
		obs.Count("sched:" + c.Sched)
		for _, f := range c.Features {
			obs.Count("feature:" + f)
		}
		switch {
		case oc.ExecErr != "":
			obs.Count("outcome:harness-error")
			obs.ImplFails = append(obs.ImplFails, common.ImplFail{Case: i, Kind: "inconclusive", Msg: "child process: " + oc.ExecErr})
			continue
		case oc.Res.Timeout:
			obs.Count("outcome:timeout")
			obs.ImplFails = append(obs.ImplFails, common.ImplFail{Case: i, Kind: "inconclusive", Msg: "Run did not return within 40 s (" + c.Name + ")"})
		case oc.Res.SetupErr != "":
			obs.Count("outcome:setup-error")
			obs.Notes = append(obs.Notes, fmt.Sprintf("case %d setup error: %s", i, tail(oc.Res.SetupErr, 200)))
		case oc.Res.Err != "":
			obs.Count("outcome:run-error")
		default:
			obs.Count("outcome:ok")
		}
		if oc.Res.Deadlock {
			obs.Count("outcome:gate-deadlock")
		}
		obs.Counters["other_race_reports"] += int64(oc.Other)
		obs.Counters["wall_ms"] += int64(oc.WallSecs * 1000)
		obs.Counters["wall_ms:"+c.Sched] += int64(oc.WallSecs * 1000)
		if oc.WallSecs > 10 {
			obs.Notes = append(obs.Notes, fmt.Sprintf("slow case %d (%s, %s, gomaxprocs=%d): %.1fs", i, c.Name, c.Sched, c.Procs, oc.WallSecs))
		}
		if oc.Res.SetupErr == "" && !oc.Res.Timeout {
			key := fmt.Sprintf("%s|%d|%s|%v|%d", c.Files["Taskfile.yml"], c.Procs, c.Sched, c.Targets, c.Concurrency)
			if !seenProg[key] {
				seenProg[key] = true
				obs.Distinct++
			}
		}
		// one implementation failure per distinct racing pair of the case
		byPair := map[string]Report{}
		var order []string
		for _, r := range oc.Reports {
			p := r.Pair()
			if _, ok := byPair[p]; !ok {
				byPair[p] = r
				order = append(order, p)
			}
		}
		sort.Strings(order)
		for _, p := range order {
			r := byPair[p]
			obs.Count("race:" + p)
			obs.ImplFails = append(obs.ImplFails, common.ImplFail{Case: i, Kind: "race",
				Msg: fmt.Sprintf("pair=%s\n%s %s  /  %s %s\ncase %s gomaxprocs=%d sched=%s targets=%v\n%s",
					p, r.Sides[0].Kind, r.Sides[0].TopPos, r.Sides[1].Kind, r.Sides[1].TopPos, c.Name, c.Procs, c.Sched, c.Targets, r.Text)})
			rows = append(rows, obsRow{i, fmt.Sprintf("mkObs %s %s %s %s", cg.Str(short(r.Sides[0].Top)), rwCoq(r.Sides[0].Kind), cg.Str(short(r.Sides[1].Top)), rwCoq(r.Sides[1].Kind))})
		}
		if len(obs.Samples) < 3 && len(c.Features) > 6 {
			obs.Samples = append(obs.Samples, map[string]any{"name": c.Name, "features": c.Features, "targets": c.Targets, "gomaxprocs": c.Procs, "sched": c.Sched, "races": order, "taskfile": c.Files["Taskfile.yml"]})
		}
	}
	obs.Cases = len(cases)

	var sb strings.Builder
	sb.WriteString("From Coq Require Import List String Bool.\nImport ListNotations.\nFrom TV Require Import Race.Model Extracted.Facts Run.RaceCases.\n")
	var perCase []string
	var obsIdx []int
	for k := 0; k < len(rows); {
		j := k
		var items []string
		for j < len(rows) && rows[j].caseIdx == rows[k].caseIdx {
			items = append(items, rows[j].coq)
			j++
		}
		perCase = append(perCase, cg.List(items))
		obsIdx = append(obsIdx, rows[k].caseIdx)
		k = j
	}
	fmt.Fprintf(&sb, "Definition observed_cases : list (list race_obs) :=\n  %s.\n", strings.ReplaceAll(cg.List(perCase), "]; [", "];\n   ["))
	sb.WriteString("(* per run with reports: at least one reported pair is on a class the extracted table does not protect *)\n")
	sb.WriteString("Definition R_obs_in_table := Eval vm_compute in failures (case_agrees current_table) observed_cases.\nPrint R_obs_in_table.\n")
	if replay {
		sb.WriteString("Definition R_offender_seen : list nat := [].\nPrint R_offender_seen.\n")
	} else {
		sb.WriteString("(* a class the table does not protect must have been seen racing (directed cases) *)\n")
		sb.WriteString("Definition R_offender_seen := Eval vm_compute in failures (class_observed current_table (List.concat observed_cases)) (offenders current_table).\nPrint R_offender_seen.\n")
	}
	common.WriteFile(o.Out, "cases.v", sb.String())
	idx := map[string][]int{"R_obs_in_table": obsIdx, "R_offender_seen": make([]int, 64)}
	b, _ := json.Marshal(idx)
	common.WriteFile(o.Out, "index.json", string(b))
	obs.Write(o.Out)
}
