// Package vars is the correspondence driver for model E (C10 precedence, C11
// non-interference): it generates Taskfile trees that define names at chosen
// sites, runs the REAL go-task code on them (the CLI binary for C10, the
// in-process Executor for C11) and writes what was printed, together with the
// abstract case, as Coq terms for Run/VarsCases.v.
package vars

import (
	"fmt"
	"strings"

	cg "github.com/go-task/task/v3/verifharness/coqgen"
)

// Part of a template: literal text or {{.Var}}.
type Part struct {
	Lit string `json:"lit,omitempty"`
	Var string `json:"var,omitempty"`
}

// Expr mirrors Vars.Model.expr.
type Expr struct {
	K     string `json:"k"` // lit | tmpl | sh | ref
	S     string `json:"s,omitempty"`
	Parts []Part `json:"parts,omitempty"`
}

type Entry struct {
	Name string `json:"name"`
	E    Expr   `json:"e"`
	Dir  string `json:"dir,omitempty"` // model-side only (ast.Var.Dir)
	// List is set for list-valued variables (matrix sources); S then holds the items joined by spaces.
	List bool `json:"list,omitempty"`
}

type KV struct {
	K string `json:"k"`
	V string `json:"v"`
}

func lit(n, v string) Entry  { return Entry{Name: n, E: Expr{K: "lit", S: v}} }
func shv(n, t string) Entry  { return Entry{Name: n, E: Expr{K: "sh", S: t}} }

// shtv: sh: whose text is itself a template, pre + {{.v}}
func shtv(n, pre, v string) Entry {
	return Entry{Name: n, E: Expr{K: "sh", Parts: []Part{{Lit: pre}, {Var: v}}}}
}
func refv(n, m string) Entry { return Entry{Name: n, E: Expr{K: "ref", S: m}} }
func tmplv(n, pre, v, post string) Entry {
	return Entry{Name: n, E: Expr{K: "tmpl", Parts: []Part{{Lit: pre}, {Var: v}, {Lit: post}}}}
}

// ---- YAML rendering (hand-written: the order of keys is the order of evaluation) ----

func yq(s string) string {
	// JSON-style double-quoted scalar; the alphabet used never needs more than this
	return "\"" + strings.NewReplacer("\\", "\\\\", "\"", "\\\"").Replace(s) + "\""
}

func (e Expr) text() string {
	switch {
	case e.K == "tmpl" || (e.K == "sh" && len(e.Parts) > 0):
		var sb strings.Builder
		for _, p := range e.Parts {
			if p.Var != "" {
				sb.WriteString("{{." + p.Var + "}}")
			} else {
				sb.WriteString(p.Lit)
			}
		}
		return sb.String()
	default:
		return e.S
	}
}

func (en Entry) yamlValue() string {
	switch en.E.K {
	case "sh":
		return "{sh: " + yq(en.E.text()) + "}"
	case "ref":
		return "{ref: " + yq("."+en.E.S) + "}"
	default:
		if en.List {
			items := strings.Fields(en.E.S)
			q := make([]string, len(items))
			for i, it := range items {
				q[i] = yq(it)
			}
			return "[" + strings.Join(q, ", ") + "]"
		}
		return yq(en.E.text())
	}
}

// yamlMap renders entries as a flow mapping {A: .., B: ..}; "" when empty.
func yamlMap(es []Entry) string {
	if len(es) == 0 {
		return ""
	}
	parts := make([]string, len(es))
	for i, e := range es {
		parts[i] = e.Name + ": " + e.yamlValue()
	}
	return "{" + strings.Join(parts, ", ") + "}"
}

// ---- Coq rendering ----

func coqExpr(e Expr) string {
	switch e.K {
	case "lit":
		return "(Lit " + cg.Str(e.S) + ")"
	case "sh":
		if len(e.Parts) > 0 {
			return "(Sh " + coqParts(e.Parts) + ")"
		}
		return "(Sh [TLit " + cg.Str(e.S) + "])"
	case "ref":
		return "(Ref " + cg.Str(e.S) + ")"
	case "tmpl":
		ps := make([]string, 0, len(e.Parts))
		for _, p := range e.Parts {
			if p.Var != "" {
				ps = append(ps, "TVar "+cg.Str(p.Var))
			} else {
				ps = append(ps, "TLit "+cg.Str(p.Lit))
			}
		}
		return "(Tmpl " + cg.List(ps) + ")"
	}
	return "(Lit \"?\"%string)"
}

func coqEntry(e Entry) string {
	return fmt.Sprintf("{| e_name := %s; e_expr := %s; e_dir := %s |}", cg.Str(e.Name), coqExpr(e.E), cg.Str(e.Dir))
}

func coqEntries(es []Entry) string {
	items := make([]string, len(es))
	for i, e := range es {
		items[i] = coqEntry(e)
	}
	return cg.List(items)
}

func coqVars(kvs []KV) string {
	items := make([]string, len(kvs))
	for i, kv := range kvs {
		items[i] = cg.Pair(cg.Str(kv.K), cg.Str(kv.V))
	}
	return cg.List(items)
}

func coqVarsList(files [][]KV) string {
	items := make([]string, len(files))
	for i, f := range files {
		items[i] = coqVars(f)
	}
	return cg.List(items)
}

func coqDirTmpl(v string) string {
	if v == "" {
		return "None"
	}
	return "(Some [TVar " + cg.Str(v) + "])"
}

func coqOptStr(s string) string {
	if s == "" {
		return "None"
	}
	return "(Some " + cg.Str(s) + ")"
}

// Outputs mirrors Vars.Model.outputs.
type Outputs struct {
	Vars  []string `json:"vars"`
	Env   []string `json:"env"`
	Items []string `json:"items"`
	// Defers: what the task's deferred commands printed (values of the templates inside the defer: entries)
	Defers []string `json:"defers"`
}

func coqOutputs(o Outputs) string {
	return fmt.Sprintf("{| o_vars := %s; o_env := %s; o_items := %s; o_defers := %s |}", cg.StrList(o.Vars), cg.StrList(o.Env), cg.StrList(o.Items), cg.StrList(o.Defers))
}

// Row mirrors one element of Vars.Model.rows.
type Row struct {
	Key   string   `json:"key"`
	Items []string `json:"items"`
}

func coqRows(rs []Row) string {
	items := make([]string, len(rs))
	for i, r := range rs {
		items[i] = cg.Pair(cg.Str(r.Key), cg.StrList(r.Items))
	}
	return cg.List(items)
}

// Ctx mirrors Vars.Model.tctx.
type Ctx struct {
	Name    string   `json:"name"`
	Special []KV     `json:"special"`
	GEnv    []Entry  `json:"genv"`
	GVars   []Entry  `json:"gvars"`
	Call    []Entry  `json:"call"`
	TVars   []Entry  `json:"tvars"`
	RootDir string   `json:"root_dir"`
	TaskDir string   `json:"task_dir"`
	DirVar  string   `json:"dir_var,omitempty"` // the task's dir: is '{{.DirVar}}'
	TDot    [][]KV   `json:"tdot"`
	TEnv    []Entry  `json:"tenv"`
	Matrix  string   `json:"matrix"`
	VProbes []string `json:"vprobes"`
	EProbes []string `json:"eprobes"`
	Defers  [][]Part `json:"defers,omitempty"` // templates inside the task's defer: entries
}

func coqParts(ps []Part) string {
	items := make([]string, 0, len(ps))
	for _, p := range ps {
		if p.Var != "" {
			items = append(items, "TVar "+cg.Str(p.Var))
		} else {
			items = append(items, "TLit "+cg.Str(p.Lit))
		}
	}
	return cg.List(items)
}

func coqPartsList(pss [][]Part) string {
	items := make([]string, len(pss))
	for i, ps := range pss {
		items[i] = coqParts(ps)
	}
	return cg.List(items)
}

// coqCtxShared: like coqCtx, with the Taskfile-level env / vars given by name and every repeated
// sub-term (variable blocks, special variables, probe lists) defined once through the interner
func coqCtxShared(in *Interner, x Ctx, genvName, gvarsName string) string {
	ents := func(es []Entry) string {
		if len(es) == 0 {
			return "[]"
		}
		return in.Def("list entry", coqEntries(es))
	}
	strs := func(ss []string) string {
		if len(ss) == 0 {
			return "[]"
		}
		return in.Def("list string", cg.StrList(ss))
	}
	return fmt.Sprintf("{| x_name := %s; x_special := %s; x_genv := %s; x_gvars := %s; x_incvars := []; x_incfile := []; "+
		"x_call := %s; x_tvars := %s; x_root_dir := %s; x_task_dir := %s; x_dir_tmpl := %s; x_tdot := %s; x_tenv := %s; x_matrix := %s; "+
		"x_vprobes := %s; x_eprobes := %s; x_defers := %s |}",
		cg.Str(x.Name), in.Def("vars", coqVars(x.Special)), genvName, gvarsName, ents(x.Call), ents(x.TVars),
		in.Def("string", cg.Str(x.RootDir)), in.Def("string", cg.Str(x.TaskDir)), coqDirTmpl(x.DirVar), coqVarsList(x.TDot), ents(x.TEnv), coqOptStr(x.Matrix),
		strs(x.VProbes), strs(x.EProbes), coqPartsList(x.Defers))
}

// coqRowsShared: every row is defined once (most rows are the same in every case and before/after)
func coqRowsShared(in *Interner, rs []Row) string {
	items := make([]string, len(rs))
	for i, r := range rs {
		items[i] = in.Def("(string * list string)%type", cg.Pair(cg.Str(r.Key), cg.StrList(r.Items)))
	}
	return in.Def("rows", cg.List(items))
}

func coqCtx(x Ctx) string {
	return fmt.Sprintf("{| x_name := %s; x_special := %s; x_genv := %s; x_gvars := %s; x_incvars := []; x_incfile := []; "+
		"x_call := %s; x_tvars := %s; x_root_dir := %s; x_task_dir := %s; x_dir_tmpl := %s; x_tdot := %s; x_tenv := %s; x_matrix := %s; "+
		"x_vprobes := %s; x_eprobes := %s; x_defers := %s |}",
		cg.Str(x.Name), coqVars(x.Special), coqEntries(x.GEnv), coqEntries(x.GVars), coqEntries(x.Call), coqEntries(x.TVars),
		cg.Str(x.RootDir), cg.Str(x.TaskDir), coqDirTmpl(x.DirVar), coqVarsList(x.TDot), coqEntries(x.TEnv), coqOptStr(x.Matrix),
		cg.StrList(x.VProbes), cg.StrList(x.EProbes), coqPartsList(x.Defers))
}
