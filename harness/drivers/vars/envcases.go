package vars

import (
	"fmt"
	"math/rand"
	"os"
	"path/filepath"
	"strings"

	cg "github.com/go-task/task/v3/verifharness/coqgen"
)

// Env definition sites (bit positions of EnvCase.Mask).
const (
	ESiteOS = iota
	ESiteGEnv
	ESiteGDot1
	ESiteGDot2
	ESiteTDot1
	ESiteTDot2
	ESiteTEnv
	NESites
)

var esiteNames = []string{"os", "genv", "gdot1", "gdot2", "tdot1", "tdot2", "tenv"}

// EnvCase: environment names defined at subsets of the env sites of a root-file task.
type EnvCase struct {
	Kind     string   `json:"kind"` // "e"
	Seed     int64    `json:"seed"`
	Mask     int      `json:"mask"`
	Mask2    int      `json:"mask2"`
	SiteList []string `json:"sites"`
	Exp      bool     `json:"exp"`
	OS       []KV     `json:"os"`
	GEnv     []KV     `json:"genv"`
	GDot     [][]KV   `json:"gdot"`
	TDot     [][]KV   `json:"tdot"`
	TEnv     []KV     `json:"tenv"`
	// names of GEnv / TEnv written as {sh: echo VALUE} instead of VALUE
	GEnvSh   []string `json:"genv_sh,omitempty"`
	TEnvSh   []string `json:"tenv_sh,omitempty"`
	Probes   []string `json:"probes"`
	ObsEnv   []string `json:"obs_env"`
	ObsTmpl  []string `json:"obs_tmpl"`
	ExitCode int      `json:"exit_code"`
	Stderr   string   `json:"stderr,omitempty"`
}

// GenEnvCase: name EN at the sites of mask; a second name EM at the sites of mask2.
func GenEnvCase(mask, mask2 int, exp bool) *EnvCase {
	c := &EnvCase{Kind: "e", Mask: mask, Mask2: mask2, Exp: exp}
	c.GDot = make([][]KV, 2)
	c.TDot = make([][]KV, 2)
	c.Probes = []string{"EN"}
	if mask2 != 0 {
		c.Probes = append(c.Probes, "EM")
	}
	add := func(name string, mk int, tag string) {
		for s := 0; s < NESites; s++ {
			if mk&(1<<s) == 0 {
				continue
			}
			kv := KV{name, tag + esiteNames[s]}
			switch s {
			case ESiteOS:
				c.OS = append(c.OS, kv)
			case ESiteGEnv:
				c.GEnv = append(c.GEnv, kv)
			case ESiteGDot1:
				c.GDot[0] = append(c.GDot[0], kv)
			case ESiteGDot2:
				c.GDot[1] = append(c.GDot[1], kv)
			case ESiteTDot1:
				c.TDot[0] = append(c.TDot[0], kv)
			case ESiteTDot2:
				c.TDot[1] = append(c.TDot[1], kv)
			case ESiteTEnv:
				c.TEnv = append(c.TEnv, kv)
			}
		}
	}
	add("EN", mask, "n")
	add("EM", mask2, "m")
	for s := 0; s < NESites; s++ {
		if mask&(1<<s) != 0 {
			c.SiteList = append(c.SiteList, esiteNames[s])
		}
	}
	return c
}

// WithSh marks entries of the env: blocks as sh: valued: all of them, or each with probability 1/2.
func (c *EnvCase) WithSh(r *rand.Rand) *EnvCase {
	for _, kv := range c.GEnv {
		if r == nil || r.Intn(2) == 0 {
			c.GEnvSh = append(c.GEnvSh, kv.K)
		}
	}
	for _, kv := range c.TEnv {
		if r == nil || r.Intn(2) == 0 {
			c.TEnvSh = append(c.TEnvSh, kv.K)
		}
	}
	return c
}

func GenRandomEnvCase(r *rand.Rand) *EnvCase {
	c := GenEnvCase(r.Intn(1<<NESites), r.Intn(1<<NESites), r.Intn(2) == 0)
	if r.Intn(2) == 0 {
		c.WithSh(r)
	}
	return c
}

func kvMap(kvs []KV, shs []string) string {
	es := make([]Entry, len(kvs))
	for i, kv := range kvs {
		es[i] = lit(kv.K, kv.V)
		for _, n := range shs {
			if n == kv.K {
				es[i] = shv(kv.K, "echo "+kv.V)
			}
		}
	}
	return yamlMap(es)
}

func (c *EnvCase) Run() error {
	root, err := os.MkdirTemp("", "vh-env")
	if err != nil {
		return err
	}
	defer os.RemoveAll(root)
	var sb strings.Builder
	sb.WriteString("version: '3'\n")
	if m := kvMap(c.GEnv, c.GEnvSh); m != "" {
		sb.WriteString("env: " + m + "\n")
	}
	// a dotenv file that defines nothing is still listed (and exists, empty) for half of the masks; a missing file is skipped by Task
	sb.WriteString("dotenv: ['g1.env', 'g2.env']\n")
	sb.WriteString("tasks:\n  show:\n    dotenv: ['t1.env', 't2.env']\n")
	if m := kvMap(c.TEnv, c.TEnvSh); m != "" {
		sb.WriteString("    env: " + m + "\n")
	}
	var cmds []string
	for _, p := range c.Probes {
		cmds = append(cmds, yq(fmt.Sprintf("echo \"E|%s|$%s|\"", p, p)))
		cmds = append(cmds, yq(fmt.Sprintf("echo \"T|%s|{{.%s}}|\"", p, p)))
	}
	sb.WriteString("    cmds: [" + strings.Join(cmds, ", ") + "]\n")
	if err := os.WriteFile(filepath.Join(root, "Taskfile.yml"), []byte(sb.String()), 0o644); err != nil {
		return err
	}
	writeDot := func(name string, kvs []KV) error {
		if len(kvs) == 0 {
			return nil // file absent
		}
		var b strings.Builder
		for _, kv := range kvs {
			b.WriteString(kv.K + "=" + kv.V + "\n")
		}
		return os.WriteFile(filepath.Join(root, name), []byte(b.String()), 0o644)
	}
	for i, n := range []string{"g1.env", "g2.env"} {
		if err := writeDot(n, c.GDot[i]); err != nil {
			return err
		}
	}
	for i, n := range []string{"t1.env", "t2.env"} {
		if err := writeDot(n, c.TDot[i]); err != nil {
			return err
		}
	}
	so, se, code, err := runCLI(root, c.OS, c.Exp, "-s", "show")
	if err != nil {
		return err
	}
	c.ExitCode = code
	pe := parseProbes(so, "E", root)
	pt := parseProbes(so, "T", root)
	c.ObsEnv, c.ObsTmpl = nil, nil
	for _, p := range c.Probes {
		if len(pe[p]) == 1 && len(pt[p]) == 1 && code == 0 {
			c.ObsEnv = append(c.ObsEnv, pe[p][0])
			c.ObsTmpl = append(c.ObsTmpl, pt[p][0])
		} else {
			c.ObsEnv = append(c.ObsEnv, fmt.Sprintf("!exit%d", code))
			c.ObsTmpl = append(c.ObsTmpl, fmt.Sprintf("!exit%d", code))
			c.Stderr = canon(se, root)
		}
	}
	return nil
}

func (c *EnvCase) Coq() string {
	ec := fmt.Sprintf("{| n_os := %s; n_exp := %s; n_genv := %s; n_gdot := %s; n_tdot := %s; n_tenv := %s; n_genv_sh := %s; n_tenv_sh := %s; n_probes := %s |}",
		coqVars(c.OS), cg.Bool(c.Exp), coqVars(c.GEnv), coqVarsList(c.GDot), coqVarsList(c.TDot), coqVars(c.TEnv),
		cg.StrList(c.GEnvSh), cg.StrList(c.TEnvSh), cg.StrList(c.Probes))
	return fmt.Sprintf("{| er_case := %s; er_env := %s; er_tmpl := %s |}", ec, cg.StrList(c.ObsEnv), cg.StrList(c.ObsTmpl))
}
