package vars

import (
	"context"
	"fmt"
	"math/rand"
	"os"
	"os/exec"
	"path/filepath"
	"strings"
	"time"

	cg "github.com/go-task/task/v3/verifharness/coqgen"
)

// The definition sites of C10 (bit positions of VarCase.Mask).
const (
	SiteOS = iota
	SiteRoot
	SiteCLI
	SiteStmt
	SiteFile
	SiteCall
	SiteTask
	SiteSpecial // the probed name IS a special variable (TASK / ALIAS)
	NSites
)

var siteNames = []string{"os", "root", "cli", "stmt", "file", "call", "task", "special"}

// Level of the include chain: vars of the include statement, vars of the included file.
type Level struct {
	Stmt []Entry `json:"stmt"`
	File []Entry `json:"file"`
}

// VarCase: one name defined at a subset of the sites, for a task at a given include depth.
type VarCase struct {
	Kind     string   `json:"kind"` // "v"
	Seed     int64    `json:"seed"`
	Mode     string   `json:"mode"`   // literal | kinds
	Depth    int      `json:"depth"`  // 0 root file, 1 included, 2 doubly included
	Levels   int      `json:"levels"` // include levels that exist (>= depth)
	Mask     int      `json:"mask"`
	SiteList []string `json:"sites"`
	N        string   `json:"n"`
	// Names: the probed names that are defined at the sites of Mask (N alone, or - literal mode with
	// the special site - every special variable name at once)
	Names    []string `json:"names,omitempty"`
	OS       []KV     `json:"os"`
	Exp      bool     `json:"exp"`
	Root     []Entry  `json:"root"`
	CLI      []Entry  `json:"cli"`
	Chain    []Level  `json:"chain"`
	ViaCall  bool     `json:"via_call"`
	Call     []Entry  `json:"call"`
	Task     []Entry  `json:"task"`
	Probes   []string `json:"probes"`
	Observed []string `json:"observed"`
	ExitCode int      `json:"exit_code"`
	Stderr   string   `json:"stderr,omitempty"`
}

// the special variables whose value the model knows (TASK_EXE / TASK_VERSION depend on the binary)
var specialNames = []string{"TASK", "ALIAS", "TASK_DIR", "ROOT_DIR", "ROOT_TASKFILE", "TASKFILE", "TASKFILE_DIR", "USER_WORKING_DIR"}

// specialValues: what getSpecialVars gives a task named name in the file at include depth depth
// (ROOT_TASKFILE is SmartJoin(c.Dir, c.Entrypoint): with no -t flag the entrypoint is empty and the value is the root DIRECTORY)
func specialValues(name string, depth int) []KV {
	return []KV{{"TASK", name}, {"ALIAS", name}, {"TASK_DIR", dirOf(depth)}, {"ROOT_DIR", "ROOT"},
		{"ROOT_TASKFILE", "ROOT"}, {"TASKFILE", dirOf(depth) + "/Taskfile.yml"},
		{"TASKFILE_DIR", dirOf(depth)}, {"USER_WORKING_DIR", "ROOT"}}
}

func nsOf(depth int) string {
	switch depth {
	case 1:
		return "i1:"
	case 2:
		return "i1:i2:"
	}
	return ""
}

func dirOf(depth int) string {
	switch depth {
	case 1:
		return "ROOT/i1"
	case 2:
		return "ROOT/i1/i2"
	}
	return "ROOT"
}

// value of name n at site s, of a random kind allowed at that site
func genEntry(r *rand.Rand, mode, site, n, other string) Entry {
	if mode == "literal" {
		return lit(n, "v"+site)
	}
	kinds := []string{"lit", "tmplself", "tmplother", "shlit", "shenv", "shtmpl", "refself", "refother"}
	switch site {
	case "os":
		kinds = []string{"lit"}
	case "cli":
		kinds = []string{"lit", "tmplself", "tmplother"}
	}
	switch kinds[r.Intn(len(kinds))] {
	case "tmplself":
		return tmplv(n, site+"<", n, ">")
	case "tmplother":
		return tmplv(n, site+"<", other, ">")
	case "shlit":
		return shv(n, "echo "+site+"sh"+n)
	case "shenv":
		return shv(n, "echo "+site+n+"$"+other)
	case "shtmpl":
		return shtv(n, "echo "+site+"t"+n, other)
	case "refself":
		return refv(n, n)
	case "refother":
		return refv(n, other)
	}
	return lit(n, "v"+site)
}

// GenVarCase: depth/levels/mask given (exhaustive part) or drawn from r.
func GenVarCase(r *rand.Rand, mode string, depth, mask int) *VarCase {
	c := &VarCase{Kind: "v", Mode: mode, Depth: depth, Mask: mask}
	c.Levels = depth + r.Intn(3-depth)
	if depth == 0 && (mask&(1<<SiteStmt) != 0 || mask&(1<<SiteFile) != 0) && c.Levels == 0 {
		c.Levels = 1 // the "other file" has to exist for its sites to be defined
	}
	c.N = "VN"
	c.Names = []string{"VN"}
	if mask&(1<<SiteSpecial) != 0 {
		// the probed name IS the name of a special variable: all of them at once when the values are
		// literals (one run then covers this site subset for every special name), one of them otherwise
		if mode == "literal" {
			c.N = "TASK_DIR"
			c.Names = append([]string{}, specialNames...)
		} else {
			c.N = specialNames[r.Intn(len(specialNames))]
			c.Names = []string{c.N}
		}
	}
	m := "VM"
	c.Probes = append([]string{}, c.Names...)
	if mode != "literal" {
		c.Probes = append(c.Probes, m)
		c.Exp = r.Intn(4) == 0
	}
	c.Chain = make([]Level, c.Levels)
	// which instance of the include-statement / included-file site carries the definition
	inst := func() int {
		if c.Levels == 0 {
			return -1
		}
		if depth == 0 {
			return r.Intn(c.Levels)
		}
		return r.Intn(depth) // a level on the task's own chain
	}
	// the helper name M is defined (literals) at a random subset of the sites in "kinds" mode
	mmask := 0
	if mode != "literal" {
		mmask = r.Intn(1 << SiteSpecial)
	}
	stmtAt, fileAt := inst(), inst()
	mStmtAt, mFileAt := inst(), inst()
	def := func(site int, name, other string, isHelper bool) (Entry, bool) {
		mk := mask
		if isHelper {
			mk = mmask
		}
		if mk&(1<<site) == 0 {
			return Entry{}, false
		}
		if isHelper {
			return lit(name, "m"+siteNames[site]), true
		}
		return genEntry(r, mode, siteNames[site], name, other), true
	}
	type defName struct {
		name   string
		helper bool
	}
	defNames := []defName{{m, true}} // helper first, so N's templates can see M of the same layer
	for _, n := range c.Names {
		defNames = append(defNames, defName{n, false})
	}
	for _, dn := range defNames {
		h := dn.helper
		name, other := dn.name, m
		sAt, fAt := stmtAt, fileAt
		if h {
			name, other = m, c.N
			sAt, fAt = mStmtAt, mFileAt
		}
		if e, ok := def(SiteOS, name, other, h); ok {
			c.OS = append(c.OS, KV{name, e.E.S})
		}
		if e, ok := def(SiteRoot, name, other, h); ok {
			c.Root = append(c.Root, e)
		}
		if e, ok := def(SiteCLI, name, other, h); ok {
			c.CLI = append(c.CLI, e)
		}
		if e, ok := def(SiteStmt, name, other, h); ok && sAt >= 0 {
			c.Chain[sAt].Stmt = append(c.Chain[sAt].Stmt, e)
		}
		if e, ok := def(SiteFile, name, other, h); ok && fAt >= 0 {
			c.Chain[fAt].File = append(c.Chain[fAt].File, e)
		}
		if e, ok := def(SiteCall, name, other, h); ok {
			c.Call = append(c.Call, e)
			c.ViaCall = true
		}
		if e, ok := def(SiteTask, name, other, h); ok {
			c.Task = append(c.Task, e)
		}
	}
	if !c.ViaCall && mode != "literal" && r.Intn(4) == 0 {
		c.ViaCall = true
	}
	for s := 0; s < NSites; s++ {
		if mask&(1<<s) != 0 {
			c.SiteList = append(c.SiteList, siteNames[s])
		}
	}
	return c
}

func probeCmds(tag string, probes []string) string {
	var cmds []string
	for _, p := range probes {
		cmds = append(cmds, yq(fmt.Sprintf("echo \"%s|%s|{{.%s}}|\"", tag, p, p)))
	}
	return "[" + strings.Join(cmds, ", ") + "]"
}

// writeTree renders the Taskfile tree of a VarCase under root.
func (c *VarCase) writeTree(root string) error {
	for lvl := 0; lvl <= c.Levels; lvl++ {
		dir := root
		if lvl >= 1 {
			dir = filepath.Join(dir, "i1")
		}
		if lvl >= 2 {
			dir = filepath.Join(dir, "i2")
		}
		if err := os.MkdirAll(dir, 0o755); err != nil {
			return err
		}
		var sb strings.Builder
		sb.WriteString("version: '3'\n")
		var fileVars []Entry
		if lvl == 0 {
			fileVars = c.Root
		} else {
			fileVars = c.Chain[lvl-1].File
		}
		if m := yamlMap(fileVars); m != "" {
			sb.WriteString("vars: " + m + "\n")
		}
		if lvl < c.Levels {
			sub := fmt.Sprintf("i%d", lvl+1)
			sb.WriteString("includes:\n  " + sub + ":\n    taskfile: ./" + sub + "\n    dir: ./" + sub + "\n")
			if m := yamlMap(c.Chain[lvl].Stmt); m != "" {
				sb.WriteString("    vars: " + m + "\n")
			}
		}
		sb.WriteString("tasks:\n")
		sb.WriteString("  show:\n")
		if lvl == c.Depth {
			if m := yamlMap(c.Task); m != "" {
				sb.WriteString("    vars: " + m + "\n")
			}
		}
		sb.WriteString("    cmds: " + probeCmds("P", c.Probes) + "\n")
		sb.WriteString("  caller:\n    cmds:\n      - task: show\n")
		if lvl == c.Depth {
			if m := yamlMap(c.Call); m != "" {
				sb.WriteString("        vars: " + m + "\n")
			}
		}
		if err := os.WriteFile(filepath.Join(dir, "Taskfile.yml"), []byte(sb.String()), 0o644); err != nil {
			return err
		}
	}
	return nil
}

// runCLI runs the real task binary under a SIGKILL deadline with a clean environment.
func runCLI(root string, env []KV, exp bool, args ...string) (stdout, stderr string, code int, err error) {
	bin := os.Getenv("VERIF_TASK_BIN")
	if bin == "" {
		bin = "/verif/.build/task"
	}
	ctx, cancel := context.WithTimeout(context.Background(), 60*time.Second)
	defer cancel()
	cmd := exec.CommandContext(ctx, bin, args...)
	cmd.Cancel = func() error { return cmd.Process.Kill() }
	cmd.Dir = root
	cmd.Env = []string{"PATH=/usr/local/bin:/usr/bin:/bin", "HOME=" + root, "TASK_TEMP_DIR=" + filepath.Join(root, ".task")}
	for _, kv := range env {
		cmd.Env = append(cmd.Env, kv.K+"="+kv.V)
	}
	if exp {
		cmd.Env = append(cmd.Env, "TASK_X_ENV_PRECEDENCE=1")
	}
	var so, se strings.Builder
	cmd.Stdout, cmd.Stderr = &so, &se
	runErr := cmd.Run()
	if ctx.Err() != nil {
		return so.String(), se.String(), -1, fmt.Errorf("deadline")
	}
	code = 0
	if runErr != nil {
		if ee, ok := runErr.(*exec.ExitError); ok {
			code = ee.ExitCode()
		} else {
			return so.String(), se.String(), -1, runErr
		}
	}
	return so.String(), se.String(), code, nil
}

// parseProbes extracts "TAG|name|value|" lines.
func parseProbes(out, tag, root string) map[string][]string {
	res := map[string][]string{}
	for _, ln := range strings.Split(out, "\n") {
		f := strings.Split(ln, "|")
		if len(f) < 4 || f[0] != tag {
			continue
		}
		res[f[1]] = append(res[f[1]], canon(f[2], root))
	}
	return res
}

func canon(v, root string) string {
	if root == "" {
		return v
	}
	if r2, err := filepath.EvalSymlinks(root); err == nil && r2 != root {
		v = strings.ReplaceAll(v, r2, "ROOT")
	}
	return strings.ReplaceAll(v, root, "ROOT")
}

func (c *VarCase) Run() error {
	root, err := os.MkdirTemp("", "vh-vars")
	if err != nil {
		return err
	}
	defer os.RemoveAll(root)
	if err := c.writeTree(root); err != nil {
		return err
	}
	target := nsOf(c.Depth) + "show"
	if c.ViaCall {
		target = nsOf(c.Depth) + "caller"
	}
	args := []string{"-s", target}
	for _, e := range c.CLI {
		args = append(args, e.Name+"="+e.E.text())
	}
	so, se, code, err := runCLI(root, c.OS, c.Exp, args...)
	if err != nil {
		return err
	}
	c.ExitCode = code
	c.Observed = nil
	pr := parseProbes(so, "P", root)
	for _, p := range c.Probes {
		if len(pr[p]) == 1 && code == 0 {
			c.Observed = append(c.Observed, pr[p][0])
		} else {
			c.Observed = append(c.Observed, fmt.Sprintf("!exit%d", code))
			c.Stderr = canon(se, root)
		}
	}
	return nil
}

// Coq renders the case as a Run.VarsCases.vrun.
func (c *VarCase) Coq() string {
	task := nsOf(c.Depth) + "show"
	caller := nsOf(c.Depth) + "caller"
	special := specialValues(task, c.Depth)
	specialCaller := specialValues(caller, c.Depth)
	var levels []string
	for i, l := range c.Chain {
		levels = append(levels, fmt.Sprintf("{| lv_stmt := %s; lv_file := %s; lv_dir := %s |}", coqEntries(l.Stmt), coqEntries(l.File), cg.Str(dirOf(i+1))))
	}
	vc := fmt.Sprintf("{| c_os := %s; c_exp := %s; c_name := %s; c_special := %s; c_special_caller := %s; c_genv := []; "+
		"c_root := %s; c_cli := %s; c_chain := %s; c_depth := %d; c_via_call := %s; c_call := %s; c_task := %s; "+
		"c_root_dir := \"ROOT\"%%string; c_task_dir := %s; c_caller_dir := %s; c_probes := %s |}",
		coqVars(c.OS), cg.Bool(c.Exp), cg.Str(task), coqVars(special), coqVars(specialCaller),
		coqEntries(c.Root), coqEntries(c.CLI), cg.List(levels), c.Depth, cg.Bool(c.ViaCall),
		coqEntries(c.Call), coqEntries(c.Task), cg.Str(dirOf(c.Depth)), cg.Str(dirOf(c.Depth)), cg.StrList(c.Probes))
	return fmt.Sprintf("{| vr_case := %s; vr_obs := %s |}", vc, cg.StrList(c.Observed))
}
