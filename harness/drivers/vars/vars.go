package vars

import (
	"encoding/json"
	"fmt"
	"math/rand"
	"os"
	"strings"
	"sync"

	"github.com/go-task/task/v3/verifharness/common"
	cg "github.com/go-task/task/v3/verifharness/coqgen"
)

type runnable interface {
	Run() error
	Coq() string
}

// shard layout of C10 (vcheck gives every shard the seed base*1000+index and at most 256 cases):
//   shard 0,1,2 : every subset of the 8 variable sites, literal values, task at include depth = shard
//   shard 3     : every subset of the 7 env sites, with and without TASK_X_ENV_PRECEDENCE, literal values
//   shard 4     : the same with the entries of the env: blocks written as sh: commands
//   shard >= 5  : random subsets with the other value kinds (template / sh / ref), random env cases;
//                 shard 5 starts with the directed cases
func genC10(o *common.Opts) []runnable {
	shard := int(o.Seed % 1000)
	r := o.Rand()
	var cs []runnable
	switch {
	case shard <= 2:
		for m := 0; m < 256 && len(cs) < o.N; m++ {
			c := GenVarCase(rand.New(rand.NewSource(r.Int63())), "literal", shard, m)
			cs = append(cs, c)
		}
	case shard == 3:
		for i := 0; i < 256 && len(cs) < o.N; i++ {
			cs = append(cs, GenEnvCase(i%128, 0, i >= 128))
		}
	case shard == 4:
		for i := 0; i < 256 && len(cs) < o.N; i++ {
			cs = append(cs, GenEnvCase(i%128, 0, i >= 128).WithSh(nil))
		}
	default:
		if shard == 5 {
			cs = append(cs, directedC10()...) // the reproducers of the reading pass, so that each recorded defect is exercised in every run
		}
		for i := len(cs); i < o.N; i++ {
			cr := rand.New(rand.NewSource(r.Int63()))
			if i%4 == 3 {
				cs = append(cs, GenRandomEnvCase(cr))
			} else {
				cs = append(cs, GenVarCase(cr, "kinds", cr.Intn(3), cr.Intn(256)))
			}
		}
	}
	return cs
}

// directedC10: DESIGN.md Appendix A 7.15 (both faces) and the three related shapes.
func directedC10() []runnable {
	mk := func(depth, levels int, sites []string, f func(c *VarCase)) *VarCase {
		c := &VarCase{Kind: "v", Mode: "directed", Depth: depth, Levels: levels, N: "VN", Names: []string{"VN"}, Probes: []string{"VN", "VM"}, SiteList: sites}
		c.Chain = make([]Level, levels)
		f(c)
		return c
	}
	return []runnable{
		mk(1, 1, []string{"root", "stmt"}, func(c *VarCase) {
			c.Root = []Entry{lit("VN", "global")}
			c.Chain[0].Stmt = []Entry{lit("VN", "inc")}
		}),
		mk(1, 1, []string{"root", "cli"}, func(c *VarCase) {
			c.Root = []Entry{lit("VN", "global")}
			c.CLI = []Entry{lit("VN", "cli")}
		}),
		mk(0, 1, []string{"root", "file"}, func(c *VarCase) {
			c.Root = []Entry{lit("VN", "global")}
			c.Chain[0].File = []Entry{lit("VN", "child")}
		}),
		mk(1, 1, []string{"cli", "stmt"}, func(c *VarCase) {
			c.CLI = []Entry{lit("VM", "cli")}
			c.Chain[0].Stmt = []Entry{tmplv("VN", "inc<", "VM", ">")}
		}),
		mk(1, 1, []string{"stmt", "file"}, func(c *VarCase) {
			c.Chain[0].Stmt = []Entry{lit("VM", "mstmt")}
			c.Chain[0].File = []Entry{shv("VN", "echo f$VM")}
		}),
		// a template / ref / sh: text in an include statement's vars that names a variable defined both
		// by the including file and in the OS environment (global vars > OS environment), one and two levels deep
		mk(1, 1, []string{"os", "root", "stmt"}, func(c *VarCase) {
			c.OS = []KV{{"VM", "mos"}}
			c.Root = []Entry{lit("VM", "mroot")}
			c.Chain[0].Stmt = []Entry{tmplv("VN", "seen<", "VM", ">")}
		}),
		mk(1, 1, []string{"os", "root", "stmt"}, func(c *VarCase) {
			c.OS = []KV{{"VM", "mos"}}
			c.Root = []Entry{lit("VM", "mroot")}
			c.Chain[0].Stmt = []Entry{refv("VN", "VM")}
		}),
		mk(1, 1, []string{"os", "root", "stmt"}, func(c *VarCase) {
			c.OS = []KV{{"VM", "mos"}}
			c.Root = []Entry{lit("VM", "mroot")}
			c.Chain[0].Stmt = []Entry{shtv("VN", "echo seen", "VM")}
		}),
		mk(2, 2, []string{"os", "file", "stmt"}, func(c *VarCase) {
			c.OS = []KV{{"VM", "mos"}}
			c.Chain[0].File = []Entry{lit("VM", "mfile")}
			c.Chain[1].Stmt = []Entry{tmplv("VN", "seen<", "VM", ">")}
		}),
	}
}

// directedC11: Appendix A 7.16 (dir), its environment twin, and a matrix caller after another one.
func directedC11() []runnable {
	lists := []Entry{{Name: "LA", E: Expr{K: "lit", S: niLists["LA"]}, List: true}, {Name: "LB", E: Expr{K: "lit", S: niLists["LB"]}, List: true}, {Name: "LC", E: Expr{K: "lit", S: niLists["LC"]}, List: true}}
	return []runnable{
		&NICase{Kind: "n", GVars: lists, Tasks: []NITask{
			{Name: "t0", Dir: "d1", Vars: []Entry{shv("P", "pwd")}},
			{Name: "t1", Dir: "d2", Vars: []Entry{shv("P", "pwd")}}}, Order: []int{0, 1}, Target: 1},
		// the same sh: ENV entry in two tasks that differ only in their dir: (the environment of an env
		// entry's command has no TASK= in it, so only the directory tells the two executions apart):
		// by two Run calls, through cmds:, and concurrently through deps:
		envDirCase(lists, ""), envDirCase(lists, "cmds"), envDirCase(lists, "deps"),
		&NICase{Kind: "n", GVars: lists, Tasks: []NITask{
			{Name: "t0", Vars: []Entry{shv("S", "echo s$TASK")}},
			{Name: "t1", Vars: []Entry{shv("S", "echo s$TASK")}}}, Order: []int{0, 1}, Target: 1},
		&NICase{Kind: "n", GVars: append(append([]Entry{}, lists...), lit("GD1", "d1"), lit("GD2", "d2")), Tasks: []NITask{
			{Name: "t0", Vars: []Entry{shv("W", "echo w")}},
			{Name: "t1", Dir: "d1", DirVar: true, Vars: []Entry{shv("P", "pwd")}}}, Order: []int{0, 1}, Target: 1},
		&NICase{Kind: "n", GVars: lists, GEnv: []Entry{callVarGlobalEnv()}, Tasks: []NITask{
			{Name: "t0", Caller: true, Leaf: true, Tag: "A", Val: "one"},
			{Name: "t1", Caller: true, Leaf: true, Tag: "B", Val: "two"}}, Order: []int{0, 1}, Target: 1},
		// task-level dotenv: the same relative file name in two task directories
		&NICase{Kind: "n", GVars: lists, Tasks: []NITask{
			{Name: "t0", Dir: "d1", Dotenv: true},
			{Name: "t1", Dir: "d2", Dotenv: true}}, Order: []int{0, 1}, Target: 1},
		&NICase{Kind: "n", GVars: lists, Combine: "deps", Tasks: []NITask{
			{Name: "t0", Dir: "d1", Dotenv: true},
			{Name: "t1", Dotenv: true},
			{Name: "t2", Dir: "d2", Dotenv: true}}, Order: []int{0, 1, 2}, Target: 2},
		// a task with templated defer: entries called twice with different vars: by two Run calls,
		// through cmds:, through a for: loop, and concurrently through deps:
		dfrCase(lists, ""), dfrCase(lists, "cmds"), dfrCase(lists, "for"), dfrCase(lists, "deps"),
		// Taskfile-level vars / env that refer to per-task special variables, two tasks in one invocation
		&NICase{Kind: "n", GVars: append(append([]Entry{}, lists...), perTaskGlobals()...), GEnv: perTaskGlobalEnv(), Tasks: []NITask{
			{Name: "t0", Vars: []Entry{lit("VR", "r0")}},
			{Name: "t1", Vars: []Entry{lit("VR", "r1")}}}, Order: []int{0, 1}, Target: 1},
		&NICase{Kind: "n", GVars: append(append([]Entry{}, lists...), perTaskGlobals()...), GEnv: perTaskGlobalEnv(), Combine: "deps", Tasks: []NITask{
			{Name: "t0", Vars: []Entry{lit("VR", "r0")}},
			{Name: "t1", Vars: []Entry{lit("VR", "r1")}},
			{Name: "t2", Caller: true, Leaf: true, Tag: "C", Val: "v1"}}, Order: []int{0, 2, 1}, Target: 1},
		&NICase{Kind: "n", GVars: lists, Tasks: []NITask{
			{Name: "t0", Caller: true, Tag: "A", List: "LA"},
			{Name: "t1", Caller: true, Tag: "B", List: "LB"}}, Order: []int{0, 1}, Target: 1},
	}
}

func envDirCase(lists []Entry, combine string) *NICase {
	return &NICase{Kind: "n", GVars: lists, Combine: combine, Tasks: []NITask{
		{Name: "t0", Dir: "d1", Env: []Entry{shv("E2", "pwd")}},
		{Name: "t1", Dir: "d2", Env: []Entry{shv("E2", "pwd")}}}, Order: []int{0, 1}, Target: 1}
}

func dfrCase(lists []Entry, combine string) *NICase {
	return &NICase{Kind: "n", GVars: lists, Combine: combine, Tasks: []NITask{
		{Name: "t0", Caller: true, Dfr: true, Tag: "A", Val: "one"},
		{Name: "t1", Caller: true, Dfr: true, Tag: "B", Val: "two"}}, Order: []int{0, 1}, Target: 1}
}

func genC11(o *common.Opts) []runnable {
	r := o.Rand()
	var cs []runnable
	if o.Seed%1000 == 0 {
		cs = append(cs, directedC11()...)
	}
	for i := len(cs); i < o.N; i++ {
		c := GenNICase(rand.New(rand.NewSource(r.Int63())))
		cs = append(cs, c)
	}
	return cs
}

func loadReplay(path string) (runnable, error) {
	b, err := os.ReadFile(path)
	if err != nil {
		return nil, err
	}
	var rp struct {
		Input json.RawMessage `json:"input"`
	}
	if err := json.Unmarshal(b, &rp); err != nil {
		return nil, err
	}
	var k struct {
		Kind string `json:"kind"`
	}
	if err := json.Unmarshal(rp.Input, &k); err != nil {
		return nil, err
	}
	switch k.Kind {
	case "v":
		c := &VarCase{}
		return c, json.Unmarshal(rp.Input, c)
	case "e":
		c := &EnvCase{}
		if err := json.Unmarshal(rp.Input, c); err != nil {
			return nil, err
		}
		for len(c.GDot) < 2 {
			c.GDot = append(c.GDot, nil)
		}
		for len(c.TDot) < 2 {
			c.TDot = append(c.TDot, nil)
		}
		return c, nil
	case "n":
		c := &NICase{}
		return c, json.Unmarshal(rp.Input, c)
	case "ms":
		c := &StressCase{}
		return c, json.Unmarshal(rp.Input, c)
	}
	return nil, fmt.Errorf("replay: unknown case kind %q", k.Kind)
}

func exprKinds(es []Entry, h map[string]int) {
	for _, e := range es {
		h["valuekind:"+e.E.K]++
	}
}

func Main(args []string) {
	o := common.ParseOpts(args)
	prop := o.Extra["prop"]
	if prop == "" {
		prop = "C10"
	}
	obs := common.NewObs("vars", o.Seed)
	// names the generated tasks use must not leak in from the harness's own environment
	for _, n := range []string{"VN", "VM", "VQ", "VR", "EN", "EM", "GE", "E1", "E2", "GT", "GS", "DTAG", "DV", "GRT", "TASK", "ALIAS", "TASK_DIR", "ROOT_DIR", "ROOT_TASKFILE", "TASKFILE", "TASKFILE_DIR", "USER_WORKING_DIR", "TASK_X_ENV_PRECEDENCE"} {
		_ = os.Unsetenv(n)
	}
	var cases []runnable
	if o.Replay != "" {
		c, err := loadReplay(o.Replay)
		if err != nil {
			panic(err)
		}
		cases = []runnable{c}
		switch c.(type) {
		case *NICase, *StressCase:
			prop = "C11"
		default:
			prop = "C10"
		}
	} else if prop == "C11" {
		cases = genC11(o)
		if o.Seed%1000 == 0 {
			// hammer the shared matrix rows with concurrent compilations (no Coq case; a mismatch is a visible cross-talk)
			iters := 300
			if o.Tier == "thorough" {
				iters = 5000
			}
			cases = append(cases, &StressCase{Kind: "ms", Goroutines: 8, Iters: iters})
		}
	} else {
		cases = genC10(o)
	}

	// run the implementation
	errs := make([]error, len(cases))
	workers := 8
	if prop == "C11" {
		workers = 10 // in-process Executors; the stress case runs alongside
	}
	var wg sync.WaitGroup
	ch := make(chan int)
	for w := 0; w < workers; w++ {
		wg.Add(1)
		go func() {
			defer wg.Done()
			for i := range ch {
				func() {
					defer func() {
						if p := recover(); p != nil {
							errs[i] = fmt.Errorf("panic: %v", p)
						}
					}()
					errs[i] = cases[i].Run()
					if errs[i] != nil && strings.Contains(errs[i].Error(), "deadline") {
						errs[i] = cases[i].Run() // once more, serially enough
					}
				}()
			}
		}()
	}
	for i := range cases {
		ch <- i
	}
	close(ch)
	wg.Wait()

	var vr, er, nr []string
	ndefs := NewInterner()
	var vIdx, eIdx, nIdx []int
	seen := map[string]bool{}
	for i, c := range cases {
		obs.CaseInputs = append(obs.CaseInputs, c)
		if errs[i] != nil {
			kind := "harness"
			if strings.Contains(errs[i].Error(), "deadline") {
				kind = "inconclusive"
			}
			if strings.HasPrefix(errs[i].Error(), "panic:") {
				kind = "panic"
			}
			obs.ImplFails = append(obs.ImplFails, common.ImplFail{Case: i, Kind: kind, Msg: errs[i].Error()})
			continue
		}
		nontrivial := false
		switch t := c.(type) {
		case *VarCase:
			vr = append(vr, t.Coq())
			vIdx = append(vIdx, i)
			obs.Count("kind:vars")
			obs.Count(fmt.Sprintf("depth:%d", t.Depth))
			obs.Count(fmt.Sprintf("levels:%d", t.Levels))
			obs.Count("mode:" + t.Mode)
			obs.Count(fmt.Sprintf("sites_defined:%d", len(t.SiteList)))
			if t.ViaCall {
				obs.Count("via_call")
			}
			if t.ExitCode != 0 {
				obs.Count(fmt.Sprintf("exit:%d", t.ExitCode))
			}
			exprKinds(t.Root, obs.Histogram)
			exprKinds(t.CLI, obs.Histogram)
			exprKinds(t.Call, obs.Histogram)
			exprKinds(t.Task, obs.Histogram)
			for _, l := range t.Chain {
				exprKinds(l.Stmt, obs.Histogram)
				exprKinds(l.File, obs.Histogram)
			}
			nontrivial = t.Mask != 0
		case *EnvCase:
			er = append(er, t.Coq())
			eIdx = append(eIdx, i)
			obs.Count("kind:env")
			obs.Count(fmt.Sprintf("env_sites_defined:%d", len(t.SiteList)))
			obs.Count(fmt.Sprintf("env_precedence:%v", t.Exp))
			obs.Count(fmt.Sprintf("env_sh_entries:%d", len(t.GEnvSh)+len(t.TEnvSh)))
			if t.ExitCode != 0 {
				obs.Count(fmt.Sprintf("exit:%d", t.ExitCode))
			}
			nontrivial = t.Mask != 0
		case *StressCase:
			obs.Counters["matrix_stress_compilations"] += int64(t.Total)
			obs.Counters["matrix_stress_crosstalk"] += int64(t.Mismatches)
			if t.Mismatches > 0 {
				obs.ImplFails = append(obs.ImplFails, common.ImplFail{Case: i, Kind: "matrix-crosstalk",
					Msg: fmt.Sprintf("%d of %d concurrent CompiledTask calls of a for: matrix: ref task saw the items of another call", t.Mismatches, t.Total)})
			}
			obs.Count("kind:matrix-stress")
			continue
		case *NICase:
			nr = append(nr, ndefs.Def("nrun", t.CoqWithDefs(ndefs)))
			nIdx = append(nIdx, i)
			obs.Count("kind:ni")
			obs.Count(fmt.Sprintf("tasks:%d", len(t.Tasks)))
			obs.Count(fmt.Sprintf("prefix:%d", len(t.Order)-1))
			obs.Count(fmt.Sprintf("parallel:%v", t.Parallel))
			obs.Count("combine:" + map[string]string{"": "separate-calls"}[t.Combine] + t.Combine)
			if len(t.pgVars())+len(t.pgEnv()) > 0 {
				obs.Count("per-task-globals")
			}
			if t.Tasks[t.Target].Caller && t.Tasks[t.Target].Dfr {
				obs.Count("target:templated-defer")
			} else if t.Tasks[t.Target].Caller && t.Tasks[t.Target].Leaf {
				obs.Count("target:called-with-vars")
			} else if t.Tasks[t.Target].Caller {
				obs.Count("target:matrix")
			} else {
				obs.Count("target:plain")
			}
			if t.Err != "" {
				obs.Count("run_error")
			}
			for _, tk := range t.Tasks {
				exprKinds(tk.Vars, obs.Histogram)
				exprKinds(tk.Env, obs.Histogram)
			}
			nontrivial = len(t.Alone.Vars)+len(t.Alone.Env)+len(t.Alone.Items)+len(t.Alone.Defers) > 0
		}
		key, _ := json.Marshal(c)
		if nontrivial && !seen[string(key)] {
			seen[string(key)] = true
			obs.Distinct++
		}
		if len(obs.Samples) < 4 && nontrivial && i%7 == 3 {
			obs.Samples = append(obs.Samples, c)
		}
	}
	obs.Cases = len(cases)

	var sb strings.Builder
	sb.WriteString("From Coq Require Import List String Bool.\nImport ListNotations.\nFrom TV Require Import Vars.Model Run.VarsCases.\nLocal Open Scope string_scope.\n")
	idx := map[string][]int{}
	emit := func(name, checker, list string, ix []int) {
		fmt.Fprintf(&sb, "Definition %s := Eval vm_compute in failures %s %s.\nPrint %s.\n", name, checker, list, name)
		idx[name] = ix
	}
	if prop == "C11" {
		sb.WriteString(ndefs.String())
		fmt.Fprintf(&sb, "Definition nruns : list nrun := %s.\n", cg.List(nr))
		sb.WriteString("Definition nstatus := Eval vm_compute in map nrun_status nruns.\n")
		for k, name := range []string{"R_n_agree", "R_n_dir", "R_n_env", "R_n_matrix", "R_n_dirlate", "R_n_defer", "R_n_other",
			"R_n_own_dir", "R_n_own_env", "R_n_own_dirlate", "R_n_defs"} {
			emit(name, fmt.Sprintf("(status_at %d)", k), "nstatus", nIdx)
		}
	} else {
		fmt.Fprintf(&sb, "Definition vruns : list vrun := %s.\n", cg.List(vr))
		fmt.Fprintf(&sb, "Definition eruns : list erun := %s.\n", cg.List(er))
		emit("R_v_agree", "vrun_agree", "vruns", vIdx)
		emit("R_v_snapshot", "(vrun_blamed rp_snapshot)", "vruns", vIdx)
		emit("R_v_leak", "(vrun_blamed rp_merge_up)", "vruns", vIdx)
		emit("R_v_eager", "(vrun_blamed rp_eager)", "vruns", vIdx)
		emit("R_v_osfirst", "(vrun_blamed rp_osfirst)", "vruns", vIdx)
		emit("R_v_cache", "(vrun_blamed rp_key)", "vruns", vIdx)
		emit("R_v_other", "vrun_unexplained", "vruns", vIdx)
		emit("R_e_agree", "erun_agree", "eruns", eIdx)
		emit("R_e_mon", "erun_mon", "eruns", eIdx)
	}
	common.WriteFile(o.Out, "cases.v", sb.String())
	b, _ := json.Marshal(idx)
	common.WriteFile(o.Out, "index.json", string(b))
	obs.Write(o.Out)
}
