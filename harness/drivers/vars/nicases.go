package vars

import (
	"bytes"
	"context"
	"fmt"
	"math/rand"
	"os"
	"path/filepath"
	"strings"
	"sync"

	task "github.com/go-task/task/v3"
	"github.com/go-task/task/v3/taskfile/ast"
	cg "github.com/go-task/task/v3/verifharness/coqgen"
)

// NITask: a generated task of a C11 case.
type NITask struct {
	Name string  `json:"name"`
	Dir  string  `json:"dir"` // "" | d1 | d2
	// DirVar: the dir is written as '{{.GD1}}' / '{{.GD2}}' (globals holding d1 / d2)
	DirVar bool `json:"dir_var,omitempty"`
	Vars []Entry `json:"vars"`
	Env  []Entry `json:"env"`
	// Dotenv: the task has dotenv: ['task.env'] - a file of that name exists in the root dir, d1 and d2,
	// each defining DV differently; the task prints $DV
	Dotenv bool `json:"dotenv,omitempty"`
	// matrix caller: cmds: [{task: m, vars: {TAG: Tag, L: {ref: .List}}}]
	Caller bool   `json:"caller"`
	Tag    string `json:"tag"`
	List   string `json:"list"`
	// leaf caller: cmds: [{task: leaf, vars: {TAG: Tag, V: Val}}]; leaf has vars: {R: {sh: 'echo r$V'}}
	Leaf bool   `json:"leaf,omitempty"`
	Val  string `json:"val,omitempty"`
	// defer caller: cmds: [{task: dtask, vars: {TAG: Tag, NAME: Val}}]; dtask has two templated defer: entries
	// (a command and a task call)
	Dfr bool `json:"dfr,omitempty"`
}

// NICase: task Target run alone versus after / in parallel with the other tasks of Order.
type NICase struct {
	Kind       string   `json:"kind"` // "n"
	Seed       int64    `json:"seed"`
	GVars      []Entry  `json:"gvars"`
	GEnv       []Entry  `json:"genv"`
	Tasks      []NITask `json:"tasks"`
	Order      []int    `json:"order"` // tasks run in context, the target last (sequential) or anywhere (parallel)
	Target     int      `json:"target"`
	Parallel   bool     `json:"parallel"`
	// Combine: how the tasks of Order are started in the in-context run: "" = one Run call with all of them,
	// "cmds" / "for" / "deps" = one task `combo` that calls them through cmds:, a for: loop, or (concurrently) deps:
	Combine    string   `json:"combine,omitempty"`
	Alone      Outputs  `json:"alone"`
	Ctx        Outputs  `json:"ctx"`
	DefsBefore []Row    `json:"defs_before"`
	DefsAfter  []Row    `json:"defs_after"`
	Err        string   `json:"err,omitempty"`
}

var niLists = map[string]string{"LA": "a1 a2", "LB": "b1 b2 b3", "LC": "c1"}

func GenNICase(r *rand.Rand) *NICase {
	c := &NICase{Kind: "n"}
	for _, n := range []string{"LA", "LB", "LC"} {
		c.GVars = append(c.GVars, Entry{Name: n, E: Expr{K: "lit", S: niLists[n]}, List: true})
	}
	c.GVars = append(c.GVars, lit("GD1", "d1"), lit("GD2", "d2"))
	if r.Intn(4) == 0 {
		c.GVars = append(c.GVars, shv("GP", "pwd"))
	}
	if r.Intn(4) == 0 {
		c.GVars = append(c.GVars, shv("GW", "echo w"))
	}
	if r.Intn(3) == 0 {
		c.GEnv = append(c.GEnv, lit("GE", "genv"))
	}
	// Taskfile-level vars / env that refer to the per-task special variables
	for _, e := range perTaskGlobals() {
		if r.Intn(2) == 0 {
			c.GVars = append(c.GVars, e)
		}
	}
	if r.Intn(2) == 0 { // without them the env of two tasks' sh: env entries differs in nothing but the dir
		for _, e := range perTaskGlobalEnv() {
			if r.Intn(2) == 0 {
				c.GEnv = append(c.GEnv, e)
			}
		}
	}
	if r.Intn(2) == 0 {
		c.GEnv = append(c.GEnv, callVarGlobalEnv())
	}
	c.Parallel = r.Intn(4) == 0
	if !c.Parallel {
		c.Combine = []string{"", "", "cmds", "for", "deps"}[r.Intn(5)]
	}
	concurrent := c.Parallel || c.Combine == "deps"
	nt := 2 + r.Intn(3)
	lists := []string{"LA", "LB", "LC"}
	for k := 0; k < nt; k++ {
		t := NITask{Name: fmt.Sprintf("t%d", k)}
		if !c.Parallel && r.Intn(5) < 2 {
			t.Caller = true
			t.Tag = string(rune('A' + k))
			switch x := r.Intn(5); {
			case x < 2:
				t.Dfr = true
				t.Val = fmt.Sprintf("n%d", r.Intn(3))
			case x == 2 || concurrent: // the matrix task only in sequential runs
				t.Leaf = true
				t.Val = fmt.Sprintf("v%d", r.Intn(2))
			default:
				t.List = lists[r.Intn(len(lists))]
			}
			c.Tasks = append(c.Tasks, t)
			continue
		}
		t.Dir = []string{"", "d1", "d2", "d1"}[r.Intn(4)]
		t.DirVar = t.Dir != "" && r.Intn(3) == 0
		if r.Intn(2) == 0 {
			t.Vars = append(t.Vars, lit("VR", fmt.Sprintf("r%d", r.Intn(3))))
		}
		if r.Intn(2) == 0 {
			t.Vars = append(t.Vars, shv("P", "pwd"))
		}
		if r.Intn(2) == 0 {
			t.Vars = append(t.Vars, shv("Q", "echo x$VR"))
		}
		if r.Intn(4) == 0 {
			t.Vars = append(t.Vars, shv("S", "echo s$TASK"))
		}
		if r.Intn(3) == 0 {
			t.Vars = append(t.Vars, shv("W", "echo w"))
		}
		if r.Intn(3) == 0 {
			t.Vars = append(t.Vars, shtv("T1", "echo t-", "VR"))
		}
		if r.Intn(2) == 0 {
			t.Env = append(t.Env, lit("VQ", fmt.Sprintf("q%d", r.Intn(3))))
		}
		if r.Intn(3) == 0 {
			t.Env = append(t.Env, shv("E1", "echo y$VQ"))
		}
		if r.Intn(4) == 0 {
			t.Env = append(t.Env, shv("E2", "pwd"))
		}
		t.Dotenv = r.Intn(3) == 0
		c.Tasks = append(c.Tasks, t)
	}
	c.Target = r.Intn(nt)
	// a random prefix (subset, shuffled) of the other tasks, then the target
	var others []int
	for k := 0; k < nt; k++ {
		if k != c.Target && r.Intn(4) != 0 {
			others = append(others, k)
		}
	}
	if len(others) == 0 {
		others = append(others, (c.Target+1)%nt)
	}
	r.Shuffle(len(others), func(i, j int) { others[i], others[j] = others[j], others[i] })
	c.Order = append(others, c.Target)
	return c
}

func perTaskGlobals() []Entry {
	return []Entry{tmplv("LOG", "logs/", "TASK", ".log"), tmplv("AL", "al-", "ALIAS", ""), shv("STAMP", "echo stamp-of-$TASK"),
		shtv("BANNER", "echo banner-of-", "TASK")}
}

func perTaskGlobalEnv() []Entry {
	return []Entry{tmplv("GT", "e-", "TASK", ""), shv("GS", "echo es-$TASK")}
}

// a Taskfile-level env entry templated over a variable that only calls supply (leaf is called with V)
func callVarGlobalEnv() Entry { return tmplv("GRT", "hello-", "V", "") }

func dotenvValue(dir string) string {
	if dir == "" {
		return "dot-root"
	}
	return "dot-" + dir
}

func present(es []Entry, names ...string) []string {
	var out []string
	for _, n := range names {
		for _, e := range es {
			if e.Name == n {
				out = append(out, n)
			}
		}
	}
	return out
}

// the Taskfile-level names every plain task probes because their value depends on the task
func (c *NICase) pgVars() []string { return present(c.GVars, "LOG", "AL", "STAMP", "BANNER") }
func (c *NICase) pgEnv() []string  { return present(c.GEnv, "GT", "GS") }

func specials(name string) []KV { return []KV{{"TASK", name}, {"ALIAS", name}} }

func (c *NICase) yaml() string {
	var sb strings.Builder
	sb.WriteString("version: '3'\n")
	if m := yamlMap(c.GEnv); m != "" {
		sb.WriteString("env: " + m + "\n")
	}
	if m := yamlMap(c.GVars); m != "" {
		sb.WriteString("vars: " + m + "\n")
	}
	sb.WriteString("tasks:\n")
	sb.WriteString("  m:\n    cmds:\n      - for: {matrix: {X: {ref: \".L\"}}}\n        cmd: " + yq("echo \"@m|i|{{.TAG}}|{{.ITEM.X}}|\"") + "\n")
	sb.WriteString("  leaf:\n    vars: {R: {sh: " + yq("echo r$V") + "}, R2: {sh: " + yq("echo hello-{{.V}}") + "}}\n    cmds: [" +
		yq("echo \"@leaf|c|{{.TAG}}|{{.R}}|\"") + ", " + yq("echo \"@leaf|d|{{.TAG}}|{{.R2}}|\"") + ", " + yq("echo \"@leaf|e|{{.TAG}}|$GRT|\"") + "]\n")
	sb.WriteString("  dtask:\n    env: {DTAG: " + yq("{{.TAG}}") + "}\n    cmds:\n")
	sb.WriteString("      - defer: " + yq("echo \"@dfr|d|$DTAG|{{.NAME}}|\"") + "\n")
	sb.WriteString("      - defer: {task: report, vars: {WHO: " + yq("{{.NAME}}") + ", RTAG: " + yq("{{.TAG}}") + "}}\n")
	sb.WriteString("      - " + yq("echo \"@dfr|s|$DTAG|start|\"") + "\n")
	sb.WriteString("  report:\n    cmds: [" + yq("echo \"@rep|r|{{.RTAG}}|{{.WHO}}|\"") + "]\n")
	if c.Combine != "" {
		var names []string
		for _, k := range c.Order {
			names = append(names, c.Tasks[k].Name)
		}
		switch c.Combine {
		case "cmds":
			sb.WriteString("  combo:\n    cmds:\n")
			for _, n := range names {
				sb.WriteString("      - task: " + n + "\n")
			}
		case "for":
			sb.WriteString("  combo:\n    cmds:\n      - for: [" + strings.Join(names, ", ") + "]\n        task: " + yq("{{.ITEM}}") + "\n")
		case "deps":
			sb.WriteString("  combo:\n    deps: [" + strings.Join(names, ", ") + "]\n")
		}
	}
	for _, t := range c.Tasks {
		sb.WriteString("  " + t.Name + ":\n")
		if t.Caller && t.Dfr {
			sb.WriteString("    cmds:\n      - task: dtask\n        vars: {TAG: " + yq(t.Tag) + ", NAME: " + yq(t.Val) + "}\n")
			continue
		}
		if t.Caller && t.Leaf {
			sb.WriteString("    cmds:\n      - task: leaf\n        vars: {TAG: " + yq(t.Tag) + ", V: " + yq(t.Val) + "}\n")
			continue
		}
		if t.Caller {
			sb.WriteString("    cmds:\n      - task: m\n        vars: {TAG: " + yq(t.Tag) + ", L: {ref: " + yq("."+t.List) + "}}\n")
			continue
		}
		if t.Dir != "" && t.DirVar {
			sb.WriteString("    dir: " + yq("{{.G"+strings.ToUpper(t.Dir)+"}}") + "\n")
		} else if t.Dir != "" {
			sb.WriteString("    dir: " + t.Dir + "\n")
		}
		if m := yamlMap(t.Vars); m != "" {
			sb.WriteString("    vars: " + m + "\n")
		}
		if m := yamlMap(t.Env); m != "" {
			sb.WriteString("    env: " + m + "\n")
		}
		if t.Dotenv {
			sb.WriteString("    dotenv: ['task.env']\n")
		}
		var cmds []string
		for _, e := range t.Vars {
			cmds = append(cmds, yq(fmt.Sprintf("echo \"@%s|v|%s|{{.%s}}|\"", t.Name, e.Name, e.Name)))
		}
		for _, e := range t.Env {
			cmds = append(cmds, yq(fmt.Sprintf("echo \"@%s|e|%s|$%s|\"", t.Name, e.Name, e.Name)))
		}
		if t.Dotenv {
			cmds = append(cmds, yq(fmt.Sprintf("echo \"@%s|e|DV|$DV|\"", t.Name)))
		}
		for _, n := range c.pgVars() {
			cmds = append(cmds, yq(fmt.Sprintf("echo \"@%s|v|%s|{{.%s}}|\"", t.Name, n, n)))
		}
		for _, n := range c.pgEnv() {
			cmds = append(cmds, yq(fmt.Sprintf("echo \"@%s|e|%s|$%s|\"", t.Name, n, n)))
		}
		if len(cmds) == 0 {
			cmds = append(cmds, yq("true"))
		}
		sb.WriteString("    cmds: [" + strings.Join(cmds, ", ") + "]\n")
	}
	return sb.String()
}

type lockedBuf struct {
	mu sync.Mutex
	b  bytes.Buffer
}

func (l *lockedBuf) Write(p []byte) (int, error) {
	l.mu.Lock()
	defer l.mu.Unlock()
	return l.b.Write(p)
}

func (l *lockedBuf) String() string {
	l.mu.Lock()
	defer l.mu.Unlock()
	return l.b.String()
}

func varItems(vs *ast.Vars) []string {
	var items []string
	for k, v := range vs.All() {
		sh := "<nil>"
		if v.Sh != nil {
			sh = *v.Sh
		}
		items = append(items, fmt.Sprintf("%s value=%v sh=%s ref=%s", k, v.Value, sh, v.Ref))
	}
	return items
}

// dumpDefs: the parts of the shared definitions (e.Taskfile) that compilations read and must not write:
// every variable (value, sh: text, ref) of the Taskfile-level vars / env, of every task's vars, env,
// include vars and included-Taskfile vars, and of every call's vars; every field of defer: entries;
// the rows of for: matrix:.
func dumpDefs(e *task.Executor) []Row {
	var rows []Row
	add := func(key string, vs *ast.Vars) {
		if vs != nil && vs.Len() > 0 {
			rows = append(rows, Row{Key: key, Items: varItems(vs)})
		}
	}
	add("taskfile/vars", e.Taskfile.Vars)
	add("taskfile/env", e.Taskfile.Env)
	for name, t := range e.Taskfile.Tasks.All(nil) {
		add(name+"/vars", t.Vars)
		add(name+"/env", t.Env)
		add(name+"/includevars", t.IncludeVars)
		add(name+"/includedtaskfilevars", t.IncludedTaskfileVars)
		for ci, cmd := range t.Cmds {
			if cmd != nil && !cmd.Defer {
				add(fmt.Sprintf("%s/%d/callvars", name, ci), cmd.Vars)
			}
		}
		for di, dep := range t.Deps {
			if dep != nil {
				add(fmt.Sprintf("%s/dep%d/callvars", name, di), dep.Vars)
			}
		}
	}
	for name, t := range e.Taskfile.Tasks.All(nil) {
		for ci, cmd := range t.Cmds {
			if cmd != nil && cmd.Defer {
				// every field runDeferred renders (and could write back)
				items := []string{"cmd=" + cmd.Cmd, "task=" + cmd.Task}
				for k, v := range cmd.Vars.All() {
					sh := ""
					if v.Sh != nil {
						sh = *v.Sh
					}
					items = append(items, fmt.Sprintf("var %s=%v sh=%s ref=%s", k, v.Value, sh, v.Ref))
				}
				rows = append(rows, Row{Key: fmt.Sprintf("%s/%d/defer", name, ci), Items: items})
			}
			if cmd == nil || cmd.For == nil || cmd.For.Matrix == nil {
				continue
			}
			for key, row := range cmd.For.Matrix.All() {
				var items []string
				for _, it := range row.Value {
					items = append(items, fmt.Sprint(it))
				}
				rows = append(rows, Row{Key: fmt.Sprintf("%s/%d/%s", name, ci, key), Items: items})
			}
		}
	}
	return rows
}

func newExecutor(root string, out, errw *lockedBuf, parallel bool) (*task.Executor, error) {
	e := task.NewExecutor(task.WithDir(root), task.WithStdout(out), task.WithStderr(errw), task.WithSilent(true), task.WithParallel(parallel),
		task.WithTempDir(task.TempDir{Remote: filepath.Join(root, ".task"), Fingerprint: filepath.Join(root, ".task")}))
	if err := e.Setup(); err != nil {
		return nil, err
	}
	return e, nil
}

// records: the probe records "@a|b|c|d|" of an output. Concurrent tasks share stdout and the shell
// writes a line and its newline separately, so records are located by their start marker, not by lines.
func records(out string) []string {
	parts := strings.Split(out, "@")
	if len(parts) <= 1 {
		return nil
	}
	return parts[1:]
}

// outputsOf extracts the target's probe values from the output.
func (c *NICase) outputsOf(out, root string, alone bool) Outputs {
	t := c.Tasks[c.Target]
	o := Outputs{Vars: []string{}, Env: []string{}, Items: []string{}, Defers: []string{}}
	if t.Caller && t.Dfr {
		// the deferred command carries the call's tag through the (per-call) environment; the deferred
		// task call can only be attributed by its position when the calls ran one after the other
		var echo, rep, repTagged []string
		for _, ln := range records(out) {
			f := strings.Split(ln, "|")
			if len(f) >= 5 && f[0] == "dfr" && f[1] == "d" && f[2] == t.Tag {
				echo = append(echo, f[3])
			}
			if len(f) >= 5 && f[0] == "rep" && f[1] == "r" {
				rep = append(rep, f[3])
				if f[2] == t.Tag {
					repTagged = append(repTagged, f[3])
				}
			}
		}
		pick := func(l []string, i int) string {
			if i < len(l) {
				return l[i]
			}
			return fmt.Sprintf("!%d", len(l))
		}
		pos := 0
		if !alone {
			for _, k := range c.Order {
				if k == c.Target {
					break
				}
				if c.Tasks[k].Dfr {
					pos++
				}
			}
		}
		if len(echo) == 1 {
			o.Defers = append(o.Defers, echo[0])
		} else {
			o.Defers = append(o.Defers, fmt.Sprintf("!%d", len(echo)))
		}
		if !alone && (c.Parallel || c.Combine == "deps") {
			if len(repTagged) == 1 {
				o.Defers = append(o.Defers, repTagged[0])
			} else {
				o.Defers = append(o.Defers, fmt.Sprintf("!%d", len(repTagged)))
			}
		} else {
			o.Defers = append(o.Defers, pick(rep, pos))
		}
		return o
	}
	if t.Caller {
		for _, ln := range records(out) {
			f := strings.Split(ln, "|")
			if len(f) >= 5 && f[0] == "m" && f[1] == "i" && f[2] == t.Tag {
				o.Items = append(o.Items, f[3])
			}
			if len(f) >= 5 && f[0] == "leaf" && (f[1] == "c" || f[1] == "d") && f[2] == t.Tag {
				o.Vars = append(o.Vars, f[3])
			}
			if len(f) >= 5 && f[0] == "leaf" && f[1] == "e" && f[2] == t.Tag {
				o.Env = append(o.Env, f[3])
			}
		}
		return o
	}
	vals := map[string][]string{}
	for _, ln := range records(out) {
		f := strings.Split(ln, "|")
		if len(f) >= 5 && f[0] == t.Name {
			vals[f[1]+"/"+f[2]] = append(vals[f[1]+"/"+f[2]], canon(f[3], root))
		}
	}
	get := func(k string) string {
		if v := vals[k]; len(v) == 1 {
			return v[0]
		}
		return fmt.Sprintf("!%d", len(vals[k]))
	}
	for _, e := range t.Vars {
		o.Vars = append(o.Vars, get("v/"+e.Name))
	}
	for _, e := range t.Env {
		o.Env = append(o.Env, get("e/"+e.Name))
	}
	if t.Dotenv {
		o.Env = append(o.Env, get("e/DV"))
	}
	for _, n := range c.pgVars() {
		o.Vars = append(o.Vars, get("v/"+n))
	}
	for _, n := range c.pgEnv() {
		o.Env = append(o.Env, get("e/"+n))
	}
	return o
}

func (c *NICase) Run() error {
	root, err := os.MkdirTemp("", "vh-ni")
	if err != nil {
		return err
	}
	defer os.RemoveAll(root)
	if r2, err := filepath.EvalSymlinks(root); err == nil {
		root = r2
	}
	for _, d := range []string{"d1", "d2"} {
		if err := os.MkdirAll(filepath.Join(root, d), 0o755); err != nil {
			return err
		}
	}
	if err := os.WriteFile(filepath.Join(root, "Taskfile.yml"), []byte(c.yaml()), 0o644); err != nil {
		return err
	}
	for _, d := range []string{"", "d1", "d2"} {
		if err := os.WriteFile(filepath.Join(root, d, "task.env"), []byte("DV="+dotenvValue(d)+"\n"), 0o644); err != nil {
			return err
		}
	}
	// alone: a fresh Executor (fresh cache, fresh definitions)
	var out1, err1 lockedBuf
	e1, err := newExecutor(root, &out1, &err1, false)
	if err != nil {
		return fmt.Errorf("setup: %w\n%s", err, c.yaml())
	}
	if err := e1.Run(context.Background(), &task.Call{Task: c.Tasks[c.Target].Name}); err != nil {
		c.Err = "alone: " + err.Error()
	}
	c.Alone = c.outputsOf(out1.String(), root, true)
	// in context: one Executor for all the tasks of Order
	var out2, err2 lockedBuf
	e2, err := newExecutor(root, &out2, &err2, c.Parallel)
	if err != nil {
		return err
	}
	c.DefsBefore = dumpDefs(e2)
	var calls []*task.Call
	for _, k := range c.Order {
		calls = append(calls, &task.Call{Task: c.Tasks[k].Name})
	}
	if c.Combine != "" {
		calls = []*task.Call{{Task: "combo"}}
	}
	if err := e2.Run(context.Background(), calls...); err != nil {
		c.Err += " ctx: " + err.Error()
	}
	c.Ctx = c.outputsOf(out2.String(), root, false)
	c.DefsAfter = dumpDefs(e2)
	return nil
}

// ctxs: the compilations of the in-context run in order, and the index of the target's.
func (c *NICase) ctxs(order []int) ([]Ctx, int) {
	gv := make([]Entry, len(c.GVars))
	copy(gv, c.GVars)
	var xs []Ctx
	target := 0
	for _, k := range order {
		t := c.Tasks[k]
		dir := "ROOT"
		if t.Dir != "" {
			dir = "ROOT/" + t.Dir
		}
		if t.Caller {
			xs = append(xs, Ctx{Name: t.Name, Special: specials(t.Name), GEnv: c.GEnv, GVars: gv, RootDir: "ROOT", TaskDir: "ROOT"})
			if k == c.Target {
				target = len(xs)
			}
			if t.Dfr {
				xs = append(xs, Ctx{Name: "dtask", Special: specials("dtask"), GEnv: c.GEnv, GVars: gv,
					Call: []Entry{lit("TAG", t.Tag), lit("NAME", t.Val)}, TEnv: []Entry{tmplv("DTAG", "", "TAG", "")},
					RootDir: "ROOT", TaskDir: "ROOT", Defers: [][]Part{{{Var: "NAME"}}, {{Var: "NAME"}}}})
				// the deferred task call, compiled when dtask ends
				xs = append(xs, Ctx{Name: "report", Special: specials("report"), GEnv: c.GEnv, GVars: gv,
					Call: []Entry{lit("WHO", t.Val), lit("RTAG", t.Tag)}, RootDir: "ROOT", TaskDir: "ROOT"})
				continue
			}
			if t.Leaf {
				xs = append(xs, Ctx{Name: "leaf", Special: specials("leaf"), GEnv: c.GEnv, GVars: gv,
					Call: []Entry{lit("TAG", t.Tag), lit("V", t.Val)}, TVars: []Entry{shv("R", "echo r$V"), shtv("R2", "echo hello-", "V")},
					RootDir: "ROOT", TaskDir: "ROOT", VProbes: []string{"R", "R2"}, EProbes: []string{"GRT"}})
				continue
			}
			xs = append(xs, Ctx{Name: "m", Special: specials("m"), GEnv: c.GEnv, GVars: gv,
				Call: []Entry{lit("TAG", t.Tag), lit("L", niLists[t.List])}, RootDir: "ROOT", TaskDir: "ROOT", Matrix: "L"})
			continue
		}
		if k == c.Target {
			target = len(xs)
		}
		x := Ctx{Name: t.Name, Special: specials(t.Name), GEnv: c.GEnv, GVars: gv, TVars: t.Vars, TEnv: t.Env, RootDir: "ROOT", TaskDir: dir}
		if t.DirVar {
			x.DirVar = "G" + strings.ToUpper(t.Dir)
		}
		for _, e := range t.Vars {
			x.VProbes = append(x.VProbes, e.Name)
		}
		for _, e := range t.Env {
			x.EProbes = append(x.EProbes, e.Name)
		}
		if t.Dotenv {
			x.TDot = [][]KV{{{"DV", dotenvValue(t.Dir)}}}
			x.EProbes = append(x.EProbes, "DV")
		}
		x.VProbes = append(x.VProbes, c.pgVars()...)
		x.EProbes = append(x.EProbes, c.pgEnv()...)
		xs = append(xs, x)
	}
	return xs, target
}

func (c *NICase) Coq() string {
	return c.CoqWithDefs(NewInterner()) // not used: the driver emits the definitions through one Interner
}

// Interner gives every distinct Coq term of a cases.v one Definition.
type Interner struct {
	names map[string]string
	sb    strings.Builder
}

func NewInterner() *Interner { return &Interner{names: map[string]string{}} }

func (in *Interner) Def(typ, term string) string {
	key := typ + "\x00" + term
	if n, ok := in.names[key]; ok {
		return n
	}
	n := fmt.Sprintf("d%d", len(in.names))
	in.names[key] = n
	fmt.Fprintf(&in.sb, "Definition %s : %s := %s.\n", n, typ, term)
	return n
}

func (in *Interner) String() string { return in.sb.String() }

// CoqWithDefs: the Taskfile-level env / vars, every group of compilations and the dumps of the
// definitions are defined once per distinct content; the nrun record refers to them by name.
func (c *NICase) CoqWithDefs(in *Interner) string {
	ge := in.Def("list entry", coqEntries(c.GEnv))
	gv := in.Def("list entry", coqEntries(c.GVars))
	group := func(xs []Ctx) string {
		items := make([]string, len(xs))
		for i, x := range xs {
			items[i] = in.Def("tctx", coqCtxShared(in, x, ge, gv))
		}
		return in.Def("list tctx", cg.List(items))
	}
	// one group per started task: its own compilation followed by those of the tasks it calls
	var groups []string
	fixed := 0
	if c.Combine != "" {
		// the combining task is compiled first (it evaluates the Taskfile-level variables for itself)
		groups = append(groups, group([]Ctx{{Name: "combo", Special: specials("combo"), RootDir: "ROOT", TaskDir: "ROOT"}}))
		fixed = 1
	}
	tg, ti := 0, 0
	aname := "[]"
	for _, k := range c.Order {
		xs, inner := c.ctxs([]int{k})
		name := group(xs)
		if k == c.Target {
			tg, ti = len(groups), inner
			aname = name
		}
		groups = append(groups, name)
	}
	return fmt.Sprintf("{| nr_os := []; nr_groups := %s; nr_fixed := %d; nr_target := (%d, %d); nr_parallel := %s; nr_alone_tasks := %s; nr_alone_target := %d; "+
		"nr_alone := %s; nr_ctx := %s; nr_defs_before := %s; nr_defs_after := %s |}",
		cg.List(groups), fixed, tg, ti, cg.Bool(c.Parallel || c.Combine == "deps"), aname, ti,
		in.Def("outputs", coqOutputs(c.Alone)), in.Def("outputs", coqOutputs(c.Ctx)),
		coqRowsShared(in, c.DefsBefore), coqRowsShared(in, c.DefsAfter))
}

// StressMatrix: concurrent CompiledTask calls of the matrix task with different
// lists; returns how many compilations saw another call's items.
func StressMatrix(goroutines, iters int) (mismatches int, total int, err error) {
	root, err := os.MkdirTemp("", "vh-ms")
	if err != nil {
		return 0, 0, err
	}
	defer os.RemoveAll(root)
	y := "version: '3'\ntasks:\n  m:\n    cmds:\n      - for: {matrix: {X: {ref: \".L\"}}}\n        cmd: " + yq("echo {{.TAG}}-{{.ITEM.X}}") + "\n"
	if err := os.WriteFile(filepath.Join(root, "Taskfile.yml"), []byte(y), 0o644); err != nil {
		return 0, 0, err
	}
	var out, errw lockedBuf
	e, err := newExecutor(root, &out, &errw, false)
	if err != nil {
		return 0, 0, err
	}
	var wg sync.WaitGroup
	var mu sync.Mutex
	for g := 0; g < goroutines; g++ {
		wg.Add(1)
		go func(g int) {
			defer wg.Done()
			defer func() { _ = recover() }()
			tag := fmt.Sprintf("g%d", g)
			list := make([]any, g+1)
			for i := range list {
				list[i] = fmt.Sprintf("%s_%d", tag, i)
			}
			for it := 0; it < iters; it++ {
				vars := ast.NewVars()
				vars.Set("TAG", ast.Var{Value: tag})
				vars.Set("L", ast.Var{Value: list})
				t, err := e.CompiledTask(&task.Call{Task: "m", Vars: vars})
				bad := err != nil || len(t.Cmds) != len(list)
				if !bad {
					for i, cmd := range t.Cmds {
						if cmd.Cmd != fmt.Sprintf("echo %s-%s_%d", tag, tag, i) {
							bad = true
						}
					}
				}
				mu.Lock()
				total++
				if bad {
					mismatches++
				}
				mu.Unlock()
			}
		}(g)
	}
	wg.Wait()
	return mismatches, total, nil
}

// StressCase wraps StressMatrix as a (Coq-less) case so that it can be replayed.
type StressCase struct {
	Kind       string `json:"kind"` // "ms"
	Goroutines int    `json:"goroutines"`
	Iters      int    `json:"iters"`
	Mismatches int    `json:"mismatches"`
	Total      int    `json:"total"`
}

func (c *StressCase) Run() error {
	if c.Goroutines <= 0 {
		c.Goroutines = 8
	}
	if c.Iters <= 0 {
		c.Iters = 300
	}
	var err error
	c.Mismatches, c.Total, err = StressMatrix(c.Goroutines, c.Iters)
	return err
}

func (c *StressCase) Coq() string { return "" }
