package exec

import (
	"encoding/json"
	"fmt"
	"github.com/go-task/task/v3/verifharness/sched"
	"math/rand"
	"os"
	"strings"
	"time"

	"github.com/go-task/task/v3"
	"github.com/go-task/task/v3/verifharness/common"
	cg "github.com/go-task/task/v3/verifharness/coqgen"
)

type Case struct {
	Prog   *Prog   `json:"prog"`
	Seed   int64   `json:"seed"`
	Procs  int     `json:"procs"`
	Stream string  `json:"stream"`           // acyclic | cyclic | directed | systematic
	Prefix []int   `json:"prefix,omitempty"` // systematic: choice indices (canonical order of the parked writes)
	Out    *RunOut `json:"out,omitempty"`
	pre    *RunOut
}

func evCoq(e *Ev, hint []int) string {
	p := cg.NatList(e.Path)
	switch e.Kind {
	case "started":
		return fmt.Sprintf("EvStarted %s %d", p, e.T)
	case "skipping":
		parts := strings.Split(e.Key, ":")
		if parts[0] == "once" {
			return fmt.Sprintf("EvSkipping (KOnce %s) %s", parts[1], cg.NatList(hint))
		}
		return fmt.Sprintf("EvSkipping (KWhen %s %s) %s", parts[1], parts[2], cg.NatList(hint))
	case "announce":
		return fmt.Sprintf("EvAnnounce %s %d", p, e.I)
	case "probe":
		return fmt.Sprintf("EvProbeBegin %s %d %d", p, e.I, e.V)
	case "finished":
		return fmt.Sprintf("EvFinished %s", p)
	case "uptodate":
		return fmt.Sprintf("EvUpToDate %s", p)
	case "platform":
		return fmt.Sprintf("EvPlatformSkip %s", p)
	case "dannounce":
		return fmt.Sprintf("EvDAnnounce %s %d", p, e.I)
	case "dprobe":
		return fmt.Sprintf("EvDProbeBegin %s %d %d", p, e.I, e.Code)
	}
	return "EvFinished []"
}

func (c *Case) Coq() string {
	ts, cfg := c.Prog.Coq()
	var obs []string
	for _, o := range c.Out.Obs {
		if o.Arr {
			obs = append(obs, fmt.Sprintf("OArr %d (%s) %s", o.ID, evCoq(o.Ev, o.Hint), cg.NatList(o.Hint)))
		} else {
			obs = append(obs, fmt.Sprintf("ORel %d", o.ID))
		}
	}
	final := "None"
	if c.Out.Result != "" {
		final = "(Some " + c.Out.Result + ")"
	}
	agree := c.Procs == 1 && c.Stream != "cyclic"
	return fmt.Sprintf("{| ec_prog := %s; ec_cfg := %s; ec_obs := %s; ec_final := %s; ec_complete := %s; ec_agree := %s |}",
		ts, cfg, cg.List(obs), final, cg.Bool(c.Out.Result != ""), cg.Bool(agree))
}

func Main(args []string) {
	o := common.ParseOpts(args)
	obs := common.NewObs("exec", o.Seed)
	var cases []*Case
	if o.Replay != "" {
		b, err := os.ReadFile(o.Replay)
		if err != nil {
			panic(err)
		}
		var rp struct {
			Input Case `json:"input"`
		}
		if err := json.Unmarshal(b, &rp); err != nil {
			panic(err)
		}
		c := rp.Input
		c.Out = nil
		cases = append(cases, &c)
	} else {
		r := o.Rand()
		for i := 0; i < o.N; i++ {
			c := &Case{Seed: r.Int63(), Procs: 1, Stream: "acyclic"}
			cr := rand.New(rand.NewSource(c.Seed))
			if o.Extra["cyclic"] != "" && ((o.Tier == "thorough" && i%20 == 19) || i%70 == 39 || i%70 == 59) {
				c.Stream = "cyclic"
				switch {
				case i%70 == 39:
					// the quick tier's four shards (consecutive seeds) cover every directed shape
					c.Prog = DirectedCyclicShape(cr, int(o.Seed%NCyclicShapes))
				case i%70 == 59:
					c.Prog = DirectedCyclicShape(cr, int((o.Seed+4)%NCyclicShapes))
				case cr.Intn(3) == 0:
					c.Prog = Gen(cr, GenOpts{MaxTasks: 4, Cyclic: true, NoGuards: true, MaxActs: 30})
				default:
					c.Prog = DirectedCyclic(cr)
				}
				c.Prog.maxSteps = 8*c.Prog.Cfg.MaxCall + 2000
			} else if i%5 == 1 {
				c.Stream = "directed"
				// round-robin over the templates: every shard runs each of them (variants and schedule random)
				c.Prog = DirectedTemplate(cr, i/5+int(o.Seed%NDirected))
			} else if i%5 == 3 {
				// the templates whose violation needs a particular interleaving get twice the share
				c.Stream = "directed"
				c.Prog = DirectedTemplate(cr, []int{2, 1, 6, 8, 9}[(i/5+int(o.Seed))%5])
			} else {
				c.Prog = Gen(cr, GenOpts{MaxTasks: 7, MaxActs: 28})
			}
			if i%4 == 3 {
				c.Procs = 4
			}
			cases = append(cases, c)
		}
		if o.Tier == "thorough" {
			// systematic stream: depth-first enumeration of the controlled schedules (release orders at
			// quiescent points, GOMAXPROCS=1) of one small program per shard, up to a budget
			cr := rand.New(rand.NewSource(o.Seed ^ 0x5ca1ab1e))
			// pick a program whose first run meets a point with at least two parked writes
			var pg *Prog
			for try := 0; try < 40; try++ {
				var cand *Prog
				if (o.Seed+int64(try))%2 == 0 {
					cand = Directed(cr)
				} else {
					cand = Gen(cr, GenOpts{MaxTasks: 4, MaxActs: 10})
				}
				out, err := Execute(cand, 7, 1, nil, []int{})
				if err != nil {
					continue
				}
				pg = cand
				if sched.NextPrefix(out.Taken, out.Width) != nil {
					break
				}
			}
			budget := 120
			if v := o.Extra["sysbudget"]; v != "" {
				fmt.Sscan(v, &budget)
			}
			prefix := []int{}
			exhausted := false
			n := 0
			for ; pg != nil && n < budget; n++ {
				c := &Case{Prog: pg, Seed: 0, Procs: 1, Stream: "systematic", Prefix: append([]int{}, prefix...)}
				out, err := Execute(pg, 7, 1, nil, c.Prefix)
				if err != nil {
					break
				}
				c.pre = out
				cases = append(cases, c)
				prefix = sched.NextPrefix(out.Taken, out.Width)
				if prefix == nil {
					exhausted = true
					n++
					break
				}
			}
			obs.Count(fmt.Sprintf("systematic-exhausted:%v", exhausted))
			obs.Counters["systematic_schedules"] += int64(n)
		}
	}
	var sb strings.Builder
	sb.WriteString("From Coq Require Import List Arith Bool.\nImport ListNotations.\nFrom TV Require Import Exec.Model Exec.Monitors Exec.Replay Run.ExecCases.\n")
	var items []string
	var idx []int
	seen := map[string]bool{}
	for i, c := range cases {
		var out *RunOut
		var err error
		if c.pre != nil {
			out = c.pre
		} else if c.Stream == "cyclic" {
			// judged from outside, on the real binary in a child process
			out, err = RunCyclicCLI(c.Prog, 600*time.Second)
		} else {
			pf := c.Prefix
			if c.Stream == "systematic" && pf == nil {
				pf = []int{}
			}
			out, err = Execute(c.Prog, c.Seed+7, c.Procs, nil, pf)
		}
		if err != nil {
			obs.ImplFails = append(obs.ImplFails, common.ImplFail{Case: i, Kind: "harness", Msg: err.Error()})
			obs.CaseInputs = append(obs.CaseInputs, c)
			continue
		}
		c.Out = out
		obs.CaseInputs = append(obs.CaseInputs, c)
		obs.Count("stream:" + c.Stream)
		obs.Count(fmt.Sprintf("tasks:%d", len(c.Prog.Tasks)))
		obs.Count(fmt.Sprintf("N:%d", c.Prog.Cfg.N))
		obs.Count(fmt.Sprintf("procs:%d", c.Procs))
		obs.Count("result:" + strings.SplitN(strings.Trim(out.Result, "()"), " ", 3)[0] + fmt.Sprint(out.Result != "" && out.Result != "ROk"))
		obs.Counters["events"] += int64(len(out.Obs))
		obs.Counters["scheduler_steps"] += int64(out.Steps)
		for _, ob := range out.Obs {
			if ob.Arr {
				obs.Count("ev:" + ob.Ev.Kind)
			}
		}
		if out.Inconclusive != "" {
			obs.ImplFails = append(obs.ImplFails, common.ImplFail{Case: i, Kind: "inconclusive", Msg: out.Inconclusive})
			continue
		}
		if out.Deadlock {
			if c.Stream == "cyclic" {
				kind := "deadlock-cyclic"
				if c.Prog.cycleThroughDedup() {
					kind = "deadlock-cycle-through-dedup-task"
				}
				obs.ImplFails = append(obs.ImplFails, common.ImplFail{Case: i, Kind: kind, Msg: out.Stacks})
			} else {
				obs.ImplFails = append(obs.ImplFails, common.ImplFail{Case: i, Kind: "deadlock", Msg: out.Stacks})
			}
			continue
		}
		if c.Stream == "cyclic" {
			// cyclic programs are judged here: they must end with the "called too many times" class
			// (204, or 201 wrapping it when the cycle goes through task-call commands); their traces
			// (thousands of events with call paths of depth 1000) are not shipped to Coq
			spun := out.Steps >= c.Prog.Cfg.MaxCall-1 // probe lines printed
			obs.Count(fmt.Sprintf("cyclic-spun:%v", spun))
			// a cycle ended by the call limit surfaces as 204 / 201 - unless the error is swallowed on its way
			// up: errors of deferred calls never change the outcome, ignore_error drops exit-status errors
			swallowed := out.Result == "ROk" && c.Prog.canSwallowErrors()
			if spun && !out.Overrun && !swallowed && out.Result != "(RErr (ECode 204))" && out.Result != "(RErr (ETaskRun None))" {
				obs.ImplFails = append(obs.ImplFails, common.ImplFail{Case: i, Kind: "cycle-wrong-result", Msg: out.Result + " " + out.ResultStr})
			}
			obs.Count("cyclic-result:" + out.Result)
			if out.Overrun {
				// far more scheduler steps than MaximumTaskCall calls can take: the call limit did not end the cycle
				obs.ImplFails = append(obs.ImplFails, common.ImplFail{Case: i, Kind: "cycle-not-ended-by-call-limit",
					Msg: fmt.Sprintf("cyclic program (MaximumTaskCall = %d): %s", c.Prog.Cfg.MaxCall, out.Stacks)})
			}
			out.Obs = nil
			out.Schedule = nil
			continue
		}
		if out.Overrun {
			obs.ImplFails = append(obs.ImplFails, common.ImplFail{Case: i, Kind: "inconclusive", Msg: "scheduler overrun"})
			continue
		}
		if out.Ambiguous {
			obs.Count("ambiguous-attribution")
			obs.ImplFails = append(obs.ImplFails, common.ImplFail{Case: i, Kind: "inconclusive", Msg: "a when_changed callee's line has more than one possible call site"})
			continue
		}
		if len(out.Unparsed) > 0 {
			obs.ImplFails = append(obs.ImplFails, common.ImplFail{Case: i, Kind: "unparsed-line", Msg: strings.Join(out.Unparsed, "")})
			continue
		}
		items = append(items, c.Coq())
		idx = append(idx, i)
		key, _ := json.Marshal([]any{c.Prog, out.Schedule})
		if len(out.Obs) > 4 && !seen[string(key)] {
			seen[string(key)] = true
			obs.Distinct++
		}
		if len(obs.Samples) < 3 && len(out.Obs) > 10 && len(out.Obs) < 60 {
			obs.Samples = append(obs.Samples, map[string]any{"prog": c.Prog, "schedule": out.Schedule, "result": out.ResultStr})
		}
	}
	if o.Extra["fanout"] != "" && o.Replay == "" {
		// acyclic fan-out: one task referenced MaximumTaskCall times from an acyclic program must
		// still run to completion (C07: "terminates having run all required work")
		obs.Cases++
		if n, res, err := Fanout(task.MaximumTaskCall); err != nil {
			obs.ImplFails = append(obs.ImplFails, common.ImplFail{Case: len(cases), Kind: "harness", Msg: err.Error()})
		} else if res != "ROk" || n != task.MaximumTaskCall {
			obs.ImplFails = append(obs.ImplFails, common.ImplFail{Case: len(cases), Kind: "acyclic-fanout-trips-call-counter",
				Msg: fmt.Sprintf("acyclic program: default calls leaf %d times; %d executions, result %s", task.MaximumTaskCall, n, res)})
		}
		obs.CaseInputs = append(obs.CaseInputs, map[string]any{"stream": "fanout", "calls": task.MaximumTaskCall})
		obs.Count("stream:fanout")
	}
	for _, fam := range []struct {
		key, kind string
		list      func() []Scenario
	}{{"guards", "guard-not-enforced", GuardScenarios}, {"whenkeys", "when-changed-wrong-count", WhenKeyScenarios},
		{"callvars", "callee-does-not-see-passed-variable", CallVarScenarios}} {
		if o.Extra[fam.key] == "" || o.Replay != "" {
			continue
		}
		for _, sc := range fam.list() {
			obs.Cases++
			idx := len(obs.CaseInputs)
			obs.CaseInputs = append(obs.CaseInputs, map[string]any{"stream": fam.key, "scenario": sc})
			obs.Count("stream:" + fam.key)
			diff, err := RunScenario(sc)
			if err != nil {
				obs.ImplFails = append(obs.ImplFails, common.ImplFail{Case: idx, Kind: "harness", Msg: err.Error()})
			} else if diff != "" {
				obs.ImplFails = append(obs.ImplFails, common.ImplFail{Case: idx, Kind: fam.kind, Msg: sc.Name + ": " + diff})
			}
		}
	}
	if o.Extra["prompts"] != "" && o.Replay == "" {
		// a task with a LIST of prompts: every prompt must be confirmed before any command runs
		// (the machine has one prompt guard per task; the list is judged here on the real Executor)
		type sc struct {
			n       int
			answers []string
			dep     bool
			ran     bool
			ok      bool
		}
		for _, c := range []sc{{2, []string{"y", "y"}, false, true, true}, {2, []string{"y", "n"}, false, false, false},
			{3, []string{"yes", "y", "n"}, false, false, false}, {3, []string{"y", "y", "y"}, true, true, true},
			{2, []string{"y", "n"}, true, false, false}, {2, []string{"n"}, false, false, false}, {1, []string{"y"}, false, true, true}} {
			obs.Cases++
			ran, res, err := PromptList(c.n, c.answers, c.dep)
			idx := len(obs.CaseInputs)
			obs.CaseInputs = append(obs.CaseInputs, map[string]any{"stream": "prompts", "prompts": c.n, "answers": c.answers, "as_dep": c.dep})
			obs.Count("stream:prompts")
			if err != nil {
				obs.ImplFails = append(obs.ImplFails, common.ImplFail{Case: idx, Kind: "harness", Msg: err.Error()})
			} else if ran != c.ran || (res == "ROk") != c.ok || (!c.ok && res != "(RErr (ECode 205))") {
				obs.ImplFails = append(obs.ImplFails, common.ImplFail{Case: idx, Kind: "prompt-list-not-enforced",
					Msg: fmt.Sprintf("%d prompts answered %v (as dep: %v): commands ran=%v result=%s; expected ran=%v, %s", c.n, c.answers, c.dep, ran, res, c.ran,
						map[bool]string{true: "success", false: "error 205"}[c.ok])})
			}
		}
	}
	obs.Cases += len(cases)
	fmt.Fprintf(&sb, "Definition cases : list ecase := %s.\n", cg.List(items))
	names := []string{"C01", "calls", "waits", "C02", "C03", "C03s", "C06", "C07", "C13", "C13s", "C14", "C14x", "C01d", "eager"}
	for _, n := range names {
		fmt.Fprintf(&sb, "Definition R_%s := Eval vm_compute in failures (ecase_mon_%s) cases.\nPrint R_%s.\n", n, n, n)
	}
	sb.WriteString("Definition R_agree := Eval vm_compute in failures ecase_agree cases.\nPrint R_agree.\n")
	sb.WriteString("Definition A_inconclusive := Eval vm_compute in length (filter ecase_agree_inconclusive cases).\nPrint A_inconclusive.\n")
	sb.WriteString("Definition A_codes := Eval vm_compute in map (fun c => agree_code (ec_prog c) (ec_cfg c) (ec_obs c) (ec_final c)) (filter (fun c => negb (ecase_agree c)) cases).\nPrint A_codes.\n")
	common.WriteFile(o.Out, "cases.v", sb.String())
	m := map[string][]int{"R_agree": idx}
	for _, n := range names {
		m["R_"+n] = idx
	}
	b, _ := json.Marshal(m)
	common.WriteFile(o.Out, "index.json", string(b))
	obs.Write(o.Out)
}
