package exec

import (
	"context"
	"errors"
	"fmt"
	"io"
	"math/rand"
	"os"
	osexec "os/exec"
	"path/filepath"
	"regexp"
	"runtime"
	"sort"
	"strconv"
	"strings"
	"sync"
	"time"

	task "github.com/go-task/task/v3"
	taskerrors "github.com/go-task/task/v3/errors"
	"github.com/go-task/task/v3/internal/hash"
	"github.com/go-task/task/v3/taskfile/ast"
	"github.com/go-task/task/v3/verifharness/sched"
	"gopkg.in/yaml.v3"
	"mvdan.cc/sh/v3/interp"
)

// Ev is one abstract observable event (mirror of Model.event).
type Ev struct {
	Kind string `json:"k"` // started skipping announce probe finished uptodate platform dannounce dprobe
	Path []int  `json:"p,omitempty"`
	T    int    `json:"t,omitempty"`
	I    int    `json:"i,omitempty"`
	V    int    `json:"v,omitempty"`
	Code int    `json:"code,omitempty"`
	Key  string `json:"key,omitempty"` // skipping: "once:t" | "when:t:v"
}

type Ob struct {
	Arr  bool  `json:"arr"`
	ID   int   `json:"id"`
	Ev   *Ev   `json:"ev,omitempty"`
	Hint []int `json:"hint,omitempty"`
}

type RunOut struct {
	Obs          []Ob     `json:"obs"`
	Result       string   `json:"result"` // Coq term of the final result, "" if Run did not return
	ResultStr    string   `json:"result_str"`
	Deadlock     bool     `json:"deadlock"`
	Overrun      bool     `json:"overrun"`
	Unparsed     []string `json:"unparsed,omitempty"`
	Inconclusive string   `json:"inconclusive,omitempty"` // no verdict (why)
	Ambiguous    bool     `json:"ambiguous,omitempty"`    // a when_changed callee's line had more than one possible call site
	Schedule     []string `json:"schedule"`
	Stacks       string   `json:"stacks,omitempty"`
	Procs        int      `json:"procs"`
	Steps        int      `json:"steps"`
	Taken        []int    `json:"-"` // systematic enumeration: choice indices taken / alternatives at each step
	Width        []int    `json:"-"`
}

var (
	reStarted  = regexp.MustCompile(`^task: "t(\d+):w-([^"]*)" started\n$`)
	reFinished = regexp.MustCompile(`^task: "t(\d+):w-([^"]*)" finished\n$`)
	rePlatform = regexp.MustCompile(`^task: "t(\d+):w-([^"]*)" not for current platform - ignored(\\n|\n)$`)
	reSkipping = regexp.MustCompile(`^task: skipping execution of task: (.*)\n$`)
	reAnnounce = regexp.MustCompile(`^task: \[t(\d+):w-\*\] printf '%s\\n' '([PD])\|([^|']*)\|(\d+)\|(\d*)(?:\|(\d*))?'`)
	reProbe    = regexp.MustCompile(`^([PD])\|([^|]*)\|(\d+)\|(\d*)(?:\|(\d*))?\n$`)
	reUpToDate = regexp.MustCompile(`^task: Task "t(\d+):w-\*" is up to date\n$`)
	reKPath    = regexp.MustCompile(`^K(\d+)v(\d+)(.*)$`)
	// env variant of a when_changed task: the announced text still holds $E
	reAnnounceE = regexp.MustCompile(`^task: \[t(\d+):w-\*\] printf '%s\\n' "([PD])\|K\d+v\$E\|(\d+)\|\$E`)
)

func autoRelease(stream string, data []byte) bool {
	s := string(data)
	return strings.Contains(s, "error ignored") || strings.Contains(s, "ignored error in deferred cmd") ||
		strings.Contains(s, "[assuming yes]") || strings.HasPrefix(s, "task: precondition-msg") ||
		strings.Contains(s, "error cleaning status") || strings.HasPrefix(s, "task: status command ") ||
		strings.HasPrefix(s, "task: dynamic variable:")
}

type runner struct {
	attributed map[string]bool // call sites (paths) that own a started / platform line
	ambiguous  bool            // some line of a when_changed callee could not be attributed to one call site
	p          *Prog
	ownerOf    map[string][]int // "t:v" -> true path of the activation that executes the when_changed key
	lastOnG    map[int64][]int  // goroutine -> path of the activation that printed last
	whenHash   map[string]string
	rootFile   string
	out        *RunOut
}

func parsePath(s string) ([]int, bool) {
	if s == "" {
		return nil, false
	}
	parts := strings.Split(s, ".")
	out := make([]int, len(parts))
	for i, q := range parts {
		n, err := strconv.Atoi(q)
		if err != nil {
			return nil, false
		}
		out[i] = n
	}
	return out, true
}

// truePath maps a path token (possibly rooted at a when_changed key Ktvv) to the model's call path.
func (r *runner) truePath(tok string) ([]int, bool) {
	if m := reKPath.FindStringSubmatch(tok); m != nil {
		owner, ok := r.ownerOf[m[1]+":"+m[2]]
		if !ok {
			return nil, false
		}
		rest := strings.TrimPrefix(m[3], ".")
		if rest == "" {
			return append([]int(nil), owner...), true
		}
		tail, ok := parsePath(rest)
		if !ok {
			return nil, false
		}
		return append(append([]int(nil), owner...), tail...), true
	}
	return parsePath(tok)
}

func atoi(s string) int { n, _ := strconv.Atoi(s); return n }

// nextSites: the call sites of activation c that can own the next line of target (t, v): for deps the
// first dep that targets it and owns no line yet; otherwise the first such task: call among the
// commands AND the last such deferred call (deferred calls run in reverse order) - whether the
// command loop got as far as that call or was cut short (a callee that fails its guards prints
// nothing) cannot be seen, so both are candidates.
func (r *runner) nextSites(c []int, t, v int, deps bool) [][]int {
	tc, vc, ok := r.p.Resolve(c)
	if !ok {
		return nil
	}
	tk := r.p.Tasks[tc]
	try := func(m int, cl Call) ([]int, bool) {
		if cl.Task != t || evalVar(vc, cl) != v {
			return nil, false
		}
		site := append(append([]int(nil), c...), m)
		if r.attributed[pathStr(site)] {
			return nil, false
		}
		return site, true
	}
	var out [][]int
	if deps {
		for j, d := range tk.Deps {
			if s, ok := try(j, d); ok {
				return [][]int{s}
			}
		}
		return nil
	}
	for k, cm := range tk.Cmds {
		if cm.Kind == "call" {
			if s, ok := try(len(tk.Deps)+k, *cm.Call); ok {
				out = append(out, s)
				break
			}
		}
	}
	for k := len(tk.Cmds) - 1; k >= 0; k-- {
		if cm := tk.Cmds[k]; cm.Kind == "dcall" {
			if s, ok := try(len(tk.Deps)+k, *cm.Call); ok {
				out = append(out, s)
				break
			}
		}
	}
	return out
}

func (r *runner) nextRoot(t, v int) ([]int, bool) {
	for k, rc := range r.p.Cfg.Roots {
		if rc.Task == t && rc.Var != nil && *rc.Var == v && !r.attributed[fmt.Sprint(k)] {
			return []int{k}, true
		}
	}
	return nil, false
}

// infer attributes a "started" / "not for current platform" line of a when_changed task (whose
// name carries its key, not its call site) to a call site: a nested call comes from the
// activation that printed last on the same goroutine or from one of its callers on that
// goroutine; the first line of a fresh goroutine belongs to a dep of the activation that printed
// last on the creating goroutine, or to a root call. More than one candidate = not attributed
// (the case is reported as inconclusive, never judged).
func (r *runner) infer(ev sched.Event, t, v int) ([]int, bool) {
	var cands [][]int
	if last, ok := r.lastOnG[ev.G]; ok {
		c := last
		for {
			cands = append(cands, r.nextSites(c, t, v, false)...)
			if len(c) <= 1 {
				// roots started one after the other share the goroutine of Run
				if s, ok := r.nextRoot(t, v); ok && !r.p.Cfg.Parallel {
					cands = append(cands, s)
				}
				break
			}
			par := c[:len(c)-1]
			if tp, _, ok := r.p.Resolve(par); ok && c[len(c)-1] < len(r.p.Tasks[tp].Deps) {
				break // c is a dep: it runs on its own goroutine
			}
			c = par
		}
	} else if parent, ok := r.lastOnG[ev.PG]; ok {
		cands = append(cands, r.nextSites(parent, t, v, true)...)
	} else if s, ok := r.nextRoot(t, v); ok {
		cands = append(cands, s)
	}
	if len(cands) != 1 {
		r.ambiguous = true
		return nil, false
	}
	return cands[0], true
}

func (r *runner) parse(ev sched.Event) (*Ev, bool) {
	d := ev.Data
	if m := reStarted.FindStringSubmatch(d); m != nil {
		t := atoi(m[1])
		var path []int
		var ok bool
		if k := reKPath.FindStringSubmatch(m[2]); k != nil && k[3] == "" {
			path, ok = r.infer(ev, t, atoi(k[2]))
		} else {
			path, ok = r.truePath(m[2])
		}
		if !ok {
			return nil, false
		}
		r.attributed[pathStr(path)] = true
		if r.p.Tasks[t].Run == "when_changed" {
			if _, v, ok := r.p.Resolve(path); ok {
				k := fmt.Sprintf("%d:%d", t, v)
				if _, seen := r.ownerOf[k]; !seen {
					r.ownerOf[k] = path
				}
			}
		}
		return &Ev{Kind: "started", Path: path, T: t}, true
	}
	if m := reFinished.FindStringSubmatch(d); m != nil {
		path, ok := r.truePath(m[2])
		return &Ev{Kind: "finished", Path: path}, ok
	}
	if m := rePlatform.FindStringSubmatch(d); m != nil {
		if k := reKPath.FindStringSubmatch(m[2]); k != nil && k[3] == "" {
			path, ok := r.infer(ev, atoi(m[1]), atoi(k[2]))
			if ok {
				r.attributed[pathStr(path)] = true
			}
			return &Ev{Kind: "platform", Path: path}, ok
		}
		path, ok := r.truePath(m[2])
		return &Ev{Kind: "platform", Path: path}, ok
	}
	if m := reSkipping.FindStringSubmatch(d); m != nil {
		k := m[1]
		if strings.HasPrefix(k, r.rootFile+":t") {
			t := strings.TrimSuffix(strings.TrimPrefix(k, r.rootFile+":t"), ":w-*")
			return &Ev{Kind: "skipping", Key: "once:" + t}, true
		}
		if key, ok := r.whenHash[k]; ok {
			return &Ev{Kind: "skipping", Key: key}, true
		}
		return nil, false
	}
	if m := reAnnounce.FindStringSubmatch(d); m != nil && ev.Stream == "err" {
		path, ok := r.truePath(m[3])
		if !ok {
			return nil, false
		}
		if m[2] == "P" {
			return &Ev{Kind: "announce", Path: path, I: atoi(m[4])}, true
		}
		return &Ev{Kind: "dannounce", Path: path, I: atoi(m[4])}, true
	}
	if m := reAnnounceE.FindStringSubmatch(d); m != nil && ev.Stream == "err" {
		// printed by the goroutine of the activation itself, whose last line was its own
		path, ok := r.lastOnG[ev.G]
		if !ok {
			return nil, false
		}
		if t, _, ok2 := r.p.Resolve(path); !ok2 || t != atoi(m[1]) {
			return nil, false
		}
		if m[2] == "P" {
			return &Ev{Kind: "announce", Path: path, I: atoi(m[3])}, true
		}
		return &Ev{Kind: "dannounce", Path: path, I: atoi(m[3])}, true
	}
	if m := reProbe.FindStringSubmatch(d); m != nil && ev.Stream == "out" {
		path, ok := r.truePath(m[2])
		if !ok {
			return nil, false
		}
		if m[1] == "P" {
			return &Ev{Kind: "probe", Path: path, I: atoi(m[3]), V: atoi(m[4])}, true
		}
		return &Ev{Kind: "dprobe", Path: path, I: atoi(m[3]), V: atoi(m[4]), Code: atoi(m[5])}, true
	}
	if m := reUpToDate.FindStringSubmatch(d); m != nil {
		// the line carries no call path: it is printed by the goroutine whose last line was this activation's "started"
		path, ok := r.lastOnG[ev.G]
		return &Ev{Kind: "uptodate", Path: path}, ok
	}
	return nil, false
}

func classify(err error) (string, string) {
	if err == nil {
		return "ROk", "ok"
	}
	var tre *taskerrors.TaskRunError
	if errors.As(err, &tre) {
		if c, ok := interp.IsExitStatus(tre.Err); ok {
			return fmt.Sprintf("(RErr (ETaskRun (Some %d)))", c), err.Error()
		}
		return "(RErr (ETaskRun None))", err.Error()
	}
	if te, ok := err.(taskerrors.TaskError); ok {
		return fmt.Sprintf("(RErr (ECode %d))", te.Code()), err.Error()
	}
	if c, ok := interp.IsExitStatus(err); ok {
		return fmt.Sprintf("(RErr (EExit %d))", c), err.Error()
	}
	if errors.Is(err, context.Canceled) {
		return "(RErr ECancel)", err.Error()
	}
	if errors.Is(err, task.ErrPreconditionFailed) {
		return "(RErr EPrecond)", err.Error()
	}
	return "(RErr (ECode 1))", err.Error()
}

// Execute runs the program on the real Executor under the controlled scheduler.
func Execute(p *Prog, seed int64, procs int, script []string, prefix []int) (*RunOut, error) {
	dir, err := os.MkdirTemp("", "vh-exec")
	if err != nil {
		return nil, err
	}
	defer os.RemoveAll(dir)
	dir, _ = filepath.EvalSymlinks(dir)
	y, _ := yaml.Marshal(p.Taskfile())
	if err := os.WriteFile(filepath.Join(dir, "Taskfile.yml"), y, 0o644); err != nil {
		return nil, err
	}
	out := &RunOut{Procs: procs}
	r := &runner{attributed: map[string]bool{}, p: p, ownerOf: map[string][]int{}, lastOnG: map[int64][]int{}, whenHash: map[string]string{}, out: out,
		rootFile: filepath.Join(dir, "Taskfile.yml")}

	// hashes of the when_changed keys (computed on a separate Executor so the run's state is untouched)
	{
		e0 := task.NewExecutor(task.WithDir(dir), task.WithStdout(devNull{}), task.WithStderr(devNull{}))
		if err := e0.Setup(); err != nil {
			return nil, fmt.Errorf("setup(aux): %w\n%s", err, y)
		}
		for i, t := range p.Tasks {
			if t.Run != "when_changed" {
				continue
			}
			for v := 0; v < 3; v++ {
				vars := ast.NewVars()
				vars.Set("V", ast.Var{Value: fmt.Sprint(v)})
				// exactly the name and variables every call of this key uses (the hash covers the variables, MATCH included)
				ct, err := e0.CompiledTask(&task.Call{Task: fmt.Sprintf("t%d:w-K%dv%d", i, i, v), Vars: vars})
				if err != nil {
					continue
				}
				if h, err := hash.Hash(ct); err == nil {
					r.whenHash[h] = fmt.Sprintf("when:%d:%d", i, v)
				}
			}
		}
	}

	ctl := sched.New()
	ctl.AutoRelease = autoRelease
	ctl.MaxSteps = 20000
	if p.maxSteps > 0 {
		ctl.MaxSteps = p.maxSteps
	}
	opts := []task.ExecutorOption{task.WithDir(dir), task.WithStdout(ctl.Writer("out")), task.WithStderr(ctl.Writer("err")),
		task.WithVerbose(true), task.WithConcurrency(p.Cfg.N), task.WithParallel(p.Cfg.Parallel), task.WithForce(p.Cfg.Force),
		task.WithForceAll(p.Cfg.ForceAll), task.WithAssumeYes(p.Cfg.Yes)}
	e := task.NewExecutor(opts...)
	if err := e.Setup(); err != nil {
		return nil, fmt.Errorf("setup: %w\n%s", err, y)
	}
	var calls []*task.Call
	for k, rc := range p.Cfg.Roots {
		vars := ast.NewVars()
		vars.Set("V", ast.Var{Value: fmt.Sprint(*rc.Var)})
		calls = append(calls, &task.Call{Task: p.rootName(k), Vars: vars})
	}
	old := runtime.GOMAXPROCS(procs)
	defer func() { runtime.GOMAXPROCS(old) }()
	rr := rand.New(rand.NewSource(seed))
	var ch sched.Chooser = sched.RandChooser{R: rr}
	if seed%2 == 0 {
		ch = &sched.StarveChooser{R: rr, After: rr.Intn(12)}
	}
	if script != nil {
		ch = &sched.ScriptChooser{Labels: script}
	}
	var ic *sched.IndexChooser
	if prefix != nil {
		ic = &sched.IndexChooser{Prefix: prefix}
		ch = ic
	}
	res := ctl.Run(func() error { return e.Run(context.Background(), calls...) }, ch)
	out.Deadlock, out.Overrun = res.Deadlock, res.Overrun
	if ic != nil {
		out.Taken, out.Width = ic.Taken, ic.Width
	}
	if res.Deadlock || res.Overrun {
		out.Stacks = res.Stacks
		ctl.ReleaseAll()
	} else {
		out.Result, out.ResultStr = classify(res.Err)
	}
	// translate
	arrived := map[int]sched.Event{}
	dropped := map[int]bool{}
	for _, ev := range ctl.Events {
		if ev.Kind == "arrive" {
			arrived[ev.ID] = ev
			if autoRelease(ev.Stream, []byte(ev.Data)) {
				dropped[ev.ID] = true
				continue
			}
			aev, ok := r.parse(ev)
			if !ok {
				out.Unparsed = append(out.Unparsed, ev.Data)
				dropped[ev.ID] = true
				continue
			}
			ob := Ob{Arr: true, ID: ev.ID, Ev: aev}
			if aev.Kind == "skipping" {
				if h, ok := r.lastOnG[ev.G]; ok {
					ob.Hint = h
				} else if h, ok := r.lastOnG[ev.PG]; ok {
					ob.Hint = h
				}
			} else {
				r.lastOnG[ev.G] = aev.Path
			}
			out.Obs = append(out.Obs, ob)
		} else {
			if dropped[ev.ID] {
				continue
			}
			out.Obs = append(out.Obs, Ob{Arr: false, ID: ev.ID})
			a := arrived[ev.ID]
			out.Schedule = append(out.Schedule, a.Stream+":"+strings.TrimRight(a.Data, "\n"))
			out.Steps++
		}
	}
	// Writes that arrive between two releases are parked at the same time: their order in the log is
	// the order in which the goroutines reached the gate, not something a user can observe.  The
	// machine prints "started" in the step that registers a shared execution, the implementation
	// prints it after releasing the table lock, so a waiter's "skipping" line can reach the gate
	// first.  Canonical order within such a batch: "skipping" lines last.
	for i := 0; i < len(out.Obs); {
		j := i
		for j < len(out.Obs) && out.Obs[j].Arr {
			j++
		}
		if j-i > 1 {
			sort.SliceStable(out.Obs[i:j], func(a, b int) bool {
				return out.Obs[i+a].Ev.Kind != "skipping" && out.Obs[i+b].Ev.Kind == "skipping"
			})
		}
		if j == i {
			j++
		}
		i = j
	}
	out.Ambiguous = r.ambiguous
	return out, nil
}

type devNull struct{}

func (devNull) Write(p []byte) (int, error) { return len(p), nil }

type countLines struct {
	mu sync.Mutex
	n  int
}

func (c *countLines) Write(p []byte) (int, error) {
	c.mu.Lock()
	c.n += strings.Count(string(p), "leaf-ran") + strings.Count(string(p), "P|")
	c.mu.Unlock()
	return len(p), nil
}

// Fanout runs (without the scheduler) an acyclic Taskfile whose default task calls one leaf task
// `calls` times in sequence; it returns the number of leaf executions and the classified result.
func Fanout(calls int) (int, string, error) {
	dir, err := os.MkdirTemp("", "vh-fanout")
	if err != nil {
		return 0, "", err
	}
	defer os.RemoveAll(dir)
	var cmds []any
	for i := 0; i < calls; i++ {
		cmds = append(cmds, map[string]any{"task": "leaf"})
	}
	y, _ := yaml.Marshal(map[string]any{"version": "3", "silent": true, "tasks": map[string]any{
		"default": map[string]any{"cmds": cmds},
		"leaf":    map[string]any{"cmds": []any{"echo leaf-ran"}},
	}})
	if err := os.WriteFile(filepath.Join(dir, "Taskfile.yml"), y, 0o644); err != nil {
		return 0, "", err
	}
	cl := &countLines{}
	e := task.NewExecutor(task.WithDir(dir), task.WithStdout(cl), task.WithStderr(devNull{}))
	if err := e.Setup(); err != nil {
		return 0, "", err
	}
	res, _ := classify(e.Run(context.Background(), &task.Call{Task: "default"}))
	return cl.n, res, nil
}

// lineReader hands out one line per Read (Logger.Prompt wraps Stdin in a fresh bufio.Reader for
// every prompt, so a plain reader would lose the later answers in the first one's buffer).
type lineReader struct{ lines []string }

func (l *lineReader) Read(p []byte) (int, error) {
	if len(l.lines) == 0 {
		return 0, io.EOF
	}
	n := copy(p, l.lines[0]+"\n")
	l.lines = l.lines[1:]
	return n, nil
}

// PromptList runs (without the scheduler) a task with a list of prompts, answering them from
// stdin; it returns whether the command ran and the classified result.
func PromptList(nprompts int, answers []string, asDep bool) (bool, string, error) {
	dir, err := os.MkdirTemp("", "vh-prompts")
	if err != nil {
		return false, "", err
	}
	defer os.RemoveAll(dir)
	var prompts []any
	for i := 0; i < nprompts; i++ {
		prompts = append(prompts, fmt.Sprintf("question %d?", i))
	}
	tasks := map[string]any{"guarded": map[string]any{"prompt": prompts, "cmds": []any{"echo leaf-ran"}}}
	root := "guarded"
	if asDep {
		tasks["top"] = map[string]any{"deps": []any{"guarded"}, "cmds": []any{"echo leaf-ran"}}
		root = "top"
	}
	y, _ := yaml.Marshal(map[string]any{"version": "3", "silent": true, "tasks": tasks})
	if err := os.WriteFile(filepath.Join(dir, "Taskfile.yml"), y, 0o644); err != nil {
		return false, "", err
	}
	cl := &countLines{}
	e := task.NewExecutor(task.WithDir(dir), task.WithStdout(cl), task.WithStderr(devNull{}),
		task.WithStdin(&lineReader{lines: answers}), task.WithAssumeTerm(true))
	if err := e.Setup(); err != nil {
		return false, "", err
	}
	res, _ := classify(e.Run(context.Background(), &task.Call{Task: root}))
	return cl.n > 0, res, nil
}

// RunCyclicCLI runs a (possibly) cyclic program with the real task binary in a child process
// (deadline, address-space limit): a cycle the call limit no longer ends must not take the driver
// down with it.  The process is judged from outside: exit status, number of probe lines printed,
// and — when the deadline kills it — the CPU time it used (none: it is blocked; lots: it is
// still running).
func RunCyclicCLI(p *Prog, deadline time.Duration) (*RunOut, error) {
	bin := os.Getenv("VERIF_TASK_BIN")
	if bin == "" {
		return nil, fmt.Errorf("VERIF_TASK_BIN not set")
	}
	dir, err := os.MkdirTemp("", "vh-cyc")
	if err != nil {
		return nil, err
	}
	defer os.RemoveAll(dir)
	p.flat = true
	y, _ := yaml.Marshal(p.Taskfile())
	p.flat = false
	if err := os.WriteFile(filepath.Join(dir, "Taskfile.yml"), y, 0o644); err != nil {
		return nil, err
	}
	args := []string{"-d", dir, "--silent", "-v"}
	if p.Cfg.N > 0 {
		args = append(args, "-C", fmt.Sprint(p.Cfg.N))
	}
	for _, rc := range p.Cfg.Roots {
		args = append(args, fmt.Sprintf("t%d:w-x", rc.Task), fmt.Sprintf("V=%d", *rc.Var))
	}
	ctx, cancel := context.WithTimeout(context.Background(), deadline)
	defer cancel()
	// 6 GB of address space: a runaway recursion dies instead of eating the machine
	cmd := osexec.CommandContext(ctx, "sh", append([]string{"-c", "ulimit -v 6000000; exec \"$0\" \"$@\"", bin}, args...)...)
	cl := &countLines{}
	st := &countStarts{}
	cmd.Stdout = cl
	cmd.Stderr = st
	// a run that the call limit ends starts every task fewer than MaximumTaskCall times
	startBound := int64(len(p.Tasks)*p.Cfg.MaxCall + 50)
	if err := cmd.Start(); err != nil {
		return nil, err
	}
	// watchdog: no CPU time consumed and nothing printed for 3 s = the process is blocked
	blocked := make(chan struct{})
	runaway := make(chan struct{})
	stop := make(chan struct{})
	go func() {
		last, idle := int64(-1), 0
		for {
			select {
			case <-stop:
				return
			case <-time.After(500 * time.Millisecond):
			}
			cl.mu.Lock()
			n := int64(cl.n)
			cl.mu.Unlock()
			ns := st.count()
			if ns > startBound {
				close(runaway)
				_ = cmd.Process.Kill()
				return
			}
			cur := procTicks(cmd.Process.Pid) + n + ns
			if cur == last {
				idle++
			} else {
				idle = 0
			}
			last = cur
			if idle >= 12 {
				close(blocked)
				_ = cmd.Process.Kill()
				return
			}
		}
	}()
	runErr := cmd.Wait()
	close(stop)
	out := &RunOut{Procs: 0}
	out.Steps = cl.n
	cpu := time.Duration(0)
	if cmd.ProcessState != nil {
		cpu = cmd.ProcessState.UserTime() + cmd.ProcessState.SystemTime()
	}
	select {
	case <-blocked:
		out.Deadlock = true
		out.Stacks = fmt.Sprintf("no CPU time and no output for 6 s (total %s of CPU time, %d probe lines, %d task starts): blocked", cpu, cl.n, st.count())
		return out, nil
	case <-runaway:
		// not a matter of time: more task starts than the call limit can let through
		out.Overrun = true
		out.Stacks = fmt.Sprintf("%d task starts, more than %d tasks x MaximumTaskCall allow (%s of CPU time, %d probe lines): the call limit does not end the cycle", st.count(), len(p.Tasks), cpu, cl.n)
		return out, nil
	default:
	}
	if ctx.Err() != nil {
		// slow machine: neither blocked nor beyond the bound when the (generous) deadline struck
		out.Inconclusive = fmt.Sprintf("killed after %s with %s of CPU time, %d probe lines, %d task starts (bound %d): no verdict", deadline, cpu, cl.n, st.count(), startBound)
		return out, nil
	}
	code := 0
	if ee, ok := runErr.(*osexec.ExitError); ok {
		code = ee.ExitCode()
	} else if runErr != nil {
		return nil, runErr
	}
	switch code {
	case 0:
		out.Result = "ROk"
	case 201:
		out.Result = "(RErr (ETaskRun None))"
	default:
		out.Result = fmt.Sprintf("(RErr (ECode %d))", code)
	}
	out.ResultStr = fmt.Sprintf("exit status %d", code)
	return out, nil
}

// procTicks: utime+stime of a process in clock ticks (0 if it cannot be read).
func procTicks(pid int) int64 {
	b, err := os.ReadFile(fmt.Sprintf("/proc/%d/stat", pid))
	if err != nil {
		return 0
	}
	t := string(b)
	if i := strings.LastIndex(t, ")"); i >= 0 {
		f := strings.Fields(t[i+1:])
		if len(f) > 13 {
			u, _ := strconv.ParseInt(f[11], 10, 64)
			sy, _ := strconv.ParseInt(f[12], 10, 64)
			return u + sy
		}
	}
	return 0
}

// Scenario: a small hand-written project run by the real Executor without the scheduler; judged on
// the classified result, on text that must not be printed and on how often a marker is printed.
type Scenario struct {
	Name    string            `json:"name"`
	Files   map[string]string `json:"files"`
	Calls   []string          `json:"calls"`
	Want    string            `json:"want"`             // classified result, "" = any error
	Forbid  string            `json:"forbid,omitempty"` // must not appear in the output
	Marker  string            `json:"marker,omitempty"` // counted in the output
	WantN   int               `json:"want_n,omitempty"`
	Comment string            `json:"comment,omitempty"`
}

type textSink struct {
	mu sync.Mutex
	b  strings.Builder
}

func (t *textSink) Write(p []byte) (int, error) {
	t.mu.Lock()
	t.b.Write(p)
	t.mu.Unlock()
	return len(p), nil
}

// RunScenario returns "" when the scenario behaves as wanted, else what differs.
func RunScenario(sc Scenario) (string, error) {
	dir, err := os.MkdirTemp("", "vh-scn")
	if err != nil {
		return "", err
	}
	defer os.RemoveAll(dir)
	for name, body := range sc.Files {
		if err := os.MkdirAll(filepath.Dir(filepath.Join(dir, name)), 0o755); err != nil {
			return "", err
		}
		if err := os.WriteFile(filepath.Join(dir, name), []byte(body), 0o644); err != nil {
			return "", err
		}
	}
	sink := &textSink{}
	e := task.NewExecutor(task.WithDir(dir), task.WithStdout(sink), task.WithStderr(devNull{}), task.WithSilent(true))
	if err := e.Setup(); err != nil {
		return "", fmt.Errorf("setup %s: %w", sc.Name, err)
	}
	var calls []*task.Call
	for _, c := range sc.Calls {
		calls = append(calls, &task.Call{Task: c})
	}
	res, _ := classify(e.Run(context.Background(), calls...))
	out := sink.b.String()
	var diff []string
	if sc.Want == "" {
		if res == "ROk" {
			diff = append(diff, "result ROk, an error was expected")
		}
	} else if res != sc.Want {
		diff = append(diff, fmt.Sprintf("result %s, expected %s", res, sc.Want))
	}
	if sc.Forbid != "" && strings.Contains(out, sc.Forbid) {
		diff = append(diff, fmt.Sprintf("%q was printed (a command that must not run ran)", sc.Forbid))
	}
	if sc.Marker != "" {
		if n := strings.Count(out, sc.Marker); n != sc.WantN {
			diff = append(diff, fmt.Sprintf("%q printed %d times, expected %d", sc.Marker, n, sc.WantN))
		}
	}
	return strings.Join(diff, "; "), nil
}

// GuardScenarios (C13): guards that depend on HOW a task is named or on the values of one call.
func GuardScenarios() []Scenario {
	internalTf := "version: '3'\ntasks:\n  default: {cmds: [echo public]}\n  helper: {internal: true, aliases: [h], cmds: [echo INTERNAL-RAN]}\n  'gen-*': {internal: true, cmds: [echo INTERNAL-RAN]}\n"
	enumTf := "version: '3'\ntasks:\n  deploy:\n    run: once\n    requires: {vars: [{name: MODE, enum: [dev, prod]}]}\n    cmds: [echo deploy-ran]\n" +
		"  good: {deps: [{task: deploy, vars: {MODE: dev}}], cmds: [echo good-ran]}\n" +
		"  bad: {deps: [{task: deploy, vars: {MODE: bogus}}], cmds: [echo BAD-RAN]}\n" +
		"  pipeline: {cmds: [{task: deploy, vars: {MODE: dev}}, {task: deploy, vars: {MODE: bogus}}, echo BAD-RAN]}\n"
	inc := map[string]string{
		"Taskfile.yml": "version: '3'\nincludes:\n  priv: {taskfile: ./priv.yml, internal: true}\ntasks:\n  default: {cmds: [echo public]}\n",
		"priv.yml":     "version: '3'\ntasks:\n  default: {cmds: [echo INTERNAL-RAN]}\n",
	}
	one := func(body string) map[string]string { return map[string]string{"Taskfile.yml": body} }
	return []Scenario{
		{Name: "internal-by-name", Files: one(internalTf), Calls: []string{"helper"}, Want: "(RErr (ECode 202))", Forbid: "INTERNAL-RAN"},
		{Name: "internal-by-alias", Files: one(internalTf), Calls: []string{"h"}, Want: "(RErr (ECode 202))", Forbid: "INTERNAL-RAN"},
		{Name: "internal-by-wildcard", Files: one(internalTf), Calls: []string{"gen-x"}, Want: "(RErr (ECode 202))", Forbid: "INTERNAL-RAN"},
		{Name: "internal-second-argument", Files: one(internalTf), Calls: []string{"default", "h"}, Want: "(RErr (ECode 202))", Forbid: "INTERNAL-RAN"},
		{Name: "internal-include-namespace", Files: inc, Calls: []string{"priv"}, Want: "(RErr (ECode 202))", Forbid: "INTERNAL-RAN"},
		{Name: "enum-on-shared-task-via-deps", Files: one(enumTf), Calls: []string{"good", "bad"}, Want: "(RErr (ECode 207))", Forbid: "BAD-RAN"},
		{Name: "enum-on-shared-task-via-calls", Files: one(enumTf), Calls: []string{"pipeline"}, Want: "(RErr (ETaskRun None))", Forbid: "BAD-RAN"},
		{Name: "enum-ok-control", Files: one(enumTf), Calls: []string{"good"}, Want: "ROk", Marker: "deploy-ran", WantN: 1},
	}
}

// WhenKeyScenarios (C06): a when_changed task is one execution per distinct ASSIGNMENT of values to
// its variables, also when the values only reach its env or the vars of its own sub-calls.
func WhenKeyScenarios() []Scenario {
	calls := "      - {task: W, vars: {A: a, B: b}}\n      - {task: W, vars: {A: b, B: a}}\n      - {task: W, vars: {A: a, B: a}}\n      - {task: W, vars: {A: b, B: b}}\n      - {task: W, vars: {A: a, B: b}}\n"
	mk := func(w string) map[string]string {
		return map[string]string{"Taskfile.yml": "version: '3'\ntasks:\n  default:\n    cmds:\n" + strings.ReplaceAll(calls, "W", "w") + w}
	}
	return []Scenario{
		{Name: "when-changed-env-only", Files: mk("  w: {run: when_changed, env: {E1: '{{.A}}', E2: '{{.B}}'}, cmds: ['echo w-ran $E1 $E2']}\n"), Calls: []string{"default"}, Want: "ROk", Marker: "w-ran", WantN: 4},
		{Name: "when-changed-subcall-only", Files: mk("  w: {run: when_changed, cmds: [{task: leaf, vars: {X: '{{.A}}', Y: '{{.B}}'}}]}\n  leaf: {cmds: ['echo w-ran {{.X}} {{.Y}}']}\n"), Calls: []string{"default"}, Want: "ROk", Marker: "w-ran", WantN: 4},
		{Name: "when-changed-cmd-text", Files: mk("  w: {run: when_changed, cmds: ['echo w-ran {{.A}} {{.B}}']}\n"), Calls: []string{"default"}, Want: "ROk", Marker: "w-ran", WantN: 4},
		{Name: "when-changed-unused-values", Files: mk("  w: {run: when_changed, cmds: ['echo w-ran']}\n"), Calls: []string{"default"}, Want: "ROk", Marker: "w-ran", WantN: 4},
	}
}

type countStarts struct {
	mu sync.Mutex
	n  int64
}

func (c *countStarts) Write(p []byte) (int, error) {
	c.mu.Lock()
	c.n += int64(strings.Count(string(p), "\" started\n"))
	c.mu.Unlock()
	return len(p), nil
}

func (c *countStarts) count() int64 {
	c.mu.Lock()
	defer c.mu.Unlock()
	return c.n
}

// CallVarScenarios (C02): "variables passed in a call are the ones the callee sees" - also when the
// callee lives in an included Taskfile that declares a default for the same name, for direct
// calls, for-loop calls and at include depth 2.
func CallVarScenarios() []Scenario {
	root := "version: '3'\nincludes:\n  lib: {taskfile: ./lib}\n  short: ./lib2\ntasks:\n" +
		"  direct: {cmds: [{task: 'lib:show', vars: {MODE: passed-1}}]}\n" +
		"  looped: {cmds: [{for: [loop-a, loop-b], task: 'lib:show', vars: {MODE: '{{.ITEM}}'}}]}\n" +
		"  deep: {cmds: [{task: 'lib:inner:show', vars: {MODE: passed-deep}}]}\n" +
		"  viadep: {deps: [{task: 'lib:show', vars: {MODE: passed-dep}}]}\n" +
		"  shortform: {cmds: [{task: 'short:show', vars: {MODE: passed-short}}]}\n" +
		"  local: {cmds: [{task: here, vars: {MODE: passed-local}}]}\n" +
		"  here: {vars: {OTHER: x}, cmds: ['echo MODE={{.MODE}}']}\n"
	lib := "version: '3'\nvars: {MODE: lib-default}\nincludes:\n  inner: {taskfile: ./inner}\ntasks:\n  show: {cmds: ['echo MODE={{.MODE}}']}\n"
	inner := "version: '3'\nvars: {MODE: inner-default}\ntasks:\n  show: {cmds: ['echo MODE={{.MODE}}']}\n"
	lib2 := "version: '3'\nvars: {MODE: lib2-default}\ntasks:\n  show: {cmds: ['echo MODE={{.MODE}}']}\n"
	files := map[string]string{"Taskfile.yml": root, "lib/Taskfile.yml": lib, "lib/inner/Taskfile.yml": inner, "lib2/Taskfile.yml": lib2}
	mk := func(name, call, marker string, n int) Scenario {
		return Scenario{Name: name, Files: files, Calls: []string{call}, Want: "ROk", Marker: marker, WantN: n}
	}
	return []Scenario{
		mk("callvar-included-direct", "direct", "MODE=passed-1", 1),
		mk("callvar-included-loop-a", "looped", "MODE=loop-a", 1),
		mk("callvar-included-loop-b", "looped", "MODE=loop-b", 1),
		mk("callvar-included-depth2", "deep", "MODE=passed-deep", 1),
		mk("callvar-included-dep", "viadep", "MODE=passed-dep", 1),
		mk("callvar-included-shortform", "shortform", "MODE=passed-short", 1),
		mk("callvar-local", "local", "MODE=passed-local", 1),
	}
}
