// Package exec is the correspondence driver for model A (the concurrent executor).
package exec

import (
	"fmt"
	"math/rand"
	"runtime"
	"strings"

	cg "github.com/go-task/task/v3/verifharness/coqgen"
)

// Abstract programs: mirror of coq/Exec/Model.v.

type Call struct {
	Task int  `json:"task"`
	Var  *int `json:"var"` // nil = inherit the caller's
}

type Cmd struct {
	Kind string `json:"kind"` // shell | call | dshell | dcall
	Exit int    `json:"exit,omitempty"`
	Ign  bool   `json:"ign,omitempty"`
	Call *Call  `json:"call,omitempty"`
}

type Guards struct {
	Platform bool  `json:"platform"`
	Required bool  `json:"required"`
	Enum     bool  `json:"enum"`
	Precond  *bool `json:"precond"`
	Prompt   bool  `json:"prompt"`
	UpToDate bool  `json:"uptodate"`
}

type Task struct {
	Deps     []Call `json:"deps"`
	Cmds     []Cmd  `json:"cmds"`
	Run      string `json:"run"` // always | once | when_changed
	Ignore   bool   `json:"ignore"`
	Internal bool   `json:"internal"`
	G        Guards `json:"g"`
}

type Cfg struct {
	N        int    `json:"n"` // 0 = unlimited
	Parallel bool   `json:"parallel"`
	Force    bool   `json:"force"`
	ForceAll bool   `json:"force_all"`
	Yes      bool   `json:"yes"`
	Roots    []Call `json:"roots"`
	MaxCall  int    `json:"maxcall"`
}

type Prog struct {
	Tasks []Task `json:"tasks"`
	Cfg   Cfg    `json:"cfg"`
	// scheduler step budget of a run (0 = default); cyclic programs get a budget of a few times
	// what MaximumTaskCall calls can print, so a cycle the call limit no longer ends is noticed
	maxSteps int
	// flat rendering (cyclic programs run through the CLI): call names do not carry the call path
	// (which would grow with every round of the cycle); a depth counter D is passed along instead,
	// so every round still calls with different variable values
	flat bool
}

func okGuards() Guards { return Guards{Platform: true, Required: true, Enum: true} }

// ---------- Coq rendering ----------

func callCoq(c Call) string {
	v := "VInherit"
	if c.Var != nil {
		v = fmt.Sprintf("(VConst %d)", *c.Var)
	}
	return fmt.Sprintf("{| c_task := %d; c_var := %s |}", c.Task, v)
}

func (p *Prog) Coq() (string, string) {
	var ts []string
	for _, t := range p.Tasks {
		var deps, cmds []string
		for _, d := range t.Deps {
			deps = append(deps, callCoq(d))
		}
		for _, c := range t.Cmds {
			switch c.Kind {
			case "shell":
				cmds = append(cmds, fmt.Sprintf("Shell %d %s", c.Exit, cg.Bool(c.Ign)))
			case "call":
				cmds = append(cmds, "CallC "+callCoq(*c.Call))
			case "dshell":
				cmds = append(cmds, fmt.Sprintf("DeferShell %d", c.Exit))
			case "dcall":
				cmds = append(cmds, "DeferCall "+callCoq(*c.Call))
			}
		}
		run := map[string]string{"always": "Always", "once": "Once", "when_changed": "WhenChanged"}[t.Run]
		pre := "None"
		if t.G.Precond != nil {
			pre = "(Some " + cg.Bool(*t.G.Precond) + ")"
		}
		g := fmt.Sprintf("{| g_platform := %s; g_required := %s; g_enum := %s; g_precond := %s; g_prompt := %s; g_uptodate := %s |}",
			cg.Bool(t.G.Platform), cg.Bool(t.G.Required), cg.Bool(t.G.Enum), pre, cg.Bool(t.G.Prompt), cg.Bool(t.G.UpToDate))
		ts = append(ts, fmt.Sprintf("{| t_deps := %s; t_cmds := %s; t_run := %s; t_ignore := %s; t_internal := %s; t_g := %s |}",
			cg.List(deps), cg.List(cmds), run, cg.Bool(t.Ignore), cg.Bool(t.Internal), g))
	}
	var roots []string
	for _, r := range p.Cfg.Roots {
		roots = append(roots, callCoq(r))
	}
	n := "None"
	if p.Cfg.N > 0 {
		n = fmt.Sprintf("(Some %d)", p.Cfg.N)
	}
	cfg := fmt.Sprintf("{| cf_N := %s; cf_parallel := %s; cf_force := %s; cf_forceall := %s; cf_yes := %s; cf_roots := %s; cf_maxcall := %d |}",
		n, cg.Bool(p.Cfg.Parallel), cg.Bool(p.Cfg.Force), cg.Bool(p.Cfg.ForceAll), cg.Bool(p.Cfg.Yes), cg.List(roots), p.Cfg.MaxCall)
	return cg.List(ts), cfg
}

// ---------- static resolution (mirror of Monitors.resolve) ----------

func evalVar(own int, c Call) int {
	if c.Var != nil {
		return *c.Var
	}
	return own
}

// Resolve returns (task, var) of a call path, ok=false if the path does not exist.
func (p *Prog) Resolve(path []int) (int, int, bool) {
	if len(path) == 0 || path[0] >= len(p.Cfg.Roots) {
		return 0, 0, false
	}
	t := p.Cfg.Roots[path[0]].Task
	v := evalVar(0, p.Cfg.Roots[path[0]])
	for _, m := range path[1:] {
		tk := p.Tasks[t]
		if m < len(tk.Deps) {
			v = evalVar(v, tk.Deps[m])
			t = tk.Deps[m].Task
			continue
		}
		i := m - len(tk.Deps)
		if i >= len(tk.Cmds) || tk.Cmds[i].Call == nil {
			return 0, 0, false
		}
		v = evalVar(v, *tk.Cmds[i].Call)
		t = tk.Cmds[i].Call.Task
	}
	return t, v, true
}

// Size counts activations of the fully expanded call tree (no dedup), capped.
func (p *Prog) Size(limit int) int {
	var rec func(t, depth int) int
	rec = func(t, depth int) int {
		if depth > 12 {
			return limit + 1
		}
		n := 1
		tk := p.Tasks[t]
		for _, d := range tk.Deps {
			n += rec(d.Task, depth+1)
			if n > limit {
				return n
			}
		}
		for _, c := range tk.Cmds {
			if c.Call != nil {
				n += rec(c.Call.Task, depth+1)
				if n > limit {
					return n
				}
			}
		}
		return n
	}
	total := 0
	for _, r := range p.Cfg.Roots {
		total += rec(r.Task, 0)
		if total > limit {
			return total
		}
	}
	return total
}

// ---------- generator ----------

type GenOpts struct {
	MaxTasks  int
	Cyclic    bool
	NoGuards  bool
	MaxActs   int
	ForceMode bool
}

func intp(n int) *int    { return &n }
func boolp(b bool) *bool { return &b }

func genCall(r *rand.Rand, lo, n int) Call {
	c := Call{Task: lo + r.Intn(n-lo)}
	switch r.Intn(3) {
	case 0:
		c.Var = nil
	default:
		c.Var = intp(r.Intn(3))
	}
	return c
}

// Gen builds an acyclic program: task i only references tasks with a larger index.
func Gen(r *rand.Rand, o GenOpts) *Prog {
	for {
		n := 2 + r.Intn(o.MaxTasks-1)
		p := &Prog{}
		for i := 0; i < n; i++ {
			t := Task{Run: "always", G: okGuards()}
			switch r.Intn(10) {
			case 0, 1, 2:
				t.Run = "once"
			case 3, 4:
				t.Run = "when_changed"
			}
			if i < n-1 {
				nd := 0
				if r.Intn(2) == 0 {
					nd = 1 + r.Intn(3)
				}
				for j := 0; j < nd; j++ {
					t.Deps = append(t.Deps, genCall(r, i+1, n))
				}
			}
			nc := r.Intn(5)
			sawDefer := false
			for j := 0; j < nc; j++ {
				k := r.Intn(10)
				switch {
				case k < 5 || i == n-1 && k < 8:
					c := Cmd{Kind: "shell"}
					if r.Intn(5) == 0 {
						c.Exit = []int{1, 2, 7, 126, 255}[r.Intn(5)]
						c.Ign = r.Intn(100) < 30
					}
					t.Cmds = append(t.Cmds, c)
				case k < 8 && i < n-1:
					cl := genCall(r, i+1, n)
					t.Cmds = append(t.Cmds, Cmd{Kind: "call", Call: &cl})
				case k == 8 || i == n-1:
					dc := Cmd{Kind: "dshell"}
					if r.Intn(4) == 0 {
						dc.Exit = 5 // a failing deferred command: ignored, and it must not leak into EXIT_CODE
					}
					t.Cmds = append(t.Cmds, dc)
					sawDefer = true
				default:
					cl := genCall(r, i+1, n)
					t.Cmds = append(t.Cmds, Cmd{Kind: "dcall", Call: &cl})
					sawDefer = true
				}
			}
			_ = sawDefer
			t.Ignore = r.Intn(100) < 12
			if !o.NoGuards && r.Intn(100) < 20 {
				switch r.Intn(6) {
				case 0:
					t.G.Platform = false
				case 1:
					t.G.Required = false
				case 2:
					t.G.Enum = false
				case 3:
					t.G.Precond = boolp(r.Intn(3) == 0)
				case 4:
					t.G.Prompt = true
				case 5:
					t.G.UpToDate = true
				}
			}
			if !o.NoGuards && i > 0 && r.Intn(100) < 5 {
				t.Internal = true
			}
			p.Tasks = append(p.Tasks, t)
		}
		if o.Cyclic {
			// add one back edge
			i := 1 + r.Intn(n-1)
			j := r.Intn(i + 1)
			cl := Call{Task: j}
			if r.Intn(2) == 0 {
				p.Tasks[i].Deps = append(p.Tasks[i].Deps, cl)
			} else {
				p.Tasks[i].Cmds = append(p.Tasks[i].Cmds, Cmd{Kind: "call", Call: &cl})
			}
		}
		nr := 1
		if r.Intn(4) == 0 {
			nr = 2
		}
		for k := 0; k < nr; k++ {
			t := 0
			if k > 0 || r.Intn(4) == 0 {
				t = r.Intn(n)
			}
			if o.Cyclic {
				t = 0
			}
			p.Cfg.Roots = append(p.Cfg.Roots, Call{Task: t, Var: intp(r.Intn(3))})
		}
		p.Cfg.N = []int{0, 1, 2, 3}[r.Intn(4)]
		p.Cfg.Parallel = nr > 1 && r.Intn(2) == 0
		p.Cfg.Yes = r.Intn(3) == 0
		if r.Intn(8) == 0 {
			p.Cfg.Force = true
		}
		if r.Intn(12) == 0 {
			p.Cfg.ForceAll = true
		}
		p.Cfg.MaxCall = 1000
		if o.Cyclic || p.Size(o.MaxActs) <= o.MaxActs {
			return p
		}
	}
}

// ---------- Taskfile rendering ----------

// task names carry a colon and share their last segment ("t3:w-*"): keys derived from a suffix of the name would collide
func taskName(i int) string { return fmt.Sprintf("t%d:w-*", i) }

// viaShVar: odd-numbered when_changed tasks whose first command is a shell command receive their
// value through a sh: variable (so that only the fully compiled task distinguishes the calls)
func (p *Prog) viaShVar(i int) bool {
	t := p.Tasks[i]
	return t.Run == "when_changed" && i%2 == 1 && !p.viaEnv(i) && len(t.Cmds) > 0 && t.Cmds[0].Kind == "shell" && len(t.Deps) == 0
}

// viaEnv: every third when_changed task that only has shell commands receives its value through
// its env: block alone (the command texts mention $E, never {{.V}})
func (p *Prog) viaEnv(i int) bool {
	t := p.Tasks[i]
	if t.Run != "when_changed" || i%3 != 2 || len(t.Deps) > 0 || len(t.Cmds) == 0 {
		return false
	}
	for _, c := range t.Cmds {
		if c.Kind != "shell" && c.Kind != "dshell" {
			return false
		}
	}
	return true
}

// calleeName: the name a call uses for its target. A when_changed target is named by its own key
// only (its identity covers every variable it is called with, MATCH included, so the call site
// must not leak into the name); the harness attributes its lines to a call site by goroutine.
func (p *Prog) calleeName(from int, m int, t int, v string) string {
	if p.Tasks[t].Run == "when_changed" {
		return fmt.Sprintf("t%d:w-K%dv%s", t, t, v)
	}
	return fmt.Sprintf("t%d:w-%s.%d", t, p.selfPathExpr(from), m)
}

// the path expression a task uses for itself and for its children
func (p *Prog) selfPathExpr(i int) string {
	if p.flat {
		return "d{{default 0 .D}}"
	}
	if p.Tasks[i].Run == "when_changed" {
		// must not depend on the caller: the structural hash covers command texts and call targets
		return fmt.Sprintf("K%dv{{.V}}", i)
	}
	return "{{index .MATCH 0}}"
}

func (p *Prog) callYAML(from int, m int, c Call) map[string]any {
	v := "{{.V}}"
	if c.Var != nil {
		v = fmt.Sprint(*c.Var)
	}
	if p.flat {
		return map[string]any{
			"task": fmt.Sprintf("t%d:w-x", c.Task),
			"vars": map[string]any{"V": v, "D": "{{add (default 0 .D) 1}}"},
		}
	}
	return map[string]any{
		"task": p.calleeName(from, m, c.Task, v),
		"vars": map[string]any{"V": v},
	}
}

func (p *Prog) Taskfile() map[string]any {
	tasks := map[string]any{}
	for i, t := range p.Tasks {
		y := map[string]any{"run": t.Run}
		vexp := "{{.V}}"
		if t.Run == "when_changed" {
			if p.viaShVar(i) {
				// the value reaches the commands only through a dynamic variable of the task itself
				y["vars"] = map[string]any{"W": map[string]any{"sh": "echo {{.V}}"}}
				vexp = "{{.W}}"
			} else if p.viaEnv(i) {
				y["env"] = map[string]any{"E": "{{.V}}"}
			}
		}
		var deps []any
		for j, d := range t.Deps {
			deps = append(deps, p.callYAML(i, j, d))
		}
		if len(deps) > 0 {
			y["deps"] = deps
		}
		var cmds []any
		self := p.selfPathExpr(i)
		for k, c := range t.Cmds {
			m := len(t.Deps) + k
			switch c.Kind {
			case "shell":
				s := fmt.Sprintf("printf '%%s\\n' 'P|%s|%d|%s'", self, k, vexp)
				if p.viaEnv(i) {
					s = fmt.Sprintf("printf '%%s\\n' \"P|K%dv$E|%d|$E\"", i, k)
				}
				if c.Exit != 0 {
					s += fmt.Sprintf("; exit %d", c.Exit)
				}
				cm := map[string]any{"cmd": s}
				if c.Ign {
					cm["ignore_error"] = true
				}
				cmds = append(cmds, cm)
			case "call":
				cmds = append(cmds, p.callYAML(i, m, *c.Call))
			case "dshell":
				ds := fmt.Sprintf("printf '%%s\\n' 'D|%s|%d|{{.V}}|{{.EXIT_CODE}}'", self, k)
				if p.viaEnv(i) {
					ds = fmt.Sprintf("printf '%%s\\n' \"D|K%dv$E|%d|$E|{{.EXIT_CODE}}\"", i, k)
				}
				if c.Exit != 0 {
					ds += fmt.Sprintf("; exit %d", c.Exit)
				}
				cmds = append(cmds, map[string]any{"defer": ds})
			case "dcall":
				cmds = append(cmds, map[string]any{"defer": p.callYAML(i, m, *c.Call)})
			}
		}
		if len(cmds) > 0 {
			y["cmds"] = cmds
		}
		if t.Ignore {
			y["ignore_error"] = true
		}
		if t.Internal {
			y["internal"] = true
		}
		if !t.G.Platform {
			// every form excludes the current platform: neither part matches, only the OS matches,
			// only the architecture matches, a list of such entries
			otherOS, otherArch := "windows", "arm"
			if runtime.GOOS == "windows" {
				otherOS = "linux"
			}
			if runtime.GOARCH == "arm" {
				otherArch = "amd64"
			}
			switch i % 4 {
			case 0:
				y["platforms"] = []string{otherOS + "/" + otherArch}
			case 1:
				y["platforms"] = []string{runtime.GOOS + "/" + otherArch}
			case 2:
				y["platforms"] = []string{otherOS + "/" + runtime.GOARCH}
			default:
				y["platforms"] = []string{otherOS, runtime.GOOS + "/" + otherArch, otherArch}
			}
		}
		var req []any
		if !t.G.Required {
			req = append(req, "NOPE_MISSING")
		}
		if !t.G.Enum {
			req = append(req, map[string]any{"name": "V", "enum": []string{"zz", "yy"}})
		}
		if len(req) > 0 {
			y["requires"] = map[string]any{"vars": req}
		}
		if t.G.Precond != nil {
			if *t.G.Precond {
				y["preconditions"] = []any{"true"}
			} else {
				y["preconditions"] = []any{map[string]any{"sh": "false", "msg": "precondition-msg"}}
			}
		}
		if t.G.Prompt {
			y["prompt"] = "sure?"
		}
		if t.G.UpToDate {
			y["status"] = []string{"true"}
		}
		tasks[taskName(i)] = y
	}
	return map[string]any{"version": "3", "tasks": tasks}
}

func pathStr(path []int) string {
	s := make([]string, len(path))
	for i, x := range path {
		s[i] = fmt.Sprint(x)
	}
	return strings.Join(s, ".")
}

func (p *Prog) rootName(k int) string {
	rc := p.Cfg.Roots[k]
	if p.flat {
		return fmt.Sprintf("t%d:w-x", rc.Task)
	}
	if p.Tasks[rc.Task].Run == "when_changed" {
		return fmt.Sprintf("t%d:w-K%dv%d", rc.Task, rc.Task, *rc.Var)
	}
	return fmt.Sprintf("t%d:w-%d", rc.Task, k)
}

// cycleThroughDedup reports whether some cycle of the call graph contains a run: once / when_changed task.
func (p *Prog) cycleThroughDedup() bool {
	n := len(p.Tasks)
	adj := make([][]int, n)
	for i, t := range p.Tasks {
		for _, d := range t.Deps {
			adj[i] = append(adj[i], d.Task)
		}
		for _, c := range t.Cmds {
			if c.Call != nil {
				adj[i] = append(adj[i], c.Call.Task)
			}
		}
	}
	reach := func(from, to int) bool {
		seen := make([]bool, n)
		var st []int
		for _, x := range adj[from] {
			st = append(st, x)
		}
		for len(st) > 0 {
			x := st[len(st)-1]
			st = st[:len(st)-1]
			if x == to {
				return true
			}
			if seen[x] {
				continue
			}
			seen[x] = true
			st = append(st, adj[x]...)
		}
		return false
	}
	for i, t := range p.Tasks {
		if t.Run != "always" && reach(i, i) {
			return true
		}
	}
	return false
}

// ---------- directed programs: shapes that random generation reaches rarely ----------

func sh(exit int) Cmd { return Cmd{Kind: "shell", Exit: exit} }
func callv(t int, v *int) Cmd {
	c := Call{Task: t, Var: v}
	return Cmd{Kind: "call", Call: &c}
}
func dcallv(t int, v *int) Cmd {
	c := Call{Task: t, Var: v}
	return Cmd{Kind: "dcall", Call: &c}
}
func tk(run string, deps []Call, cmds ...Cmd) Task {
	return Task{Run: run, Deps: deps, Cmds: cmds, G: okGuards()}
}

// Directed returns one of a few program templates with randomised details.
func Directed(r *rand.Rand) *Prog { return DirectedTemplate(r, r.Intn(NDirected)) }

// NDirected is the number of templates DirectedTemplate knows.
const NDirected = 10

func DirectedTemplate(r *rand.Rand, tmpl int) *Prog {
	code := []int{1, 2, 7, 126, 255}[r.Intn(5)]
	dedup := []string{"once", "when_changed"}[r.Intn(2)]
	p := &Prog{}
	fixedN := -1
	switch tmpl % NDirected {
	case 9: // more deps than slots, two of them waiting (without a slot) for a shared task: the third must
		// still be started as soon as a slot is free (deps are started without waiting for one another)
		p.Tasks = []Task{
			tk("always", []Call{{Task: 1}, {Task: 2}, {Task: 3}}, sh(0)),
			tk("always", []Call{{Task: 4}}, sh(0)),
			tk("always", []Call{{Task: 4}}, sh(0)),
			tk("always", nil, sh(0), sh(0)),
			tk(dedup, nil, sh(0), sh(0)),
		}
		if r.Intn(2) == 0 {
			p.Tasks[0].Deps = append(p.Tasks[0].Deps, Call{Task: 3})
		}
		fixedN = 2
	case 8: // a called task's dep fails while a sibling dep (with deferred commands) is still busy: the
		// caller ignores the error but must not move on before the sibling went quiet (errgroup.Wait)
		p.Tasks = []Task{
			tk("always", nil, sh(0), callv(1, nil), sh(0), sh(0)),
			tk("always", []Call{{Task: 2}, {Task: 3}}, sh(0)),
			tk("always", nil, sh(code)),
			tk("always", nil, Cmd{Kind: "dshell"}, sh(0), sh(0), sh(0)),
		}
		p.Tasks[0].Ignore = true
		if r.Intn(2) == 0 {
			p.Tasks[1].Deps = []Call{{Task: 3}, {Task: 2}, {Task: 3}}
		}
	case 0: // a task with defers is cancelled by a failing sibling while it runs
		p.Tasks = []Task{
			tk("always", []Call{{Task: 1}, {Task: 2}}, sh(0)),
			tk("always", nil, Cmd{Kind: "dshell"}, sh(0), sh(0), Cmd{Kind: "dshell"}, sh(0)),
			tk("always", nil, sh(0), sh(code)),
		}
		if r.Intn(2) == 0 {
			p.Tasks[1].Cmds = append(p.Tasks[1].Cmds, dcallv(3, intp(1)))
			p.Tasks = append(p.Tasks, tk("always", nil, sh(0)))
		}
	case 1: // a shared task fails: every caller must see it
		p.Tasks = []Task{
			tk("always", []Call{{Task: 1}, {Task: 2}}, sh(0)),
			tk("always", []Call{{Task: 3}}, sh(0)),
			tk("always", nil, sh(0), callv(3, nil), sh(0)),
			tk(dedup, nil, Cmd{Kind: "dshell"}, sh(0), sh(code)),
		}
		if r.Intn(2) == 0 {
			p.Tasks[0].Ignore = true
			p.Tasks[0].Deps = nil
			p.Tasks[0].Cmds = []Cmd{callv(3, nil), callv(1, nil), sh(0)}
		}
	case 2: // a caller waiting for a shared task is cancelled by a failing sibling (or the owner is)
		p.Tasks = []Task{
			tk("always", []Call{{Task: 1}, {Task: 2}}, sh(0)),
			tk("always", []Call{{Task: 3}, {Task: 4}}, sh(0)),
			tk("always", []Call{{Task: 5}}, sh(0)),
			tk("always", nil, Cmd{Kind: "dshell"}, sh(0), callv(5, nil), sh(0)),
			tk("always", nil, sh(0), sh(code)),
			tk(dedup, nil, Cmd{Kind: "dshell"}, sh(0), sh(0), sh(0)),
		}
		if r.Intn(2) == 0 {
			// swap: the owner sits next to the failing sibling, the waiter elsewhere
			p.Tasks[1].Deps = []Call{{Task: 2}, {Task: 4}}
			p.Tasks[0].Deps = []Call{{Task: 1}, {Task: 3}}
		}
	case 3: // a nested task with its own defers fails: EXIT_CODE at both levels
		p.Tasks = []Task{
			tk("always", nil, Cmd{Kind: "dshell"}, callv(1, nil), sh(0)),
			tk("always", nil, Cmd{Kind: "dshell"}, Cmd{Kind: "dshell", Exit: 5}, Cmd{Kind: "dshell"}, sh(0), sh(code), sh(0)),
		}
		if r.Intn(2) == 0 {
			p.Tasks[0] = tk("always", []Call{{Task: 1}}, Cmd{Kind: "dshell"}, sh(0))
		}
	case 4: // when_changed: one execution per distinct value
		p.Tasks = []Task{
			tk("always", []Call{{Task: 1, Var: intp(1)}, {Task: 1, Var: intp(2)}, {Task: 1, Var: intp(1)}}, callv(1, intp(2)), callv(1, intp(0)), sh(0)),
			tk("when_changed", nil, sh(0), sh(0)),
		}
	case 5: // wide fan-out under a small limit
		p.Tasks = []Task{
			tk("always", []Call{{Task: 1}, {Task: 1}, {Task: 2}, {Task: 1}}, sh(0)),
			tk("always", []Call{{Task: 2}}, sh(0), callv(2, nil)),
			tk(dedup, nil, sh(0), sh(0)),
		}
	case 6: // a shared task is cancelled under its first caller; a later caller with a live context must still fail
		p.Tasks = []Task{
			tk("always", nil, callv(1, nil), callv(2, nil), sh(0)),
			tk("always", []Call{{Task: 3}, {Task: 4}}, sh(0)),
			tk("always", []Call{{Task: 3}}, sh(0)),
			tk(dedup, nil, sh(0), sh(0), sh(0)),
			tk("always", nil, sh(0), sh(code)),
		}
		p.Tasks[0].Ignore = true
	default: // guards below a dep and a nested call, with --force
		p.Tasks = []Task{
			tk("always", []Call{{Task: 1}}, callv(2, nil), sh(0)),
			tk("always", nil, sh(0)),
			tk("always", nil, sh(0)),
		}
		g := r.Intn(3)
		tgt := 1 + r.Intn(2)
		switch g {
		case 0:
			p.Tasks[tgt].G.Precond = boolp(false)
		case 1:
			p.Tasks[tgt].G.Prompt = true
		case 2:
			p.Tasks[tgt].G.Required = false
		}
		p.Cfg.Force = r.Intn(2) == 0
		p.Cfg.ForceAll = r.Intn(3) == 0
	}
	p.Cfg.Roots = []Call{{Task: 0, Var: intp(r.Intn(3))}}
	p.Cfg.N = []int{0, 1, 2, 3}[r.Intn(4)]
	if fixedN >= 0 {
		p.Cfg.N = fixedN
	}
	p.Cfg.Yes = r.Intn(4) == 0
	p.Cfg.MaxCall = 1000
	return p
}

// DirectedCyclic: small programs whose cycle is certainly reached and spins until the call limit ends
// it: through deps, through task: commands, through both, self-reference, two- and three-task
// cycles, with commands before the recursive reference (so every round prints) and none failing.
func DirectedCyclic(r *rand.Rand) *Prog { return DirectedCyclicShape(r, r.Intn(7)) }

// NCyclicShapes is the number of shapes DirectedCyclicShape knows.
const NCyclicShapes = 7

func DirectedCyclicShape(r *rand.Rand, shape int) *Prog {
	p := &Prog{}
	back := func(viaDep bool, t int) Task {
		if viaDep {
			return tk("always", []Call{{Task: t}}, sh(0))
		}
		return tk("always", nil, sh(0), callv(t, nil))
	}
	switch shape % NCyclicShapes {
	case 6: // a cycle with fan-out: several branches are in flight when the call limit is reached
		p.Tasks = []Task{
			tk("always", []Call{{Task: 1}, {Task: 2}}, sh(0)),
			tk("always", []Call{{Task: 0}}, sh(0)),
			tk("always", []Call{{Task: 0}}, sh(0)),
		}
	case 0: // self-dependency
		p.Tasks = []Task{tk("always", []Call{{Task: 0}}, sh(0))}
	case 1: // self-call
		p.Tasks = []Task{tk("always", nil, sh(0), callv(0, nil), sh(0))}
	case 2: // a <-> b through deps / commands
		p.Tasks = []Task{back(r.Intn(2) == 0, 1), back(r.Intn(2) == 0, 0)}
	case 3: // a -> b -> c -> a
		p.Tasks = []Task{back(r.Intn(2) == 0, 1), back(r.Intn(2) == 0, 2), back(r.Intn(2) == 0, 0)}
	case 4: // the cycle sits below an acyclic prefix and next to an innocent sibling
		p.Tasks = []Task{
			tk("always", []Call{{Task: 1}, {Task: 3}}, sh(0)),
			back(r.Intn(2) == 0, 2),
			back(r.Intn(2) == 0, 1),
			tk("always", nil, sh(0), sh(0)),
		}
	default: // the recursive call passes a constant variable (another value than the root's)
		p.Tasks = []Task{tk("always", nil, sh(0), callv(1, intp(1))), tk("always", nil, callv(0, intp(2)), sh(0))}
	}
	p.Cfg.Roots = []Call{{Task: 0, Var: intp(r.Intn(3))}}
	p.Cfg.N = []int{0, 1, 2, 3}[r.Intn(4)]
	p.Cfg.MaxCall = 1000
	return p
}

// canSwallowErrors: some construct of the program can keep an error from reaching Run's result
// (a deferred task call, ignore_error on a task or on a command).
func (p *Prog) canSwallowErrors() bool {
	for _, t := range p.Tasks {
		if t.Ignore {
			return true
		}
		for _, c := range t.Cmds {
			if c.Kind == "dcall" || c.Ign {
				return true
			}
		}
	}
	return false
}
