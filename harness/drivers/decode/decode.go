// Package decode is the correspondence driver of C16 (model I "Decode"): node trees
// and malformed byte streams go through the real yaml.Unmarshal -> ast.Taskfile ->
// Executor.Setup -> GetTask/FastCompiledTask/CompiledTask -> ListTasks -> dry Run,
// in-process under recover and a deadline (in a child process that is replaced when a
// goroutine of go-task panics or hangs), and a sample through the real CLI.
package decode

import (
	"bytes"
	"context"
	"encoding/json"
	"fmt"
	"math/rand"
	"os"
	"os/exec"
	"path/filepath"
	"regexp"
	"runtime"
	"sort"
	"strings"
	"time"

	"github.com/Masterminds/semver/v3"
	giturls "github.com/chainguard-dev/git-urls"
	taskerrors "github.com/go-task/task/v3/errors"
	"github.com/go-task/task/v3/internal/goext"
	"github.com/go-task/task/v3/verifharness/common"
	cg "github.com/go-task/task/v3/verifharness/coqgen"
	"mvdan.cc/sh/v3/syntax"
)

// Case is the replayable input of one case plus what was observed.
type Case struct {
	Doc      Doc      `json:"doc"`
	Observed *Result  `json:"observed,omitempty"`
	CLI      []CLIObs `json:"cli,omitempty"`
}

type CLIObs struct {
	Args   []string `json:"args"`
	Exit   int      `json:"exit"`
	Panic  bool     `json:"panic"`
	Sig    string   `json:"sig,omitempty"`
	Killed bool     `json:"killed,omitempty"`
	Out    string   `json:"out,omitempty"`
}

var documentedCodes = map[int]bool{
	taskerrors.CodeOk: true, taskerrors.CodeUnknown: true, taskerrors.CodeTaskRCNotFoundError: true,
	taskerrors.CodeTaskfileNotFound: true, taskerrors.CodeTaskfileAlreadyExists: true, taskerrors.CodeTaskfileDecode: true,
	taskerrors.CodeTaskfileFetchFailed: true, taskerrors.CodeTaskfileNotTrusted: true, taskerrors.CodeTaskfileNotSecure: true,
	taskerrors.CodeTaskfileCacheNotFound: true, taskerrors.CodeTaskfileVersionCheckError: true, taskerrors.CodeTaskfileNetworkTimeout: true,
	taskerrors.CodeTaskfileInvalid: true, taskerrors.CodeTaskfileCycle: true,
	taskerrors.CodeTaskNotFound: true, taskerrors.CodeTaskRunError: true, taskerrors.CodeTaskInternal: true,
	taskerrors.CodeTaskNameConflict: true, taskerrors.CodeTaskCalledTooManyTimes: true, taskerrors.CodeTaskCancelled: true,
	taskerrors.CodeTaskMissingRequiredVars: true, taskerrors.CodeTaskNotAllowedVars: true,
}

var sigSite = map[string]string{
	"panic:taskfile/ast.(*Var).UnmarshalYAML:index-out-of-range":      "SVarEmptyMap",
	"panic:internal/templater.ReplaceGlobs:nil-deref":                 "SGlobNil",
	"panic:shouldRunOnCurrentPlatform:nil-deref":                      "SPlatformNil",
	"panic:(*Executor).areTaskRequiredVarsSet:nil-deref":              "SRequiresNil",
	"panic:(*Executor).areTaskRequiredVarsAllowedValuesSet:nil-deref": "SRequiresNil",
	"panic:taskfile.NewSnippet:slice-bounds":                          "SSnippet",
	"panic:taskfile.NewGitNode:index-out-of-range":                    "SGitSplit",
	"panic:taskfile/ast.(*Task).WildcardMatch:regexp-compile":         "SWildcard",
	"panic:internal/deepcopy.TraverseStringsFunc:reflect-unexported":  "STraverseStruct",
	"panic:internal/execext.ExpandLiteral:index-out-of-range":         "SExpandLiteral",
	"panic:internal/deepcopy.OrderedMap:nil-deref":                    "SMatrixNilMap",
}

var deepCopySig = regexp.MustCompile(`^panic:taskfile/ast\.\(\*[A-Za-z]+\)\.DeepCopy:nil-deref$`)

func siteOf(sig string) string {
	if s, ok := sigSite[sig]; ok {
		return s
	}
	if deepCopySig.MatchString(sig) {
		return "SDeepCopyNil"
	}
	return "SOther"
}

func outcomeCoq(class string, code int, sig string) string {
	switch class {
	case "ok":
		return "OOk"
	case "err":
		return fmt.Sprintf("(OErr %d)", code)
	case "panic":
		return "(OPanic " + siteOf(sig) + ")"
	default:
		return "OTimeout"
	}
}

func decodeOutcomeCoq(s string) string {
	switch {
	case s == "ok":
		return "OOk"
	case strings.HasPrefix(s, "err:"):
		return "(OErr " + s[4:] + ")"
	case strings.HasPrefix(s, "panic:"):
		return "(OPanic " + siteOf(s[6:]) + ")"
	}
	return "OTimeout"
}

func wcPattern(name string, quote bool) string {
	if !quote {
		return "^" + strings.ReplaceAll(name, "*", "(.*)") + "$"
	}
	parts := strings.Split(name, "*")
	for i := range parts {
		parts[i] = regexp.QuoteMeta(parts[i])
	}
	return "^" + strings.Join(parts, "(.*)") + "$"
}

// nodeValue is yaml's node.Value for the way the driver renders nodes.
func nodeValue(y *Y) string {
	switch y.K {
	case KScalar:
		return y.V
	case KNull:
		return "~"
	}
	return ""
}

// deadlockSummary keeps the goroutines of go-task from a full stack dump.
func deadlockSummary(stack string) string {
	var keep []string
	for _, g := range strings.Split(stack, "\n\n") {
		if strings.Contains(g, "go-task/task/v3") && !strings.Contains(g, "decode.WorkerMain()") {
			if len(g) > 900 {
				g = g[:900]
			}
			keep = append(keep, g)
		}
		if len(keep) >= 5 {
			break
		}
	}
	if len(keep) == 0 {
		return tail(stack, 3000)
	}
	return strings.Join(keep, "\n\n")
}

// shellWords: what execext.ExpandLiteral's parser makes of the string (same escaping):
// the number of words, or -1 when the parser rejects it.
func shellWords(s string) int {
	s = filepath.ToSlash(s)
	for _, c := range []string{" ", "&", "(", ")"} {
		s = strings.ReplaceAll(s, c, `\`+c)
	}
	n := 0
	err := syntax.NewParser().Words(strings.NewReader(s), func(*syntax.Word) bool { n++; return true })
	if err != nil {
		return -1
	}
	return n
}

func remoteLooking(s string) bool { return strings.Contains(s, "://") || strings.HasPrefix(s, "git") }

func giturlCoq(s string) (string, bool) {
	u, _ := giturls.Parse(s)
	if u == nil {
		return "", false
	}
	return "(" + CoqStr(u.Scheme) + ", " + CoqStr(u.Path) + ")", true
}

// oracleLists evaluates the third-party verdicts on every string of the trees.
func oracleLists(trees map[string]*Y) string {
	set := map[string]bool{}
	for _, t := range trees {
		t.Strings(set)
	}
	// names that exist only after merging: namespace:task
	var nss, tns []string
	for _, t := range trees {
		if inc := t.Get("includes"); inc != nil && inc.K == KMap {
			for _, kv := range inc.M {
				nss = append(nss, nodeValue(kv.K))
			}
		}
		if ts := t.Get("tasks"); ts != nil && ts.K == KMap {
			for _, kv := range ts.M {
				tns = append(tns, nodeValue(kv.K))
			}
		}
	}
	for _, ns := range nss {
		for _, tn := range tns {
			set[ns+":"+tn] = true
		}
	}
	var all []string
	for s := range set {
		all = append(all, s)
		for _, p := range strings.Split(s, "/") {
			if !set[p] {
				set[p] = true
				all = append(all, p)
			}
		}
	}
	sort.Strings(all)
	var dur, ver, oss, arch, wcBad, wcQBad, gu, w0, wErr []string
	for _, s := range all {
		if _, err := time.ParseDuration(s); err == nil {
			dur = append(dur, CoqStr(s))
		}
		if _, err := semver.NewVersion(s); err == nil {
			ver = append(ver, CoqStr(s))
		}
		if goext.IsKnownOS(s) {
			oss = append(oss, CoqStr(s))
		}
		if goext.IsKnownArch(s) {
			arch = append(arch, CoqStr(s))
		}
		if _, err := regexp.Compile(wcPattern(s, false)); err != nil {
			wcBad = append(wcBad, CoqStr(s))
		}
		if _, err := regexp.Compile(wcPattern(s, true)); err != nil {
			wcQBad = append(wcQBad, CoqStr(s))
		}
		if s != "" {
			switch shellWords(s) {
			case 0:
				w0 = append(w0, CoqStr(s))
			case -1:
				wErr = append(wErr, CoqStr(s))
			}
		}
		if remoteLooking(s) {
			if c, ok := giturlCoq(s); ok {
				gu = append(gu, "("+CoqStr(s)+", "+c+")")
			}
		}
	}
	return fmt.Sprintf("tc_dur := %s; tc_ver := %s; tc_os := %s; tc_arch := %s; tc_wc_bad := %s; tc_wc_qbad := %s; tc_giturl := %s; tc_words0 := %s; tc_words_err := %s",
		cg.List(dur), cg.List(ver), cg.List(oss), cg.List(arch), cg.List(wcBad), cg.List(wcQBad), cg.List(gu), cg.List(w0), cg.List(wErr))
}

func treeCaseCoq(c *Case) string {
	d, r := &c.Doc, c.Observed
	var files []string
	for _, n := range common.SortedKeys(d.Trees) {
		files = append(files, "("+CoqStr(n)+", "+d.Trees[n].Coq()+")")
	}
	req := make([]string, len(d.Requested))
	for i, s := range d.Requested {
		req[i] = CoqStr(s)
	}
	return fmt.Sprintf("{| tc_env := {| de_goos := %s; de_goarch := %s; de_files := %s; de_requested := %s; de_snip := (%d%%Z, %d%%N, %d%%N) |}; %s; tc_obs := %s; tc_decode := %s |}",
		CoqStr(runtime.GOOS), CoqStr(runtime.GOARCH), cg.List(files), cg.List(req), r.Line, r.NRaw, r.NHl,
		oracleLists(d.Trees), outcomeCoq(r.Class, r.Code, r.Sig), decodeOutcomeCoq(r.Decode))
}

var requestedPool = []string{"nonexist", "a-b", "x:y", "wild-1", "al", "build extra", ""}

func renderTreeDoc(label string, trees map[string]*Y, requested []string) Doc {
	files := map[string][]byte{}
	for n, t := range trees {
		files[n] = []byte(t.Doc())
	}
	return Doc{Kind: "tree", Label: label, Files: files, Trees: trees, Requested: requested}
}

// generate builds the list of documents of this shard.
func generate(o *common.Opts, obs *common.Obs) []Doc {
	r := o.Rand()
	g := &gen{r: r, dev: 0.015, nul: 0.1, hist: obs.Histogram}
	var docs []Doc
	thorough := o.Tier == "thorough"
	shard := int(o.Seed % 1000)

	// directed part, spread over the first eight shards (every check runs at least that many)
	if shard < 8 {
		for i, bd := range fixedByteDocs() {
			if i%8 == shard {
				docs = append(docs, Doc{Kind: "bytes", Label: bd.label, Files: map[string][]byte{"Taskfile.yml": bd.b}, Requested: []string{"t", "nonexist"}})
			}
		}
	}
	if shard == 1 {
		// unit probes: snippet arithmetic over a grid
		for _, raw := range []string{"", "a", "a\n", "a\nb\nc\nd\ne\nf\n", "a\rb\rc\rd\re\r", "k: v\r\nk2: v\r\n", "a" + nel + "b" + ls + "c" + ps + "d", "x: [1,\n 2]\n\n\n"} {
			for line := -1; line <= 9; line++ {
				docs = append(docs, Doc{Kind: "snip", Label: "snip-grid", Raw: []byte(raw), Line: line})
			}
		}
	}
	if shard == 2 {
		// unit probes: include locations, task names
		for _, l := range append(append([]string{}, locPool...), "git", "gitx://a.git", "https://a.example/x.git//", "https://a.example/x.git//a//b", "ssh://h/x.git?ref=v1", "https://h.example/.git", "a.git", "./a.git", "HTTP://x.example/a.git") {
			docs = append(docs, Doc{Kind: "loc", Label: "loc", Loc: l})
		}
		for _, n := range append(append([]string{}, taskNames...), "", "**", "a*b*c", "(?i)x", `\Q`, "a\nb", "[[:alpha:]]", "x{1,2}", "x{2,1}", `\p{Greek}`, `\pX`, "(?<n>a)") {
			docs = append(docs, Doc{Kind: "wild", Label: "wild", Name: n})
		}
	}
	// single-node mutations of the maximal well-formed Taskfile: all of them in the
	// thorough tier, a slice of them per shard in the quick tier
	max := maximalTaskfile()
	maxTrees := func(root *Y) map[string]*Y {
		return map[string]*Y{"Taskfile.yml": root, "inc1.yml": incTree(1), "inc2.yml": incTree(2)}
	}
	if shard == 0 {
		docs = append(docs, renderTreeDoc("maximal", maxTrees(max), []string{"nonexist", "wild-x", "f"}))
	}
	var paths [][]int
	max.Paths(nil, &paths)
	type mut struct {
		p []int
		k int
	}
	var muts []mut
	for _, p := range paths {
		for k := 0; k < 4; k++ {
			muts = append(muts, mut{p, k})
		}
	}
	obs.Counters["mutation_space"] = int64(len(muts))
	nShards := 8
	if thorough {
		nShards = 1 + (len(muts)-1)/200
	}
	half := int(o.Seed/1000) % 4 // the quick tier takes every fourth mutation; which quarter rotates with VERIF_SEED
	for i, m := range muts {
		if i%nShards != shard%nShards {
			continue
		}
		if shard >= nShards || (!thorough && (i/nShards)%4 != half) {
			continue
		}
		root := max.ReplaceAt(m.p, func(old *Y) *Y { return mutate(m.k, old) })
		docs = append(docs, renderTreeDoc(fmt.Sprintf("mutation:%d", m.k), maxTrees(root), []string{"nonexist"}))
	}

	// the same for a Taskfile that is INCLUDED (Tasks.Merge deep-copies every field of its tasks):
	// behind the root directly, flattened, and at depth 2.  Null entries in list positions are the
	// nil-element consumers' inputs: always taken; the other mutations rotate through the runs.
	maxInc := maximalIncluded()
	var incPaths, incSeqPaths [][]int
	maxInc.Paths(nil, &incPaths)
	seqElemPaths(maxInc, nil, &incSeqPaths)
	isSeqElem := map[string]bool{}
	for _, p := range incSeqPaths {
		isSeqElem[fmt.Sprint(p)] = true
	}
	type imut struct {
		p     []int
		k     int
		shape string
		core  bool
	}
	var imuts []imut
	for pi, p := range incPaths {
		for k := 0; k < 4; k++ {
			if k == 0 && isSeqElem[fmt.Sprint(p)] {
				for _, sh := range includeShapes {
					imuts = append(imuts, imut{p, k, sh, true})
				}
				continue
			}
			imuts = append(imuts, imut{p, k, includeShapes[(pi+k)%len(includeShapes)], false})
		}
	}
	obs.Counters["include_mutation_space"] = int64(len(imuts))
	iShards := 8
	if thorough {
		iShards = 1 + (len(imuts)-1)/150
	}
	rot := int(o.Seed / 1000)
	ci := 0
	for i, m := range imuts {
		if i%iShards != shard%iShards || shard >= iShards {
			continue
		}
		if !thorough {
			ci++
			if m.core && (ci+rot)%2 != 0 { // a null entry in a list position: two of the four shapes per run
				continue
			}
			if !m.core && (ci+rot)%16 != 0 {
				continue
			}
		}
		inc := maxInc.ReplaceAt(m.p, func(old *Y) *Y { return mutate(m.k, old) })
		docs = append(docs, renderTreeDoc(fmt.Sprintf("inc-mutation:%d:%s", m.k, m.shape), includeTrees(m.shape, inc), []string{"nonexist"}))
	}
	if shard == 0 {
		for _, sh := range includeShapes {
			docs = append(docs, renderTreeDoc("inc-maximal:"+sh, includeTrees(sh, maxInc), []string{"nonexist", "a:full", "full"}))
		}
	}

	// include options that name tasks of the included file (excludes: [default] ...), and the
	// reader stream: deep chains and wide-and-nested include trees (reading must terminate)
	{
		var extra []Doc
		for _, fl := range []bool{false, true} {
			for _, ex := range [][]string{nil, {"default"}, {"hello"}, {"default", "hello"}, {"other", "nosuch"}, {"default", "hello", "other"}} {
				for _, al := range []bool{false, true} {
					for _, d2 := range []bool{false, true} {
						internal := len(ex)%2 == 1 && al
						rootNs := len(ex) == 2 && !al
						label := fmt.Sprintf("inc-options:flatten=%v:excludes=%v:aliases=%v:depth2=%v", fl, ex, al, d2)
						extra = append(extra, renderTreeDoc(label, optionTrees(fl, ex, al, internal, d2, rootNs), []string{"a", "a:default", "al", "default", "nonexist"}))
					}
				}
			}
		}
		for _, depth := range []int{3, 8, 9, 10, 11, 12} {
			extra = append(extra, renderTreeDoc(fmt.Sprintf("reader:chain:%d", depth), chainTrees(depth, false), []string{"nonexist"}))
		}
		extra = append(extra, renderTreeDoc("reader:chain-flatten:10", chainTrees(10, true), []string{"nonexist"}))
		for _, w := range []int{4, 8, 9, 12} {
			extra = append(extra, renderTreeDoc(fmt.Sprintf("reader:wide:%d", w), wideTrees(w, 1), []string{"nonexist"}))
		}
		extra = append(extra, renderTreeDoc("reader:wide-nested:10", wideTrees(10, 2), []string{"nonexist"}))
		for i := range extra {
			if shard < 8 && i%8 == shard {
				if strings.HasPrefix(extra[i].Label, "reader:") {
					extra[i].NoRun = true
					extra[i].DeadlineS = 10 // a handful of tiny files: reading them takes milliseconds
				}
				docs = append(docs, extra[i])
			}
		}
	}

	// optional includes whose Taskfile exists but cannot be used, and strings for ExpandLiteral / ExpandFields
	{
		var extra []Doc
		optVariants := []struct {
			name string
			file string
			kvs  []KV
		}{
			{"plain", "extra.yml", nil},
			{"subdir", "./sub/extra.yml", nil},
			{"internal", "extra.yml", []KV{P("internal", Bool(true))}},
			{"flatten", "extra.yml", []KV{P("flatten", Bool(true))}},
			{"excludes", "extra.yml", []KV{P("excludes", Seq(Str("t"))), P("aliases", Seq(Str("ex")))}},
		}
		mt := malformedTrees()
		for vi, ov := range optVariants {
			for _, name := range common.SortedKeys(mt) {
				file := strings.TrimPrefix(ov.file, "./")
				trees := map[string]*Y{"Taskfile.yml": optionalIncludeRoot(ov.file, ov.kvs...), file: mt[name]}
				if name == "missing-inner" && vi%2 == 1 {
					continue
				}
				extra = append(extra, renderTreeDoc("inc-optional:"+ov.name+":"+name, trees, []string{"nonexist"}))
			}
			mb := malformedBytes()
			for _, name := range common.SortedKeys(mb) {
				file := strings.TrimPrefix(ov.file, "./")
				root := optionalIncludeRoot(ov.file, ov.kvs...)
				extra = append(extra, Doc{Kind: "bytes", Label: "inc-optional:" + ov.name + ":" + name,
					Files: map[string][]byte{"Taskfile.yml": []byte(root.Doc()), file: []byte(mb[name])}, Requested: []string{"root", "nonexist"}})
			}
		}
		one := func(label string, top ...KV) {
			root := Map(append([]KV{P("version", Str("3"))}, top...)...)
			extra = append(extra, renderTreeDoc(label, map[string]*Y{"Taskfile.yml": root, "inc1.yml": incTree(1)}, []string{"t", "nonexist"}))
		}
		tsk := func(fields ...KV) KV {
			return P("tasks", Map(P("t", Map(append(fields, P("cmds", Seq(Str("echo hi"))))...))))
		}
		for _, h := range hostilePaths {
			one("expand:task-dir", tsk(P("dir", Str(h))))
			one("expand:include-location", P("includes", Map(P("sub", Str(h)))), tsk())
		}
		for i, h := range hostilePaths {
			switch i % 4 {
			case 0:
				one("expand:include-dir", P("includes", Map(P("sub", Map(P("taskfile", Str("inc1.yml")), P("dir", Str(h)))))), tsk())
			case 1:
				one("expand:dotenv", P("dotenv", Seq(Str(h))), tsk(P("dotenv", Seq(Str(h)))))
			case 2:
				one("expand:glob", tsk(P("sources", Seq(Str(h))), P("generates", Seq(Str(h), Map(P("exclude", Str(h)))))))
			default:
				one("expand:optional-include", P("includes", Map(P("sub", Map(P("taskfile", Str(h)), P("optional", Bool(true)), P("dir", Str(h)))))), tsk())
			}
		}
		// the same through template variables: global, task level, and from the command line (OUT=#1)
		for _, h := range []string{"#1", "\t", "# x", "'q", "$X"} {
			one("expand:templated-dir-global", P("vars", Map(P("OUT", Str(h)))), tsk(P("dir", Str("{{.OUT}}"))))
			one("expand:templated-dir-task", tsk(P("vars", Map(P("OUT", Str(h)))), P("dir", Str("{{.OUT}}"))))
			one("expand:templated-include", P("vars", Map(P("LOC", Str(h)))), P("includes", Map(P("sub", Map(P("taskfile", Str("{{.LOC}}")), P("dir", Str("{{.LOC}}")))))), tsk())
		}
		one("expand:templated-dir-cli", tsk(P("dir", Str("{{.OUT}}"))))
		one("expand:templated-dir-default", tsk(P("dir", Str("{{.OUT | default \"#none\"}}"))))
		for i := range extra {
			if shard < 8 && i%8 == shard {
				docs = append(docs, extra[i])
			}
		}
	}

	// concurrency family: valid Taskfiles, many wildcard tasks looked up for the first time at once
	nConc := 1
	if thorough {
		nConc = 3
	}
	for c := 0; c < nConc; c++ {
		n := []int{50, 100, 160}[(c+shard)%3]
		root, calls := concurrencyDoc(fmt.Sprintf("%dc%d", o.Seed, c), n)
		d := renderTreeDoc(fmt.Sprintf("concurrency:%d", n), map[string]*Y{"Taskfile.yml": root}, nil)
		d.Conc = calls
		docs = append(docs, d)
	}

	// random part
	for len(docs) < o.N {
		switch x := r.Intn(20); {
		case x < 13: // single file
			root := g.taskfile(false, 0.08)
			var req []string
			for i := 0; i < r.Intn(3); i++ {
				req = append(req, requestedPool[r.Intn(len(requestedPool))])
			}
			docs = append(docs, renderTreeDoc("random:single", map[string]*Y{"Taskfile.yml": root}, req))
		case x < 15: // names with regex metacharacters
			root := g.taskfile(false, 0.6)
			docs = append(docs, renderTreeDoc("random:odd-names", map[string]*Y{"Taskfile.yml": root}, []string{"nonexist"}))
		case x < 16: // includes of all kinds (odd locations, options), the included files random too
			root := g.taskfile(true, 0.05)
			docs = append(docs, renderTreeDoc("random:includes", map[string]*Y{"Taskfile.yml": root, "inc1.yml": g.includedFile(), "inc2.yml": incTree(2)}, []string{"nonexist"}))
		case x < 18: // a random file with deviations and nulls in list positions, included (depth 1-2, with and without flatten)
			sh := includeShapes[r.Intn(len(includeShapes))]
			saveNul := g.nul
			g.nul = 0.2
			inc := g.includedFile()
			g.nul = saveNul
			docs = append(docs, renderTreeDoc("random:included:"+sh, includeTrees(sh, inc), []string{"nonexist"}))
		default: // damaged bytes
			root := g.taskfile(false, 0.1)
			bd := randomByteDoc(r, root.Doc())
			docs = append(docs, Doc{Kind: "bytes", Label: bd.label, Files: map[string][]byte{"Taskfile.yml": bd.b}, Requested: []string{"build", "nonexist"}})
		}
	}
	return docs
}

// runCLI runs the real binary on the document.
func runCLI(bin string, d *Doc, args []string) CLIObs {
	dir, err := os.MkdirTemp(tmpBase, "vh-cli")
	if err != nil {
		return CLIObs{Args: args, Exit: -1, Out: err.Error()}
	}
	defer os.RemoveAll(dir)
	for name, content := range d.Files {
		_ = os.WriteFile(filepath.Join(dir, name), content, 0o644)
	}
	ctx, cancel := context.WithTimeout(context.Background(), 15*time.Second)
	defer cancel()
	cmd := exec.CommandContext(ctx, bin, args...)
	cmd.Cancel = func() error { return cmd.Process.Kill() } // the binary swallows SIGTERM
	cmd.Dir = dir
	cmd.Env = append(os.Environ(), "NO_COLOR=1", "TASK_X_REMOTE_TASKFILES=0")
	var out bytes.Buffer
	cmd.Stdout = &out
	cmd.Stderr = &out
	cmd.Stdin = strings.NewReader("")
	err = cmd.Run()
	o := CLIObs{Args: args}
	if ctx.Err() != nil {
		o.Killed = true
	}
	if cmd.ProcessState != nil {
		o.Exit = cmd.ProcessState.ExitCode()
	} else {
		o.Exit = -1
	}
	text := out.String()
	if strings.Contains(text, "panic:") || strings.Contains(text, "goroutine ") || strings.Contains(text, "fatal error:") {
		o.Panic = true
		cr := crashResult(text)
		o.Sig = cr.Sig
		if o.Sig == "" {
			o.Sig = "panic:?:other"
		}
		o.Out = tail(cr.Stack, 2500)
	} else if !documentedCodes[o.Exit] {
		o.Out = tail(text, 800)
	}
	return o
}

func Main(args []string) {
	if os.Getenv("VH_DECODE_WORKER") == "1" {
		WorkerMain()
		return
	}
	o := common.ParseOpts(args)
	obs := common.NewObs("decode", o.Seed)
	var docs []Doc
	if o.Replay != "" {
		b, err := os.ReadFile(o.Replay)
		if err != nil {
			panic(err)
		}
		var rp struct {
			Input Case `json:"input"`
		}
		if err := json.Unmarshal(b, &rp); err != nil {
			panic(err)
		}
		docs = []Doc{rp.Input.Doc}
	} else {
		docs = generate(o, obs)
	}
	bin := os.Getenv("VERIF_TASK_BIN")
	cliEvery := 40
	if v, ok := o.Extra["cli_every"]; ok {
		fmt.Sscanf(v, "%d", &cliEvery)
	}

	if base, err := os.MkdirTemp("", "vh-decode"); err == nil {
		tmpBase = base
		defer os.RemoveAll(base)
	}
	p := &pool{}
	defer p.close()
	var trees, snips, locs, wilds, mons []string
	var treeIdx, snipIdx, locIdx, wildIdx, monIdx []int
	seen := map[string]bool{}
	for i := range docs {
		d := &docs[i]
		res := p.run(d)
		if res.Class == "harness" {
			// infrastructure trouble: once more in a fresh worker
			p.close()
			res = p.run(d)
		}
		if res.Class == "timeout" && !res.Deadlock {
			// a loaded machine can exceed the deadline: once more, alone, with a generous bound
			// (not when every goroutine of the child was blocked: that is a deadlock, not slowness)
			obs.Counters["deadline_retries"]++
			d.DeadlineS = 120
			res = p.run(d)
		}
		if res.Decode == "" && (d.Kind == "tree" || d.Kind == "bytes") {
			// the worker died before reporting: the decoder alone is safe to run here
			var r2 Result
			decodeOnly(d.Files["Taskfile.yml"], &r2)
			res.Decode, res.Line, res.NRaw, res.NHl = r2.Decode, r2.Line, r2.NRaw, r2.NHl
		}
		if res.Class == "timeout" && !res.Deadlock && (strings.Contains(res.Stack, "expand.(*Config).glob") || strings.Contains(res.Stack, "os.ReadDir(")) {
			// still walking the file system when the deadline struck (a generated glob rooted outside the
			// project, e.g. "/**/*.txt", visits the whole machine): slow, not a hang - no verdict
			// (class "harness" below: reported as inconclusive and not shipped to the model comparison)
			res.Class, res.Msg = "harness", "deadline hit while globbing the file system: "+tail(res.Stack, 200)
		}
		if res.Class == "timeout" && res.Phase == "run" {
			// executing tasks is outside C16's termination clause (deadlocks of the executor are C07's subject)
			obs.ImplFails = append(obs.ImplFails, common.ImplFail{Case: i, Kind: "inconclusive", Msg: "dry run did not finish: " + tail(res.Stack, 300)})
			res.Class, res.Msg = "ok", "run phase timed out"
		}
		c := &Case{Doc: *d, Observed: &res}
		obs.CaseInputs = append(obs.CaseInputs, c)
		obs.Count("kind:" + d.Kind)
		obs.Count("label:" + strings.SplitN(d.Label, ":", 3)[0])
		obs.Count("class:" + res.Class)
		if res.Class == "err" {
			obs.Count(fmt.Sprintf("err-code:%d", res.Code))
		}
		if res.Decode != "" {
			obs.Count("decode:" + strings.SplitN(res.Decode, ":", 2)[0])
		}
		for k, n := range res.ErrCodes {
			obs.Histogram["probe-err:"+k] += n
		}
		obs.Counters["probes"] += int64(res.Probes)
		obs.Counters["tasks_compiled"] += int64(res.Tasks)
		if res.Crashed {
			obs.Counters["worker_crashes"]++
		}
		switch res.Class {
		case "harness":
			obs.ImplFails = append(obs.ImplFails, common.ImplFail{Case: i, Kind: "inconclusive", Msg: res.Msg})
			continue
		case "panic":
			obs.Count("panic-sig:" + res.Sig)
			kind := "panic"
			if strings.HasPrefix(res.Sig, "fatal:") {
				kind = "fatal" // the Go runtime ended the process (e.g. concurrent map writes): not recoverable
			}
			obs.ImplFails = append(obs.ImplFails, common.ImplFail{Case: i, Kind: kind, Msg: "sig=" + res.Sig + "\nphase=" + res.Phase + " " + res.Msg + "\n" + tail(res.Stack, 3000)})
		case "timeout":
			kind := "timeout"
			if res.Deadlock {
				kind = "deadlock"
			}
			obs.ImplFails = append(obs.ImplFails, common.ImplFail{Case: i, Kind: kind, Msg: "sig=timeout:" + res.Phase + "\n" + deadlockSummary(res.Stack)})
		case "err":
			if !documentedCodes[res.Code] {
				obs.ImplFails = append(obs.ImplFails, common.ImplFail{Case: i, Kind: "exit-code", Msg: fmt.Sprintf("sig=exit-code:%d\n%s", res.Code, res.Msg)})
			}
		}
		// the CLI on a sample (always on the directed byte documents)
		isReader := strings.HasPrefix(d.Label, "reader:")
		if bin != "" && (d.Kind == "tree" || d.Kind == "bytes") && (len(d.Conc) > 0 || isReader || strings.HasPrefix(d.Label, "inc-options:") || strings.HasPrefix(d.Label, "inc-optional:") || strings.HasPrefix(d.Label, "expand:templated") || (strings.HasPrefix(d.Label, "expand:") && i%3 == 0) || i%cliEvery == 0 || (d.Kind == "bytes" && !strings.HasPrefix(d.Label, "rand:")) || o.Replay != "") {
			name := "nonexist"
			if len(d.Requested) > 0 {
				name = d.Requested[0]
			}
			if t := d.Trees["Taskfile.yml"].Get("tasks"); t != nil && t.K == KMap && len(t.M) > 0 && t.M[0].K.K == KScalar {
				name = t.M[0].K.V
			}
			variants := [][]string{{"--list-all"}, {"--dry", name, "CLI_X=1"}, {"--dry", "nonexist"}}
			if res.Class == "err" && res.Phase == "setup" {
				variants = variants[1:2] // Setup fails the same way whatever is asked
			}
			if d.Kind == "bytes" && len(variants) == 3 {
				variants = variants[:2]
			}
			if isReader {
				variants = [][]string{{"--list-all"}}
			} else if strings.HasPrefix(d.Label, "inc-options:") || strings.HasPrefix(d.Label, "inc-optional:") {
				variants = [][]string{{"--dry", "root"}}
			} else if strings.HasPrefix(d.Label, "expand:") {
				variants = [][]string{{"--dry", "t", "OUT=#1"}, {"--list-all"}}
			}
			if len(d.Conc) > 0 {
				variants = [][]string{{"--dry", "all"}, append([]string{"--parallel", "--dry"}, d.Conc...), {"all"}, {"--list-all"}}
			}
			for _, a := range variants {
				if len(a) > 1 && a[1] == "" {
					continue
				}
				co := runCLI(bin, d, a)
				c.CLI = append(c.CLI, co)
				obs.Counters["cli_runs"]++
				obs.Count(fmt.Sprintf("cli-exit:%d", co.Exit))
				switch {
				case co.Killed:
					obs.ImplFails = append(obs.ImplFails, common.ImplFail{Case: i, Kind: "cli-timeout", Msg: "sig=timeout:cli\n" + strings.Join(a, " ")})
				case co.Panic:
					ck := "cli-panic"
					if strings.HasPrefix(co.Sig, "fatal:") {
						ck = "cli-fatal"
					}
					obs.ImplFails = append(obs.ImplFails, common.ImplFail{Case: i, Kind: ck, Msg: "sig=" + co.Sig + "\nargs=" + strings.Join(a, " ") + "\n" + co.Out})
				case !documentedCodes[co.Exit]:
					obs.ImplFails = append(obs.ImplFails, common.ImplFail{Case: i, Kind: "cli-exit-code", Msg: fmt.Sprintf("sig=exit-code:%d\nargs=%s\n%s", co.Exit, strings.Join(a, " "), co.Out)})
				}
				if co.Panic || co.Killed {
					break
				}
			}
		}
		// Coq side
		oc := outcomeCoq(res.Class, res.Code, res.Sig)
		mons = append(mons, oc)
		monIdx = append(monIdx, i)
		switch d.Kind {
		case "tree":
			trees = append(trees, treeCaseCoq(c))
			treeIdx = append(treeIdx, i)
		case "snip":
			snips = append(snips, fmt.Sprintf("{| sc_line := %d%%Z; sc_nraw := %d%%N; sc_nhl := %d%%N; sc_panicked := %s |}", d.Line, res.NRaw, res.NHl, cg.Bool(res.Class == "panic")))
			snipIdx = append(snipIdx, i)
		case "loc":
			gu := "None"
			if c, ok := giturlCoq(d.Loc); ok {
				gu = "(Some " + c + ")"
			}
			locs = append(locs, fmt.Sprintf("{| lc_loc := %s; lc_giturl := %s; lc_obs := %s |}", CoqStr(d.Loc), gu, oc))
			locIdx = append(locIdx, i)
		case "wild":
			_, e1 := regexp.Compile(wcPattern(d.Name, false))
			_, e2 := regexp.Compile(wcPattern(d.Name, true))
			wilds = append(wilds, fmt.Sprintf("{| wc_name := %s; wc_raw_ok := %s; wc_quoted_ok := %s; wc_panicked := %s |}", CoqStr(d.Name), cg.Bool(e1 == nil), cg.Bool(e2 == nil), cg.Bool(res.Class == "panic")))
			wildIdx = append(wildIdx, i)
		}
		key := d.Kind + "|" + d.Label + "|" + res.Class + "|" + res.Sig + "|" + fmt.Sprint(res.Code) + "|" + string(d.Files["Taskfile.yml"]) + d.Loc + d.Name + fmt.Sprint(d.Line) + string(d.Raw)
		if !seen[key] && res.Probes > 0 {
			seen[key] = true
			obs.Distinct++
		}
		if len(obs.Samples) < 4 && d.Kind == "tree" && res.Class != "err" {
			obs.Samples = append(obs.Samples, map[string]any{"label": d.Label, "taskfile": string(d.Files["Taskfile.yml"]), "class": res.Class, "sig": res.Sig, "probes": res.Probes})
		}
	}
	obs.Cases = len(docs)
	obs.Counters["worker_restarts"] = int64(p.restarts)

	var sb strings.Builder
	sb.WriteString("From Coq Require Import List String NArith ZArith Bool.\nImport ListNotations.\nFrom TV Require Import Decode.Model Extracted.Facts Run.DecodeCases.\nLocal Open Scope string_scope.\n")
	writeList := func(name, typ string, items []string) {
		fmt.Fprintf(&sb, "Definition %s : list %s := [\n", name, typ)
		for i, it := range items {
			if i > 0 {
				sb.WriteString(";\n")
			}
			sb.WriteString(it)
		}
		sb.WriteString("].\n")
	}
	writeList("trees", "tcase", trees)
	writeList("snips", "scase", snips)
	writeList("locs", "lcase", locs)
	writeList("wilds", "wcase", wilds)
	writeList("outcomes", "outcome", mons)
	sb.WriteString("Definition R_mon := Eval vm_compute in failures mon_case outcomes.\nPrint R_mon.\n")
	sb.WriteString("Definition R_decode := Eval vm_compute in failures (decode_agree current) trees.\nPrint R_decode.\n")
	sb.WriteString("Definition R_tree := Eval vm_compute in failures (tree_agree current) trees.\nPrint R_tree.\n")
	sb.WriteString("Definition R_snip := Eval vm_compute in failures (snip_agree current) snips.\nPrint R_snip.\n")
	sb.WriteString("Definition R_loc := Eval vm_compute in failures (loc_agree current) locs.\nPrint R_loc.\n")
	sb.WriteString("Definition R_wild := Eval vm_compute in failures (wild_agree current) wilds.\nPrint R_wild.\n")
	common.WriteFile(o.Out, "cases.v", sb.String())
	idx := map[string][]int{"R_mon": monIdx, "R_decode": treeIdx, "R_tree": treeIdx, "R_snip": snipIdx, "R_loc": locIdx, "R_wild": wildIdx}
	b, _ := json.Marshal(idx)
	common.WriteFile(o.Out, "index.json", string(b))
	obs.Write(o.Out)
	_ = rand.Int
}
