package decode

import (
	"fmt"
	"math/rand"
	"strings"
)

// Malformed / unusual byte streams.  There is no node tree for them, so only the
// monitor (no panic, no hang, documented exit code) applies, not the model comparison.

const (
	nel = "\u0085"
	ls  = "\u2028"
	ps  = "\u2029"
)

type byteDoc struct {
	label string
	b     []byte
}

func fixedByteDocs() []byteDoc {
	base := "version: \"3\"\ntasks:\n  t:\n    desc: d\n    cmds:\n      - echo hi\n  u:\n    cmds: {a: b}\n"
	var out []byteDoc
	add := func(l, s string) { out = append(out, byteDoc{l, []byte(s)}) }
	for _, term := range []struct{ n, t string }{{"cr", "\r"}, {"crlf", "\r\n"}, {"nel", nel}, {"ls", ls}, {"ps", ps}} {
		add("terminators:"+term.n+":decode-error", strings.ReplaceAll(base, "\n", term.t))
		add("terminators:"+term.n+":valid", strings.ReplaceAll("version: \"3\"\ntasks:\n  t:\n    cmds:\n      - echo hi\n", "\n", term.t))
		// the terminator inside a quoted scalar, error further down
		add("terminators:"+term.n+":in-scalar", "version: \"3\"\nvars:\n  D: \"a"+strings.Repeat(term.t+"b", 6)+"\"\ntasks:\n  u:\n    cmds: {a: b}\n")
		// in a comment
		add("terminators:"+term.n+":in-comment", "version: \"3\"\n# c"+strings.Repeat(term.t+"# c", 5)+"\ntasks:\n  u:\n    cmds: {a: b}\n")
	}
	add("reproducer:7.27", "version: \"3\"\rtasks:\r  t:\r    cmds: {a: b}\r")
	add("empty", "")
	add("only-newlines", "\n\n\n")
	add("null-doc", "~\n")
	add("scalar-doc", "hello\n")
	add("seq-doc", "- a\n- b\n")
	add("bom", "\ufeffversion: \"3\"\ntasks: {t: echo}\n")
	add("bom16", "\xff\xfev\x00e\x00")
	add("nul-bytes", "version: \"3\"\x00\ntasks: {}\n")
	add("binary", "\x00\x01\x02\xff\xfe\x80")
	add("invalid-utf8", "version: \"3\"\ntasks:\n  t: \"\xc3\x28\"\n")
	add("tab-indent", "version: \"3\"\ntasks:\n\tt: echo\n")
	add("unterminated-quote", "version: \"3\ntasks: {}\n")
	add("unterminated-flow", "version: \"3\"\ntasks: {t: [echo\n")
	add("multi-doc", "version: \"3\"\ntasks: {t: echo}\n---\nversion: \"3\"\ntasks: {u: {cmds: {a: b}}}\n")
	add("doc-end-only", "...\n")
	add("directive", "%YAML 1.1\n---\nversion: \"3\"\ntasks: {t: echo}\n")
	add("bad-directive", "%FOO bar\n---\nversion: \"3\"\n")
	add("anchor-alias", "version: \"3\"\nx: &a {cmds: [echo a]}\ntasks:\n  t: *a\n  u: *a\n")
	add("alias-empty-map-var", "version: \"3\"\nx: &e {}\nvars:\n  A: *e\ntasks: {t: echo}\n")
	add("alias-unknown", "version: \"3\"\ntasks:\n  t: *nope\n")
	add("alias-self", "version: \"3\"\ntasks: &t\n  a: *t\n")
	add("merge-key", "version: \"3\"\nbase: &b {desc: d, cmds: [echo b]}\ntasks:\n  t:\n    <<: *b\n    silent: true\n")
	add("merge-key-scalar", "version: \"3\"\ntasks:\n  t:\n    <<: 5\n    cmds: [echo]\n")
	add("merge-key-in-vars", "version: \"3\"\nb: &b {A: 1}\nvars:\n  <<: *b\n  B: 2\ntasks: {t: echo}\n")
	add("billion-laughs", "version: \"3\"\na: &a [x,x,x,x,x,x,x,x,x]\nb: &b [*a,*a,*a,*a,*a,*a,*a,*a,*a]\nc: &c [*b,*b,*b,*b,*b,*b,*b,*b,*b]\nd: &d [*c,*c,*c,*c,*c,*c,*c,*c,*c]\ne: &e [*d,*d,*d,*d,*d,*d,*d,*d,*d]\nf: &f [*e,*e,*e,*e,*e,*e,*e,*e,*e]\nvars: {A: {map: *f}}\ntasks: {t: echo}\n")
	add("explicit-tags", "version: !!str 3\ntasks:\n  t: !!str echo\n  u: !!map {cmds: !!seq [echo]}\n  w: !!null x\n")
	add("tag-null-on-map", "version: \"3\"\nvars: !!null {A: 1}\ntasks: {t: echo}\n")
	add("tag-binary", "version: \"3\"\nvars: {A: !!binary \"not base64!\"}\ntasks: {t: echo}\n")
	add("tag-custom", "version: \"3\"\ntasks:\n  t: !foo echo\n  u: !!python/object:os.system x\n")
	add("timestamp", "version: \"3\"\nvars: {A: 2001-12-14t21:59:43.10-05:00}\ntasks: {2001-01-01: echo}\n")
	add("complex-keys", "version: \"3\"\ntasks:\n  ? [a, b]\n  : echo\n  ? {c: d}\n  : echo\n")
	add("null-keys", "version: \"3\"\ntasks:\n  ~: echo\n  null: echo\nvars:\n  ~: 1\n")
	add("int-keys", "version: \"3\"\ntasks:\n  1: echo\n  1.5: echo\n  true: echo\n")
	add("dup-keys", "version: \"3\"\nversion: \"3\"\ntasks:\n  t: echo a\n  t: echo b\n")
	add("deep-nesting", "version: \"3\"\nvars: {A: {map: "+strings.Repeat("[", 3000)+strings.Repeat("]", 3000)+"}}\ntasks: {t: echo}\n")
	add("deep-nesting-map", "version: \"3\"\nvars: {A: {map: "+strings.Repeat("{a: ", 2000)+"1"+strings.Repeat("}", 2000)+"}}\ntasks: {t: echo}\n")
	add("long-line", "version: \"3\"\ntasks:\n  t:\n    desc: "+strings.Repeat("x", 200000)+"\n    cmds: {a: b}\n")
	add("many-lines-error-last", "version: \"3\"\n"+strings.Repeat("# c\n", 3000)+"tasks:\n  t:\n    cmds: {a: b}")
	add("error-on-last-line-no-newline", "version: \"3\"\ntasks:\n  t:\n    cmds: {a: b}")
	add("error-first-line", "[1, 2]")
	add("block-scalars", "version: \"3\"\ntasks:\n  t:\n    desc: |\n      line1\n      line2\n    summary: >-\n      folded\n      text\n    cmds:\n      - |\n        echo a\n        echo b\n")
	add("block-scalar-bad-indent", "version: \"3\"\ntasks:\n  t:\n    desc: |2\n   x\n")
	add("template-syntax-error", "version: \"3\"\nvars: {A: \"{{.B\"}\ntasks:\n  t:\n    desc: \"{{\"\n    cmds: [\"echo {{.A}} {{\"]\n")
	add("template-runtime-error", "version: \"3\"\ntasks:\n  t:\n    vars: {L: [1,2]}\n    cmds: [\"echo {{index .L 9}}\", \"echo {{div 1 0}}\", \"echo {{.A.b.c}}\"]\n")
	add("template-in-include", "version: \"3\"\nincludes:\n  i: \"{{.NOPE}}/x{{\"\ntasks: {t: echo}\n")
	add("ref-errors", "version: \"3\"\nvars: {A: {ref: \".B.c.d\"}, B: {ref: \"index .X 3\"}, C: {ref: \"((\"}}\ntasks:\n  t:\n    cmds:\n      - for: {matrix: {R: {ref: \".A\"}}}\n        cmd: echo {{.ITEM}}\n")
	add("for-var-kinds", "version: \"3\"\nvars: {S: \"a b\", N: 5, M: {map: {k: v}}, L: [1, [2], {a: b}], E: \"\"}\ntasks:\n  t:\n    cmds:\n      - {for: {var: S}, cmd: \"echo {{.ITEM}}\"}\n      - {for: {var: N}, cmd: \"echo {{.ITEM}}\"}\n      - {for: {var: M}, cmd: \"echo {{.KEY}}\"}\n      - {for: {var: L}, cmd: \"echo {{.ITEM}}\"}\n      - {for: {var: E, split: \"\"}, cmd: \"echo {{.ITEM}}\"}\n      - {for: {var: NOPE}, task: t2}\n  t2: echo\n")
	add("matrix-empty-rows", "version: \"3\"\ntasks:\n  t:\n    cmds:\n      - {for: {matrix: {A: [], B: [1]}}, cmd: echo}\n      - {for: {matrix: {A: ~}}, cmd: echo}\n")
	add("self-include", "version: \"3\"\nincludes: {me: Taskfile.yml}\ntasks: {t: echo}\n")
	add("include-dir", "version: \"3\"\nincludes: {me: .}\ntasks: {t: echo}\n")
	add("include-null", "version: \"3\"\nincludes: {me: ~}\ntasks: {t: echo}\n")
	add("reproducer:7.28", "version: \"3\"\nincludes: {g: \"https://example.com/foo/bar.git\"}\ntasks: {t: echo}\n")
	add("include-git-odd", "version: \"3\"\nincludes:\n  a: \"git@github.com:foo/bar.git\"\n  b: {taskfile: \"ssh://git@h/r.git\", optional: true}\ntasks: {t: echo}\n")
	add("version-kinds", "version: {}\ntasks: {t: echo}\n")
	add("version-seq", "version: [3]\ntasks: {t: echo}\n")
	add("version-2", "version: \"2\"\ntasks: {t: echo}\n")
	add("version-huge", "version: \"99999999999999999999.0.0\"\ntasks: {t: echo}\n")
	add("version-float", "version: 3.0\ntasks: {t: echo}\n")
	add("reproducer:7.23", "version: \"3\"\nvars: {A: {}}\ntasks:\n  t: echo hi\n")
	add("reproducer:7.24", "version: \"3\"\ntasks:\n  t:\n    sources: [~]\n    cmds: [echo hi]\n")
	add("reproducer:7.25", "version: \"3\"\ntasks:\n  t:\n    platforms: [~]\n    cmds: [echo hi]\n")
	add("reproducer:7.25-cmd", "version: \"3\"\ntasks:\n  t:\n    cmds: [{cmd: echo hi, platforms: [windows, ~]}]\n")
	add("reproducer:7.26", "version: \"3\"\ntasks:\n  t:\n    requires: {vars: [~]}\n    cmds: [echo hi]\n")
	add("reproducer:7.21", "version: \"3\"\ntasks:\n  \"a(b\": echo hi\n")
	add("reproducer:timestamp-var", "version: \"3\"\nvars: {BUILD_DATE: 2024-01-15}\ntasks:\n  t: \"echo {{.BUILD_DATE}}\"\n")
	add("reproducer:timestamp-include-vars", "version: \"3\"\nincludes: {i: {taskfile: Taskfile.yml, optional: true, vars: {D: 2024-01-15}}}\ntasks:\n  t: echo\n")
	add("reproducer:empty-matrix", "version: \"3\"\nvars: {X: \"a b\"}\ntasks:\n  t:\n    cmds:\n      - for: {var: X, matrix: {}}\n        cmd: \"echo {{.ITEM}}\"\n")
	add("reproducer:glob-u2028", "version: \"3\"\ntasks:\n  t:\n    sources: [\"*.t"+ls+"xt\"]\n    cmds: [echo hi]\n")
	add("glob-non-ascii", "version: \"3\"\ntasks:\n  t:\n    sources: [\"d\u00e9p/*.t\u00ebxt\", \"[\", \"a{b,c\", \"**/**/[!a-\", \"\\\\\"]\n    cmds: [echo hi]\n")
	add("regex-names", "version: \"3\"\ntasks:\n  \"x.y\": echo\n  \"a+\": echo\n  \"[\": echo\n  \"*(\": echo\n  \"\\\\\": echo\n  \"a{1001}\": echo\n  \"(?P<n>\": echo\n")
	add("regex-heavy-name", "version: \"3\"\ntasks:\n  \""+strings.Repeat("(a*)*", 40)+"b\": echo\n")
	add("requires-kinds", "version: \"3\"\ntasks:\n  t:\n    requires: {vars: [A, {name: B, enum: ~}, {name: ~}, {enum: [x]}]}\n    cmds: [echo]\n")
	add("nil-everywhere", "version: \"3\"\ntasks:\n  t:\n    cmds: [~, echo, ~]\n    deps: [~]\n    preconditions: [~]\n    generates: [~]\n    aliases: [~]\n    status: [~]\n    dotenv: [~]\n    prompt: [~]\n    set: [~]\n")
	add("empty-maps-everywhere", "version: \"3\"\noutput: {}\nincludes: {}\nvars: {}\nenv: {}\ntasks:\n  t: {}\n  u: {cmds: [{}], deps: [{}], sources: [{}], preconditions: [{}], requires: {}, vars: {}, env: {}}\n")
	add("empty-seqs-everywhere", "version: \"3\"\nset: []\ndotenv: []\ntasks:\n  t: []\n  u: {cmds: [], deps: [], sources: [], generates: [], platforms: [], prompt: [], aliases: [], status: []}\n")
	add("output-kinds", "version: \"3\"\noutput: {group: {begin: [1]}}\ntasks: {t: echo}\n")
	add("interval-kinds", "version: \"3\"\ninterval: -5s\ntasks: {t: echo}\n")
	add("huge-int", "version: \"3\"\nvars: {A: 99999999999999999999999999, B: 0x7fffffffffffffffff, C: .inf, D: .nan, E: -0}\ntasks: {t: \"echo {{.A}}\"}\n")
	return out
}

// randomByteDoc damages a rendered tree document.
func randomByteDoc(r *rand.Rand, doc string) byteDoc {
	b := []byte(doc)
	terms := []string{"\r", "\r\n", nel, ls, ps}
	switch r.Intn(7) {
	case 0: // all line feeds become another terminator
		t := terms[r.Intn(len(terms))]
		return byteDoc{fmt.Sprintf("rand:terminator:%q", t), []byte(strings.ReplaceAll(doc, "\n", t))}
	case 1: // some line feeds become another terminator
		var sb strings.Builder
		t := terms[r.Intn(len(terms))]
		for _, c := range doc {
			if c == '\n' && r.Intn(2) == 0 {
				sb.WriteString(t)
			} else {
				sb.WriteRune(c)
			}
		}
		return byteDoc{fmt.Sprintf("rand:terminator-mixed:%q", t), []byte(sb.String())}
	case 2: // truncate
		if len(b) > 0 {
			b = b[:r.Intn(len(b))]
		}
		return byteDoc{"rand:truncate", b}
	case 3: // byte flips
		for i := 0; i < 1+r.Intn(4) && len(b) > 0; i++ {
			b[r.Intn(len(b))] = byte(r.Intn(256))
		}
		return byteDoc{"rand:byte-flip", b}
	case 4: // delete a span
		if len(b) > 2 {
			i := r.Intn(len(b) - 1)
			j := i + 1 + r.Intn(min(20, len(b)-i-1))
			b = append(append([]byte{}, b[:i]...), b[j:]...)
		}
		return byteDoc{"rand:delete-span", b}
	case 5: // insert structural characters
		ins := []string{"{", "}", "[", "]", ":", "- ", "? ", "&a ", "*a ", "!!", "|", ">", "\"", "'", "#", "%", "@", "`", "\t", ls, nel}
		for i := 0; i < 1+r.Intn(3); i++ {
			p := r.Intn(len(b) + 1)
			s := ins[r.Intn(len(ins))]
			b = append(append(append([]byte{}, b[:p]...), s...), b[p:]...)
		}
		return byteDoc{"rand:insert-structural", b}
	default: // terminators sprinkled inside quoted scalars
		t := terms[2+r.Intn(3)]
		s := strings.Replace(doc, "a", "a"+strings.Repeat(t, 1+r.Intn(5)), 1+r.Intn(3))
		return byteDoc{fmt.Sprintf("rand:terminator-in-text:%q", t), []byte(s)}
	}
}
