package decode

import (
	"fmt"
	"math/rand"
)

// The generator builds node trees along the Taskfile schema and deviates from it
// with probability dev at every node: null, empty mapping, empty sequence, wrong
// kind; list positions receive nulls.  No string contains template syntax, no
// command does anything but echo/true/test, no task watches, task calls are acyclic.

type gen struct {
	r    *rand.Rand
	dev  float64 // probability of a deviation at a node
	nul  float64 // probability of a null in a list position
	hist map[string]int
}

var taskNames = []string{"build", "test", "a*", "x.y", "a(b", "t+", "[z", "ns:sub", "default", "a b", "lint", "dep*-*", "q?", `b\`, "c|d", "e{2", "f$", "^g", "h)", "docs"}
var plainNames = []string{"build", "test", "default", "lint", "docs", "gen", "fmt"}
var cmdPool = []string{"echo a", "true", "echo b c", "test -f nofile", "echo 'x'"}
var strPool = []string{"a", "text", "", "x y", "1", "yes", "no", "on", "true", "~", "été", "a\tb"}
var badOsPool = []string{"bogus", "", "linux/bogus", "a/b/c", "amd64/amd64"}

// strings handed to execext.ExpandLiteral / ExpandFields (task dir, include location and dir,
// dotenv paths, globs): shell comments, blanks only, parameter and tilde expansion, quotes, backslashes
var hostilePaths = []string{"#build", "#", "\t", "\n", " \t ", "\t#x", "# c", "$HOME", "$X", "$X/sub", "~", "~/x", "~nouser", "'a", "\"a", "a'b'c",
	"a\\", "\\", "a b", "a&b", "(x)", "${X", "${X}", "${X:-sub}", "$(echo)", "`x`", "a;b", "a|b", "a>b", "*", "{a,b}", "sub", ".", "$", "$$", "!", "a#b", "\\#x"}

var osPool = []string{"linux", "windows", "darwin", "linux/amd64", "amd64", "windows/arm64", "linux/386", "linux", "windows", "darwin/arm64", "freebsd", "arm64", "linux", "windows/amd64"}
var locPool = []string{
	"inc1.yml", "inc2.yml", "missing.yml", "", "Taskfile.yml",
	"https://example.com/foo/bar.git", "https://example.com/foo/bar.git//Taskfile.yml?ref=main",
	"http://example.com/Taskfile.yml", "https://example.com/t.yml", "git@github.com:foo/bar.git",
	"ssh://git@host.example/repo.git", "git://host.example/r.git//sub/Taskfile.yml", "file:///nonexistent/x.yml",
	"://", "%zz", "gitfoo.yml", "http://[::1", "https://h.example/a.git/b", "git.yml",
}

func (g *gen) pick(p []string) string { return p[g.r.Intn(len(p))] }
func (g *gen) chance(p float64) bool  { return g.r.Float64() < p }
func (g *gen) count(k string)         { g.hist[k]++ }

// d wraps a generated node with a possible deviation.
func (g *gen) d(y *Y) *Y {
	if !g.chance(g.dev) {
		return y
	}
	k := g.r.Intn(4)
	g.count(fmt.Sprintf("deviation:%d", k))
	return mutate(k, y)
}

func (g *gen) scalar() *Y {
	switch g.r.Intn(8) {
	case 0:
		return Int(g.r.Intn(10))
	case 1:
		return Bool(g.r.Intn(2) == 0)
	case 2:
		return Float("1.5")
	case 3:
		if g.chance(0.1) {
			return Time("2001-12-14")
		}
		return Str(g.pick(strPool))
	default:
		return Str(g.pick(strPool))
	}
}

func (g *gen) str() *Y { return g.d(Str(g.pick(strPool))) }
func (g *gen) boolean() *Y {
	if g.chance(0.15) {
		return g.d(Str(g.pick([]string{"yes", "no", "on", "off", "y", "maybe"})))
	}
	return g.d(Bool(g.r.Intn(2) == 0))
}

func (g *gen) list(n int, f func() *Y) *Y {
	var xs []*Y
	for i := 0; i < n; i++ {
		if g.chance(g.nul) {
			g.count("null-in-list")
			xs = append(xs, Null())
		} else {
			xs = append(xs, f())
		}
	}
	return g.d(Seq(xs...))
}

func (g *gen) strlist() *Y {
	return g.list(g.r.Intn(3), func() *Y { return g.str() })
}

func (g *gen) anyval(depth int) *Y {
	if depth <= 0 {
		return g.scalar()
	}
	switch g.r.Intn(5) {
	case 0:
		return g.list(g.r.Intn(3), func() *Y { return g.anyval(depth - 1) })
	case 1:
		var kvs []KV
		for i := 0; i < g.r.Intn(3); i++ {
			kvs = append(kvs, P(fmt.Sprintf("k%d", i), g.anyval(depth-1)))
		}
		if g.chance(0.1) && len(kvs) > 0 {
			kvs = append(kvs, kvs[0]) // duplicate key
		}
		if g.chance(0.05) {
			kvs = append(kvs, KV{K: Seq(Str("a")), V: Str("b")}) // unhashable key
		}
		return Map(kvs...)
	default:
		return g.scalar()
	}
}

func (g *gen) variable() *Y {
	switch g.r.Intn(24) {
	case 0, 8, 16:
		return g.d(Map(P("sh", Str("echo v"))))
	case 1, 9:
		return g.d(Map(P("ref", Str(".A"))))
	case 2, 10, 18:
		return g.d(Map(P("map", g.anyval(2))))
	case 3:
		g.count("var:empty-map")
		return Map()
	case 4:
		if g.chance(0.3) {
			return g.d(Map(P("bogus", Str("x"))))
		}
		return g.d(g.scalar())
	case 12:
		return g.d(g.scalar())
	case 5, 13, 21:
		return g.list(g.r.Intn(3), g.scalar)
	case 6:
		g.count("var:timestamp")
		return g.d(g.pickY([]*Y{Time("2001-12-14"), Seq(Str("a"), Time("2001-12-14t21:59:43.10-05:00")), Map(P("map", Map(P("d", Time("2024-01-15"))))), Map(P("ref", Str(".A")), P("map", Time("2024-01-15")))}))
	default:
		return g.d(g.scalar())
	}
}

func (g *gen) vars() *Y {
	var kvs []KV
	for i := 0; i < g.r.Intn(3); i++ {
		kvs = append(kvs, P(fmt.Sprintf("V%d", g.r.Intn(4)), g.variable()))
	}
	return g.d(Map(kvs...))
}

func (g *gen) platforms() *Y {
	return g.list(1+g.r.Intn(2), func() *Y {
		if g.chance(0.06) {
			return g.d(Str(g.pick(badOsPool)))
		}
		return g.d(Str(g.pick(osPool)))
	})
}

func (g *gen) glob() *Y {
	if g.chance(0.2) {
		return g.d(Map(P("exclude", g.str())))
	}
	if g.chance(0.12) {
		g.count("hostile:glob")
		return g.d(Str(g.pick(hostilePaths)))
	}
	return g.d(Str(g.pick([]string{"*.go", "src/**/*.txt", "none.txt", ""})))
}

func (g *gen) matrix() *Y {
	var kvs []KV
	for i := 0; i < g.r.Intn(3); i++ {
		var v *Y
		switch g.r.Intn(4) {
		case 0:
			v = g.d(Map(P("ref", Str(".L"))))
		case 1:
			v = g.scalar()
		default:
			v = g.list(g.r.Intn(3), g.scalar)
		}
		kvs = append(kvs, P(fmt.Sprintf("M%d", i), v))
	}
	return g.d(Map(kvs...))
}

func (g *gen) forNode() *Y {
	switch g.r.Intn(6) {
	case 0:
		return g.d(Str(g.pick([]string{"sources", "generates", "x"})))
	case 1:
		return g.list(g.r.Intn(3), g.scalar)
	case 2:
		return g.d(Map(P("var", Str("V0")), P("split", Str(",")), P("as", Str("IT"))))
	case 3:
		return g.d(Map(P("matrix", g.matrix())))
	case 4:
		if g.chance(0.5) {
			g.count("for:empty-matrix")
			return g.d(Map(P("var", Str("V0")), P("matrix", Map())))
		}
		return g.d(Map(P("var", Str("V1")), P("matrix", g.matrix())))
	default:
		return g.d(Map(P("var", g.str())))
	}
}

// callee picks a task declared later (acyclic) or an unknown one.
func (g *gen) callee(later []string) string {
	if len(later) > 0 && g.chance(0.7) {
		return later[g.r.Intn(len(later))]
	}
	return "nonexist"
}

func (g *gen) cmd(later []string) *Y {
	switch g.r.Intn(10) {
	case 0, 1, 2:
		return g.d(Str(g.pick(cmdPool)))
	case 3:
		kvs := []KV{P("cmd", Str(g.pick(cmdPool)))}
		if g.chance(0.5) {
			kvs = append(kvs, P("platforms", g.platforms()))
		}
		if g.chance(0.3) {
			kvs = append(kvs, P("silent", g.boolean()))
		}
		if g.chance(0.2) {
			kvs = append(kvs, P("ignore_error", g.boolean()))
		}
		if g.chance(0.2) {
			kvs = append(kvs, P("set", g.strlist()))
		}
		if g.chance(0.15) {
			kvs = append(kvs, P("for", g.forNode()))
		}
		return g.d(Map(kvs...))
	case 4:
		kvs := []KV{P("task", Str(g.callee(later)))}
		if g.chance(0.4) {
			kvs = append(kvs, P("vars", g.vars()))
		}
		if g.chance(0.2) {
			kvs = append(kvs, P("platforms", g.platforms()))
		}
		if g.chance(0.15) {
			kvs = append(kvs, P("for", g.forNode()))
		}
		return g.d(Map(kvs...))
	case 5:
		if g.chance(0.5) {
			return g.d(Map(P("defer", Str(g.pick(cmdPool)))))
		}
		return g.d(Map(P("defer", g.d(Map(P("task", Str(g.callee(later))), P("vars", g.vars()))))))
	case 6:
		if g.chance(0.3) {
			return g.d(Map(P("silent", g.boolean()))) // invalid keys in command
		}
		return g.d(Str(g.pick(cmdPool)))
	case 7:
		if g.chance(0.3) {
			return g.d(Map(P("cmd", g.str()), P("task", g.str())))
		}
		return g.d(Map(P("cmd", Str(g.pick(cmdPool))), P("platforms", g.platforms())))
	default:
		return g.d(Str(g.pick(cmdPool)))
	}
}

func (g *gen) dep(later []string) *Y {
	if g.chance(0.5) {
		return g.d(Str(g.callee(later)))
	}
	kvs := []KV{P("task", Str(g.callee(later)))}
	if g.chance(0.4) {
		kvs = append(kvs, P("vars", g.vars()))
	}
	if g.chance(0.15) {
		kvs = append(kvs, P("for", g.forNode()))
	}
	if g.chance(0.2) {
		kvs = append(kvs, P("silent", g.boolean()))
	}
	return g.d(Map(kvs...))
}

func (g *gen) requires() *Y {
	return g.d(Map(P("vars", g.list(1+g.r.Intn(2), func() *Y {
		if g.chance(0.3) {
			return g.d(Map(P("name", Str("V0")), P("enum", g.strlist())))
		}
		return g.d(Str(g.pick([]string{"V0", "V1", "UNSET_VAR", "HOME"})))
	}))))
}

func (g *gen) precond() *Y {
	if g.chance(0.5) {
		return g.d(Str(g.pick([]string{"true", "test -f nofile"})))
	}
	return g.d(Map(P("sh", Str("true")), P("msg", g.str())))
}

func (g *gen) taskNode(later []string) *Y {
	switch g.r.Intn(12) {
	case 0:
		return g.d(Str(g.pick(cmdPool)))
	case 1:
		return g.list(1+g.r.Intn(2), func() *Y { return g.cmd(later) })
	}
	var kvs []KV
	add := func(p float64, k string, f func() *Y) {
		if g.chance(p) {
			kvs = append(kvs, P(k, f()))
		}
	}
	add(0.8, "cmds", func() *Y { return g.list(g.r.Intn(3), func() *Y { return g.cmd(later) }) })
	add(0.02, "cmd", func() *Y { return g.cmd(later) })
	add(0.3, "deps", func() *Y { return g.list(1+g.r.Intn(2), func() *Y { return g.dep(later) }) })
	add(0.3, "desc", g.str)
	add(0.1, "label", g.str)
	add(0.1, "summary", g.str)
	add(0.1, "prompt", func() *Y {
		if g.chance(0.5) {
			return g.str()
		}
		return g.strlist()
	})
	add(0.15, "aliases", func() *Y { return g.list(1, func() *Y { return g.d(Str(g.pick([]string{"al", "b", "a(", "x*"}))) }) })
	add(0.3, "sources", func() *Y { return g.list(1+g.r.Intn(2), g.glob) })
	add(0.15, "generates", func() *Y { return g.list(1+g.r.Intn(2), g.glob) })
	add(0.1, "status", func() *Y { return g.list(1, func() *Y { return g.d(Str(g.pick([]string{"true", "false"}))) }) })
	add(0.15, "preconditions", func() *Y { return g.list(1+g.r.Intn(2), g.precond) })
	add(0.15, "dir", func() *Y {
		if g.chance(0.4) {
			g.count("hostile:dir")
			return g.d(Str(g.pick(hostilePaths)))
		}
		return g.d(Str(g.pick([]string{"sub", ".", ""})))
	})
	add(0.1, "set", g.strlist)
	add(0.05, "shopt", g.strlist)
	add(0.3, "vars", g.vars)
	add(0.15, "env", g.vars)
	add(0.05, "dotenv", func() *Y {
		return g.list(1, func() *Y {
			if g.chance(0.4) {
				return g.d(Str(g.pick(hostilePaths)))
			}
			return g.d(Str(".env"))
		})
	})
	add(0.15, "silent", g.boolean)
	add(0.05, "interactive", g.boolean)
	add(0.1, "internal", g.boolean)
	add(0.1, "method", func() *Y { return g.d(Str(g.pick([]string{"checksum", "timestamp", "none"}))) })
	add(0.1, "prefix", g.str)
	add(0.1, "ignore_error", g.boolean)
	add(0.1, "run", func() *Y { return g.d(Str(g.pick([]string{"once", "always", "when_changed"}))) })
	add(0.3, "platforms", g.platforms)
	add(0.25, "requires", g.requires)
	add(0.03, "watch", func() *Y { return g.d(Bool(false)) })
	add(0.03, "unknown_key", g.str)
	if g.chance(0.03) && len(kvs) > 0 {
		kvs = append(kvs, kvs[0])
		g.count("duplicate-key")
	}
	g.r.Shuffle(len(kvs), func(i, j int) { kvs[i], kvs[j] = kvs[j], kvs[i] })
	return g.d(Map(kvs...))
}

func (g *gen) tasks(names []string) *Y {
	var kvs []KV
	for i, n := range names {
		var k *Y = Str(n)
		if g.chance(0.01) {
			k = Null()
		} else if g.chance(0.01) {
			k = Seq(Str(n))
		}
		if g.chance(0.03) {
			kvs = append(kvs, KV{K: k, V: Null()})
			continue
		}
		// callees: plain-named tasks declared later
		var later []string
		for _, m := range names[i+1:] {
			if isPlain(m) {
				later = append(later, m)
			}
		}
		kvs = append(kvs, KV{K: k, V: g.taskNode(later)})
	}
	return g.d(Map(kvs...))
}

func isPlain(s string) bool {
	for _, p := range plainNames {
		if p == s {
			return true
		}
	}
	return false
}

func (g *gen) include() *Y {
	loc := g.pick(locPool)
	if g.chance(0.15) {
		g.count("hostile:include-location")
		loc = g.pick(hostilePaths)
	}
	if g.chance(0.5) {
		return g.d(Str(loc))
	}
	kvs := []KV{P("taskfile", g.d(Str(loc)))}
	if g.chance(0.4) {
		kvs = append(kvs, P("optional", g.boolean()))
	}
	if g.chance(0.2) {
		kvs = append(kvs, P("internal", g.boolean()))
	}
	if g.chance(0.15) {
		kvs = append(kvs, P("flatten", g.boolean()))
	}
	if g.chance(0.2) {
		if g.chance(0.4) {
			kvs = append(kvs, P("dir", g.d(Str(g.pick(hostilePaths)))))
		} else {
			kvs = append(kvs, P("dir", g.d(Str("sub"))))
		}
	}
	if g.chance(0.2) {
		kvs = append(kvs, P("aliases", g.strlist()))
	}
	if g.chance(0.3) {
		// names that the included files do define (default among them), and some that they do not
		kvs = append(kvs, P("excludes", g.list(1+g.r.Intn(2), func() *Y {
			return g.d(Str(g.pick([]string{"default", "hello", "build", "test", "only1", "nosuch", "lint"})))
		})))
	}
	if g.chance(0.3) {
		kvs = append(kvs, P("vars", g.vars()))
	}
	return g.d(Map(kvs...))
}

func (g *gen) output() *Y {
	switch g.r.Intn(5) {
	case 0:
		return g.d(Str(g.pick([]string{"interleaved", "group", "prefixed", "bogus"})))
	case 1:
		return g.d(Map(P("group", g.d(Map(P("begin", g.str()), P("end", g.str()), P("error_only", g.boolean()))))))
	case 2:
		if g.chance(0.5) {
			return g.d(Map(P("group", Null())))
		}
		return g.d(Str("prefixed"))
	case 3:
		if g.chance(0.5) {
			return g.d(Map(P("other", Str("x"))))
		}
		return g.d(Str("group"))
	default:
		return g.d(Str("interleaved"))
	}
}

// names picks distinct task names; odd controls how often regex metacharacters appear.
func (g *gen) names(odd float64) []string {
	n := 1 + g.r.Intn(4)
	seen := map[string]bool{}
	var out []string
	for len(out) < n {
		var s string
		if g.chance(odd) {
			s = g.pick(taskNames)
		} else {
			s = g.pick(plainNames)
		}
		if !seen[s] {
			seen[s] = true
			out = append(out, s)
		}
	}
	return out
}

// taskfile builds a root document; withIncludes allows an includes section.
func (g *gen) taskfile(withIncludes bool, odd float64) *Y {
	var kvs []KV
	switch g.r.Intn(20) {
	case 0:
		// no version
	case 1:
		kvs = append(kvs, P("version", g.d(g.scalar())))
	case 2:
		kvs = append(kvs, P("version", Str(g.pick([]string{"2", "3.0.0", "99", "v3", "three", "3", "3", "3.0"}))))
	default:
		kvs = append(kvs, P("version", g.d(Str("3"))))
	}
	add := func(p float64, k string, f func() *Y) {
		if g.chance(p) {
			kvs = append(kvs, P(k, f()))
		}
	}
	add(0.1, "output", g.output)
	add(0.05, "method", func() *Y { return g.d(Str(g.pick([]string{"checksum", "timestamp", "none"}))) })
	if withIncludes {
		add(0.9, "includes", func() *Y {
			var inc []KV
			for i := 0; i < 1+g.r.Intn(2); i++ {
				ns := g.pick([]string{"inc", "other", "a(b", "n"})
				if g.chance(0.1) {
					inc = append(inc, KV{K: Str(ns), V: Null()})
				} else {
					inc = append(inc, KV{K: Str(ns), V: g.include()})
				}
			}
			return g.d(Map(inc...))
		})
	}
	add(0.05, "set", g.strlist)
	add(0.03, "shopt", g.strlist)
	add(0.4, "vars", g.vars)
	add(0.15, "env", g.vars)
	add(0.95, "tasks", func() *Y { return g.tasks(g.names(odd)) })
	add(0.1, "silent", g.boolean)
	add(0.05, "dotenv", func() *Y { return g.list(1, func() *Y { return g.d(Str(".env")) }) })
	add(0.05, "run", func() *Y { return g.d(Str(g.pick([]string{"once", "always", "when_changed"}))) })
	add(0.05, "interval", func() *Y { return g.d(g.pickY([]*Y{Str("500ms"), Str("1s"), Str("soon"), Int(5)})) })
	add(0.02, "unknown", g.str)
	return g.d(Map(kvs...))
}

func (g *gen) pickY(p []*Y) *Y { return p[g.r.Intn(len(p))] }

// fixed included files
func incTree(i int) *Y {
	return Map(
		P("version", Str("3")),
		P("tasks", Map(
			P("hello", Str("echo hello")),
			P(fmt.Sprintf("only%d", i), Map(P("cmds", Seq(Str("echo only")))))),
		),
	)
}

// maximalTaskfile is a well-formed document that uses every key of the schema.
func maximalTaskfile() *Y {
	vars := func() *Y {
		return Map(P("A", Str("a")), P("B", Map(P("sh", Str("echo b")))), P("C", Map(P("ref", Str(".A")))),
			P("D", Map(P("map", Map(P("k", Seq(Int(1), Str("x"))))))), P("E", Seq(Str("x"), Int(2))), P("F", Int(3)))
	}
	forVar := Map(P("var", Str("A")), P("split", Str(",")), P("as", Str("IT")))
	forMatrix := Map(P("matrix", Map(P("OS", Seq(Str("linux"), Str("windows"))), P("R", Map(P("ref", Str(".E")))))))
	full := Map(
		P("desc", Str("d")), P("label", Str("l")), P("summary", Str("s")), P("prompt", Seq(Str("sure?"))),
		P("aliases", Seq(Str("f"))),
		P("sources", Seq(Str("*.txt"), Map(P("exclude", Str("x.txt"))))),
		P("generates", Seq(Str("out.bin"))),
		P("status", Seq(Str("false"))),
		P("preconditions", Seq(Str("true"), Map(P("sh", Str("true")), P("msg", Str("m"))))),
		P("dir", Str("sub")), P("set", Seq(Str("e"))), P("shopt", Seq(Str("globstar"))),
		P("vars", vars()), P("env", Map(P("EV", Str("1")))),
		P("dotenv", Seq(Str(".env"))),
		P("silent", Bool(false)), P("interactive", Bool(false)), P("internal", Bool(false)),
		P("method", Str("checksum")), P("prefix", Str("p")), P("ignore_error", Bool(true)), P("run", Str("once")),
		P("platforms", Seq(Str("linux"), Str("linux/amd64"), Str("amd64"))),
		P("requires", Map(P("vars", Seq(Str("A"), Map(P("name", Str("F")), P("enum", Seq(Str("3"), Str("4")))))))),
		P("watch", Bool(false)),
		P("deps", Seq(Str("leaf"), Map(P("task", Str("leaf")), P("vars", Map(P("X", Str("1")))), P("silent", Bool(true))),
			Map(P("task", Str("leaf")), P("for", forVar)))),
		P("cmds", Seq(
			Str("echo one"),
			Map(P("cmd", Str("echo two")), P("silent", Bool(true)), P("ignore_error", Bool(true)), P("set", Seq(Str("e"))),
				P("shopt", Seq(Str("globstar"))), P("platforms", Seq(Str("linux"), Str("darwin")))),
			Map(P("task", Str("leaf")), P("vars", Map(P("X", Str("2")))), P("silent", Bool(false))),
			Map(P("cmd", Str("echo loop")), P("for", Seq(Str("a"), Str("b")))),
			Map(P("cmd", Str("echo src")), P("for", Str("sources"))),
			Map(P("task", Str("leaf")), P("for", forMatrix)),
			Map(P("defer", Str("echo bye"))),
			Map(P("defer", Map(P("task", Str("leaf")), P("vars", Map(P("X", Str("3")))), P("silent", Bool(true))))),
		)),
	)
	return Map(
		P("version", Str("3")),
		P("output", Map(P("group", Map(P("begin", Str("B")), P("end", Str("E")), P("error_only", Bool(false)))))),
		P("method", Str("checksum")),
		P("includes", Map(
			P("inc", Str("inc1.yml")),
			P("adv", Map(P("taskfile", Str("inc2.yml")), P("dir", Str("sub")), P("optional", Bool(true)), P("internal", Bool(false)),
				P("flatten", Bool(false)), P("aliases", Seq(Str("ad"))), P("excludes", Seq(Str("hello"))), P("vars", Map(P("IV", Str("1")))))),
		)),
		P("set", Seq(Str("u"))), P("shopt", Seq(Str("nullglob"))),
		P("vars", vars()), P("env", Map(P("GE", Str("g")))),
		P("silent", Bool(false)), P("dotenv", Seq(Str(".env"))), P("run", Str("always")), P("interval", Str("500ms")),
		P("tasks", Map(
			P("full", full),
			P("short", Str("echo short")),
			P("list", Seq(Str("echo l1"), Map(P("task", Str("leaf"))))),
			P("single", Map(P("cmd", Str("echo single")))),
			P("wild-*", Map(P("cmds", Seq(Str("echo wild"))))),
			P("leaf", Map(P("cmds", Seq(Str("echo leaf"))))),
		)),
	)
}

// maximalIncluded is maximalTaskfile without the keys only a root Taskfile may have.
func maximalIncluded() *Y {
	m := maximalTaskfile()
	out := &Y{K: KMap}
	for _, kv := range m.M {
		if kv.K.V == "includes" || kv.K.V == "dotenv" {
			continue
		}
		out.M = append(out.M, kv)
	}
	return out
}

// seqElemPaths lists the positions that are elements of a sequence.
func seqElemPaths(y *Y, prefix []int, out *[][]int) {
	switch y.K {
	case KSeq:
		for i, s := range y.S {
			p := append(append([]int(nil), prefix...), i)
			*out = append(*out, p)
			seqElemPaths(s, p, out)
		}
	case KMap:
		for i, kv := range y.M {
			seqElemPaths(kv.V, append(append([]int(nil), prefix...), i), out)
		}
	}
}

// includeShapes: how the mutated / random file is reached from the root.
var includeShapes = []string{"namespaced", "flatten", "depth2", "depth2-flatten", "optional", "optional-flatten"}

// includeTrees puts [inc] behind a root Taskfile: directly (namespaced or flattened) or
// through an intermediate file (depth 2), so that Tasks.Merge deep-copies its tasks once or twice.
func includeTrees(shape string, inc *Y) map[string]*Y {
	rootTask := P("tasks", Map(P("root", Map(P("cmds", Seq(Str("echo root")))))))
	incl := func(ns, file string, flatten bool) *Y {
		if flatten {
			return Map(P(ns, Map(P("taskfile", Str(file)), P("flatten", Bool(true)))))
		}
		return Map(P(ns, Str(file)))
	}
	switch shape {
	case "optional", "optional-flatten":
		o := Map(P("taskfile", Str("inc1.yml")), P("optional", Bool(true)), P("flatten", Bool(shape == "optional-flatten")), P("excludes", Seq(Str("short"))))
		return map[string]*Y{"Taskfile.yml": Map(P("version", Str("3")), P("includes", Map(P("a", o))), rootTask), "inc1.yml": inc}
	case "namespaced":
		return map[string]*Y{"Taskfile.yml": Map(P("version", Str("3")), P("includes", incl("a", "inc1.yml", false)), rootTask), "inc1.yml": inc}
	case "flatten":
		return map[string]*Y{"Taskfile.yml": Map(P("version", Str("3")), P("includes", incl("a", "inc1.yml", true)), rootTask), "inc1.yml": inc}
	case "depth2":
		return map[string]*Y{
			"Taskfile.yml": Map(P("version", Str("3")), P("includes", incl("a", "mid.yml", false)), rootTask),
			"mid.yml":      Map(P("version", Str("3")), P("includes", incl("b", "inc1.yml", false)), P("tasks", Map(P("mid", Str("echo mid"))))),
			"inc1.yml":     inc}
	default:
		return map[string]*Y{
			"Taskfile.yml": Map(P("version", Str("3")), P("includes", incl("a", "mid.yml", true)), rootTask),
			"mid.yml":      Map(P("version", Str("3")), P("includes", incl("b", "inc1.yml", true)), P("tasks", Map(P("mid", Str("echo mid"))))),
			"inc1.yml":     inc}
	}
}

// includedFile is a random Taskfile meant to be included: always version 3, no dotenv, plain task names.
func (g *gen) includedFile() *Y {
	kvs := []KV{P("version", Str("3"))}
	if g.chance(0.4) {
		kvs = append(kvs, P("vars", g.vars()))
	}
	if g.chance(0.15) {
		kvs = append(kvs, P("env", g.vars()))
	}
	kvs = append(kvs, P("tasks", g.tasks(g.names(0))))
	return Map(kvs...)
}

// concurrencyDoc is a valid Taskfile with n wildcard tasks and a task whose n dependencies are
// all resolved through the wildcard matcher at the same time; token makes the names unique so that
// no earlier document has warmed anything up in the worker process.
func concurrencyDoc(token string, n int) (*Y, []string) {
	var tasks []KV
	var deps []*Y
	var calls []string
	for i := 0; i < n; i++ {
		name := fmt.Sprintf("w%s-%d-*", token, i)
		tasks = append(tasks, P(name, Map(P("cmds", Seq(Str("true"))), P("silent", Bool(true)))))
		call := fmt.Sprintf("w%s-%d-x%d", token, i, i)
		deps = append(deps, Str(call))
		calls = append(calls, call)
	}
	tasks = append(tasks, P("all", Map(P("deps", Seq(deps...)), P("cmds", Seq(Str("true"))))))
	return Map(P("version", Str("3")), P("tasks", Map(tasks...))), calls
}

// chainTrees: Taskfile.yml -> l1.yml -> ... -> l<depth>.yml, every file with one task.
func chainTrees(depth int, flatten bool) map[string]*Y {
	files := map[string]*Y{}
	name := func(i int) string {
		if i == 0 {
			return "Taskfile.yml"
		}
		return fmt.Sprintf("l%d.yml", i)
	}
	for i := 0; i <= depth; i++ {
		kvs := []KV{P("version", Str("3"))}
		if i < depth {
			var inc *Y = Str(name(i + 1))
			if flatten {
				inc = Map(P("taskfile", Str(name(i+1))), P("flatten", Bool(true)))
			}
			kvs = append(kvs, P("includes", Map(P("n", inc))))
		}
		kvs = append(kvs, P("tasks", Map(P(fmt.Sprintf("t%d", i), Map(P("cmds", Seq(Str("echo level"))))))))
		files[name(i)] = Map(kvs...)
	}
	return files
}

// wideTrees: the root includes width siblings, each of which includes a file of its own
// (and that one a leaf when nested is 2).
func wideTrees(width, nested int) map[string]*Y {
	files := map[string]*Y{}
	var incs []KV
	for i := 0; i < width; i++ {
		s := fmt.Sprintf("s%d.yml", i)
		incs = append(incs, P(fmt.Sprintf("s%d", i), Str(s)))
		c := fmt.Sprintf("c%d.yml", i)
		files[s] = Map(P("version", Str("3")), P("includes", Map(P("c", Str(c)))), P("tasks", Map(P("mid", Str("echo mid")))))
		if nested >= 2 {
			d := fmt.Sprintf("d%d.yml", i)
			files[c] = Map(P("version", Str("3")), P("includes", Map(P("d", Str(d)))), P("tasks", Map(P("child", Str("echo child")))))
			files[d] = Map(P("version", Str("3")), P("tasks", Map(P("leaf", Str("echo leaf")))))
		} else {
			files[c] = Map(P("version", Str("3")), P("tasks", Map(P("leaf", Str("echo leaf")))))
		}
	}
	files["Taskfile.yml"] = Map(P("version", Str("3")), P("includes", Map(incs...)), P("tasks", Map(P("root", Str("echo root")))))
	return files
}

// optionDoc: an include whose options name things that exist in the included file
// (excludes: of existing tasks, default among them; aliases; internal; dir; vars).
func optionTrees(flatten bool, excludes []string, aliases bool, internal bool, depth2 bool, rootHasNs bool) map[string]*Y {
	inc := Map(
		P("version", Str("3")),
		P("vars", Map(P("IV", Str("inc")))),
		P("tasks", Map(
			P("default", Map(P("cmds", Seq(Str("echo default"), Map(P("task", Str("hello"))))), P("aliases", Seq(Str("d"))))),
			P("hello", Map(P("cmds", Seq(Str("echo hello"))), P("deps", Seq(Str("other"))))),
			P("other", Str("echo other")),
		)),
	)
	opts := []KV{P("taskfile", Str("inc1.yml"))}
	if flatten {
		opts = append(opts, P("flatten", Bool(true)))
	}
	if excludes != nil {
		var xs []*Y
		for _, e := range excludes {
			xs = append(xs, Str(e))
		}
		opts = append(opts, P("excludes", Seq(xs...)))
	}
	if aliases {
		opts = append(opts, P("aliases", Seq(Str("al"), Str("al2"))))
	}
	if internal {
		opts = append(opts, P("internal", Bool(true)))
	}
	opts = append(opts, P("vars", Map(P("OV", Str("1")))))
	rootTasks := []KV{P("root", Str("echo root"))}
	if rootHasNs {
		rootTasks = append(rootTasks, P("a", Str("echo shadows the namespace")))
	}
	if !depth2 {
		return map[string]*Y{
			"Taskfile.yml": Map(P("version", Str("3")), P("includes", Map(P("a", Map(opts...)))), P("tasks", Map(rootTasks...))),
			"inc1.yml":     inc}
	}
	return map[string]*Y{
		"Taskfile.yml": Map(P("version", Str("3")), P("includes", Map(P("m", Str("mid.yml")))), P("tasks", Map(rootTasks...))),
		"mid.yml":      Map(P("version", Str("3")), P("includes", Map(P("a", Map(opts...)))), P("tasks", Map(P("default", Str("echo mid default"))))),
		"inc1.yml":     inc}
}

// optionalIncludeRoot: a root whose only include is optional and carries the given extra options.
func optionalIncludeRoot(file string, extra ...KV) *Y {
	opts := append([]KV{P("taskfile", Str(file)), P("optional", Bool(true))}, extra...)
	return Map(P("version", Str("3")), P("includes", Map(P("extra", Map(opts...)))), P("tasks", Map(P("root", Str("echo root")))))
}

// malformedIncluded: included Taskfiles that exist but cannot be used, as node trees ...
func malformedTrees() map[string]*Y {
	return map[string]*Y{
		"tasks-42":      Map(P("version", Str("3")), P("tasks", Int(42))),
		"no-version":    Map(P("tasks", Map(P("t", Str("echo t"))))),
		"tasks-seq":     Map(P("version", Str("3")), P("tasks", Seq(Str("a")))),
		"vars-scalar":   Map(P("version", Str("3")), P("vars", Int(5)), P("tasks", Map(P("t", Str("echo t"))))),
		"cmds-map":      Map(P("version", Str("3")), P("tasks", Map(P("t", Map(P("cmds", Map(P("a", Str("b"))))))))),
		"seq-doc":       Seq(Str("a"), Str("b")),
		"bad-version":   Map(P("version", Str("three")), P("tasks", Map(P("t", Str("echo t"))))),
		"null-doc":      Null(),
		"dotenv":        Map(P("version", Str("3")), P("dotenv", Seq(Str(".env"))), P("tasks", Map(P("t", Str("echo t"))))),
		"old-version":   Map(P("version", Str("2")), P("tasks", Map(P("t", Str("echo t"))))),
		"missing-inner": Map(P("version", Str("3")), P("includes", Map(P("x", Str("nosuch.yml")))), P("tasks", Map(P("t", Str("echo t"))))),
	}
}

// ... and as bytes no tree stands for
func malformedBytes() map[string]string {
	return map[string]string{
		"empty":          "",
		"syntax-error":   "version: \"3\ntasks: {t: [echo\n",
		"only-comment":   "# nothing here\n",
		"tab":            "\t",
		"binary":         "\x00\x01\xff\xfe",
		"cr-decode-err":  "version: \"3\"\rtasks:\r  t:\r    cmds: {a: b}\r",
		"unclosed-quote": "version: '3\n",
	}
}
