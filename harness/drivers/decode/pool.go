package decode

import (
	"bufio"
	"bytes"
	"encoding/json"
	"io"
	"os"
	"os/exec"
	"strings"
	"sync"
	"time"
)

// worker is a child process running WorkerMain: documents are executed in-process
// there; when a panic on a goroutine of go-task (errgroup) or a hang kills it,
// the parent reads the crash report and starts a new one.
type worker struct {
	cmd    *exec.Cmd
	stdin  io.WriteCloser
	stdout *bufio.Reader
	stderr *syncBuf
	lines  chan []byte
}

type syncBuf struct {
	mu sync.Mutex
	b  bytes.Buffer
}

func (s *syncBuf) Write(p []byte) (int, error) {
	s.mu.Lock()
	defer s.mu.Unlock()
	if s.b.Len() < 1<<20 {
		s.b.Write(p)
	}
	return len(p), nil
}

func (s *syncBuf) String() string {
	s.mu.Lock()
	defer s.mu.Unlock()
	return s.b.String()
}

func startWorker() (*worker, error) {
	cmd := exec.Command(os.Args[0])
	cmd.Env = append(os.Environ(), "VH_DECODE_WORKER=1", "NO_COLOR=1", "GOTRACEBACK=all", "VH_DECODE_TMP="+tmpBase)
	in, err := cmd.StdinPipe()
	if err != nil {
		return nil, err
	}
	outp, err := cmd.StdoutPipe()
	if err != nil {
		return nil, err
	}
	w := &worker{cmd: cmd, stdin: in, stderr: &syncBuf{}, lines: make(chan []byte, 1)}
	cmd.Stderr = w.stderr
	if err := cmd.Start(); err != nil {
		return nil, err
	}
	w.stdout = bufio.NewReaderSize(outp, 1<<20)
	go func() {
		for {
			l, err := w.stdout.ReadBytes('\n')
			if len(l) > 0 && l[len(l)-1] == '\n' {
				w.lines <- l
			}
			if err != nil {
				close(w.lines)
				return
			}
		}
	}()
	return w, nil
}

func (w *worker) kill() {
	_ = w.stdin.Close()
	if w.cmd.Process != nil {
		_ = w.cmd.Process.Kill()
	}
	_ = w.cmd.Wait()
}

// tmpBase holds the scratch directories of the workers; a worker that dies cannot
// remove its own, so the parent removes the whole base at the end.
var tmpBase string

type pool struct {
	w        *worker
	restarts int
}

func (p *pool) close() {
	if p.w != nil {
		p.w.kill()
		p.w = nil
	}
}

// run executes one document; the boolean tells whether the worker had to be replaced.
func (p *pool) run(d *Doc) Result {
	if p.w == nil {
		w, err := startWorker()
		if err != nil {
			return Result{Class: "harness", Msg: err.Error()}
		}
		p.w = w
	}
	b, _ := json.Marshal(d)
	b = append(b, '\n')
	if _, err := p.w.stdin.Write(b); err != nil {
		// the worker is gone (should not happen between documents)
		p.close()
		p.restarts++
		return Result{Class: "harness", Msg: "worker unavailable: " + err.Error()}
	}
	select {
	case l, ok := <-p.w.lines:
		if ok {
			var r Result
			if err := json.Unmarshal(l, &r); err != nil {
				return Result{Class: "harness", Msg: "bad worker output: " + err.Error()}
			}
			if r.Class == "timeout" {
				p.close() // it exits by itself
				p.restarts++
			}
			return r
		}
		// stdout closed: the process died while running this document
		_ = p.w.cmd.Wait()
		report := p.w.stderr.String()
		p.close()
		p.restarts++
		return crashResult(report)
	case <-time.After(time.Duration(max(d.DeadlineS, 20)+15) * time.Second):
		report := p.w.stderr.String()
		p.close()
		p.restarts++
		return Result{Class: "timeout", Phase: "parent-deadline", Stack: tail(report, 4000), Crashed: true}
	}
}

func tail(s string, n int) string {
	if len(s) > n {
		return s[len(s)-n:]
	}
	return s
}

func crashResult(report string) Result {
	r := Result{Class: "panic", Crashed: true, Phase: "goroutine"}
	msg := ""
	for _, l := range strings.Split(report, "\n") {
		if strings.HasPrefix(l, "panic: ") || strings.HasPrefix(l, "fatal error: ") {
			msg = l
			break
		}
	}
	if msg == "" {
		r.Class = "harness"
		r.Msg = "worker died without a panic report: " + tail(report, 600)
		return r
	}
	// the stack of the panicking goroutine is the first one printed
	i := strings.Index(report, msg)
	stack := report[i:]
	if j := strings.Index(stack, "\n\ngoroutine "); j > 0 {
		if k := strings.Index(stack[j+2:], "\n\n"); k > 0 {
			stack = stack[:j+2+k]
		}
	}
	if len(stack) > 6000 {
		stack = stack[:6000]
	}
	if strings.HasPrefix(msg, "fatal error: ") {
		r.Phase = "fatal"
	}
	r.Msg = msg
	r.Stack = stack
	r.Sig = panicSignature(msg, stack)
	return r
}
