package decode

import (
	"fmt"
	"strconv"
	"strings"

	cg "github.com/go-task/task/v3/verifharness/coqgen"
)

// Y mirrors the Coq type ynode (coq/Decode/Model.v).
type Y struct {
	K int    `json:"k"`           // 0 null, 1 scalar, 2 seq, 3 map
	T string `json:"t,omitempty"` // scalar tag: str int float bool
	V string `json:"v,omitempty"`
	S []*Y   `json:"s,omitempty"`
	M []KV   `json:"m,omitempty"`
}

type KV struct {
	K *Y `json:"k"`
	V *Y `json:"v"`
}

const (
	KNull = iota
	KScalar
	KSeq
	KMap
)

func Null() *Y            { return &Y{K: KNull} }
func Str(s string) *Y     { return &Y{K: KScalar, T: "str", V: s} }
func Int(i int) *Y        { return &Y{K: KScalar, T: "int", V: strconv.Itoa(i)} }
func Bool(b bool) *Y      { return &Y{K: KScalar, T: "bool", V: strconv.FormatBool(b)} }
func Float(s string) *Y   { return &Y{K: KScalar, T: "float", V: s} }
func Time(s string) *Y    { return &Y{K: KScalar, T: "time", V: s} }
func Seq(xs ...*Y) *Y     { return &Y{K: KSeq, S: xs} }
func Map(kvs ...KV) *Y    { return &Y{K: KMap, M: kvs} }
func P(k string, v *Y) KV { return KV{K: Str(k), V: v} }

func (y *Y) Clone() *Y {
	if y == nil {
		return nil
	}
	c := &Y{K: y.K, T: y.T, V: y.V}
	for _, s := range y.S {
		c.S = append(c.S, s.Clone())
	}
	for _, kv := range y.M {
		c.M = append(c.M, KV{K: kv.K.Clone(), V: kv.V.Clone()})
	}
	return c
}

func (y *Y) Get(key string) *Y {
	if y == nil || y.K != KMap {
		return nil
	}
	for _, kv := range y.M {
		if kv.K.K == KScalar && kv.K.V == key {
			return kv.V
		}
	}
	return nil
}

// quote renders a YAML double-quoted scalar; everything outside printable ASCII is escaped.
func quote(s string) string {
	var sb strings.Builder
	sb.WriteByte('"')
	for _, r := range s {
		switch {
		case r == '"':
			sb.WriteString(`\"`)
		case r == '\\':
			sb.WriteString(`\\`)
		case r == '\n':
			sb.WriteString(`\n`)
		case r == '\t':
			sb.WriteString(`\t`)
		case r == '\r':
			sb.WriteString(`\r`)
		case r >= 0x20 && r < 0x7f:
			sb.WriteRune(r)
		case r <= 0xff:
			fmt.Fprintf(&sb, `\x%02x`, r)
		case r <= 0xffff:
			fmt.Fprintf(&sb, `\u%04x`, r)
		default:
			fmt.Fprintf(&sb, `\U%08x`, r)
		}
	}
	sb.WriteByte('"')
	return sb.String()
}

// Flow renders the node in YAML flow style on one line.
func (y *Y) Flow() string {
	switch y.K {
	case KNull:
		return "~"
	case KScalar:
		if y.T == "str" {
			return quote(y.V)
		}
		return y.V
	case KSeq:
		parts := make([]string, len(y.S))
		for i, s := range y.S {
			parts[i] = s.Flow()
		}
		return "[" + strings.Join(parts, ", ") + "]"
	default:
		parts := make([]string, len(y.M))
		for i, kv := range y.M {
			k := kv.K.Flow()
			if kv.K.K == KSeq || kv.K.K == KMap {
				k = "? " + k + " "
			}
			parts[i] = k + ": " + kv.V.Flow()
		}
		return "{" + strings.Join(parts, ", ") + "}"
	}
}

// Doc renders a document: the top-level mapping and the "tasks" mapping in block
// style (one entry per line) so that decode errors carry different line numbers,
// everything below in flow style.
func (y *Y) Doc() string {
	if y.K != KMap || len(y.M) == 0 {
		return y.Flow() + "\n"
	}
	var sb strings.Builder
	for _, kv := range y.M {
		if kv.K.K != KScalar && kv.K.K != KNull {
			return y.Flow() + "\n"
		}
	}
	for _, kv := range y.M {
		v := kv.V
		if v.K == KMap && len(v.M) > 0 && kv.K.K == KScalar && (kv.K.V == "tasks" || kv.K.V == "includes" || kv.K.V == "vars") && simpleKeys(v) {
			sb.WriteString(kv.K.Flow() + ":\n")
			for _, e := range v.M {
				sb.WriteString("  " + e.K.Flow() + ": " + e.V.Flow() + "\n")
			}
			continue
		}
		sb.WriteString(kv.K.Flow() + ": " + v.Flow() + "\n")
	}
	return sb.String()
}

func simpleKeys(y *Y) bool {
	for _, kv := range y.M {
		if kv.K.K != KScalar && kv.K.K != KNull {
			return false
		}
	}
	return true
}

// CoqStr renders a Coq string literal for arbitrary bytes: printable ASCII goes into a
// literal, everything else is spliced in as String (ascii_of_nat n).
func CoqStr(s string) string {
	plain := true
	for i := 0; i < len(s); i++ {
		if s[i] < 0x20 || s[i] >= 0x7f {
			plain = false
			break
		}
	}
	if plain {
		return "\"" + strings.ReplaceAll(s, "\"", "\"\"") + "\""
	}
	// mixed: concatenate chunks
	var parts []string
	var cur strings.Builder
	flush := func() {
		if cur.Len() > 0 {
			parts = append(parts, "\""+strings.ReplaceAll(cur.String(), "\"", "\"\"")+"\"")
			cur.Reset()
		}
	}
	for i := 0; i < len(s); i++ {
		if s[i] < 0x20 || s[i] >= 0x7f {
			flush()
			parts = append(parts, fmt.Sprintf("(bs %d)", s[i]))
		} else {
			cur.WriteByte(s[i])
		}
	}
	flush()
	return "(cat [" + strings.Join(parts, "; ") + "])"
}

func coqTag(t string) string {
	switch t {
	case "str":
		return "TStr"
	case "int":
		return "TInt"
	case "float":
		return "TFloat"
	case "bool":
		return "TBool"
	case "time":
		return "TTime"
	}
	return "TOther"
}

// Coq renders the node as a term of type ynode.
func (y *Y) Coq() string {
	switch y.K {
	case KNull:
		return "YNull"
	case KScalar:
		return "(YScalar " + coqTag(y.T) + " " + CoqStr(y.V) + ")"
	case KSeq:
		parts := make([]string, len(y.S))
		for i, s := range y.S {
			parts[i] = s.Coq()
		}
		return "(YSeq " + cg.List(parts) + ")"
	default:
		parts := make([]string, len(y.M))
		for i, kv := range y.M {
			parts[i] = "(" + kv.K.Coq() + ", " + kv.V.Coq() + ")"
		}
		return "(YMap " + cg.List(parts) + ")"
	}
}

// Strings collects every scalar value of the tree (keys included).
func (y *Y) Strings(acc map[string]bool) {
	switch y.K {
	case KScalar:
		acc[y.V] = true
	case KSeq:
		for _, s := range y.S {
			s.Strings(acc)
		}
	case KMap:
		for _, kv := range y.M {
			kv.K.Strings(acc)
			kv.V.Strings(acc)
		}
	}
}

// Paths enumerates every value position of the tree (not keys) as index paths.
func (y *Y) Paths(prefix []int, out *[][]int) {
	*out = append(*out, append([]int(nil), prefix...))
	switch y.K {
	case KSeq:
		for i, s := range y.S {
			s.Paths(append(prefix, i), out)
		}
	case KMap:
		for i, kv := range y.M {
			kv.V.Paths(append(prefix, i), out)
		}
	}
}

// ReplaceAt returns a copy with the node at path replaced by f(old).
func (y *Y) ReplaceAt(path []int, f func(*Y) *Y) *Y {
	if len(path) == 0 {
		return f(y.Clone())
	}
	c := &Y{K: y.K, T: y.T, V: y.V}
	switch y.K {
	case KSeq:
		for i, s := range y.S {
			if i == path[0] {
				c.S = append(c.S, s.ReplaceAt(path[1:], f))
			} else {
				c.S = append(c.S, s.Clone())
			}
		}
	case KMap:
		for i, kv := range y.M {
			if i == path[0] {
				c.M = append(c.M, KV{K: kv.K.Clone(), V: kv.V.ReplaceAt(path[1:], f)})
			} else {
				c.M = append(c.M, KV{K: kv.K.Clone(), V: kv.V.Clone()})
			}
		}
	}
	return c
}

// Mutations of one node: null, empty map, empty seq, wrong kind.
func mutate(kind int, old *Y) *Y {
	switch kind {
	case 0:
		return Null()
	case 1:
		return Map()
	case 2:
		return Seq()
	default:
		switch old.K {
		case KScalar, KNull:
			return Seq(old)
		case KSeq:
			return Map(P("x", old))
		default:
			return Str("x")
		}
	}
}
