package decode

import (
	"bufio"
	"bytes"
	"context"
	"encoding/json"
	"errors"
	"fmt"
	"io"
	"os"
	"path/filepath"
	"regexp"
	"runtime"
	"runtime/debug"
	"strings"
	"sync/atomic"
	"time"

	"github.com/alecthomas/chroma/v2/quick"
	task "github.com/go-task/task/v3"
	taskerrors "github.com/go-task/task/v3/errors"
	"github.com/go-task/task/v3/taskfile"
	"github.com/go-task/task/v3/taskfile/ast"
	"gopkg.in/yaml.v3"
)

// Doc is one input: a set of files (Taskfile.yml is the root) and the names to look up.
type Doc struct {
	Kind      string            `json:"kind"` // tree | bytes | snip | loc | wild
	Files     map[string][]byte `json:"files,omitempty"`
	Requested []string          `json:"requested,omitempty"`
	Trees     map[string]*Y     `json:"trees,omitempty"` // node trees of the files (tree docs)
	Label     string            `json:"label,omitempty"`
	// unit probes
	Line      int      `json:"line,omitempty"`       // snip: WithLine
	Raw       []byte   `json:"raw,omitempty"`        // snip: the bytes
	Loc       string   `json:"loc,omitempty"`        // loc: include location
	Name      string   `json:"name,omitempty"`       // wild: task name
	NoRun     bool     `json:"norun,omitempty"`      // skip the dry-run phase
	Conc      []string `json:"conc,omitempty"`       // concurrency family: run "all" (parallel deps), then these calls with Parallel, right after Setup
	DeadlineS int      `json:"deadline_s,omitempty"` // wall-clock bound for this document (default 20 s)
}

// Result is what the implementation did with a Doc.
type Result struct {
	Class    string           `json:"class"` // ok | err | panic | timeout
	Code     int              `json:"code"`
	Sig      string           `json:"sig,omitempty"`
	Phase    string           `json:"phase,omitempty"`
	Msg      string           `json:"msg,omitempty"`
	Stack    string           `json:"stack,omitempty"`
	Decode   string           `json:"decode,omitempty"` // class of yaml.Unmarshal alone: ok | err:<code> | panic:<sig>
	Line     int              `json:"line"`             // line of the root decode error (0 when none)
	NRaw     int              `json:"n_raw"`
	NHl      int              `json:"n_hl"`
	Probes   int              `json:"probes"`
	Tasks    int              `json:"tasks"`
	Deadlock bool             `json:"deadlock,omitempty"` // timeout with every goroutine blocked (nothing running or runnable)
	Crashed  bool             `json:"crashed,omitempty"`  // the worker process died (panic on a goroutine the probe cannot recover)
	ErrCodes map[string]int   `json:"err_codes,omitempty"`
	PhaseMs  map[string]int64 `json:"phase_ms,omitempty"`
}

type panicInfo struct {
	val   any
	stack string
}

// guard runs f under recover.
func guard(f func() error) (err error, p *panicInfo) {
	defer func() {
		if r := recover(); r != nil {
			p = &panicInfo{val: r, stack: string(debug.Stack())}
		}
	}()
	err = f()
	return
}

func exitCode(err error) int {
	if err == nil {
		return 0
	}
	var te taskerrors.TaskError
	if errors.As(err, &te) {
		return te.Code()
	}
	return taskerrors.CodeUnknown
}

var frameRe = regexp.MustCompile(`(?m)^(github\.com/go-task/task/v3[^\s(]*(?:\(\*[A-Za-z0-9_]+\))?[^\s(]*)\(`)

// panicSignature: top frame inside go-task (not the harness) + class of the panic message.
func panicSignature(msg, stack string) string {
	class := "other"
	kind := "panic"
	if strings.HasPrefix(msg, "fatal error:") {
		kind = "fatal"
	}
	switch {
	case strings.Contains(msg, "concurrent map"):
		class = "concurrent-map-access"
	case strings.Contains(msg, "all goroutines are asleep"):
		class = "deadlock"
	case strings.Contains(msg, "index out of range"):
		class = "index-out-of-range"
	case strings.Contains(msg, "slice bounds out of range"):
		class = "slice-bounds"
	case strings.Contains(msg, "nil pointer dereference"):
		class = "nil-deref"
	case strings.Contains(msg, "regexp: Compile"):
		class = "regexp-compile"
	case strings.Contains(msg, "nil map"):
		class = "nil-map"
	case strings.Contains(msg, "interface conversion"):
		class = "type-assertion"
	case strings.Contains(msg, "unexported field"):
		class = "reflect-unexported"
	case strings.Contains(msg, "stack overflow"):
		class = "stack-overflow"
	}
	frame := "?"
	for _, m := range frameRe.FindAllStringSubmatch(stack, -1) {
		f := m[1]
		if strings.Contains(f, "verifharness") {
			continue
		}
		f = strings.TrimPrefix(f, "github.com/go-task/task/v3")
		f = strings.TrimPrefix(f, "/")
		f = strings.TrimPrefix(f, ".")
		// drop closure / range-func suffixes: keep the enclosing function
		if i := strings.Index(f, ".func"); i > 0 {
			f = f[:i]
		}
		if i := strings.Index(f, "-range"); i > 0 {
			f = f[:i]
		}
		f = strings.TrimSuffix(f, "[...]")
		frame = f
		break
	}
	return kind + ":" + frame + ":" + class
}

func highlightLines(b []byte) int {
	buf := &bytes.Buffer{}
	if err := quick.Highlight(buf, string(b), "yaml", "terminal", "task"); err != nil {
		buf.Reset()
		buf.Write(b)
	}
	return len(strings.Split(buf.String(), "\n"))
}

func (r *Result) setPanic(phase string, p *panicInfo) {
	r.Class = "panic"
	r.Phase = phase
	r.Msg = fmt.Sprint(p.val)
	r.Stack = p.stack
	r.Sig = panicSignature(r.Msg, p.stack)
}

// decodeOnly: yaml.Unmarshal into ast.Taskfile plus the reader's version check.
func decodeOnly(root []byte, res *Result) *panicInfo {
	res.NRaw = len(strings.Split(string(root), "\n"))
	res.NHl = highlightLines(root)
	var tf ast.Taskfile
	err, p := guard(func() error { return yaml.Unmarshal(root, &tf) })
	switch {
	case p != nil:
		res.Decode = "panic:" + panicSignature(fmt.Sprint(p.val), p.stack)
	case err != nil:
		de := &taskerrors.TaskfileDecodeError{}
		if errors.As(err, &de) {
			res.Line = de.Line
			res.Decode = fmt.Sprintf("err:%d", de.Code())
		} else {
			res.Decode = fmt.Sprintf("err:%d", taskerrors.CodeTaskfileInvalid)
		}
	default:
		res.Decode = "ok"
		if tf.Version == nil {
			res.Decode = fmt.Sprintf("err:%d", taskerrors.CodeTaskfileVersionCheckError)
		}
	}
	return p
}

var curPhase atomic.Value
var phaseStart time.Time
var phaseMs map[string]int64

func setPhase(s string) {
	now := time.Now()
	if prev, ok := curPhase.Load().(string); ok && phaseMs != nil && !phaseStart.IsZero() {
		phaseMs[prev] += now.Sub(phaseStart).Milliseconds()
	}
	phaseStart = now
	curPhase.Store(s)
}

// runDoc is the sequence of probes; it stops at the first panic.
func runDoc(d *Doc) (res Result) {
	res.ErrCodes = map[string]int{}
	phaseMs = map[string]int64{}
	phaseStart = time.Time{}
	defer func() { setPhase("done"); res.PhaseMs = phaseMs }()
	switch d.Kind {
	case "snip":
		return runSnip(d)
	case "loc":
		return runLoc(d)
	case "wild":
		return runWild(d)
	}
	root := d.Files["Taskfile.yml"]
	setPhase("unmarshal")
	p := decodeOnly(root, &res)
	var err error
	res.Probes++
	if p != nil {
		res.setPanic("unmarshal", p)
		return
	}

	// probe 2: Setup on a directory holding the files
	dir, derr := os.MkdirTemp(os.Getenv("VH_DECODE_TMP"), "vh-dec")
	if derr != nil {
		res.Class, res.Msg = "harness", derr.Error()
		return
	}
	defer os.RemoveAll(dir)
	for name, content := range d.Files {
		fp := filepath.Join(dir, name)
		_ = os.MkdirAll(filepath.Dir(fp), 0o755)
		if werr := os.WriteFile(fp, content, 0o644); werr != nil {
			res.Class, res.Msg = "harness", werr.Error()
			return
		}
	}
	var out bytes.Buffer
	e := task.NewExecutor(
		task.WithDir(dir),
		task.WithStdin(strings.NewReader("")),
		task.WithStdout(&out),
		task.WithStderr(io.Discard),
		task.WithDry(true),
		task.WithVersionCheck(true),
		task.WithTimeout(2*time.Second),
	)
	setPhase("setup")
	err, p = guard(e.Setup)
	res.Probes++
	if p != nil {
		res.setPanic("setup", p)
		return
	}
	if err != nil {
		res.Class = "err"
		res.Code = exitCode(err)
		res.Phase = "setup"
		res.Msg = firstLine(err.Error())
		return
	}
	res.Class = "ok"

	// concurrency family: the first lookups of many wildcard tasks happen at the same time
	// (a fatal error such as "concurrent map writes" cannot be recovered: it ends this process)
	if len(d.Conc) > 0 {
		setPhase("conc")
		ctx, cancel := context.WithTimeout(context.Background(), 15*time.Second)
		err, p = guard(func() error { return e.Run(ctx, &task.Call{Task: "all"}) })
		cancel()
		res.Probes++
		if p != nil {
			res.setPanic("conc", p)
			return
		}
		if err != nil {
			res.ErrCodes[fmt.Sprintf("conc:%d", exitCode(err))]++
		}
		e2 := task.NewExecutor(task.WithDir(dir), task.WithStdin(strings.NewReader("")), task.WithStdout(io.Discard),
			task.WithStderr(io.Discard), task.WithDry(true), task.WithParallel(true))
		if err, p = guard(e2.Setup); err == nil && p == nil {
			var calls []*task.Call
			for _, c := range d.Conc {
				calls = append(calls, &task.Call{Task: c})
			}
			ctx, cancel := context.WithTimeout(context.Background(), 15*time.Second)
			err, p = guard(func() error { return e2.Run(ctx, calls...) })
			cancel()
			res.Probes++
			if err != nil {
				res.ErrCodes[fmt.Sprintf("conc:%d", exitCode(err))]++
			}
		}
		if p != nil {
			res.setPanic("conc", p)
			return
		}
	}

	// probe 3: every task: GetTask, FastCompiledTask, CompiledTask
	var names []string
	var tasks []*ast.Task
	for name, t := range e.Taskfile.Tasks.All(nil) {
		names = append(names, name)
		tasks = append(tasks, t)
	}
	res.Tasks = len(names)
	note := func(phase string, err error) {
		if err != nil {
			res.ErrCodes[fmt.Sprintf("%s:%d", phase, exitCode(err))]++
		}
	}
	setPhase("compile")
	for _, name := range names {
		for _, probe := range []struct {
			n string
			f func() error
		}{
			{"get", func() error { _, err := e.GetTask(&task.Call{Task: name}); return err }},
			{"fast", func() error { _, err := e.FastCompiledTask(&task.Call{Task: name}); return err }},
			{"compile", func() error { _, err := e.CompiledTask(&task.Call{Task: name}); return err }},
		} {
			err, p = guard(probe.f)
			res.Probes++
			if p != nil {
				res.setPanic(probe.n, p)
				return
			}
			note(probe.n, err)
		}
	}
	// probe 4: requested names (unknown names, wildcards, names with a variable assignment)
	for _, name := range d.Requested {
		vars := ast.NewVars()
		vars.Set("CLI_X", ast.Var{Value: "1"})
		vars.Set("OUT", ast.Var{Value: "#1"}) // a command-line variable that is a shell comment
		err, p = guard(func() error { _, err := e.CompiledTask(&task.Call{Task: name, Vars: vars}); return err })
		res.Probes++
		if p != nil {
			res.setPanic("request", p)
			return
		}
		note("request", err)
	}
	// probe 5: listing (compiles every task on its own goroutine: a panic there kills the process)
	setPhase("list")
	for _, lo := range []task.ListOptions{{ListAllTasks: true}, {ListOnlyTasksWithDescriptions: true}, {ListAllTasks: true, FormatTaskListAsJSON: true, NoStatus: true}} {
		err, p = guard(func() error { _, err := e.ListTasks(lo); return err })
		res.Probes++
		if p != nil {
			res.setPanic("list", p)
			return
		}
		note("list", err)
	}
	err, p = guard(func() error { return e.ListTaskNames(true) })
	res.Probes++
	if p != nil {
		res.setPanic("list", p)
		return
	}
	// probe 6: dry run of every task (platform / requires guards, command loop)
	if !d.NoRun {
		setPhase("run")
		for i, name := range names {
			if tasks[i].Watch {
				continue // would watch forever by design
			}
			ctx, cancel := context.WithTimeout(context.Background(), 4*time.Second)
			err, p = guard(func() error { return e.Run(ctx, &task.Call{Task: name}) })
			cancel()
			res.Probes++
			if p != nil {
				res.setPanic("run", p)
				return
			}
			note("run", err)
		}
	}
	return
}

func firstLine(s string) string {
	if i := strings.IndexByte(s, '\n'); i >= 0 {
		s = s[:i]
	}
	if len(s) > 300 {
		s = s[:300]
	}
	return s
}

// unit probe: taskfile.NewSnippet(b, WithLine(line), WithColumn(1), WithPadding(2)).String()
func runSnip(d *Doc) (res Result) {
	res.NRaw = len(strings.Split(string(d.Raw), "\n"))
	res.NHl = highlightLines(d.Raw)
	res.Line = d.Line
	_, p := guard(func() error {
		s := taskfile.NewSnippet(d.Raw, taskfile.WithLine(d.Line), taskfile.WithColumn(1), taskfile.WithPadding(2))
		_ = s.String()
		return nil
	})
	res.Probes = 1
	res.Class = "ok"
	if p != nil {
		res.setPanic("snippet", p)
	}
	return
}

// unit probe: taskfile.NewNode on an include location
func runLoc(d *Doc) (res Result) {
	dir, _ := os.MkdirTemp(os.Getenv("VH_DECODE_TMP"), "vh-loc")
	defer os.RemoveAll(dir)
	err, p := guard(func() error { _, err := taskfile.NewNode(d.Loc, dir, false); return err })
	res.Probes = 1
	res.Class = "ok"
	if err != nil {
		res.Class = "err"
		res.Code = exitCode(err)
		res.Msg = firstLine(err.Error())
	}
	if p != nil {
		res.setPanic("newnode", p)
	}
	return
}

// unit probe: (&ast.Task{Task: name}).WildcardMatch
func runWild(d *Doc) (res Result) {
	_, p := guard(func() error {
		t := &ast.Task{Task: d.Name}
		t.WildcardMatch("some:call")
		return nil
	})
	res.Probes = 1
	res.Class = "ok"
	if p != nil {
		res.setPanic("wildcard", p)
	}
	return
}

var goroutineHeader = regexp.MustCompile(`(?m)^goroutine \d+ \[([a-zA-Z ]+)[,\]]`)

// allBlocked: three stack dumps 150 ms apart, none showing a goroutine that runs or could run
// (besides the one taking the dump): the document is deadlocked, not slow.
func allBlocked() bool {
	for i := 0; i < 3; i++ {
		buf := make([]byte, 1<<18)
		n := runtime.Stack(buf, true)
		busy := 0
		for _, m := range goroutineHeader.FindAllStringSubmatch(string(buf[:n]), -1) {
			switch m[1] {
			case "running", "runnable", "syscall", "IO wait", "sleep":
				busy++
			}
		}
		if busy > 1 { // the dumping goroutine itself is "running"
			return false
		}
		time.Sleep(150 * time.Millisecond)
	}
	return true
}

// WorkerMain: one JSON Doc per line on stdin, one JSON Result per line on stdout.
func WorkerMain() {
	os.Unsetenv("TASK_X_REMOTE_TASKFILES")
	in := bufio.NewReaderSize(os.Stdin, 1<<20)
	out := bufio.NewWriter(os.Stdout)
	for {
		line, err := in.ReadBytes('\n')
		if len(line) > 0 {
			var d Doc
			if jerr := json.Unmarshal(line, &d); jerr != nil {
				fmt.Fprintln(os.Stderr, "worker: bad input:", jerr)
				os.Exit(4)
			}
			deadline := 20 * time.Second
			if d.DeadlineS > 0 {
				deadline = time.Duration(d.DeadlineS) * time.Second
			}
			ch := make(chan Result, 1)
			go func() { ch <- runDoc(&d) }()
			var r Result
			timedOut := false
			select {
			case r = <-ch:
			case <-time.After(deadline):
				buf := make([]byte, 1<<18)
				n := runtime.Stack(buf, true)
				ph, _ := curPhase.Load().(string)
				r = Result{Class: "timeout", Stack: string(buf[:n]), Phase: ph, Deadlock: allBlocked()}
				timedOut = true
			}
			b, _ := json.Marshal(r)
			out.Write(b)
			out.WriteByte('\n')
			out.Flush()
			if timedOut {
				os.Exit(3) // a goroutine is stuck: start over in a fresh process
			}
		}
		if err != nil {
			return
		}
	}
}
