package quote

import (
	"bytes"
	"context"
	"encoding/json"
	"fmt"
	"io"
	"os"
	"os/exec"
	"path/filepath"
	"sort"
	"strings"
	"time"

	"github.com/go-task/task/v3/verifharness/drivers/quote/argvrec"
)

// env of one driver process: the helper binary and a project with the two probe tasks.
type world struct {
	root    string // temp dir, removed at the end
	helper  string
	project string
	taskBin string
}

const taskfileText = `version: '3'
silent: true
tasks:
  cli:
    cmds:
      - %s {{.CLI_ARGS}}
  sq:
    cmds:
      - %s {{shellQuote .X}}
`

func harnessDir() string {
	if d := os.Getenv("VERIF_HARNESS_DIR"); d != "" {
		return d
	}
	if b := os.Getenv("VERIF_BUILD"); b != "" {
		return filepath.Join(filepath.Dir(b), "harness")
	}
	return "/verif/harness"
}

func newWorld() (*world, error) {
	root, err := os.MkdirTemp("", "vh-quote")
	if err != nil {
		return nil, err
	}
	w := &world{root: root, helper: filepath.Join(root, "argvrec"), project: filepath.Join(root, "proj"), taskBin: os.Getenv("VERIF_TASK_BIN")}
	if w.taskBin == "" {
		w.taskBin = "/verif/.build/task"
	}
	// the helper is built from the harness module (cmd/argvrec) into the temp dir
	cmd := exec.Command("go", "build", "-o", w.helper, "./cmd/argvrec")
	cmd.Dir = harnessDir()
	cmd.Env = append(os.Environ(), "GOFLAGS=-mod=mod", "GOPROXY=off", "GOSUMDB=off", "GOTOOLCHAIN=local")
	if out, err := cmd.CombinedOutput(); err != nil {
		// fall back: this very binary records argv when started under the name argvrec
		self, e2 := os.Executable()
		if e2 != nil {
			return nil, fmt.Errorf("building argvrec: %v\n%s", err, out)
		}
		if e3 := copyFile(self, w.helper); e3 != nil {
			return nil, fmt.Errorf("building argvrec: %v\n%s\ncopy: %v", err, out, e3)
		}
	}
	if err := os.MkdirAll(w.project, 0o755); err != nil {
		return nil, err
	}
	tf := fmt.Sprintf(taskfileText, w.helper, w.helper)
	if err := os.WriteFile(filepath.Join(w.project, "Taskfile.yml"), []byte(tf), 0o644); err != nil {
		return nil, err
	}
	return w, nil
}

func copyFile(src, dst string) error {
	in, err := os.Open(src)
	if err != nil {
		return err
	}
	defer in.Close()
	out, err := os.OpenFile(dst, os.O_CREATE|os.O_WRONLY|os.O_TRUNC, 0o755)
	if err != nil {
		return err
	}
	if _, err := io.Copy(out, in); err != nil {
		out.Close()
		return err
	}
	return out.Close()
}

func (w *world) close() { _ = os.RemoveAll(w.root) }

type runResult struct {
	rc       int
	out      string
	killed   bool
	argv     [][]byte
	ran      bool // helper started exactly once
	started  int
	duration time.Duration
}

// runTask starts the real CLI under a SIGKILL deadline.
func (w *world) runTask(dir string, id int, args []string) runResult {
	outFile := filepath.Join(w.root, fmt.Sprintf("argv-%d.json", id))
	_ = os.Remove(outFile)
	ctx, cancel := context.WithTimeout(context.Background(), 60*time.Second)
	defer cancel()
	cmd := exec.CommandContext(ctx, w.taskBin, args...)
	cmd.Dir = dir
	cmd.Cancel = func() error { return cmd.Process.Kill() } // the binary swallows SIGTERM
	cmd.WaitDelay = 2 * time.Second
	cmd.Env = []string{"PATH=" + os.Getenv("PATH"), "HOME=" + w.root, "VH_ARGV_OUT=" + outFile, "NO_COLOR=1", "TASK_TEMP_DIR=" + filepath.Join(w.root, "tasktmp")}
	var buf bytes.Buffer
	cmd.Stdout = &buf
	cmd.Stderr = &buf
	t0 := time.Now()
	err := cmd.Run()
	res := runResult{out: buf.String(), duration: time.Since(t0)}
	if ctx.Err() != nil {
		res.killed = true
	}
	if err != nil {
		if ee, ok := err.(*exec.ExitError); ok {
			res.rc = ee.ExitCode()
		} else {
			res.rc = -1
		}
	}
	if b, err := os.ReadFile(outFile); err == nil {
		var rec argvrec.Recorded
		if json.Unmarshal(b, &rec) == nil {
			res.argv = rec.Args
			if res.argv == nil {
				res.argv = [][]byte{}
			}
			res.started = 1
		}
		_ = os.Remove(outFile)
	}
	for i := 2; i < 10; i++ {
		p := fmt.Sprintf("%s.%d", outFile, i)
		if _, err := os.Stat(p); err == nil {
			res.started++
			_ = os.Remove(p)
		}
	}
	res.ran = res.started == 1
	return res
}

// ---- classification of a failing end-to-end case (narrow signatures) ----

func eqArgv(a [][]byte, b []string) bool {
	if len(a) != len(b) {
		return false
	}
	for i := range a {
		if string(a[i]) != b[i] {
			return false
		}
	}
	return true
}

func stripNV(s string, times int) string {
	for i := 0; i < times; i++ {
		s = strings.ReplaceAll(s, "<no value>", "")
	}
	return s
}

// unbracket undoes what printing a []string does to the first and last word.
func unbracket(obs [][]byte) ([]string, bool) {
	if len(obs) == 0 {
		return nil, false
	}
	out := make([]string, len(obs))
	for i, o := range obs {
		out[i] = string(o)
	}
	if !strings.HasPrefix(out[0], "[") || !strings.HasSuffix(out[len(out)-1], "]") {
		return nil, false
	}
	out[0] = out[0][1:]
	out[len(out)-1] = out[len(out)-1][:len(out[len(out)-1])-1]
	return out, true
}

func panicked(res runResult) bool { return res.rc == 2 && strings.Contains(res.out, "panic:") }

func anyContains(l []string, sub string) bool {
	for _, s := range l {
		if strings.Contains(s, sub) {
			return true
		}
	}
	return false
}

// classifyArgv names the way observed differs from passed.
func classifyArgv(passed []string, res runResult, sliceNow bool) string {
	if res.ran && eqArgv(res.argv, passed) {
		return "ok"
	}
	if panicked(res) && strings.Contains(res.out, "expand.(*Config).glob") && sliceNow {
		// the [ ] that printing a []string puts around the arguments made them a glob
		// pattern, and the shell's glob code panics on invalid UTF-8 in a bracket expression
		return "go-slice-brackets"
	}
	cands := [][]string{nil}
	if res.ran {
		obs := make([]string, len(res.argv))
		for i, o := range res.argv {
			obs[i] = string(o)
		}
		cands[0] = obs
		if ub, ok := unbracket(res.argv); ok {
			if eqStr(ub, passed) || (len(ub) == 1 && ub[0] == "" && len(passed) == 0) {
				return "go-slice-brackets"
			}
			cands = append(cands, ub)
		}
	}
	if anyContains(passed, "<no value>") && !anyContains(passed, "{{") && res.ran {
		for _, c := range cands {
			for times := 1; times <= 2; times++ {
				exp := make([]string, len(passed))
				for i, p := range passed {
					exp[i] = stripNV(p, times)
				}
				if eqStr(c, exp) {
					return "no-value-stripped"
				}
			}
		}
	}
	if anyContains(passed, "{{") && !anyContains(passed, "<no value>") {
		// evaluated by the template engine: either rendered differently or the task failed on a template error
		if !res.ran && res.started == 0 && (strings.Contains(res.out, "template:") || strings.Contains(res.out, "function ")) {
			return "value-evaluated-as-template"
		}
		if res.ran {
			return "value-evaluated-as-template"
		}
	}
	if !res.ran {
		return fmt.Sprintf("not-run:started=%d", res.started)
	}
	return "unclassified"
}

func eqStr(a, b []string) bool {
	if len(a) != len(b) {
		return false
	}
	for i := range a {
		if a[i] != b[i] {
			return false
		}
	}
	return true
}

// ---- --init ----

type fsNode struct {
	Path    []string `json:"path"`
	Dir     bool     `json:"dir,omitempty"`
	Content []byte   `json:"content,omitempty"`
}

func snapshot(root string) []fsNode {
	var out []fsNode
	_ = filepath.Walk(root, func(p string, info os.FileInfo, err error) error {
		if err != nil || p == root {
			return nil
		}
		rel, _ := filepath.Rel(root, p)
		n := fsNode{Path: strings.Split(rel, string(filepath.Separator)), Dir: info.IsDir()}
		if !info.IsDir() {
			n.Content, _ = os.ReadFile(p)
		}
		out = append(out, n)
		return nil
	})
	sort.Slice(out, func(i, j int) bool { return strings.Join(out[i].Path, "/") < strings.Join(out[j].Path, "/") })
	return out
}

func coqFS(ns []fsNode) string {
	items := make([]string, len(ns))
	for i, n := range ns {
		if n.Dir {
			items[i] = fmt.Sprintf("(%s, NDir)", coqPath(n.Path))
		} else {
			items[i] = fmt.Sprintf("(%s, NFile %s)", coqPath(n.Path), coqBytes(n.Content))
		}
	}
	return "[" + strings.Join(items, "; ") + "]"
}

type InitIn struct {
	Layout  []fsNode `json:"layout"`          // what exists before
	Wd      []string `json:"wd"`              // working directory below the root
	Pos     []string `json:"pos"`             // positional arguments ("%ROOT%" = the temp root)
	After   []string `json:"after,omitempty"` // arguments after "--"
	HasDash bool     `json:"has_dash,omitempty"`
}

type initObs struct {
	rc      int
	created []string // nil = not exit 0
	after   []fsNode
	out     string
}

func (w *world) runInit(id int, in *InitIn) (initObs, []fsNode) {
	root := filepath.Join(w.root, fmt.Sprintf("init-%d", id))
	_ = os.MkdirAll(root, 0o755)
	defer os.RemoveAll(root)
	for _, n := range in.Layout {
		p := filepath.Join(append([]string{root}, n.Path...)...)
		if n.Dir {
			_ = os.MkdirAll(p, 0o755)
		} else {
			_ = os.MkdirAll(filepath.Dir(p), 0o755)
			_ = os.WriteFile(p, n.Content, 0o644)
		}
	}
	wd := filepath.Join(append([]string{root}, in.Wd...)...)
	_ = os.MkdirAll(wd, 0o755)
	before := snapshot(root)
	args := []string{"--init"}
	for _, p := range in.Pos {
		args = append(args, strings.ReplaceAll(p, "%ROOT%", root))
	}
	if in.HasDash || len(in.After) > 0 {
		args = append(args, "--")
		for _, p := range in.After {
			args = append(args, strings.ReplaceAll(p, "%ROOT%", root))
		}
	}
	res := w.runTask(wd, 1000000+id, args)
	o := initObs{rc: res.rc, out: res.out, after: snapshot(root)}
	if res.killed {
		o.rc = -9
	}
	if o.rc == 0 {
		have := map[string]bool{}
		for _, n := range before {
			have[strings.Join(n.Path, "/")] = true
		}
		var newFiles [][]string
		for _, n := range o.after {
			if !have[strings.Join(n.Path, "/")] {
				newFiles = append(newFiles, n.Path)
			}
		}
		if len(newFiles) == 1 {
			o.created = newFiles[0]
		} else {
			o.created = []string{}
		}
	}
	return o, before
}

// modelArg: how an argument is shown to the model, whose root is the temp root.
func modelArg(p string) string { return strings.ReplaceAll(p, "%ROOT%", "") }

// destFrom mirrors the specification (Model.init_dest) for classification only.
func destFrom(before []fsNode, wd []string, name string, hasName bool, extOnly func(string) bool) []string {
	isDir := func(p []string) bool {
		if len(p) == 0 {
			return true
		}
		for _, n := range before {
			if n.Dir && strings.Join(n.Path, "/") == strings.Join(p, "/") {
				return true
			}
		}
		return false
	}
	comps := func(s string) []string {
		var base []string
		if !strings.HasPrefix(s, "/") {
			base = append(base, wd...)
		}
		for _, c := range strings.Split(s, "/") {
			switch c {
			case "", ".":
			case "..":
				if len(base) > 0 {
					base = base[:len(base)-1]
				}
			default:
				base = append(base, c)
			}
		}
		return base
	}
	if !hasName {
		return append(append([]string{}, wd...), "Taskfile.yml")
	}
	p := comps(name)
	if extOnly(name) {
		i := strings.LastIndex(name, "/")
		p = append(comps(name[:i+1]), "Taskfile"+filepath.Ext(name))
	}
	if isDir(p) {
		return append(p, "Taskfile.yml")
	}
	return p
}
