package quote

import (
	"math/rand"
	"strings"
)

// pieces special to the shell, to Go templates, to YAML, to UTF-8 decoding
var shellPieces = []string{
	"'", "\"", " ", "  ", "\t", "\n", "\r", "$", "$X", "${HOME}", "$(echo x)", "`echo x`", "$'", "$\"",
	"\\", "\\n", "\\'", "\\\\", "*", "?", "[a-z]", "[", "]", "{a,b}", "{", "}", "~", "~root", "=", "a=b", "#", "# c",
	";", "&", "&&", "|", "<", ">", ">>", "(", ")", "!", "!!", "%s", "%", ":", ": ", "- ", ",", ".", "/", "@", "+", "^",
	"-", "--", "-n", "-e",
}
var plainPieces = []string{"a", "b", "Z", "0", "9", "_", "abc", "x1", "Taskfile", "é", "ß", "日本", "😀", "à́"}
var keywordPieces = []string{"if", "then", "else", "fi", "for", "do", "done", "case", "esac", "while", "until", "in", "function", "select", "time", "coproc", "!", "[[", "]]", "{", "}"}
var ctrlPieces = []string{"\x01", "\x07", "\x08", "\x0b", "\x0c", "\x1b", "\x7f", "\u0085", "\u00a0", "\u200b", "\u2028", "\ufeff", "\U000e0001", "\ufffd", "\U0010ffff", "\u0378", ""}
var badPieces = []string{"\x80", "\xff", "\xc3", "\xc0\xaf", "\xe2\x80", "\xf0\x9f", "\xed\xa0\x80", "\xf4\x90\x80\x80", "\xfe"}
var noValuePieces = []string{"<no value>", "<no value><no value>", "<no <no value>value>", "a<no value>b", "<no value", "no value>", "<no  value>"}
var tmplPieces = []string{"{{.TASK}}", "{{.X}}", "{{", "}}", "{{ \"a\" }}", "{{.CLI_ARGS}}", "{{/* c */}}", "{{`x`}}", "{{- 1 -}}", "{{printf \"%s\" \"q\"}}"}

type feat struct {
	noValue bool // may contain "<no value>"
	tmpl    bool // may contain "{{"
	bad     bool // invalid UTF-8 / control characters
	nul     bool
}

func pick(r *rand.Rand, l []string) string { return l[r.Intn(len(l))] }

// genString: a concatenation of pieces; mostly short, sometimes long.
func genString(r *rand.Rand, f feat, maxPieces int) string {
	n := r.Intn(maxPieces + 1)
	if r.Intn(12) == 0 {
		n = 0
	}
	var sb strings.Builder
	for i := 0; i < n; i++ {
		switch k := r.Intn(20); {
		case k < 7:
			sb.WriteString(pick(r, shellPieces))
		case k < 12:
			sb.WriteString(pick(r, plainPieces))
		case k < 13:
			sb.WriteString(pick(r, keywordPieces))
		case k < 15:
			if f.bad {
				sb.WriteString(pick(r, ctrlPieces))
			} else {
				sb.WriteString(pick(r, plainPieces))
			}
		case k < 17:
			if f.bad {
				sb.WriteString(pick(r, badPieces))
			} else {
				sb.WriteString(pick(r, shellPieces))
			}
		case k < 18:
			if f.noValue {
				sb.WriteString(pick(r, noValuePieces))
			} else {
				sb.WriteString("<no")
			}
		case k < 19:
			if f.tmpl {
				sb.WriteString(pick(r, tmplPieces))
			} else {
				sb.WriteString("{ {")
			}
		default:
			if f.nul {
				sb.WriteString("\x00")
			} else {
				sb.WriteByte(byte(33 + r.Intn(94)))
			}
		}
	}
	s := sb.String()
	if r.Intn(25) == 0 {
		s = pick(r, keywordPieces) // exactly a keyword
	}
	if !f.noValue {
		s = strings.ReplaceAll(s, "<no value>", "<no_value>")
	}
	if !f.tmpl {
		s = strings.ReplaceAll(s, "{{", "{ {")
	}
	return s
}

// longString: a hostile period repeated up to size bytes, with a short head and tail.
func longString(r *rand.Rand, f feat, size int) string {
	per := ""
	for len(per) == 0 || len(per) > 80 {
		per = genString(r, f, 6)
	}
	head := genString(r, f, 2)
	tail := genString(r, f, 2)
	k := (size - len(head) - len(tail)) / len(per)
	if k < 1 {
		k = 1
	}
	s := head + strings.Repeat(per, k) + tail
	if !f.noValue {
		s = strings.ReplaceAll(s, "<no value>", "<no_value>")
	}
	if !f.tmpl {
		s = strings.ReplaceAll(s, "{{", "{ {")
	}
	return s
}

func noNUL(s string) string { return strings.ReplaceAll(s, "\x00", "\x01") }

// genArgs: an argument vector for the command line (no NUL: execve cannot pass one).
func genArgs(r *rand.Rand, f feat, thorough bool) []string {
	f.nul = false
	n := r.Intn(5)
	switch r.Intn(30) {
	case 0:
		n = 0
	case 1:
		n = 12 + r.Intn(20)
	case 2:
		if thorough {
			n = 200
		} else {
			n = 50
		}
	}
	out := make([]string, n)
	for i := range out {
		out[i] = noNUL(genString(r, f, 5))
	}
	if n > 0 && n < 8 {
		switch r.Intn(40) {
		case 0:
			sz := 4096
			if thorough {
				sz = 65536
			}
			out[r.Intn(n)] = noNUL(longString(r, f, sz))
		case 1:
			out[r.Intn(n)] = noNUL(longString(r, f, 700))
		}
	}
	return out
}

// genWords: text from the grammar the model's [fields] reads: blanks between
// words, a word = concatenation of bare / '…' / "…" / $'…' segments.
func genWords(r *rand.Rand) string {
	var sb strings.Builder
	bare := []string{"a", "b", "xyz", "0", "-", "--", "=", "a=b", "]", "}", "%", ":", ",", ".", "/", "@", "+", "^", "!", "é", "日", "*", "?", "[", "[a", "\\ ", "\\'", "\\\"", "\\$", "\\\\", "\\a", "\\*"}
	sqs := []string{"", "a", " ", "a b", "$x", "\"", "\\", "*", "{{", "\n", "\t", "`", "#", "é"}
	dqs := []string{"", "a", " ", "a b", "'", "\\\"", "\\\\", "\\$", "\\`", "\\a", "\\n", "*", "\n", "#", "é", "\\\n"}
	aqs := []string{"", "a", " ", "\\n", "\\t", "\\a", "\\b", "\\f", "\\r", "\\v", "\\\\", "\\'", "\\\"", "\\x41", "\\x7f", "\\xc3\\xa9", "\\xff", "\\u00e9", "\\u2028", "\\uFFFD", "\\U0001f600", "\\U0010FFFF", "\"", "*", "$", "é"}
	nw := r.Intn(5)
	if r.Intn(6) == 0 {
		sb.WriteString(pick(r, []string{" ", "\t", "  "}))
	}
	for w := 0; w < nw; w++ {
		ns := 1 + r.Intn(3)
		for s := 0; s < ns; s++ {
			switch r.Intn(4) {
			case 0:
				sb.WriteString(pick(r, bare))
			case 1:
				sb.WriteString("'")
				for k := r.Intn(3); k > 0; k-- {
					sb.WriteString(pick(r, sqs))
				}
				sb.WriteString("'")
			case 2:
				sb.WriteString("\"")
				for k := r.Intn(3); k > 0; k-- {
					sb.WriteString(pick(r, dqs))
				}
				sb.WriteString("\"")
			case 3:
				sb.WriteString("$'")
				for k := r.Intn(3); k > 0; k-- {
					sb.WriteString(pick(r, aqs))
				}
				sb.WriteString("'")
			}
		}
		if w+1 < nw || r.Intn(5) == 0 {
			sb.WriteString(pick(r, []string{" ", " ", "\t", "  "}))
		}
	}
	return sb.String()
}

// genParseArgs: task names and NAME=value assignments
func genParseArgs(r *rand.Rand, single bool) []string {
	names := []string{"X", "Y", "FOO", "a", "", "x y", "é", "-", "A.B"}
	vals := []string{"", "v", "a=b", "=", "==", "a b", "'q'", "$Z", "{ {.T}}", "<no value>", "=lead", "trail=", "é=ü", "\xff=\xfe", "a\nb=c"}
	calls := []string{"build", "default", "ns:task", "a b", "t*", "", "-x", "é"}
	n := 1
	if !single {
		n = r.Intn(6)
	}
	out := make([]string, n)
	for i := range out {
		if r.Intn(3) == 0 {
			out[i] = pick(r, calls)
		} else {
			out[i] = pick(r, names) + "=" + pick(r, vals)
		}
	}
	return out
}

var extOnlyNames = []string{
	".", "..", ".yml", ".yaml", "./.yml", "sub/.yml", "sub/.", "./", "sub/", "", "x.yml", ".a.b", "sub/x", "sub", "/", "/.yml",
	"a.", "...", ".y", "sub/..", "Taskfile", ".taskrc.yml", "dir.d/.yml", "dir.d/x", " .yml", ". ",
}
