package quote

import (
	"fmt"
	"strings"
	"unicode"
	"unicode/utf8"
)

// ---- Coq terms for (possibly long) data ----
//
// coqc cannot read a list literal with tens of thousands of elements (stack),
// and long arguments are periodic by construction, so sequences are printed
// as  seg ++ seg ++ …  where a segment is a short list literal or
// (nrep k [period]) — Run/QuoteCases.nrep.

const maxLit = 1024  // elements per list literal
const minRun = 256   // elements a periodic run must cover to be folded
const maxPeriod = 96 // longest period looked for

func litSeg(items []string) string { return "[" + strings.Join(items, "; ") + "]" }

func seqExpr(items []string) string {
	if len(items) == 0 {
		return "[]"
	}
	if len(items) <= maxLit {
		return litSeg(items)
	}
	var segs []string
	var pending []string
	flush := func() {
		for len(pending) > 0 {
			n := min(len(pending), maxLit)
			segs = append(segs, litSeg(pending[:n]))
			pending = pending[n:]
		}
	}
	i := 0
	for i < len(items) {
		folded := false
		if len(items)-i >= minRun {
			for p := 1; p <= maxPeriod && i+2*p <= len(items); p++ {
				// quick reject
				if items[i] != items[i+p] {
					continue
				}
				k := 1
				for i+(k+1)*p <= len(items) && eqSeg(items[i:i+p], items[i+k*p:i+(k+1)*p]) {
					k++
				}
				if k*p >= minRun {
					flush()
					segs = append(segs, fmt.Sprintf("nrep %d %s", k, litSeg(items[i:i+p])))
					i += k * p
					folded = true
					break
				}
			}
		}
		if !folded {
			pending = append(pending, items[i])
			i++
		}
	}
	flush()
	return "(" + strings.Join(segs, " ++ ") + ")"
}

func eqSeg(a, b []string) bool {
	for i := range a {
		if a[i] != b[i] {
			return false
		}
	}
	return true
}

func coqBytes(b []byte) string {
	items := make([]string, len(b))
	for i, c := range b {
		items[i] = fmt.Sprint(c)
	}
	return seqExpr(items)
}

func coqBytesList(l [][]byte) string {
	items := make([]string, len(l))
	for i, b := range l {
		items[i] = coqBytes(b)
	}
	return "[" + strings.Join(items, "; ") + "]"
}

func coqOptBytes(b []byte, ok bool) string {
	if !ok {
		return "None"
	}
	return "(Some " + coqBytes(b) + ")"
}

func coqOptBytesList(l [][]byte, ok bool) string {
	if !ok {
		return "None"
	}
	return "(Some " + coqBytesList(l) + ")"
}

func coqBool(b bool) string {
	if b {
		return "true"
	}
	return "false"
}

// coqUnits: the decoding syntax.Quote works on — utf8.DecodeRuneInString per
// position, unicode.IsPrint per rune.
func coqUnits(s []byte) string {
	var items []string
	for rem := s; len(rem) > 0; {
		r, size := utf8.DecodeRune(rem)
		if r == utf8.RuneError && size == 1 {
			items = append(items, fmt.Sprintf("BadByte %d", rem[0]))
		} else {
			items = append(items, fmt.Sprintf("Rune %d %s", r, coqBool(unicode.IsPrint(r))))
		}
		rem = rem[size:]
	}
	return seqExpr(items)
}

func coqUnitsList(l [][]byte) string {
	items := make([]string, len(l))
	for i, b := range l {
		items[i] = coqUnits(b)
	}
	return "[" + strings.Join(items, "; ") + "]"
}

// coqPath: path components
func coqPath(p []string) string {
	items := make([]string, len(p))
	for i, c := range p {
		items[i] = coqBytes([]byte(c))
	}
	return "[" + strings.Join(items, "; ") + "]"
}
