// Package quote is the correspondence driver of property C19 (model G "Quote").
//
// Case kinds
//
//	quote    real syntax.Quote(s, LangBash)            vs Model.quote, byte for byte; monitor: read back it is s
//	fields   real mvdan shell.Fields on generated words vs Model.fields_g
//	get      real args.Get() after a real pflag parse   vs join of the model's quotes; kind of the second result
//	tmpl     real templater.Replace on action-free text vs Model.maybe_strip; monitor: text comes out unchanged
//	parse    real args.Parse                            vs Model.parse_args; monitor: NAME=value cut at the first '='
//	extonly  real filepathext.IsExtOnly                 vs Model.is_ext_only; monitor: "." is a directory, not an extension
//	cli      real CLI binary, `helper {{.CLI_ARGS}}`    recorded argv vs what was passed (monitor) and vs the model
//	sq       real CLI binary, `helper {{shellQuote .X}}` with X=value on the command line; the same
//	init     real CLI binary, --init [path] [-- path]   file tree before/after vs monitor and model
package quote

import (
	"encoding/json"
	"fmt"
	"math/rand"
	"os"
	"path/filepath"
	"reflect"
	"strings"
	"sync"

	"github.com/spf13/pflag"
	"mvdan.cc/sh/v3/shell"
	"mvdan.cc/sh/v3/syntax"

	task "github.com/go-task/task/v3"
	"github.com/go-task/task/v3/args"
	"github.com/go-task/task/v3/internal/filepathext"
	"github.com/go-task/task/v3/internal/templater"
	"github.com/go-task/task/v3/taskfile/ast"
	"github.com/go-task/task/v3/verifharness/common"
	"github.com/go-task/task/v3/verifharness/drivers/quote/argvrec"
)

type Case struct {
	Kind  string   `json:"kind"`
	Str   []byte   `json:"str,omitempty"`  // quote, fields, tmpl, extonly, sq
	Args  [][]byte `json:"args,omitempty"` // get, parse, cli
	Init  *InitIn  `json:"init,omitempty"`
	Feat  string   `json:"feat,omitempty"`
	Class string   `json:"class,omitempty"` // how the observation differs from the expectation (set by the run)
	Note  string   `json:"note,omitempty"`  // observation, for the reader of a replay file
}

func strs(b [][]byte) []string {
	out := make([]string, len(b))
	for i, x := range b {
		out[i] = string(x)
	}
	return out
}

func byteses(s []string) [][]byte {
	out := make([][]byte, len(s))
	for i, x := range s {
		out[i] = []byte(x)
	}
	return out
}

var pflagMu sync.Mutex

// realGet drives args.Get through a real pflag parse of  [-- args…]  and reads
// its second result by reflection (a []string in some trees, a string in others).
func realGet(after []string) (kind string, text string, err error) {
	pflagMu.Lock()
	defer pflagMu.Unlock()
	pflag.CommandLine = pflag.NewFlagSet("task", pflag.ContinueOnError)
	if e := pflag.CommandLine.Parse(append([]string{"call", "--"}, after...)); e != nil {
		return "", "", e
	}
	res := reflect.ValueOf(args.Get).Call(nil)
	if len(res) != 3 {
		return "unknown", "", nil
	}
	if e, _ := res[2].Interface().(error); e != nil {
		return "", "", e
	}
	switch res[1].Kind() {
	case reflect.String:
		return "Joined", res[1].String(), nil
	case reflect.Slice:
		l, ok := res[1].Interface().([]string)
		if !ok {
			return "KindUnknown", "", nil
		}
		return "Slice", strings.Join(l, " "), nil
	}
	return "KindUnknown", "", nil
}

func featOf(r *rand.Rand) (feat, string) {
	switch r.Intn(10) {
	case 0, 1:
		return feat{noValue: true, bad: r.Intn(2) == 0}, "novalue"
	case 2, 3:
		return feat{tmpl: true, bad: r.Intn(2) == 0}, "tmpl"
	case 4, 5, 6:
		return feat{bad: true}, "bad"
	}
	return feat{}, "plain"
}

func genInit(r *rand.Rand) *InitIn {
	in := &InitIn{}
	old := []byte("old: content\n")
	opt := func(n fsNode, p int) {
		if r.Intn(p) == 0 {
			in.Layout = append(in.Layout, n)
		}
	}
	in.Layout = append(in.Layout, fsNode{Path: []string{"sub"}, Dir: true})
	opt(fsNode{Path: []string{"Taskfile.yml"}, Content: old}, 4)
	opt(fsNode{Path: []string{"sub", "Taskfile.yml"}, Content: old}, 4)
	opt(fsNode{Path: []string{"x.yml"}, Content: old}, 3)
	opt(fsNode{Path: []string{"sub", "x.yml"}, Content: old}, 4)
	opt(fsNode{Path: []string{"Taskfile.yaml"}, Content: old}, 5)
	opt(fsNode{Path: []string{"sub", "Taskfile.yaml"}, Content: old}, 6)
	opt(fsNode{Path: []string{"d.yml"}, Dir: true}, 5)
	opt(fsNode{Path: []string{"d.yml", "Taskfile.yml"}, Content: old}, 8)
	opt(fsNode{Path: []string{"sub", "Taskfile.yml"}, Dir: true}, 12)
	if r.Intn(4) == 0 {
		in.Wd = []string{"sub"}
	}
	names := []string{"sub", "x.yml", ".yaml", ".yml", "sub/.yml", "sub/x.yml", "nodir/x.yml", ".", "./", "sub/", "./sub", "../x.yml", "..",
		"%ROOT%/abs.yml", "%ROOT%/sub", "%ROOT%/x.yml", "%ROOT%/sub/.yaml", "a b.yml", "we'ird.yml", ".hidden.yml", "d.yml", "new.yml", "Custom.yml",
		"sub/new.yaml", "y$HOME.yml", "*.yml", "sub/.", "Taskfile.yml", "Taskfile.yaml", "new dir/x.yml", "{{.X}}.yml"}
	switch r.Intn(8) {
	case 0: // nothing
	case 1, 2, 3, 4:
		in.Pos = []string{pick(r, names)}
	case 5:
		in.After = []string{pick(r, names)}
	case 6:
		in.Pos = []string{pick(r, names)}
		in.After = []string{pick(r, names)}
	case 7:
		in.Pos = []string{pick(r, names)}
		in.HasDash = true
	}
	if len(in.Wd) == 0 { // stay below the temp root, which is the model's root
		for _, l := range [][]string{in.Pos, in.After} {
			for i := range l {
				if strings.Contains(l[i], "..") {
					l[i] = "sub/../up.yml"
				}
			}
		}
	}
	return in
}

type emitter struct {
	defs  map[string][]string
	idx   map[string][]int
	order []string
}

func (e *emitter) add(list string, global int, rec string, results ...string) {
	if e.defs == nil {
		e.defs = map[string][]string{}
		e.idx = map[string][]int{}
	}
	e.defs[list] = append(e.defs[list], rec)
	for _, r := range results {
		e.idx[r] = append(e.idx[r], global)
	}
}

func Main(argv []string) {
	if strings.HasPrefix(filepath.Base(os.Args[0]), "argvrec") {
		os.Exit(argvrec.Record(os.Args[1:]))
	}
	o := common.ParseOpts(argv)
	obs := common.NewObs("quote", o.Seed)
	thorough := o.Tier == "thorough"
	var cases []*Case
	if o.Replay != "" {
		b, err := os.ReadFile(o.Replay)
		if err != nil {
			panic(err)
		}
		var rp struct {
			Input Case `json:"input"`
		}
		if err := json.Unmarshal(b, &rp); err != nil {
			panic(err)
		}
		c := rp.Input
		c.Class, c.Note = "", ""
		cases = append(cases, &c)
	} else {
		r := o.Rand()
		for i := 0; i < o.N; i++ {
			c := &Case{}
			f, fname := featOf(r)
			c.Feat = fname
			switch k := i % 20; {
			case k < 5:
				c.Kind = "quote"
				f.nul = r.Intn(12) == 0
				switch r.Intn(40) {
				case 0:
					sz := 3000
					if thorough {
						sz = 65536
					}
					c.Str = []byte(longString(r, f, sz))
				default:
					c.Str = []byte(genString(r, f, 8))
				}
			case k < 7:
				c.Kind = "fields"
				c.Str = []byte(genWords(r))
			case k < 8:
				c.Kind = "get"
				c.Args = byteses(genArgs(r, f, false))
			case k < 9:
				c.Kind = "tmpl"
				f.tmpl = false
				c.Str = []byte(noNUL(genString(r, f, 6)))
			case k < 11:
				c.Kind = "parse"
				c.Args = byteses(genParseArgs(r, k == 9))
			case k < 12:
				c.Kind = "extonly"
				c.Str = []byte(pick(r, extOnlyNames))
			case k < 16:
				c.Kind = "cli"
				c.Args = byteses(genArgs(r, f, thorough))
			case k < 18:
				c.Kind = "sq"
				f.nul = false
				if r.Intn(40) == 0 {
					sz := 3000
					if thorough {
						sz = 65536
					}
					c.Str = []byte(noNUL(longString(r, f, sz)))
				} else {
					c.Str = []byte(noNUL(genString(r, f, 8)))
				}
			default:
				c.Kind = "init"
				c.Init = genInit(r)
			}
			cases = append(cases, c)
		}
	}

	if o.Replay == "" && thorough && o.Seed%1000 == 0 {
		cases = append(cases, exhaustive()...)
	}

	needWorld := false
	for _, c := range cases {
		if c.Kind == "cli" || c.Kind == "sq" || c.Kind == "init" {
			needWorld = true
		}
	}
	var w *world
	if needWorld {
		var err error
		w, err = newWorld()
		if err != nil {
			fmt.Fprintln(os.Stderr, err)
			os.Exit(1)
		}
		defer w.close()
	}

	// run the binary cases in parallel, everything else inline
	type e2eRes struct {
		run  runResult
		init initObs
		pre  []fsNode
	}
	results := make([]e2eRes, len(cases))
	var wg sync.WaitGroup
	sem := make(chan struct{}, 6)
	for i, c := range cases {
		if c.Kind != "cli" && c.Kind != "sq" && c.Kind != "init" {
			continue
		}
		wg.Add(1)
		go func(i int, c *Case) {
			defer wg.Done()
			sem <- struct{}{}
			defer func() { <-sem }()
			switch c.Kind {
			case "cli":
				results[i].run = w.runTask(w.project, i, append([]string{"cli", "--"}, strs(c.Args)...))
			case "sq":
				results[i].run = w.runTask(w.project, i, []string{"sq", "X=" + string(c.Str)})
			case "init":
				results[i].init, results[i].pre = w.runInit(i, c.Init)
			}
		}(i, c)
	}
	wg.Wait()

	// is CLI_ARGS a []string in the tree under test (as compiled)
	sliceKind, _, _ := realGet([]string{"a"})
	sliceNow := sliceKind == "Slice"

	em := &emitter{}
	seen := map[string]bool{}
	for i, c := range cases {
		nontrivial := true
		switch c.Kind {
		case "quote":
			q, err := syntax.Quote(string(c.Str), syntax.LangBash)
			em.add("qcases", i, fmt.Sprintf("{| q_in := %s; q_bytes := %s; q_out := %s |}", coqUnits(c.Str), coqBytes(c.Str), coqOptBytes([]byte(q), err == nil)),
				"R_quote_agree", "R_quote_mon")
			mode := "error"
			if err == nil {
				switch {
				case q == string(c.Str):
					mode = "verbatim"
				case strings.HasPrefix(q, "$'"):
					mode = "ansi"
				case strings.HasPrefix(q, "'"):
					mode = "single"
				case strings.HasPrefix(q, "\""):
					mode = "double"
				}
			}
			obs.Count("quote_mode:" + mode)
			nontrivial = len(c.Str) > 0
			c.Note = q
		case "fields":
			l, err := shell.Fields(string(c.Str), func(string) string { return "" })
			em.add("fcases", i, fmt.Sprintf("{| f_text := %s; f_real := %s |}", coqBytes(c.Str), coqOptBytesList(byteses(l), err == nil)), "R_fields_agree")
			nontrivial = len(l) > 0
			c.Note = strings.Join(l, "|")
		case "get":
			kind, text, err := realGet(strs(c.Args))
			if err != nil {
				obs.ImplFails = append(obs.ImplFails, common.ImplFail{Case: i, Kind: "harness", Msg: "args.Get: " + err.Error()})
			}
			if kind == "" {
				kind = "KindUnknown"
			}
			em.add("gcases", i, fmt.Sprintf("{| g_args := %s; g_kind := %s; g_text := %s |}", coqUnitsList(c.Args), kind, coqBytes([]byte(text))), "R_get_agree")
			obs.Count("get_kind:" + kind)
			nontrivial = len(c.Args) > 0
		case "tmpl":
			cache := &templater.Cache{Vars: ast.NewVars()}
			outS := templater.Replace(string(c.Str), cache)
			if err := cache.Err(); err != nil {
				obs.ImplFails = append(obs.ImplFails, common.ImplFail{Case: i, Kind: "harness", Msg: "templater.Replace on action-free text: " + err.Error()})
			}
			em.add("tcases", i, fmt.Sprintf("{| t_in := %s; t_out := %s |}", coqBytes(c.Str), coqBytes([]byte(outS))), "R_tmpl_agree", "R_tmpl_mon")
			if outS != string(c.Str) {
				if strings.Contains(string(c.Str), "<no value>") && (stripNV(string(c.Str), 1) == outS) {
					c.Class = "no-value-stripped"
				} else {
					c.Class = "unclassified"
				}
			}
			nontrivial = len(c.Str) > 0
		case "parse":
			calls, globals := args.Parse(strs(c.Args)...)
			var cs []string
			for _, cl := range calls {
				cs = append(cs, cl.Task)
			}
			var gl []string
			for k, v := range globals.All() {
				s, _ := v.Value.(string)
				gl = append(gl, fmt.Sprintf("(%s, %s)", coqBytes([]byte(k)), coqBytes([]byte(s))))
			}
			em.add("pcases", i, fmt.Sprintf("{| p_args := %s; p_calls := %s; p_globals := [%s] |}", coqBytesList(c.Args), coqBytesList(byteses(cs)), strings.Join(gl, "; ")),
				"R_parse_agree", "R_parse_mon")
			nontrivial = len(c.Args) > 0
		case "extonly":
			real := filepathext.IsExtOnly(string(c.Str))
			em.add("xcases", i, fmt.Sprintf("{| x_name := %s; x_real := %s |}", coqBytes(c.Str), coqBool(real)), "R_extonly_agree", "R_extonly_mon")
			b := filepath.Base(string(c.Str))
			if real && b == "." {
				c.Class = "dot-is-ext-only"
			}
		case "cli", "sq":
			res := results[i].run
			if res.killed {
				obs.ImplFails = append(obs.ImplFails, common.ImplFail{Case: i, Kind: "inconclusive", Msg: "CLI hit its SIGKILL deadline"})
				obs.CaseInputs = append(obs.CaseInputs, c)
				continue
			}
			var passed []string
			if c.Kind == "cli" {
				passed = strs(c.Args)
			} else {
				passed = []string{string(c.Str)}
			}
			c.Class = classifyArgv(passed, res, sliceNow)
			if panicked(res) {
				obs.Count("cli_panic")
			}
			c.Note = fmt.Sprintf("rc=%d started=%d argv=%q out=%q", res.rc, res.started, truncList(res.argv), trunc(res.out, 300))
			if c.Kind == "cli" {
				em.add("clicases", i, fmt.Sprintf("{| c_args := %s; c_argsb := %s; c_obs := %s; c_crash := %s |}", coqUnitsList(c.Args), coqBytesList(c.Args), coqOptBytesList(res.argv, res.ran), coqBool(panicked(res))),
					"R_cli_agree", "R_cli_mon")
				obs.Count(fmt.Sprintf("cli_nargs:%s", bucket(len(c.Args))))
				mx := 0
				for _, a := range c.Args {
					mx = max(mx, len(a))
				}
				obs.Count("cli_maxlen:" + bucket(mx))
				nontrivial = len(c.Args) > 0
			} else {
				em.add("sqcases", i, fmt.Sprintf("{| s_val := %s; s_valb := %s; s_obs := %s |}", coqUnits(c.Str), coqBytes(c.Str), coqOptBytesList(res.argv, res.ran)),
					"R_sq_agree", "R_sq_mon")
				obs.Count("sq_len:" + bucket(len(c.Str)))
			}
			obs.Count(c.Kind + "_class:" + c.Class)
		case "init":
			ob, pre := results[i].init, results[i].pre
			if ob.rc == -9 {
				obs.ImplFails = append(obs.ImplFails, common.ImplFail{Case: i, Kind: "inconclusive", Msg: "CLI hit its SIGKILL deadline"})
				obs.CaseInputs = append(obs.CaseInputs, c)
				continue
			}
			in := c.Init
			created := "None"
			if ob.created != nil {
				created = "(Some " + coqPath(ob.created) + ")"
			}
			var pos, after [][]byte
			for _, p := range in.Pos {
				pos = append(pos, []byte(modelArg(p)))
			}
			for _, p := range in.After {
				after = append(after, []byte(modelArg(p)))
			}
			rc := ob.rc
			if rc < 0 {
				rc = 255
			}
			em.add("icases", i, fmt.Sprintf("{| i_wd := %s; i_before := %s; i_pos := %s; i_after := %s; i_created := %s; i_rc := %d; i_fs_after := %s |}",
				coqPath(in.Wd), coqFS(pre), coqBytesList(pos), coqUnitsList(after), created, rc, coqFS(ob.after)), "R_init_agree", "R_init_mon")
			c.Class = classifyInit(in, pre, ob)
			c.Note = fmt.Sprintf("rc=%d created=%v out=%q", ob.rc, ob.created, trunc(ob.out, 200))
			obs.Count("init_class:" + c.Class)
			obs.Count(fmt.Sprintf("init_rc:%d", ob.rc))
		}
		obs.Count("kind:" + c.Kind)
		obs.Count("feat:" + c.Feat)
		key, _ := json.Marshal([]any{c.Kind, c.Str, c.Args, c.Init})
		if nontrivial && !seen[string(key)] {
			seen[string(key)] = true
			obs.Distinct++
		}
		obs.CaseInputs = append(obs.CaseInputs, c)
		if len(obs.Samples) < 4 && (c.Kind == "cli" || c.Kind == "init") && nontrivial {
			obs.Samples = append(obs.Samples, sampleOf(c))
		}
	}
	obs.Cases = len(cases)

	var sb strings.Builder
	sb.WriteString("From Coq Require Import List NArith Bool.\nImport ListNotations.\nFrom TV Require Import Quote.Model Run.QuoteCases.\nLocal Open Scope N_scope.\n")
	fmt.Fprintf(&sb, "Definition default_tf : bytes := %s.\n", coqBytes([]byte(task.DefaultTaskfile)))
	lists := []struct{ name, typ string }{{"qcases", "qcase"}, {"fcases", "fcase"}, {"gcases", "gcase"}, {"tcases", "tcase"}, {"pcases", "pcase"},
		{"xcases", "xcase"}, {"clicases", "clicase"}, {"sqcases", "sqcase"}, {"icases", "icase"}}
	for _, l := range lists {
		fmt.Fprintf(&sb, "Definition %s : list %s := [\n %s].\n", l.name, l.typ, strings.Join(em.defs[l.name], ";\n "))
	}
	evals := []struct{ res, checker, list string }{
		{"R_quote_agree", "q_agree", "qcases"}, {"R_quote_mon", "q_mon", "qcases"},
		{"R_fields_agree", "f_agree", "fcases"},
		{"R_get_agree", "g_agree", "gcases"},
		{"R_tmpl_agree", "t_agree", "tcases"}, {"R_tmpl_mon", "t_mon", "tcases"},
		{"R_parse_agree", "p_agree", "pcases"}, {"R_parse_mon", "p_mon", "pcases"},
		{"R_extonly_agree", "x_agree", "xcases"}, {"R_extonly_mon", "x_mon", "xcases"},
		{"R_cli_agree", "cli_agree", "clicases"}, {"R_cli_mon", "cli_mon", "clicases"},
		{"R_sq_agree", "sq_agree", "sqcases"}, {"R_sq_mon", "sq_mon", "sqcases"},
		{"R_init_agree", "(init_agree default_tf)", "icases"}, {"R_init_mon", "(init_mon default_tf)", "icases"},
	}
	sb.WriteString("Close Scope N_scope.\n")
	idx := map[string][]int{}
	for _, e := range evals {
		fmt.Fprintf(&sb, "Definition %s := Eval vm_compute in failures %s %s.\nPrint %s.\n", e.res, e.checker, e.list, e.res)
		idx[e.res] = em.idx[e.res]
		if idx[e.res] == nil {
			idx[e.res] = []int{}
		}
	}
	sb.WriteString("Definition R_fields_undetermined := Eval vm_compute in failures f_determined fcases.\nPrint R_fields_undetermined.\n")
	common.WriteFile(o.Out, "cases.v", sb.String())
	b, _ := json.Marshal(idx)
	common.WriteFile(o.Out, "index.json", string(b))
	obs.Write(o.Out)
}

func bucket(n int) string {
	switch {
	case n == 0:
		return "0"
	case n <= 4:
		return "1-4"
	case n <= 32:
		return "5-32"
	case n <= 256:
		return "33-256"
	case n <= 4096:
		return "257-4096"
	}
	return ">4096"
}

func trunc(s string, n int) string {
	if len(s) > n {
		return s[:n] + "…"
	}
	return s
}

func truncList(l [][]byte) []string {
	var out []string
	for i, b := range l {
		if i >= 8 {
			out = append(out, "…")
			break
		}
		out = append(out, trunc(string(b), 80))
	}
	return out
}

func sampleOf(c *Case) any {
	return map[string]any{"kind": c.Kind, "args": truncList(c.Args), "init": c.Init, "class": c.Class, "observed": trunc(c.Note, 400)}
}

// classifyInit names the way an --init run misses the specification.
func classifyInit(in *InitIn, pre []fsNode, ob initObs) string {
	specExt := func(s string) bool { return filepath.Base(s) != "." && filepath.Base(s) == filepath.Ext(s) }
	hasPos := len(in.Pos) > 0
	pos := ""
	if hasPos {
		pos = modelArg(in.Pos[0])
	}
	dest := destFrom(pre, in.Wd, pos, hasPos, specExt)
	exists := func(p []string) (bool, bool) {
		for _, n := range pre {
			if strings.Join(n.Path, "/") == strings.Join(p, "/") {
				return true, n.Dir
			}
		}
		return false, false
	}
	parentOK := func(p []string) bool {
		if len(p) <= 1 {
			return true
		}
		e, d := exists(p[:len(p)-1])
		return e && d
	}
	verdict := func(dest []string) string { // what an implementation following dest does
		if e, _ := exists(dest); e {
			return "exists"
		}
		if !parentOK(dest) {
			return "exists" // refused either way
		}
		return "create:" + strings.Join(dest, "/")
	}
	observed := "exists" // refused
	switch {
	case ob.rc == 0 && ob.created != nil:
		observed = "create:" + strings.Join(ob.created, "/")
	case ob.rc == 101:
		observed = "exists"
	}
	if observed == verdict(dest) {
		return "ok"
	}
	// the same rules applied to the first argument after "--" (shell-quoted, as args.Get returns it)
	hasAfter := len(in.After) > 0
	a := ""
	if hasAfter {
		a = modelArg(in.After[0])
		if q, err := syntax.Quote(a, syntax.LangBash); err == nil {
			a = q
		}
	}
	implExt := func(s string) bool { return filepath.Base(s) == filepath.Ext(s) }
	for _, ext := range []func(string) bool{specExt, implExt} {
		if observed == verdict(destFrom(pre, in.Wd, a, hasAfter, ext)) {
			return "path-from-after-dash"
		}
	}
	if observed == verdict(destFrom(pre, in.Wd, pos, hasPos, implExt)) {
		return "dot-is-ext-only"
	}
	return "unclassified"
}

// exhaustive: small-scope enumeration run once per thorough check (first shard):
// every string of length <= 2 over an alphabet with a representative of every
// byte class as a quote case and (without NUL) as a shellQuote end-to-end case;
// every vector of <= 2 arguments over a set of hostile strings as a cli case.
func exhaustive() []*Case {
	alpha := []string{"a", "Z", "0", "_", "-", ".", "/", ":", "%", "+", ",", "@", "^", "!", "]", "}", // never quoted on their own
		"'", "\"", " ", "\t", "\n", "\r", "$", "`", "\\", "*", "?", "[", "{", "~", "=", "#", ";", "&", "|", "<", ">", "(", ")",
		"\x01", "\x07", "\x1b", "\x7f", "\x80", "\xff", "\xc3", "\u00e9", "\u00a0", "\u2028", "\ufffd", "\U0001f600", "\x00"}
	var out []*Case
	var strsUpTo2 []string
	strsUpTo2 = append(strsUpTo2, "")
	for _, a := range alpha {
		strsUpTo2 = append(strsUpTo2, a)
		for _, b := range alpha {
			strsUpTo2 = append(strsUpTo2, a+b)
		}
	}
	for _, s := range strsUpTo2 {
		out = append(out, &Case{Kind: "quote", Str: []byte(s), Feat: "exhaustive"})
		if !strings.Contains(s, "\x00") {
			out = append(out, &Case{Kind: "sq", Str: []byte(s), Feat: "exhaustive"})
		}
	}
	hostile := []string{"", "a", "a b", "'", "\"", "$HOME", "\\", "*", "a'b\"c", "-n", "=", "\n", "\xff", "{{.TASK}}", "<no value>", "é", "]", "[", "if"}
	out = append(out, &Case{Kind: "cli", Args: [][]byte{}, Feat: "exhaustive"})
	for _, a := range hostile {
		out = append(out, &Case{Kind: "cli", Args: byteses([]string{a}), Feat: "exhaustive"})
		for _, b := range hostile {
			ab := a + b
			if strings.Contains(ab, "{{") && strings.Contains(ab, "<no value>") {
				continue // one template feature per case, so that a failing case shows one defect
			}
			out = append(out, &Case{Kind: "cli", Args: byteses([]string{a, b}), Feat: "exhaustive"})
		}
	}
	return out
}
