// Package argvrec is the argv recorder used as the command in C19's end-to-end cases.
package argvrec

import (
	"encoding/json"
	"os"
)

// Recorded is what one start of the helper leaves behind.
type Recorded struct {
	Args [][]byte `json:"args"` // argv[1:], base64 in JSON
}

// Record writes args to $VH_ARGV_OUT (appending ".2", ".3" … if the file exists, so a
// command that is started more than once is noticed).
func Record(args []string) int {
	out := os.Getenv("VH_ARGV_OUT")
	if out == "" {
		return 3
	}
	r := Recorded{Args: make([][]byte, len(args))}
	for i, a := range args {
		r.Args[i] = []byte(a)
	}
	b, err := json.Marshal(r)
	if err != nil {
		return 4
	}
	path := out
	for i := 2; ; i++ {
		if _, err := os.Stat(path); err != nil {
			break
		}
		path = out + "." + string(rune('0'+i%10))
		if i > 8 {
			break
		}
	}
	tmp := path + ".tmp"
	if err := os.WriteFile(tmp, b, 0o644); err != nil {
		return 5
	}
	if err := os.Rename(tmp, path); err != nil {
		return 6
	}
	return 0
}
