package output

import (
	"context"
	"encoding/json"
	"fmt"
	"io"
	"math/rand"
	"os"
	"path/filepath"
	"strings"

	task "github.com/go-task/task/v3"
	"github.com/go-task/task/v3/internal/output"
	"github.com/go-task/task/v3/internal/templater"
	"github.com/go-task/task/v3/taskfile/ast"
	"github.com/go-task/task/v3/verifharness/common"
	cg "github.com/go-task/task/v3/verifharness/coqgen"
	"github.com/go-task/task/v3/verifharness/sched"
	"gopkg.in/yaml.v3"
)

type recSink struct{ writes [][]byte }

func (r *recSink) Write(p []byte) (int, error) {
	r.writes = append(r.writes, append([]byte(nil), p...))
	return len(p), nil
}

type OutCase struct {
	Kind      string   `json:"kind"` // gunit | punit | grun | prun
	Begin     string   `json:"begin,omitempty"`
	End       string   `json:"end,omitempty"`
	ErrorOnly bool     `json:"error_only,omitempty"`
	Prefix    string   `json:"prefix,omitempty"`
	Cmds      []OutCmd `json:"cmds"`
	Schedule  []string `json:"schedule,omitempty"`
	Sink      [][]byte `json:"-"`
	SinkStr   []string `json:"sink"`
	Seed      int64    `json:"seed"`
}

type OutCmd struct {
	Name   string   `json:"name"`
	Chunks []string `json:"chunks"`
	Failed bool     `json:"failed"`
}

func randChunks(r *rand.Rand, letter byte) []string {
	n := r.Intn(4)
	if r.Intn(8) == 0 {
		n = 0
	}
	var out []string
	for i := 0; i < n; i++ {
		l := r.Intn(5)
		var sb strings.Builder
		for j := 0; j < l; j++ {
			switch r.Intn(5) {
			case 0:
				sb.WriteByte('\n')
			case 1:
				sb.WriteByte(byte('0' + r.Intn(10)))
			default:
				sb.WriteByte(letter)
			}
		}
		out = append(out, sb.String())
	}
	return out
}

func gcfgCoq(c *OutCase) string {
	b, e := "", ""
	if c.Begin != "" {
		b = c.Begin + "\n"
	}
	if c.End != "" {
		e = c.End + "\n"
	}
	return fmt.Sprintf("{| g_begin := %s; g_end := %s; g_error_only := %s |}", cg.Bytes([]byte(b)), cg.Bytes([]byte(e)), cg.Bool(c.ErrorOnly))
}

func chunksCoq(ch []string) string {
	bs := make([][]byte, len(ch))
	for i, s := range ch {
		bs[i] = []byte(s)
	}
	return cg.BytesList(bs)
}

func gcmdCoq(c OutCmd) string {
	return fmt.Sprintf("{| g_chunks := %s; g_failed := %s |}", chunksCoq(c.Chunks), cg.Bool(c.Failed))
}

func runGUnit(c *OutCase) {
	sink := &recSink{}
	g := output.Group{Begin: c.Begin, End: c.End, ErrorOnly: c.ErrorOnly}
	so, se, closer := g.WrapWriter(sink, sink, "", &templater.Cache{Vars: ast.NewVars()})
	for i, ch := range c.Cmds[0].Chunks {
		if i%2 == 0 {
			_, _ = so.Write([]byte(ch))
		} else {
			_, _ = se.Write([]byte(ch))
		}
	}
	var err error
	if c.Cmds[0].Failed {
		err = fmt.Errorf("exit status 3")
	}
	_ = closer(err)
	c.Sink = sink.writes
}

func runPUnit(c *OutCase) {
	sink := &recSink{}
	e := task.NewExecutor(task.WithStdout(io.Discard), task.WithStderr(io.Discard))
	// the logger the prefixed writer prints the prefix with (colour off)
	p := output.NewPrefixed(loggerFor(e))
	so, se, closer := p.WrapWriter(sink, sink, c.Prefix, nil)
	for i, ch := range c.Cmds[0].Chunks {
		// stdout and stderr of a command are one stream of lines (a partial line on one is
		// continued by the other)
		if i%2 == 0 {
			_, _ = so.Write([]byte(ch))
		} else {
			_, _ = se.Write([]byte(ch))
		}
	}
	_ = closer(nil)
	c.Sink = sink.writes
}

func shQuote(s string) string { return "'" + strings.ReplaceAll(s, "'", `'\''`) + "'" }

// e2e: tasks a,b,c.. as parallel deps of top, each printing its chunks with one printf per chunk.
func runE2E(c *OutCase, r *rand.Rand) (sched.Result, error) {
	dir, err := os.MkdirTemp("", "vh-out")
	if err != nil {
		return sched.Result{}, err
	}
	defer os.RemoveAll(dir)
	tasks := map[string]any{}
	var deps []string
	for _, cmd := range c.Cmds {
		var parts []string
		for j, ch := range cmd.Chunks {
			if j%2 == 1 {
				parts = append(parts, "printf '%s' "+shQuote(ch)+" >&2")
			} else {
				parts = append(parts, "printf '%s' "+shQuote(ch))
			}
		}
		if cmd.Failed {
			parts = append(parts, "exit 3")
		}
		if len(parts) == 0 {
			parts = append(parts, "true")
		}
		t := map[string]any{"cmds": []any{map[string]any{"cmd": strings.Join(parts, "; "), "ignore_error": true}}}
		if c.Kind == "prun" {
			t["prefix"] = c.Prefix + cmd.Name
		}
		tasks[cmd.Name] = t
		deps = append(deps, cmd.Name)
	}
	tasks["top"] = map[string]any{"deps": deps}
	tf := map[string]any{"version": "3", "silent": true, "tasks": tasks}
	if c.Kind == "grun" {
		g := map[string]any{"error_only": c.ErrorOnly}
		if c.Begin != "" {
			g["begin"] = c.Begin
		}
		if c.End != "" {
			g["end"] = c.End
		}
		tf["output"] = map[string]any{"group": g}
	} else {
		tf["output"] = "prefixed"
	}
	y, _ := yaml.Marshal(tf)
	if err := os.WriteFile(filepath.Join(dir, "Taskfile.yml"), y, 0o644); err != nil {
		return sched.Result{}, err
	}
	ctl := sched.New()
	e := task.NewExecutor(task.WithDir(dir), task.WithStdout(ctl.Writer("out")), task.WithStderr(ctl.Writer("err")), task.WithSilent(true))
	if err := e.Setup(); err != nil {
		return sched.Result{}, fmt.Errorf("setup: %w\n%s", err, y)
	}
	var ch sched.Chooser = sched.RandChooser{R: r}
	if len(c.Schedule) > 0 {
		ch = &sched.ScriptChooser{Labels: c.Schedule}
	}
	res := ctl.Run(func() error { return e.Run(context.Background(), &task.Call{Task: "top"}) }, ch)
	if res.Deadlock || res.Overrun {
		ctl.ReleaseAll()
	}
	c.Sink = nil
	c.Schedule = nil
	arrived := map[int]string{}
	for _, ev := range ctl.Events {
		if ev.Kind == "arrive" {
			arrived[ev.ID] = ev.Data
		} else if ev.Kind == "release" && ev.Stream == "out" {
			c.Sink = append(c.Sink, []byte(arrived[ev.ID]))
			c.Schedule = append(c.Schedule, "out:"+strings.TrimRight(arrived[ev.ID], "\n"))
		}
	}
	return res, nil
}

func Main(args []string) {
	o := common.ParseOpts(args)
	obs := common.NewObs("output", o.Seed)
	var cases []*OutCase
	if o.Replay != "" {
		b, err := os.ReadFile(o.Replay)
		if err != nil {
			panic(err)
		}
		var rp struct {
			Input OutCase `json:"input"`
		}
		if err := json.Unmarshal(b, &rp); err != nil {
			panic(err)
		}
		c := rp.Input
		cases = append(cases, &c)
	} else {
		r := o.Rand()
		for i := 0; i < o.N; i++ {
			c := &OutCase{Seed: r.Int63()}
			cr := rand.New(rand.NewSource(c.Seed))
			switch i % 4 {
			case 0:
				c.Kind = "gunit"
			case 1:
				c.Kind = "punit"
			case 2:
				c.Kind = "grun"
			case 3:
				c.Kind = "prun"
			}
			if cr.Intn(3) > 0 {
				c.Begin = "BEGIN"
			}
			if cr.Intn(3) > 0 {
				c.End = "END"
			}
			c.ErrorOnly = cr.Intn(3) == 0
			c.Prefix = []string{"p", "", "x y", "t"}[cr.Intn(4)]
			k := 1
			if c.Kind == "grun" || c.Kind == "prun" {
				k = 2 + cr.Intn(2)
			}
			for j := 0; j < k; j++ {
				c.Cmds = append(c.Cmds, OutCmd{Name: string(rune('a' + j)), Chunks: randChunks(cr, byte('a'+j)), Failed: cr.Intn(3) == 0})
			}
			cases = append(cases, c)
		}
	}
	var sb strings.Builder
	sb.WriteString("From Coq Require Import List NArith Bool.\nImport ListNotations.\nFrom TV Require Import Output.Model Run.OutputCases.\n")
	var gu, pu, gr, pr []string
	var guIdx, puIdx, grIdx, prIdx []int
	seen := map[string]bool{}
	for i, c := range cases {
		cr := rand.New(rand.NewSource(c.Seed + 1))
		switch c.Kind {
		case "gunit":
			runGUnit(c)
			gu = append(gu, fmt.Sprintf("{| gu_cfg := %s; gu_cmd := %s; gu_writes := %s |}", gcfgCoq(c), gcmdCoq(c.Cmds[0]), cg.BytesList(c.Sink)))
			guIdx = append(guIdx, i)
		case "punit":
			runPUnit(c)
			pu = append(pu, fmt.Sprintf("{| pu_prefix := %s; pu_chunks := %s; pu_writes := %s |}", cg.Bytes([]byte(c.Prefix)), chunksCoq(c.Cmds[0].Chunks), cg.BytesList(c.Sink)))
			puIdx = append(puIdx, i)
		case "grun", "prun":
			res, err := runE2E(c, cr)
			if err != nil {
				obs.ImplFails = append(obs.ImplFails, common.ImplFail{Case: i, Kind: "harness", Msg: err.Error()})
				continue
			}
			if res.Deadlock {
				obs.ImplFails = append(obs.ImplFails, common.ImplFail{Case: i, Kind: "deadlock", Msg: res.Stacks})
			}
			if res.Overrun {
				obs.ImplFails = append(obs.ImplFails, common.ImplFail{Case: i, Kind: "inconclusive", Msg: "scheduler overrun"})
				continue
			}
			if c.Kind == "grun" {
				var cmds []string
				for _, cm := range c.Cmds {
					cmds = append(cmds, gcmdCoq(cm))
				}
				gr = append(gr, fmt.Sprintf("{| gr_cfg := %s; gr_cmds := %s; gr_sink := %s |}", gcfgCoq(c), cg.List(cmds), cg.BytesList(c.Sink)))
				grIdx = append(grIdx, i)
			} else {
				var cmds []string
				for _, cm := range c.Cmds {
					cmds = append(cmds, cg.Pair(cg.Bytes([]byte(c.Prefix+cm.Name)), chunksCoq(cm.Chunks)))
				}
				pr = append(pr, fmt.Sprintf("{| pr_cmds := %s; pr_sink := %s |}", cg.List(cmds), cg.BytesList(c.Sink)))
				prIdx = append(prIdx, i)
			}
		}
		c.SinkStr = nil
		for _, w := range c.Sink {
			c.SinkStr = append(c.SinkStr, string(w))
		}
		obs.Count("kind:" + c.Kind)
		obs.Count(fmt.Sprintf("sink_writes:%d", min(len(c.Sink), 12)))
		key, _ := json.Marshal([]any{c.Kind, c.Begin, c.End, c.ErrorOnly, c.Cmds, c.SinkStr})
		nontrivial := len(c.Sink) > 0
		if nontrivial && !seen[string(key)] {
			seen[string(key)] = true
			obs.Distinct++
		}
		obs.CaseInputs = append(obs.CaseInputs, c)
		if len(obs.Samples) < 4 && len(c.Sink) > 1 {
			obs.Samples = append(obs.Samples, c)
		}
	}
	obs.Cases = len(cases)
	fmt.Fprintf(&sb, "Definition gunits : list gunit := %s.\n", cg.List(gu))
	fmt.Fprintf(&sb, "Definition punits : list punit := %s.\n", cg.List(pu))
	fmt.Fprintf(&sb, "Definition gruns : list grun := %s.\n", cg.List(gr))
	fmt.Fprintf(&sb, "Definition pruns : list prun := %s.\n", cg.List(pr))
	sb.WriteString("Definition R_gunit := Eval vm_compute in failures (gunit_agree current_one_write) gunits.\nPrint R_gunit.\n")
	sb.WriteString("Definition R_punit := Eval vm_compute in failures punit_agree punits.\nPrint R_punit.\n")
	sb.WriteString("Definition R_grun := Eval vm_compute in failures grun_mon gruns.\nPrint R_grun.\n")
	sb.WriteString("Definition R_prun := Eval vm_compute in failures prun_mon pruns.\nPrint R_prun.\n")
	common.WriteFile(o.Out, "cases.v", sb.String())
	idx := map[string][]int{"R_gunit": guIdx, "R_punit": puIdx, "R_grun": grIdx, "R_prun": prIdx}
	b, _ := json.Marshal(idx)
	common.WriteFile(o.Out, "index.json", string(b))
	obs.Write(o.Out)
}
