package output

import (
	task "github.com/go-task/task/v3"
	"github.com/go-task/task/v3/internal/logger"
)

func loggerFor(e *task.Executor) *logger.Logger {
	return &logger.Logger{Stdout: e.Stdout, Stderr: e.Stderr, Color: false}
}
