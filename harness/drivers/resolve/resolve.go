// Package resolve is the correspondence driver of model D / property C15:
// generated task tables (names, wildcard patterns, aliases over an alphabet
// with regexp metacharacters) x requested names, resolved by the REAL
// Executor.GetTask / FindMatchingTasks (in-process, under recover) and, for a
// sample, by the real CLI binary (exit codes 200/203, what ran, "Did you
// mean").  What was observed goes to cases.v where Coq compares it with the
// model ("agree") and evaluates the C15 monitor on it ("mon").
package resolve

import (
	"bytes"
	"context"
	"encoding/hex"
	"encoding/json"
	"fmt"
	"io"
	"math/rand"
	"os"
	"os/exec"
	"path/filepath"
	"regexp"
	"runtime/debug"
	"sort"
	"strconv"
	"strings"
	"time"

	task "github.com/go-task/task/v3"
	"github.com/go-task/task/v3/errors"
	"github.com/go-task/task/v3/verifharness/common"
)

type Task struct {
	Name    string   `json:"name"`
	Aliases []string `json:"aliases,omitempty"`
}

// Case is one replayable input: a table and the requested name(s).
type Case struct {
	Kind  string   `json:"kind"` // api | cli
	Tasks []Task   `json:"tasks"`
	Reqs  []string `json:"reqs"`
	Split int      `json:"split,omitempty"` // > 0: tasks[split:] (named "i:...") live in an included file, namespace "i"
	Why   string   `json:"why,omitempty"` // which generator produced the request
	// observed (not part of the input; kept for the evidence samples)
	Obs *Observed `json:"observed,omitempty"`
}

type Ran struct {
	Name  string   `json:"name"`
	Match []string `json:"match"`
}

type Observed struct {
	Kind   string   `json:"kind"` // found | ambig | notfound | panic | other   (api)   / cli
	Name   string   `json:"name,omitempty"`
	Match  []string `json:"match,omitempty"`
	Names  []string `json:"names,omitempty"`
	Dym    string   `json:"dym,omitempty"`
	Code   int      `json:"code"`
	Msg    string   `json:"msg,omitempty"`
	Ran    []Ran    `json:"ran,omitempty"`
	Stderr string   `json:"stderr,omitempty"`
}

// ---------------------------------------------------------------- generators

const metaChars = `:.*-()[]+?\$^|`

var plainWords = []string{"build", "test", "deploy", "lint", "clean", "docs", "release", "bench", "format", "serve"}
var trapNames = []string{"x.y", "a+b", "a(b", "a(b)", "[ab]", "a|b", "a$", "^a", `a\`, "a?b", "(?:a)", "a.b.c", "v1.2", "c++", "a[b", "a)b",
	"lib(x)", "what?", "a\\.b", "[a-c]x", "a||b", "x.*", "*.y", "build.*", "(a|b)*", "+a", "a++", "a+?", "*+", "*?", "a$b", "a^b", "[]a]", "[^a]b", "[b-a]", `a\b`}
var patterns = []string{"build-*", "*-test", "a*b", "a*b*", "*:*", "x-*-y", "ab*", "*ab", "a*a", "b*", "*-*", "start-*", "build-*-*", "build-*", "a*", "*.*", "*", "**"}

func randStr(r *rand.Rand, alphabet string, min, max int) string {
	n := min + r.Intn(max-min+1)
	var sb strings.Builder
	for i := 0; i < n; i++ {
		sb.WriteByte(alphabet[r.Intn(len(alphabet))])
	}
	return sb.String()
}

func genName(r *rand.Rand) string {
	switch r.Intn(10) {
	case 0, 1:
		return plainWords[r.Intn(len(plainWords))]
	case 2, 3:
		return patterns[r.Intn(len(patterns))]
	case 4, 5:
		return trapNames[r.Intn(len(trapNames))]
	case 6:
		return randStr(r, "ab", 1, 3)
	case 7:
		return randStr(r, "ab*", 1, 4)
	case 8:
		return randStr(r, "abc"+metaChars, 1, 5)
	default:
		// a plain word with one metacharacter spliced in
		w := plainWords[r.Intn(len(plainWords))]
		i := r.Intn(len(w) + 1)
		return w[:i] + string(metaChars[r.Intn(len(metaChars))]) + w[i:]
	}
}

// genSplit moves the tail of the table into an included file: those tasks get the namespace prefix "i:"
// (names and aliases), and some root task gets a pattern or an alias that reaches into the namespace.
func genSplit(r *rand.Rand, ts []Task) ([]Task, int) {
	if len(ts) < 2 || r.Intn(4) != 0 {
		return ts, 0
	}
	k := 1 + r.Intn(len(ts)-1)
	out := make([]Task, len(ts))
	seen := map[string]bool{}
	for i, t := range ts {
		nt := Task{Name: t.Name}
		if i >= k {
			if strings.HasPrefix(t.Name, ":") {
				return ts, 0 // ":x" escapes the namespace when merged; not generated
			}
			nt.Name = "i:" + t.Name
			for _, a := range t.Aliases {
				if strings.HasPrefix(a, ":") {
					return ts, 0
				}
				nt.Aliases = append(nt.Aliases, "i:"+a)
			}
		} else {
			nt.Aliases = append(nt.Aliases, t.Aliases...)
			switch r.Intn(4) {
			case 0:
				nt.Name = []string{"i:*", "*:*", "i:" + ts[k].Name, "i*"}[r.Intn(4)]
			case 1:
				nt.Aliases = append(nt.Aliases, "i:"+ts[k+r.Intn(len(ts)-k)].Name)
			}
		}
		if seen[nt.Name] || nt.Name == "default" || nt.Name == "i:default" {
			return ts, 0
		}
		seen[nt.Name] = true
		out[i] = nt
	}
	return out, k
}

func genTable(r *rand.Rand) []Task {
	n := 1 + r.Intn(5)
	seen := map[string]bool{}
	var ts []Task
	for len(ts) < n {
		nm := genName(r)
		if nm == "" || seen[nm] {
			continue
		}
		seen[nm] = true
		ts = append(ts, Task{Name: nm})
	}
	// aliases: fresh ones, shared (ambiguous) ones, aliases equal to another task's name or matching a pattern
	pool := []string{"al", "b", "x", "go", "bld", "tst", "a.b", "a-1", "build-x", "k(", "dep1oy"}
	if r.Intn(3) == 0 {
		pool = pool[:3] // few aliases: ambiguity is likely
	}
	for i := range ts {
		k := r.Intn(3)
		for j := 0; j < k; j++ {
			var a string
			switch r.Intn(6) {
			case 0:
				a = ts[r.Intn(len(ts))].Name // collides with a task name
			case 1:
				a = randStr(r, "abc"+metaChars, 1, 3)
			default:
				a = pool[r.Intn(len(pool))]
			}
			if a != "" {
				ts[i].Aliases = append(ts[i].Aliases, a)
			}
		}
	}
	return ts
}

func mutate1(r *rand.Rand, s string, alphabet string) string {
	if s == "" {
		return string(alphabet[r.Intn(len(alphabet))])
	}
	i := r.Intn(len(s))
	switch r.Intn(4) {
	case 0:
		return s[:i] + s[i+1:]
	case 1:
		return s[:i] + string(alphabet[r.Intn(len(alphabet))]) + s[i:]
	case 2:
		return s[:i] + string(alphabet[r.Intn(len(alphabet))]) + s[i+1:]
	default:
		if i+1 < len(s) {
			return s[:i] + string(s[i+1]) + string(s[i]) + s[i+2:]
		}
		return s + string(alphabet[r.Intn(len(alphabet))])
	}
}

// instance of a pattern: every star replaced by a string (sometimes one that contains the following literal,
// so that the greedy/backtracking choice matters; sometimes with a newline)
func instantiate(r *rand.Rand, pat string, nlOK bool) string {
	parts := strings.Split(pat, "*")
	var sb strings.Builder
	for i, p := range parts {
		sb.WriteString(p)
		if i < len(parts)-1 {
			switch r.Intn(7) {
			case 0:
				// empty
			case 1:
				sb.WriteString(parts[i+1] + randStr(r, "ab", 0, 2))
			case 2:
				if nlOK {
					sb.WriteString("a\nb")
				} else {
					sb.WriteString("ab")
				}
			case 3:
				sb.WriteString(randStr(r, "abc"+metaChars, 1, 3))
			default:
				sb.WriteString(randStr(r, "abx-", 1, 3))
			}
		}
	}
	return sb.String()
}

// a string the name matches when read as a regular expression but not literally
func trap(r *rand.Rand, name string) string {
	var sb strings.Builder
	bs := []byte(name)
	for i := 0; i < len(bs); i++ {
		c := bs[i]
		switch c {
		case '.':
			sb.WriteByte("abz"[r.Intn(3)])
		case '+':
			if i > 0 && r.Intn(2) == 0 {
				sb.WriteByte(bs[i-1])
			}
		case '?':
			// optional: keep as is (previous char stays) or drop previous char
			if r.Intn(2) == 0 && sb.Len() > 0 {
				s := sb.String()
				sb.Reset()
				sb.WriteString(s[:len(s)-1])
			}
		case '\\', '(', ')', '^', '$':
			// consumed by the regexp syntax
		case '|':
			if r.Intn(2) == 0 {
				return sb.String() + randStr(r, "ab", 0, 2)
			}
			sb.Reset()
		case '[':
			j := strings.IndexByte(name[i:], ']')
			if j > 1 {
				sb.WriteByte(name[i+1+r.Intn(j-1)])
				i += j
			}
		case '*':
			sb.WriteString(randStr(r, "ab", 0, 2))
		default:
			sb.WriteByte(c)
		}
	}
	return sb.String()
}

func genRequest(r *rand.Rand, ts []Task) (string, string) {
	t := ts[r.Intn(len(ts))]
	switch r.Intn(12) {
	case 0:
		return t.Name, "exact"
	case 1:
		var as []string
		for _, x := range ts {
			as = append(as, x.Aliases...)
		}
		if len(as) > 0 {
			return as[r.Intn(len(as))], "alias"
		}
		return t.Name, "exact"
	case 2:
		// an alias listed by two tasks, when there is one
		cnt := map[string]int{}
		for _, x := range ts {
			for _, a := range x.Aliases {
				cnt[a]++
			}
		}
		for _, x := range ts {
			for _, a := range x.Aliases {
				if cnt[a] > 1 {
					return a, "alias"
				}
			}
		}
		return instantiate(r, t.Name, false), "instance"
	case 3, 4:
		return instantiate(r, t.Name, r.Intn(6) == 0), "instance"
	case 5, 6:
		return mutate1(r, t.Name, "abcdeilstu"), "near-miss"
	case 7, 8, 9:
		return trap(r, t.Name), "trap"
	case 10:
		return randStr(r, "ab", 0, 3), "random"
	default:
		return randStr(r, "abc"+metaChars+"\n", 1, 4), "random"
	}
}

// ---------------------------------------------------------------- running the real code

func yamlStr(s string) string {
	var sb strings.Builder
	sb.WriteByte('"')
	for _, c := range []byte(s) {
		switch {
		case c == '"' || c == '\\':
			sb.WriteByte('\\')
			sb.WriteByte(c)
		case c < 0x20 || c >= 0x7f:
			fmt.Fprintf(&sb, "\\x%02x", c)
		default:
			sb.WriteByte(c)
		}
	}
	sb.WriteByte('"')
	return sb.String()
}

// Taskfile: tasks in table order; task i prints "RAN <i> <hex of each .MATCH element>".
// With split > 0 the tasks from index split on (all named "i:<local>", aliases "i:<local alias>") are written to
// inc.yml, included under the namespace "i" by an includes: section placed BEFORE the root's own tasks: the merged
// table must still list the parent file's tasks first.
func renderTasks(sb *strings.Builder, ts []Task, first int, strip string) {
	sb.WriteString("tasks:\n")
	for i, t := range ts {
		fmt.Fprintf(sb, "  %s:\n", yamlStr(strings.TrimPrefix(t.Name, strip)))
		if len(t.Aliases) > 0 {
			var as []string
			for _, a := range t.Aliases {
				as = append(as, yamlStr(strings.TrimPrefix(a, strip)))
			}
			fmt.Fprintf(sb, "    aliases: [%s]\n", strings.Join(as, ", "))
		}
		fmt.Fprintf(sb, "    cmds:\n      - %s\n", yamlStr(fmt.Sprintf(`echo RAN %d{{range .MATCH}} m{{printf "%%x" .}}{{end}}`, first+i)))
	}
}

func writeProject(dir string, ts []Task, split int) error {
	var root strings.Builder
	root.WriteString("version: '3'\nsilent: true\n")
	if split > 0 && split < len(ts) {
		root.WriteString("includes:\n  i: ./inc.yml\n")
		renderTasks(&root, ts[:split], 0, "")
		var inc strings.Builder
		inc.WriteString("version: '3'\nsilent: true\n")
		renderTasks(&inc, ts[split:], split, "i:")
		if err := os.WriteFile(filepath.Join(dir, "inc.yml"), []byte(inc.String()), 0o644); err != nil {
			return err
		}
	} else {
		renderTasks(&root, ts, 0, "")
	}
	return os.WriteFile(filepath.Join(dir, "Taskfile.yml"), []byte(root.String()), 0o644)
}

type loaded struct {
	dir string
	e   *task.Executor
}

func load(ts []Task, split int) (*loaded, error) {
	dir, err := os.MkdirTemp("", "vh-resolve")
	if err != nil {
		return nil, err
	}
	if err := writeProject(dir, ts, split); err != nil {
		os.RemoveAll(dir)
		return nil, err
	}
	e := task.NewExecutor(task.WithDir(dir), task.WithStdout(io.Discard), task.WithStderr(io.Discard), task.WithSilent(true))
	if err := e.Setup(); err != nil {
		os.RemoveAll(dir)
		return nil, fmt.Errorf("setup: %w", err)
	}
	// glue check: the loaded table is the generated one, in order
	i := 0
	for name, t := range e.Taskfile.Tasks.All(nil) {
		if i >= len(ts) || name != ts[i].Name || t.Task != ts[i].Name || strings.Join(t.Aliases, "\x00") != strings.Join(ts[i].Aliases, "\x00") {
			os.RemoveAll(dir)
			return nil, fmt.Errorf("glue: task %d loaded as %q aliases %q, generated %q %q", i, name, t.Aliases, ts[min(i, len(ts)-1)].Name, ts[min(i, len(ts)-1)].Aliases)
		}
		i++
	}
	if i != len(ts) {
		os.RemoveAll(dir)
		return nil, fmt.Errorf("glue: %d tasks loaded, %d generated", i, len(ts))
	}
	return &loaded{dir: dir, e: e}, nil
}

func (l *loaded) close() { os.RemoveAll(l.dir) }

func matchStrings(v any) []string {
	switch m := v.(type) {
	case nil:
		return nil
	case []string:
		return m
	case []any:
		var out []string
		for _, x := range m {
			out = append(out, fmt.Sprint(x))
		}
		return out
	}
	return []string{fmt.Sprintf("?%T", v)}
}

func resolveAPI(e *task.Executor, req string) (o *Observed) {
	defer func() {
		if p := recover(); p != nil {
			o = &Observed{Kind: "panic", Code: 2, Msg: fmt.Sprint(p) + "\n" + firstLines(string(debug.Stack()), 24)}
		}
	}()
	call := &task.Call{Task: req}
	t, err := e.GetTask(call)
	if err == nil {
		o = &Observed{Kind: "found", Name: t.Task, Code: 0}
		if call.Vars != nil {
			if v, ok := call.Vars.Get("MATCH"); ok {
				o.Match = matchStrings(v.Value)
			}
		}
		// FindMatchingTasks must put the same task first
		ms := e.FindMatchingTasks(&task.Call{Task: req})
		if len(ms) > 0 && (ms[0].Task.Task != t.Task || strings.Join(ms[0].Wildcards, "\x00") != strings.Join(o.Match, "\x00")) {
			o = &Observed{Kind: "other", Msg: fmt.Sprintf("GetTask chose %q %q, FindMatchingTasks[0] is %q %q", t.Task, o.Match, ms[0].Task.Task, ms[0].Wildcards)}
		}
		return o
	}
	code := 1
	if te, ok := err.(errors.TaskError); ok {
		code = te.Code()
	}
	switch x := err.(type) {
	case *errors.TaskNameConflictError:
		return &Observed{Kind: "ambig", Names: x.TaskNames, Code: code, Msg: err.Error()}
	case *errors.TaskNotFoundError:
		return &Observed{Kind: "notfound", Dym: x.DidYouMean, Code: code, Msg: err.Error()}
	}
	return &Observed{Kind: "other", Code: code, Msg: err.Error()}
}

func firstLines(s string, n int) string {
	ls := strings.Split(s, "\n")
	if len(ls) > n {
		ls = ls[:n]
	}
	return strings.Join(ls, "\n")
}

var ranRe = regexp.MustCompile(`^RAN (\d+)((?: m[0-9a-f]*)*)$`)
var dymRe = regexp.MustCompile(`Did you mean "((?:[^"\\]|\\.)*)"\?`)

func resolveCLI(ts []Task, split int, reqs []string) (*Observed, error) {
	bin := os.Getenv("VERIF_TASK_BIN")
	if bin == "" {
		return nil, fmt.Errorf("VERIF_TASK_BIN not set")
	}
	dir, err := os.MkdirTemp("", "vh-resolve-cli")
	if err != nil {
		return nil, err
	}
	defer os.RemoveAll(dir)
	if err := writeProject(dir, ts, split); err != nil {
		return nil, err
	}
	ctx, cancel := context.WithTimeout(context.Background(), 20*time.Second)
	defer cancel()
	// names that would be taken for flags or assignments are never sent here (cliSafe)
	cmd := exec.CommandContext(ctx, bin, reqs...)
	cmd.Dir = dir
	cmd.Cancel = func() error { return cmd.Process.Kill() }
	cmd.Env = append(os.Environ(), "NO_COLOR=1", "TASK_TEMP_DIR="+filepath.Join(dir, ".task"))
	var so, se bytes.Buffer
	cmd.Stdout, cmd.Stderr = &so, &se
	err = cmd.Run()
	if ctx.Err() != nil {
		return nil, fmt.Errorf("inconclusive: CLI deadline")
	}
	o := &Observed{Kind: "cli", Stderr: firstLines(se.String(), 6)}
	if ee, ok := err.(*exec.ExitError); ok {
		o.Code = ee.ExitCode()
	} else if err != nil {
		return nil, err
	}
	for _, ln := range strings.Split(strings.TrimRight(so.String(), "\n"), "\n") {
		if ln == "" {
			continue
		}
		// only the probe lines count as "a task ran"; for an unknown name Run prints the task list help on stdout
		if !strings.HasPrefix(ln, "RAN ") {
			continue
		}
		m := ranRe.FindStringSubmatch(ln)
		if m == nil {
			o.Ran = append(o.Ran, Ran{Name: "?unparsed:" + ln})
			continue
		}
		i, _ := strconv.Atoi(m[1])
		rn := Ran{Name: "?index"}
		if i < len(ts) {
			rn.Name = ts[i].Name
		}
		for _, f := range strings.Fields(m[2]) {
			b, _ := hex.DecodeString(f[1:])
			rn.Match = append(rn.Match, string(b))
		}
		o.Ran = append(o.Ran, rn)
	}
	if m := dymRe.FindStringSubmatch(se.String()); m != nil {
		if s, err := strconv.Unquote(`"` + m[1] + `"`); err == nil {
			o.Dym = s
		} else {
			o.Dym = m[1]
		}
	}
	return o, nil
}

// ---------------------------------------------------------------- Coq rendering

func coqStr(s string) string {
	printable := true
	for _, c := range []byte(s) {
		if c < 32 || c > 126 {
			printable = false
		}
	}
	if printable {
		return `(s "` + strings.ReplaceAll(s, `"`, `""`) + `")`
	}
	var items []string
	for _, c := range []byte(s) {
		items = append(items, strconv.Itoa(int(c)))
	}
	return "(chars [" + strings.Join(items, ";") + "])"
}

func coqStrList(ss []string) string {
	items := make([]string, len(ss))
	for i, x := range ss {
		items[i] = coqStr(x)
	}
	return "[" + strings.Join(items, "; ") + "]"
}

func coqTable(ts []Task) string {
	items := make([]string, len(ts))
	for i, t := range ts {
		items[i] = fmt.Sprintf("mk %s %s", coqStr(t.Name), coqStrList(t.Aliases))
	}
	return "[" + strings.Join(items, "; ") + "]"
}

func coqObs(o *Observed) string {
	switch o.Kind {
	case "found":
		return fmt.Sprintf("(OFound %s %s)", coqStr(o.Name), coqStrList(o.Match))
	case "ambig":
		return fmt.Sprintf("(OAmbig %s)", coqStrList(o.Names))
	case "notfound":
		return fmt.Sprintf("(ONotFound %s)", coqStr(o.Dym))
	case "panic":
		return "OPanic"
	}
	return "OOther"
}

func coqRan(rs []Ran) string {
	items := make([]string, len(rs))
	for i, x := range rs {
		items[i] = fmt.Sprintf("(%s, %s)", coqStr(x.Name), coqStrList(x.Match))
	}
	return "[" + strings.Join(items, "; ") + "]"
}

// ---------------------------------------------------------------- small-scope enumeration

func allStrings(alphabet string, min, max int) []string {
	var out []string
	var rec func(prefix string, n int)
	rec = func(prefix string, n int) {
		if len(prefix) >= min {
			out = append(out, prefix)
		}
		if n == 0 {
			return
		}
		for i := 0; i < len(alphabet); i++ {
			rec(prefix+string(alphabet[i]), n-1)
		}
	}
	rec("", max)
	sort.SliceStable(out, func(i, j int) bool { return len(out[i]) < len(out[j]) })
	return out
}

// all tables of 1 or 2 tasks (ordered, distinct names) over the given names
func allTables(names []string) [][]Task {
	var out [][]Task
	for _, a := range names {
		out = append(out, []Task{{Name: a}})
	}
	for _, a := range names {
		for _, b := range names {
			if a != b {
				out = append(out, []Task{{Name: a}, {Name: b}})
			}
		}
	}
	return out
}

// ---------------------------------------------------------------- main

type tableRun struct {
	tasks []Task
	cases []int // indices into the case list
}

func Main(args []string) {
	o := common.ParseOpts(args)
	mode := o.Extra["mode"]
	if mode == "" {
		mode = "rand"
	}
	obs := common.NewObs("resolve", o.Seed)
	var cases []*Case

	switch {
	case o.Replay != "":
		b, err := os.ReadFile(o.Replay)
		if err != nil {
			panic(err)
		}
		var rp struct {
			Input Case `json:"input"`
		}
		if err := json.Unmarshal(b, &rp); err != nil {
			panic(err)
		}
		c := rp.Input
		c.Obs = nil
		cases = append(cases, &c)
	case mode == "exh":
		// small scope, exhaustive: alphabet {a, *, .}; names of length 1..L, <= 2 tasks; every request of length 0..3
		L := 2
		if o.Tier == "thorough" {
			L = 3
		}
		if v, err := strconv.Atoi(o.Extra["len"]); err == nil {
			L = v
		}
		tables := allTables(allStrings("a*.", 1, L))
		reqs := allStrings("a*.", 0, 3)
		shard, _ := strconv.Atoi(o.Extra["shard"])
		if shard <= 0 {
			shard = len(tables)
		}
		start := int(o.Seed%1000) * shard
		end := min(start+o.N, len(tables))
		for ti := start; ti < end; ti++ {
			for _, rq := range reqs {
				cases = append(cases, &Case{Kind: "api", Tasks: tables[ti], Reqs: []string{rq}, Why: "exhaustive"})
			}
		}
		obs.Notes = append(obs.Notes, fmt.Sprintf("exhaustive: tables %d..%d of %d (names over {a,*,.} of length<=%d, <=2 tasks) x %d requests (length<=3)", start, end, len(tables), L, len(reqs)))
	default:
		r := o.Rand()
		for len(cases) < o.N {
			ts, split := genSplit(r, genTable(r))
			k := 4 + r.Intn(5)
			for j := 0; j < k && len(cases) < o.N; j++ {
				rq, why := genRequest(r, ts)
				c := &Case{Kind: "api", Tasks: ts, Split: split, Reqs: []string{rq}, Why: why}
				// a sample goes through the real CLI binary (names that would be taken for flags, assignments or "--" are skipped)
				if r.Intn(12) == 0 && cliSafe(rq) {
					c.Kind = "cli"
					if r.Intn(3) == 0 {
						rq2, _ := genRequest(r, ts)
						if cliSafe(rq2) {
							c.Reqs = append(c.Reqs, rq2)
						}
					}
				}
				cases = append(cases, c)
			}
		}
	}

	// run: one load per distinct consecutive table
	var apiLines, cliLines []string
	var apiIdx, cliIdx []int
	tblDefs := []string{}
	tblName := map[string]string{}
	seen := map[string]bool{}
	var cur *loaded
	var curKey string
	defer func() {
		if cur != nil {
			cur.close()
		}
	}()
	for i, c := range cases {
		kb, _ := json.Marshal(c.Tasks)
		key := fmt.Sprintf("%d|%s", c.Split, kb)
		tn, ok := tblName[key]
		if !ok {
			tn = fmt.Sprintf("T%d", len(tblDefs))
			tblName[key] = tn
			tblDefs = append(tblDefs, fmt.Sprintf("Definition %s : table := %s.", tn, coqTable(c.Tasks)))
		}
		obs.CaseInputs = append(obs.CaseInputs, c)
		obs.Count("kind:" + c.Kind)
		obs.Count("request:" + c.Why)
		obs.Count(fmt.Sprintf("tasks:%d", len(c.Tasks)))
		if c.Split > 0 {
			obs.Count("table:with-include")
		}
		if c.Kind == "cli" {
			ob, err := resolveCLI(c.Tasks, c.Split, c.Reqs)
			if err != nil {
				kind := "harness"
				if strings.HasPrefix(err.Error(), "inconclusive") {
					kind = "inconclusive"
				}
				obs.ImplFails = append(obs.ImplFails, common.ImplFail{Case: i, Kind: kind, Msg: err.Error()})
				continue
			}
			c.Obs = ob
			obs.Count(fmt.Sprintf("cli-exit:%d", ob.Code))
			if ob.Code == 2 && strings.Contains(ob.Stderr, "panic:") {
				obs.ImplFails = append(obs.ImplFails, common.ImplFail{Case: i, Kind: "panic", Msg: ob.Stderr})
			}
			cliLines = append(cliLines, fmt.Sprintf("CC %s %s %d %s %s", tn, coqStrList(c.Reqs), ob.Code, coqRan(ob.Ran), coqStr(ob.Dym)))
			cliIdx = append(cliIdx, i)
		} else {
			if cur == nil || curKey != key {
				if cur != nil {
					cur.close()
					cur = nil
				}
				l, err := load(c.Tasks, c.Split)
				if err != nil {
					obs.ImplFails = append(obs.ImplFails, common.ImplFail{Case: i, Kind: "harness", Msg: err.Error()})
					curKey = ""
					continue
				}
				cur, curKey = l, key
			}
			ob := resolveAPI(cur.e, c.Reqs[0])
			c.Obs = ob
			obs.Count("outcome:" + ob.Kind)
			if ob.Kind == "panic" {
				obs.ImplFails = append(obs.ImplFails, common.ImplFail{Case: i, Kind: "panic", Msg: ob.Msg})
			}
			if ob.Kind == "other" {
				obs.ImplFails = append(obs.ImplFails, common.ImplFail{Case: i, Kind: "unexpected-error", Msg: ob.Msg})
			}
			apiLines = append(apiLines, fmt.Sprintf("RC %s %s %s", tn, coqStr(c.Reqs[0]), coqObs(ob)))
			apiIdx = append(apiIdx, i)
		}
		sk, _ := json.Marshal([]any{c.Kind, c.Tasks, c.Reqs, c.Obs})
		nontrivial := c.Obs != nil && (c.Obs.Kind != "notfound" || c.Obs.Dym != "")
		if c.Kind == "cli" {
			nontrivial = true
		}
		if nontrivial && !seen[string(sk)] {
			seen[string(sk)] = true
			obs.Distinct++
		}
		if len(obs.Samples) < 4 && c.Obs != nil && (c.Obs.Kind == "found" && len(c.Obs.Match) > 0 || c.Obs.Kind == "ambig" || c.Kind == "cli") {
			obs.Samples = append(obs.Samples, c)
		}
	}
	obs.Cases = len(cases)

	var sb strings.Builder
	sb.WriteString("From Coq Require Import List Ascii String NArith.\nImport ListNotations.\nFrom TV Require Import Resolve.Model Run.ResolveCases.\nLocal Open Scope string_scope.\n")
	sb.WriteString(strings.Join(tblDefs, "\n"))
	sb.WriteString("\nDefinition api_cases : list rcase := [\n  " + strings.Join(apiLines, ";\n  ") + "].\n")
	sb.WriteString("Definition cli_cases : list ccase := [\n  " + strings.Join(cliLines, ";\n  ") + "].\n")
	sb.WriteString("Open Scope N_scope.\n") // the failure indices are binary numbers
	results := []string{}
	emit := func(name, checker, list string) {
		fmt.Fprintf(&sb, "Definition %s := Eval vm_compute in failures %s %s.\nPrint %s.\n", name, checker, list, name)
		results = append(results, name)
	}
	emit("R_agree", "rc_agree", "api_cases")
	emit("R_mon_choice_other", "rc_mon_choice_other", "api_cases")
	emit("R_mon_choice_meta", "rc_mon_choice_meta", "api_cases")
	emit("R_mon_choice_nl", "rc_mon_choice_nl", "api_cases")
	emit("R_mon_nopanic_other", "rc_mon_nopanic_other", "api_cases")
	emit("R_mon_nopanic_meta", "rc_mon_nopanic_meta", "api_cases")
	emit("R_mon_suggest_missing", "rc_mon_suggest_missing", "api_cases")
	emit("R_mon_suggest_bogus", "rc_mon_suggest_bogus", "api_cases")
	emit("R_cli_agree", "cc_agree", "cli_cases")
	emit("R_cli_mon_other", "cc_mon_other", "cli_cases")
	emit("R_cli_mon_meta", "cc_mon_meta", "cli_cases")
	emit("R_cli_mon_nl", "cc_mon_nl", "cli_cases")
	emit("R_cli_suggest_missing", "cc_mon_suggest_missing", "cli_cases")
	emit("R_cli_suggest_bogus", "cc_mon_suggest_bogus", "cli_cases")
	sb.WriteString("Definition N_unmodelled := Eval vm_compute in List.length (filter rc_unmodelled api_cases).\nPrint N_unmodelled.\n")
	common.WriteFile(o.Out, "cases.v", sb.String())
	idx := map[string][]int{}
	for _, rn := range results {
		if strings.HasPrefix(rn, "R_cli") {
			idx[rn] = cliIdx
		} else {
			idx[rn] = apiIdx
		}
	}
	b, _ := json.Marshal(idx)
	common.WriteFile(o.Out, "index.json", string(b))
	obs.Write(o.Out)
}

// a requested name the CLI would not take for a flag, a variable assignment, or nothing at all
func cliSafe(s string) bool {
	return s != "" && !strings.HasPrefix(s, "-") && !strings.Contains(s, "=") && !strings.Contains(s, "\x00")
}
