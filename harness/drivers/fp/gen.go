package fp

import (
	"fmt"
	"math/rand"
)

// Case is one replayable input plus (after execution) what was observed.
type Case struct {
	Prop       string     `json:"prop"`
	Shape      string     `json:"shape"`
	Origin     string     `json:"origin"` // exhaustive | probe | random | replay
	Proj       []Task     `json:"proj"`
	Init       []FileInit `json:"init"`
	Dirs       []string   `json:"dirs"`
	Ops        []Op       `json:"ops"`
	Times      []int64    `json:"times"`
	Drop       int        `json:"drop"`                  // index of the read-only invocation removed in the H;K run (-1: none)
	FileSilent bool       `json:"file_silent,omitempty"` // Taskfile-level `silent: true`

	// observations (not needed for replay; used by the signature functions)
	History []string          `json:"history,omitempty"`
	Results []string          `json:"results,omitempty"`
	Diag    map[string]string `json:"diag,omitempty"`
	Commute string            `json:"commute,omitempty"`
}

var srcGlobs = []Glob{{false, "src/**/*.txt"}, {true, "src/ex/*.txt"}, {false, "src/ex/keep.txt"}}

func baseInit() []FileInit {
	return []FileInit{
		{"src/a.txt", "A0", 1}, {"src/sub/s.txt", "S0", 2}, {"src/ex/e.txt", "E0", 3}, {"src/ex/keep.txt", "K0", 4},
	}
}

var baseDirs = []string{"src", "src/sub", "src/ex"}

type shape struct {
	name       string
	proj       []Task
	init       []FileInit
	fileSilent bool
}

func mkShape(kind, method string) shape {
	t := Task{Name: "build", Method: method, Sources: srcGlobs, NCmds: 2}
	init := baseInit()
	switch kind {
	case "plain":
	case "gen":
		t.Generates = []Glob{{false, "out.txt"}}
		t.Outputs = []string{"out.txt"}
	case "prompt":
		t.Prompt = true
	case "status":
		t.Generates = []Glob{{false, "out.txt"}}
		t.Outputs = []string{"out.txt"}
		// two status entries; the operations remove / restore the FIRST one: every entry must hold
		t.Status = []string{"flag.ok", "flag2.ok"}
		init = append(init, FileInit{"flag.ok", "ok", 5}, FileInit{"flag2.ok", "ok", 6})
	case "dir":
		t.Dir = "newdir"
		t.NCmds = 1
	case "label":
		t.Label = "my build:1"
	case "gen2":
		// two generates entries: removing only one of them must trigger a run
		t.Generates = []Glob{{false, "out.txt"}, {false, "out2.txt"}}
		t.Outputs = []string{"out.txt", "out2.txt"}
	case "deps":
		// a dep regenerates the source src/g.txt from spec.txt (not a source) before the check
		t.DepSpec, t.DepDst = "spec.txt", "src/g.txt"
		init = append(init, FileInit{"spec.txt", "S1", 5})
	case "subcall":
		// the first command calls a child whose precondition is `test -f guard.flag` (not a source)
		t.SubGuard = "guard.flag"
		init = append(init, FileInit{"guard.flag", "g", 5})
	case "silent-task":
		t.Silent = true
	case "silent-cmd":
		t.CmdSilent = true
	case "silent-file":
		return shape{kind + "/" + method, []Task{t}, init, true}
	case "inst":
		// one definition `deploy` with `label: 'deploy-{{.ENV}}'`, two instances (ENV=staging / ENV=prod)
		t.Name, t.Def = "deploy", "deploy"
		u := t
		t.Env, t.Label = "staging", "deploy-staging"
		u.Env, u.Label = "prod", "deploy-prod"
		return shape{kind + "/" + method, []Task{t, u}, init, false}
	case "collide":
		u := t
		t.Name = "gen.x"
		u.Name = "gen-x"
		return shape{kind + "/" + method, []Task{t, u}, init, false}
	}
	return shape{kind + "/" + method, []Task{t}, init, false}
}

// an abstract op of an alphabet; instantiated with the position in the history (fresh contents)
type aop func(i int, sh shape) Op

func inv(mode, out string, k int) aop {
	return func(i int, sh shape) Op { return Op{Kind: "invoke", Mode: mode, Out: out, K: k} }
}
func invLast(mode, out string) aop {
	return func(i int, sh shape) Op { return Op{Kind: "invoke", Mode: mode, Out: out, K: sh.proj[0].NCmds - 1} }
}

var (
	aEdit          aop = func(i int, sh shape) Op { return Op{Kind: "write", P: "src/a.txt", C: fmt.Sprintf("c%d", i)} }
	aAdd           aop = func(i int, sh shape) Op { return Op{Kind: "write", P: fmt.Sprintf("src/n%d.txt", i), C: "new"} }
	aRemove        aop = func(i int, sh shape) Op { return Op{Kind: "remove", P: "src/a.txt"} }
	aMvCross       aop = func(i int, sh shape) Op { return Op{Kind: "rename", P: "src/a.txt", Q: "src/sub/a.txt"} }
	aMvWithin      aop = func(i int, sh shape) Op { return Op{Kind: "rename", P: "src/a.txt", Q: "src/z.txt"} }
	aTouch         aop = func(i int, sh shape) Op { return Op{Kind: "touch", P: "src/a.txt"} }
	aEditExcl      aop = func(i int, sh shape) Op { return Op{Kind: "write", P: "src/ex/e.txt", C: fmt.Sprintf("x%d", i)} }
	aEditKeep      aop = func(i int, sh shape) Op { return Op{Kind: "write", P: "src/ex/keep.txt", C: fmt.Sprintf("k%d", i)} }
	aRmGen         aop = func(i int, sh shape) Op { return Op{Kind: "remove", P: "out.txt"} }
	aFlagOff       aop = func(i int, sh shape) Op { return Op{Kind: "remove", P: "flag.ok"} }
	aFlagOn        aop = func(i int, sh shape) Op { return Op{Kind: "write", P: "flag.ok", C: "ok"} }
	aBackdate      aop = func(i int, sh shape) Op { return Op{Kind: "setmtime", P: "src/a.txt", T: 0} }
	aRmGen2        aop = func(i int, sh shape) Op { return Op{Kind: "remove", P: "out2.txt"} }
	aRun1          aop = func(i int, sh shape) Op { return Op{Kind: "invoke", Mode: "run", Tid: 1, Out: "ok"} }
	aChain         aop = func(i int, sh shape) Op { return Op{Kind: "invoke", Mode: "chain", Out: "ok", Tids: []int{0, 1}} }
	aDrySil        aop = func(i int, sh shape) Op { return Op{Kind: "invoke", Mode: "dry", Out: "ok", Silent: true} }
	aRunSil        aop = func(i int, sh shape) Op { return Op{Kind: "invoke", Mode: "run", Out: "ok", Silent: true} }
	aForceFailL        = invLast("force", "fail")
	aForceKill0        = inv("force", "kill", 0)
	aForceKill1        = inv("force", "kill", 1)
	aForceDeclined     = inv("force", "promptno", 0)

	aEditSpec aop = func(i int, sh shape) Op { return Op{Kind: "write", P: "spec.txt", C: fmt.Sprintf("s%d", i)} }
	aGuardOff aop = func(i int, sh shape) Op { return Op{Kind: "remove", P: "guard.flag"} }
	aGuardOn  aop = func(i int, sh shape) Op { return Op{Kind: "write", P: "guard.flag", C: "g"} }

	aRunOk     = inv("run", "ok", 0)
	aRunFail0  = inv("run", "fail", 0)
	aRunFailL  = invLast("run", "fail")
	aKill0     = inv("run", "kill", 0)
	aKill1     = inv("run", "kill", 1)
	aDeclined  = inv("run", "promptno", 0)
	aForceOk   = inv("force", "ok", 0)
	aForceFail = inv("force", "fail", 0)
	aDry       = inv("dry", "ok", 0)
	aStatus    = inv("status", "ok", 0)
	aListJSON  = inv("listjson", "ok", 0)
	aList      = inv("list", "ok", 0)
	aSummary   = inv("summary", "ok", 0)
)

func alphabet(prop, kind string) []aop {
	switch prop {
	case "C04":
		al := []aop{aEdit, aRunOk, aRunFail0, aRunFailL, aKill0, aKill1, aForceFail, aListJSON, aDry}
		if kind == "prompt" {
			al[6] = aDeclined
		}
		if kind == "gen" || kind == "status" {
			al[8] = aRmGen
		}
		if kind == "plain" {
			// the exhaustively enumerated shape: kill@1 and fail@0 are covered by the other shapes and the directed histories
			al = []aop{aEdit, aRunOk, aRunFailL, aKill0, aForceFail, aListJSON, aDry}
		}
		if kind == "subcall" {
			return []aop{aEdit, aRunOk, aForceOk, aDry, aGuardOff, aGuardOn}
		}
		if kind == "deps" {
			return []aop{aEdit, aEditSpec, aRunOk, aRunFailL, aKill1, aForceOk, aDry}
		}
		if kind == "inst" {
			// two instances of one definition: runs of either, a parent calling both, edits
			return []aop{aEdit, aRunOk, aRun1, aChain, aRunFail0, aForceFail}
		}
		return al
	case "C05":
		al := []aop{aEdit, aAdd, aRemove, aMvCross, aMvWithin, aTouch, aEditExcl, aEditKeep, aRunOk, aForceOk}
		switch kind {
		case "gen":
			al = append(al, aRmGen)
		case "gen2":
			return []aop{aEdit, aRemove, aTouch, aRunOk, aForceOk, aRmGen, aRmGen2}
		case "subcall":
			return []aop{aEdit, aRunOk, aForceOk, aGuardOff, aGuardOn}
		case "deps":
			return []aop{aEdit, aEditSpec, aTouch, aRunOk, aForceOk}
		case "status":
			al = append(al, aRmGen, aFlagOff, aFlagOn)
		case "plain":
			al = append(al, aBackdate)
		}
		return al
	default: // C12
		switch kind {
		case "subcall":
			// a followed sub-call can fail in dry mode (callee precondition): still nothing may change
			return []aop{aEdit, aRunOk, aDry, aStatus, aGuardOff, aGuardOn}
		case "silent-task", "silent-cmd", "silent-file":
			// nothing is echoed: --dry must still not execute anything
			return []aop{aEdit, aRunOk, aRunFailL, aDry, aDrySil, aStatus}
		}
		if kind == "plain" {
			// the exhaustively enumerated shape: --summary is covered by the other shapes
			return []aop{aEdit, aRunOk, aRunFailL, aDry, aStatus, aListJSON, aList}
		}
		return []aop{aEdit, aRunOk, aRunFailL, aDry, aStatus, aListJSON, aList, aSummary}
	}
}

func timesFor(n int) []int64 {
	ts := make([]int64, n)
	for i := range ts {
		ts[i] = int64(10 + 2*i)
	}
	return ts
}

func mkCase(prop, origin string, sh shape, ops []Op) *Case {
	return &Case{Prop: prop, Shape: sh.name, Origin: origin, Proj: sh.proj, Init: sh.init, Dirs: baseDirs,
		Ops: ops, Times: timesFor(len(ops)), Drop: -1, FileSilent: sh.fileSilent}
}

// all histories over the alphabet with 1..maxLen operations (optionally followed by a probing normal run)
func enumerate(prop string, sh shape, kind string, maxLen int, probe bool, emit func(*Case)) {
	al := alphabet(prop, kind)
	var rec func(prefix []int)
	rec = func(prefix []int) {
		if len(prefix) > 0 || probe {
			ops := make([]Op, 0, len(prefix)+1)
			for i, a := range prefix {
				ops = append(ops, al[a](i, sh))
			}
			origin := "exhaustive"
			if probe {
				ops = append(ops, aRunOk(len(prefix), sh))
				origin = "probe"
			}
			emit(mkCase(prop, origin, sh, ops))
		}
		if len(prefix) == maxLen {
			return
		}
		for a := range al {
			rec(append(append([]int{}, prefix...), a))
		}
	}
	rec(nil)
}

type plan struct {
	kind   string
	maxLen int
	probe  bool
}

func plans(prop, tier string) []plan {
	full := 3
	part := 2
	if tier == "thorough" {
		full, part = 4, 3
	}
	switch prop {
	case "C04":
		return []plan{{"plain", full, false}, {"prompt", part, true}, {"gen", part, true}, {"collide", 1, true}, {"label", 1, true}, {"inst", part, true}, {"subcall", part, true}, {"deps", part, true}}
	case "C05":
		return []plan{{"gen", full, false}, {"plain", part, true}, {"status", part, true}, {"gen2", part, true}, {"deps", part, true}}
	default:
		return []plan{{"plain", full, false}, {"dir", part, true}, {"gen", part, true},
			{"silent-task", part, true}, {"silent-cmd", part - 1, true}, {"silent-file", part - 1, true}, {"subcall", part, true}}
	}
}

// Exhaustive returns the slice `shard` (of `shards`) of the small-scope enumeration.
func Exhaustive(prop, tier string, shard, shards int) []*Case {
	var out []*Case
	i := 0
	for _, pl := range plans(prop, tier) {
		for _, m := range []string{"checksum", "timestamp"} {
			sh := mkShape(pl.kind, m)
			enumerate(prop, sh, pl.kind, pl.maxLen, pl.probe, func(c *Case) {
				if i%shards == shard {
					out = append(out, c)
				}
				i++
			})
		}
	}
	if prop == "C04" || prop == "C05" {
		// the two collisions of the basename++content stream (directed; 7.8):
		// a rename across directories keeping the base name, and bytes moved
		// between a file's content and the next file's name
		sh := mkShape("plain", "checksum")
		dir := [][]Op{
			{aRunOk(0, sh), aMvCross(1, sh), aRunOk(2, sh)},
			{{Kind: "write", P: "src/b.txt", C: "B"}, aRunOk(1, sh), {Kind: "remove", P: "src/b.txt"},
				{Kind: "write", P: "src/a.txt", C: "A0b.txtB"}, aRunOk(4, sh)},
		}
		for _, ops := range dir {
			if i%shards == shard {
				out = append(out, mkCase(prop, "directed", sh, ops))
			}
			i++
		}
	}
	emit := func(origin string, sh shape, ops []Op) {
		if i%shards == shard {
			out = append(out, mkCase(prop, origin, sh, ops))
		}
		i++
	}
	for _, m := range []string{"checksum", "timestamp"} {
		switch prop {
		case "C04":
			// an earlier success followed by an unsuccessful attempt of every kind, normal and forced
			for _, kind := range []string{"plain", "gen", "prompt", "gen2"} {
				sh := mkShape(kind, m)
				bad := []aop{aRunFail0, aRunFailL, aKill0, aKill1, aForceFail, aForceFailL, aForceKill0, aForceKill1}
				if kind == "prompt" {
					bad = append(bad, aDeclined, aForceDeclined)
				}
				for _, x := range bad {
					emit("directed", sh, []Op{aRunOk(0, sh), x(1, sh), aRunOk(2, sh)})
				}
			}
			fallthrough
		case "C05":
			// several generates entries, some or all of them removed
			sh := mkShape("gen2", m)
			emit("directed", sh, []Op{aRunOk(0, sh), aRmGen(1, sh), aRunOk(2, sh)})
			emit("directed", sh, []Op{aRunOk(0, sh), aRmGen2(1, sh), aRunOk(2, sh)})
			emit("directed", sh, []Op{aRunOk(0, sh), aRmGen(1, sh), aRmGen2(2, sh), aRunOk(3, sh)})
			// deps: steady state, then the dep's input changes: the task must run at the new fingerprint
			sh = mkShape("deps", m)
			emit("directed", sh, []Op{aRunOk(0, sh), aRunOk(1, sh), aEditSpec(2, sh), aRunOk(3, sh), aRunOk(4, sh)})
			emit("directed", sh, []Op{aRunOk(0, sh), aEditSpec(1, sh), aRunFailL(2, sh), aRunOk(3, sh), aEditSpec(4, sh), aDry(5, sh), aRunOk(6, sh)})
			// a failing sub-call in a normal / forced run is a failing command: the record must go
			sh = mkShape("subcall", m)
			emit("directed", sh, []Op{aRunOk(0, sh), aEdit(1, sh), aGuardOff(2, sh), aRunOk(3, sh), aGuardOn(4, sh), aRunOk(5, sh), aRunOk(6, sh)})
			emit("directed", sh, []Op{aRunOk(0, sh), aGuardOff(1, sh), aForceOk(2, sh), aGuardOn(3, sh), aRunOk(4, sh), aRunOk(5, sh)})
			emit("directed", sh, []Op{aRunOk(0, sh), aGuardOff(1, sh), aRunOk(2, sh), aDry(3, sh), aGuardOn(4, sh), aRunOk(5, sh)})
			// instances of one definition with a templated label
			sh = mkShape("inst", m)
			emit("directed", sh, []Op{aRunOk(0, sh), aRun1(1, sh), aRunOk(2, sh), aRun1(3, sh)})
			emit("directed", sh, []Op{aChain(0, sh), aChain(1, sh), aEdit(2, sh), aRun1(3, sh), aChain(4, sh)})
		case "C12":
			// nothing echoed (--silent): --dry must still execute nothing
			sh := mkShape("plain", m)
			emit("directed", sh, []Op{aDrySil(0, sh)})
			emit("directed", sh, []Op{aRunOk(0, sh), aEdit(1, sh), aDrySil(2, sh), aRunOk(3, sh)})
			emit("directed", sh, []Op{aRunSil(0, sh), aDrySil(1, sh), aRunSil(2, sh)})
			sh = mkShape("gen", m)
			emit("directed", sh, []Op{aDrySil(0, sh), aRunOk(1, sh)})
			// --dry following a sub-call whose callee's precondition fails, with a record to lose
			sh = mkShape("subcall", m)
			emit("directed", sh, []Op{aRunOk(0, sh), aEdit(1, sh), aGuardOff(2, sh), aDry(3, sh), aGuardOn(4, sh), aRunOk(5, sh)})
			emit("directed", sh, []Op{aRunOk(0, sh), aGuardOff(1, sh), aEdit(2, sh), aDry(3, sh), aStatus(4, sh), aRunOk(5, sh)})
			emit("directed", sh, []Op{aRunOk(0, sh), aGuardOff(1, sh), aDry(2, sh), aRunOk(3, sh)})
		}
	}
	return out
}

// Random draws a longer history over the union of the alphabets of a random shape.
func Random(prop string, r *rand.Rand) *Case {
	kinds := []string{"plain", "gen", "prompt", "status", "dir", "collide", "label", "gen2", "inst", "subcall", "deps"}
	if prop == "C12" {
		kinds = []string{"plain", "gen", "dir", "status", "collide", "silent-task", "silent-cmd", "silent-file", "subcall"}
	}
	kind := kinds[r.Intn(len(kinds))]
	m := []string{"checksum", "timestamp"}[r.Intn(2)]
	sh := mkShape(kind, m)
	al := alphabet(prop, kind)
	// mix in the other properties' operations now and then
	extra := []aop{aEdit, aAdd, aRemove, aTouch, aMvCross, aRunOk, aRunFailL, aKill1, aForceOk, aForceFail, aDry, aStatus, aListJSON, aList, aSummary, aRmGen, aFlagOff, aFlagOn, aDeclined}
	n := 5 + r.Intn(4)
	ops := make([]Op, 0, n)
	for i := 0; i < n; i++ {
		var o Op
		if r.Intn(4) == 0 {
			o = extra[r.Intn(len(extra))](i, sh)
		} else {
			o = al[r.Intn(len(al))](i, sh)
		}
		if o.Kind == "invoke" && o.Mode != "chain" {
			o.Tid = r.Intn(len(sh.proj))
			if o.Out == "fail" || o.Out == "kill" {
				o.K = r.Intn(sh.proj[o.Tid].NCmds + 1)
			}
		}
		ops = append(ops, o)
	}
	ops = append(ops, aRunOk(n, sh))
	return mkCase(prop, "random", sh, ops)
}
