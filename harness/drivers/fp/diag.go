package fp

// Labelling of monitor failures for the signature functions of lib/props_fp.py.
// This is NOT the oracle (the Coq monitors in Fp/Model.v are, evaluated by
// cases.v); it only names the first thing that looks wrong in a case so that
// each known defect gets its own narrow signature.  If the label is wrong or
// empty the failure is reported under an unknown signature, i.e. as a VIOLATION.

import (
	"fmt"
	"path"
	"sort"
	"strings"
)

func segMatch(pat, s string) bool {
	if pat == "" {
		return s == ""
	}
	if pat[0] == '*' {
		for i := 0; i <= len(s); i++ {
			if segMatch(pat[1:], s[i:]) {
				return true
			}
		}
		return false
	}
	return s != "" && pat[0] == s[0] && segMatch(pat[1:], s[1:])
}

func segsMatch(pats, segs []string) bool {
	if len(pats) == 0 {
		return len(segs) == 0
	}
	if pats[0] == "**" {
		for i := 0; i <= len(segs); i++ {
			if segsMatch(pats[1:], segs[i:]) {
				return true
			}
		}
		return false
	}
	return len(segs) > 0 && segMatch(pats[0], segs[0]) && segsMatch(pats[1:], segs[1:])
}

func gmatch(pat, p string) bool { return segsMatch(strings.Split(pat, "/"), strings.Split(p, "/")) }

func globs(files []FileEnt, gs []Glob) []string {
	m := map[string]bool{}
	for _, g := range gs {
		for _, f := range files {
			if gmatch(g.Pat, f.Path) {
				m[f.Path] = !g.Neg
			}
		}
	}
	var out []string
	for k, v := range m {
		if v {
			out = append(out, k)
		}
	}
	sort.Strings(out)
	return out
}

type fpEnt struct {
	Path, Content string
	Mtime         int64
}

func fingerprint(t Task, files []FileEnt) []fpEnt {
	byPath := map[string]FileEnt{}
	for _, f := range files {
		byPath[f.Path] = f
	}
	var out []fpEnt
	for _, p := range globs(files, t.Sources) {
		f := byPath[p]
		if t.Method == "timestamp" {
			out = append(out, fpEnt{p, "", f.Mtime})
		} else {
			out = append(out, fpEnt{p, f.Content, 0})
		}
	}
	return out
}

func fpKey(fp []fpEnt) string {
	var sb strings.Builder
	for _, e := range fp {
		fmt.Fprintf(&sb, "%q|%q|%d;", e.Path, e.Content, e.Mtime)
	}
	return sb.String()
}

func streamOf(fp []fpEnt) string {
	var sb strings.Builder
	for _, e := range fp {
		sb.WriteString(path.Base(e.Path))
		sb.WriteString(e.Content)
	}
	return sb.String()
}

func gensExist(t Task, files []FileEnt) bool {
	for _, g := range t.Generates {
		if g.Neg {
			continue
		}
		hit := false
		for _, f := range files {
			if gmatch(g.Pat, f.Path) {
				hit = true
				break
			}
		}
		if !hit {
			return false
		}
	}
	return true
}

func statusOK(t Task, files []FileEnt) bool {
	for _, s := range t.Status {
		hit := false
		for _, f := range files {
			if f.Path == s {
				hit = true
			}
		}
		if !hit {
			return false
		}
	}
	return true
}

type attempt struct {
	fp   []fpEnt
	key  string
	ok   bool
	res  string
	mode string
	at   int64
}

func maxMtime(fp []fpEnt) int64 {
	m := int64(-1)
	for _, e := range fp {
		if e.Mtime > m {
			m = e.Mtime
		}
	}
	return m
}

// why a change of fingerprint from a (at the last successful attempt, made at
// logical time `at`) to b could go unnoticed by the current checkers
func changeClass(t Task, a, b []fpEnt, at int64) string {
	if t.Method == "timestamp" {
		for _, e := range b {
			if e.Mtime > at {
				return "newer-mtime"
			}
		}
		return "no-newer-mtime" // removal, mtime-preserving rename, back-dated mtime: nothing is newer than the marker
	}
	if streamOf(a) == streamOf(b) {
		return "stream-collision"
	}
	return "other"
}

// method timestamp after an unsuccessful attempt: is the marker still there (the attempt's record
// was not dropped), or is the task judged by its generates files alone (make-like comparison)
func markerKept(t Task, before Snapshot) string {
	if t.Method != "timestamp" {
		return ""
	}
	for _, e := range before.Tss {
		if e.K == normName(t.defName()) {
			return ":marker-kept"
		}
	}
	return ""
}

// label of a skip that follows an unsuccessful attempt (failed, declined, killed).  Method timestamp
// with the marker gone is one class whatever the outcome was: the task is judged by its generates
// files alone (the recorded make-like residual, signature skip-after-failed:timestamp).
func afterUnsuccessful(res string, t Task, before Snapshot) string {
	if t.Method == "timestamp" && markerKept(t, before) == "" {
		return "skip-after-failed:timestamp"
	}
	return "skip-after-" + res + ":" + t.Method + markerKept(t, before)
}

// what the task's dep does to the tree before the check of a normal / forced run
func depsFiles(t Task, o Op, at int64, files []FileEnt) []FileEnt {
	if t.DepSpec == "" || (o.Mode != "run" && o.Mode != "force") {
		return files
	}
	content, ok := "", false
	for _, f := range files {
		if f.Path == t.DepSpec {
			content, ok = f.Content, true
		}
	}
	if !ok {
		return files
	}
	out := []FileEnt{}
	for _, f := range files {
		if f.Path != t.DepDst {
			out = append(out, f)
		}
	}
	out = append(out, FileEnt{t.DepDst, content, at + 1})
	sort.Slice(out, func(i, j int) bool { return out[i].Path < out[j].Path })
	return out
}

func isAttempt(o Op, res string) bool {
	if o.Mode != "run" && o.Mode != "force" {
		return false
	}
	switch res {
	case "ok", "failed", "declined", "killed":
		return true
	}
	return false
}

func keysCollide(proj []Task, tid int) bool {
	norm := func(s string) string {
		b := []byte(s)
		for i, c := range b {
			if !((c >= 'A' && c <= 'z') || (c >= '0' && c <= '9')) {
				b[i] = '-'
			}
		}
		return string(b)
	}
	key := func(t Task) string {
		if t.Method == "timestamp" {
			return "ts/" + norm(t.Name)
		}
		if t.Label != "" {
			return "cs/" + norm(t.Label)
		}
		return "cs/" + norm(t.Name)
	}
	for i, t := range proj {
		if i != tid && key(t) == key(proj[tid]) {
			return true
		}
	}
	return false
}

// Diagnose returns the label of the first suspicious step for each property.
func Diagnose(proj []Task, init Snapshot, steps []Step) map[string]string {
	out := map[string]string{}
	set := func(k, v string) {
		if _, ok := out[k]; !ok {
			out[k] = v
		}
	}
	before := init
	attempts := map[int][]attempt{}
	lastByFp := map[int]map[string]attempt{}
	sawListJSON := false
	listSince := map[int]bool{} // a --list --json happened since the task's last attempt
	for _, st := range steps {
		o := st.Op
		if o.Kind == "invoke" && o.Tid >= 0 && o.Tid < len(proj) {
			t := proj[o.Tid]
			// the present fingerprint is the one of the tree the deps leave
			files := depsFiles(t, o, st.At, before.Files)
			fp := fingerprint(t, files)
			key := fpKey(fp)
			gens := gensExist(t, files)
			stat := statusOK(t, files)
			att := attempts[o.Tid]
			// ---- C04 ----
			if st.Res == "skipped" {
				a, has := lastByFp[o.Tid][key]
				justified := has && a.ok && gens
				switch {
				case justified:
				case keysCollide(proj, o.Tid):
					// another task shares this task's state file: whatever looks wrong here is that
					set("c04", "shared-state-file:key-collision")
				case listSince[o.Tid] || (sawListJSON && len(att) == 0):
					// --list --json ran its (non-dry) check after the last attempt of this task
					set("c04", "skip-after-listjson:"+t.Method)
				case has && !a.ok:
					set("c04", afterUnsuccessful(a.res, t, before))
				case has && a.ok && !gens:
					set("c04", "skip-generates-missing:"+t.Method)
				case len(att) == 0:
					set("c04", "skip-never-ran:"+t.Method)
				default:
					last := att[len(att)-1]
					if last.ok {
						set("c04", "skip-undetected-change:"+t.Method+":"+changeClass(t, last.fp, fp, last.at))
					} else {
						// the task's most recent attempt (at another fingerprint) did not succeed and
						// it is skipped all the same: the state that attempt left behind
						set("c04", afterUnsuccessful(last.res, t, before))
					}
				}
			}
			// ---- C05 ----
			if o.Mode == "force" && st.Res == "skipped" {
				set("c05", "force-skipped")
			}
			if o.Mode == "run" && len(att) > 0 && att[len(att)-1].ok {
				last := att[len(att)-1]
				expect := last.key == key && gens && (len(t.Status) == 0 || stat)
				ran := st.Res == "ok" || st.Res == "failed" || st.Res == "declined" || st.Res == "killed"
				switch {
				case (expect && ran || !expect && st.Res == "skipped") && keysCollide(proj, o.Tid):
					set("c05", "shared-state-file:key-collision")
				case expect && ran:
					l := "rerun-without-change:" + t.Method
					if last.mode == "force" {
						l += ":after-force"
					}
					set("c05", l)
				case !expect && st.Res == "skipped":
					switch {
					case listSince[o.Tid]:
						// --list --json recorded the changed fingerprint in between
						set("c05", "skip-after-listjson:"+t.Method)
					case last.key != key:
						set("c05", "undetected-change:"+t.Method+":"+changeClass(t, last.fp, fp, last.at))
					case !gens:
						set("c05", "generates-missing-undetected:"+t.Method)
					default:
						set("c05", "status-failure-undetected:"+t.Method)
					}
				}
			}
			if isAttempt(o, st.Res) {
				a := attempt{fp: fp, key: key, ok: st.Res == "ok", res: st.Res, mode: o.Mode, at: st.At}
				attempts[o.Tid] = append(attempts[o.Tid], a)
				if lastByFp[o.Tid] == nil {
					lastByFp[o.Tid] = map[string]attempt{}
				}
				lastByFp[o.Tid][key] = a
				listSince[o.Tid] = false
			}
		}
		// ---- C12 ----
		if o.Kind == "invoke" {
			switch o.Mode {
			case "dry", "status", "listjson", "list", "summary":
				if d := snapDiff(before, st.Snap); d != "" {
					set("c12", o.Mode+":"+d)
				}
			}
			if o.Mode == "listjson" && strings.Contains(snapDiff(before, st.Snap), "fingerprint-state") {
				// --list --json wrote fingerprint state
				sawListJSON = true
				for i := range proj {
					listSince[i] = true
				}
			}
		}
		before = st.Snap
	}
	return out
}

func snapDiff(a, b Snapshot) string {
	var kinds []string
	if fmt.Sprint(a.Cks) != fmt.Sprint(b.Cks) {
		kinds = append(kinds, "fingerprint-state")
	}
	if fmt.Sprint(a.Tss) != fmt.Sprint(b.Tss) || fmt.Sprint(a.Tsx) != fmt.Sprint(b.Tsx) {
		if len(kinds) == 0 {
			kinds = append(kinds, "fingerprint-state")
		}
	}
	if fmt.Sprint(a.Dirs) != fmt.Sprint(b.Dirs) {
		kinds = append(kinds, "dir")
	}
	if fmt.Sprint(a.Files) != fmt.Sprint(b.Files) {
		kinds = append(kinds, "files")
	}
	if a.Trace != b.Trace {
		kinds = append(kinds, "commands-ran")
	}
	return strings.Join(kinds, "+")
}
