package fp

import (
	"encoding/json"
	"errors"
	"fmt"
	"os"
	"strconv"
	"strings"
	"sync"

	"github.com/go-task/task/v3/verifharness/common"
	cg "github.com/go-task/task/v3/verifharness/coqgen"
)

type result struct {
	c      *Case
	init   Snapshot
	steps  []Step
	init2  Snapshot // H;K run (commute pair)
	steps2 []Step
	err    error
}

func execCase(bin string, c *Case) *result {
	r := &result{c: c}
	run := func(ops []Op, times []int64) (Snapshot, []Step, error) {
		s0, st, err := Execute(bin, c.Proj, c.FileSilent, c.Init, c.Dirs, ops, times)
		if errors.Is(err, errInconclusive) {
			s0, st, err = Execute(bin, c.Proj, c.FileSilent, c.Init, c.Dirs, ops, times)
		}
		return s0, st, err
	}
	r.init, r.steps, r.err = run(c.Ops, c.Times)
	if r.err == nil && c.Drop >= 0 && c.Drop < len(c.Ops) {
		ops := append(append([]Op{}, c.Ops[:c.Drop]...), c.Ops[c.Drop+1:]...)
		ts := append(append([]int64{}, c.Times[:c.Drop]...), c.Times[c.Drop+1:]...)
		r.init2, r.steps2, r.err = run(ops, ts)
	}
	return r
}

// ---- Coq literals ----

func nlit(n int64) string {
	if n < 0 {
		n = 4294967295
	}
	return fmt.Sprintf("%d%%N", n)
}

func globsCoq(gs []Glob) string {
	items := make([]string, len(gs))
	for i, g := range gs {
		items[i] = cg.Pair(cg.Bool(g.Neg), cg.Str(g.Pat))
	}
	return cg.List(items)
}

func taskCoq(t Task) string {
	label := "None"
	if t.Label != "" {
		label = "(Some " + cg.Str(t.Label) + ")"
	}
	m := "Checksum"
	if t.Method == "timestamp" {
		m = "Timestamp"
	}
	sub := "None"
	if t.SubGuard != "" {
		sub = "(Some " + cg.Str(t.SubGuard) + ")"
	}
	dep := "None"
	if t.DepSpec != "" {
		dep = "(Some " + cg.Pair(cg.Str(t.DepSpec), cg.Str(t.DepDst)) + ")"
	}
	return fmt.Sprintf("{| t_name := %s; t_label := %s; t_method := %s; t_sources := %s; t_generates := %s; t_status := %s; t_prompt := %s; t_dir := %s; t_ncmds := %d; t_outputs := %s; t_dep := %s; t_subguard := %s |}",
		cg.Str(t.Name), label, m, globsCoq(t.Sources), globsCoq(t.Generates), cg.StrList(t.Status), cg.Bool(t.Prompt), cg.Str(t.Dir), t.NCmds, cg.StrList(t.Outputs), dep, sub)
}

func projCoq(p []Task) string {
	items := make([]string, len(p))
	for i, t := range p {
		items[i] = taskCoq(t)
	}
	return cg.List(items)
}

func snapCoq(s Snapshot) string {
	fl := make([]string, len(s.Files))
	for i, f := range s.Files {
		fl[i] = fmt.Sprintf("(%s, %s, %s)", cg.Str(f.Path), cg.Str(f.Content), nlit(f.Mtime))
	}
	ck := make([]string, len(s.Cks))
	for i, k := range s.Cks {
		ck[i] = cg.Pair(cg.Str(k.K), cg.Str(k.V))
	}
	ts := make([]string, len(s.Tss))
	for i, k := range s.Tss {
		ts[i] = cg.Pair(cg.Str(k.K), nlit(k.N))
	}
	tx := make([]string, len(s.Tsx))
	for i, k := range s.Tsx {
		tx[i] = cg.Pair(cg.Str(k.K), cg.Str(k.V))
	}
	return fmt.Sprintf("{| sn_files := %s; sn_dirs := %s; sn_cks := %s; sn_tss := %s; sn_tsx := %s; sn_trace := %d |}",
		cg.List(fl), cg.StrList(s.Dirs), cg.List(ck), cg.List(ts), cg.List(tx), s.Trace)
}

func opCoq(o Op) string {
	switch o.Kind {
	case "write":
		return fmt.Sprintf("Write %s %s", cg.Str(o.P), cg.Str(o.C))
	case "touch":
		return "Touch " + cg.Str(o.P)
	case "remove":
		return "Remove " + cg.Str(o.P)
	case "rename":
		return fmt.Sprintf("Rename %s %s", cg.Str(o.P), cg.Str(o.Q))
	case "setmtime":
		return fmt.Sprintf("SetMtime %s %s", cg.Str(o.P), nlit(o.T))
	}
	mode := map[string]string{"run": "Run", "force": "Force", "dry": "Dry", "status": "Status", "listjson": "ListJson", "list": "ListM", "summary": "Summary"}[o.Mode]
	out := "AllOk"
	switch o.Out {
	case "fail":
		out = fmt.Sprintf("(FailAt %d)", o.K)
	case "kill":
		out = fmt.Sprintf("(KilledAt %d)", o.K)
	case "promptno":
		out = "PromptNo"
	}
	return fmt.Sprintf("Invoke %s %d %s", mode, o.Tid, out)
}

var resCoq = map[string]string{"file": "RFile", "notask": "RNoTask", "skipped": "RSkipped", "ok": "ROk", "failed": "RFailed",
	"declined": "RDeclined", "killed": "RKilled", "dry": "RDry", "dryq": "RDryQ", "status-true": "(RStatus true)", "status-false": "(RStatus false)",
	"query": "RQuery", "weird": "RNoTask"}

func stepsCoq(steps []Step) string {
	items := make([]string, len(steps))
	for i, s := range steps {
		items[i] = fmt.Sprintf("{| o_ev := (%s, %s); o_res := %s; o_snap := %s |}", nlit(s.At), opCoq(s.Op), resCoq[s.Res], snapCoq(s.Snap))
	}
	return cg.List(items)
}

// ---- entry point ----

func Main(args []string) {
	o := common.ParseOpts(args)
	obs := common.NewObs("fp", o.Seed)
	prop := o.Extra["prop"]
	if prop == "" {
		prop = "C04"
	}
	shards, _ := strconv.Atoi(o.Extra["shards_"+o.Tier])
	if s, err := strconv.Atoi(o.Extra["shards"]); err == nil {
		shards = s
	}
	if shards <= 0 {
		shards = 1
	}
	bin := os.Getenv("VERIF_TASK_BIN")
	if bin == "" {
		bin = "/verif/.build/task"
	}
	var cases []*Case
	if o.Replay != "" {
		b, err := os.ReadFile(o.Replay)
		if err != nil {
			panic(err)
		}
		var rp struct {
			Input *Case `json:"input"`
		}
		if err := json.Unmarshal(b, &rp); err != nil || rp.Input == nil {
			panic(fmt.Sprintf("bad replay file: %v", err))
		}
		rp.Input.Origin = "replay"
		cases = append(cases, rp.Input)
	} else {
		shard := int(o.Seed%1000) % shards
		cases = Exhaustive(prop, o.Tier, shard, shards)
		r := o.Rand()
		nRandom := o.N
		if o.Tier == "thorough" {
			nRandom *= 10
		}
		for i := 0; i < nRandom; i++ {
			cases = append(cases, Random(prop, r))
		}
		if prop == "C12" {
			// H;R;K vs H;K: one pair per case that has a read-only invocation followed by something
			for _, c := range cases {
				laterInvoke := func(i int) bool {
					for _, o := range c.Ops[i+1:] {
						if o.Kind == "invoke" {
							return true
						}
					}
					return false
				}
				for i, op := range c.Ops {
					if op.Kind == "invoke" && laterInvoke(i) {
						switch op.Mode {
						case "dry", "status", "listjson", "list", "summary":
							if c.Drop < 0 {
								c.Drop = i
							}
						}
					}
				}
			}
		}
	}

	workers := 4
	if w, err := strconv.Atoi(os.Getenv("VERIF_FP_WORKERS")); err == nil && w > 0 {
		workers = w
	}
	results := make([]*result, len(cases))
	var wg sync.WaitGroup
	ch := make(chan int)
	for w := 0; w < workers; w++ {
		wg.Add(1)
		go func() {
			defer wg.Done()
			for i := range ch {
				results[i] = execCase(bin, cases[i])
			}
		}()
	}
	for i := range cases {
		ch <- i
	}
	close(ch)
	wg.Wait()

	var sb strings.Builder
	sb.WriteString("From Coq Require Import List String NArith Bool.\nImport ListNotations.\nFrom TV Require Import Fp.Model Run.FpCases.\nLocal Open Scope string_scope.\n")
	projNames := map[string]string{}
	var fcs, ccs []string
	var fIdx, cIdx []int
	seen := map[string]bool{}
	for i, r := range results {
		c := r.c
		obs.CaseInputs = append(obs.CaseInputs, c)
		if r.err != nil {
			kind := "harness"
			if errors.Is(r.err, errInconclusive) {
				kind = "inconclusive"
			}
			obs.ImplFails = append(obs.ImplFails, common.ImplFail{Case: i, Kind: kind, Msg: r.err.Error()})
			obs.Count("error:" + kind)
			continue
		}
		c.History = nil
		c.Results = nil
		nInv := 0
		for _, s := range r.steps {
			c.History = append(c.History, s.Op.String())
			c.Results = append(c.Results, s.Res)
			if s.Op.Kind == "invoke" {
				nInv++
				obs.Count("mode:" + s.Op.Mode)
				obs.Count("res:" + s.Res)
				if s.Op.Out != "ok" {
					obs.Count("outcome:" + s.Op.Out)
				}
			} else {
				obs.Count("fileop:" + s.Op.Kind)
			}
			if s.Res == "weird" {
				obs.ImplFails = append(obs.ImplFails, common.ImplFail{Case: i, Kind: "unexpected-exit", Msg: fmt.Sprintf("%s -> exit %d", s.Op, s.Exit)})
			}
		}
		c.Diag = Diagnose(c.Proj, r.init, r.steps)
		obs.Count("shape:" + c.Shape)
		obs.Count("origin:" + c.Origin)
		obs.Count(fmt.Sprintf("len:%d", len(c.Ops)))
		obs.Counters["cli_calls"] += int64(nInv)
		pj := projCoq(c.Proj)
		pn, ok := projNames[pj]
		if !ok {
			pn = fmt.Sprintf("proj_%d", len(projNames))
			projNames[pj] = pn
			fmt.Fprintf(&sb, "Definition %s : project := %s.\n", pn, pj)
		}
		fcs = append(fcs, fmt.Sprintf("{| fc_proj := %s; fc_init := %s; fc_steps := %s |}", pn, snapCoq(r.init), stepsCoq(r.steps)))
		fIdx = append(fIdx, i)
		if c.Drop >= 0 && r.steps2 != nil {
			ccs = append(ccs, fmt.Sprintf("{| cc_with := %s; cc_without := %s; cc_nh := %d |}", stepsCoq(r.steps), stepsCoq(r.steps2), c.Drop))
			cIdx = append(cIdx, i)
			// label for the signature: did the continuation differ
			same := len(r.steps)-1 == len(r.steps2)
			if same {
				for k := c.Drop; k < len(r.steps2); k++ {
					a, b := r.steps[k+1], r.steps2[k]
					if a.Res != b.Res || snapDiff(a.Snap, b.Snap) != "" {
						same = false
					}
				}
			}
			if !same {
				c.Commute = "differs:" + c.Ops[c.Drop].Mode
			}
			obs.Counters["commute_pairs"]++
		}
		key, _ := json.Marshal([]any{c.Shape, c.History, c.Results})
		if nInv > 0 && !seen[string(key)] {
			seen[string(key)] = true
			obs.Distinct++
		}
		if len(obs.Samples) < 4 && nInv > 1 {
			obs.Samples = append(obs.Samples, map[string]any{"shape": c.Shape, "history": c.History, "results": c.Results})
		}
	}
	obs.Cases = len(cases)
	fmt.Fprintf(&sb, "Definition fcases : list fcase := %s.\n", cg.List(fcs))
	fmt.Fprintf(&sb, "Definition ccases : list ccase := %s.\n", cg.List(ccs))
	// only the lists of the property this run is for (plus the correspondence) are evaluated
	want := map[string][][2]string{
		"C04": {{"R_agree", "fcase_agree"}, {"R_c04", "fcase_c04"}},
		"C05": {{"R_agree", "fcase_agree"}, {"R_c05", "fcase_c05"}},
		"C12": {{"R_agree", "fcase_agree"}, {"R_c12", "fcase_c12"}},
	}[prop]
	if want == nil || o.Extra["all"] != "" {
		want = [][2]string{{"R_agree", "fcase_agree"}, {"R_c04", "fcase_c04"}, {"R_c05", "fcase_c05"}, {"R_c12", "fcase_c12"}}
	}
	for _, d := range want {
		fmt.Fprintf(&sb, "Definition %s := Eval vm_compute in failures %s fcases.\nPrint %s.\n", d[0], d[1], d[0])
	}
	if prop == "C12" || o.Extra["all"] != "" {
		sb.WriteString("Definition R_c12c := Eval vm_compute in failures ccase_commute ccases.\nPrint R_c12c.\n")
	}
	common.WriteFile(o.Out, "cases.v", sb.String())
	idx := map[string][]int{"R_agree": fIdx, "R_c04": fIdx, "R_c05": fIdx, "R_c12": fIdx, "R_c12c": cIdx}
	b, _ := json.Marshal(idx)
	common.WriteFile(o.Out, "index.json", string(b))
	obs.Write(o.Out)
}
