// Package fp is the history driver of model B "Fp" (properties C04, C05, C12).
//
// A case = a generated project (Taskfile with fingerprinted tasks + initial
// files) and a history of file operations and invocations of the REAL task
// binary.  After every operation the project tree, the fingerprint state
// under .task and the trace file written by the task bodies are snapshotted.
// All mtimes are logical (os.Chtimes to base+clock); files the binary itself
// touched during an invocation (wall-clock mtimes) are renormalised to the
// invocation's logical time, which is how the model stamps them.
package fp

import (
	"context"
	"errors"
	"fmt"
	"os"
	"os/exec"
	"path/filepath"
	"sort"
	"strings"
	"syscall"
	"time"
)

type Glob struct {
	Neg bool   `json:"neg,omitempty"`
	Pat string `json:"pat"`
}

type Task struct {
	Name      string   `json:"name"`
	Label     string   `json:"label,omitempty"`
	Method    string   `json:"method"` // checksum | timestamp
	Sources   []Glob   `json:"sources"`
	Generates []Glob   `json:"generates,omitempty"`
	Status    []string `json:"status,omitempty"` // files whose existence the status commands test
	Prompt    bool     `json:"prompt,omitempty"`
	Dir       string   `json:"dir,omitempty"`
	NCmds     int      `json:"ncmds"`
	Outputs   []string `json:"outputs,omitempty"`
	// Def/Env: this model task is the instance of definition Def obtained with the variable ENV=Env;
	// the definition carries `label: '<Def>-{{.ENV}}'`, Label holds the rendered label.
	Def string `json:"def,omitempty"`
	Env string `json:"env,omitempty"`
	// echo suppression: task-level `silent: true`, every command `silent: true`
	Silent    bool `json:"silent,omitempty"`
	CmdSilent bool `json:"cmd_silent,omitempty"`
	// SubGuard: the first command is `task: child<tid>`; the child has no sources, the precondition
	// `test -f <SubGuard>` and one command appending to the trace
	SubGuard string `json:"subguard,omitempty"`
	// DepSpec/DepDst: the task has `deps: [gen<tid>]`; gen has no sources (always runs) and copies
	// DepSpec to DepDst (one of this task's sources) when DepSpec exists
	DepSpec string `json:"dep_spec,omitempty"`
	DepDst  string `json:"dep_dst,omitempty"`
}

// defName is the name of the definition in the Taskfile (what goes on the command line).
func (t Task) defName() string {
	if t.Def != "" {
		return t.Def
	}
	return t.Name
}

type FileInit struct {
	Path    string `json:"path"`
	Content string `json:"content"`
	Mtime   int64  `json:"mtime"`
}

type Op struct {
	Kind string `json:"kind"` // write touch remove rename setmtime invoke
	P    string `json:"p,omitempty"`
	Q    string `json:"q,omitempty"`
	C    string `json:"c,omitempty"`
	T    int64  `json:"t,omitempty"`
	Mode string `json:"mode,omitempty"` // run force dry status listjson list summary
	Tid  int    `json:"tid,omitempty"`
	Out  string `json:"out,omitempty"` // ok fail promptno kill
	K    int    `json:"k,omitempty"`
	// Silent: the --silent flag. Chain (mode "chain"): one invocation of the parent task `all`, whose
	// commands call the instances Tids one after the other with their ENV (indirect calls).
	Silent bool  `json:"silent,omitempty"`
	Tids   []int `json:"tids,omitempty"`
}

func (o Op) String() string {
	switch o.Kind {
	case "invoke":
		s := o.Mode
		switch o.Out {
		case "fail":
			s += fmt.Sprintf("(fail@%d)", o.K)
		case "kill":
			s += fmt.Sprintf("(kill@%d)", o.K)
		case "promptno":
			s += "(no)"
		}
		if o.Tid != 0 {
			s += fmt.Sprintf("#%d", o.Tid)
		}
		if o.Silent {
			s += "/silent"
		}
		if len(o.Tids) > 0 {
			s += fmt.Sprint(o.Tids)
		}
		return s
	case "rename":
		return "rename:" + o.P + ">" + o.Q
	case "setmtime":
		return fmt.Sprintf("setmtime:%s=%d", o.P, o.T)
	}
	return o.Kind + ":" + o.P
}

type FileEnt struct {
	Path    string `json:"path"`
	Content string `json:"content"`
	Mtime   int64  `json:"mtime"`
}
type KV struct {
	K string `json:"k"`
	V string `json:"v"`
}
type KN struct {
	K string `json:"k"`
	N int64  `json:"n"`
}
type Snapshot struct {
	Files []FileEnt `json:"files"`
	Dirs  []string  `json:"dirs"`
	Cks   []KV      `json:"cks"`
	Tss   []KN      `json:"tss"`
	Tsx   []KV      `json:"tsx"`
	Trace int       `json:"trace"`
}

type Step struct {
	At   int64    `json:"at"`
	Op   Op       `json:"op"`
	Res  string   `json:"res"` // file notask skipped ok failed declined killed dry status-true status-false query weird
	Exit int      `json:"exit"`
	Snap Snapshot `json:"-"`
}

const base = int64(946684800) // 2000-01-01: logical time 0

func ltime(c int64) time.Time { return time.Unix(base+c, 0) }
func isLogical(t time.Time) bool {
	return t.Unix() >= base && t.Unix() < base+100000000 && t.Nanosecond() == 0
}

func shq(s string) string { return "'" + strings.ReplaceAll(s, "'", `'\''`) + "'" }

// RenderTaskfile prints the project as YAML.  Patterns, status files and
// outputs are relative to the project root in the abstract project; with
// dir: set they are rendered relative to that directory (one level deep).
// Instances of one definition (same Def) are rendered once, with a templated
// label; a parent task `all` calls every instance in order with its ENV.
func RenderTaskfile(proj []Task, fileSilent bool) string {
	var sb strings.Builder
	sb.WriteString("version: '3'\n\n")
	if fileSilent {
		sb.WriteString("silent: true\n\n")
	}
	sb.WriteString("tasks:\n")
	done := map[string]bool{}
	var calls []string
	for tid, t := range proj {
		if t.Def != "" {
			calls = append(calls, fmt.Sprintf("      - task: %s\n        vars: {ENV: %s}\n", yq(t.Def), yq(t.Env)))
		}
		if done[t.defName()] {
			continue
		}
		done[t.defName()] = true
		up := ""
		if t.Dir != "" {
			up = "../"
		}
		fmt.Fprintf(&sb, "  %s:\n", yq(t.defName()))
		switch {
		case t.Def != "":
			fmt.Fprintf(&sb, "    label: %s\n", yq(t.Def+"-{{.ENV}}"))
		case t.Label != "":
			fmt.Fprintf(&sb, "    label: %s\n", yq(t.Label))
		}
		fmt.Fprintf(&sb, "    method: %s\n", t.Method)
		if t.DepSpec != "" {
			fmt.Fprintf(&sb, "    deps: [gen%d]\n", tid)
		}
		if t.Silent {
			sb.WriteString("    silent: true\n")
		}
		if t.Dir != "" {
			fmt.Fprintf(&sb, "    dir: %s\n", yq(t.Dir))
		}
		if t.Prompt {
			sb.WriteString("    prompt: sure?\n")
		}
		globs := func(key string, gs []Glob) {
			if len(gs) == 0 {
				return
			}
			fmt.Fprintf(&sb, "    %s:\n", key)
			for _, g := range gs {
				if g.Neg {
					fmt.Fprintf(&sb, "      - exclude: %s\n", yq(up+g.Pat))
				} else {
					fmt.Fprintf(&sb, "      - %s\n", yq(up+g.Pat))
				}
			}
		}
		globs("sources", t.Sources)
		globs("generates", t.Generates)
		if len(t.Status) > 0 {
			sb.WriteString("    status:\n")
			for _, s := range t.Status {
				fmt.Fprintf(&sb, "      - %s\n", yq("test -f "+up+s))
			}
		}
		sb.WriteString("    cmds:\n")
		who := fmt.Sprint(tid)
		if t.Def != "" {
			who = "{{.ENV}}"
		}
		if t.SubGuard != "" {
			fmt.Fprintf(&sb, "      - task: child%d\n", tid)
		}
		for i := 0; i < t.NCmds; i++ {
			c := fmt.Sprintf(`if [ "$VH_KILL" = "%d" ]; then kill -9 $$; fi; echo "%s %d" >> "$VH_ROOT/trace.log"; [ "$VH_FAIL" != "%d" ]`, i, who, i, i)
			if i == t.NCmds-1 {
				for _, o := range t.Outputs {
					c += fmt.Sprintf(` && printf out > "$VH_ROOT/%s"`, o)
				}
			}
			if t.CmdSilent {
				fmt.Fprintf(&sb, "      - cmd: %s\n        silent: true\n", yq(c))
			} else {
				fmt.Fprintf(&sb, "      - %s\n", yq(c))
			}
		}
	}
	for tid, t := range proj {
		if t.DepSpec != "" {
			c := fmt.Sprintf(`if [ -f "$VH_ROOT/%s" ]; then mkdir -p "$(dirname "$VH_ROOT/%s")"; cp "$VH_ROOT/%s" "$VH_ROOT/%s"; fi`, t.DepSpec, t.DepDst, t.DepSpec, t.DepDst)
			fmt.Fprintf(&sb, "  gen%d:\n    cmds:\n      - %s\n", tid, yq(c))
		}
		if t.SubGuard == "" {
			continue
		}
		up := ""
		if t.Dir != "" {
			up = "../"
		}
		fmt.Fprintf(&sb, "  child%d:\n    preconditions:\n      - %s\n    cmds:\n      - %s\n", tid,
			yq("test -f "+up+t.SubGuard), yq(fmt.Sprintf(`echo "%d %d" >> "$VH_ROOT/trace.log"`, tid, t.NCmds)))
	}
	if len(calls) > 0 {
		sb.WriteString("  all:\n    cmds:\n")
		for _, c := range calls {
			sb.WriteString(c)
		}
	}
	return sb.String()
}

func yq(s string) string { return "'" + strings.ReplaceAll(s, "'", "''") + "'" }

// ---- executing a history ----

type runner struct {
	root       string
	bin        string
	proj       []Task
	fileSilent bool
}

var errInconclusive = errors.New("inconclusive")

func (r *runner) abs(p string) string { return filepath.Join(r.root, filepath.FromSlash(p)) }

func (r *runner) setup(proj []Task, init []FileInit, dirs []string) error {
	for _, d := range dirs {
		if err := os.MkdirAll(r.abs(d), 0o755); err != nil {
			return err
		}
	}
	if err := os.WriteFile(r.abs("Taskfile.yml"), []byte(RenderTaskfile(proj, r.fileSilent)), 0o644); err != nil {
		return err
	}
	for _, f := range init {
		if err := os.MkdirAll(filepath.Dir(r.abs(f.Path)), 0o755); err != nil {
			return err
		}
		if err := os.WriteFile(r.abs(f.Path), []byte(f.Content), 0o644); err != nil {
			return err
		}
		if err := os.Chtimes(r.abs(f.Path), ltime(f.Mtime), ltime(f.Mtime)); err != nil {
			return err
		}
	}
	return nil
}

// fileOp mirrors Model.file_op exactly.
func (r *runner) fileOp(at int64, o Op) error {
	p := r.abs(o.P)
	exists := func(x string) bool { st, err := os.Lstat(x); return err == nil && st.Mode().IsRegular() }
	switch o.Kind {
	case "write":
		if err := os.MkdirAll(filepath.Dir(p), 0o755); err != nil {
			return err
		}
		if err := os.WriteFile(p, []byte(o.C), 0o644); err != nil {
			return err
		}
		return os.Chtimes(p, ltime(at), ltime(at))
	case "touch":
		if exists(p) {
			return os.Chtimes(p, ltime(at), ltime(at))
		}
	case "remove":
		if exists(p) {
			return os.Remove(p)
		}
	case "rename":
		q := r.abs(o.Q)
		if exists(p) && o.P != o.Q {
			if err := os.MkdirAll(filepath.Dir(q), 0o755); err != nil {
				return err
			}
			return os.Rename(p, q) // keeps content and mtime
		}
	case "setmtime":
		if exists(p) {
			return os.Chtimes(p, ltime(o.T), ltime(o.T))
		}
	default:
		return fmt.Errorf("unknown file op %q", o.Kind)
	}
	return nil
}

func (r *runner) traceLines() []string {
	b, err := os.ReadFile(r.abs("trace.log"))
	if err != nil {
		return nil
	}
	return strings.Split(strings.TrimSuffix(string(b), "\n"), "\n")
}

// run starts the real binary (always under a SIGKILL deadline) and reports exit code, kill, stderr.
func (r *runner) run(args []string, o Op) (code int, killed bool, stderr string, err error) {
	ctx, cancel := context.WithTimeout(context.Background(), 30*time.Second)
	defer cancel()
	cmd := exec.CommandContext(ctx, r.bin, args...)
	cmd.Cancel = func() error { return cmd.Process.Kill() }
	cmd.Dir = r.root
	env := []string{}
	for _, e := range os.Environ() {
		if strings.HasPrefix(e, "TASK_") || strings.HasPrefix(e, "VH_") || strings.HasPrefix(e, "FORCE_COLOR") || strings.HasPrefix(e, "ENV=") {
			continue
		}
		env = append(env, e)
	}
	env = append(env, "VH_ROOT="+r.root, "VH_FAIL=-", "VH_KILL=-")
	switch o.Out {
	case "fail":
		env[len(env)-2] = fmt.Sprintf("VH_FAIL=%d", o.K)
	case "kill":
		env[len(env)-1] = fmt.Sprintf("VH_KILL=%d", o.K)
	}
	cmd.Env = env
	var outb, errb strings.Builder
	cmd.Stdout = &outb
	cmd.Stderr = &errb
	runErr := cmd.Run()
	if ctx.Err() != nil {
		return 0, false, "", errInconclusive
	}
	if runErr != nil {
		var ee *exec.ExitError
		if errors.As(runErr, &ee) {
			code = ee.ExitCode()
			if ws, ok := ee.Sys().(syscall.WaitStatus); ok && ws.Signaled() && ws.Signal() == syscall.SIGKILL {
				killed = true
			}
		} else {
			return 0, false, "", runErr
		}
	}
	return code, killed, errb.String(), nil
}

func (r *runner) invoke(at int64, o Op) (res string, exit int, err error) {
	if o.Tid < 0 || o.Tid >= len(r.proj) {
		return "notask", 0, nil
	}
	t := r.proj[o.Tid]
	name := t.defName()
	args := []string{"--color=false"}
	if o.Out != "promptno" {
		args = append(args, "--yes")
	}
	if o.Silent {
		args = append(args, "--silent")
	}
	switch o.Mode {
	case "run":
		args = append(args, name)
	case "force":
		args = append(args, "--force", name)
	case "dry":
		args = append(args, "--dry", name)
	case "status":
		args = append(args, "--status", name)
	case "listjson":
		args = append(args, "--list-all", "--json")
	case "list":
		args = append(args, "--list-all")
	case "summary":
		args = append(args, "--summary", name)
	default:
		return "", 0, fmt.Errorf("unknown mode %q", o.Mode)
	}
	if t.Def != "" {
		switch o.Mode {
		case "run", "force", "dry", "status", "summary":
			args = append(args, "ENV="+t.Env)
		}
	}
	traceBefore := len(r.traceLines())
	code, killed, stderr, err := r.run(args, o)
	if err != nil {
		return "", 0, err
	}
	traceGrew := len(r.traceLines()) > traceBefore
	upToDate := strings.Contains(stderr, "is up to date")
	// "Task ... is up to date" is not printed for a silent task / Taskfile / --silent
	quiet := t.Silent || r.fileSilent || o.Silent
	weird := func() (string, int, error) {
		return "weird", code, nil
	}
	switch o.Mode {
	case "run", "force":
		switch {
		case killed:
			return "killed", -1, nil
		case code == 0 && upToDate:
			return "skipped", 0, nil
		case code == 0 && quiet && !traceGrew && t.NCmds > 0:
			return "skipped", 0, nil
		case code == 0:
			return "ok", 0, nil
		case code == 201:
			return "failed", code, nil
		case code == 205 || code == 206:
			return "declined", code, nil
		}
		return weird()
	case "dry":
		switch {
		case code == 0 && upToDate:
			return "skipped", 0, nil
		case code == 201:
			return "failed", code, nil // a followed `task:` sub-call failed (callee precondition)
		case code == 0 && quiet:
			return "dryq", 0, nil // nothing was said: up to date or not cannot be told
		case code == 0:
			return "dry", 0, nil
		}
		return weird()
	case "status":
		switch code {
		case 0:
			return "status-true", 0, nil
		case 1:
			return "status-false", 1, nil
		}
		return weird()
	default:
		if code == 0 {
			return "query", 0, nil
		}
		return weird()
	}
}

func normName(s string) string {
	b := []byte(s)
	for i, c := range b {
		if !((c >= 'A' && c <= 'z') || (c >= '0' && c <= '9')) {
			b[i] = '-'
		}
	}
	return string(b)
}

// invokeChain runs the parent task `all` once (one process) and splits what can be observed into
// one step per called instance: results from the "is up to date" lines and from the trace lines each
// instance appended; the snapshot between two instances is reconstructed from the one before and the
// one after (the instances of this shape write no files besides their state file and the trace).
func (r *runner) invokeChain(at int64, o Op, before Snapshot) ([]Step, error) {
	traceBefore := r.traceLines()
	code, killed, stderr, err := r.run([]string{"--color=false", "--yes", "all"}, o)
	if err != nil {
		return nil, err
	}
	if err := r.normalise(at); err != nil {
		return nil, err
	}
	final, err := r.snapshot()
	if err != nil {
		return nil, err
	}
	if killed || code != 0 || fmt.Sprint(final.Files) != fmt.Sprint(before.Files) || fmt.Sprint(final.Dirs) != fmt.Sprint(before.Dirs) {
		return nil, fmt.Errorf("chain: exit %d killed=%v or files changed", code, killed)
	}
	added := r.traceLines()[len(traceBefore):]
	var steps []Step
	cur := before
	for k, tid := range o.Tids {
		t := r.proj[tid]
		n := 0
		for _, l := range added {
			if strings.HasPrefix(l, t.Env+" ") {
				n++
			}
		}
		st := Step{At: at + int64(k), Op: Op{Kind: "invoke", Mode: "run", Tid: tid, Out: "ok"}}
		switch {
		case n == t.NCmds && n > 0:
			st.Res = "ok"
		case n == 0 && strings.Contains(stderr, fmt.Sprintf("Task %q is up to date", t.Label)):
			st.Res = "skipped"
		default:
			st.Res = "weird"
		}
		if k == len(o.Tids)-1 {
			st.Snap = final
		} else {
			nx := Snapshot{Files: cur.Files, Dirs: cur.Dirs, Trace: cur.Trace + n, Tsx: cur.Tsx}
			ck := normName(t.Label)
			for _, e := range cur.Cks {
				if e.K != ck {
					nx.Cks = append(nx.Cks, e)
				}
			}
			for _, e := range final.Cks {
				if e.K == ck {
					nx.Cks = append(nx.Cks, e)
				}
			}
			sort.Slice(nx.Cks, func(i, j int) bool { return nx.Cks[i].K < nx.Cks[j].K })
			tk := normName(t.defName())
			for _, e := range cur.Tss {
				if e.K != tk {
					nx.Tss = append(nx.Tss, e)
				}
			}
			for _, e := range final.Tss {
				if e.K == tk {
					nx.Tss = append(nx.Tss, e)
				}
			}
			if nx.Cks == nil {
				nx.Cks = []KV{}
			}
			if nx.Tss == nil {
				nx.Tss = []KN{}
			}
			st.Snap = nx
			cur = nx
		}
		steps = append(steps, st)
	}
	return steps, nil
}

// normalise gives every file the binary touched during the invocation at
// logical time `at` a logical mtime: the marker the check time, anything else
// (outputs of the body) at+1.
func (r *runner) normalise(at int64) error {
	return filepath.Walk(r.root, func(p string, info os.FileInfo, err error) error {
		if err != nil || !info.Mode().IsRegular() {
			return err
		}
		rel, _ := filepath.Rel(r.root, p)
		rel = filepath.ToSlash(rel)
		if rel == "Taskfile.yml" || rel == "trace.log" || strings.HasPrefix(rel, ".task/checksum/") {
			return nil
		}
		if isLogical(info.ModTime()) {
			return nil
		}
		t := ltime(at + 1)
		if strings.HasPrefix(rel, ".task/timestamp/") {
			t = ltime(at)
		}
		return os.Chtimes(p, t, t)
	})
}

func (r *runner) snapshot() (Snapshot, error) {
	var sn Snapshot
	sn.Files = []FileEnt{}
	sn.Dirs = []string{}
	sn.Cks = []KV{}
	sn.Tss = []KN{}
	sn.Tsx = []KV{}
	err := filepath.Walk(r.root, func(p string, info os.FileInfo, err error) error {
		if err != nil {
			return err
		}
		rel, _ := filepath.Rel(r.root, p)
		rel = filepath.ToSlash(rel)
		if rel == "." {
			return nil
		}
		if info.IsDir() {
			if rel != ".task" && !strings.HasPrefix(rel, ".task/") {
				sn.Dirs = append(sn.Dirs, rel)
			}
			return nil
		}
		switch {
		case rel == "Taskfile.yml":
			return nil
		case rel == "trace.log":
			b, err := os.ReadFile(p)
			if err != nil {
				return err
			}
			sn.Trace = strings.Count(string(b), "\n")
			return nil
		case strings.HasPrefix(rel, ".task/checksum/"):
			b, err := os.ReadFile(p)
			if err != nil {
				return err
			}
			sn.Cks = append(sn.Cks, KV{strings.TrimPrefix(rel, ".task/checksum/"), strings.TrimSpace(string(b))})
			return nil
		case strings.HasPrefix(rel, ".task/timestamp/"):
			sn.Tss = append(sn.Tss, KN{strings.TrimPrefix(rel, ".task/timestamp/"), info.ModTime().Unix() - base})
			if b, err := os.ReadFile(p); err == nil && len(strings.TrimSpace(string(b))) > 0 {
				sn.Tsx = append(sn.Tsx, KV{strings.TrimPrefix(rel, ".task/timestamp/"), strings.TrimSpace(string(b))})
			}
			return nil
		}
		b, err := os.ReadFile(p)
		if err != nil {
			return err
		}
		sn.Files = append(sn.Files, FileEnt{rel, string(b), info.ModTime().Unix() - base})
		return nil
	})
	sort.Slice(sn.Files, func(i, j int) bool { return sn.Files[i].Path < sn.Files[j].Path })
	sort.Strings(sn.Dirs)
	sort.Slice(sn.Cks, func(i, j int) bool { return sn.Cks[i].K < sn.Cks[j].K })
	sort.Slice(sn.Tsx, func(i, j int) bool { return sn.Tsx[i].K < sn.Tsx[j].K })
	sort.Slice(sn.Tss, func(i, j int) bool { return sn.Tss[i].K < sn.Tss[j].K })
	return sn, err
}

// Execute runs the history on a fresh copy of the project with the real binary.
// A "chain" operation yields one step per called instance.
func Execute(bin string, proj []Task, fileSilent bool, init []FileInit, dirs []string, ops []Op, times []int64) (Snapshot, []Step, error) {
	root, err := os.MkdirTemp("", "vh-fp")
	if err != nil {
		return Snapshot{}, nil, err
	}
	defer os.RemoveAll(root)
	if rr, err := filepath.EvalSymlinks(root); err == nil {
		root = rr
	}
	r := &runner{root: root, bin: bin, proj: proj, fileSilent: fileSilent}
	if err := r.setup(proj, init, dirs); err != nil {
		return Snapshot{}, nil, err
	}
	s0, err := r.snapshot()
	if err != nil {
		return Snapshot{}, nil, err
	}
	var steps []Step
	prev := s0
	for i, o := range ops {
		if o.Kind == "invoke" && o.Mode == "chain" {
			sts, err := r.invokeChain(times[i], o, prev)
			if err != nil {
				return s0, steps, err
			}
			steps = append(steps, sts...)
			prev = sts[len(sts)-1].Snap
			continue
		}
		st := Step{At: times[i], Op: o}
		if o.Kind == "invoke" {
			st.Res, st.Exit, err = r.invoke(times[i], o)
			if err != nil {
				return s0, steps, err
			}
			if err := r.normalise(times[i]); err != nil {
				return s0, steps, err
			}
		} else {
			if err := r.fileOp(times[i], o); err != nil {
				return s0, steps, err
			}
			st.Res = "file"
		}
		st.Snap, err = r.snapshot()
		if err != nil {
			return s0, steps, err
		}
		steps = append(steps, st)
		prev = st.Snap
	}
	return s0, steps, nil
}
