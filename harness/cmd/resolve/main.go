// vh-resolve: correspondence driver for C15 (task name resolution).
package main

import (
	"os"

	"github.com/go-task/task/v3/verifharness/drivers/resolve"
)

func main() { resolve.Main(os.Args[1:]) }
