// vh-fp: history driver for model B "Fp" (C04, C05, C12): real task binary on generated histories.
package main

import (
	"os"

	"github.com/go-task/task/v3/verifharness/drivers/fp"
)

func main() { fp.Main(os.Args[1:]) }
