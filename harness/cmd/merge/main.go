// vh-merge: correspondence driver for C08 / C09 (include graph -> merged task table).
package main

import (
	"os"

	"github.com/go-task/task/v3/verifharness/drivers/merge"
)

func main() { merge.Main(os.Args[1:]) }
