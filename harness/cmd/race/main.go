// vh-race: dynamic leg of C18 (Go race detector over concurrent Taskfiles run by the real Executor).
package main

import (
	"os"

	"github.com/go-task/task/v3/verifharness/drivers/race"
)

func main() { race.Main(os.Args[1:]) }
