// vh-exec: correspondence driver for model A (C01 C02 C03 C06 C07 C13 C14).
package main

import (
	"os"

	"github.com/go-task/task/v3/verifharness/drivers/exec"
)

func main() { exec.Main(os.Args[1:]) }
