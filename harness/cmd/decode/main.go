// vh-decode: correspondence driver for C16 (decoding, compiling and listing never crash).
package main

import (
	"os"

	"github.com/go-task/task/v3/verifharness/drivers/decode"
)

func main() { decode.Main(os.Args[1:]) }
