// vh-vars: correspondence driver for C10 / C11 (model E "Vars").
package main

import (
	"os"

	"github.com/go-task/task/v3/verifharness/drivers/vars"
)

func main() { vars.Main(os.Args[1:]) }
