// argvrec: the command the C19 harness lets go-task start.  It records the
// arguments it was started with (bytes, not text) as JSON in $VH_ARGV_OUT.
package main

import (
	"os"

	"github.com/go-task/task/v3/verifharness/drivers/quote/argvrec"
)

func main() { os.Exit(argvrec.Record(os.Args[1:])) }
