// vh-quote: correspondence driver for C19 (quoting, CLI_ARGS, shellQuote, NAME=value, --init).
package main

import (
	"os"

	"github.com/go-task/task/v3/verifharness/drivers/quote"
)

func main() { quote.Main(os.Args[1:]) }
