// vh: the verification harness.  One sub-command per driver; every driver
// runs the real go-task code from /repo's working tree and writes cases.v
// (inputs + observed behaviour) and obs.json into -out.
package main

import (
	"fmt"
	"os"

	"github.com/go-task/task/v3/verifharness/drivers"
)

func main() {
	if len(os.Args) < 2 {
		fmt.Fprintln(os.Stderr, "usage: vh <driver> [flags]")
		os.Exit(2)
	}
	switch os.Args[1] {
	case "output":
		drivers.Output(os.Args[2:])
	default:
		fmt.Fprintln(os.Stderr, "unknown driver", os.Args[1])
		os.Exit(2)
	}
}
