// vh-output: correspondence driver for C17 (internal/output writers).
package main

import (
	"os"

	"github.com/go-task/task/v3/verifharness/drivers/output"
)

func main() { output.Main(os.Args[1:]) }
