// vh-remote: correspondence driver for C20 (remote Taskfiles, model H).
package main

import (
	"os"

	"github.com/go-task/task/v3/verifharness/drivers/remote"
)

func main() { remote.Main(os.Args[1:]) }
