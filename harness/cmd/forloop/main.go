// vh-forloop: correspondence driver for the for-loop expansion model (C02, coq/Exec/ForLoop.v).
package main

import (
	"os"

	"github.com/go-task/task/v3/verifharness/drivers/forloop"
)

func main() { forloop.Main(os.Args[1:]) }
