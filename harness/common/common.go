// Package common holds what every driver shares: flags, PRNG, output files.
package common

import (
	"encoding/json"
	"flag"
	"fmt"
	"math/rand"
	"os"
	"path/filepath"
	"sort"
	"strings"
)

type Opts struct {
	Seed   int64
	N      int
	Out    string
	Tier   string
	Replay string
	Extra  map[string]string
}

func ParseOpts(args []string) *Opts {
	fs := flag.NewFlagSet("vh", flag.ExitOnError)
	o := &Opts{Extra: map[string]string{}}
	fs.Int64Var(&o.Seed, "seed", 1, "PRNG seed")
	fs.IntVar(&o.N, "n", 100, "number of generated cases")
	fs.StringVar(&o.Out, "out", "", "output directory")
	fs.StringVar(&o.Tier, "tier", "quick", "quick|thorough")
	fs.StringVar(&o.Replay, "replay", "", "replay file")
	var extra string
	fs.StringVar(&extra, "x", "", "k=v,k=v driver-specific options")
	_ = fs.Parse(args)
	for _, kv := range strings.Split(extra, ",") {
		if i := strings.Index(kv, "="); i > 0 {
			o.Extra[kv[:i]] = kv[i+1:]
		}
	}
	if o.Out == "" {
		fmt.Fprintln(os.Stderr, "missing -out")
		os.Exit(2)
	}
	_ = os.MkdirAll(o.Out, 0o755)
	return o
}

func (o *Opts) Rand() *rand.Rand { return rand.New(rand.NewSource(o.Seed)) }

// Obs is what a driver reports besides cases.v.
type Obs struct {
	Driver     string           `json:"driver"`
	Seed       int64            `json:"seed"`
	Cases      int              `json:"cases"`
	Distinct   int              `json:"distinct_nontrivial"`
	Histogram  map[string]int   `json:"histogram"`
	Samples    []any            `json:"samples"`
	CaseInputs []any            `json:"case_inputs"` // index -> replayable input
	ImplFails  []ImplFail       `json:"impl_failures"`
	Notes      []string         `json:"notes"`
	Counters   map[string]int64 `json:"counters"`
}

// ImplFail is a violation the driver can see without Coq (panic, deadlock, race report ...).
type ImplFail struct {
	Case int    `json:"case"`
	Kind string `json:"kind"`
	Msg  string `json:"msg"`
}

func NewObs(driver string, seed int64) *Obs {
	return &Obs{Driver: driver, Seed: seed, Histogram: map[string]int{}, Counters: map[string]int64{}}
}

func (o *Obs) Count(k string) { o.Histogram[k]++ }

func (o *Obs) Write(dir string) {
	b, _ := json.MarshalIndent(o, "", " ")
	_ = os.WriteFile(filepath.Join(dir, "obs.json"), b, 0o644)
}

func WriteFile(dir, name, content string) {
	if err := os.WriteFile(filepath.Join(dir, name), []byte(content), 0o644); err != nil {
		panic(err)
	}
}

func SortedKeys[V any](m map[string]V) []string {
	ks := make([]string, 0, len(m))
	for k := range m {
		ks = append(ks, k)
	}
	sort.Strings(ks)
	return ks
}
