// Package sched drives the real go-task Executor under a controlled schedule.
//
// Every write that reaches a gate writer parks the writing goroutine until the
// controller releases it.  Between releases the controller waits for
// quiescence: every goroutine that belongs to the run is blocked (parked at a
// gate, waiting for a semaphore slot, an errgroup, a context ...).  The
// sequence of arrivals and releases is the observable trace.
package sched

import (
	"bytes"
	"fmt"
	"io"
	"regexp"
	"runtime"
	"sort"
	"strconv"
	"strings"
	"sync"
	"time"
)

// Event is one observable step of a controlled run.
type Event struct {
	Kind   string `json:"k"` // "arrive" | "release"
	ID     int    `json:"id"`
	G      int64  `json:"g"`
	Stream string `json:"s"` // "out" | "err"
	Data   string `json:"d"`
	PG     int64  `json:"pg"` // goroutine that created G (0 if unknown)
}

type Parked struct {
	ID      int
	G       int64
	PG      int64
	Stream  string
	Data    []byte
	release chan struct{}
}

// Chooser picks which parked write is released next.
type Chooser interface {
	Choose(parked []*Parked) int
}

type Controller struct {
	mu       sync.Mutex
	parked   []*Parked
	fresh    []*Parked
	nextID   int
	Events   []Event
	selfG    int64
	Polls    int
	MaxSteps int
	// AutoRelease, when non-nil, says whether a write should pass the gate
	// without parking (still recorded as arrive+release).
	AutoRelease func(stream string, data []byte) bool
}

func New() *Controller { return &Controller{MaxSteps: 100000} }

type gateWriter struct {
	c      *Controller
	stream string
}

func (c *Controller) Writer(stream string) io.Writer { return &gateWriter{c, stream} }

var gidRe = regexp.MustCompile(`^goroutine (\d+) \[`)

func curG() int64 {
	var buf [64]byte
	n := runtime.Stack(buf[:], false)
	m := gidRe.FindSubmatch(buf[:n])
	if m == nil {
		return -1
	}
	g, _ := strconv.ParseInt(string(m[1]), 10, 64)
	return g
}

var creatorRe = regexp.MustCompile(`in goroutine (\d+)\n`)

// curGAndCreator returns the current goroutine id and the id of the goroutine that created it.
var stackPool = sync.Pool{New: func() any { b := make([]byte, 32<<10); return &b }}

func curGAndCreator() (int64, int64) {
	bp := stackPool.Get().(*[]byte)
	defer stackPool.Put(bp)
	buf := *bp
	n := runtime.Stack(buf, false)
	m := gidRe.FindSubmatch(buf[:n])
	if m == nil {
		return -1, 0
	}
	g, _ := strconv.ParseInt(string(m[1]), 10, 64)
	var pg int64
	if all := creatorRe.FindAllSubmatch(buf[:n], -1); len(all) > 0 {
		pg, _ = strconv.ParseInt(string(all[len(all)-1][1]), 10, 64)
	}
	return g, pg
}

func (w *gateWriter) Write(p []byte) (int, error) {
	c := w.c
	g, pg := curGAndCreator()
	pk := &Parked{G: g, PG: pg, Stream: w.stream, Data: append([]byte(nil), p...), release: make(chan struct{})}
	c.mu.Lock()
	pk.ID = c.nextID
	c.nextID++
	if c.AutoRelease != nil && c.AutoRelease(w.stream, p) {
		c.Events = append(c.Events, Event{"arrive", pk.ID, pk.G, pk.Stream, string(pk.Data), pk.PG}, Event{"release", pk.ID, pk.G, pk.Stream, "", pk.PG})
		c.mu.Unlock()
		return len(p), nil
	}
	c.Events = append(c.Events, Event{"arrive", pk.ID, pk.G, pk.Stream, string(pk.Data), pk.PG})
	c.parked = append(c.parked, pk)
	c.mu.Unlock()
	<-pk.release
	return len(p), nil
}

var hdrRe = regexp.MustCompile(`^goroutine (\d+) \[([^\],]+)`)

// quiescent reports whether every goroutine of the run is blocked.
func (c *Controller) quiescent(buf []byte) bool {
	n := runtime.Stack(buf, true)
	for n == len(buf) {
		buf = make([]byte, 2*len(buf))
		n = runtime.Stack(buf, true)
	}
	for _, blk := range bytes.Split(buf[:n], []byte("\n\n")) {
		m := hdrRe.FindSubmatch(blk)
		if m == nil {
			continue
		}
		g, _ := strconv.ParseInt(string(m[1]), 10, 64)
		if g == c.selfG {
			continue
		}
		if !bytes.Contains(blk, []byte("go-task/task/v3")) && !bytes.Contains(blk, []byte("mvdan.cc/sh")) && !bytes.Contains(blk, []byte("errgroup")) {
			continue
		}
		st := string(m[2])
		switch st {
		case "chan receive", "chan send", "select", "semacquire", "sync.Mutex.Lock", "sync.RWMutex.RLock",
			"sync.RWMutex.Lock", "sync.Cond.Wait", "sync.WaitGroup.Wait", "chan receive (nil chan)",
			"chan send (nil chan)", "select (no cases)":
			// blocked until another goroutine of the run (or the controller) acts
		default:
			return false
		}
	}
	return true
}

type Result struct {
	Err      error
	Deadlock bool
	Overrun  bool
	Stacks   string
}

// Run executes fn in a goroutine and schedules its gated writes with ch.
func (c *Controller) Run(fn func() error, ch Chooser) Result {
	c.selfG = curG()
	done := make(chan error, 1)
	go func() { done <- fn() }()
	buf := make([]byte, 1<<20)
	steps := 0
	for {
		// wait for quiescence or completion
		finished := false
		var err error
		for spins := 0; ; spins++ {
			select {
			case err = <-done:
				finished = true
			default:
			}
			if finished {
				break
			}
			runtime.Gosched()
			c.Polls++
			if c.quiescent(buf) {
				runtime.Gosched()
				if c.quiescent(buf) {
					// completion may have raced with the poll
					select {
					case err = <-done:
						finished = true
					default:
					}
					break
				}
			}
			if spins > 50 {
				time.Sleep(50 * time.Microsecond)
			}
			if spins > 400000 {
				n := runtime.Stack(buf, true)
				return Result{Overrun: true, Stacks: string(buf[:n])}
			}
		}
		if finished {
			return Result{Err: err}
		}
		c.mu.Lock()
		if len(c.parked) == 0 {
			c.mu.Unlock()
			// nothing parked and Run has not returned: confirm before calling it a deadlock
			confirmed := true
			for k := 0; k < 25; k++ {
				time.Sleep(2 * time.Millisecond)
				select {
				case err = <-done:
					return Result{Err: err}
				default:
				}
				c.mu.Lock()
				np := len(c.parked)
				c.mu.Unlock()
				if np > 0 || !c.quiescent(buf) {
					confirmed = false
					break
				}
			}
			if !confirmed {
				continue
			}
			n := runtime.Stack(buf, true)
			return Result{Deadlock: true, Stacks: string(buf[:n])}
		}
		steps++
		if steps > c.MaxSteps {
			c.mu.Unlock()
			return Result{Overrun: true}
		}
		i := ch.Choose(c.parked)
		pk := c.parked[i]
		c.parked = append(c.parked[:i:i], c.parked[i+1:]...)
		c.Events = append(c.Events, Event{"release", pk.ID, pk.G, pk.Stream, "", pk.PG})
		c.mu.Unlock()
		close(pk.release)
	}
}

// ReleaseAll unparks everything (used to let a deadlocked/overrun run drain).
func (c *Controller) ReleaseAll() {
	c.mu.Lock()
	c.AutoRelease = func(string, []byte) bool { return true }
	for _, pk := range c.parked {
		close(pk.release)
	}
	c.parked = nil
	c.mu.Unlock()
}

// RandChooser releases a uniformly random parked write.
type RandChooser struct{ R interface{ Intn(int) int } }

func (r RandChooser) Choose(p []*Parked) int { return r.R.Intn(len(p)) }

// ScriptChooser replays a recorded order of labels (stream+data); falls back to index 0.
type ScriptChooser struct {
	Labels []string
	pos    int
	Missed int
}

func Label(p *Parked) string { return p.Stream + ":" + strings.TrimRight(string(p.Data), "\n") }

func (s *ScriptChooser) Choose(p []*Parked) int {
	if s.pos < len(s.Labels) {
		want := s.Labels[s.pos]
		s.pos++
		for i, pk := range p {
			if Label(pk) == want {
				return i
			}
		}
		s.Missed++
	}
	return 0
}

func (e Event) String() string {
	return fmt.Sprintf("%s#%d g%d %s %q", e.Kind, e.ID, e.G, e.Stream, e.Data)
}

// StarveChooser is a random chooser that keeps one randomly picked goroutine parked for as
// long as anything else can be released: long windows in which one task is stuck mid-command
// while the others race ahead are where ordering bugs show.
type StarveChooser struct {
	R      interface{ Intn(int) int }
	victim int64
	picked bool
	After  int // start starving after this many releases
	n      int
}

func (s *StarveChooser) Choose(p []*Parked) int {
	s.n++
	if !s.picked && s.n > s.After {
		s.victim = p[s.R.Intn(len(p))].G
		s.picked = true
	}
	if s.picked {
		var others []int
		for i, pk := range p {
			if pk.G != s.victim {
				others = append(others, i)
			}
		}
		if len(others) > 0 {
			return others[s.R.Intn(len(others))]
		}
	}
	return s.R.Intn(len(p))
}

// IndexChooser follows a prefix of choice indices over the parked writes taken in canonical
// (label, arrival id) order and picks index 0 beyond the prefix. It records the index taken and
// the number of alternatives at every step, which is what a depth-first enumeration of the
// controlled schedules needs (NextPrefix).
type IndexChooser struct {
	Prefix []int
	Taken  []int
	Width  []int
}

func (s *IndexChooser) Choose(p []*Parked) int {
	idx := make([]int, len(p))
	for i := range idx {
		idx[i] = i
	}
	sort.Slice(idx, func(a, b int) bool {
		la, lb := Label(p[idx[a]]), Label(p[idx[b]])
		if la != lb {
			return la < lb
		}
		return p[idx[a]].ID < p[idx[b]].ID
	})
	c := 0
	if k := len(s.Taken); k < len(s.Prefix) {
		c = s.Prefix[k]
	}
	if c >= len(p) {
		c = len(p) - 1
	}
	s.Taken = append(s.Taken, c)
	s.Width = append(s.Width, len(p))
	return idx[c]
}

// NextPrefix gives the prefix of the next schedule in depth-first order, or nil when the tree
// below the recorded run is exhausted.
func NextPrefix(taken, width []int) []int {
	for i := len(taken) - 1; i >= 0; i-- {
		if taken[i]+1 < width[i] {
			out := append([]int{}, taken[:i]...)
			return append(out, taken[i]+1)
		}
	}
	return nil
}
