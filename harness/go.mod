module github.com/go-task/task/v3/verifharness

go 1.23.0

require (
	github.com/Masterminds/semver/v3 v3.3.1
	github.com/alecthomas/chroma/v2 v2.16.0
	github.com/chainguard-dev/git-urls v1.0.2
	github.com/go-task/task/v3 v3.0.0
	github.com/spf13/pflag v1.0.6
	gopkg.in/yaml.v3 v3.0.1
	mvdan.cc/sh/v3 v3.11.0
)

require (
	dario.cat/mergo v1.0.0 // indirect
	github.com/Ladicle/tabwriter v1.0.0 // indirect
	github.com/ProtonMail/go-crypto v1.1.6 // indirect
	github.com/cloudflare/circl v1.6.1 // indirect
	github.com/cyphar/filepath-securejoin v0.4.1 // indirect
	github.com/davecgh/go-spew v1.1.1 // indirect
	github.com/dlclark/regexp2 v1.11.5 // indirect
	github.com/dominikbraun/graph v0.23.0 // indirect
	github.com/elliotchance/orderedmap/v3 v3.1.0 // indirect
	github.com/emirpasic/gods v1.18.1 // indirect
	github.com/fatih/color v1.18.0 // indirect
	github.com/fsnotify/fsnotify v1.9.0 // indirect
	github.com/go-git/gcfg v1.5.1-0.20230307220236-3a3c6141e376 // indirect
	github.com/go-git/go-billy/v5 v5.6.2 // indirect
	github.com/go-git/go-git/v5 v5.15.0 // indirect
	github.com/go-task/slim-sprig/v3 v3.0.0 // indirect
	github.com/go-task/template v0.1.0 // indirect
	github.com/golang/groupcache v0.0.0-20241129210726-2c02b8208cf8 // indirect
	github.com/jbenet/go-context v0.0.0-20150711004518-d14ea06fba99 // indirect
	github.com/joho/godotenv v1.5.1 // indirect
	github.com/kevinburke/ssh_config v1.2.0 // indirect
	github.com/klauspost/cpuid/v2 v2.2.7 // indirect
	github.com/mattn/go-colorable v0.1.13 // indirect
	github.com/mattn/go-isatty v0.0.20 // indirect
	github.com/mitchellh/hashstructure/v2 v2.0.2 // indirect
	github.com/pjbgf/sha1cd v0.3.2 // indirect
	github.com/pmezard/go-difflib v1.0.0 // indirect
	github.com/puzpuzpuz/xsync/v3 v3.5.1 // indirect
	github.com/sajari/fuzzy v1.0.0 // indirect
	github.com/sergi/go-diff v1.3.2-0.20230802210424-5b0b94c5c0d3 // indirect
	github.com/skeema/knownhosts v1.3.1 // indirect
	github.com/stretchr/objx v0.5.2 // indirect
	github.com/stretchr/testify v1.10.0 // indirect
	github.com/xanzy/ssh-agent v0.3.3 // indirect
	github.com/zeebo/xxh3 v1.0.2 // indirect
	golang.org/x/crypto v0.37.0 // indirect
	golang.org/x/net v0.39.0 // indirect
	golang.org/x/sync v0.13.0 // indirect
	golang.org/x/sys v0.32.0 // indirect
	golang.org/x/term v0.31.0 // indirect
	gopkg.in/warnings.v0 v0.1.2 // indirect
)

replace github.com/go-task/task/v3 => /repo
