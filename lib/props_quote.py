"""C19 (model G "Quote"): configuration of bin/check and the signature of a failing case.

A failing monitor is mapped to the defect it shows by the case's `class`, which the driver
(harness/drivers/quote) computes from what was passed and what was observed:

  cli_args:rendered-as-go-slice   the recorded argv is the passed one with "[" glued to the first and "]" to the
                                  last argument (or the single argument "[]" when none was passed)
  template:no-value-stripped      the recorded argv / rendered text is the passed one minus every "<no value>"
  template:cli-value-evaluated    a value containing "{{" came out different (or the run stopped on a template error)
  init:path-from-after-dash       --init behaved as the specification does when given the first argument AFTER "--"
                                  (shell-quoted) instead of the positional one
  init:dot-is-ext-only            filepathext.IsExtOnly(".") is true

Anything else keeps the raw class in its signature, so it is never covered by a recorded finding.
"""


def sig_c19(f):
    k = f["kind"]
    inp = f.get("input") or {}
    cls = inp.get("class") or "unclassified"
    tmpl = {"no-value-stripped": "template:no-value-stripped",
            "value-evaluated-as-template": "template:cli-value-evaluated"}
    if k == "R_cli_mon":
        if cls == "go-slice-brackets":
            return "cli_args:rendered-as-go-slice"
        return tmpl.get(cls, "cli_args:" + cls)
    if k == "R_sq_mon":
        return tmpl.get(cls, "shellquote:" + cls)
    if k == "R_tmpl_mon":
        return tmpl.get(cls, "template:" + cls)
    if k == "R_init_mon":
        if cls == "path-from-after-dash":
            return "init:path-from-after-dash"
        return "init:" + cls
    if k == "R_extonly_mon":
        if cls == "dot-is-ext-only":
            return "init:dot-is-ext-only"
        return "init:extonly:" + cls
    if k == "R_quote_mon":
        return "quote:not-one-identical-word"
    if k == "R_parse_mon":
        return "splitvar:not-first-equals"
    return k


PROPS = {
    "C19": dict(
        src="Properties/C19.v", target="Properties/C19.vo",
        # statements about the tree as it is: the "flag is repaired" premises discharged against Extracted.Facts
        more_src=["Properties/C19Current.v"],
        support=["Quote/Model.vo", "Quote/ProofsCodec.vo", "Quote/ProofsMisc.vo"], run_targets=["Run/QuoteCases.vo", "Quote/ProofsCurrent.vo"],
        drivers=[dict(name="quote", n_quick=2000, n_thorough=24000, shard=250,
                      results={"R_quote_agree": "agree", "R_quote_mon": "mon",
                               "R_fields_agree": "agree",
                               "R_get_agree": "agree",
                               "R_tmpl_agree": "agree", "R_tmpl_mon": "mon",
                               "R_parse_agree": "agree", "R_parse_mon": "mon",
                               "R_extonly_agree": "agree", "R_extonly_mon": "mon",
                               "R_cli_agree": "agree", "R_cli_mon": "mon",
                               "R_sq_agree": "agree", "R_sq_mon": "mon",
                               "R_init_agree": "agree", "R_init_mon": "mon"})],
        signature=sig_c19,
        rule="cases per 20: 5 quote (real syntax.Quote(s, LangBash) vs Model.quote byte for byte on Go's own decoding of s; monitor: the model's strict shell reader turns the real output back into exactly [s]), "
             "2 fields (mvdan shell.Fields vs Model.fields_g on generated words: bare / '..' / \"..\" / $'..' segments), 1 get (args.Get after a real pflag parse, by reflection: result kind and text vs the model), "
             "1 tmpl (templater.Replace on action-free text vs Model.maybe_strip; monitor: unchanged), 2 parse (args.Parse vs Model.parse_args; monitor: NAME=value cut at the first '='), "
             "1 extonly (filepathext.IsExtOnly vs model; monitor: '.' is not an extension), 4 cli (the real task binary under a SIGKILL deadline runs `argvrec {{.CLI_ARGS}}`; the argv the helper recorded vs the bytes passed after -- (monitor mon_argv) and vs Model.deliver_cli for the current tree), "
             "2 sq (`argvrec {{shellQuote .X}}` with X=value on the command line; the same), 2 init (--init [path] [-- path] in a generated directory tree; tree before/after vs monitor mon_init and vs Model.init_cmd). "
             "strings: concatenations of pieces special to the shell (quotes, blanks, $, backslash, glob/brace characters, =, operators), to templates ({{..}}, <no value>), control and non-printable runes, invalid UTF-8; "
             "up to 50 arguments / 4 KiB in the quick tier, 200 arguments / 64 KiB in the thorough tier. non-trivial = non-empty input; distinct = distinct (kind, input) tuples",
        assumptions=["the shell reads the argument text of a simple command as Model.fields_g does: blanks separate words, '..' is literal, \"..\" honours backslash before \" \\ ` $, $'..' honours the ANSI-C escapes (POSIX 2.2, bash manual 3.1.2.4); checked against mvdan/sh on generated words and through the real binary",
                     "a glob character in an unquoted word stays literal when no file matches (fields_g true; the harness runs in a directory where none does)",
                     "unicode.IsPrint is taken from the implementation per rune (the theorems hold for every assignment of the printable flag)"],
        trusted=["modelled, not verified: mvdan.cc/sh (syntax.Quote is specified by Model.quote and compared byte for byte; the interpreter's word parsing by Model.fields_g), text/template (a value containing {{ is outside the model: Unmodelled), the OS file system for --init (a path -> node map)"],
    ),
}
