"""bin/check configuration of C20 (remote Taskfiles, model H, driver remote)."""


def _last(f):
    inp = f.get("input") or {}
    steps = (inp.get("history") or {}).get("steps") or []
    obs = inp.get("observed") or []
    return (steps[-1] if steps else {}), (obs[-1] if obs else {})


def _flags(st):
    names = ["yes", "download", "offline", "clear", "insecure"]
    fl = [n for n in names if st.get(n)]
    if st.get("expiry_s"):
        fl.append("expiry")
    if st.get("answer") and st.get("answer") != "noterm":
        fl.append(st["answer"])
    return "+".join(fl) or "none"


def _cache(c):
    if not c:
        return "?"
    if c.get("content") is None and c.get("sum") is None:
        return "empty"
    if c.get("content") is not None and c.get("content") == c.get("sum"):
        return "approved"
    return "content=%s,sum=%s" % (c.get("content"), c.get("sum"))


def sig_c20(f):
    """One narrow signature per distinct defect; anything unforeseen spells out the failing step."""
    k = f["kind"]
    st, ob = _last(f)
    if not st:
        return k
    srv = st.get("server", "?")
    generic = "%s:server=%s:flags=%s:pre=%s:exit=%s:ran=%s:post=%s" % (
        k, srv, _flags(st), _cache(ob.get("pre")), ob.get("exit"), ob.get("ran"), _cache(ob.get("post")))
    if k == "R_keeps":
        # 7.33: the connection fails outright (no HTTP answer), an approved copy is cached, the
        # invocation is not --offline; the code gives up with 103 instead of using the copy
        # (it only falls back when the context timed out).  Nothing ran, the cache is untouched.
        if (srv in ("down", "refuse") and not st.get("offline") and ob.get("exit") == 103
                and ob.get("ran") == [] and ob.get("pre") == ob.get("post")):
            return "keeps:fetch-error-no-cache-fallback:exit=103"
    return generic


PROPS = {
    "C20": dict(
        src="Properties/C20.v", target="Properties/C20.vo",
        support=["Remote/Model.vo", "Remote/Proofs.vo", "Remote/ProofsTie.vo"], run_targets=["Run/RemoteCases.vo"],
        drivers=[dict(name="remote", n_quick=480, n_thorough=2400, shard=120, extra="enum_shards=20",
                      results={"R_agree": "agree", "R_only_approved": "mon", "R_unapproved": "mon",
                               "R_keeps": "mon", "R_http": "mon"})],
        signature=sig_c20,
        rule="case = one history (<= 4 invocations) of (server state, CLI flags) run with the real task binary against a local scripted "
             "HTTP server (versions, listener closed, connection dropped, slower than --timeout, slow but in time, non-200); a remote "
             "include or -t URL; prompts answered on a pty (y/n) or refused for lack of a terminal, or --yes; time passing = the stored "
             "fetch time moved back. Per invocation: exit status, which version's probe appended to the trace file, the three cache files. "
             "agree: the Coq model started from the observed cache state predicts exit, probes and cache after the step; "
             "mon: the four C20 monitors of Remote/Model.v on the observed step. thorough adds all histories of length <= 3 over "
             "5 server states x 6 flag sets (and length <= 2 after an approved download). "
             "non-trivial = --insecure given (the remote code is reached); distinct = distinct (via, cache class, server, flags, outcome) tuples",
        assumptions=["sha256 is injective on the contents involved (digest oracle of the theorems)",
                     "one remote URL; the three cache files are written one after the other and the process is not killed in between (C20_only_approved_kill_refuted shows what a kill can do)",
                     "time passing is simulated by moving <key>.timestamp into the past (the code only compares it with time.Now())"],
        trusted=["modelled, not verified: net/http client and server, the YAML decoder and the executor that runs the probe task, the OS clock",
                 "not covered: git nodes, several remote includes in one graph, nested remote includes, optional includes, https"],
    ),
}
