"""bin/check configuration of C20 (remote Taskfiles, model H, driver remote)."""


def _last(f):
    inp = f.get("input") or {}
    steps = (inp.get("history") or {}).get("steps") or []
    obs = inp.get("observed") or []
    return (steps[-1] if steps else {}), (obs[-1] if obs else {})


def _flags(st):
    names = ["yes", "download", "offline", "clear", "insecure"]
    fl = [n for n in names if st.get(n)]
    if st.get("expiry_s"):
        fl.append("expiry")
    if st.get("answer") and st.get("answer") != "noterm":
        fl.append(st["answer"])
    return "+".join(fl) or "none"


def _cache(c):
    if not c:
        return "?"
    if c.get("content") is None and c.get("sum") is None:
        return "empty"
    if c.get("content") is not None and c.get("content") == c.get("sum"):
        return "approved"
    return "content=%s,sum=%s" % (c.get("content"), c.get("sum"))


def sig_c20(f):
    """One narrow signature per distinct defect; anything unforeseen spells out the failing step."""
    k = f["kind"]
    st, ob = _last(f)
    if not st:
        return k
    srv = st.get("server", "?")
    generic = "%s:server=%s:flags=%s:pre=%s:exit=%s:ran=%s:post=%s" % (
        k, srv, _flags(st), _cache(ob.get("pre")), ob.get("exit"), ob.get("ran"), _cache(ob.get("post")))
    pre, post, ran = ob.get("pre") or {}, ob.get("post") or {}, ob.get("ran") or []
    if k in ("R_only_approved", "R_ran_approved") and ran and any(v != pre.get("sum") for v in ran) \
            and pre.get("content") in ran and post == pre:
        # bytes sitting in the cache whose checksum is not the approved one were executed without a
        # download in this invocation (the cache-reading paths never consult .checksum)
        if st.get("offline"):
            mode = "offline"
        elif srv in ("down", "refuse", "slow"):
            mode = "fallback"
        else:
            mode = "fresh-cache"
        rec = "nothing-approved" if pre.get("sum") is None else "other-version-approved"
        return "unapproved-cached-content-ran:%s:%s" % (mode, rec)
    if k in ("R_guarded", "R_unapproved") and ob.get("exit") == 104 and ran == [] and post.get("content") != pre.get("content") \
            and post.get("sum") == pre.get("sum"):
        # a declined (104) invocation left the offered, unapproved bytes in <key>.yaml
        return "declined-run-stored-content:exit=104"
    if k == "R_keeps":
        # 7.33: the connection fails outright (no HTTP answer), an approved copy is cached, the
        # invocation is not --offline; the code gives up with 103 instead of using the copy
        # (it only falls back when the context timed out).  Nothing ran, the cache is untouched.
        if (srv in ("down", "refuse") and not st.get("offline") and ob.get("exit") == 103
                and ob.get("ran") == [] and ob.get("pre") == ob.get("post")):
            return "keeps:fetch-error-no-cache-fallback:exit=103"
    return generic


PROPS = {
    "C20": dict(
        src="Properties/C20.v", target="Properties/C20.vo",
        # statements about the tree as it is: the "flag is repaired" premises discharged against Extracted.Facts
        more_src=["Properties/C20Current.v"],
        # support must NOT contain anything that depends on the extracted facts being what the proofs expect
        # (Remote/ProofsTie.vo): vcheck runs the harness only when support builds, and a broken tie is exactly
        # the situation in which a concrete failing history has to be searched for.
        support=["Remote/Model.vo"], run_targets=["Run/RemoteCases.vo"],
        drivers=[dict(name="remote", n_quick=480, n_thorough=2400, shard=120, extra="enum_shards=20",
                      results={"R_agree": "agree", "R_only_approved": "mon", "R_ran_approved": "mon", "R_guarded": "mon", "R_unapproved": "mon",
                               "R_keeps": "mon", "R_http": "mon"})],
        signature=sig_c20,
        rule="case = one history (<= 4 invocations) of (server state, CLI flags) run with the real task binary against a local scripted "
             "HTTP server (versions, listener closed, connection dropped, slower than --timeout, slow but in time, non-200); a remote "
             "include or -t URL; prompts answered on a pty (y/n) or refused for lack of a terminal, or --yes; time passing = the stored "
             "fetch time moved back. Per invocation: exit status, which version's probe appended to the trace file, the three cache files. "
             "agree: the Coq model started from the observed cache state predicts exit, probes and cache after the step; "
             "mon: the C20 monitors of Remote/Model.v on the observed step (only_approved: what ran has the checksum on record, the record changes only with approval; "
             "ran_approved: what ran is among the versions the user approved so far in that history, computed from the inputs alone; guarded: the cached bytes change only "
             "to approved/unchanged offered content and stay consistent with the checksum; unapproved: 104, nothing ran, cache untouched; keeps: cache keeps running; http refused). "
             "every shard first runs directed histories: the reproducers, and (approve v1 | nothing) -> unapproved v2 (no terminal / n / --download) -> each cache-reading mode "
             "(--offline, TASK_OFFLINE, fresh under --expiry, server down / refusing / slower than --timeout) -> --offline. thorough adds all histories of length <= 3 over "
             "5 server states x 6 flag sets (and length <= 2 after an approved download). "
             "non-trivial = --insecure given (the remote code is reached); distinct = distinct (via, cache class, server, flags, outcome) tuples",
        assumptions=["sha256 is injective on the contents involved (digest oracle of the theorems)",
                     "one remote URL; the three cache files are written one after the other and the process is not killed in between (C20_only_approved_kill_refuted shows what a kill can do)",
                     "time passing is simulated by moving <key>.timestamp into the past (the code only compares it with time.Now())"],
        trusted=["modelled, not verified: net/http client and server, the YAML decoder and the executor that runs the probe task, the OS clock",
                 "not covered: git nodes, several remote includes in one graph, nested remote includes, optional includes, https"],
    ),
}
