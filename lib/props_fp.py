"""Model B "Fp": C04 (up-to-date soundness), C05 (change detection / idempotence), C12 (read-only modes).

One driver (harness/drivers/fp) serves the three properties; -x prop=... selects the generator.
The signature of a failure = result name + the label the driver's diagnosis gave to the FIRST
suspicious step of the case (diag.go); the fingerprint method is kept only where the defect is
method specific.  A failure the diagnosis cannot name gets the signature '<R>:unclassified:<shape>'
and is therefore reported as a VIOLATION."""

_BOTH_METHODS = ("skip-after-declined", "skip-after-listjson", "skip-after-killed", "rerun-without-change")


def _strip_method(label):
    for pre in _BOTH_METHODS:
        if label.startswith(pre):
            return label.replace(":checksum", "").replace(":timestamp", "")
    return label


def _sig(diag_key):
    def f(fl):
        k = fl["kind"]
        inp = fl.get("input") or {}
        diag = inp.get("diag") or {}
        if k == "R_c12c":
            c = inp.get("commute") or ""
            d = diag.get("c12")
            # the continuation differs because the query had a side effect: name it by that side effect
            return "R_c12c:" + (_strip_method(d) if d else (c or "unclassified:" + str(inp.get("shape"))))
        if k in ("R_c04", "R_c05", "R_c12"):
            d = diag.get(diag_key)
            if d:
                return k + ":" + _strip_method(d)
            return k + ":unclassified:" + str(inp.get("shape"))
        return k
    return f


_SUPPORT = ["Fp/Model.vo"]
_RUN = ["Run/FpCases.vo"]
_TRUSTED = ["modelled, not verified: mvdan/sh (task bodies are probes: append to a trace file, exit status from the environment), "
            "xxh3 (an uninterpreted function; the correspondence compares digests up to a bijection), the OS file system "
            "(a map with logical mtimes; the harness sets every mtime with os.Chtimes and renormalises files the binary touched)",
            "glob matching: the Coq matcher gmatch for the generated pattern family (literals, *, **) stands for mvdan expand.Fields"]
_ASSUME = ["H_inj / Hx_inj: the digest of a fingerprint is injective (stated in the theorems as hypotheses)",
           "task bodies write their generates files only after every command succeeded; histories do not write the outputs or .task directly",
           "crash points are command boundaries (SIGKILL of the task process from inside a command)"]
_RULE = ("case = project (1-2 fingerprinted tasks; shapes plain/gen/gen2 (two generates entries)/prompt/status/dir/label/collide/inst (one definition with label 'deploy-{{.ENV}}', "
         "two instances ENV=staging|prod, called from the CLI and by a parent task calling both)/silent-task/silent-cmd/silent-file x method checksum|timestamp) + history of "
         "file operations and invocations of the real CLI (run/force/dry/status/list-all --json/list-all/summary; outcomes ok, fail@k, "
         "prompt declined, SIGKILL@k); after every operation the tree incl. .task and the trace file are snapshotted. "
         "R_agree: the Coq model (variant derived from extracted facts) replays the history and must reproduce result and snapshot of every step "
         "(digests up to bijection). R_c0x/R_c12: the property's monitor (same function as in the theorems) on the observed behaviour. "
         "R_c12c: H;R;K vs H;K on two copies. exhaustive: all histories up to length 3 (thorough 4) over the property's op alphabet for the main shape, "
         "length 2 (3) + probing run for the others; directed: [run; <unsuccessful attempt: fail/kill/declined x normal/--force>; run], partial removal of generates, "
         "instances of a templated label, --dry --silent; plus -n random longer histories per shard. A silent --dry is observed as RDryQ (RDry or RSkipped). non-trivial = at least one CLI invocation; "
         "distinct = distinct (shape, history, results)")


def _drv(prop, results, shards_q=8, shards_t=32, per=6):
    # vcheck starts n/shard jobs with seeds seed*1000+s; job s enumerates slice s of the exhaustive part
    # and adds `per` (thorough: 10*per) random histories
    return dict(name="fp", n_quick=shards_q * per, n_thorough=shards_t * per, shard=per,
                extra="prop=%s,shards_quick=%d,shards_thorough=%d" % (prop, shards_q, shards_t), results=results)


PROPS = {
    "C04": dict(src="Properties/C04.v", target="Properties/C04.vo", support=_SUPPORT, run_targets=_RUN,
                drivers=[_drv("C04", {"R_agree": "agree", "R_c04": "mon"})],
                signature=_sig("c04"), rule=_RULE, assumptions=_ASSUME, trusted=_TRUSTED),
    "C05": dict(src="Properties/C05.v", target="Properties/C05.vo", support=_SUPPORT, run_targets=_RUN,
                drivers=[_drv("C05", {"R_agree": "agree", "R_c05": "mon"})],
                signature=_sig("c05"), rule=_RULE, assumptions=_ASSUME, trusted=_TRUSTED),
    "C12": dict(src="Properties/C12.v", target="Properties/C12.vo", support=_SUPPORT, run_targets=_RUN,
                drivers=[_drv("C12", {"R_agree": "agree", "R_c12": "mon", "R_c12c": "mon"})],
                signature=_sig("c12"), rule=_RULE, assumptions=_ASSUME, trusted=_TRUSTED),
}
