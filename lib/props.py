"""Per-property configuration of bin/check.  Fragments lib/props_*.py each define PROPS (a dict) and are merged in."""


def sig_c17(f):
    k = f["kind"]
    inp = f.get("input") or {}
    if k == "R_grun":
        return "group:block-torn" + (":begin-set" if inp.get("begin") else "")
    return k


PROPS = {
    "C17": dict(
        src="Properties/C17.v", target="Properties/C17.vo",
        support=["Output/Model.vo"], run_targets=["Run/OutputCases.vo"],
        drivers=[dict(name="output", n_quick=400, n_thorough=6000, shard=200,
                      results={"R_gunit": "agree", "R_punit": "agree", "R_grun": "mon", "R_prun": "mon"})],
        signature=sig_c17,
        rule="cases: (gunit|punit) one wrapped command with random chunks fed to the real output.Group/Prefixed writer, sink writes compared byte-for-byte with the Coq model; "
             "(grun|prun) 2-3 parallel dep tasks run by the real Executor with output: group/prefixed, sink writes released in a PRNG-chosen interleaving by the controlled scheduler, monitor mon_group/mon_prefixed evaluated in Coq on what reached stdout. "
             "non-trivial = at least one sink write; distinct = distinct (config, chunks, observed sink) tuples",
        assumptions=["shell builtins (printf) deliver each chunk as one Write to the wrapper",
                     "interleavings of writes on the shared stream = shuffles of atoms (single writes, or mutex sections)"],
        trusted=["modelled, not verified: mvdan/sh, bytes.Buffer, the io.Writer the user passes as Stdout"],
    ),
}


def _load_fragments():
    import glob, importlib.util, os
    here = os.path.dirname(os.path.abspath(__file__))
    for f in sorted(glob.glob(os.path.join(here, "props_*.py"))):
        spec = importlib.util.spec_from_file_location(os.path.basename(f)[:-3], f)
        m = importlib.util.module_from_spec(spec)
        spec.loader.exec_module(m)
        PROPS.update(getattr(m, "PROPS", {}))


_load_fragments()
