#!/usr/bin/env python3
"""Driver of every check: facts -> obligations -> implementation runs -> Coq evaluation -> verdict -> evidence.

usage: bin/check <ID> [--tier quick|thorough] [--replay <file>]
"""
import fcntl
import hashlib
import json
import os
import re
import shutil
import subprocess
import sys
import time
from concurrent.futures import ThreadPoolExecutor

VERIF = os.path.dirname(os.path.dirname(os.path.abspath(__file__)))
REPO = os.environ.get("VERIF_REPO", "/repo")
BUILD = os.path.join(VERIF, ".build")
COQ = os.path.join(VERIF, "coq")
GOENV = dict(os.environ, GOFLAGS="-mod=mod", GOPROXY="off", GOSUMDB="off", GOTOOLCHAIN="local",
             GOCACHE=os.path.join(BUILD, "gocache"))

sys.path.insert(0, os.path.join(VERIF, "lib"))
from props import PROPS  # noqa: E402


def sh(cmd, cwd=None, env=None, timeout=None, stdin=None):
    """run a command, return (rc, combined output)."""
    try:
        p = subprocess.run(cmd, cwd=cwd, env=env, timeout=timeout, stdout=subprocess.PIPE,
                           stderr=subprocess.STDOUT, input=stdin, shell=isinstance(cmd, str))
        return p.returncode, p.stdout.decode("utf-8", "replace")
    except subprocess.TimeoutExpired as e:
        out = (e.stdout or b"").decode("utf-8", "replace")
        return 124, out + "\n[timeout]"


class Lock:
    def __init__(self, name):
        os.makedirs(BUILD, exist_ok=True)
        self.path = os.path.join(BUILD, name + ".lock")

    def __enter__(self):
        self.f = open(self.path, "w")
        fcntl.flock(self.f, fcntl.LOCK_EX)

    def __exit__(self, *a):
        fcntl.flock(self.f, fcntl.LOCK_UN)
        self.f.close()


def build_tools(log, drivers):
    """extractor, harness drivers and CLI binary, from /repo's current working tree."""
    with Lock("build"):
        rc, out = sh(["go", "build", "-o", os.path.join(BUILD, "extract"), "."], cwd=os.path.join(VERIF, "extract"), env=GOENV, timeout=600)
        if rc != 0:
            log.append("extract build failed:\n" + out)
            return False
        shutil.copyfile(os.path.join(REPO, "go.sum"), os.path.join(VERIF, "harness", "go.sum"))
        for d in drivers:
            rc, out = sh(["go", "build"] + d.get("build_flags", []) + ["-o", os.path.join(BUILD, "vh-" + d["name"]), "./cmd/" + d.get("cmd", d["name"])],
                         cwd=os.path.join(VERIF, "harness"), env=GOENV, timeout=900)
            if rc != 0:
                log.append("harness build failed (%s):\n%s" % (d["name"], out))
                return False
        rc, out = sh(["go", "build", "-o", os.path.join(BUILD, "task"), "./cmd/task"], cwd=REPO, env=GOENV, timeout=900)
        if rc != 0:
            log.append("task CLI build failed:\n" + out)
            return False
    return True


def coq_make(targets, log, timeout=1500):
    """(re)generate facts and build the given .vo targets. returns (ok, output)."""
    with Lock("coq"):
        rc, out = sh([os.path.join(BUILD, "extract"), REPO, os.path.join(COQ, "Extracted", "Facts.v")], timeout=120)
        if rc != 0:
            return False, "extract failed:\n" + out
        gen_coq_project()
        rc, out = sh(["make", "-j16"] + targets, cwd=COQ, timeout=timeout)
        return rc == 0, out


def gen_coq_project():
    """_CoqProject = concatenation of project.d/*.txt; Makefile regenerated when it changes."""
    import glob
    lines = []
    for f in sorted(glob.glob(os.path.join(COQ, "project.d", "*.txt"))):
        for ln in open(f).read().splitlines():
            t = ln.strip()
            # a listed .v file that does not exist (yet) must not break everybody else's build
            if t.endswith(".v") and not os.path.exists(os.path.join(COQ, t)) and t != "Extracted/Facts.v":
                continue
            if t:
                lines.append(t)
    content = "\n".join(lines) + "\n"
    cp = os.path.join(COQ, "_CoqProject")
    old = open(cp).read() if os.path.exists(cp) else None
    if old != content or not os.path.exists(os.path.join(COQ, "Makefile")):
        open(cp, "w").write(content)
        sh(["coq_makefile", "-f", "_CoqProject", "-o", "Makefile"], cwd=COQ, timeout=120)


def theorem_names(vfile):
    src = open(vfile).read()
    return re.findall(r"^\s*(?:Theorem|Example)\s+([A-Za-z0-9_']+)", src, re.M)


def parse_assumptions(vfile):
    """re-run coqc on the property file alone to read the Print Assumptions output per theorem."""
    rc, out = sh(["coqc", "-Q", ".", "TV", os.path.relpath(vfile, COQ)], cwd=COQ, timeout=900)
    names = re.findall(r"^\s*Print Assumptions\s+([A-Za-z0-9_']+)", open(vfile).read(), re.M)
    blocks = re.split(r"(?=Closed under the global context|Axioms:)", out)
    res = []
    blocks = [b for b in blocks if b.startswith("Closed under") or b.startswith("Axioms:")]
    for i, n in enumerate(names):
        if i < len(blocks):
            b = blocks[i].strip()
            res.append((n, "Closed under the global context" if b.startswith("Closed") else " ".join(b.split())))
        else:
            res.append((n, "?"))
    return rc == 0, res, out


def run_driver(drv, seed, n, tier, outdir, replay=None, extra=None):
    os.makedirs(outdir, exist_ok=True)
    cmd = [os.path.join(BUILD, "vh-" + drv), "-seed", str(seed), "-n", str(n), "-out", outdir, "-tier", tier]
    if replay:
        cmd += ["-replay", replay]
    if extra:
        cmd += ["-x", extra]
    env = dict(GOENV, VERIF_TASK_BIN=os.path.join(BUILD, "task"), VERIF_BUILD=BUILD)
    t0 = time.time()
    rc, out = sh(["timeout", "-s", "KILL", "1500"] + cmd, env=env, timeout=1600)
    return rc, out, time.time() - t0


def eval_cases(outdir):
    """coqc cases.v; returns dict name -> list of failing indices (indices local to that list)."""
    if not os.path.exists(os.path.join(outdir, "cases.v")):
        return None, "no cases.v"
    rc, out = sh(["coqc", "-Q", COQ, "TV", "cases.v"], cwd=outdir, timeout=1500)
    if rc != 0:
        return None, out
    flat = " ".join(out.split())
    res = {}
    for m in re.finditer(r"(R_[A-Za-z0-9_]+) = (\[[^\]]*\])", flat):
        body = m.group(2).strip("[]").strip()
        res[m.group(1)] = [int(x) for x in re.split(r"[;\s]+", body) if x.strip().isdigit()] if body else []
    return res, out


def load_known():
    """open findings of KNOWN_FINDINGS.json plus the fragments known.d/*.json (same format)."""
    import glob
    out = []
    for p in [os.path.join(VERIF, "KNOWN_FINDINGS.json")] + sorted(glob.glob(os.path.join(VERIF, "known.d", "*.json"))):
        if os.path.exists(p):
            out += [f for f in json.load(open(p)).get("findings", []) if f.get("status", "open") == "open"]
    return out


def main():
    args = sys.argv[1:]
    if not args:
        print(__doc__)
        sys.exit(2)
    pid = args[0]
    tier = os.environ.get("VERIF_TIER", "quick")
    replay = None
    i = 1
    while i < len(args):
        if args[i] == "--tier":
            tier = args[i + 1]; i += 2
        elif args[i] == "--replay":
            replay = args[i + 1]; i += 2
        else:
            i += 1
    if tier not in ("quick", "thorough"):
        tier = "quick"
    seed = int(os.environ.get("VERIF_SEED", "1") or 1)
    prop = PROPS[pid]
    t0 = time.time()
    log = []
    evdir = os.path.join(VERIF, "evidence")
    os.makedirs(os.path.join(evdir, "replays"), exist_ok=True)
    work = os.path.join(BUILD, "work", "%s-%d" % (pid, os.getpid()))
    shutil.rmtree(work, ignore_errors=True)
    os.makedirs(work)

    violations = []      # (signature, description, replay_path or None)
    notes = []

    if not build_tools(log, prop["drivers"]):
        print("\n".join(log))
        # the tree no longer builds with the harness: the tie cannot be checked
        rp = write_replay(evdir, pid, seed, "build", {"broken": "build of harness/CLI against /repo", "log": log[-1][-4000:]})
        print("VIOLATION property=%s replay=%s no-failing-input-found" % (pid, rp))
        write_evidence(pid, tier, seed, prop, dict(obligations=len(theorem_names(os.path.join(COQ, prop["src"]))), discharged=0,
                                                  assumptions=[], runs=[], failures=1, wall=time.time() - t0, notes=log))
        sys.exit(1)

    # --- obligations ---
    vfile = os.path.join(COQ, prop["src"])
    # further property files of the same property (theorems proved later, one file per proof family)
    more = [os.path.join(COQ, m) for m in prop.get("more_src", []) if os.path.exists(os.path.join(COQ, m))]
    thms = theorem_names(vfile)
    for mf in more:
        thms += theorem_names(mf)
    # the run targets (checkers used by cases.v) decide whether the implementation can be run and judged;
    # further support targets (proof files tied to extracted facts) only count as obligations
    ok_run, out_run = coq_make(prop.get("run_targets", []), log)
    ok_support, out_support = coq_make(prop.get("support", []), log)
    ok_prop, out_prop = coq_make([prop["target"]] + [os.path.relpath(m, COQ)[:-2] + ".vo" for m in more], log)
    assumptions = []
    if ok_prop:
        _, assumptions, _ = parse_assumptions(vfile)
        for mf in more:
            assumptions += parse_assumptions(mf)[1]
    discharged = len(thms) if ok_prop else 0
    broken = []
    if not ok_run:
        broken.append(("run-targets", out_run[-3000:]))
    if not ok_support:
        broken.append(("support", out_support[-3000:]))
    if not ok_prop:
        m = re.search(r'File "\./([^"]+)", line (\d+)', out_prop)
        broken.append(("obligation", (m.group(0) + "\n" if m else "") + out_prop[-3000:]))
    bad_axioms = [a for a in assumptions if a[1] != "Closed under the global context" and not allowed_axioms(a[1])]
    if bad_axioms:
        broken.append(("axioms", json.dumps(bad_axioms)))

    # --- run the implementation + evaluate in Coq ---
    mult = 1
    if broken:
        mult = 4  # search harder for a concrete failing input
    runs = []
    fails = []   # dicts: kind, driver, case_input, detail
    disagreements = []
    all_obs = []
    if ok_run:
        jobs = []
        for d in prop["drivers"]:
            n = d.get("n_" + tier, d.get("n_quick", 100)) * mult
            shard = d.get("shard", 250)
            k = 0
            s = 0
            while k < n:
                m_ = min(shard, n - k)
                jobs.append((d, seed * 1000 + s, m_, os.path.join(work, "%s-%d" % (d["name"], s))))
                k += m_
                s += 1
        if replay:
            d = prop["drivers"][0]
            rp = json.load(open(replay))
            dn = rp.get("driver", d["name"])
            d = [x for x in prop["drivers"] if x["name"] == dn][0]
            jobs = [(d, seed, 1, os.path.join(work, "replay"))]

        def job(j):
            d, sd, n, od = j
            rc, out, dt = run_driver(d["name"], sd, n, tier, od, replay=replay, extra=d.get("extra"))
            res, cout = (None, "")
            if rc == 0:
                res, cout = eval_cases(od)
                for _ in range(2):
                    if res is None and "inconsistent assumptions" in cout:
                        # another check rebuilt a shared .vo between our make and this coqc: rebuild and retry
                        coq_make(prop.get("support", []) + prop.get("run_targets", []), log)
                        res, cout = eval_cases(od)
            return (j, rc, out, dt, res, cout)

        with ThreadPoolExecutor(max_workers=int(os.environ.get("VERIF_JOBS", "8"))) as ex:
            results = list(ex.map(job, jobs))
        for (d, sd, n, od), rc, out, dt, res, cout in results:
            run = dict(driver=d["name"], seed=sd, n=n, rc=rc, wall_s=round(dt, 2))
            runs.append(run)
            obs = None
            try:
                obs = json.load(open(os.path.join(od, "obs.json")))
            except Exception:
                pass
            if rc != 0 or obs is None:
                broken.append(("harness", "driver %s rc=%s\n%s" % (d["name"], rc, out[-3000:])))
                continue
            all_obs.append(obs)
            idx = {}
            try:
                idx = json.load(open(os.path.join(od, "index.json")))
            except Exception:
                pass
            inputs = obs.get("case_inputs") or []
            for f in obs.get("impl_failures") or []:
                if f["kind"] == "inconclusive":
                    notes.append("inconclusive case %s: %s" % (f["case"], f["msg"][:200]))
                    continue
                ci = inputs[f["case"]] if f["case"] < len(inputs) else None
                fails.append(dict(kind=f["kind"], driver=d["name"], input=ci, detail=f["msg"][:4000], seed=sd))
            if res is None:
                broken.append(("cases", "coqc cases.v failed for %s:\n%s" % (d["name"], cout[-3000:])))
                continue
            for rname, kind in d["results"].items():
                if rname not in res:
                    broken.append(("cases", "result %s missing in coqc output of %s" % (rname, d["name"])))
                    continue
                for li in res[rname]:
                    gi = idx.get(rname, [])[li] if li < len(idx.get(rname, [])) else li
                    ci = inputs[gi] if gi < len(inputs) else None
                    rec = dict(kind=rname, driver=d["name"], input=ci, detail="", seed=sd)
                    if kind == "mon":
                        fails.append(rec)
                    else:
                        disagreements.append(rec)

    # --- decide ---
    known = [k for k in load_known() if k["property"] == pid]
    sigf = prop.get("signature", lambda f: f["kind"])
    exit_code = 0
    reported = set()
    known_hits = {}
    for f in fails:
        sig = sigf(f)
        hit = [k for k in known if k["signature"] == sig]
        if hit:
            known_hits.setdefault(sig, (hit[0], f))
            continue
        if sig in reported:
            continue
        reported.add(sig)
        rp = write_replay(evdir, pid, seed, sig, dict(driver=f["driver"], input=f["input"], failed=f["kind"], detail=f["detail"], signature=sig))
        print("VIOLATION property=%s replay=%s" % (pid, rp))
        exit_code = 1
    for sig, (k, f) in known_hits.items():
        print("KNOWN-FINDING: property=%s %s" % (pid, k["description"]))
    if exit_code == 0 and (broken or disagreements) :
        # broken obligation/correspondence but no monitor failure that is not already known
        unexplained_broken = [b for b in broken if not explained_by_known(b, known_hits, prop)]
        unexplained_dis = [d_ for d_ in disagreements if not any(k["signature"] == sigf(d_) for k in known)]
        if unexplained_broken or unexplained_dis:
            what = dict(broken=[dict(kind=b[0], detail=b[1]) for b in unexplained_broken],
                        disagreements=[dict(kind=d_["kind"], driver=d_["driver"], input=d_["input"]) for d_ in unexplained_dis[:5]],
                        theorem_file=prop["src"])
            rp = write_replay(evdir, pid, seed, "unchecked", what)
            print("VIOLATION property=%s replay=%s no-failing-input-found" % (pid, rp))
            for b in unexplained_broken:
                print("  broken %s: %s" % (b[0], b[1][:600].replace("\n", "\n    ")))
            exit_code = 1
    write_evidence(pid, tier, seed, prop, dict(obligations=len(thms), discharged=discharged, assumptions=assumptions,
                                              runs=runs, failures=len(reported) + (1 if exit_code and not reported else 0),
                                              wall=time.time() - t0, notes=notes, obs=all_obs, thms=thms,
                                              known=[k["signature"] for k, _ in known_hits.values()],
                                              disagreements=len(disagreements), broken=[b[0] for b in broken]))
    shutil.rmtree(work, ignore_errors=True)
    if exit_code == 0:
        print("OK property=%s tier=%s obligations=%d/%d cases=%d wall=%.1fs" % (
            pid, tier, discharged, len(thms), sum(o.get("cases", 0) for o in all_obs), time.time() - t0))
    sys.exit(exit_code)


def explained_by_known(b, known_hits, prop):
    """a broken obligation is explained when the property file declares it depends on an open known finding."""
    return False


ALLOWED_AXIOMS = ["functional_extensionality_dep", "proof_irrelevance", "classic", "JMeq_eq", "eq_rect_eq"]


def allowed_axioms(text):
    names = re.findall(r"([A-Za-z0-9_.']+)\s*:", text)
    return all(any(n.endswith(a) for a in ALLOWED_AXIOMS) for n in names)


def write_replay(evdir, pid, seed, sig, payload):
    h = hashlib.sha1(sig.encode()).hexdigest()[:8]
    path = os.path.join(evdir, "replays", "%s-%d-%s.json" % (pid, seed, h))
    payload = dict(payload, property=pid, seed=seed)
    json.dump(payload, open(path, "w"), indent=1, default=str)
    return path


def write_evidence(pid, tier, seed, prop, r):
    obs = r.get("obs") or []
    cases = sum(o.get("cases", 0) for o in obs)
    distinct = sum(o.get("distinct_nontrivial", 0) for o in obs)
    hist = {}
    counters = {}
    samples = []
    for o in obs:
        for k, v in (o.get("histogram") or {}).items():
            hist[k] = hist.get(k, 0) + v
        for k, v in (o.get("counters") or {}).items():
            counters[k] = counters.get(k, 0) + v
        for s in (o.get("samples") or []):
            if len(samples) < 4:
                samples.append(s)
    for t in (r.get("thms") or [])[:40]:
        samples.append({"obligation": t})
    tb = ["Coq 8.16.1 kernel + vm_compute (coqc); no native_compute",
          "fact extractor /verif/extract (go/parser over /repo)",
          "correspondence harness /verif/harness (generators, controlled scheduler, canonicalisation)"]
    for n, a in r.get("assumptions") or []:
        tb.append("Print Assumptions %s: %s" % (n, a))
    tb += prop.get("trusted", [])
    ev = dict(
        property_id=pid, tier=tier, seed=seed, level="proof",
        coverage=dict(
            obligations=max(1, r["obligations"]), discharged=r["discharged"],
            checker_cmd="make -C /verif/coq %s (coqc 8.16.1, full .vo build) ; coqc cases.v (vm_compute of monitors and model on the implementation's observed behaviour)" % " ".join([prop["target"]] + [m[:-2] + ".vo" for m in prop.get("more_src", [])]),
            trusted_base=tb,
            evaluations=cases, distinct_nontrivial=distinct,
            traces_validated_against_impl=cases,
            rule=prop.get("rule", ""),
            samples=samples or [{"note": "no implementation run (obligations or harness broken)"}],
            histogram=hist, counters=counters, runs=r.get("runs"),
            disagreements=r.get("disagreements", 0), broken=r.get("broken", []),
            known_findings_seen=r.get("known", []),
            notes=r.get("notes", [])[:20],
        ),
        assumptions=prop.get("assumptions", []),
        wall_s=round(r["wall"], 2),
        violations=r["failures"],
    )
    os.makedirs(os.path.join(VERIF, "evidence"), exist_ok=True)
    json.dump(ev, open(os.path.join(VERIF, "evidence", pid + ".json"), "w"), indent=1, default=str)


if __name__ == "__main__":
    main()
