"""bin/check configuration of C10 (variable / environment precedence) and C11 (non-interference): model E "Vars".

Every monitor result of the vars driver is already attributed, in Coq, to the property of the code that has to be
repaired for the documented value to come out (Run/VarsCases.v: blame / nblame), so a signature names one defect:
a violation that none of the modelled defects explains lands in R_v_other / R_n_other and gets a signature of its own.
"""


def _sites(inp):
    return "+".join(inp.get("sites") or []) or "none"


C10_SIG = {
    "R_v_snapshot": "vars:included-task-gets-snapshot-of-parent-vars",
    "R_v_leak": "vars:included-file-vars-merged-into-parent-globals",
    "R_v_eager": "vars:include-statement-vars-templated-at-read-time",
    "R_v_osfirst": "vars:include-statement-template-sees-os-env-over-including-files-vars",
    "R_v_cache": "vars:dynamic-var-cache-keyed-by-text-only",
}


def sig_c10(f):
    k = f["kind"]
    inp = f.get("input") or {}
    if k in C10_SIG:
        return C10_SIG[k]
    if k == "R_v_other":
        return "vars:unexplained:depth=%s:sites=%s:mode=%s" % (inp.get("depth"), _sites(inp), inp.get("mode"))
    if k == "R_e_mon":
        # which documented place should have supplied the value, and how it was written
        sites = inp.get("sites") or []
        expected = next((s_ for s_ in ("tenv", "tdot1", "tdot2", "genv", "gdot1", "gdot2") if s_ in sites), "none")
        if "os" in sites and not inp.get("exp"):
            expected = "os"
        shs = (inp.get("genv_sh") or []) + (inp.get("tenv_sh") or [])
        kind = "sh" if shs else "literal"
        return "env:documented-order:exp=%s:os=%s:expected=%s:values=%s" % (inp.get("exp"), "os" in sites, expected, kind)
    if k == "R_v_agree":
        return "vars:model-disagrees-with-implementation"
    if k == "R_e_agree":
        return "env:model-disagrees-with-implementation"
    return "vars:" + k


C11_SIG = {
    "R_n_dir": "cache:dynamic-var-key-ignores-dir",
    "R_n_own_dir": "cache:dynamic-var-key-ignores-dir",
    "R_n_env": "cache:dynamic-var-key-ignores-env",
    "R_n_own_env": "cache:dynamic-var-key-ignores-env",
    "R_n_dirlate": "task-dir:templated-before-global-vars",
    "R_n_own_dirlate": "task-dir:templated-before-global-vars",
    "R_n_defer": "defer:rendered-entry-written-into-shared-definition",
    "R_n_matrix": "matrix-ref:resolved-list-written-into-shared-row",
    "matrix-crosstalk": "matrix-ref:resolved-list-written-into-shared-row",
}


def _changed_defs(inp):
    before = {r.get("key"): r.get("items") for r in inp.get("defs_before") or []}
    after = {r.get("key"): r.get("items") for r in inp.get("defs_after") or []}
    return sorted(k for k in set(before) | set(after) if before.get(k) != after.get(k))


def sig_c11(f):
    k = f["kind"]
    inp = f.get("input") or {}
    if k in C11_SIG:
        return C11_SIG[k]
    if k == "R_n_defs":
        # which part of the shared task definitions changed while tasks ran
        ch = _changed_defs(inp)
        if ch and all(c.endswith("/defer") for c in ch):
            return "defer:rendered-entry-written-into-shared-definition"
        varblocks = ("vars", "env", "includevars", "includedtaskfilevars", "callvars")
        if ch and all(c.split("/")[-1] in varblocks for c in ch):
            return "vars:definition-of-a-variable-rewritten-in-the-shared-taskfile"
        if ch and not any(c.endswith("/defer") or c.split("/")[-1] in varblocks for c in ch):
            return "matrix-ref:resolved-list-written-into-shared-row"
        return "defs:shared-definition-changed:" + ",".join(sorted(set(c.split("/")[-1] for c in ch))[:4])
    if k == "R_n_other":
        # which of the target's outputs differ between the alone run and the in-context run
        a, c = inp.get("alone") or {}, inp.get("ctx") or {}
        diff = "+".join(x for x in ("vars", "env", "items", "defers") if a.get(x) != c.get(x)) or "none"
        tgt = (inp.get("tasks") or [{}])[inp.get("target") or 0] if inp.get("tasks") else {}
        kind = "defer-caller" if tgt.get("dfr") else "called-with-vars" if tgt.get("leaf") else "matrix-caller" if tgt.get("caller") else "plain"
        return "ni:alone-differs-from-in-context:%s:target=%s:concurrent=%s" % (diff, kind, bool(inp.get("parallel")) or inp.get("combine") == "deps")
    if k == "R_n_agree":
        return "ni:model-disagrees-with-implementation"
    return "ni:" + k


_TRUSTED = [
    "modelled, not verified: text/template (a {{.NAME}} action renders the value, <no value> -> \"\"), mvdan/sh (echo / pwd / $NAME), godotenv, yaml.v3",
    "the shell is a function of (command text, directory, environment): w_sh in Vars/Model.v; commands reading the clock or files are outside the model",
    "values are strings; a list-valued variable (for: matrix: ref) is its items joined by spaces",
]

PROPS = {
    "C10": dict(
        src="Properties/C10.v", target="Properties/C10.vo",
        # statements about the tree as it is: the "flag is repaired" premises discharged against Extracted.Facts
        more_src=["Properties/C10Current.v"],
        support=["Vars/Model.vo", "Vars/Proofs.vo", "Vars/ProofsSites.vo", "Vars/ProofsEnv.vo"], run_targets=["Run/VarsCases.vo"],
        drivers=[dict(name="vars", extra="prop=C10", n_quick=1408, n_thorough=256 * 24, shard=256,
                      results={"R_v_agree": "agree", "R_e_agree": "agree",
                               "R_v_snapshot": "mon", "R_v_leak": "mon", "R_v_eager": "mon", "R_v_osfirst": "mon", "R_v_cache": "mon",
                               "R_v_other": "mon", "R_e_mon": "mon"})],
        signature=sig_c10,
        rule="cases: (v) one name defined at a subset of the sites {OS env, root vars, CLI NAME=value, include-statement vars, included-Taskfile vars, call vars, task vars, special-variable name (with literal values all of TASK, ALIAS, TASK_DIR, ROOT_DIR, ROOT_TASKFILE, TASKFILE, TASKFILE_DIR, USER_WORKING_DIR are defined and probed at once)} "
             "for a task at include depth 0/1/2; shards 0-2 enumerate all 256 subsets with literal values per depth, later shards draw subsets with value kinds literal / template of the same or another name / sh: / ref:; "
             "(e) one name at a subset of {OS, global env, global dotenv x2, task dotenv x2, task env} with and without TASK_X_ENV_PRECEDENCE=1, shard 3 enumerates all 128x2 with literal values, shard 4 the same with the env: entries written as sh: commands. "
             "Each case is a Taskfile tree on disk run by the real task binary; probes print {{.N}} / $N. "
             "agree: printed values = model E with the layer order, cache key and merge facts extracted from /repo; mon: printed values = documented order (mon_vars / mon_env, the functions of Properties/C10.v). "
             "A false monitor is attributed in Coq to the smallest set of modelled code properties whose repair yields the documented values. "
             "non-trivial = at least one site defined; distinct = distinct (case, printed values)",
        assumptions=["documented order = usage.mdx 'Variables' list; global env:, special variables and OS environment close it in the order getVariables applies them",
                     "for nested includes the included-Taskfile vars of all levels form one place (inner file overrides), likewise the include statements (outer overrides, as Tasks.Merge does)",
                     "templates and refs are evaluated in the environment written by lower-priority places and earlier entries of the same place"],
        trusted=_TRUSTED,
    ),
    "C11": dict(
        src="Properties/C11.v", target="Properties/C11.vo",
        # statements about the tree as it is: the "flag is repaired" premises discharged against Extracted.Facts
        more_src=["Properties/C11Current.v"],
        support=["Vars/Model.vo", "Vars/Proofs.vo", "Vars/ProofsCache.vo"], run_targets=["Run/VarsCases.vo"],
        drivers=[dict(name="vars", extra="prop=C11", n_quick=150, n_thorough=3000, shard=150,
                      results={"R_n_agree": "agree", "R_n_dir": "mon", "R_n_env": "mon", "R_n_matrix": "mon", "R_n_defer": "mon", "R_n_other": "mon",
                               "R_n_own_dir": "mon", "R_n_own_env": "mon", "R_n_own_dirlate": "mon", "R_n_dirlate": "mon", "R_n_defs": "mon"})],
        signature=sig_c11,
        rule="cases: a generated root Taskfile with 2-4 tasks (dir: one of three, sh: variables / env entries with equal text 'pwd', 'echo x$VR', 'echo s$TASK', 'echo y$VQ', callers of a for: matrix: ref task with different lists, callers of a task with two templated defer: entries (a command and a task call) with different vars, "
             "task-level dotenv: with one relative file name in three directories, a Taskfile-level env entry templated over a call variable, Taskfile-level vars / env that refer to the per-task special variables TASK / ALIAS as template, as sh: reading $TASK and as sh: whose TEXT is a template, task-level sh: vars with templated text); "
             "the target task is run alone in a fresh Executor and after (or, Parallel, together with) a random prefix of the other tasks in ONE Executor - by one Run call, or through a combining task with cmds:, a for: loop or (concurrently) deps: -; probe lines incl. the output of deferred commands compared (mon_same), "
             "every variable (value, sh: text, ref) of the Taskfile-level and per-task var/env/include blocks and of call vars, matrix rows and every field of the defer: entries of the shared task definitions dumped before and after (mon_defs), alone values compared with the shell's value in the task's own dir/env (own). "
             "agree: model E's compile_seq with the extracted cache key and matrix-write fact reproduces both runs (parallel: every printed value is that of some order). "
             "Plus one stress run per check: 8 goroutines x N CompiledTask calls of the matrix task with different lists, counting compilations that got another call's items. "
             "non-trivial = the target prints at least one probe; distinct = distinct (Taskfile, order, outputs)",
        assumptions=["the shell is a function of (text, dir, env)", "compilations are atomic with respect to the cache (muDynamicCache) except for the matrix row write/read, which the model splits in two phases"],
        trusted=_TRUSTED,
    ),
}
