"""C16 (model I "Decode"): registration for bin/check."""
import re


def sig_c16(f):
    """One narrow signature per distinct defect: the top go-task frame of the panic stack plus the
    class of the panic message (computed by the driver), e.g.
    panic:taskfile/ast.(*Var).UnmarshalYAML:index-out-of-range ; timeouts and undocumented exit codes likewise."""
    k = f.get("kind", "")
    detail = f.get("detail") or ""
    m = re.match(r"sig=(\S+)", detail)
    if m:
        return m.group(1)
    inp = f.get("input") or {}
    obs = (inp.get("observed") or {}) if isinstance(inp, dict) else {}
    if k == "R_mon":
        cls = obs.get("class")
        if cls == "panic":
            return obs.get("sig") or "panic:?"
        if cls == "timeout":
            return "timeout:" + (obs.get("phase") or "?")
        if cls == "err":
            return "exit-code:%s" % obs.get("code")
        return "R_mon:?"
    if k in ("R_tree", "R_decode", "R_snip", "R_loc", "R_wild"):
        # a disagreement between model and implementation
        return "%s:%s" % (k, obs.get("sig") or obs.get("class") or "?")
    return k


PROPS = {
    "C16": dict(
        src="Properties/C16.v", target="Properties/C16.vo",
        support=["Decode/Model.vo"], run_targets=["Run/DecodeCases.vo"],
        drivers=[dict(name="decode", n_quick=2400, n_thorough=40000, shard=300,
                      results={"R_mon": "mon", "R_decode": "agree", "R_tree": "agree",
                               "R_snip": "agree", "R_loc": "agree", "R_wild": "agree"})],
        signature=sig_c16,
        rule="TODO",
        assumptions=[],
        trusted=[],
    ),
}
