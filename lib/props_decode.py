"""C16 (model I "Decode"): registration for bin/check."""
import re


def sig_c16(f):
    """One narrow signature per distinct defect.

    For a panic: the top go-task frame of the panic stack (closure / range-func suffixes and line
    numbers removed) plus the class of the panic message, as computed by the driver, e.g.
      panic:taskfile/ast.(*Var).UnmarshalYAML:index-out-of-range
      panic:internal/templater.ReplaceGlobs:nil-deref
    For a hang: timeout:<phase>.  For an exit code outside errors/errors.go: exit-code:<n>.
    The driver puts it on the first line of an impl_failure's message ("sig=...") and into the observed
    outcome stored with the case input, so that a monitor failure (R_mon) of the same case maps to the same
    signature.  A disagreement between model and implementation gets its own signature (never in known.d)."""
    k = f.get("kind", "")
    detail = f.get("detail") or ""
    m = re.match(r"sig=(\S+)", detail)
    if m:
        return m.group(1)
    inp = f.get("input") or {}
    obs = (inp.get("observed") or {}) if isinstance(inp, dict) else {}
    if k == "R_mon":
        cls = obs.get("class")
        if cls == "panic":
            return obs.get("sig") or "panic:?"
        if cls == "timeout":
            return "timeout:" + (obs.get("phase") or "?")
        if cls == "err":
            return "exit-code:%s" % obs.get("code")
        return "R_mon:?"
    if k in ("R_tree", "R_decode", "R_snip", "R_loc", "R_wild"):
        return "%s:%s" % (k, obs.get("sig") or obs.get("class") or "?")
    return k


PROPS = {
    "C16": dict(
        src="Properties/C16.v", target="Properties/C16.vo",
        # statements about the tree as it is: the "flag is repaired" premises discharged against Extracted.Facts
        more_src=["Properties/C16Current.v"],
        support=["Decode/Model.vo"], run_targets=["Run/DecodeCases.vo"],
        drivers=[dict(name="decode", n_quick=2400, n_thorough=24000, shard=300,
                      results={"R_mon": "mon", "R_decode": "agree", "R_tree": "agree",
                               "R_snip": "agree", "R_loc": "agree", "R_wild": "agree"})],
        signature=sig_c16,
        rule="PARTIAL (DESIGN 5 C16, 8): the theorems cover go-task's own decode / compile / snippet / include-location logic over abstract node trees; "
             "yaml.v3, text/template, regexp, chroma, giturls are oracles in the model and are covered by this fuzz only (not proof). "
             "cases: (tree) node trees generated along the Taskfile schema with deviations at every node (null / empty map / empty seq / wrong kind, nulls in list positions, "
             "regex metacharacters in names, odd include locations, timestamps), every single-node mutation of a maximal well-formed Taskfile (a quarter per run in the quick tier, all in the thorough tier), "
             "the same mutations and random deviations applied to an INCLUDED Taskfile reached directly, flattened and at depth 2 (Tasks.Merge deep-copies every field: a null entry in every list position is taken in two of the four shapes per quick run, the other mutations rotate; all of them in the thorough tier), "
             "(inc-options) includes whose options name tasks that exist in the included file: excludes: of existing tasks (default among them), aliases, internal, vars, a root task shadowing the namespace, depth 1 and 2, flattened or not; "
             "(inc-optional) optional includes whose Taskfile exists but cannot be used (tasks: 42, no version, wrong kinds, dotenv, old version, missing inner include as trees; empty file, syntax error, comment only, binary, CR line ends as bytes), plain / in a sub-directory / internal / flatten / excludes+aliases; the include shapes of the mutation families also carry optional: true, "
             "(expand) strings for execext.ExpandLiteral / ExpandFields from a hostile alphabet (shell comments, blanks only, $VAR, ${...}, ~, quotes, backslashes, ;|>&, globs) as task dir, include location, include dir, dotenv path, sources/generates glob, literally and through template variables (global, task level, command line OUT=#1, default filter); the random generator draws dirs, dotenv paths, globs and include locations from the same pool, "
             "(reader) well-formed deep include chains (depth 3-12, also flattened) and wide / wide-and-nested trees (4-12 siblings, each with includes of its own): reading must terminate; a deadline hit while every goroutine of the child is blocked is an impl_failure of kind deadlock (no retry), "
             "(concurrency) valid Taskfiles with 50-160 wildcard tasks whose first lookups happen at once (a task with that many wildcard-resolved deps, Run with Parallel, and the CLI with --parallel): a fatal error of the Go runtime ends the child process and is an impl_failure of kind fatal, "
             "serialised to YAML and run in-process through the REAL yaml.Unmarshal into ast.Taskfile -> Executor.Setup -> GetTask/FastCompiledTask/CompiledTask of every task and of a few requested names "
             "-> ListTasks (plain, JSON) -> dry Run of every task, each under recover and a deadline in a child process that is replaced when a goroutine of go-task panics or hangs; "
             "(bytes) malformed byte streams (CR / NEL / LS / PS terminators, BOMs, aliases, merge keys, tags, deep nesting, damaged documents): monitor only; "
             "(snip / loc / wild) unit probes of taskfile.NewSnippet, taskfile.NewNode and ast.Task.WildcardMatch; "
             "a sample of the documents also through the real CLI ($VERIF_TASK_BIN under a SIGKILL deadline): exit code must be one of errors/errors.go and the output must not hold panic: / goroutine. "
             "R_mon = mon_C16 (no panic, no hang, documented exit code) on the observed outcome; R_decode = exact outcome of the decoder vs decode_taskfile; "
             "R_tree = observed outcome fits predict (panic site in must++may, no panic when must is non-empty is a disagreement, exact outcome when the model determines it); "
             "R_snip / R_loc / R_wild = panic-or-not vs snippet_bounds / new_node / wildcard_compile. The model variant is `current`, built from the extracted guard facts. "
             "A real panic, fatal error or hang is an impl_failure whatever the model says (only a hang during the dry RUN of tasks is inconclusive: executing is outside C16's termination clause; a hang while reading, merging, compiling or listing is a violation). "
             "non-trivial = at least one probe ran; distinct = distinct (kind, input bytes, outcome) tuples",
        assumptions=[
            "claimed level: partial — bytes -> node tree (yaml.v3's scanner/parser/resolver), template parsing and execution, regexp compilation, chroma highlighting and giturls parsing are NOT modelled; "
            "their verdicts enter the model as oracles (theorems quantify over all oracles) and their own crash-freedom is only sampled by the fuzz",
            "C16_no_panic_compile for a variant that keeps regexp.MustCompile assumes the law of regexp that a QuoteMeta'd literal always compiles (hypothesis inside all_guards; not needed when Compile's error is handled)",
            "the reader is modelled as a sequential depth-first walk; the real one runs the includes of a file on goroutines (a panic on any of them ends the process: first_panic), termination is proved for the walk",
            "run-time behaviour beyond the guards of RunTask (platform / requires) is not modelled; sites reachable only after unmodelled checks are predicted as 'may'",
        ],
        trusted=[
            "modelled as oracles, not verified: mvdan.cc/sh's word parser (o_words: how many shell words a string is), gopkg.in/yaml.v3 (parser, tag resolution, generic decoding rules as transcribed in Decode/Model.v), text/template + sprig, regexp, chroma, chainguard-dev/git-urls, semver, time.ParseDuration",
            "the driver's rendering of node trees to YAML (flow style, double-quoted strings, untagged scalars) and its panic-signature extraction from Go stack traces",
            "extract/facts_decode.go: syntactic guard detection (len check in Var.UnmarshalYAML / NewGitNode / ExpandLiteral, nil-receiver test of the DeepCopy methods, nil comparison in the range loop, QuoteMeta / MustCompile calls, clamp shape of NewSnippet)",
        ],
    ),
}
